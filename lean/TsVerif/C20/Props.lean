import TsVerif.C20.Judge
import TsVerif.C20.Roundtrip
import TsVerif.C20.FormatNormalize
/-!
# C20 — property theorems

Property: *Running the CLI's corpus test command with update on any well-formed corpus file rewrites
only expected outputs: test names, attributes, order and input bytes are unchanged, every updated
test whose parse is error-free passes afterwards, and a second update leaves the file
byte-identical.  Reading a corpus file and writing it back never merges, splits or drops tests,
whatever delimiter lengths and suffixes it uses.*

Clause map (model = `TsVerif/C20/Model.lean`, tied to crates/cli/src/test.rs and lib/binding_rust `format_sexp` by
correspondence on every run; "general" theorems live in `Idempotent.lean`, which imports this file; they are stated for
the model with the committed repairs, which is the variant the behavioural probes select on /repo HEAD).

| phrase of the property | theorem(s) | status / what is weaker than the text |
|---|---|---|
| "on any well-formed corpus file" | — | "well-formed" is made precise by the hypotheses: the run writes (no `:fail-fast` stop, no unknown language); the corrections are `SimpleS suf` (delimiters ≥ 3; name lines not blank / marker / `===…`; attribute text = marker lines; no line of an input/expectation is a `===` line with the file's suffix, nor a `---` line with the file's suffix that is longer than (input) / at least as long as (expectation) the divider; in an unsuffixed file no `===` line at all); `EntryOKG` (≥ 1 language, `has_fields` as the reader computes it, expectation empty / ONE balanced S-expression, resp. trimmed CST text, usable parser answer); attribute flags canonical for the attribute text.  Each guard has a witness that it is needed (below); the data-dependent ones are MEASURED on every real entry (obligations `tie:…`). |
| "rewrites only expected outputs: test names, attributes, order and input bytes are unchanged" | `update_preserves_general` (file level, with or without `--include` or `--exclude`: same tests in the same order, each with the same name, attribute text, attribute FLAGS, input, delimiter lengths; leading text and delimiter suffix unchanged); entry level `updateEntries_keys_fixed`, `updateEntriesF_all2`; for the code BEFORE the repairs `update_preserves_partial`/`update_preserves_simple` + witnesses `update_drops_skip`, `update_drops_other_platform`, `update_duplicates_per_language`, `filtered_update_reformats_cst` | proved under the hypotheses above.  "input bytes": the model works on the decoded `String` (files are UTF-8; a non-UTF-8 file is an I/O error in the real code: not modelled).  Text BETWEEN tests is part of the previous test's expectation section and may be rewritten — consistent with the text. |
| "every updated test whose parse is error-free passes afterwards" | `update_passes_general`; earlier special case `update_passes_partial`; ingredients `format_normalize_spec` (`normalize_sexp_output (format_sexp s) = s` for every balanced token sequence = what the runtime prints for error-free trees, class membership measured), `normalize_section`, `readbackG`, `trim_section` (CST) | proved for tests the filter lets run, not skipped / other platform / `:error`; for a test with several languages "passes" is stated for the FIRST language (one expectation cannot match two different renderings: inherent, example `fExL`).  "error-free" = the rendering contains neither `ERROR` nor `MISSING` (what the code tests). |
| "a second update leaves the file byte-identical" | `update_idempotent_general`, `update_idempotent_unfiltered`; special case `update_idempotent_partial`; witnesses that the expectation guard is needed: `idempotent_fails_two_toplevel_expectation`, `format_sexp_quote_state` (code before the quote repair) | proved (bytes) under the hypotheses above; NOT covered: expectations that are not one balanced S-expression (false there), inputs with `===suffix` lines. |
| "Reading a corpus file and writing it back never merges, splits or drops tests, whatever delimiter lengths and suffixes it uses" | `roundtrip_suffixed` / `parse_write_roundtrip_partial` / `roundtrip_built` (every list of `SimpleS` corrections, all delimiter lengths ≥ 3, every admissible suffix: one entry per correction, in order, same name / attribute text / flags / input / delimiter lengths / expectation read back); `splitIncl_flatten` (reading loses no bytes); exactness witnesses `roundtrip_fails_delimiter_in_input`, `roundtrip_fails_equal_dash_in_output`, `roundtrip_fails_own_suffix_in_input`, `roundtrip_fails_equals_line_unsuffixed`, `roundtrip_fails_untrimmed_name` | proved for WRITTEN files (`parse (write cs)`); "read then write then read" for an arbitrary file `f` follows only when `(parse f)`'s entries satisfy `SimpleS` — that is a hypothesis on `f`, measured per run through the correspondence of `parseFile` with the real `parse_tests` and the judge's `classify`.  Delimiter lengths < 3 are not delimiters. |
| "… attributes … unchanged" / round trip: attribute FLAGS before = after (round 11, `Round11.lean`, `Round11b.lean`) | `parseHeader_canonical_ws_partial` (the flags `parse_header` returns for ANY header block `opening line :: name lines ++ attribute region ++ closing delimiter` — region = any complete lines starting with a recognised attribute, trailing white space / CRLF / blank lines / unknown `:foo` lines allowed — are `flagsOf name attrsStr`: the "canonical flags" hypothesis of the general theorems, proved from the header's shape; `parseHeader_canonical_partial` = the trimmed special case), `roundtrip_flags_partial`, `roundtrip_flags_of_headers_ws_partial` (`flags (parse (write t)) = flags t`: skip / error / fail-fast / cst / platform / languages), `written_canonical`; lemmas `headerLine_flags`, `foldHeader_flags`, `trimEnd_lines`, `foldHeader_trimLast` | `_partial`: name / attribute lines that are `===` runs with a foreign suffix are excluded (`NoDelim '='`); an argument-less `:platform` / `:language` line in the NAME region is excluded because the statement is false there for the real code (attribute text empty although later markers set flags).  Tie: the real entries' flags are compared with `parseFile` on every file and `attrs = flagsOf …` is measured on every real entry (`tie:real-entries-have-…-canonical-flags`). |
| (implicit) the Ok/Err result, directory runs, `strip_sexp_fields` | `updateStatus`, directory mode, `stripSexpFields` — modelled and corresponded, no theorem | correspondence only |

Judge-only strengthening of "rewrites only expected outputs" (no theorem beyond `updateEntry_spec`): clause `passing-changed` — a test
that passes as written, or whose expectation the update must keep, or that a filtered update carries over, reads back with the SAME
expectation (it is only re-formatted).  This found the open defect C20-format-sexp-same-quote (`(MISSING """)`; `Fixes.sameQuote`).

How "well-formed" is applied to the REAL files (judge, `Judge.lean`): clause `read-differs` (unguarded) — the real reader returns
the tests that `parseFile` delimits; all other clauses are judged when `canonB` holds: the file's tests, with the expectations a
correct update writes, written in canonical form read back (by `parseFile`) with the same names, attribute text, inputs, delimiter
lengths.  `SimpleS` (decidable, `SimpleDec.lean`) implies `canonB` by `roundtrip_built`; the check asserts this on every case and
reports both fractions (quick: `canonB` 512/515, `SimpleS` 386/515).  Files outside `canonB` are those where an input / expectation
line to be written is itself a delimiter of the file (witnesses `roundtrip_fails_*`).

Everything above is about the MODEL; the step to the Rust code is the per-run correspondence (entries, rewritten bytes of two
update rounds, status, second file of directory runs: equal on every explored file) and the judge on the real files.
-/
namespace TsVerif.C20

/-- An entry that `run_tests` processes exactly once: not skipped, for this platform, one language. -/
def RunOnce (e : Entry) : Prop :=
  e.attrs.expect ≠ .skip ∧ e.attrs.platform = true ∧ ∃ l, e.attrs.languages = [l]

/-! ## the update keeps names, attribute text, inputs and order -/

theorem updateLang_form (fx : Fixes) (e : Entry) (a : Actual) : ∃ o b, updateLang fx e a = (e.corr o, b) := by
  unfold updateLang
  dsimp only
  repeat' split
  all_goals exact ⟨_, _, rfl⟩

theorem updateLang_skey (fx : Fixes) (e : Entry) (a : Actual) : (updateLang fx e a).1.skey = e.skey := by
  obtain ⟨o, b, h⟩ := updateLang_form fx e a
  rw [h]; rfl

/-- The per-language loop: every correction it returns carries the entry's key; without the
one-correction repair it adds one per language, with it the result has exactly one element as soon
as there is a language to run or one was already recorded. -/
theorem updateLangs_spec (fx : Fixes) (orc : Oracle) (e : Entry) :
    ∀ (ls : List Str) (acc cs : List Correction), (∀ c ∈ acc, c.skey = e.skey) →
      updateLangs fx orc e ls acc = .cont cs →
      (∀ c ∈ cs, c.skey = e.skey) ∧
      (fx.oneCorrection = false → cs.length = acc.length + ls.length) ∧
      (fx.oneCorrection = true → acc.length ≤ 1 → (ls ≠ [] ∨ acc.length = 1) → cs.length = 1)
  | [], acc, cs, hacc, h => by
    simp only [updateLangs, Step.cont.injEq] at h
    subst h
    exact ⟨hacc, by simp, by intro _ h1 h2; simpa using h2⟩
  | l :: ls, acc, cs, hacc, h => by
    unfold updateLangs at h
    cases ho : orc l e.input with
    | none => simp [ho] at h
    | some a =>
      simp only [ho] at h
      by_cases hs : (updateLang fx e a).2 = true
      · simp [hs] at h
      · simp only [hs] at h
        have hk := updateLang_skey fx e a
        cases hone : fx.oneCorrection with
        | false =>
          simp only [hone] at h
          have := updateLangs_spec fx orc e ls (acc ++ [(updateLang fx e a).1]) cs
            (by intro c hc; simp at hc; rcases hc with hc | hc; exact hacc c hc; exact hc ▸ hk) (by simpa using h)
          refine ⟨this.1, ?_, by simp⟩
          intro _; have := this.2.1 hone; simp at this ⊢; omega
        | true =>
          simp only [hone] at h
          have hacc' : ∀ c ∈ (acc ++ [(updateLang fx e a).1]).take 1, c.skey = e.skey := by
            intro c hc
            have := List.mem_of_mem_take hc
            simp at this; rcases this with hc | hc; exact hacc c hc; exact hc ▸ hk
          have := updateLangs_spec fx orc e ls _ cs hacc' (by simpa using h)
          refine ⟨this.1, by simp, ?_⟩
          intro _ hle _
          apply this.2.2 hone
          · simp <;> omega
          · right; simp <;> omega

/-- What `run_tests` records for one entry: when it goes on (`cont`), every correction has the
entry's key; an entry run exactly once gives exactly one; with both repairs EVERY entry with a
non-empty language list gives exactly one. -/
theorem updateEntry_spec (fx : Fixes) (orc : Oracle) (e : Entry) (cs : List Correction)
    (h : updateEntry fx orc e = .cont cs) :
    (∀ c ∈ cs, c.skey = e.skey) ∧
    (RunOnce e → cs.length = 1) ∧
    (fx.keepUnrun = true → fx.oneCorrection = true → e.attrs.languages ≠ [] → cs.length = 1) := by
  unfold updateEntry at h
  dsimp only at h
  by_cases h1 : e.attrs.expect = .skip
  · simp only [h1, beq_self_eq_true, ↓reduceIte, Step.cont.injEq] at h
    subst h
    refine ⟨?_, fun hr => absurd h1 hr.1, ?_⟩
    · intro c hc; split at hc <;> simp at hc; subst hc; rfl
    · intro hk _ _; simp [hk]
  · have : (e.attrs.expect == Expect.skip) = false := by simpa using h1
    simp only [this] at h
    by_cases h2 : e.attrs.platform = true
    · simp only [h2] at h
      have sp := updateLangs_spec fx orc e e.attrs.languages [] cs (by simp) (by simpa using h)
      refine ⟨sp.1, ?_, ?_⟩
      · rintro ⟨_, _, l, hl⟩
        cases hone : fx.oneCorrection with
        | false => have := sp.2.1 hone; simp [hl] at this; exact this
        | true => exact sp.2.2 hone (by simp) (by left; simp [hl])
      · intro _ hone hne
        exact sp.2.2 hone (by simp) (Or.inl hne)
    · have h2' : e.attrs.platform = false := by simpa using h2
      simp only [h2', Bool.not_false, Bool.false_eq_true, ↓reduceIte, Step.cont.injEq] at h
      subst h
      refine ⟨?_, fun hr => absurd hr.2.1 h2, ?_⟩
      · intro c hc; split at hc <;> simp at hc; subst hc; rfl
      · intro hk _ _; simp [hk]

theorem skey_of_singleton {cs : List Correction} {k : Str × Str × Str}
    (h1 : ∀ c ∈ cs, c.skey = k) (h2 : cs.length = 1) : cs.map Correction.skey = [k] := by
  match cs, h2 with
  | [c], _ => simp [h1 c (by simp)]

/-- `updateEntries_keys`: when the update run reaches `write_tests`, the corrections it writes carry, in
order, exactly the (name, attribute text, input) of the entries — provided every entry yields exactly
one correction.  All entry lists, all oracles (parsers), all repair flags. -/
theorem updateEntries_keys_of (fx : Fixes) (orc : Oracle) :
    ∀ (es : List Entry) (acc cs : List Correction),
      (∀ e ∈ es, ∀ cs', updateEntry fx orc e = .cont cs' → cs'.length = 1) →
      updateEntries fx orc es acc = some cs →
      cs.map Correction.skey = acc.map Correction.skey ++ es.map Entry.skey
  | [], acc, cs, _, h => by simp [updateEntries] at h; simp [h]
  | e :: es, acc, cs, hp, h => by
    unfold updateEntries at h
    cases hu : updateEntry fx orc e with
    | stop => simp [hu] at h
    | err => simp [hu] at h
    | cont cs' =>
      simp only [hu] at h
      have sp := updateEntry_spec fx orc e cs' hu
      have hk := skey_of_singleton sp.1 (hp e (by simp) cs' hu)
      have := updateEntries_keys_of fx orc es (acc ++ cs') cs (fun e he => hp e (by simp [he])) h
      simp [this, hk]

/-- Unchanged code (any flags): entries that are run exactly once keep name, attribute text, input, order. -/
theorem updateEntries_keys (fx : Fixes) (orc : Oracle) (es : List Entry) (cs : List Correction)
    (hp : ∀ e ∈ es, RunOnce e) (h : updateEntries fx orc es [] = some cs) :
    cs.map Correction.skey = es.map Entry.skey := by
  have := updateEntries_keys_of fx orc es [] cs
    (fun e he cs' hu => (updateEntry_spec fx orc e cs' hu).2.1 (hp e he)) h
  simpa using this

/-- With the two repairs `keepUnrun` and `oneCorrection`: ALL entries (skipped, other platform, several
languages) keep name, attribute text, input and order. -/
theorem updateEntries_keys_fixed (fx : Fixes) (orc : Oracle) (es : List Entry) (cs : List Correction)
    (hk : fx.keepUnrun = true) (ho : fx.oneCorrection = true)
    (hl : ∀ e ∈ es, e.attrs.languages ≠ []) (h : updateEntries fx orc es [] = some cs) :
    cs.map Correction.skey = es.map Entry.skey := by
  have := updateEntries_keys_of fx orc es [] cs
    (fun e he cs' hu => (updateEntry_spec fx orc e cs' hu).2.2 hk ho (hl e he)) h
  simpa using this

/-- Written files read back as what was written (the statement of `parse_write_roundtrip` for one
list of corrections and one delimiter suffix). -/
def RoundTrips (os : Str) (suf : Str) (cs : List Correction) : Prop :=
  (parseFile os (writeTests suf cs)).map Entry.skey = cs.map Correction.skey

instance (os suf : Str) (cs : List Correction) : Decidable (RoundTrips os suf cs) := by unfold RoundTrips; infer_instance

/-
OPEN (full strength, FALSE for the faithful model of the unchanged code — see the witnesses below):
theorem update_preserves (os : Str) (orc : Oracle) (f : Str) :
    (parseFile os (updateFile {} os orc f)).map Entry.key = (parseFile os f).map Entry.key
-/

/-- `update_preserves_partial` (unchanged code): for every corpus file all of whose tests are run exactly
once, if the run writes the file and the written file reads back as written (`RoundTrips`), the
update leaves names, attribute text, inputs and order unchanged.
Missing w.r.t. the full statement: skipped / other-platform / multi-language tests (genuine
defects, witnesses below) and the round trip of the writer for this file (suffix, see `Roundtrip`). -/
theorem update_preserves_partial (os : Str) (orc : Oracle) (f : Str) (cs : List Correction)
    (hne : parseFile os f ≠ [])
    (hp : ∀ e ∈ parseFile os f, RunOnce e)
    (hrun : updateEntries {} orc (parseFile os f) [] = some cs)
    (hrt : RoundTrips os [] cs) :
    (parseFile os (updateFile {} os orc f)).map Entry.skey = (parseFile os f).map Entry.skey := by
  have hk := updateEntries_keys {} orc _ cs hp hrun
  unfold updateFile
  split
  · next h => exact absurd h hne
  · next es hes =>
    simp only [hrun]
    unfold RoundTrips at hrt
    simp [hrt, hk]

/-! ## reading back what was written -/

/-
OPEN (full strength; FALSE as stated, see the witnesses at the end of this section):
theorem parse_write_roundtrip (os : Str) (f : Str) :
    (parseFile os (writeTests [] ((parseFile os f).map fun e => e.corr e.output))).map Entry.key = (parseFile os f).map Entry.key
-/

/-- `parse_write_roundtrip_partial`: for EVERY list of `Simple` corrections (delimiter lengths ≥ 3; a
name of one or several lines, none blank, a marker or `===…`; attribute text empty or lines starting
with a recognised attribute, none `===…`, no trailing white space; no line of the input
or of the expectation starting with `===`/`---`; input not ending in CR) and every admissible
suffix, the reader applied to the written file returns exactly one entry per correction, in order,
with the same name, attribute text, input and delimiter lengths: nothing merges, splits or is dropped.
Missing w.r.t. the full statement: delimiter-like
lines inside inputs/expectations (FALSE there, witness below). -/
theorem parse_write_roundtrip_partial (os suf : Str) (hse : SufOK '=' suf) (hsd : SufOK '-' suf)
    (cs : List Correction) (h : ∀ c ∈ cs, Simple c) :
    (parseFile os (writeTests suf cs)).map Entry.dkey = cs.map Correction.dkey :=
  roundtrip_simple os suf hse hsd cs (fun c hc => (h c hc).toS suf)

/-- `roundtrip_suffixed`: the round trip relative to the file's suffix (`SimpleS`).  In a file WITH a suffix the
suffix disambiguates: inputs and expectations may contain `===`/`---` lines of any length, and lines with another
suffix — only lines carrying the file's own suffix are excluded.  In a file without suffix, `---` lines
followed by text are allowed as well; `===` lines are not (witness `roundtrip_fails_equals_line_unsuffixed`). -/
theorem roundtrip_suffixed (os suf : Str) (hse : SufOK '=' suf) (hsd : SufOK '-' suf)
    (cs : List Correction) (h : ∀ c ∈ cs, SimpleS suf c) :
    (parseFile os (writeTests suf cs)).map Entry.dkey = cs.map Correction.dkey :=
  roundtrip_simple os suf hse hsd cs h

/-- The same without the delimiter lengths, in the form used by `update_preserves_partial`. -/
theorem roundTrips_simple (os suf : Str) (hse : SufOK '=' suf) (hsd : SufOK '-' suf)
    (cs : List Correction) (h : ∀ c ∈ cs, Simple c) : RoundTrips os suf cs := by
  have := congrArg (List.map fun k : Str × Str × Str × Nat × Nat => (k.1, k.2.1, k.2.2.1))
    (parse_write_roundtrip_partial os suf hse hsd cs h)
  simp only [List.map_map, Function.comp_def, Entry.dkey, Correction.dkey] at this
  exact this

/-- `update_preserves_simple` (unchanged code, no round-trip hypothesis): if every test of the file is run
exactly once and the corrections the run produces are `Simple`, then after the update the file
reads back with the same names, attribute texts, inputs, in the same order. -/
theorem update_preserves_simple (os : Str) (orc : Oracle) (f : Str) (cs : List Correction)
    (hne : parseFile os f ≠ [])
    (hp : ∀ e ∈ parseFile os f, RunOnce e)
    (hrun : updateEntries {} orc (parseFile os f) [] = some cs)
    (hs : ∀ c ∈ cs, Simple c) :
    (parseFile os (updateFile {} os orc f)).map Entry.skey = (parseFile os f).map Entry.skey :=
  update_preserves_partial os orc f cs hne hp hrun
    (roundTrips_simple os [] ⟨by simp, by simp⟩ ⟨by simp, by simp⟩ cs hs)

def cSimple : Correction :=
  { name := ['f', 'i', 'r', 's', 't'], input := ['a', ' ', '=', ' ', '1', ';', '\n', 'b', ';'],
    output := ['(', 's', ')'], attrsStr := [], hlen := 5, dlen := 3 }

/-- Non-vacuity: a two-line input with punctuation is `Simple`; `|||` is an admissible suffix. -/
example : Simple cSimple :=
  { hlen := by decide, dlen := by decide, attrs := Or.inl rfl, inputCr := by decide
    name := { lines := by decide, trimmed := by decide }
    inputLines := by decide, outputLines := by decide }
example : SufOK '=' ['|', '|', '|'] ∧ SufOK '-' ['|', '|', '|'] := by decide

/-- Non-vacuity with attribute text: `:skip`, a blank line, `:language(x)`. -/
def cAttrs : Correction :=
  { cSimple with attrsStr := [':', 's', 'k', 'i', 'p', '\n', '\n', ':', 'l', 'a', 'n', 'g', 'u', 'a', 'g', 'e', '(', 'x', ')'] }
example : Simple cAttrs :=
  { hlen := by decide, dlen := by decide, inputCr := by decide
    attrs := Or.inr ⟨⟨_, _, rfl, by decide⟩, by decide, by decide⟩
    name := { lines := by decide, trimmed := by decide }
    inputLines := by decide, outputLines := by decide }

/-- Non-vacuity with a name of two lines (`two` / `  lines`, the second one indented). -/
example : NameOK ['t', 'w', 'o', '\n', ' ', ' ', 'l', 'i', 'n', 'e', 's'] := { lines := by decide, trimmed := by decide }

/-- Non-vacuity of `roundtrip_suffixed`: with the suffix `|||`, an input consisting of the lines `===`, `a`, `-----`
(a dash line longer than the divider) and `=== x` is fine … -/
def cDelims : Correction :=
  { cSimple with input := ['=', '=', '=', '\n', 'a', '\n', '-', '-', '-', '-', '-', '\n', '=', '=', '=', ' ', 'x'] }
example : SimpleS ['|', '|', '|'] cDelims :=
  { hlen := by decide, dlen := by decide, attrs := Or.inl rfl, inputCr := by decide
    name := { lines := by decide, trimmed := by decide }
    inputLines := by decide, outputLines := by decide }
example : (parseFile [] (writeTests ['|', '|', '|'] [cDelims])).map Entry.dkey = [cDelims.dkey] := by decide +kernel

/-- … while without a suffix the same correction does not survive: `=== x` becomes the file's suffix and no
header matches any more (0 tests), and the longer dash line would be taken as the divider. -/
theorem roundtrip_fails_equals_line_unsuffixed : parseFile [] (writeTests [] [cDelims]) = [] := by decide +kernel

/-- The exact guard for `---` lines that DO carry the file's suffix: inside an input they are harmless up to the
length of the divider (the divider is at least as long and comes later), inside an expectation only if they
are shorter.  Here: input line `---|||` under a divider `---|||` (equal length) round-trips … -/
def cOwnDash : Correction := { cSimple with input := ['a', '\n', '-', '-', '-', '|', '|', '|', '\n', 'b'] }
example : SimpleS ['|', '|', '|'] cOwnDash :=
  { hlen := by decide, dlen := by decide, attrs := Or.inl rfl, inputCr := by decide
    name := { lines := by decide, trimmed := by decide }
    inputLines := by decide, outputLines := by decide }
example : (parseFile [] (writeTests ['|', '|', '|'] [cOwnDash])).map Entry.dkey = [cOwnDash.dkey] := by decide +kernel

/-- … while the same line inside the EXPECTATION (equal length, later) is taken as the divider. -/
theorem roundtrip_fails_equal_dash_in_output :
    (parseFile [] (writeTests ['|', '|', '|']
      [{ cSimple with output := ['(', 's', ')', '\n', '-', '-', '-', '|', '|', '|', '\n', '(', 't', ')'] }])).map Entry.dkey
      ≠ [cSimple.dkey] := by decide +kernel

/-- Witness: a LONGER line carrying the file's own suffix inside an input is fatal in a suffixed file. -/
theorem roundtrip_fails_own_suffix_in_input :
    (parseFile [] (writeTests ['|', '|', '|']
      [{ cSimple with input := ['a', '\n', '-', '-', '-', '-', '|', '|', '|', '\n', 'b'] }])).map Entry.dkey
      ≠ [({ cSimple with input := ['a', '\n', '-', '-', '-', '-', '|', '|', '|', '\n', 'b'] } : Correction).dkey] := by
  decide +kernel

/-- Witness for the dropped hypothesis "no `---` line in the input": a longer dash line inside the input
is taken as the divider when the file is read back, so the input changes. -/
theorem roundtrip_fails_delimiter_in_input :
    ¬ RoundTrips [] [] [{ cSimple with input := ['a', '\n', '-', '-', '-', '-', '\n', 'b'] }] := by decide

/-- Witness for the dropped hypothesis "name has no trailing white space". -/
theorem roundtrip_fails_untrimmed_name :
    ¬ RoundTrips [] [] [{ cSimple with name := ['f', ' '] }] := by decide

/-! ## updated error-free tests pass afterwards -/

/-- The rendering a test is compared with (`render_test_output` for a non-`:cst` test). -/
def actualOf (e : Entry) (a : Actual) : Str := if e.hasFields then a.sexpFields else a.sexpPlain

/-- What the update records for a run-once entry, position by position. -/
theorem updateEntries_all2 (fx : Fixes) (orc : Oracle) :
    ∀ (es : List Entry) (acc cs : List Correction), (∀ e ∈ es, RunOnce e) →
      updateEntries fx orc es acc = some cs →
      ∃ new, cs = acc ++ new ∧
        All2 (fun e c => ∃ l a, e.attrs.languages = [l] ∧ orc l e.input = some a ∧ c = (updateLang fx e a).1) es new
  | [], acc, cs, _, h => by
    simp only [updateEntries, Option.some.injEq] at h
    exact ⟨[], by simp [h], All2.nil⟩
  | e :: es, acc, cs, hp, h => by
    obtain ⟨h1, h2, l, h3⟩ := hp e (by simp)
    unfold updateEntries at h
    have hsk : (e.attrs.expect == Expect.skip) = false := by cases hx : e.attrs.expect <;> simp_all
    cases ho : orc l e.input with
    | none => simp [updateEntry, hsk, h2, h3, updateLangs, ho] at h
    | some a =>
      by_cases hstop : (updateLang fx e a).2 = true
      · simp [updateEntry, hsk, h2, h3, updateLangs, ho, hstop] at h
      · have hu : updateEntry fx orc e = .cont [(updateLang fx e a).1] := by
          cases hone : fx.oneCorrection <;> simp [updateEntry, hsk, h2, h3, updateLangs, ho, hstop, hone]
        rw [hu] at h
        simp only at h
        obtain ⟨new, hnew, hall⟩ := updateEntries_all2 fx orc es _ cs (fun x hx => hp x (by simp [hx])) h
        exact ⟨(updateLang fx e a).1 :: new, by simp [hnew], All2.cons ⟨l, a, h3, ho, rfl⟩ hall⟩

/-- For a test that expects success, is not `:cst`, and whose rendering shows no error, the update
writes the formatted actual rendering (whether or not the old expectation matched). -/
theorem updateLang_output_pass (fx : Fixes) (e : Entry) (a : Actual) (h1 : e.attrs.expect = .pass)
    (h2 : e.attrs.cst = false)
    (h3 : containsSub strERROR (actualOf e a) = false) (h4 : containsSub strMISSING (actualOf e a) = false) :
    (updateLang fx e a).1.output = formatSexp fx (actualOf e a) := by
  have key : ∀ actual : Str, containsSub strERROR actual = false → containsSub strMISSING actual = false →
      (if (actual == e.output) = true then (e.corr (formatSexp fx e.output), false)
       else if (containsSub strERROR actual || containsSub strMISSING actual) = true then
         (e.corr (formatSexp fx e.output), e.attrs.failFast)
       else (e.corr (formatSexp fx actual), e.attrs.failFast)).1.output = formatSexp fx actual := by
    intro actual h3 h4
    by_cases heq : (actual == e.output) = true
    · simp [heq, Entry.corr, eq_of_beq heq]
    · simp [heq, h3, h4, Entry.corr]
  unfold updateLang
  simp only [h1, h2, Bool.false_eq_true, ↓reduceIte]
  exact key _ h3 h4

theorem inFormatClass_spec {s : Str} (h : inFormatClass s = true) :
    ∃ n k ts, s = joinToks (.opn n k :: ts) ∧ Bal (.opn n k :: ts) 0 false := by
  unfold inFormatClass at h
  split at h
  · next n k ts _ =>
    simp only [Bool.and_eq_true, beq_iff_eq, decide_eq_true_eq] at h
    exact ⟨n, k, ts, h.1.symm, h.2⟩
  · simp at h

theorem all2_comp {α β γ : Type} {R : α → γ → Prop} {S : β → γ → Prop} :
    ∀ {as : List α} {cs : List γ} {bs : List β}, All2 R as cs → All2 S bs cs →
      All2 (fun a b => ∃ c, R a c ∧ S b c) as bs
  | _, _, _, .nil, .nil => .nil
  | _, _, _, .cons r hr, .cons s hs => .cons ⟨_, r, s⟩ (all2_comp hr hs)

/-- Entry `e1` (read back after the update) is entry `e` with a passing expectation. -/
def PassesAfter (orc : Oracle) (e e1 : Entry) : Prop :=
  e1.name = e.name ∧ e1.attrsStr = e.attrsStr ∧ e1.input = e.input ∧
  (e.attrs.expect = .pass → e.attrs.cst = false → ∀ l a, e.attrs.languages = [l] → orc l e.input = some a →
    inFormatClass (actualOf e a) = true →
    containsSub strERROR (actualOf e a) = false → containsSub strMISSING (actualOf e a) = false →
    e1.output = actualOf e a)

/-- `update_passes_partial` (unchanged code): for every corpus file whose tests are all run exactly once,
when the update writes the file and the corrections it writes are `Simple` without `:cst` line, the
file reads back test by test with the same name, attribute text and input, and every test that
expects success, whose rendering is an error-free balanced S-expression, now has that rendering as
its expectation — it passes.
Missing w.r.t. the full statement: skipped / other-platform / multi-language tests (defects), tests
outside `Simple` (delimiter-like lines, multi-line names), `:cst` tests. -/
theorem update_passes_partial (os : Str) (orc : Oracle) (f : Str) (cs : List Correction)
    (hne : parseFile os f ≠ [])
    (hp : ∀ e ∈ parseFile os f, RunOnce e)
    (hrun : updateEntries {} orc (parseFile os f) [] = some cs)
    (hs : ∀ c ∈ cs, Simple c ∧ ∀ l ∈ splitIncl (c.attrsStr ++ ['\n']), noCstLine l) :
    All2 (PassesAfter orc) (parseFile os f) (parseFile os (updateFile {} os orc f)) := by
  obtain ⟨new, hnew, hall⟩ := updateEntries_all2 {} orc _ [] cs hp hrun
  simp only [List.nil_append] at hnew
  subst hnew
  have hbuilt := roundtrip_built os [] ⟨by simp, by simp⟩ ⟨by simp, by simp⟩ cs (fun c hc => ((hs c hc).1).toS [])
  have hfile : updateFile {} os orc f = writeTests [] cs := by
    unfold updateFile
    split
    · next h => exact absurd h hne
    · simp [hrun]
  rw [hfile]
  -- strengthen `Built` with the no-`:cst` hypothesis of each correction
  have hbuilt' : All2 (fun e1 c => Built os e1 c ∧ (∀ l ∈ splitIncl (c.attrsStr ++ ['\n']), noCstLine l))
      (parseFile os (writeTests [] cs)) cs := by
    have : ∀ {es : List Entry} {cs' : List Correction}, All2 (Built os) es cs' →
        (∀ c ∈ cs', ∀ l ∈ splitIncl (c.attrsStr ++ ['\n']), noCstLine l) →
        All2 (fun e1 c => Built os e1 c ∧ (∀ l ∈ splitIncl (c.attrsStr ++ ['\n']), noCstLine l)) es cs' := by
      intro es cs' hb
      induction hb with
      | nil => intro _; exact All2.nil
      | cons hb _ ih => intro hc; exact All2.cons ⟨hb, hc _ (by simp)⟩ (ih (fun c hcm => hc c (by simp [hcm])))
    exact this hbuilt (fun c hc => (hs c hc).2)
  have hcomp := all2_comp hall hbuilt'
  -- pointwise consequence
  have hmono : ∀ {es e1s : List Entry},
      All2 (fun e e1 => ∃ c, (∃ l a, e.attrs.languages = [l] ∧ orc l e.input = some a ∧ c = (updateLang {} e a).1) ∧
        (Built os e1 c ∧ (∀ l ∈ splitIncl (c.attrsStr ++ ['\n']), noCstLine l))) es e1s →
      All2 (PassesAfter orc) es e1s := by
    intro es e1s hh
    induction hh with
    | nil => exact All2.nil
    | @cons e e1 _ _ hx _ ih =>
      refine All2.cons ?_ ih
      obtain ⟨c, ⟨l, a, hl, ho, hc⟩, ⟨hd, _, hcstf, sepf, hsepf, hnorm, _⟩, hnc⟩ := hx
      have hkey := updateLang_skey {} e a
      rw [← hc] at hkey
      simp only [Entry.dkey, Correction.dkey, Prod.mk.injEq] at hd
      simp only [Correction.skey, Entry.skey, Prod.mk.injEq] at hkey
      refine ⟨hd.1.trans hkey.1, hd.2.1.trans hkey.2.1, hd.2.2.1.trans hkey.2.2, ?_⟩
      intro h1 h2 l' a' hl' ho' hcls h3 h4
      have hl2 : l' = l := by rw [hl] at hl'; simpa using hl'.symm
      subst hl2
      have ha : a' = a := by rw [ho] at ho'; simpa using ho'.symm
      subst ha
      obtain ⟨hso, _⟩ := hnorm (hcstf hnc)
      obtain ⟨n, k, ts, hj, hbal⟩ := inFormatClass_spec hcls
      have hco : c.output = formatSexp {} (actualOf e a') := by
        rw [hc]; exact updateLang_output_pass {} e a' h1 h2 h3 h4
      rw [hso, outSection, hco, hj, format_tokens {} _ hbal]
      have htrim : trim (prettyToks (.opn n k :: ts) 0 false) = prettyToks (.opn n k :: ts) 0 false := by
        obtain ⟨x, hx⟩ := pretty_ends _ _ _ hbal
        have hz : ∃ z, prettyToks (.opn n k :: ts) 0 false = '(' :: z := by
          cases ts <;> exact ⟨_, by simp [prettyToks, openPre]; rfl⟩
        obtain ⟨z, hz⟩ := hz
        have : ∃ w, z = w ++ [')'] := by
          rw [hz] at hx
          cases x with
          | nil => simp at hx
          | cons a0 x' =>
            simp only [List.cons_append, List.cons.injEq] at hx
            exact ⟨x', hx.2⟩
        obtain ⟨w, hw⟩ := this
        rw [hz, hw]
        exact trim_of_ends w '(' ')' (by decide) (by decide)
      rw [htrim]
      exact normalize_section n k ts hbal sepf hsepf
  exact hmono hcomp

/-! ## a second update is the identity -/

/-- The rendering of the parser is usable as an expectation: the field-less rendering shows no field,
a rendering without fields equals the field-less one, and an error-free rendering is a balanced
token sequence (measured on every run for the real parser). -/
structure ActOK (a : Actual) : Prop where
  plainNoFields : hasFieldsOf a.sexpPlain = false
  fieldsEq : hasFieldsOf a.sexpFields = false → a.sexpPlain = a.sexpFields
  classF : containsSub strERROR a.sexpFields = false → containsSub strMISSING a.sexpFields = false →
    inFormatClass a.sexpFields = true
  classP : containsSub strERROR a.sexpPlain = false → containsSub strMISSING a.sexpPlain = false →
    inFormatClass a.sexpPlain = true

/-- Entries the idempotence theorem covers: one language, not `:cst`, `has_fields` as the reader computes
it, an expectation that is empty or a balanced S-expression, a usable parser answer. -/
structure EntryOK (orc : Oracle) (e : Entry) : Prop where
  oneLang : ∃ l, e.attrs.languages = [l]
  noCst : e.attrs.cst = false
  hf : e.hasFields = hasFieldsOf e.output
  out : e.output = [] ∨ inFormatClass e.output = true
  act : ∀ l a, e.attrs.languages = [l] → orc l e.input = some a → ActOK a

/-- Boolean form of `ActOK`, evaluated by the driver on every answer of the real parser. -/
def actOKb (a : Actual) : Bool :=
  !hasFieldsOf a.sexpPlain && (hasFieldsOf a.sexpFields || a.sexpPlain == a.sexpFields) &&
  (containsSub strERROR a.sexpFields || containsSub strMISSING a.sexpFields || inFormatClass a.sexpFields) &&
  (containsSub strERROR a.sexpPlain || containsSub strMISSING a.sexpPlain || inFormatClass a.sexpPlain)

theorem actOK_of_b {a : Actual} (h : actOKb a = true) : ActOK a := by
  simp only [actOKb, Bool.and_eq_true, Bool.not_eq_true', Bool.or_eq_true, beq_iff_eq] at h
  obtain ⟨⟨⟨h1, h2⟩, h3⟩, h4⟩ := h
  refine ⟨h1, fun hf => ?_, fun he hm => ?_, fun he hm => ?_⟩
  · rcases h2 with h2 | h2
    · simp [hf] at h2
    · exact h2
  · rcases h3 with (h3 | h3) | h3
    · simp [he] at h3
    · simp [hm] at h3
    · exact h3
  · rcases h4 with (h4 | h4) | h4
    · simp [he] at h4
    · simp [hm] at h4
    · exact h4

/-- The expectation that ends up in the file for a run test (`format_sexp` of it is written). -/
def keptX (e : Entry) (a : Actual) : Str :=
  match e.attrs.expect with
  | .error => e.output
  | _ =>
    if actualOf e a == e.output then e.output
    else if containsSub strERROR (actualOf e a) || containsSub strMISSING (actualOf e a) then e.output
    else actualOf e a

theorem keptX_cases (e : Entry) (a : Actual) :
    keptX e a = e.output ∨ (keptX e a = actualOf e a ∧ actualOf e a ≠ e.output ∧
      containsSub strERROR (actualOf e a) = false ∧ containsSub strMISSING (actualOf e a) = false ∧
      e.attrs.expect ≠ .error) := by
  unfold keptX
  split
  · exact Or.inl rfl
  · next hne =>
    split
    · exact Or.inl rfl
    · split
      · exact Or.inl rfl
      · next h1 h2 =>
        simp only [Bool.or_eq_true, not_or, Bool.not_eq_true] at h2
        exact Or.inr ⟨rfl, by simpa using h1, h2.1, h2.2, fun h => hne h⟩

theorem updateLang_keptX (fx : Fixes) (e : Entry) (a : Actual) (hc : e.attrs.cst = false) :
    (updateLang fx e a).1 = e.corr (formatSexp fx (keptX e a)) := by
  unfold updateLang keptX actualOf
  simp only [hc, Bool.false_eq_true, ↓reduceIte]
  cases e.attrs.expect <;> simp only <;> (repeat' split) <;> simp_all [Entry.corr]

theorem keptX_ok (orc : Oracle) (e : Entry) (a : Actual) (he : EntryOK orc e) (ha : ActOK a) :
    keptX e a = [] ∨ inFormatClass (keptX e a) = true := by
  unfold keptX
  cases e.attrs.expect <;> simp only
  · split
    · exact he.out
    · split
      · exact he.out
      · next h1 h2 =>
        right
        simp only [Bool.or_eq_true, not_or, Bool.not_eq_true] at h2
        unfold actualOf at h2 ⊢
        split
        · next hh => simp only [hh, ↓reduceIte] at h2; exact ha.classF h2.1 h2.2
        · next hh => simp only [hh, Bool.false_eq_true, ↓reduceIte] at h2; exact ha.classP h2.1 h2.2
  · exact he.out
  · split
    · exact he.out
    · split
      · exact he.out
      · next h1 h2 =>
        right
        simp only [Bool.or_eq_true, not_or, Bool.not_eq_true] at h2
        unfold actualOf at h2 ⊢
        split
        · next hh => simp only [hh, ↓reduceIte] at h2; exact ha.classF h2.1 h2.2
        · next hh => simp only [hh, Bool.false_eq_true, ↓reduceIte] at h2; exact ha.classP h2.1 h2.2

theorem trim_pretty (n : Str) (k : Nat) (ts : List Tok) (hbal : Bal (.opn n k :: ts) 0 false) :
    trim (prettyToks (.opn n k :: ts) 0 false) = prettyToks (.opn n k :: ts) 0 false := by
  obtain ⟨x, hx⟩ := pretty_ends _ _ _ hbal
  have hz : ∃ z, prettyToks (.opn n k :: ts) 0 false = '(' :: z := by
    cases ts <;> exact ⟨_, by simp [prettyToks, openPre]; rfl⟩
  obtain ⟨z, hz⟩ := hz
  have : ∃ w, z = w ++ [')'] := by
    rw [hz] at hx
    cases x with
    | nil => simp at hx
    | cons a0 x' =>
      simp only [List.cons_append, List.cons.injEq] at hx
      exact ⟨x', hx.2⟩
  obtain ⟨w, hw⟩ := this
  rw [hz, hw]
  exact trim_of_ends w '(' ')' (by decide) (by decide)

/-- What the reader makes of a written expectation `format_sexp x`, `x` empty or a balanced S-expression: `x`. -/
theorem readback (fx : Fixes) (c : Correction) (x sepf : Str) (hc : c.output = formatSexp fx x)
    (hx : x = [] ∨ inFormatClass x = true) (hsepf : sepf = [] ∨ sepf = ['\n']) :
    normalizeSexp (outSection c sepf) = x := by
  rcases hx with rfl | hcls
  · have h0 : formatSexp fx [] = [] := by
      have : ∀ qr, fmtLoop qr 3 { rest := [] } 0 false [] = [] := by intro qr; rcases qr with ⟨a, b⟩; cases a <;> cases b <;> decide
      simp [formatSexp, this]
    rw [outSection, hc, h0]
    rcases hsepf with rfl | rfl <;> decide
  · obtain ⟨n, k, ts, hj, hbal⟩ := inFormatClass_spec hcls
    rw [outSection, hc, hj, format_tokens fx _ hbal, trim_pretty n k ts hbal]
    exact normalize_section n k ts hbal sepf hsepf

/-- Second round on one run test: with the expectation read back as `keptX e a`, the same flags and
input, the update computes the same correction again and does not stop. -/
theorem updateLang_second (fx : Fixes) (orc : Oracle) (e e1 : Entry) (a : Actual) (he : EntryOK orc e) (ha : ActOK a)
    (hattrs : e1.attrs = e.attrs) (hout : e1.output = keptX e a) (hhf : e1.hasFields = hasFieldsOf e1.output)
    (hstop : (updateLang fx e a).2 = false) :
    (updateLang fx e1 a).1.output = formatSexp fx (keptX e a) ∧ (updateLang fx e1 a).2 = false := by
  have hc := he.noCst
  have hc1 : e1.attrs.cst = false := by rw [hattrs]; exact hc
  rw [updateLang_keptX fx e1 a hc1]
  -- the rendering compared in the second round
  have hact := keptX_cases e a
  have hact1 : actualOf e1 a = actualOf e a := by
    rcases hact with hk | ⟨hk, _, _, _, _⟩
    · unfold actualOf; rw [hhf, hout, hk, ← he.hf]
    · unfold actualOf at hk ⊢
      rw [hhf, hout, hk]
      by_cases hh : e.hasFields = true
      · simp only [hh, ↓reduceIte]
        by_cases h2 : hasFieldsOf a.sexpFields = true
        · simp [h2]
        · have h2' : hasFieldsOf a.sexpFields = false := by simpa using h2
          simp [h2', ha.fieldsEq h2']
      · have hh' : e.hasFields = false := by simpa using hh
        simp [hh', ha.plainNoFields]
  have hkept1 : keptX e1 a = keptX e a := by
    unfold keptX
    rw [hattrs, hact1, hout]
    rcases hact with hk | ⟨hk, hne, h3, h4, hex⟩
    · rw [hk]
    · rw [hk]
      cases hexp : e.attrs.expect <;> simp_all
  refine ⟨by simp [Entry.corr, hkept1], ?_⟩
  -- no stop in the second round
  unfold updateLang at hstop ⊢
  simp only [hc, hc1, hattrs, Bool.false_eq_true, ↓reduceIte] at hstop ⊢
  have hact1' : (if e1.hasFields = true then a.sexpFields else a.sexpPlain) = actualOf e a := hact1
  have hact0 : (if e.hasFields = true then a.sexpFields else a.sexpPlain) = actualOf e a := rfl
  rw [hact1', hout]
  rw [hact0] at hstop
  cases hexp : e.attrs.expect with
  | error => simpa [hexp] using hstop
  | pass =>
    simp only [hexp] at hstop ⊢
    rcases hact with hk | ⟨hk, hne, h3, h4, _⟩
    · rw [hk]
      by_cases heq : (actualOf e a == e.output) = true
      · simp [heq]
      · simp only [heq, Bool.false_eq_true, ↓reduceIte] at hstop ⊢
        split at hstop <;> split <;> simp_all
    · rw [hk]; simp
  | skip =>
    simp only [hexp] at hstop ⊢
    rcases hact with hk | ⟨hk, hne, h3, h4, _⟩
    · rw [hk]
      by_cases heq : (actualOf e a == e.output) = true
      · simp [heq]
      · simp only [heq, Bool.false_eq_true, ↓reduceIte] at hstop ⊢
        split at hstop <;> split <;> simp_all
    · rw [hk]; simp

theorem corr_of_built {os : Str} {e1 : Entry} {c : Correction} (hb : Built os e1 c) : e1.corr c.output = c := by
  have hd := hb.1
  simp only [Entry.dkey, Correction.dkey, Prod.mk.injEq] at hd
  obtain ⟨h1, h2, h3, h4, h5⟩ := hd
  cases c
  simp_all [Entry.corr]

/-- Second round on one test (both repairs on): the entry read back from the written correction, with the
same attribute flags, yields the same correction again. -/
theorem updateEntry_second (fx : Fixes) (hk : fx.keepUnrun = true) (ho : fx.oneCorrection = true) (orc : Oracle)
    (os : Str) (e e1 : Entry) (c : Correction) (he : EntryOK orc e) (h1 : updateEntry fx orc e = .cont [c])
    (hb : Built os e1 c) (hnc : ∀ l ∈ splitIncl (c.attrsStr ++ ['\n']), noCstLine l)
    (hcanon : e.attrs = flagsOf os e.name e.attrsStr) :
    updateEntry fx orc e1 = .cont [c] := by
  obtain ⟨l, hl⟩ := he.oneLang
  obtain ⟨sepf, hsepf, hnorm, _⟩ := hb.2.2.2
  obtain ⟨hout, hhf⟩ := hnorm (hb.2.2.1 hnc)
  have hattrs : e1.attrs = e.attrs := by
    have hs := (updateEntry_spec fx orc e [c] h1).1 c (by simp)
    simp only [Correction.skey, Entry.skey, Prod.mk.injEq] at hs
    rw [hb.2.1, hcanon, hs.1, hs.2.1]
  have hc := he.noCst
  have hinp : e1.input = e.input := by
    have hd := hb.1
    simp only [Entry.dkey, Correction.dkey, Prod.mk.injEq] at hd
    have hs := (updateEntry_spec fx orc e [c] h1).1 c (by simp)
    simp only [Correction.skey, Entry.skey, Prod.mk.injEq] at hs
    exact hd.2.2.1.trans hs.2.2
  -- it suffices to recompute the same output
  have key : ∀ o, o = c.output → e1.corr o = c := fun o h => h ▸ corr_of_built hb
  unfold updateEntry at h1 ⊢
  simp only [hk, hc, hattrs, Bool.false_eq_true, ↓reduceIte] at h1 ⊢
  by_cases hskip : (e.attrs.expect == Expect.skip) = true
  · simp only [hskip, ↓reduceIte, Step.cont.injEq, List.cons.injEq, and_true] at h1 ⊢
    have hco : c.output = formatSexp fx e.output := by rw [← h1]; rfl
    rw [hout, readback fx c e.output sepf hco he.out hsepf]
    exact key _ hco.symm
  · simp only [hskip, Bool.false_eq_true, ↓reduceIte] at h1 ⊢
    by_cases hpl : e.attrs.platform = true
    · simp only [hpl, Bool.not_true, Bool.false_eq_true, ↓reduceIte, hl, updateLangs, hinp] at h1 ⊢
      cases ho' : orc l e.input with
      | none => simp [ho'] at h1
      | some a =>
        simp only [ho'] at h1 ⊢
        have ha := he.act l a hl ho'
        by_cases hstop : (updateLang fx e a).2 = true
        · simp [hstop] at h1
        · have hstop' : (updateLang fx e a).2 = false := by simpa using hstop
          simp only [hstop', Bool.false_eq_true, ↓reduceIte, ho, List.nil_append, List.take_succ_cons, List.take_zero,
            Step.cont.injEq, List.cons.injEq, and_true] at h1
          have hco : c.output = formatSexp fx (keptX e a) := by rw [← h1, updateLang_keptX fx e a hc]; rfl
          have hout' : e1.output = keptX e a := by
            rw [hout]; exact readback fx c _ sepf hco (keptX_ok orc e a he ha) hsepf
          obtain ⟨h2o, h2s⟩ := updateLang_second fx orc e e1 a he ha hattrs hout' hhf hstop'
          obtain ⟨o, b, hform⟩ := updateLang_form fx e1 a
          have ho2 : o = c.output := by
            have : (updateLang fx e1 a).1.output = o := by rw [hform]; rfl
            rw [← this, h2o, hco]
          have hb2 : b = false := by rw [hform] at h2s; exact h2s
          simp only [hform, hb2, Bool.false_eq_true, ↓reduceIte, ho, List.nil_append, List.take_succ_cons,
            List.take_zero, Step.cont.injEq, List.cons.injEq, and_true]
          exact key o ho2
    · have hpl' : e.attrs.platform = false := by simpa using hpl
      simp only [hpl', Bool.not_false, ↓reduceIte, Step.cont.injEq, List.cons.injEq, and_true] at h1 ⊢
      have hco : c.output = formatSexp fx e.output := by rw [← h1]; rfl
      rw [hout, readback fx c e.output sepf hco he.out hsepf]
      exact key _ hco.symm

/-- With both repairs every entry with a language yields exactly one correction, position by position. -/
theorem updateEntries_all2_fixed (fx : Fixes) (hk : fx.keepUnrun = true) (ho : fx.oneCorrection = true) (orc : Oracle) :
    ∀ (es : List Entry) (acc cs : List Correction), (∀ e ∈ es, e.attrs.languages ≠ []) →
      updateEntries fx orc es acc = some cs →
      ∃ new, cs = acc ++ new ∧ All2 (fun e c => updateEntry fx orc e = .cont [c]) es new
  | [], acc, cs, _, h => by
    simp only [updateEntries, Option.some.injEq] at h
    exact ⟨[], by simp [h], All2.nil⟩
  | e :: es, acc, cs, hl, h => by
    unfold updateEntries at h
    cases hu : updateEntry fx orc e with
    | stop => simp [hu] at h
    | err => simp [hu] at h
    | cont cs' =>
      simp only [hu] at h
      have hlen := (updateEntry_spec fx orc e cs' hu).2.2 hk ho (hl e (by simp))
      obtain ⟨new, hnew, hall⟩ := updateEntries_all2_fixed fx hk ho orc es _ cs (fun x hx => hl x (by simp [hx])) h
      match cs', hlen, hu with
      | [c], _, hu => exact ⟨c :: new, by simp [hnew], All2.cons hu hall⟩

/-- The second round over a whole file. -/
theorem updateEntries_second (fx : Fixes) (hk : fx.keepUnrun = true) (ho : fx.oneCorrection = true) (orc : Oracle) :
    ∀ {es : List Entry} {cs : List Correction}, All2 (fun e c => updateEntry fx orc e = .cont [c]) es cs →
      ∀ (os : Str) (es1 : List Entry) (acc : List Correction), All2 (Built os) es1 cs →
        (∀ e ∈ es, EntryOK orc e) → (∀ c ∈ cs, ∀ l ∈ splitIncl (c.attrsStr ++ ['\n']), noCstLine l) →
        (∀ e ∈ es, e.attrs = flagsOf os e.name e.attrsStr) →
        updateEntries fx orc es1 acc = some (acc ++ cs)
  | _, _, .nil, os, es1, acc, hb, _, _, _ => by
    cases hb
    simp [updateEntries]
  | _, _, .cons (a := e) (b := c) h1 hrest, os, es1, acc, hb, he, hnc, hcanon => by
    cases hb with
    | cons hb1 hbrest =>
      rename_i e1 es1'
      have := updateEntry_second fx hk ho orc os e e1 c (he e (by simp)) h1 hb1 (hnc c (by simp)) (hcanon e (by simp))
      unfold updateEntries
      simp only [this]
      rw [updateEntries_second fx hk ho orc hrest os es1' (acc ++ [c]) hbrest (fun x hx => he x (by simp [hx]))
        (fun x hx => hnc x (by simp [hx])) (fun x hx => hcanon x (by simp [hx]))]
      simp

theorem all2_nil_right {α β : Type} {R : α → β → Prop} {as : List α} (h : All2 R as []) : as = [] := by
  cases h; rfl

theorem getD_fsOf (suf : Str) : (fsOf suf).getD [] = suf := by cases suf <;> simp [fsOf]

/-- `update_idempotent_partial` (model with the repairs `keepUnrun`, `oneCorrection`, `keepSuffixPreamble` on; with
or without the others): for every corpus file without leading text whose update run writes `Simple`
corrections without `:cst` line, whose tests have one language, an empty or balanced S-expression
expectation and a usable parser answer (`EntryOK`), and whose attribute flags are the ones their attribute text stands for
(`e.attrs = flagsOf os e.name e.attrsStr`: decidable per entry; measured on every real entry) —
a second update leaves the file byte-identical.
Missing w.r.t. the full statement: leading text, `:cst` tests, several languages, tests outside `Simple`. -/
theorem update_idempotent_partial (fx : Fixes) (hk : fx.keepUnrun = true) (ho : fx.oneCorrection = true)
    (hsp : fx.keepSuffixPreamble = true) (os : Str) (orc : Oracle) (f : Str) (cs : List Correction)
    (hne : parseFile os f ≠ [])
    (hpre : preamble os f = [])
    (hrun : updateEntries fx orc (parseFile os f) [] = some cs)
    (hent : ∀ e ∈ parseFile os f, EntryOK orc e)
    (hsimple : ∀ c ∈ cs, Simple c ∧ ∀ l ∈ splitIncl (c.attrsStr ++ ['\n']), noCstLine l)
    (hse : SufOK '=' ((firstSuffix (splitIncl f)).getD [])) (hsd : SufOK '-' ((firstSuffix (splitIncl f)).getD []))
    (hcanon : ∀ e ∈ parseFile os f, e.attrs = flagsOf os e.name e.attrsStr) :
    updateFile fx os orc (updateFile fx os orc f) = updateFile fx os orc f := by
  generalize hsuf : (firstSuffix (splitIncl f)).getD [] = suf at hse hsd
  -- first round
  have h1 : updateFile fx os orc f = writeTests suf cs := by
    unfold updateFile
    split
    · next h => exact absurd h hne
    · simp [hrun, hsp, hpre, hsuf]
  obtain ⟨new, hnew, hall⟩ := updateEntries_all2_fixed fx hk ho orc _ [] cs
    (fun e he => by obtain ⟨l, hl⟩ := (hent e he).oneLang; simp [hl]) hrun
  simp only [List.nil_append] at hnew
  subst hnew
  -- the written file read back
  have hbuilt := roundtrip_built os suf hse hsd cs (fun c hc => ((hsimple c hc).1).toS suf)
  have hcs : cs ≠ [] := by
    intro h0; subst h0
    exact hne (all2_nil_right hall)
  obtain ⟨c0, cs', rfl⟩ : ∃ c0 cs', cs = c0 :: cs' := by
    cases cs with
    | nil => exact absurd rfl hcs
    | cons c0 cs' => exact ⟨c0, cs', rfl⟩
  have hlines := splitIncl_writeTests suf hse.2 c0 cs' (fun c hc => ((hsimple c hc).1).toS suf)
  have hfs := firstSuffix_written suf hse c0 cs' (fun c hc => ((hsimple c hc).1).toS suf)
  have hsuf1 : (firstSuffix (splitIncl (writeTests suf (c0 :: cs')))).getD [] = suf := by
    rw [hlines, hfs, getD_fsOf]
  have hpre1 : preamble os (writeTests suf (c0 :: cs')) = [] := by
    unfold preamble
    simp only [hlines, hfs]
    obtain ⟨p, hp, _⟩ := parseHeader_hdr os suf c0 (bodyL suf c0 ++ tailLines suf cs') ((hsimple c0 (by simp)).1.toS suf) hse
    simp only [hdrL, List.cons_append] at hp ⊢
    rw [preambleLines, hp]
    simp
  have hne1 : parseFile os (writeTests suf (c0 :: cs')) ≠ [] := by
    intro h0; rw [h0] at hbuilt; cases hbuilt
  -- second round
  have h2 := updateEntries_second fx hk ho orc hall os _ [] hbuilt hent (fun c hc => (hsimple c hc).2) hcanon
  simp only [List.nil_append] at h2
  rw [h1]
  unfold updateFile
  split
  · next h => exact absurd h hne1
  · simp [h2, hsp, hpre1, hsuf1]

/-! ## updates through a name filter (`--include` / `--exclude`) -/

theorem updateEntriesF_true (fx : Fixes) (orc : Oracle) :
    ∀ (es : List Entry) (acc : List Correction),
      updateEntriesF fx orc (fun _ => true) es acc = updateEntries fx orc es acc
  | [], _ => rfl
  | e :: es, acc => by
    unfold updateEntriesF updateEntries
    simp only [↓reduceIte]
    cases updateEntry fx orc e with
    | cont cs => exact updateEntriesF_true fx orc es _
    | stop => rfl
    | err => rfl

/-- `updateEntriesF_all2`: a filtered update that reaches `write_tests` records exactly one correction per
test, in order, with the same name, attribute text, input AND delimiter lengths — for the tests the filter
carries over unprocessed unconditionally, for the others when they are run exactly once.  All filters. -/
theorem updateEntriesF_all2 (fx : Fixes) (orc : Oracle) (flt : Str → Bool) :
    ∀ (es : List Entry) (acc cs : List Correction), (∀ e ∈ es, flt e.name = true → RunOnce e) →
      updateEntriesF fx orc flt es acc = some cs →
      ∃ new, cs = acc ++ new ∧ All2 (fun e c => c.dkey = e.dkey) es new
  | [], acc, cs, _, h => by
    simp only [updateEntriesF, Option.some.injEq] at h
    exact ⟨[], by simp [h], All2.nil⟩
  | e :: es, acc, cs, hp, h => by
    unfold updateEntriesF at h
    by_cases hf : flt e.name = true
    · simp only [hf, ↓reduceIte] at h
      cases hu : updateEntry fx orc e with
      | stop => simp [hu] at h
      | err => simp [hu] at h
      | cont cs' =>
        simp only [hu] at h
        have sp := updateEntry_spec fx orc e cs' hu
        have hlen := sp.2.1 (hp e (by simp) hf)
        obtain ⟨new, hnew, hall⟩ := updateEntriesF_all2 fx orc flt es _ cs (fun x hx => hp x (by simp [hx])) h
        match cs', hlen, sp.1, hu with
        | [c], _, hk, hu =>
          refine ⟨c :: new, by simp [hnew], All2.cons ?_ hall⟩
          -- the correction is `e.corr _`: delimiter lengths come with it
          obtain ⟨_, _, l, hl⟩ := hp e (by simp) hf
          have hsk : (e.attrs.expect == Expect.skip) = false := by
            have := (hp e (by simp) hf).1; cases hx : e.attrs.expect <;> simp_all
          have hpl := (hp e (by simp) hf).2.1
          cases ho : orc l e.input with
          | none => simp [updateEntry, hsk, hpl, hl, updateLangs, ho] at hu
          | some a =>
            obtain ⟨o, b, hform⟩ := updateLang_form fx e a
            by_cases hstop : (updateLang fx e a).2 = true
            · simp [updateEntry, hsk, hpl, hl, updateLangs, ho, hstop] at hu
            · have : c = (updateLang fx e a).1 := by
                cases hone : fx.oneCorrection <;>
                  simp [updateEntry, hsk, hpl, hl, updateLangs, ho, hstop, hone] at hu <;> exact hu.symm
              rw [this, hform]; rfl
    · simp only [hf, Bool.false_eq_true, ↓reduceIte] at h
      obtain ⟨new, hnew, hall⟩ := updateEntriesF_all2 fx orc flt es _ cs (fun x hx => hp x (by simp [hx])) h
      exact ⟨e.corr (if (fx.keepCstFiltered && e.attrs.cst) = true then e.output else formatSexp fx e.output) :: new,
        by simp [hnew], All2.cons (by rfl) hall⟩

/-- Witness (genuine defect, finding C20-filtered-cst-reformatted): a `:cst` test that a filter carries over has
its expectation passed through `format_sexp` — here `0:0 - 0:1 a` becomes the empty string. -/
def eCst : Entry :=
  { name := ['c'], input := ['a'], output := ['0', ':', '0', ' ', '-', ' ', '0', ':', '1', ' ', 'a'], hlen := 3, dlen := 3,
    hasFields := false, attrsStr := [':', 'c', 's', 't'], attrs := { cst := true } }
theorem filtered_update_reformats_cst :
    (updateEntriesF {} (fun _ _ => none) (fun _ => false) [eCst] []).map (·.map (·.output)) = some [[]] := by decide +kernel
example : (updateEntriesF { keepCstFiltered := true } (fun _ _ => none) (fun _ => false) [eCst] []).map (·.map (·.output))
    = some [eCst.output] := by decide +kernel

/-! ## formatting and normalising expectations -/

/-- `format_normalize` (proved in `FormatNormalize.lean`, restated here): for every one-line S-expression
that is a sequence of `(name`+closers / `field:` tokens with balanced parentheses — the strings
`ts_node_string` prints for error-free trees; the check measures on every run that all printed ones are
in this class — `normalize_sexp_output (format_sexp s) = s`, with and without the quote-reset repair.
So a rewritten expectation reads back as itself. -/
theorem format_normalize_spec (fx : Fixes) (n : Str) (k : Nat) (ts : List Tok) (h : Bal (.opn n k :: ts) 0 false) :
    normalizeSexp (trim (formatSexp fx (joinToks (.opn n k :: ts)))) = joinToks (.opn n k :: ts) :=
  format_normalize fx n k ts h

/-- The two halves: what the formatter prints, and what the normaliser makes of it. -/
theorem format_tokens_spec (fx : Fixes) (toks : List Tok) (h : Bal toks 0 false) :
    formatSexp fx (joinToks toks) = prettyToks toks 0 false := format_tokens fx toks h

/-- Non-vacuity: `(s (a t: (i) v: (n)))` is in the class (decided by the kernel), so the theorem applies. -/
example : inFormatClass ['(', 's', ' ', '(', 'a', ' ', 't', ':', ' ', '(', 'i', ')', ' ', 'v', ':', ' ', '(', 'n', ')', ')', ')'] = true := by
  decide +kernel

/-
Dropped hypothesis "no quoted token": `format_sexp_quote_state` below (FALSE for the unchanged code).
OPEN: theorem update_idempotent : updateFile fx os orc (updateFile fx os orc f) = updateFile fx os orc f
OPEN: theorem update_passes — both follow from `format_normalize` + the round trip including outputs
(not proved); they are decided by the judge on every real case (clauses `passes`, `idempotent`).
-/

def sxTwoQuoted : Str :=   -- "(p (UNEXPECTED '?') (UNEXPECTED '?') (i))"
  ['(', 'p', ' ', '(', 'U', 'N', 'E', 'X', 'P', 'E', 'C', 'T', 'E', 'D', ' ', '\'', '?', '\'', ')', ' ',
   '(', 'U', 'N', 'E', 'X', 'P', 'E', 'C', 'T', 'E', 'D', ' ', '\'', '?', '\'', ')', ' ', '(', 'i', ')', ')']

/-- Witness (genuine defect, finding C20-format-sexp-quote-state): with the unchanged `format_sexp` an
S-expression with two quoted tokens does not survive format → normalize … -/
theorem format_sexp_quote_state : normalizeSexp (trim (formatSexp {} sxTwoQuoted)) ≠ sxTwoQuoted := by decide +kernel

/-- … and does with the proposed repair. -/
example : normalizeSexp (trim (formatSexp { quoteReset := true } sxTwoQuoted)) = sxTwoQuoted := by decide +kernel

/-! ### non-vacuity and witnesses for the dropped hypotheses -/

def sxSource : Str := ['(', 's', 'o', 'u', 'r', 'c', 'e', ')']
def okActual : Actual := { sexpFields := sxSource, sexpPlain := sxSource, cst := [], hasError := false }
def okOracle : Oracle := fun _ _ => some okActual

def eFirst : Entry :=
  { name := ['f', 'i', 'r', 's', 't'], input := ['a'], output := ['(', 'x', ')'], hlen := 3, dlen := 3, hasFields := false,
    attrsStr := [], attrs := {} }
def eSkip : Entry := { eFirst with name := ['s', 'e', 'c'], attrsStr := [':', 's', 'k', 'i', 'p'], attrs := { expect := .skip } }
def eMac : Entry := { eFirst with name := ['m', 'a', 'c'], attrsStr := ":platform(macos)".toList, attrs := { platform := false } }
def eTwoLang : Entry :=
  { eFirst with name := ['t', 'h', 'i', 'r', 'd'], attrsStr := ":language(l)\n:language(l)".toList,
                attrs := { languages := [['l'], ['l']] } }

/-- The hypotheses of `updateEntries_keys` are satisfiable, with a wrong expectation being corrected. -/
example : RunOnce eFirst := ⟨by decide, by decide, [], by decide⟩
example : (updateEntries {} okOracle [eFirst] []).map (·.map (·.output)) = some [sxSource] := by decide

/-- With the repairs the skipped test and the two-language test are written exactly once. -/
example : (updateEntries { keepUnrun := true, oneCorrection := true } okOracle [eFirst, eSkip, eTwoLang] []).map (·.map (·.name))
    = some [eFirst.name, eSkip.name, eTwoLang.name] := by decide

/-- Witness (genuine defect): a `:skip` test is dropped by the update. -/
theorem update_drops_skip :
    (updateEntries {} okOracle [eFirst, eSkip] []).map (·.map (·.name)) = some [eFirst.name] := by decide

/-- Witness (genuine defect): a test for another platform is dropped by the update. -/
theorem update_drops_other_platform :
    (updateEntries {} okOracle [eFirst, eMac] []).map (·.map (·.name)) = some [eFirst.name] := by decide

/-- Witness (genuine defect): a test with two `:language(..)` lines is written twice. -/
theorem update_duplicates_per_language :
    (updateEntries {} okOracle [eTwoLang] []).map (·.map (·.name)) = some [eTwoLang.name, eTwoLang.name] := by decide

/-- Non-vacuity of `update_passes_partial` on a concrete file (`===\nt\n===\na\n---\n\n(x)\n`, the parser
answering `(source)`): the file has one run-once test, the update writes it, and it reads back with the
actual rendering as expectation. -/
def fEx : Str := ['=', '=', '=', '\n', 't', '\n', '=', '=', '=', '\n', 'a', '\n', '-', '-', '-', '\n', '\n', '(', 'x', ')', '\n']
example : (parseFile [] fEx).map (·.output) = [['(', 'x', ')']] ∧
    (parseFile [] (updateFile {} [] okOracle fEx)).map (·.output) = [sxSource] ∧
    inFormatClass sxSource = true := by decide +kernel

/-- Non-vacuity of `update_idempotent_partial`: on the concrete file `fEx` with all repairs on, the hypotheses
that are decidable hold (`actOKb`, canonical flags, empty leading text) and the second update is the identity. -/
def fxAll : Fixes := { keepUnrun := true, oneCorrection := true, keepSuffixPreamble := true, quoteReset := true, keepCstFiltered := true, sameQuote := true }
example : actOKb okActual = true ∧ preamble [] fEx = [] ∧
    (parseFile [] fEx).all (fun e => decide (e.attrs = flagsOf [] e.name e.attrsStr)) = true ∧
    updateFile fxAll [] okOracle fEx ≠ fEx ∧
    updateFile fxAll [] okOracle (updateFile fxAll [] okOracle fEx) = updateFile fxAll [] okOracle fEx := by decide +kernel

end TsVerif.C20
