import TsVerif.C20.Judge
/-!
# C20 — property theorems

Property: *Running the CLI's corpus test command with update on any well-formed corpus file rewrites
only expected outputs: test names, attributes, order and input bytes are unchanged, every updated
test whose parse is error-free passes afterwards, and a second update leaves the file
byte-identical.  Reading a corpus file and writing it back never merges, splits or drops tests,
whatever delimiter lengths and suffixes it uses.*

Clause map (model = `TsVerif/C20/Model.lean`, tied to crates/cli/src/test.rs by correspondence):

* "names, attributes, order and input unchanged"  → `update_preserves` is FALSE for the faithful
  model (witnesses `update_drops_skip`, `update_drops_other_platform`, `update_duplicates_per_language`);
  proved: `updateEntries_keys` / `update_preserves_partial` (entries that are run exactly once).
* "reading never loses bytes"                       → `splitIncl_flatten`.
-/
namespace TsVerif.C20

/-- The part of a correction that is not an expected output. -/
def Correction.skey (c : Correction) : Str × Str × Str := (c.name, c.attrsStr, c.input)
def Entry.skey (e : Entry) : Str × Str × Str := (e.name, e.attrsStr, e.input)

/-- An entry that `run_tests` processes exactly once: not skipped, for this platform, one language. -/
def RunOnce (e : Entry) : Prop :=
  e.attrs.expect ≠ .skip ∧ e.attrs.platform = true ∧ ∃ l, e.attrs.languages = [l]

/-! ## reading never loses bytes -/

/-- `split_inclusive` only cuts: the lines concatenate back to the content. -/
theorem splitIncl_flatten (s : Str) : (splitIncl s).flatten = s := by
  induction s with
  | nil => rfl
  | cons c cs ih =>
    unfold splitIncl
    split
    · next h => simp [ih, eq_of_beq h]
    · split
      · next h => rw [h] at ih; simp at ih; simp [← ih]
      · next l ls h => rw [h] at ih; simp at ih; simp [← ih]

/-! ## the update keeps names, attribute text, inputs and order — for entries run exactly once -/

theorem updateLang_form (e : Entry) (a : Actual) : ∃ o b, updateLang e a = (e.corr o, b) := by
  unfold updateLang
  dsimp only
  repeat' split
  all_goals exact ⟨_, _, rfl⟩

theorem updateLang_skey (e : Entry) (a : Actual) : (updateLang e a).1.skey = e.skey := by
  obtain ⟨o, b, h⟩ := updateLang_form e a
  rw [h]; rfl

theorem updateEntry_runOnce {orc : Oracle} {e : Entry} (h : RunOnce e) :
    updateEntry orc e = .stop ∨ updateEntry orc e = .err ∨
      ∃ c, updateEntry orc e = .cont [c] ∧ c.skey = e.skey := by
  obtain ⟨h1, h2, l, h3⟩ := h
  unfold updateEntry
  have : (e.attrs.expect == Expect.skip) = false := by
    cases hx : e.attrs.expect <;> simp_all
  simp only [this, h2, h3]
  simp only [updateLangs]
  cases orc l e.input with
  | none => simp
  | some a =>
    simp only
    by_cases hs : (updateLang e a).2 = true
    · simp [hs]
    · simp only [hs]
      right; right
      exact ⟨(updateLang e a).1, by simp, updateLang_skey e a⟩

/-- `updateEntries_keys`: when the update run reaches `write_tests`, the corrections it writes carry, in
order, exactly the (name, attribute text, input) of the entries — provided every entry is run
exactly once.  All entry lists, all oracles (parsers). -/
theorem updateEntries_keys (orc : Oracle) :
    ∀ (es : List Entry) (acc cs : List Correction), (∀ e ∈ es, RunOnce e) →
      updateEntries orc es acc = some cs →
      cs.map Correction.skey = acc.map Correction.skey ++ es.map Entry.skey
  | [], acc, cs, _, h => by simp [updateEntries] at h; simp [h]
  | e :: es, acc, cs, hp, h => by
    unfold updateEntries at h
    rcases updateEntry_runOnce (orc := orc) (hp e (by simp)) with h1 | h1 | ⟨c, h1, hk⟩
    · simp [h1] at h
    · simp [h1] at h
    · rw [h1] at h
      simp only at h
      have := updateEntries_keys orc es (acc ++ [c]) cs (fun e he => hp e (by simp [he])) h
      simp [this, hk]

/-- Written files read back as what was written (the statement of `parse_write_roundtrip` for one
list of corrections). -/
def RoundTrips (os : Str) (cs : List Correction) : Prop :=
  (parseFile os (writeTests cs)).map Entry.skey = cs.map Correction.skey

/-
OPEN (full strength, FALSE for the faithful model — see the three witnesses below):
theorem update_preserves (os : Str) (orc : Oracle) (f : Str) :
    (parseFile os (updateFile os orc f)).map Entry.key = (parseFile os f).map Entry.key
-/

/-- `update_preserves_partial`: for every corpus file all of whose tests are run exactly once,
if the run writes the file and the written file reads back as written (`RoundTrips`), the
update leaves names, attribute text, inputs and order unchanged.
Missing w.r.t. the full statement: skipped / other-platform / multi-language tests (genuine
defects, witnesses below) and the round trip of the writer for this file. -/
theorem update_preserves_partial (os : Str) (orc : Oracle) (f : Str) (cs : List Correction)
    (hne : parseFile os f ≠ [])
    (hp : ∀ e ∈ parseFile os f, RunOnce e)
    (hrun : updateEntries orc (parseFile os f) [] = some cs)
    (hrt : RoundTrips os cs) :
    (parseFile os (updateFile os orc f)).map Entry.skey = (parseFile os f).map Entry.skey := by
  have hk := updateEntries_keys orc _ [] cs hp hrun
  unfold updateFile
  split
  · next h => exact absurd h hne
  · next es hes =>
    simp only [hrun]
    unfold RoundTrips at hrt
    rw [hrt, hk]; simp

/-! ### non-vacuity and witnesses for the dropped hypotheses -/

def sxSource : Str := ['(', 's', 'o', 'u', 'r', 'c', 'e', ')']
def okActual : Actual := { sexpFields := sxSource, sexpPlain := sxSource, cst := [], hasError := false }
def okOracle : Oracle := fun _ _ => some okActual

def eFirst : Entry :=
  { name := ['f', 'i', 'r', 's', 't'], input := ['a'], output := ['(', 'x', ')'], hlen := 3, dlen := 3, hasFields := false,
    attrsStr := [], attrs := {} }
def eSkip : Entry := { eFirst with name := ['s', 'e', 'c'], attrsStr := [':', 's', 'k', 'i', 'p'], attrs := { expect := .skip } }
def eMac : Entry := { eFirst with name := ['m', 'a', 'c'], attrsStr := ":platform(macos)".toList, attrs := { platform := false } }
def eTwoLang : Entry :=
  { eFirst with name := ['t', 'h', 'i', 'r', 'd'], attrsStr := ":language(l)\n:language(l)".toList,
                attrs := { languages := [['l'], ['l']] } }

/-- The hypotheses of `updateEntries_keys` are satisfiable, with a wrong expectation being corrected. -/
example : RunOnce eFirst := ⟨by decide, by decide, [], by decide⟩
example : (updateEntries okOracle [eFirst] []).map (·.map (·.output)) = some [sxSource] := by decide

/-- Witness (genuine defect): a `:skip` test is dropped by the update. -/
theorem update_drops_skip :
    (updateEntries okOracle [eFirst, eSkip] []).map (·.map (·.name)) = some [eFirst.name] := by decide

/-- Witness (genuine defect): a test for another platform is dropped by the update. -/
theorem update_drops_other_platform :
    (updateEntries okOracle [eFirst, eMac] []).map (·.map (·.name)) = some [eFirst.name] := by decide

/-- Witness (genuine defect): a test with two `:language(..)` lines is written twice. -/
theorem update_duplicates_per_language :
    (updateEntries okOracle [eTwoLang] []).map (·.map (·.name)) = some [eTwoLang.name, eTwoLang.name] := by decide

end TsVerif.C20
