import TsVerif.C20.Format
import TsVerif.C20.Normalize
/-!
# C20 — `format_normalize`: normalising the formatted S-expression gives back the S-expression
-/
namespace TsVerif.C20

/-! ## the character loop on the pieces of the pretty-printed text -/

theorem nc_ws_run (ws res : Str) (h : ∀ c ∈ ws, isWs c = true) : normChars ws res true = (res, true) := by
  induction ws with
  | nil => rfl
  | cons c cs ih =>
    simp only [normChars, h c (by simp), ↓reduceIte, Bool.not_true, Bool.false_and, Bool.false_eq_true]
    exact ih (fun x hx => h x (by simp [hx]))

theorem nc_ws_first (c : Char) (ws res : Str) (hc : isWs c = true) (h : ∀ x ∈ ws, isWs x = true) (hr : res ≠ []) :
    normChars (c :: ws) res false = (' ' :: res, true) := by
  have : res.isEmpty = false := by cases res <;> simp_all
  simp only [normChars, hc, ↓reduceIte, Bool.not_false, this, Bool.and_self]
  exact nc_ws_run ws _ h

theorem nc_name (w res : Str) (prev : Bool) (hne : w ≠ []) (h : ∀ c ∈ w, isWs c = false ∧ c ≠ ')') :
    normChars w res prev = (w.reverse ++ res, false) := by
  induction w generalizing res prev with
  | nil => exact absurd rfl hne
  | cons c cs ih =>
    obtain ⟨h1, h2⟩ := h c (by simp)
    have h2' : (c == ')') = false := by simpa using h2
    simp only [normChars, h1, Bool.false_eq_true, ↓reduceIte, h2', Bool.false_and]
    cases cs with
    | nil => simp [normChars]
    | cons d ds =>
      rw [ih _ _ (by simp) (fun x hx => h x (by simp [hx]))]
      simp

theorem nc_parens (k : Nat) (res : Str) : normChars (List.replicate k ')') res false = (List.replicate k ')' ++ res, false) := by
  induction k generalizing res with
  | zero => rfl
  | succ k ih =>
    have : isWs ')' = false := by decide
    simp only [List.replicate_succ, normChars, this, Bool.false_eq_true, ↓reduceIte, Bool.and_false]
    rw [ih]
    simp [rep_shift]

theorem nameCh_facts {c : Char} (h : nameCh c = true) : isWs c = false ∧ c ≠ ')' ∧ c ≠ ';' ∧ c ≠ '\r' := by
  simp only [nameCh, Bool.and_eq_true, bne_iff_ne, ne_eq, Bool.not_eq_true'] at h
  refine ⟨h.2, h.1.1.1.1.1.1.1.2, h.1.2, ?_⟩
  intro hc; subst hc
  have : isWs '\r' = true := by decide
  simp [this] at h

theorem nc_tok (t : Tok) (res : Str) (prev : Bool) (hn : match t with | .opn n _ => NameOK2 n | .fld n => NameOK2 n) :
    normChars (tokStr t) res prev = ((tokStr t).reverse ++ res, false) := by
  cases t with
  | opn n k =>
    have hw : ∀ c ∈ '(' :: n, isWs c = false ∧ c ≠ ')' := by
      intro c hc
      simp only [List.mem_cons] at hc
      rcases hc with hc | hc
      · subst hc; decide
      · exact ⟨(nameCh_facts (hn.2.1 c hc)).1, (nameCh_facts (hn.2.1 c hc)).2.1⟩
    have e : tokStr (.opn n k) = ('(' :: n) ++ List.replicate k ')' := by simp [tokStr]
    rw [e, normChars_append, nc_name _ res prev (by simp) hw, nc_parens]
    simp
  | fld n =>
    have hw : ∀ c ∈ n ++ [':'], isWs c = false ∧ c ≠ ')' := by
      intro c hc
      simp only [List.mem_append, List.mem_cons, List.not_mem_nil, or_false] at hc
      rcases hc with hc | hc
      · exact ⟨(nameCh_facts (hn.2.1 c hc)).1, (nameCh_facts (hn.2.1 c hc)).2.1⟩
      · subst hc; decide
    exact nc_name _ res prev (by simp [tokStr]) hw

theorem indent_ws (ind : Nat) : ∀ c ∈ indentStr ind, isWs c = true := by
  intro c hc
  simp only [indentStr, List.mem_flatten, List.mem_replicate] at hc
  obtain ⟨l, ⟨_, rfl⟩, hc⟩ := hc
  simp only [List.mem_cons, List.not_mem_nil, or_false] at hc
  rcases hc with hc | hc <;> subst hc <;> decide

/-- The text in front of a `(name` token (not the first one) normalises to one separator space, unless
the token follows a field, where the space is already there. -/
theorem nc_openPre (ind : Nat) (hf : Bool) (res : Str) (hr : res ≠ []) (hi : hf = false → 0 < ind) :
    normChars (openPre ind hf) res hf = (if hf then res else ' ' :: res, hf || true) := by
  cases hf with
  | true => simp [openPre, normChars]
  | false =>
    have := hi rfl
    simp only [openPre, Bool.false_eq_true, ↓reduceIte, this]
    rw [nc_ws_first '\n' _ res (by decide) (indent_ws ind) hr]
    simp

/-- The character loop over the pretty-printed tokens after the first one. -/
theorem nc_pretty :
    ∀ (toks : List Tok) (ind : Nat) (hf : Bool) (res : Str), Bal toks ind hf → res ≠ [] → (hf = false → 0 < ind) →
      normChars (prettyToks toks ind hf) res hf = ((joinToks toks).reverse ++ (if hf then res else ' ' :: res), false)
  | [], _, _, _, h, _, _ => by simp [Bal] at h
  | [.fld _], _, _, _, h, _, _ => by simp [Bal] at h
  | [.opn n k], ind, hf, res, h, hr, hi => by
    obtain ⟨hn, _, _⟩ := h
    have e : prettyToks [.opn n k] ind hf = openPre ind hf ++ tokStr (.opn n k) := by simp [prettyToks, tokStr]
    rw [e, normChars_append, nc_openPre ind hf res hr hi]
    simp only
    rw [nc_tok (.opn n k) _ _ hn]
    simp [joinToks]
  | .opn n k :: t :: ts, ind, hf, res, h, hr, hi => by
    obtain ⟨hn, hk, hb⟩ := h
    have e : prettyToks (.opn n k :: t :: ts) ind hf =
        openPre ind hf ++ (tokStr (.opn n k) ++ prettyToks (t :: ts) (openInd ind hf - k) false) := by
      simp [prettyToks, tokStr]
    rw [e, normChars_append, nc_openPre ind hf res hr hi]
    simp only
    rw [normChars_append, nc_tok (.opn n k) _ _ hn]
    simp only
    rw [nc_pretty (t :: ts) _ false _ hb (by simp [tokStr]) (fun _ => by omega)]
    simp [joinToks, List.reverse_append]
  | .fld n :: t :: ts, ind, hf, res, h, hr, _ => by
    obtain ⟨hn, hb⟩ := h
    have e : prettyToks (.fld n :: t :: ts) ind hf =
        ('\n' :: indentStr ind) ++ (tokStr (.fld n) ++ (' ' :: prettyToks (t :: ts) (ind + 1) true)) := by
      simp [prettyToks, tokStr]
    have hpre : normChars ('\n' :: indentStr ind) res hf = (if hf then res else ' ' :: res, true) := by
      cases hf with
      | true => exact nc_ws_run _ _ (by intro c hc; simp at hc; rcases hc with hc | hc; subst hc; decide; exact indent_ws ind c hc)
      | false => exact nc_ws_first '\n' _ res (by decide) (indent_ws ind) hr
    rw [e, normChars_append, hpre]
    simp only
    rw [normChars_append, nc_tok (.fld n) _ _ hn]
    simp only
    have hsp : ∀ (r : Str) (rest : Str), r ≠ [] → normChars (' ' :: rest) r false = normChars rest (' ' :: r) true := by
      intro r rest hr'
      have h1 : isWs ' ' = true := by decide
      have h2 : r.isEmpty = false := by cases r <;> simp_all
      simp [normChars, h1, h2]
    rw [hsp _ _ (by simp [tokStr])]
    rw [nc_pretty (t :: ts) _ true _ hb (by simp) (by simp)]
    simp [joinToks, tokStr, List.reverse_append]

/-! ## ends, characters, trimming -/

theorem dropWhileEnd_snoc_false (p : Char → Bool) (x : Str) (c : Char) (h : p c = false) :
    dropWhileEnd p (x ++ [c]) = x ++ [c] := by
  induction x with
  | nil => simp [dropWhileEnd, h]
  | cons a x ih =>
    unfold dropWhileEnd at ih ⊢
    simp only [List.cons_append, List.foldr_cons, ih]
    simp

theorem trim_of_ends (x : Str) (a b : Char) (ha : isWs a = false) (hb : isWs b = false) :
    trim (a :: (x ++ [b])) = a :: (x ++ [b]) := by
  have h1 : trimStart (a :: (x ++ [b])) = a :: (x ++ [b]) := by simp [trimStart, List.dropWhile, ha]
  have h2 : trimEnd (a :: (x ++ [b])) = a :: (x ++ [b]) := by
    have := dropWhileEnd_snoc_false isWs (a :: x) b hb
    simpa [trimEnd] using this
  rw [trim, h1, h2]

theorem pretty_ends : ∀ (toks : List Tok) (ind : Nat) (hf : Bool), Bal toks ind hf →
    ∃ x, prettyToks toks ind hf = x ++ [')']
  | [], _, _, h => by simp [Bal] at h
  | [.fld _], _, _, h => by simp [Bal] at h
  | [.opn n k], ind, hf, h => by
    obtain ⟨_, hk, _⟩ := h
    obtain ⟨j, rfl⟩ : ∃ j, k = j + 1 := ⟨k - 1, by omega⟩
    exact ⟨openPre ind hf ++ ('(' :: n ++ List.replicate j ')'), by simp [prettyToks, List.replicate_succ']⟩
  | .opn n k :: t :: ts, ind, hf, h => by
    obtain ⟨x, hx⟩ := pretty_ends (t :: ts) _ false h.2.2
    exact ⟨openPre ind hf ++ ('(' :: n ++ (List.replicate k ')' ++ x)), by simp [prettyToks, hx]⟩
  | .fld n :: t :: ts, ind, hf, h => by
    obtain ⟨x, hx⟩ := pretty_ends (t :: ts) _ true h.2
    exact ⟨'\n' :: (indentStr ind ++ (n ++ (':' :: ' ' :: x))), by simp [prettyToks, hx]⟩

theorem join_ends : ∀ (toks : List Tok) (ind : Nat) (hf : Bool), Bal toks ind hf →
    ∃ y, joinToks toks = y ++ [')']
  | [], _, _, h => by simp [Bal] at h
  | [.fld _], _, _, h => by simp [Bal] at h
  | [.opn n k], ind, hf, h => by
    obtain ⟨_, hk, _⟩ := h
    obtain ⟨j, rfl⟩ : ∃ j, k = j + 1 := ⟨k - 1, by omega⟩
    exact ⟨'(' :: n ++ List.replicate j ')', by simp [joinToks, tokStr, List.replicate_succ']⟩
  | .opn n k :: t :: ts, ind, hf, h => by
    obtain ⟨y, hy⟩ := join_ends (t :: ts) _ false h.2.2
    exact ⟨tokStr (.opn n k) ++ ' ' :: y, by simp [joinToks, hy]⟩
  | .fld n :: t :: ts, ind, hf, h => by
    obtain ⟨y, hy⟩ := join_ends (t :: ts) _ true h.2
    exact ⟨tokStr (.fld n) ++ ' ' :: y, by simp [joinToks, hy]⟩

def okc (c : Char) : Prop := c ≠ ';' ∧ c ≠ '\r'

theorem ok_append {a b : Str} (ha : ∀ c ∈ a, okc c) (hb : ∀ c ∈ b, okc c) : ∀ c ∈ a ++ b, okc c := by
  intro c hc
  rcases List.mem_append.mp hc with h | h
  · exact ha c h
  · exact hb c h

theorem ok_cons {a : Char} {b : Str} (ha : okc a) (hb : ∀ c ∈ b, okc c) : ∀ c ∈ a :: b, okc c := by
  intro c hc
  rcases List.mem_cons.mp hc with h | h
  · exact h ▸ ha
  · exact hb c h

theorem ok_indent (ind : Nat) : ∀ c ∈ indentStr ind, okc c := by
  intro c hc
  have : c = ' ' := by
    simp only [indentStr, List.mem_flatten, List.mem_replicate] at hc
    obtain ⟨l, ⟨_, rfl⟩, hc⟩ := hc
    simpa using hc
  subst this; exact ⟨by decide, by decide⟩

theorem ok_openPre (ind : Nat) (hf : Bool) : ∀ c ∈ openPre ind hf, okc c := by
  unfold openPre
  split
  · simp
  · split
    · exact ok_cons ⟨by decide, by decide⟩ (ok_indent ind)
    · simp

theorem ok_name (n : Str) (hn : NameOK2 n) : ∀ c ∈ n, okc c :=
  fun c hc => ⟨(nameCh_facts (hn.2.1 c hc)).2.2.1, (nameCh_facts (hn.2.1 c hc)).2.2.2⟩

theorem ok_rep (k : Nat) : ∀ c ∈ List.replicate k ')', okc c := by
  intro c hc
  have := (List.mem_replicate.mp hc).2
  subst this; exact ⟨by decide, by decide⟩

theorem pretty_chars : ∀ (toks : List Tok) (ind : Nat) (hf : Bool), Bal toks ind hf →
    ∀ c ∈ prettyToks toks ind hf, okc c
  | [], _, _, h => by simp [Bal] at h
  | [.fld _], _, _, h => by simp [Bal] at h
  | [.opn n k], ind, hf, h => by
    obtain ⟨hn, _, _⟩ := h
    simp only [prettyToks]
    exact ok_append (ok_openPre ind hf) (ok_cons ⟨by decide, by decide⟩
      (ok_append (ok_name n hn) (ok_append (ok_rep k) (by simp))))
  | .opn n k :: t :: ts, ind, hf, h => by
    obtain ⟨hn, _, hb⟩ := h
    have ih := pretty_chars (t :: ts) _ false hb
    simp only [prettyToks]
    exact ok_append (ok_openPre ind hf) (ok_cons ⟨by decide, by decide⟩
      (ok_append (ok_name n hn) (ok_append (ok_rep k) ih)))
  | .fld n :: t :: ts, ind, hf, h => by
    obtain ⟨hn, hb⟩ := h
    have ih := pretty_chars (t :: ts) _ true hb
    simp only [prettyToks]
    exact ok_cons ⟨by decide, by decide⟩ (ok_append (ok_indent ind) (ok_append (ok_name n hn)
      (ok_cons ⟨by decide, by decide⟩ (ok_cons ⟨by decide, by decide⟩ ih))))

/-! ## the theorems -/

/-- `normalize_pretty`: normalising the pretty-printed form of a balanced token sequence that starts
with a `(name` token gives back the one-line S-expression. -/
theorem normalize_pretty (n : Str) (k : Nat) (ts : List Tok) (h : Bal (.opn n k :: ts) 0 false) :
    normalizeSexp (trim (prettyToks (.opn n k :: ts) 0 false)) = joinToks (.opn n k :: ts) := by
  obtain ⟨x, hx⟩ := pretty_ends _ _ _ h
  obtain ⟨y, hy⟩ := join_ends _ _ _ h
  have hchars := pretty_chars _ _ _ h
  -- the text starts with `(` and ends with `)`: trimming does nothing
  have hstart : ∃ z, prettyToks (.opn n k :: ts) 0 false = '(' :: z := by
    cases ts <;> exact ⟨_, by simp [prettyToks, openPre]; rfl⟩
  obtain ⟨z, hz⟩ := hstart
  have htrim : trim (prettyToks (.opn n k :: ts) 0 false) = prettyToks (.opn n k :: ts) 0 false := by
    have hz' : ∃ w, z = w ++ [')'] := by
      rw [hz] at hx
      cases x with
      | nil => simp at hx
      | cons a x' =>
        simp only [List.cons_append, List.cons.injEq] at hx
        exact ⟨x', hx.2⟩
    obtain ⟨w, hw⟩ := hz'
    rw [hz, hw]
    exact trim_of_ends w '(' ')' (by decide) (by decide)
  -- the character loop over the whole text
  have hloop : normChars (prettyToks (.opn n k :: ts) 0 false) [] false = ((joinToks (.opn n k :: ts)).reverse, false) := by
    cases ts with
    | nil =>
      obtain ⟨hn, _, _⟩ := h
      have e : prettyToks [.opn n k] 0 false = tokStr (.opn n k) := by simp [prettyToks, openPre, tokStr]
      rw [e, nc_tok (.opn n k) [] false hn]
      simp [joinToks]
    | cons t ts =>
      obtain ⟨hn, hk, hb⟩ := h
      have hk0 : k = 0 := by simp [openInd] at hk; omega
      subst hk0
      have e : prettyToks (.opn n 0 :: t :: ts) 0 false = tokStr (.opn n 0) ++ prettyToks (t :: ts) 1 false := by
        simp [prettyToks, openPre, tokStr, openInd]
      have hb' : Bal (t :: ts) 1 false := by simpa [openInd] using hb
      rw [e, normChars_append, nc_tok (.opn n 0) [] false hn]
      simp only
      rw [nc_pretty (t :: ts) 1 false _ hb' (by simp [tokStr]) (fun _ => by omega)]
      simp [joinToks, List.reverse_append]
  obtain ⟨tail, htail, hnorm⟩ := normalize_charwise (prettyToks (.opn n k :: ts) 0 false)
    (fun hm => (hchars _ hm).1 rfl) (fun hm => (hchars _ hm).2 rfl)
  rw [htrim, hnorm, normChars_append, hloop]
  have hlast : trimEnd (joinToks (.opn n k :: ts)) = joinToks (.opn n k :: ts) := by
    rw [hy]
    exact dropWhileEnd_snoc_false isWs y ')' (by decide)
  rcases htail with rfl | rfl
  · simp [normChars, hlast]
  · have hne : (joinToks (.opn n k :: ts)).reverse.isEmpty = false := by rw [hy]; simp
    have : isWs '\n' = true := by decide
    simp only [normChars, this, ↓reduceIte, Bool.not_false, hne, Bool.and_self, List.reverse_cons, List.reverse_reverse]
    rw [trimEnd_snoc_space, hlast]

/-- The character loop over the whole pretty-printed text, from the empty state. -/
theorem nc_pretty_top (n : Str) (k : Nat) (ts : List Tok) (h : Bal (.opn n k :: ts) 0 false) :
    normChars (prettyToks (.opn n k :: ts) 0 false) [] false = ((joinToks (.opn n k :: ts)).reverse, false) := by
  cases ts with
  | nil =>
    obtain ⟨hn, _, _⟩ := h
    have e : prettyToks [.opn n k] 0 false = tokStr (.opn n k) := by simp [prettyToks, openPre, tokStr]
    rw [e, nc_tok (.opn n k) [] false hn]
    simp [joinToks]
  | cons t ts =>
    obtain ⟨hn, hk, hb⟩ := h
    have hk0 : k = 0 := by simp [openInd] at hk; omega
    subst hk0
    have e : prettyToks (.opn n 0 :: t :: ts) 0 false = tokStr (.opn n 0) ++ prettyToks (t :: ts) 1 false := by
      simp [prettyToks, openPre, tokStr, openInd]
    have hb' : Bal (t :: ts) 1 false := by simpa [openInd] using hb
    rw [e, normChars_append, nc_tok (.opn n 0) [] false hn]
    simp only
    rw [nc_pretty (t :: ts) 1 false _ hb' (by simp [tokStr]) (fun _ => by omega)]
    simp [joinToks, List.reverse_append]

/-- `normalize_section`: the expectation section of a written test — a blank line, the pretty-printed
S-expression, a newline and possibly one more blank line — normalises to the one-line S-expression. -/
theorem normalize_section (n : Str) (k : Nat) (ts : List Tok) (h : Bal (.opn n k :: ts) 0 false) (sepf : Str)
    (hsep : sepf = [] ∨ sepf = ['\n']) :
    normalizeSexp ('\n' :: (prettyToks (.opn n k :: ts) 0 false ++ '\n' :: sepf)) = joinToks (.opn n k :: ts) := by
  obtain ⟨y, hy⟩ := join_ends _ _ _ h
  have hchars := pretty_chars _ _ _ h
  have hT : ∀ c ∈ '\n' :: (prettyToks (.opn n k :: ts) 0 false ++ '\n' :: sepf), okc c := by
    refine ok_cons ⟨by decide, by decide⟩ (ok_append hchars (ok_cons ⟨by decide, by decide⟩ ?_))
    rcases hsep with rfl | rfl
    · simp
    · exact ok_cons ⟨by decide, by decide⟩ (by simp)
  obtain ⟨tail, htail, hnorm⟩ := normalize_charwise _ (fun hm => (hT _ hm).1 rfl) (fun hm => (hT _ hm).2 rfl)
  rw [hnorm]
  have hws : ∀ x ∈ sepf ++ tail, isWs x = true := by
    intro x hx
    have : x = '\n' := by
      rcases hsep with rfl | rfl <;> rcases htail with rfl | rfl <;> simp at hx <;> simp [hx]
    subst this; decide
  have hnl : isWs '\n' = true := by decide
  have e : ('\n' :: (prettyToks (.opn n k :: ts) 0 false ++ '\n' :: sepf)) ++ tail =
      ['\n'] ++ (prettyToks (.opn n k :: ts) 0 false ++ ('\n' :: (sepf ++ tail))) := by simp
  have hne : (joinToks (.opn n k :: ts)).reverse ≠ [] := by rw [hy]; simp
  rw [e, normChars_append, normChars_nl]
  simp only [List.isEmpty_nil, Bool.not_true, Bool.false_and, Bool.false_eq_true, ↓reduceIte]
  rw [normChars_append, nc_pretty_top n k ts h]
  simp only
  rw [nc_ws_first '\n' _ _ hnl hws hne]
  simp only [List.reverse_cons, List.reverse_reverse]
  rw [trimEnd_snoc_space, hy]
  exact dropWhileEnd_snoc_false isWs y ')' (by decide)

/-- `format_normalize`: for every one-line S-expression made of `(name` / `field:` tokens with balanced
parentheses (what `ts_node_string` prints for an error-free tree), formatting it with `format_sexp` and
normalising the result with `normalize_sexp_output` gives back the S-expression — with and without the
quote-reset repair. -/
theorem format_normalize (fx : Fixes) (n : Str) (k : Nat) (ts : List Tok) (h : Bal (.opn n k :: ts) 0 false) :
    normalizeSexp (trim (formatSexp fx (joinToks (.opn n k :: ts)))) = joinToks (.opn n k :: ts) := by
  rw [format_tokens fx _ h, normalize_pretty n k ts h]

end TsVerif.C20
