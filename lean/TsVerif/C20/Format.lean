import TsVerif.C20.Model
/-!
# C20 — `format_sexp` followed by `normalize_sexp_output` gives back the S-expression

The S-expressions `ts_node_string` prints for an error-free tree are, character-wise, a sequence of
space-separated tokens `(name` + closing parentheses, or `field:`.  `Tok`/`joinToks` describe exactly
these strings; `Bal` says the parentheses balance (everything closes exactly at the last token).
`format_tokens`: `formatSexp (joinToks ts) = prettyToks ts` (one token per line, two spaces per level);
-/
namespace TsVerif.C20

/-- Characters a node or field name is made of: no delimiter of the formatter, no quote, no white space. -/
def nameCh (c : Char) : Bool :=
  c != ' ' && c != ')' && c != '(' && c != '\'' && c != '"' && c != ':' && c != '\x00' && c != ';' && !isWs c

inductive Tok where
  | opn (name : Str) (closers : Nat)
  | fld (name : Str)
  deriving Repr, DecidableEq

def tokStr : Tok → Str
  | .opn n k => '(' :: n ++ List.replicate k ')'
  | .fld n => n ++ [':']

def joinToks : List Tok → Str
  | [] => []
  | [t] => tokStr t
  | t :: t' :: ts => tokStr t ++ ' ' :: joinToks (t' :: ts)

/-! ## `fetch_next_str` on quote-free text -/

theorem fetchLoop_cons (qr : QMode) (c : Char) (cs : Str) (q : Char) (sp : Bool) (acc : Str) :
    fetchLoop qr (c :: cs) q sp acc =
      if c == '\'' || c == '"' then
        fetchLoop qr cs (if qr.reset then (if q == '\x00' then c else if q == c && (!qr.same || (match cs with
          | n :: _ => n == ' ' || n == ')'
          | [] => true)) then '\x00' else q) else c) sp (c :: acc)
      else if c == ' ' || (c == ')' && q != '\x00') then
        match cs with
        | n :: cs' => if n == q then fetchLoop qr cs' '\x00' sp (n :: c :: acc) else (acc, cs, q, sp)
        | [] => (acc, cs, q, sp)
      else if c == ')' then (acc, cs, q, true)
      else fetchLoop qr cs q sp (c :: acc) := by
  cases cs <;> simp [fetchLoop]

/-- Reading a word: characters that are neither delimiters nor quotes are accumulated. -/
theorem fetchLoop_word (qr : QMode) (w rest : Str) (sp : Bool) (acc : Str) (hw : ∀ c ∈ w, nameCh c = true ∨ c = '(' ∨ c = ':') :
    fetchLoop qr (w ++ rest) '\x00' sp acc = fetchLoop qr rest '\x00' sp (w.reverse ++ acc) := by
  induction w generalizing acc with
  | nil => rfl
  | cons c cs ih =>
    have hc := hw c (by simp)
    have h1 : (c == '\'' || c == '"') = false := by
      rcases hc with hc | hc | hc
      · simp only [nameCh, Bool.and_eq_true, bne_iff_ne, ne_eq] at hc; simp [hc]
      · subst hc; decide
      · subst hc; decide
    have h2 : (c == ' ') = false := by
      rcases hc with hc | hc | hc
      · simp only [nameCh, Bool.and_eq_true, bne_iff_ne, ne_eq] at hc; simp [hc]
      · subst hc; decide
      · subst hc; decide
    have h3 : (c == ')') = false := by
      rcases hc with hc | hc | hc
      · simp only [nameCh, Bool.and_eq_true, bne_iff_ne, ne_eq] at hc; simp [hc]
      · subst hc; decide
      · subst hc; decide
    simp only [List.cons_append]
    rw [fetchLoop_cons]
    simp only [h1, h2, h3, bne_self_eq_false, Bool.and_false, Bool.or_false, Bool.false_eq_true, ↓reduceIte]
    rw [ih _ (fun x hx => hw x (by simp [hx]))]
    simp

/-- A closing parenthesis ends the word, is consumed, and is remembered. -/
theorem fetchLoop_paren (qr : QMode) (rest : Str) (sp : Bool) (acc : Str) :
    fetchLoop qr (')' :: rest) '\x00' sp acc = (acc, rest, '\x00', true) := by
  rw [fetchLoop_cons]; simp

/-- A space ends the word and is consumed (the next character is not NUL). -/
theorem fetchLoop_space (qr : QMode) (rest : Str) (sp : Bool) (acc : Str) (h : rest.head? ≠ some '\x00') :
    fetchLoop qr (' ' :: rest) '\x00' sp acc = (acc, rest, '\x00', sp) := by
  rw [fetchLoop_cons]
  cases rest with
  | nil => simp
  | cons n cs =>
    have : (n == '\x00') = false := by simpa using fun h' => h (by simp [h'])
    simp [this]

theorem fetchLoop_nil (qr : QMode) (q : Char) (sp : Bool) (acc : Str) : fetchLoop qr [] q sp acc = (acc, [], q, sp) := rfl

/-- A word of name characters, possibly starting with `(` and/or ending with `:`. -/
def WordOK (w : Str) : Prop := w ≠ [] ∧ ∀ c ∈ w, nameCh c = true ∨ c = '(' ∨ c = ':'

def fst0 (rest : Str) (sp dl : Bool) : FState := { rest := rest, quote := '\x00', sawParen := sp, didLast := dl }

theorem fetch_word_space (qr : QMode) (w more : Str) (sp dl : Bool) (hw : WordOK w) (hm : more.head? ≠ some '\x00') :
    fetch qr (fst0 (w ++ ' ' :: more) sp dl) = some (w, fst0 more sp dl) := by
  obtain ⟨hne, hch⟩ := hw
  simp [fetch, fst0, fetchLoop_word qr w _ sp [] hch, fetchLoop_space qr more sp _ hm, hne]

theorem fetch_word_paren (qr : QMode) (w more : Str) (sp dl : Bool) (hw : WordOK w) :
    fetch qr (fst0 (w ++ ')' :: more) sp dl) = some (w, fst0 more true dl) := by
  obtain ⟨hne, hch⟩ := hw
  simp [fetch, fst0, fetchLoop_word qr w _ sp [] hch, fetchLoop_paren, hne]

theorem fetch_paren (qr : QMode) (more : Str) (sp dl : Bool) (hm : more ≠ []) :
    fetch qr (fst0 (')' :: more) sp dl) = some ([], fst0 more true dl) := by
  have : more.isEmpty = false := by cases more <;> simp_all
  simp [fetch, fst0, fetchLoop_paren, this]

theorem fetch_space (qr : QMode) (more : Str) (sp dl : Bool) (hm : more ≠ []) (hm0 : more.head? ≠ some '\x00') :
    fetch qr (fst0 (' ' :: more) sp dl) = some ([], fst0 more sp dl) := by
  have : more.isEmpty = false := by cases more <;> simp_all
  simp [fetch, fst0, fetchLoop_space qr more sp _ hm0, this]

theorem fetch_last_paren (qr : QMode) (sp dl : Bool) :
    fetch qr (fst0 [')'] sp dl) = some ([], fst0 [] false dl) := by
  simp [fetch, fst0, fetchLoop_paren]

theorem fetch_end_sp (qr : QMode) (dl : Bool) : fetch qr (fst0 [] true dl) = some ([], fst0 [] false dl) := by
  simp [fetch, fst0, fetchLoop]

theorem fetch_end_last (qr : QMode) : fetch qr (fst0 [] false false) = some ([], fst0 [] false true) := by
  simp [fetch, fst0, fetchLoop]

theorem fetch_end_none (qr : QMode) : fetch qr (fst0 [] false true) = none := by
  simp [fetch, fst0, fetchLoop]

/-! ## the main loop -/

theorem rep_shift (a : Char) (j : Nat) (l : Str) : List.replicate j a ++ a :: l = a :: (List.replicate j a ++ l) := by
  induction j with
  | zero => rfl
  | succ j ih => simp [List.replicate_succ, ih]

/-- An empty token closes one level. -/
theorem fmtLoop_close (qr : QMode) (f : Nat) (st st' : FState) (ind : Nat) (hf : Bool) (out : Str)
    (h : fetch qr st = some ([], st')) (hi : 0 < ind) :
    fmtLoop qr (f + 1) st ind hf out = fmtLoop qr f st' (ind - 1) hf (')' :: out) := by
  simp [fmtLoop, h, hi]

/-- At the end of the input with nothing left to close the loop returns, whatever fuel is left. -/
theorem fmtLoop_done (qr : QMode) (f : Nat) (dl : Bool) (hf : Bool) (out : Str) :
    fmtLoop qr f (fst0 [] false dl) 0 hf out = out := by
  cases f with
  | zero => rfl
  | succ f =>
    cases dl with
    | true => simp [fmtLoop, fetch_end_none]
    | false =>
      simp only [fmtLoop, fetch_end_last]
      cases f with
      | zero => simp [fmtLoop]
      | succ f => simp [fmtLoop, fetch_end_none]

/-- `j` closing parentheses followed by a space and more text: `j + 1` levels are closed
(the first `)` of the run was consumed with the name). -/
theorem fmtLoop_closers (qr : QMode) (f : Nat) (more : Str) (dl hf : Bool) (hm : more ≠ []) (hm0 : more.head? ≠ some '\x00') :
    ∀ (j : Nat) (sp : Bool) (ind : Nat) (out : Str), j + 1 ≤ ind →
      fmtLoop qr (f + (j + 1)) (fst0 (List.replicate j ')' ++ ' ' :: more) sp dl) ind hf out =
        fmtLoop qr f (fst0 more (sp || decide (0 < j)) dl) (ind - (j + 1)) hf (List.replicate (j + 1) ')' ++ out)
  | 0, sp, ind, out, hi => by
    simp only [List.replicate_zero, List.nil_append, Nat.zero_add]
    rw [fmtLoop_close qr f _ _ ind hf out (fetch_space qr more sp dl hm hm0) (by omega)]
    simp
  | j + 1, sp, ind, out, hi => by
    have e : f + (j + 1 + 1) = (f + (j + 1)) + 1 := by omega
    simp only [List.replicate_succ, List.cons_append]
    rw [e, fmtLoop_close qr _ _ _ ind hf out (fetch_paren qr _ sp dl (by simp)) (by omega)]
    rw [fmtLoop_closers qr f more dl hf hm hm0 j true (ind - 1) (')' :: out) (by omega)]
    have : ind - 1 - (j + 1) = ind - (j + 1 + 1) := by omega
    rw [this]
    congr 1
    · simp
    · simp [List.replicate_succ, rep_shift]

/-- The closing parentheses that end the input: `j` of them are still unread (one was consumed with the
name), `j + 1` levels are open; all are closed and the loop returns — with any amount of spare fuel. -/
theorem fmtLoop_closers_end (qr : QMode) (g : Nat) (hf : Bool) :
    ∀ (j : Nat) (out : Str),
      fmtLoop qr (g + (j + 1)) (fst0 (List.replicate j ')') true false) (j + 1) hf out =
        List.replicate (j + 1) ')' ++ out
  | 0, out => by
    simp only [List.replicate_zero]
    rw [Nat.zero_add, fmtLoop_close qr g _ _ 1 hf out (fetch_end_sp qr false) (by omega)]
    simp [fmtLoop_done]
  | 1, out => by
    have e : g + (1 + 1) = (g + 1) + 1 := by omega
    rw [e]
    simp only [List.replicate_one]
    rw [fmtLoop_close qr _ _ _ 2 hf out (fetch_last_paren qr true false) (by omega)]
    rw [fmtLoop_close qr g _ _ 1 hf _ (fetch_end_last qr) (by omega)]
    simp [fmtLoop_done, List.replicate_succ]
  | j + 2, out => by
    have e : g + (j + 2 + 1) = (g + (j + 1 + 1)) + 1 := by omega
    rw [e]
    simp only [List.replicate_succ (n := j + 1), List.cons_append]
    rw [fmtLoop_close qr _ _ _ (j + 2 + 1) hf out (fetch_paren qr _ true false (by simp)) (by omega)]
    have : j + 2 + 1 - 1 = j + 1 + 1 := by omega
    rw [this, fmtLoop_closers_end qr g hf (j + 1) (')' :: out)]
    simp [List.replicate_succ, rep_shift]

/-- What the formatter puts in front of a `(name` token. -/
def openPre (ind : Nat) (hf : Bool) : Str := if hf then [] else if ind > 0 then '\n' :: indentStr ind else []
def openInd (ind : Nat) (hf : Bool) : Nat := if hf then ind else ind + 1

/-- Names of nodes and fields as the runtime prints them for an error-free tree. -/
def NameOK2 (n : Str) : Prop :=
  n ≠ [] ∧ (∀ c ∈ n, nameCh c = true) ∧ ¬ pfxMissing <+: ('(' :: n) ∧ ¬ pfxUnexpected <+: ('(' :: n)

theorem wordOK_open (n : Str) (h : NameOK2 n) : WordOK ('(' :: n) :=
  ⟨by simp, by intro c hc; simp at hc; rcases hc with hc | hc; exact Or.inr (Or.inl hc); exact Or.inl (h.2.1 c hc)⟩

theorem wordOK_field (n : Str) (h : NameOK2 n) : WordOK (n ++ [':']) :=
  ⟨by simp, by intro c hc; simp at hc; rcases hc with hc | hc; exact Or.inl (h.2.1 c hc); exact Or.inr (Or.inr hc)⟩

instance (n : Str) : Decidable (NameOK2 n) := by unfold NameOK2; infer_instance

/-- One iteration on a `(name` word. -/
theorem fmtLoop_open_word (qr : QMode) (f : Nat) (st st' : FState) (n : Str) (ind : Nat) (hf : Bool) (out : Str)
    (hn : NameOK2 n) (h : fetch qr st = some ('(' :: n, st')) :
    fmtLoop qr (f + 1) st ind hf out =
      fmtLoop qr f st' (openInd ind hf) false (n.reverse ++ '(' :: ((openPre ind hf).reverse ++ out)) := by
  have hm1 := hn.2.2.1
  have hm2 := hn.2.2.2
  cases hf with
  | true => simp [fmtLoop, h, hm1, hm2, openInd, openPre]
  | false =>
    by_cases hi : 0 < ind
    · simp [fmtLoop, h, hm1, hm2, openInd, openPre, hi]
    · have : ind = 0 := by omega
      subst this
      simp [fmtLoop, h, hm1, hm2, openInd, openPre]

/-- One iteration on a `field:` word. -/
theorem fmtLoop_field_word (qr : QMode) (f : Nat) (st st' : FState) (n : Str) (ind : Nat) (hf : Bool) (out : Str)
    (hn : NameOK2 n) (h : fetch qr st = some (n ++ [':'], st')) :
    fmtLoop qr (f + 1) st ind hf out =
      fmtLoop qr f st' (ind + 1) true (' ' :: ':' :: (n.reverse ++ ((indentStr ind).reverse ++ '\n' :: out))) := by
  obtain ⟨hne, hch, _, _⟩ := hn
  have h1 : (n ++ [':']).isEmpty = false := by simp
  have h2 : ((n ++ [':']).head? == some '(') = false := by
    cases n with
    | nil => exact absurd rfl hne
    | cons c cs =>
      have := hch c (by simp)
      simp only [nameCh, Bool.and_eq_true, bne_iff_ne, ne_eq] at this
      simp [this]
  have h3 : ((n ++ [':']).getLast? == some ':') = true := by simp
  simp only [fmtLoop, h, h1, Bool.false_and, Bool.false_eq_true, ↓reduceIte, h2, h3]
  simp

/-! ## the formatter on token sequences -/

/-- The text `format_sexp` produces: every `(name` on its own line (two spaces per level) except at the
very beginning and after a field, closing parentheses directly behind, `field: ` in front of its node. -/
def prettyToks : List Tok → Nat → Bool → Str
  | [], _, _ => []
  | .opn n k :: ts, ind, hf =>
    openPre ind hf ++ ('(' :: n ++ (List.replicate k ')' ++ prettyToks ts (openInd ind hf - k) false))
  | .fld n :: ts, ind, _ => '\n' :: (indentStr ind ++ (n ++ (':' :: ' ' :: prettyToks ts (ind + 1) true)))

/-- Balanced token sequences: names are names, a token never closes more levels than are open, the
depth stays ≥ 1 until the last token, which is a `(name` token closing everything. -/
def Bal : List Tok → Nat → Bool → Prop
  | [], _, _ => False
  | [.opn n k], ind, hf => NameOK2 n ∧ 1 ≤ k ∧ k = openInd ind hf
  | [.fld _], _, _ => False
  | .opn n k :: t :: ts, ind, hf => NameOK2 n ∧ k < openInd ind hf ∧ Bal (t :: ts) (openInd ind hf - k) false
  | .fld n :: t :: ts, ind, _ => NameOK2 n ∧ Bal (t :: ts) (ind + 1) true

instance decBal : ∀ (toks : List Tok) (ind : Nat) (hf : Bool), Decidable (Bal toks ind hf)
  | [], _, _ => isFalse (by simp [Bal])
  | [.fld _], _, _ => isFalse (by simp [Bal])
  | [.opn n k], ind, hf => by unfold Bal; exact inferInstance
  | .opn n k :: t :: ts, ind, hf => by
    unfold Bal
    have := decBal (t :: ts) (openInd ind hf - k) false
    exact inferInstance
  | .fld n :: t :: ts, ind, _ => by
    unfold Bal
    have := decBal (t :: ts) (ind + 1) true
    exact inferInstance

/-- Reading a one-line S-expression as tokens (executable; used by the judge to check that what the
runtime printed is in the class the theorems talk about). -/
def tokOf (w : Str) : Option Tok :=
  match w with
  | '(' :: rest =>
    let n := rest.takeWhile (· != ')')
    let cl := rest.dropWhile (· != ')')
    if cl.all (· == ')') then some (.opn n cl.length) else none
  | _ => if w.getLast? == some ':' then some (.fld w.dropLast) else none

def splitSpaces (s : Str) : List Str :=
  (s.foldr (fun c acc => if c == ' ' then [] :: acc else match acc with
    | [] => [[c]]
    | w :: ws => (c :: w) :: ws) [[]])

def toksOf (s : Str) : Option (List Tok) := (splitSpaces s).mapM tokOf

/-- `s` is a balanced token sequence starting with a `(name` token (decidable). -/
def inFormatClass (s : Str) : Bool :=
  match toksOf s with
  | some (.opn n k :: ts) => joinToks (.opn n k :: ts) == s && decide (Bal (.opn n k :: ts) 0 false)
  | _ => false

/-- Number of loop iterations that produce output. -/
def need : List Tok → Nat
  | [] => 0
  | .opn _ k :: ts => 1 + k + need ts
  | .fld _ :: ts => 1 + need ts

theorem nameCh_ne_nul {c : Char} (h : nameCh c = true) : c ≠ '\x00' := by
  simp only [nameCh, Bool.and_eq_true, bne_iff_ne, ne_eq] at h
  exact h.1.1.2

theorem joinToks_head (t : Tok) (ts : List Tok) (ind : Nat) (hf : Bool) (h : Bal (t :: ts) ind hf) :
    joinToks (t :: ts) ≠ [] ∧ (joinToks (t :: ts)).head? ≠ some '\x00' := by
  cases t with
  | opn n k => cases ts <;> simp [joinToks, tokStr]
  | fld n =>
    cases ts with
    | nil => simp [Bal] at h
    | cons t' ts' =>
      obtain ⟨⟨hne, hch, _⟩, _⟩ := h
      cases n with
      | nil => exact absurd rfl hne
      | cons c cs =>
        have := nameCh_ne_nul (hch c (by simp))
        simp [joinToks, tokStr, this]

theorem rev_rep (a : Char) (k : Nat) : (List.replicate k a).reverse = List.replicate k a := by simp

/-- `format_tokens`, loop form: on a balanced token sequence the loop appends exactly `prettyToks`. -/
theorem fmt_toks (qr : QMode) :
    ∀ (toks : List Tok) (ind : Nat) (hf : Bool) (out : Str) (sp : Bool) (g : Nat), Bal toks ind hf →
      fmtLoop qr (g + need toks) (fst0 (joinToks toks) sp false) ind hf out = (prettyToks toks ind hf).reverse ++ out
  | [], _, _, _, _, _, h => by simp [Bal] at h
  | [.fld _], _, _, _, _, _, h => by simp [Bal] at h
  | [.opn n k], ind, hf, out, sp, g, h => by
    obtain ⟨hn, hk1, hk⟩ := h
    obtain ⟨j, rfl⟩ : ∃ j, k = j + 1 := ⟨k - 1, by omega⟩
    have e1 : joinToks [.opn n (j + 1)] = ('(' :: n) ++ ')' :: List.replicate j ')' := by
      simp [joinToks, tokStr, List.replicate_succ]
    have e2 : g + need [.opn n (j + 1)] = (g + (j + 1)) + 1 := by simp [need]; omega
    rw [e1, e2, fmtLoop_open_word qr _ _ _ n ind hf out hn (fetch_word_paren qr _ _ sp false (wordOK_open n hn)),
      ← hk, fmtLoop_closers_end]
    simp [prettyToks, List.reverse_append]
  | .opn n k :: t :: ts, ind, hf, out, sp, g, h => by
    obtain ⟨hn, hk, hb⟩ := h
    obtain ⟨hne, hnul⟩ := joinToks_head t ts _ _ hb
    cases k with
    | zero =>
      have e1 : joinToks (.opn n 0 :: t :: ts) = ('(' :: n) ++ ' ' :: joinToks (t :: ts) := by
        simp [joinToks, tokStr]
      have e2 : g + need (.opn n 0 :: t :: ts) = (g + need (t :: ts)) + 1 := by simp [need]; omega
      rw [e1, e2, fmtLoop_open_word qr _ _ _ n ind hf out hn
        (fetch_word_space qr _ _ sp false (wordOK_open n hn) hnul)]
      have := fun o => fmt_toks qr (t :: ts) (openInd ind hf - 0) false o sp g hb
      simp only [Nat.sub_zero] at this
      rw [this]
      simp [prettyToks, List.reverse_append]
    | succ j =>
      have e1 : joinToks (.opn n (j + 1) :: t :: ts) =
          ('(' :: n) ++ ')' :: (List.replicate j ')' ++ ' ' :: joinToks (t :: ts)) := by
        simp [joinToks, tokStr, List.replicate_succ]
      have e2 : g + need (.opn n (j + 1) :: t :: ts) = ((g + need (t :: ts)) + (j + 1)) + 1 := by
        simp [need]; omega
      rw [e1, e2, fmtLoop_open_word qr _ _ _ n ind hf out hn (fetch_word_paren qr _ _ sp false (wordOK_open n hn)),
        fmtLoop_closers qr _ _ false false hne hnul j true _ _ (by omega),
        fmt_toks qr (t :: ts) _ false _ _ g hb]
      simp [prettyToks, List.reverse_append]
  | .fld n :: t :: ts, ind, hf, out, sp, g, h => by
    obtain ⟨hn, hb⟩ := h
    obtain ⟨hne, hnul⟩ := joinToks_head t ts _ _ hb
    have e1 : joinToks (.fld n :: t :: ts) = (n ++ [':']) ++ ' ' :: joinToks (t :: ts) := by
      simp [joinToks, tokStr]
    have e2 : g + need (.fld n :: t :: ts) = (g + need (t :: ts)) + 1 := by simp [need]; omega
    rw [e1, e2, fmtLoop_field_word qr _ _ _ n ind hf out hn
      (fetch_word_space qr _ _ sp false (wordOK_field n hn) hnul),
      fmt_toks qr (t :: ts) _ true _ sp g hb]
    simp [prettyToks, List.reverse_append]

theorem need_le_length : ∀ toks : List Tok, need toks ≤ (joinToks toks).length
  | [] => by simp [need]
  | [.opn n k] => by simp [need, joinToks, tokStr]; omega
  | [.fld n] => by simp [need, joinToks, tokStr]
  | .opn n k :: t :: ts => by
    have := need_le_length (t :: ts)
    simp [need, joinToks, tokStr] at this ⊢; omega
  | .fld n :: t :: ts => by
    have := need_le_length (t :: ts)
    simp [need, joinToks, tokStr] at this ⊢; omega

/-- `format_tokens`: for every balanced token sequence, `format_sexp` of the one-line S-expression is
`prettyToks` — with and without the quote-reset repair. -/
theorem format_tokens (fx : Fixes) (toks : List Tok) (h : Bal toks 0 false) :
    formatSexp fx (joinToks toks) = prettyToks toks 0 false := by
  unfold formatSexp
  have hle := need_le_length toks
  obtain ⟨g, hg⟩ : ∃ g, (joinToks toks).length + 3 = g + need toks := ⟨(joinToks toks).length + 3 - need toks, by omega⟩
  have := fmt_toks ⟨fx.quoteReset, fx.sameQuote⟩ toks 0 false [] false g h
  simp only [fst0] at this
  rw [hg, this]
  simp

end TsVerif.C20
