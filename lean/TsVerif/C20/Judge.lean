import TsVerif.C20.Model
import TsVerif.C20.Format
import TsVerif.C20.SimpleDec
/-!
# C20 judge — the property's clauses decided on the REAL files and the REAL `parse_tests` results

Inputs of one case (all produced by the implementation): the original file, the entries
`parse_tests` returned for it (`ent0`), the file after the first `--update` (`after1`, and whether
the file was written at all), the entries read back from it (`ent1`), the file after a second
update (`after2`), and the table input ↦ rendering of the real parser.
-/
namespace TsVerif.C20

/-- How `ent1` (tests read back after the update) differs from `ent0` on the keys
(name, attribute text, attribute flags, input), classified by what happened to each original test. -/
def classify : List Entry → List Entry → List String
  | [], [] => []
  | [], _ :: _ => ["extra-tests"]
  | e :: es, rs =>
    let headSame := match rs with
      | r :: _ => r.key == e.key
      | [] => false
    if e.attrs.expect == .skip && !headSame then "skip-dropped" :: classify es rs
    else if !e.attrs.platform && !headSame then "platform-dropped" :: classify es rs
    else match rs with
      | [] => ["missing-tests"]
      | r :: rs' =>
        if r.key == e.key then
          let n := e.attrs.languages.length
          let nextSame := match es with
            | e2 :: _ => e2.key == e.key
            | [] => false
          if n > 1 && !nextSame && (rs'.take (n - 1)).length == n - 1 && (rs'.take (n - 1)).all (·.key == e.key) then
            "language-dup" :: classify es (rs'.drop (n - 1))
          else classify es rs'
        else ["key-changed"]

/-- `update_passes` on one entry read back after the update: a test that is run (not skipped, on
this platform, no `:error`) and whose parse is error-free has `expected = actual`. -/
def entryPasses (orc : Oracle) (e : Entry) : Bool :=
  if e.attrs.expect != .pass || !e.attrs.platform then true
  else (e.attrs.languages.take 1).all fun l =>   -- the expectation written is the first language's
    match orc l e.input with
    | none => true
    | some a =>
      let actual := if e.attrs.cst then a.cst else if e.hasFields then a.sexpFields else a.sexpPlain
      a.hasError || containsSub strERROR actual || containsSub strMISSING actual || actual == e.output

structure JudgeIn where
  fx : Fixes
  flt : Str → Bool        -- `matches_filter` of the update runs (constant `true` without a filter)
  os : Str
  orig : Str
  ent0 : List Entry
  wrote1 : Bool
  after1 : Str
  ent1 : List Entry
  after2 : Str
  orc : Oracle
  sexps : List Str        -- every S-expression the runtime printed for an error-free tree in this case
  allSexps : List Str := []  -- every S-expression the runtime printed in this case (error trees included)

/-- Well-formedness of an expectation (the property is about well-formed corpus files): empty, or one
parenthesised group — starts with `(`, the depth returns to 0 exactly at the last character. -/
def sexpLikeAux : Str → Nat → Bool
  | [], d => d == 0
  | c :: cs, d =>
    if c == '(' then sexpLikeAux cs (d + 1)
    else if c == ')' then (if d == 0 then false else if d == 1 then cs.isEmpty else sexpLikeAux cs (d - 1))
    else d > 0 && sexpLikeAux cs d

def sexpLike (s : Str) : Bool := s.isEmpty || sexpLikeAux s 0

def dedup (xs : List String) : List String :=
  xs.foldl (fun acc x => if acc.contains x then acc else acc ++ [x]) []

/-- The updater the property describes (all repairs): used only to say which corrections a correct `--update`
would write for the tests of a file — independent of the variant of the code under test. -/
def fxSpec : Fixes :=
  { keepUnrun := true, oneCorrection := true, keepSuffixPreamble := true, quoteReset := true, keepCstFiltered := true, sameQuote := true }

/-- The corrections a correct update writes for these tests (`none`: the run stops before writing). -/
def specCorrections (j : JudgeIn) : Option (List Correction) := updateEntriesF fxSpec j.orc j.flt j.ent0 []

/-- Well-formedness of the FILE for the preservation clauses ("on any well-formed corpus file"): its tests,
written in the writer's canonical form (leading text, the file's suffix, the delimiter lengths of each test),
are delimited unambiguously — by the reader's specification (`parseFile`) they read back as the same tests
with the same names, attribute text, inputs and delimiter lengths.  A file fails this only when a line of
an input or of an expectation to be written is itself a delimiter line of this file (e.g. a `:cst`
expectation `--------` as long as its divider).  `roundtrip_built`: implied by `SimpleS` of the corrections
(measured: `simples ⇒ canon` is asserted by the check on every real case). -/
def canonB (j : JudgeIn) : Bool :=
  match specCorrections j with
  | none => true
  | some cs =>
    let suf := (firstSuffix (splitIncl j.orig)).getD []
    (parseFile j.os (preamble j.os j.orig ++ writeTests suf cs)).map Entry.dkey == cs.map Correction.dkey

/-- The syntactic hypothesis of `update_preserves_general` / `update_idempotent_general` on this file. -/
def simplesB (j : JudgeIn) : Bool :=
  match specCorrections j with
  | none => true
  | some cs => simpleSAll ((firstSuffix (splitIncl j.orig)).getD []) cs

/-- Failed clauses (empty = the property holds on this case). -/
def judge (j : JudgeIn) : List String :=
  let canon := canonB j
  -- READING: the tests the real reader returned are the ones delimited in the file by the specification of a
  -- delimiter line (a run of ≥ 3 `=` / `-`, then EXACTLY the file's suffix, then the line ending): same names,
  -- attribute text, flags, inputs, in the same order
  let read := if (parseFile j.os j.orig).map Entry.key != j.ent0.map Entry.key then ["read-differs"] else []
  let pres := if canon then dedup (classify j.ent0 j.ent1) else []
  let lines0 := splitIncl j.orig
  let lines1 := splitIncl j.after1
  -- a suffixed file must not gain suffix-less `===` lines: the new file has, for each length, at most as many
  -- `===` lines without suffix as the old file (there it was inside an input or expectation)
  -- (a `===` line followed only by white space counts as suffix-less on both sides: writing an expectation back
  -- trims it)
  let bare (old : Bool) (ls : List Str) : List Nat := ls.filterMap fun l =>
    match parseDelimLine (if old then trimStart l else l) '=' with
    | some (n, s) => if (trim s).isEmpty then some n else none
    | _ => none
  -- (old side: white space in front of the run is ignored too — a `:cst` expectation is trimmed when written back)
  let suffix := if canon && j.wrote1 && (firstSuffix lines0).isSome && !((bare false lines1).all fun n => (bare false lines1).count n ≤ (bare true lines0).count n) then ["suffix-lost"] else []
  let pre := if canon && !j.ent1.isEmpty && preamble j.os j.orig != preamble j.os j.after1 then ["preamble-deleted"] else []
  let wf := j.ent0.all fun e => e.attrs.cst || sexpLike e.output
  -- only tests that the filter lets run are updated, hence required to pass
  let passes := if canon && j.wrote1 && !(j.ent1.all fun e => !j.flt e.name || entryPasses j.orc e) then ["passes"] else []
  -- delimiter lengths are not expected outputs: they stay
  let delims := if canon && pres.isEmpty && j.ent0.length == j.ent1.length &&
      !((j.ent0.zip j.ent1).all fun (a, b) => a.hlen == b.hlen && a.dlen == b.dlen) then ["delims-changed"] else []
  -- a test the filter excludes from the run keeps its (well-formed) expectation
  let keep := if canon && pres.isEmpty && j.ent0.length == j.ent1.length &&
      !((j.ent0.zip j.ent1).all fun (a, b) => j.flt a.name || !(a.attrs.cst || a.output.isEmpty || inFormatClass a.output) || a.output == b.output)
    then ["filtered-expectation-changed"] else []
  -- a test that passes as written (expectation = what the parser prints, error nodes or not) is only re-formatted:
  -- its expectation reads back unchanged
  let passesNow (e : Entry) : Bool :=
    e.attrs.expect == .pass && e.attrs.platform && !e.attrs.languages.isEmpty &&
    (e.attrs.languages.take 1).all fun l => match j.orc l e.input with
      | none => false
      | some a => (if e.attrs.cst then a.cst else if e.hasFields then a.sexpFields else a.sexpPlain) == e.output
  -- likewise a test whose expectation the update must KEEP (skipped, other platform, `:error`, or a parse with error /
  -- MISSING nodes that does not match): it is only re-formatted.  Judged for well-shaped expectations (one group / CST)
  -- of tests with at most one language;
  -- well-shaped: `:cst`, empty, a balanced token sequence, or literally something the runtime printed in this case.
  let keptBySpec (e : Entry) : Bool :=
    (e.attrs.cst || e.output.isEmpty || inFormatClass e.output || j.allSexps.contains e.output) && e.attrs.languages.length ≤ 1 &&
    (e.attrs.expect != .pass || !e.attrs.platform ||
      (e.attrs.languages.take 1).all fun l => match j.orc l e.input with
        | none => false
        | some a =>
          let actual := if e.attrs.cst then a.cst else if e.hasFields then a.sexpFields else a.sexpPlain
          actual != e.output && (a.hasError || containsSub strERROR actual || containsSub strMISSING actual))
  -- (cause-specific: when EVERY offending expectation holds a quoted quote character of the same kind — `"""`, `'''`,
  -- what the runtime prints for a missing / unexpected quote token — the clause is named apart)
  let sameQuoteTok (o : Str) : Bool := containsSub ['"', '"', '"'] o || containsSub ['\'', '\'', '\''] o
  let offending := if canon && j.wrote1 && pres.isEmpty && j.ent0.length == j.ent1.length then
      (j.ent0.zip j.ent1).filter fun (a, b) => a.output != b.output &&
        ((j.flt a.name && (passesNow a || keptBySpec a)) ||
         -- carried over by a filtered update with an expectation the runtime printed (S-expression): only re-formatted
         (!j.flt a.name && !a.attrs.cst && j.allSexps.contains a.output))
    else []
  let kept := if offending.isEmpty then []
    else if offending.all fun (a, _) => sameQuoteTok a.output then ["passing-changed-same-quote"] else ["passing-changed"]
  let idem := if wf && canon && j.after2 != j.after1 then ["idempotent"] else []
  let fmt := if j.sexps.all (fun s => normalizeSexp (trim (formatSexp j.fx s)) == s) then [] else ["format-normalize"]
  read ++ pres ++ suffix ++ pre ++ delims ++ keep ++ kept ++ passes ++ idem ++ fmt

end TsVerif.C20
