import TsVerif.C20.Model
/-!
# C20 — lemmas for `parse_write_roundtrip`: the reader applied to what the writer produced

Everything here is about the model functions `splitIncl`, `parseDelimLine`, `parseHeader`, `scan`,
`bestDivider`, `buildEntry`, `writeOne`, `writeTests`.
-/
namespace TsVerif.C20

/-! ## `split_inclusive` on text made of complete lines -/

theorem splitIncl_snoc_ne_nil (a : Str) : splitIncl (a ++ ['\n']) ≠ [] := by
  induction a with
  | nil => simp [splitIncl]
  | cons c cs ih =>
    simp only [List.cons_append, splitIncl]
    split
    · simp
    · split <;> simp

/-- Cutting after a newline: the lines of `a ++ "\n" ++ b` are those of `a ++ "\n"` followed by those of `b`. -/
theorem splitIncl_append (a b : Str) :
    splitIncl (a ++ '\n' :: b) = splitIncl (a ++ ['\n']) ++ splitIncl b := by
  induction a with
  | nil => simp [splitIncl]
  | cons c cs ih =>
    simp only [List.cons_append, splitIncl]
    split
    · simp [ih]
    · rw [ih]
      have hne := splitIncl_snoc_ne_nil cs
      cases h : splitIncl (cs ++ ['\n']) with
      | nil => exact absurd h hne
      | cons l ls => simp

theorem splitIncl_line (b : Str) (h : '\n' ∉ b) : splitIncl (b ++ ['\n']) = [b ++ ['\n']] := by
  induction b with
  | nil => simp [splitIncl]
  | cons c cs ih =>
    simp only [List.mem_cons, not_or] at h
    simp only [List.cons_append, splitIncl]
    have : (c == '\n') = false := by simpa using fun h' => h.1 h'.symm
    simp [this, ih h.2]

/-- A complete line in front: `splitIncl (b ++ "\n" ++ rest) = (b ++ "\n") :: splitIncl rest`. -/
theorem splitIncl_line_cons (b rest : Str) (h : '\n' ∉ b) :
    splitIncl (b ++ '\n' :: rest) = (b ++ ['\n']) :: splitIncl rest := by
  rw [splitIncl_append, splitIncl_line b h]; rfl

/-! ## delimiter lines -/

theorem dropWhileEnd_all_not (p : Char → Bool) (s : Str) (h : ∀ c ∈ s, p c = false) : dropWhileEnd p s = s := by
  induction s with
  | nil => rfl
  | cons c cs ih =>
    have ih' := ih (fun x hx => h x (by simp [hx]))
    unfold dropWhileEnd at ih' ⊢
    simp only [List.foldr_cons, ih']
    simp [h c (by simp)]

theorem dropWhileEnd_snoc_true (p : Char → Bool) (s : Str) (x : Char) (hx : p x = true) :
    dropWhileEnd p (s ++ [x]) = dropWhileEnd p s := by
  induction s with
  | nil => simp [dropWhileEnd, hx]
  | cons c cs ih =>
    unfold dropWhileEnd at ih ⊢
    simp only [List.cons_append, List.foldr_cons, ih]

theorem takeWhile_rep (c : Char) (n : Nat) (rest : Str) (h : rest.head? ≠ some c) :
    (rep c n ++ rest).takeWhile (· == c) = rep c n := by
  induction n with
  | zero =>
    cases rest with
    | nil => rfl
    | cons x xs =>
      have : (x == c) = false := by simpa using fun h' => h (by simp [h'])
      simp [rep, List.takeWhile, this]
  | succ n ih =>
    simp only [rep, List.replicate_succ, List.cons_append, List.takeWhile, beq_self_eq_true]
    simp only [rep] at ih
    rw [ih]

/-- What the suffix of a written delimiter line must look like to be read back. -/
def SufOK (c : Char) (suf : Str) : Prop :=
  suf.head? ≠ some c ∧ ∀ x ∈ suf, x ≠ '\r' ∧ x ≠ '\n'

theorem parseDelimLine_rep (c : Char) (n : Nat) (suf : Str) (hn : 3 ≤ n) (hc : c ≠ '\n') (hs : SufOK c suf) :
    parseDelimLine (rep c n ++ suf ++ ['\n']) c = some (n, suf) := by
  unfold parseDelimLine
  have hhead : (suf ++ ['\n']).head? ≠ some c := by
    cases suf with
    | nil => simpa using fun h => hc h.symm
    | cons x xs => simpa using hs.1
  rw [List.append_assoc, takeWhile_rep c n _ hhead]
  have hlen : (rep c n).length = n := by simp [rep]
  simp only [hlen]
  have : ¬ n < 3 := by omega
  simp only [this, ↓reduceIte]
  have hdrop : (rep c n ++ (suf ++ ['\n'])).drop n = suf ++ ['\n'] := by
    rw [List.drop_append_of_le_length (by simp [rep])]
    simp [rep]
  rw [hdrop, dropWhileEnd_snoc_true _ _ _ (by simp), dropWhileEnd_all_not]
  intro x hx
  have := hs.2 x hx
  simp [this.1, this.2]

/-- A line that does not start with three or more `c`. -/
def NoDelim (c : Char) (l : Str) : Prop := (l.takeWhile (· == c)).length < 3

theorem parseDelimLine_noDelim {c : Char} {l : Str} (h : NoDelim c l) : parseDelimLine l c = none := by
  unfold parseDelimLine NoDelim at *
  simp [h]

theorem noDelim_of_head {c : Char} {l : Str} (h : l.head? ≠ some c) : NoDelim c l := by
  unfold NoDelim
  cases l with
  | nil => simp
  | cons x xs =>
    have : (x == c) = false := by simpa using fun h' => h (by simp [h'])
    simp [List.takeWhile, this]

theorem parseHeader_none_of_noDelim (fs : Option Str) (os : Str) (l : Str) (ls : List Str) (h : NoDelim '=' l) :
    parseHeader fs os (l :: ls) = none := by
  simp [parseHeader, parseDelimLine_noDelim h]

/-! ## `scan` over lines that open no header -/

theorem scan_noHeader (fs : Option Str) (os : Str) :
    ∀ (ls rest : List Str) (prev : Option Pending) (body : List Str) (acc : List Entry),
      (∀ l ∈ ls, NoDelim '=' l) →
      scan fs os (ls ++ rest) 0 prev body acc = scan fs os rest 0 prev (ls.reverse ++ body) acc
  | [], rest, prev, body, acc, _ => by simp
  | l :: ls, rest, prev, body, acc, h => by
    simp only [List.cons_append, scan, parseHeader_none_of_noDelim fs os l _ (h l (by simp))]
    rw [scan_noHeader fs os ls rest prev (l :: body) acc (fun x hx => h x (by simp [hx]))]
    simp

/-! ## `bestDivider` -/

theorem bestDivider_noDelim (fs : Option Str) :
    ∀ (ls rest : List Str) (j : Nat) (best : Option (Nat × Nat)) (bt : Nat),
      (∀ l ∈ ls, NoDelim '-' l) →
      bestDivider fs (ls ++ rest) j best bt = bestDivider fs rest (j + ls.length) best bt
  | [], rest, j, best, bt, _ => by simp
  | l :: ls, rest, j, best, bt, h => by
    simp only [List.cons_append, bestDivider, parseDelimLine_noDelim (h l (by simp))]
    rw [bestDivider_noDelim fs ls rest (j + 1) best bt (fun x hx => h x (by simp [hx]))]
    simp; congr 1; omega

theorem bestDivider_noDelim_end (fs : Option Str) (ls : List Str) (j : Nat) (best : Option (Nat × Nat)) (bt : Nat)
    (h : ∀ l ∈ ls, NoDelim '-' l) : bestDivider fs ls j best bt = best := by
  have := bestDivider_noDelim fs ls [] j best bt h
  simpa [bestDivider] using this

/-- `split_inclusive` only cuts: the lines concatenate back to the content. -/
theorem splitIncl_flatten (s : Str) : (splitIncl s).flatten = s := by
  induction s with
  | nil => rfl
  | cons c cs ih =>
    unfold splitIncl
    split
    · next h => simp [ih, eq_of_beq h]
    · split
      · next h => rw [h] at ih; simp at ih; simp [← ih]
      · next l ls h => rw [h] at ih; simp at ih; simp [← ih]

/-! ## what the writer is allowed to be given -/

def kwds : List Str :=
  [":skip".toList, ":platform".toList, ":fail-fast".toList, ":error".toList, ":language".toList, ":cst".toList]

/-- A name that `parse_header` takes as the single name line and reads back unchanged. -/
structure NameOK (name : Str) : Prop where
  noNl : '\n' ∉ name
  noDelim : NoDelim '=' (name ++ ['\n'])
  nonblank : trim (name ++ ['\n']) ≠ []
  notMarker : (trim (name ++ ['\n'])).takeWhile (· != '(') ∉ kwds
  trimmed : trimEnd (name ++ ['\n']) = name

/-- The corrections for which the round trip is proved: delimiters of length ≥ 3, a one-line name
that is not blank / not a marker / not `===…`, no attribute text, and no line of the input or of the
(trimmed) expectation starts with `===` or `---`; the input does not end in a carriage return. -/
structure Simple (c : Correction) : Prop where
  hlen : 3 ≤ c.hlen
  dlen : 3 ≤ c.dlen
  name : NameOK c.name
  attrs : c.attrsStr = []
  inputLines : ∀ l ∈ splitIncl (c.input ++ ['\n']), NoDelim '=' l ∧ NoDelim '-' l
  inputCr : popNewline (c.input ++ ['\n']) = c.input
  outputLines : ∀ l ∈ splitIncl (trim c.output ++ ['\n']), NoDelim '=' l ∧ NoDelim '-' l

/-- The file's suffix as the reader discovers it. -/
def fsOf (suf : Str) : Option Str := if suf.isEmpty then none else some suf

theorem suffixMatches_fsOf (suf : Str) : suffixMatches (fsOf suf) suf = true := by
  cases suf <;> simp [fsOf, suffixMatches]

def hdrL (suf : Str) (c : Correction) : List Str :=
  [rep '=' c.hlen ++ suf ++ ['\n'], c.name ++ ['\n'], rep '=' c.hlen ++ suf ++ ['\n']]

def bodyL (suf : Str) (c : Correction) : List Str :=
  splitIncl (c.input ++ ['\n']) ++ ((rep '-' c.dlen ++ suf ++ ['\n']) :: ['\n'] :: splitIncl (trim c.output ++ ['\n']))

def pend (c : Correction) : Pending := { name := c.name, attrsStr := [], hlen := c.hlen, attrs := {} }

theorem stripPrefix_self (s : Str) : stripPrefix s s = some [] := by
  induction s with
  | nil => rfl
  | cons c cs ih => simp [stripPrefix, ih]

theorem noDelim_nl (c : Char) (h : c ≠ '\n') : NoDelim c ['\n'] :=
  noDelim_of_head (by simpa using fun h' => h h'.symm)

theorem isHeaderDelim_rep (suf : Str) (n : Nat) (hn : 3 ≤ n) (hs : SufOK '=' suf) :
    isHeaderDelim (fsOf suf) (rep '=' n ++ suf ++ ['\n']) = true := by
  simp [isHeaderDelim, parseDelimLine_rep '=' n suf hn (by decide) hs, suffixMatches_fsOf]

theorem isHeaderDelim_noDelim (fs : Option Str) (l : Str) (h : NoDelim '=' l) : isHeaderDelim fs l = false := by
  simp [isHeaderDelim, parseDelimLine_noDelim h]

theorem headerLine_name (os : Str) (name : Str) (h : NameOK name) :
    headerLine os {} (name ++ ['\n']) = some { testName := name ++ ['\n'] } := by
  have hm := h.notMarker
  simp only [kwds, List.mem_cons, List.not_mem_nil, or_false, not_or] at hm
  obtain ⟨h1, h2, h3, h4, h5, h6⟩ := hm
  have hne : (trim (name ++ ['\n'])).isEmpty = false := by
    cases ht : trim (name ++ ['\n']) with
    | nil => exact absurd ht h.nonblank
    | cons _ _ => rfl
  unfold headerLine
  simp only [hne, Bool.false_and, Bool.false_eq_true, ↓reduceIte]
  simp [h1, h2, h3, h4, h5, h6]

/-- `parse_header` on the three header lines the writer produced. -/
theorem parseHeader_hdr (os suf : Str) (c : Correction) (rest : List Str) (h : Simple c) (hs : SufOK '=' suf) :
    parseHeader (fsOf suf) os (hdrL suf c ++ rest) = some (pend c, 3) := by
  have hd := parseDelimLine_rep '=' c.hlen suf h.hlen (by decide) hs
  simp only [hdrL, List.cons_append, List.nil_append, parseHeader, hd, suffixMatches_fsOf, Bool.not_true,
    Bool.false_eq_true, ↓reduceIte, headerLoop, isHeaderDelim_noDelim _ _ h.name.noDelim,
    headerLine_name os c.name h.name, isHeaderDelim_rep suf c.hlen h.hlen hs]
  simp [stripPrefix_self, trimEnd, dropWhileEnd, h.name.trimmed, pend]
  exact h.name.trimmed

/-- The body the reader collects for a written test (plus following separator lines) gives back the input. -/
theorem buildEntry_body (suf : Str) (c : Correction) (sep : List Str) (p : Pending)
    (h : Simple c) (hs : SufOK '-' suf) (hsep : ∀ l ∈ sep, NoDelim '-' l) :
    ∃ e, buildEntry (fsOf suf) (bodyL suf c ++ sep) p = some e ∧
      e.name = p.name ∧ e.attrsStr = p.attrsStr ∧ e.input = c.input := by
  have hin : ∀ l ∈ splitIncl (c.input ++ ['\n']), NoDelim '-' l := fun l hl => (h.inputLines l hl).2
  have hrest : ∀ l ∈ ['\n'] :: (splitIncl (trim c.output ++ ['\n']) ++ sep), NoDelim '-' l := by
    intro l hl
    simp only [List.mem_cons, List.mem_append] at hl
    rcases hl with hl | hl | hl
    · subst hl; exact noDelim_nl '-' (by decide)
    · exact (h.outputLines l hl).2
    · exact hsep l hl
  have hbest : bestDivider (fsOf suf) (bodyL suf c ++ sep) 0 none 0 =
      some (c.dlen, (splitIncl (c.input ++ ['\n'])).length) := by
    simp only [bodyL, List.append_assoc, List.cons_append]
    rw [bestDivider_noDelim _ _ _ _ _ _ hin]
    simp only [bestDivider, parseDelimLine_rep '-' c.dlen suf h.dlen (by decide) hs, suffixMatches_fsOf,
      Bool.true_and, ge_iff_le, Nat.zero_le, decide_true, ↓reduceIte, Nat.zero_add]
    exact bestDivider_noDelim_end _ _ _ _ _ hrest
  refine ⟨_, by simp only [buildEntry, hbest]; rfl, rfl, rfl, ?_⟩
  simp only [bodyL, List.append_assoc]
  rw [List.take_left' rfl, splitIncl_flatten]
  exact h.inputCr

end TsVerif.C20
