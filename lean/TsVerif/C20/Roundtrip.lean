import TsVerif.C20.Model
/-!
# C20 — lemmas for `parse_write_roundtrip`: the reader applied to what the writer produced

Everything here is about the model functions `splitIncl`, `parseDelimLine`, `parseHeader`, `scan`,
`bestDivider`, `buildEntry`, `writeOne`, `writeTests`.
-/
namespace TsVerif.C20

/-! ## `split_inclusive` on text made of complete lines -/

theorem splitIncl_snoc_ne_nil (a : Str) : splitIncl (a ++ ['\n']) ≠ [] := by
  induction a with
  | nil => simp [splitIncl]
  | cons c cs ih =>
    simp only [List.cons_append, splitIncl]
    split
    · simp
    · split <;> simp

/-- Cutting after a newline: the lines of `a ++ "\n" ++ b` are those of `a ++ "\n"` followed by those of `b`. -/
theorem splitIncl_append (a b : Str) :
    splitIncl (a ++ '\n' :: b) = splitIncl (a ++ ['\n']) ++ splitIncl b := by
  induction a with
  | nil => simp [splitIncl]
  | cons c cs ih =>
    simp only [List.cons_append, splitIncl]
    split
    · simp [ih]
    · rw [ih]
      have hne := splitIncl_snoc_ne_nil cs
      cases h : splitIncl (cs ++ ['\n']) with
      | nil => exact absurd h hne
      | cons l ls => simp

theorem splitIncl_line (b : Str) (h : '\n' ∉ b) : splitIncl (b ++ ['\n']) = [b ++ ['\n']] := by
  induction b with
  | nil => simp [splitIncl]
  | cons c cs ih =>
    simp only [List.mem_cons, not_or] at h
    simp only [List.cons_append, splitIncl]
    have : (c == '\n') = false := by simpa using fun h' => h.1 h'.symm
    simp [this, ih h.2]

/-- A complete line in front: `splitIncl (b ++ "\n" ++ rest) = (b ++ "\n") :: splitIncl rest`. -/
theorem splitIncl_line_cons (b rest : Str) (h : '\n' ∉ b) :
    splitIncl (b ++ '\n' :: rest) = (b ++ ['\n']) :: splitIncl rest := by
  rw [splitIncl_append, splitIncl_line b h]; rfl

/-! ## delimiter lines -/

theorem dropWhileEnd_all_not (p : Char → Bool) (s : Str) (h : ∀ c ∈ s, p c = false) : dropWhileEnd p s = s := by
  induction s with
  | nil => rfl
  | cons c cs ih =>
    have ih' := ih (fun x hx => h x (by simp [hx]))
    unfold dropWhileEnd at ih' ⊢
    simp only [List.foldr_cons, ih']
    simp [h c (by simp)]

theorem dropWhileEnd_snoc_true (p : Char → Bool) (s : Str) (x : Char) (hx : p x = true) :
    dropWhileEnd p (s ++ [x]) = dropWhileEnd p s := by
  induction s with
  | nil => simp [dropWhileEnd, hx]
  | cons c cs ih =>
    unfold dropWhileEnd at ih ⊢
    simp only [List.cons_append, List.foldr_cons, ih]

theorem takeWhile_rep (c : Char) (n : Nat) (rest : Str) (h : rest.head? ≠ some c) :
    (rep c n ++ rest).takeWhile (· == c) = rep c n := by
  induction n with
  | zero =>
    cases rest with
    | nil => rfl
    | cons x xs =>
      have : (x == c) = false := by simpa using fun h' => h (by simp [h'])
      simp [rep, List.takeWhile, this]
  | succ n ih =>
    simp only [rep, List.replicate_succ, List.cons_append, List.takeWhile, beq_self_eq_true]
    simp only [rep] at ih
    rw [ih]

/-- What the suffix of a written delimiter line must look like to be read back. -/
def SufOK (c : Char) (suf : Str) : Prop :=
  suf.head? ≠ some c ∧ ∀ x ∈ suf, x ≠ '\r' ∧ x ≠ '\n'

instance (c : Char) (suf : Str) : Decidable (SufOK c suf) := by unfold SufOK; infer_instance

theorem parseDelimLine_rep (c : Char) (n : Nat) (suf : Str) (hn : 3 ≤ n) (hc : c ≠ '\n') (hs : SufOK c suf) :
    parseDelimLine (rep c n ++ (suf ++ ['\n'])) c = some (n, suf) := by
  unfold parseDelimLine
  have hhead : (suf ++ ['\n']).head? ≠ some c := by
    cases suf with
    | nil => simpa using fun h => hc h.symm
    | cons x xs => simpa using hs.1
  rw [takeWhile_rep c n _ hhead]
  have hlen : (rep c n).length = n := by simp [rep]
  simp only [hlen]
  have : ¬ n < 3 := by omega
  simp only [this, ↓reduceIte]
  have hdrop : (rep c n ++ (suf ++ ['\n'])).drop n = suf ++ ['\n'] := by
    rw [List.drop_append_of_le_length (by simp [rep])]
    simp [rep]
  rw [hdrop, dropWhileEnd_snoc_true _ _ _ (by simp), dropWhileEnd_all_not]
  intro x hx
  have := hs.2 x hx
  simp [this.1, this.2]

/-- A line that does not start with three or more `c`. -/
def NoDelim (c : Char) (l : Str) : Prop := (l.takeWhile (· == c)).length < 3

instance (c : Char) (l : Str) : Decidable (NoDelim c l) := by unfold NoDelim; infer_instance

theorem parseDelimLine_noDelim {c : Char} {l : Str} (h : NoDelim c l) : parseDelimLine l c = none := by
  unfold parseDelimLine NoDelim at *
  simp [h]

theorem noDelim_of_head {c : Char} {l : Str} (h : l.head? ≠ some c) : NoDelim c l := by
  unfold NoDelim
  cases l with
  | nil => simp
  | cons x xs =>
    have : (x == c) = false := by simpa using fun h' => h (by simp [h'])
    simp [List.takeWhile, this]

theorem parseHeader_none_of_noDelim (fs : Option Str) (os : Str) (l : Str) (ls : List Str) (h : NoDelim '=' l) :
    parseHeader fs os (l :: ls) = none := by
  simp [parseHeader, parseDelimLine_noDelim h]

/-! ## `scan` over lines that open no header -/

theorem scan_noHeader (fs : Option Str) (os : Str) :
    ∀ (ls rest : List Str) (prev : Option Pending) (body : List Str) (acc : List Entry),
      (∀ l ∈ ls, NoDelim '=' l) →
      scan fs os (ls ++ rest) 0 prev body acc = scan fs os rest 0 prev (ls.reverse ++ body) acc
  | [], rest, prev, body, acc, _ => by simp
  | l :: ls, rest, prev, body, acc, h => by
    simp only [List.cons_append, scan, parseHeader_none_of_noDelim fs os l _ (h l (by simp))]
    rw [scan_noHeader fs os ls rest prev (l :: body) acc (fun x hx => h x (by simp [hx]))]
    simp

/-! ## `bestDivider` -/

theorem bestDivider_noDelim (fs : Option Str) :
    ∀ (ls rest : List Str) (j : Nat) (best : Option (Nat × Nat)) (bt : Nat),
      (∀ l ∈ ls, NoDelim '-' l) →
      bestDivider fs (ls ++ rest) j best bt = bestDivider fs rest (j + ls.length) best bt
  | [], rest, j, best, bt, _ => by simp
  | l :: ls, rest, j, best, bt, h => by
    simp only [List.cons_append, bestDivider, parseDelimLine_noDelim (h l (by simp))]
    rw [bestDivider_noDelim fs ls rest (j + 1) best bt (fun x hx => h x (by simp [hx]))]
    simp; congr 1; omega

theorem bestDivider_noDelim_end (fs : Option Str) (ls : List Str) (j : Nat) (best : Option (Nat × Nat)) (bt : Nat)
    (h : ∀ l ∈ ls, NoDelim '-' l) : bestDivider fs ls j best bt = best := by
  have := bestDivider_noDelim fs ls [] j best bt h
  simpa [bestDivider] using this

/-- `split_inclusive` only cuts: the lines concatenate back to the content. -/
theorem splitIncl_flatten (s : Str) : (splitIncl s).flatten = s := by
  induction s with
  | nil => rfl
  | cons c cs ih =>
    unfold splitIncl
    split
    · next h => simp [ih, eq_of_beq h]
    · split
      · next h => rw [h] at ih; simp at ih; simp [← ih]
      · next l ls h => rw [h] at ih; simp at ih; simp [← ih]

/-! ## what the writer is allowed to be given -/

def kwds : List Str :=
  [kwSkip, kwPlatform, kwFailFast, kwError, kwLanguage, kwCst]

/-- A name that `parse_header` takes as the single name line and reads back unchanged. -/
structure NameOK (name : Str) : Prop where
  noNl : '\n' ∉ name
  noDelim : NoDelim '=' (name ++ ['\n'])
  nonblank : trim (name ++ ['\n']) ≠ []
  notMarker : (trim (name ++ ['\n'])).takeWhile (· != '(') ∉ kwds
  trimmed : trimEnd (name ++ ['\n']) = name

/-- The corrections for which the round trip is proved: delimiters of length ≥ 3, a one-line name
that is not blank / not a marker / not `===…`, no attribute text, and no line of the input or of the
(trimmed) expectation starts with `===` or `---`; the input does not end in a carriage return. -/
structure Simple (c : Correction) : Prop where
  hlen : 3 ≤ c.hlen
  dlen : 3 ≤ c.dlen
  name : NameOK c.name
  attrs : c.attrsStr = []
  inputLines : ∀ l ∈ splitIncl (c.input ++ ['\n']), NoDelim '=' l ∧ NoDelim '-' l
  inputCr : popNewline (c.input ++ ['\n']) = c.input
  outputLines : ∀ l ∈ splitIncl (trim c.output ++ ['\n']), NoDelim '=' l ∧ NoDelim '-' l

/-- The file's suffix as the reader discovers it. -/
def fsOf (suf : Str) : Option Str := if suf.isEmpty then none else some suf

theorem suffixMatches_fsOf (suf : Str) : suffixMatches (fsOf suf) suf = true := by
  cases suf <;> simp [fsOf, suffixMatches]

def hdrL (suf : Str) (c : Correction) : List Str :=
  [rep '=' c.hlen ++ (suf ++ ['\n']), c.name ++ ['\n'], rep '=' c.hlen ++ (suf ++ ['\n'])]

def bodyL (suf : Str) (c : Correction) : List Str :=
  splitIncl (c.input ++ ['\n']) ++ ((rep '-' c.dlen ++ (suf ++ ['\n'])) :: ['\n'] :: splitIncl (trim c.output ++ ['\n']))

def pend (c : Correction) : Pending := { name := c.name, attrsStr := [], hlen := c.hlen, attrs := {} }

theorem stripPrefix_self (s : Str) : stripPrefix s s = some [] := by
  induction s with
  | nil => rfl
  | cons c cs ih => simp [stripPrefix, ih]

theorem noDelim_nl (c : Char) (h : c ≠ '\n') : NoDelim c ['\n'] :=
  noDelim_of_head (by simpa using fun h' => h h'.symm)

theorem isHeaderDelim_rep (suf : Str) (n : Nat) (hn : 3 ≤ n) (hs : SufOK '=' suf) :
    isHeaderDelim (fsOf suf) (rep '=' n ++ (suf ++ ['\n'])) = true := by
  simp [isHeaderDelim, parseDelimLine_rep '=' n suf hn (by decide) hs, suffixMatches_fsOf]

theorem isHeaderDelim_noDelim (fs : Option Str) (l : Str) (h : NoDelim '=' l) : isHeaderDelim fs l = false := by
  simp [isHeaderDelim, parseDelimLine_noDelim h]

theorem headerLine_name (os : Str) (name : Str) (h : NameOK name) :
    headerLine os {} (name ++ ['\n']) = some { testName := name ++ ['\n'] } := by
  have hm := h.notMarker
  simp only [kwds, List.mem_cons, List.not_mem_nil, or_false, not_or] at hm
  obtain ⟨h1, h2, h3, h4, h5, h6⟩ := hm
  have hne : (trim (name ++ ['\n'])).isEmpty = false := by
    cases ht : trim (name ++ ['\n']) with
    | nil => exact absurd ht h.nonblank
    | cons _ _ => rfl
  unfold headerLine
  simp only [hne, Bool.false_and, Bool.false_eq_true, ↓reduceIte]
  simp [h1, h2, h3, h4, h5, h6]

/-- `parse_header` on the three header lines the writer produced. -/
theorem parseHeader_hdr (os suf : Str) (c : Correction) (rest : List Str) (h : Simple c) (hs : SufOK '=' suf) :
    parseHeader (fsOf suf) os (hdrL suf c ++ rest) = some (pend c, 3) := by
  have hd := parseDelimLine_rep '=' c.hlen suf h.hlen (by decide) hs
  simp only [hdrL, List.cons_append, List.nil_append, parseHeader, hd, suffixMatches_fsOf, Bool.not_true,
    Bool.false_eq_true, ↓reduceIte, headerLoop, isHeaderDelim_noDelim _ _ h.name.noDelim,
    headerLine_name os c.name h.name, isHeaderDelim_rep suf c.hlen h.hlen hs]
  have e1 : trimEnd ([] : Str) = [] := rfl
  simp [stripPrefix_self, e1, h.name.trimmed, pend]

/-- The body the reader collects for a written test (plus following separator lines) gives back the input. -/
theorem buildEntry_body (suf : Str) (c : Correction) (sep : List Str) (p : Pending)
    (h : Simple c) (hs : SufOK '-' suf) (hsep : ∀ l ∈ sep, NoDelim '-' l) :
    ∃ e, buildEntry (fsOf suf) (bodyL suf c ++ sep) p = some e ∧
      e.name = p.name ∧ e.attrsStr = p.attrsStr ∧ e.input = c.input ∧ e.hlen = p.hlen ∧ e.dlen = c.dlen := by
  have hin : ∀ l ∈ splitIncl (c.input ++ ['\n']), NoDelim '-' l := fun l hl => (h.inputLines l hl).2
  have hrest : ∀ l ∈ splitIncl (trim c.output ++ ['\n']) ++ sep, NoDelim '-' l := by
    intro l hl
    simp only [List.mem_append] at hl
    rcases hl with hl | hl
    · exact (h.outputLines l hl).2
    · exact hsep l hl
  have hnl : parseDelimLine ['\n'] '-' = none := parseDelimLine_noDelim (noDelim_nl '-' (by decide))
  have hbest : bestDivider (fsOf suf) (bodyL suf c ++ sep) 0 none 0 =
      some (c.dlen, (splitIncl (c.input ++ ['\n'])).length) := by
    simp only [bodyL, List.append_assoc, List.cons_append]
    rw [bestDivider_noDelim _ _ _ _ _ _ hin]
    simp only [bestDivider, parseDelimLine_rep '-' c.dlen suf h.dlen (by decide) hs, suffixMatches_fsOf,
      Bool.true_and, ge_iff_le, Nat.zero_le, decide_true, ↓reduceIte, Nat.zero_add, hnl]
    exact bestDivider_noDelim_end _ _ _ _ _ hrest
  refine ⟨_, by simp only [buildEntry, hbest]; rfl, rfl, rfl, ?_, rfl, rfl⟩
  simp only [bodyL, List.append_assoc]
  rw [List.take_left' rfl, splitIncl_flatten]
  exact h.inputCr

/-! ## the lines of a written file -/

/-- The part of a correction / of an entry that is not an expected output. -/
def Correction.skey (c : Correction) : Str × Str × Str := (c.name, c.attrsStr, c.input)
def Entry.skey (e : Entry) : Str × Str × Str := (e.name, e.attrsStr, e.input)
/-- … together with the delimiter lengths. -/
def Correction.dkey (c : Correction) : Str × Str × Str × Nat × Nat := (c.name, c.attrsStr, c.input, c.hlen, c.dlen)
def Entry.dkey (e : Entry) : Str × Str × Str × Nat × Nat := (e.name, e.attrsStr, e.input, e.hlen, e.dlen)

theorem splitIncl_line_cons2 (a b rest : Str) (h : '\n' ∉ a ++ b) :
    splitIncl (a ++ (b ++ '\n' :: rest)) = (a ++ (b ++ ['\n'])) :: splitIncl rest := by
  have := splitIncl_line_cons (a ++ b) rest h
  simpa [List.append_assoc] using this

theorem nl_notin_rep (c : Char) (n : Nat) (suf : Str) (hc : c ≠ '\n') (hs : ∀ x ∈ suf, x ≠ '\r' ∧ x ≠ '\n') :
    '\n' ∉ rep c n ++ suf := by
  simp only [rep, List.mem_append, List.mem_replicate, not_or, not_and]
  exact ⟨fun _ h => hc h.symm, fun h => (hs _ h).2 rfl⟩

theorem splitIncl_writeOne (suf : Str) (c : Correction) (rest : Str) (h : Simple c)
    (hs : ∀ x ∈ suf, x ≠ '\r' ∧ x ≠ '\n') :
    splitIncl (writeOne suf c ++ rest) = hdrL suf c ++ (bodyL suf c ++ splitIncl rest) := by
  have e : writeOne suf c ++ rest =
      rep '=' c.hlen ++ (suf ++ '\n' :: (c.name ++ '\n' :: (rep '=' c.hlen ++ (suf ++ '\n' ::
        (c.input ++ '\n' :: (rep '-' c.dlen ++ (suf ++ '\n' :: '\n' :: (trim c.output ++ '\n' :: rest)))))))) := by
    simp [writeOne, h.attrs]
  rw [e, splitIncl_line_cons2 _ _ _ (nl_notin_rep '=' _ suf (by decide) hs),
    splitIncl_line_cons _ _ h.name.noNl,
    splitIncl_line_cons2 _ _ _ (nl_notin_rep '=' _ suf (by decide) hs),
    splitIncl_append c.input,
    splitIncl_line_cons2 _ _ _ (nl_notin_rep '-' _ suf (by decide) hs)]
  have e2 : ∀ x : Str, splitIncl ('\n' :: x) = ['\n'] :: splitIncl x := by intro x; simp [splitIncl]
  rw [e2, splitIncl_append (trim c.output)]
  simp [hdrL, bodyL]

/-- Lines of the tests after the first one: a blank separator line, then header and body. -/
def tailLines (suf : Str) (cs : List Correction) : List Str :=
  (cs.map fun c => ['\n'] :: (hdrL suf c ++ bodyL suf c)).flatten

theorem splitIncl_tail (suf : Str) (hs : ∀ x ∈ suf, x ≠ '\r' ∧ x ≠ '\n') :
    ∀ cs : List Correction, (∀ c ∈ cs, Simple c) →
      splitIncl (cs.map fun c => '\n' :: writeOne suf c).flatten = tailLines suf cs
  | [], _ => by simp [tailLines, splitIncl]
  | c :: cs, h => by
    have ih := splitIncl_tail suf hs cs (fun x hx => h x (by simp [hx]))
    simp only [List.map_cons, List.flatten_cons, List.cons_append, tailLines]
    have e2 : ∀ x : Str, splitIncl ('\n' :: x) = ['\n'] :: splitIncl x := by intro x; simp [splitIncl]
    rw [e2, splitIncl_writeOne suf c _ (h c (by simp)) hs, ih]
    simp [tailLines]

theorem splitIncl_writeTests (suf : Str) (hs : ∀ x ∈ suf, x ≠ '\r' ∧ x ≠ '\n') (c : Correction) (cs : List Correction)
    (h : ∀ x ∈ c :: cs, Simple x) :
    splitIncl (writeTests suf (c :: cs)) = hdrL suf c ++ (bodyL suf c ++ tailLines suf cs) := by
  rw [writeTests, splitIncl_writeOne suf c _ (h c (by simp)) hs,
    splitIncl_tail suf hs cs (fun x hx => h x (by simp [hx]))]

/-! ## the reader on those lines -/

theorem bodyL_noHeader (suf : Str) (c : Correction) (h : Simple c) : ∀ l ∈ bodyL suf c, NoDelim '=' l := by
  intro l hl
  simp only [bodyL, List.mem_append, List.mem_cons] at hl
  rcases hl with hl | hl | hl | hl
  · exact (h.inputLines l hl).1
  · subst hl
    apply noDelim_of_head
    have : 0 < c.dlen := by have := h.dlen; omega
    obtain ⟨k, hk⟩ := Nat.exists_eq_succ_of_ne_zero (Nat.pos_iff_ne_zero.mp this)
    simp [rep, hk, List.replicate_succ]
  · subst hl; exact noDelim_nl '=' (by decide)
  · exact (h.outputLines l hl).1

theorem dkey_of_built {c0 : Correction} {e : Entry} (h : Simple c0)
    (h1 : e.name = (pend c0).name) (h2 : e.attrsStr = (pend c0).attrsStr) (h3 : e.input = c0.input)
    (h4 : e.hlen = (pend c0).hlen) (h5 : e.dlen = c0.dlen) :
    e.dkey = c0.dkey := by
  simp [Entry.dkey, Correction.dkey, h1, h2, h3, h4, h5, pend, h.attrs]

/-- The scanning loop over the remaining tests of a written file, a test `c0` being pending with its
own body lines collected. -/
theorem scan_tail (os suf : Str) (hse : SufOK '=' suf) (hsd : SufOK '-' suf) :
    ∀ (cs : List Correction) (c0 : Correction) (acc : List Entry), Simple c0 → (∀ c ∈ cs, Simple c) →
      (scan (fsOf suf) os (tailLines suf cs) 0 (some (pend c0)) (bodyL suf c0).reverse acc).map Entry.dkey
        = acc.map Entry.dkey ++ c0.dkey :: cs.map Correction.dkey
  | [], c0, acc, h0, _ => by
    obtain ⟨e, he, h1, h2, h3, h4, h5⟩ := buildEntry_body suf c0 [] (pend c0) h0 hsd (by simp)
    simp only [List.append_nil] at he
    simp [tailLines, scan, finishPrev, he, dkey_of_built h0 h1 h2 h3 h4 h5]
  | c :: cs, c0, acc, h0, h => by
    have hc := h c (by simp)
    obtain ⟨e, he, h1, h2, h3, h4, h5⟩ := buildEntry_body suf c0 [['\n']] (pend c0) h0 hsd
      (by intro l hl; simp at hl; subst hl; exact noDelim_nl '-' (by decide))
    have ih := scan_tail os suf hse hsd cs c (acc ++ [e]) hc (fun x hx => h x (by simp [hx]))
    have e1 : tailLines suf (c :: cs) = ['\n'] :: (hdrL suf c ++ (bodyL suf c ++ tailLines suf cs)) := by
      simp [tailLines]
    rw [e1, scan, parseHeader_none_of_noDelim _ _ _ _ (noDelim_nl '=' (by decide))]
    have hp := parseHeader_hdr os suf c (bodyL suf c ++ tailLines suf cs) hc hse
    have e3 : hdrL suf c ++ (bodyL suf c ++ tailLines suf cs) =
        (rep '=' c.hlen ++ (suf ++ ['\n'])) :: (c.name ++ ['\n']) :: (rep '=' c.hlen ++ (suf ++ ['\n'])) ::
          (bodyL suf c ++ tailLines suf cs) := by simp [hdrL]
    rw [e3] at hp ⊢
    simp only [scan, hp]
    have e4 : finishPrev (fsOf suf) (some (pend c0)) (['\n'] :: (bodyL suf c0).reverse) = [e] := by
      simp [finishPrev, he]
    rw [e4, scan_noHeader _ _ _ _ _ _ _ (bodyL_noHeader suf c hc)]
    simp only [List.append_nil]
    rw [ih]
    simp [dkey_of_built h0 h1 h2 h3 h4 h5]

/-! ## the file's suffix as the reader discovers it -/

theorem firstSuffix_none_of (ls : List Str)
    (h : ∀ l ∈ ls, ∀ n s, parseDelimLine l '=' = some (n, s) → s = []) : firstSuffix ls = none := by
  induction ls with
  | nil => rfl
  | cons l ls ih =>
    have ih' := ih (fun x hx => h x (by simp [hx]))
    unfold firstSuffix
    cases hp : parseDelimLine l '=' with
    | none => simpa using ih'
    | some ns =>
      obtain ⟨n, s⟩ := ns
      have := h l (by simp) n s hp
      subst this
      simpa using ih'

theorem firstSuffix_written (suf : Str) (hse : SufOK '=' suf) (c : Correction) (cs : List Correction)
    (h : ∀ x ∈ c :: cs, Simple x) :
    firstSuffix (hdrL suf c ++ (bodyL suf c ++ tailLines suf cs)) = fsOf suf := by
  by_cases hsuf : suf = []
  case neg =>
    have hd := parseDelimLine_rep '=' c.hlen suf (h c (by simp)).hlen (by decide) hse
    have : suf.isEmpty = false := by cases suf <;> simp_all
    simp [hdrL, firstSuffix, hd, fsOf, this]
  case pos =>
    subst hsuf
    have hse' : SufOK '=' [] := hse
    simp only [fsOf, List.isEmpty_nil, ↓reduceIte]
    apply firstSuffix_none_of
    have key : ∀ (c : Correction), Simple c → ∀ l ∈ hdrL [] c ++ bodyL [] c,
        ∀ n s, parseDelimLine l '=' = some (n, s) → s = [] := by
      intro c hc l hl n s hp
      simp only [List.mem_append] at hl
      rcases hl with hl | hl
      · simp only [hdrL, List.mem_cons, List.not_mem_nil, or_false] at hl
        rcases hl with hl | hl | hl
        · subst hl; rw [parseDelimLine_rep '=' c.hlen [] hc.hlen (by decide) hse'] at hp; simp at hp; exact hp.2
        · subst hl; rw [parseDelimLine_noDelim hc.name.noDelim] at hp; simp at hp
        · subst hl; rw [parseDelimLine_rep '=' c.hlen [] hc.hlen (by decide) hse'] at hp; simp at hp; exact hp.2
      · rw [parseDelimLine_noDelim (bodyL_noHeader [] c hc l hl)] at hp; simp at hp
    intro l hl n s hp
    rw [← List.append_assoc] at hl
    rcases List.mem_append.mp hl with hl | hl
    · exact key c (h c (by simp)) l hl n s hp
    · simp only [tailLines, List.mem_flatten, List.mem_map] at hl
      obtain ⟨grp, ⟨c', hc', rfl⟩, hl⟩ := hl
      simp only [List.mem_cons] at hl
      rcases hl with hl | hl
      · subst hl; rw [parseDelimLine_noDelim (noDelim_nl '=' (by decide))] at hp; simp at hp
      · exact key c' (h c' (by simp [hc'])) l hl n s hp

/-- `parse_write_roundtrip` for `Simple` corrections: the reader applied to the written file returns,
in order, one entry per correction with the same name, attribute text, input and delimiter lengths — for
every list of corrections, every delimiter lengths ≥ 3 and every admissible suffix. -/
theorem roundtrip_simple (os suf : Str) (hse : SufOK '=' suf) (hsd : SufOK '-' suf) (cs : List Correction)
    (h : ∀ c ∈ cs, Simple c) :
    (parseFile os (writeTests suf cs)).map Entry.dkey = cs.map Correction.dkey := by
  cases cs with
  | nil => simp [parseFile, writeTests, splitIncl, scan, finishPrev, firstSuffix]
  | cons c cs =>
    have hc := h c (by simp)
    unfold parseFile
    simp only [splitIncl_writeTests suf hse.2 c cs h, firstSuffix_written suf hse c cs h]
    have hp := parseHeader_hdr os suf c (bodyL suf c ++ tailLines suf cs) hc hse
    have e3 : hdrL suf c ++ (bodyL suf c ++ tailLines suf cs) =
        (rep '=' c.hlen ++ (suf ++ ['\n'])) :: (c.name ++ ['\n']) :: (rep '=' c.hlen ++ (suf ++ ['\n'])) ::
          (bodyL suf c ++ tailLines suf cs) := by simp [hdrL]
    rw [e3] at hp ⊢
    simp only [scan, hp]
    rw [scan_noHeader _ _ _ _ _ _ _ (bodyL_noHeader suf c hc)]
    have := scan_tail os suf hse hsd cs c [] hc (fun x hx => h x (by simp [hx]))
    simpa [finishPrev] using this

end TsVerif.C20
