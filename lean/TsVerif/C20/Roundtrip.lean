import TsVerif.C20.Model
/-!
# C20 — lemmas for `parse_write_roundtrip`: the reader applied to what the writer produced

Everything here is about the model functions `splitIncl`, `parseDelimLine`, `parseHeader`, `scan`,
`bestDivider`, `buildEntry`, `writeOne`, `writeTests`.
-/
namespace TsVerif.C20

/-! ## `split_inclusive` on text made of complete lines -/

theorem splitIncl_snoc_ne_nil (a : Str) : splitIncl (a ++ ['\n']) ≠ [] := by
  induction a with
  | nil => simp [splitIncl]
  | cons c cs ih =>
    simp only [List.cons_append, splitIncl]
    split
    · simp
    · split <;> simp

/-- Cutting after a newline: the lines of `a ++ "\n" ++ b` are those of `a ++ "\n"` followed by those of `b`. -/
theorem splitIncl_append (a b : Str) :
    splitIncl (a ++ '\n' :: b) = splitIncl (a ++ ['\n']) ++ splitIncl b := by
  induction a with
  | nil => simp [splitIncl]
  | cons c cs ih =>
    simp only [List.cons_append, splitIncl]
    split
    · simp [ih]
    · rw [ih]
      have hne := splitIncl_snoc_ne_nil cs
      cases h : splitIncl (cs ++ ['\n']) with
      | nil => exact absurd h hne
      | cons l ls => simp

theorem splitIncl_line (b : Str) (h : '\n' ∉ b) : splitIncl (b ++ ['\n']) = [b ++ ['\n']] := by
  induction b with
  | nil => simp [splitIncl]
  | cons c cs ih =>
    simp only [List.mem_cons, not_or] at h
    simp only [List.cons_append, splitIncl]
    have : (c == '\n') = false := by simpa using fun h' => h.1 h'.symm
    simp [this, ih h.2]

/-- A complete line in front: `splitIncl (b ++ "\n" ++ rest) = (b ++ "\n") :: splitIncl rest`. -/
theorem splitIncl_line_cons (b rest : Str) (h : '\n' ∉ b) :
    splitIncl (b ++ '\n' :: rest) = (b ++ ['\n']) :: splitIncl rest := by
  rw [splitIncl_append, splitIncl_line b h]; rfl

/-! ## delimiter lines -/

theorem dropWhileEnd_all_not (p : Char → Bool) (s : Str) (h : ∀ c ∈ s, p c = false) : dropWhileEnd p s = s := by
  induction s with
  | nil => rfl
  | cons c cs ih =>
    have ih' := ih (fun x hx => h x (by simp [hx]))
    unfold dropWhileEnd at ih' ⊢
    simp only [List.foldr_cons, ih']
    simp [h c (by simp)]

theorem dropWhileEnd_snoc_true (p : Char → Bool) (s : Str) (x : Char) (hx : p x = true) :
    dropWhileEnd p (s ++ [x]) = dropWhileEnd p s := by
  induction s with
  | nil => simp [dropWhileEnd, hx]
  | cons c cs ih =>
    unfold dropWhileEnd at ih ⊢
    simp only [List.cons_append, List.foldr_cons, ih]

theorem takeWhile_rep (c : Char) (n : Nat) (rest : Str) (h : rest.head? ≠ some c) :
    (rep c n ++ rest).takeWhile (· == c) = rep c n := by
  induction n with
  | zero =>
    cases rest with
    | nil => rfl
    | cons x xs =>
      have : (x == c) = false := by simpa using fun h' => h (by simp [h'])
      simp [rep, List.takeWhile, this]
  | succ n ih =>
    simp only [rep, List.replicate_succ, List.cons_append, List.takeWhile, beq_self_eq_true]
    simp only [rep] at ih
    rw [ih]

/-- What the suffix of a written delimiter line must look like to be read back. -/
def SufOK (c : Char) (suf : Str) : Prop :=
  suf.head? ≠ some c ∧ ∀ x ∈ suf, x ≠ '\r' ∧ x ≠ '\n'

instance (c : Char) (suf : Str) : Decidable (SufOK c suf) := by unfold SufOK; infer_instance

theorem parseDelimLine_rep (c : Char) (n : Nat) (suf : Str) (hn : 3 ≤ n) (hc : c ≠ '\n') (hs : SufOK c suf) :
    parseDelimLine (rep c n ++ (suf ++ ['\n'])) c = some (n, suf) := by
  unfold parseDelimLine
  have hhead : (suf ++ ['\n']).head? ≠ some c := by
    cases suf with
    | nil => simpa using fun h => hc h.symm
    | cons x xs => simpa using hs.1
  rw [takeWhile_rep c n _ hhead]
  have hlen : (rep c n).length = n := by simp [rep]
  simp only [hlen]
  have : ¬ n < 3 := by omega
  simp only [this, ↓reduceIte]
  have hdrop : (rep c n ++ (suf ++ ['\n'])).drop n = suf ++ ['\n'] := by
    rw [List.drop_append_of_le_length (by simp [rep])]
    simp [rep]
  rw [hdrop, dropWhileEnd_snoc_true _ _ _ (by simp), dropWhileEnd_all_not]
  intro x hx
  have := hs.2 x hx
  simp [this.1, this.2]

/-- A line that does not start with three or more `c`. -/
def NoDelim (c : Char) (l : Str) : Prop := (l.takeWhile (· == c)).length < 3

instance (c : Char) (l : Str) : Decidable (NoDelim c l) := by unfold NoDelim; infer_instance

theorem parseDelimLine_noDelim {c : Char} {l : Str} (h : NoDelim c l) : parseDelimLine l c = none := by
  unfold parseDelimLine NoDelim at *
  simp [h]

theorem noDelim_of_head {c : Char} {l : Str} (h : l.head? ≠ some c) : NoDelim c l := by
  unfold NoDelim
  cases l with
  | nil => simp
  | cons x xs =>
    have : (x == c) = false := by simpa using fun h' => h (by simp [h'])
    simp [List.takeWhile, this]

theorem parseHeader_none_of_noDelim (fs : Option Str) (os : Str) (l : Str) (ls : List Str) (h : NoDelim '=' l) :
    parseHeader fs os (l :: ls) = none := by
  simp [parseHeader, parseDelimLine_noDelim h]

/-- A line that is not a `===` delimiter WITH THE FILE'S SUFFIX opens no header. -/
theorem parseHeader_none_of_notHdr (fs : Option Str) (os : Str) (l : Str) (ls : List Str)
    (h : isHeaderDelim fs l = false) : parseHeader fs os (l :: ls) = none := by
  unfold isHeaderDelim at h
  simp only [parseHeader]
  cases hd : parseDelimLine l '=' with
  | none => rfl
  | some ns =>
    obtain ⟨n, sfx⟩ := ns
    simp only [hd] at h
    simp [h]

/-! ## `scan` over lines that open no header -/

theorem scan_noHeader (fs : Option Str) (os : Str) :
    ∀ (ls rest : List Str) (prev : Option Pending) (body : List Str) (acc : List Entry),
      (∀ l ∈ ls, isHeaderDelim fs l = false) →
      scan fs os (ls ++ rest) 0 prev body acc = scan fs os rest 0 prev (ls.reverse ++ body) acc
  | [], rest, prev, body, acc, _ => by simp
  | l :: ls, rest, prev, body, acc, h => by
    simp only [List.cons_append, scan, parseHeader_none_of_notHdr fs os l _ (h l (by simp))]
    rw [scan_noHeader fs os ls rest prev (l :: body) acc (fun x hx => h x (by simp [hx]))]
    simp

/-! ## `bestDivider` -/

/-- The line is not a `---` divider with the file's suffix. -/
def divMismatch (fs : Option Str) (l : Str) : Bool :=
  match parseDelimLine l '-' with
  | some (_, s) => !suffixMatches fs s
  | none => true

theorem divMismatch_of_noDelim (fs : Option Str) (l : Str) (h : NoDelim '-' l) : divMismatch fs l = true := by
  simp [divMismatch, parseDelimLine_noDelim h]

/-- A `---` line is harmless for a test whose divider has `d` dashes if it does not carry the file's suffix, or
if its number of dashes satisfies `ok` (`≤ d` before the divider — the divider is at least as long and later —,
`< d` after it). -/
def dashBound (fs : Option Str) (ok : Nat → Bool) (l : Str) : Bool :=
  match parseDelimLine l '-' with
  | some (n, s) => !suffixMatches fs s || ok n
  | none => true

theorem dashBound_of_noDelim (fs : Option Str) (ok : Nat → Bool) (l : Str) (h : NoDelim '-' l) : dashBound fs ok l = true := by
  simp [dashBound, parseDelimLine_noDelim h]

theorem bestDivider_noDelim (fs : Option Str) :
    ∀ (ls rest : List Str) (j : Nat) (best : Option (Nat × Nat)) (bt : Nat),
      (∀ l ∈ ls, divMismatch fs l = true) →
      bestDivider fs (ls ++ rest) j best bt = bestDivider fs rest (j + ls.length) best bt
  | [], rest, j, best, bt, _ => by simp
  | l :: ls, rest, j, best, bt, h => by
    have hl := h l (by simp)
    have ih := bestDivider_noDelim fs ls rest (j + 1) best bt (fun x hx => h x (by simp [hx]))
    unfold divMismatch at hl
    simp only [List.cons_append, bestDivider]
    cases hd : parseDelimLine l '-' with
    | none => simp only []; rw [ih]; simp; congr 1; omega
    | some ns =>
      obtain ⟨n, sfx⟩ := ns
      simp only [hd, Bool.not_eq_true'] at hl
      simp only [hl, Bool.false_and, Bool.false_eq_true, ↓reduceIte]
      rw [ih]; simp; congr 1; omega

theorem bestDivider_noDelim_end (fs : Option Str) (ls : List Str) (j : Nat) (best : Option (Nat × Nat)) (bt : Nat)
    (h : ∀ l ∈ ls, divMismatch fs l = true) : bestDivider fs ls j best bt = best := by
  have := bestDivider_noDelim fs ls [] j best bt h
  simpa [bestDivider] using this

/-- `split_inclusive` only cuts: the lines concatenate back to the content. -/
theorem splitIncl_flatten (s : Str) : (splitIncl s).flatten = s := by
  induction s with
  | nil => rfl
  | cons c cs ih =>
    unfold splitIncl
    split
    · next h => simp [ih, eq_of_beq h]
    · split
      · next h => rw [h] at ih; simp at ih; simp [← ih]
      · next l ls h => rw [h] at ih; simp at ih; simp [← ih]

/-! ## what the writer is allowed to be given -/

def kwds : List Str :=
  [kwSkip, kwPlatform, kwFailFast, kwError, kwLanguage, kwCst]

/-- A line that `parse_header` takes as part of the test name: not `===…`, not blank, not starting with an
attribute keyword. -/
def NameLineOK (l : Str) : Prop :=
  NoDelim '=' l ∧ trim l ≠ [] ∧ (trim l).takeWhile (· != '(') ∉ kwds

instance (l : Str) : Decidable (NameLineOK l) := by unfold NameLineOK; infer_instance

/-- A name (one or several lines) that `parse_header` reads back unchanged. -/
structure NameOK (name : Str) : Prop where
  lines : ∀ l ∈ splitIncl (name ++ ['\n']), NameLineOK l
  trimmed : trimEnd (name ++ ['\n']) = name

/-- A line that `parse_header` recognises as an attribute: `:skip`, `:fail-fast`, `:error`, `:cst` (with
anything after a `(`), `:platform(..)`, `:language(..)`. -/
def markerLine (l : Str) : Bool :=
  let t := trim l
  let head := t.takeWhile (· != '(')
  !t.isEmpty && (head == kwSkip || head == kwFailFast || head == kwError || head == kwCst ||
    (head == kwPlatform && (markerArg nmPlatform t).isSome) ||
    (head == kwLanguage && (markerArg nmLanguage t).isSome))

/-- Attribute text the round trip is proved for: none, or lines of which the first is a recognised
attribute, none looks like a `===` line, and the text has no trailing white space. -/
def AttrsOK (a : Str) : Prop :=
  a = [] ∨ ((∃ l ls, splitIncl (a ++ ['\n']) = l :: ls ∧ markerLine l = true) ∧
            (∀ l ∈ splitIncl (a ++ ['\n']), NoDelim '=' l) ∧ trimEnd (a ++ ['\n']) = a)

/-- The file's suffix as the reader discovers it. -/
def fsOf (suf : Str) : Option Str := if suf.isEmpty then none else some suf

/-- A line of an input or expectation that cannot be mistaken for a delimiter of THIS file: not a `===`
line with the file's suffix, not a `---` line with the file's suffix, and — in a file without suffix —
no `===` line at all (a `===` line followed by text would become the file's suffix). -/
def BodyLineOK (suf : Str) (ok : Nat → Bool) (l : Str) : Prop :=
  isHeaderDelim (fsOf suf) l = false ∧ dashBound (fsOf suf) ok l = true ∧ (suf = [] → NoDelim '=' l)

instance (suf : Str) (ok : Nat → Bool) (l : Str) : Decidable (BodyLineOK suf ok l) := by unfold BodyLineOK; infer_instance

/-- The corrections for which the round trip is proved, relative to the file's suffix: delimiters of
length ≥ 3, a name of one or several lines (none blank / a marker / `===…`), attribute text as in
`AttrsOK`, every line of the input and of the (trimmed) expectation `BodyLineOK` — in particular a `---` line
carrying the file's suffix may occur in the input if it is not longer than the divider, and in the expectation if
it is shorter —; the input does not end in a carriage return. -/
structure SimpleS (suf : Str) (c : Correction) : Prop where
  hlen : 3 ≤ c.hlen
  dlen : 3 ≤ c.dlen
  name : NameOK c.name
  attrs : AttrsOK c.attrsStr
  inputLines : ∀ l ∈ splitIncl (c.input ++ ['\n']), BodyLineOK suf (fun n => decide (n ≤ c.dlen)) l
  inputCr : popNewline (c.input ++ ['\n']) = c.input
  outputLines : ∀ l ∈ splitIncl (trim c.output ++ ['\n']), BodyLineOK suf (fun n => decide (n < c.dlen)) l

/-- The suffix-independent (stronger) form: no line of the input or expectation starts with `===` or `---`. -/
structure Simple (c : Correction) : Prop where
  hlen : 3 ≤ c.hlen
  dlen : 3 ≤ c.dlen
  name : NameOK c.name
  attrs : AttrsOK c.attrsStr
  inputLines : ∀ l ∈ splitIncl (c.input ++ ['\n']), NoDelim '=' l ∧ NoDelim '-' l
  inputCr : popNewline (c.input ++ ['\n']) = c.input
  outputLines : ∀ l ∈ splitIncl (trim c.output ++ ['\n']), NoDelim '=' l ∧ NoDelim '-' l

theorem suffixMatches_fsOf (suf : Str) : suffixMatches (fsOf suf) suf = true := by
  cases suf <;> simp [fsOf, suffixMatches]

def attrLines (c : Correction) : List Str :=
  if c.attrsStr.isEmpty then [] else splitIncl (c.attrsStr ++ ['\n'])

def nameLines (c : Correction) : List Str := splitIncl (c.name ++ ['\n'])

def hdrL (suf : Str) (c : Correction) : List Str :=
  (rep '=' c.hlen ++ (suf ++ ['\n'])) :: (nameLines c ++ (attrLines c ++ [rep '=' c.hlen ++ (suf ++ ['\n'])]))

def bodyL (suf : Str) (c : Correction) : List Str :=
  splitIncl (c.input ++ ['\n']) ++ ((rep '-' c.dlen ++ (suf ++ ['\n'])) :: ['\n'] :: splitIncl (trim c.output ++ ['\n']))

/-- The line is not a `:cst` attribute. -/
def noCstLine (l : Str) : Prop := (trim l).takeWhile (· != '(') ≠ kwCst

instance (l : Str) : Decidable (noCstLine l) := by unfold noCstLine; infer_instance

/-- Folding `headerLine` over lines (stopping at a rejected line). -/
def foldHeader (os : Str) : List Str → HState → HState
  | [], st => st
  | l :: ls, st => match headerLine os st l with
    | some st' => foldHeader os ls st'
    | none => st

/-- The attribute flags `parse_header` builds from its final state. -/
def attrsOfState (st : HState) : Attrs :=
  { platform := st.platform.getD true, failFast := st.failFast,
    expect := match st.seenSkip, st.seenError with
      | true, _ => Expect.skip
      | false, false => Expect.pass
      | false, true => Expect.error,
    cst := st.cst, languages := if st.languages.isEmpty then [[]] else st.languages }

/-- The attribute flags that a header with this (one-line) name and this attribute text has. -/
def flagsOf (os name a : Str) : Attrs :=
  attrsOfState (foldHeader os (if a.isEmpty then [] else splitIncl (a ++ ['\n'])) { testName := name ++ ['\n'] })

/-- The pending header is the one of correction `c`. -/
def PendOf (os : Str) (p : Pending) (c : Correction) : Prop :=
  p.name = c.name ∧ p.attrsStr = c.attrsStr ∧ p.hlen = c.hlen ∧
  ((∀ l ∈ splitIncl (c.attrsStr ++ ['\n']), noCstLine l) → p.attrs.cst = false) ∧
  p.attrs = flagsOf os c.name c.attrsStr

theorem stripPrefix_append (s t : Str) : stripPrefix s (s ++ t) = some t := by
  induction s with
  | nil => rfl
  | cons c cs ih => simp [stripPrefix, ih]

theorem noDelim_nl (c : Char) (h : c ≠ '\n') : NoDelim c ['\n'] :=
  noDelim_of_head (by simpa using fun h' => h h'.symm)

theorem isHeaderDelim_rep (suf : Str) (n : Nat) (hn : 3 ≤ n) (hs : SufOK '=' suf) :
    isHeaderDelim (fsOf suf) (rep '=' n ++ (suf ++ ['\n'])) = true := by
  simp [isHeaderDelim, parseDelimLine_rep '=' n suf hn (by decide) hs, suffixMatches_fsOf]

theorem isHeaderDelim_noDelim (fs : Option Str) (l : Str) (h : NoDelim '=' l) : isHeaderDelim fs l = false := by
  simp [isHeaderDelim, parseDelimLine_noDelim h]

theorem Simple.toS {c : Correction} (h : Simple c) (suf : Str) : SimpleS suf c :=
  { hlen := h.hlen, dlen := h.dlen, name := h.name, attrs := h.attrs, inputCr := h.inputCr
    inputLines := fun l hl => ⟨isHeaderDelim_noDelim _ l (h.inputLines l hl).1,
      dashBound_of_noDelim _ _ l (h.inputLines l hl).2, fun _ => (h.inputLines l hl).1⟩
    outputLines := fun l hl => ⟨isHeaderDelim_noDelim _ l (h.outputLines l hl).1,
      dashBound_of_noDelim _ _ l (h.outputLines l hl).2, fun _ => (h.outputLines l hl).1⟩ }

theorem headerLine_name (os : Str) (st : HState) (l : Str) (hs : st.seenMarker = false) (h : NameLineOK l) :
    headerLine os st l = some { st with testName := st.testName ++ l } := by
  have hm := h.2.2
  simp only [kwds, List.mem_cons, List.not_mem_nil, or_false, not_or] at hm
  obtain ⟨h1, h2, h3, h4, h5, h6⟩ := hm
  have hne : (trim l).isEmpty = false := by
    cases ht : trim l with
    | nil => exact absurd ht h.2.1
    | cons _ _ => rfl
  unfold headerLine
  simp only [hne, Bool.false_and, Bool.false_eq_true, ↓reduceIte]
  simp [h1, h2, h3, h4, h5, h6, hs]

/-- The `while` loop of `parse_header` over the name lines. -/
theorem headerLoop_names (fs : Option Str) (os : Str) (rest : List Str) :
    ∀ (nls : List Str) (st : HState) (k : Nat), st.seenMarker = false → (∀ l ∈ nls, NameLineOK l) →
      headerLoop fs os (nls ++ rest) st k =
        headerLoop fs os rest { st with testName := st.testName ++ nls.flatten } (k + nls.length)
  | [], st, k, _, _ => by simp
  | l :: ls, st, k, hs, h => by
    have hl := h l (by simp)
    simp only [List.cons_append, headerLoop, isHeaderDelim_noDelim fs l hl.1, Bool.false_eq_true, ↓reduceIte,
      headerLine_name os st l hs hl]
    have ih := headerLoop_names fs os rest ls { st with testName := st.testName ++ l } (k + 1) hs
      (fun x hx => h x (by simp [hx]))
    refine ih.trans ?_
    have e : k + 1 + ls.length = k + (l :: ls).length := by simp; omega
    rw [e]; simp [List.append_assoc]

/-- Once a marker has been seen, every further line is accepted and leaves the name alone (and the
`:cst` flag, unless the line is `:cst`). -/
theorem headerLine_seen (os : Str) (st : HState) (l : Str) (hs : st.seenMarker = true) :
    ∃ st', headerLine os st l = some st' ∧ st'.seenMarker = true ∧ st'.testName = st.testName ∧
      (noCstLine l → st'.cst = st.cst) := by
  unfold headerLine noCstLine
  simp only [hs, Bool.not_true, Bool.and_false, Bool.false_eq_true, ↓reduceIte]
  repeat' split
  all_goals first
    | exact ⟨_, rfl, by simp [hs], rfl, fun _ => rfl⟩
    | (refine ⟨_, rfl, by simp, rfl, fun hc => ?_⟩; simp_all)

/-- A recognised attribute line switches to the marker region and leaves the name alone. -/
theorem headerLine_marker (os : Str) (st : HState) (l : Str) (h : markerLine l = true) :
    ∃ st', headerLine os st l = some st' ∧ st'.seenMarker = true ∧ st'.testName = st.testName ∧
      (noCstLine l → st'.cst = st.cst) := by
  by_cases hs : st.seenMarker = true
  · exact headerLine_seen os st l hs
  · have hs' : st.seenMarker = false := by simpa using hs
    unfold markerLine at h
    simp only [Bool.and_eq_true, Bool.not_eq_true', Bool.or_eq_true, beq_iff_eq] at h
    obtain ⟨hne, hk⟩ := h
    have d1 : kwFailFast ≠ kwSkip := by decide
    have d2 : kwFailFast ≠ kwPlatform := by decide
    have d3 : kwError ≠ kwSkip := by decide
    have d4 : kwError ≠ kwPlatform := by decide
    have d5 : kwError ≠ kwFailFast := by decide
    have d6 : kwCst ≠ kwSkip := by decide
    have d7 : kwCst ≠ kwPlatform := by decide
    have d8 : kwCst ≠ kwFailFast := by decide
    have d9 : kwCst ≠ kwError := by decide
    have d10 : kwCst ≠ kwLanguage := by decide
    have d11 : kwPlatform ≠ kwSkip := by decide
    have d12 : kwLanguage ≠ kwSkip := by decide
    have d13 : kwLanguage ≠ kwPlatform := by decide
    have d14 : kwLanguage ≠ kwFailFast := by decide
    have d15 : kwLanguage ≠ kwError := by decide
    unfold headerLine noCstLine
    simp only [hne, Bool.false_and, Bool.false_eq_true, ↓reduceIte]
    rcases hk with ((((hk | hk) | hk) | hk) | ⟨hk, ha⟩) | ⟨hk, ha⟩
    · simp [hk]
    · simp [hk, d1, d2]
    · simp [hk, d3, d4, d5]
    · simp [hk, d6, d7, d8, d9, d10]
    · obtain ⟨x, hx⟩ := Option.isSome_iff_exists.mp ha
      simp [hk, d11, hx]
    · obtain ⟨x, hx⟩ := Option.isSome_iff_exists.mp ha
      simp [hk, d12, d13, d14, d15, hx]

/-- The `while` loop of `parse_header` over attribute lines after a marker has been seen. -/
theorem headerLoop_attrs (fs : Option Str) (os : Str) (H : Str) (rest : List Str) (hH : isHeaderDelim fs H = true) :
    ∀ (als : List Str) (st : HState) (k : Nat), st.seenMarker = true → (∀ l ∈ als, NoDelim '=' l) →
      ∃ st', headerLoop fs os (als ++ H :: rest) st k = some (st', k + als.length + 1) ∧ st'.testName = st.testName ∧
        ((∀ l ∈ als, noCstLine l) → st'.cst = st.cst) ∧ st' = foldHeader os als st
  | [], st, k, _, _ => ⟨st, by simp [headerLoop, hH], rfl, fun _ => rfl, rfl⟩
  | l :: ls, st, k, hs, hnd => by
    obtain ⟨st1, h1, h2, h3, h3c⟩ := headerLine_seen os st l hs
    obtain ⟨st', h4, h5, h5c, h5f⟩ := headerLoop_attrs fs os H rest hH ls st1 (k + 1) h2 (fun x hx => hnd x (by simp [hx]))
    refine ⟨st', ?_, h5.trans h3, fun hc => (h5c (fun x hx => hc x (by simp [hx]))).trans (h3c (hc l (by simp))),
      by simp [foldHeader, h1, h5f]⟩
    simp only [List.cons_append, headerLoop, isHeaderDelim_noDelim fs l (hnd l (by simp)), Bool.false_eq_true,
      ↓reduceIte, h1, h4, List.length_cons]
    congr 2; omega

theorem attrLines_flatten (c : Correction) (h : c.attrsStr ≠ []) : (attrLines c).flatten = c.attrsStr ++ ['\n'] := by
  have : c.attrsStr.isEmpty = false := by cases hc : c.attrsStr <;> simp_all
  simp [attrLines, this, splitIncl_flatten]

theorem attrLines_noDelim (c : Correction) (h : SimpleS suf c) : ∀ l ∈ attrLines c, NoDelim '=' l := by
  intro l hl
  unfold attrLines at hl
  split at hl
  · simp at hl
  · rcases h.attrs with ha | ⟨_, hnd, _⟩
    · simp_all
    · exact hnd l hl

theorem nameLines_flatten (c : Correction) : (nameLines c).flatten = c.name ++ ['\n'] := splitIncl_flatten _

/-- The whole `while` loop of `parse_header` on the name and attribute lines the writer produced. -/
theorem headerLoop_hdr (os suf : Str) (c : Correction) (rest : List Str) (h : SimpleS suf c) (hs : SufOK '=' suf) :
    ∃ st', headerLoop (fsOf suf) os (nameLines c ++ (attrLines c ++ (rep '=' c.hlen ++ (suf ++ ['\n'])) :: rest)) {} 0 =
        some (st', (nameLines c).length + (attrLines c).length + 1) ∧
      st'.testName = c.name ++ ['\n'] ∧
      ((∀ x ∈ splitIncl (c.attrsStr ++ ['\n']), noCstLine x) → st'.cst = false) ∧
      attrsOfState st' = flagsOf os c.name c.attrsStr := by
  have hH := isHeaderDelim_rep suf c.hlen h.hlen hs
  rw [headerLoop_names (fsOf suf) os _ (nameLines c) {} 0 rfl h.name.lines, nameLines_flatten]
  simp only [List.nil_append, Nat.zero_add]
  rcases h.attrs with ha | ⟨⟨l, ls, hl, hm⟩, hnd, htrim⟩
  · have hal : attrLines c = [] := by simp [attrLines, ha]
    refine ⟨{ testName := c.name ++ ['\n'] }, by simp [hal, headerLoop, hH], rfl, fun _ => rfl, ?_⟩
    simp [flagsOf, ha, foldHeader]
  · have hne : c.attrsStr ≠ [] := by
      intro h0; rw [h0] at hl; simp [splitIncl] at hl
      have := hl.1; subst this
      simp [markerLine, trim, trimStart, trimEnd, dropWhileEnd, isWs] at hm
    have hemp : c.attrsStr.isEmpty = false := by cases hc0 : c.attrsStr <;> simp_all
    have hal : attrLines c = l :: ls := by simp [attrLines, hemp, hl]
    obtain ⟨st2, h1, h2, h3, h3c⟩ := headerLine_marker os { testName := c.name ++ ['\n'] } l hm
    have hndl : NoDelim '=' l := hnd l (by simp [hl])
    obtain ⟨st', h4, h5, h5c, h5f⟩ := headerLoop_attrs (fsOf suf) os _ rest hH ls st2 ((nameLines c).length + 1) h2
      (fun x hx => hnd x (by simp [hl, hx]))
    refine ⟨st', ?_, h5.trans h3, ?_, ?_⟩
    · simp only [hal, List.cons_append, headerLoop, isHeaderDelim_noDelim _ _ hndl, Bool.false_eq_true, ↓reduceIte, h1, h4,
        List.length_cons]
      congr 2; omega
    · intro hc
      rw [h5c (fun x hx => hc x (by simp [hl, hx])), h3c (hc l (by simp [hl]))]
    · simp [flagsOf, hemp, hl, foldHeader, h1, h5f]

/-- `parse_header` on the header lines the writer produced. -/
theorem parseHeader_hdr (os suf : Str) (c : Correction) (rest : List Str) (h : SimpleS suf c) (hs : SufOK '=' suf) :
    ∃ p, parseHeader (fsOf suf) os (hdrL suf c ++ rest) = some (p, (hdrL suf c).length) ∧ PendOf os p c := by
  have hd := parseDelimLine_rep '=' c.hlen suf h.hlen (by decide) hs
  obtain ⟨st', hloop, htn, hcst, hfl⟩ := headerLoop_hdr os suf c rest h hs
  have e0 : hdrL suf c ++ rest = (rep '=' c.hlen ++ (suf ++ ['\n'])) ::
      (nameLines c ++ (attrLines c ++ (rep '=' c.hlen ++ (suf ++ ['\n'])) :: rest)) := by simp [hdrL]
  have hlen : (hdrL suf c).length = (nameLines c).length + (attrLines c).length + 1 + 1 := by simp [hdrL]; omega
  have htake : ((nameLines c ++ (attrLines c ++ (rep '=' c.hlen ++ (suf ++ ['\n'])) :: rest)).take
      ((nameLines c).length + (attrLines c).length + 1 - 1)).flatten = (c.name ++ ['\n']) ++ (attrLines c).flatten := by
    have : (nameLines c).length + (attrLines c).length + 1 - 1 = (nameLines c ++ attrLines c).length := by simp
    rw [this, ← List.append_assoc, List.take_left' rfl]
    simp [nameLines_flatten]
  rw [e0, hlen]
  simp only [parseHeader, hd, suffixMatches_fsOf, Bool.not_true, Bool.false_eq_true, ↓reduceIte, hloop, htake, htn,
    stripPrefix_append, Option.getD_some, h.name.trimmed]
  refine ⟨_, rfl, rfl, ?_, rfl, hcst, hfl⟩
  -- the attribute text
  rcases h.attrs with ha | ⟨⟨l, ls, hl, hm⟩, _, htrim⟩
  · simp [attrLines, ha, trimEnd, dropWhileEnd]
  · have hne : c.attrsStr ≠ [] := by
      intro h0; rw [h0] at hl; simp [splitIncl] at hl
      have := hl.1; subst this
      simp [markerLine, trim, trimStart, trimEnd, dropWhileEnd, isWs] at hm
    show trimEnd (attrLines c).flatten = c.attrsStr
    rw [attrLines_flatten c hne, htrim]

theorem drop_len_succ {α : Type} (a : List α) (x : α) (r : List α) : (a ++ x :: r).drop (a.length + 1) = r := by
  induction a with
  | nil => simp
  | cons y ys ih => simpa using ih

theorem suffixMatches_fsOf_eq (suf s : Str) (h : suffixMatches (fsOf suf) s = true) : s = suf := by
  cases suf with
  | nil => cases s <;> simp_all [fsOf, suffixMatches]
  | cons a t => cases s <;> simp_all [fsOf, suffixMatches]

/-- Scanning lines whose matching `---` lines have at most `d` dashes keeps the best candidate at most as long
as a divider of `d` dashes. -/
theorem bestDivider_le (suf : Str) (d : Nat) :
    ∀ (ls rest : List Str) (j : Nat) (best : Option (Nat × Nat)) (bt : Nat), bt ≤ d + utf8Len suf →
      (∀ l ∈ ls, dashBound (fsOf suf) (fun n => decide (n ≤ d)) l = true) →
      ∃ best' bt', bt' ≤ d + utf8Len suf ∧
        bestDivider (fsOf suf) (ls ++ rest) j best bt = bestDivider (fsOf suf) rest (j + ls.length) best' bt'
  | [], rest, j, best, bt, hb, _ => ⟨best, bt, hb, by simp⟩
  | l :: ls, rest, j, best, bt, hb, h => by
    have hl := h l (by simp)
    have ih := bestDivider_le suf d ls rest (j + 1)
    simp only [List.cons_append, bestDivider]
    have e : j + (l :: ls).length = j + 1 + ls.length := by simp; omega
    rw [e]
    cases hd : parseDelimLine l '-' with
    | none => exact ih best bt hb (fun x hx => h x (by simp [hx]))
    | some ns =>
      obtain ⟨n, sfx⟩ := ns
      simp only
      by_cases hc : (suffixMatches (fsOf suf) sfx && decide (n + utf8Len sfx ≥ bt)) = true
      · simp only [hc, ↓reduceIte]
        simp only [Bool.and_eq_true] at hc
        have hs := suffixMatches_fsOf_eq suf sfx hc.1
        have hn : n ≤ d := by
          unfold dashBound at hl
          simp only [hd, hc.1, Bool.not_true, Bool.false_or, decide_eq_true_eq] at hl
          exact hl
        exact ih _ _ (by rw [hs]; omega) (fun x hx => h x (by simp [hx]))
      · simp only [hc, Bool.false_eq_true, ↓reduceIte]
        exact ih best bt hb (fun x hx => h x (by simp [hx]))

/-- After the divider of `d` dashes was chosen, matching `---` lines with fewer dashes do not replace it. -/
theorem bestDivider_lt_end (suf : Str) (d : Nat) :
    ∀ (ls : List Str) (j : Nat) (x : Nat × Nat),
      (∀ l ∈ ls, dashBound (fsOf suf) (fun n => decide (n < d)) l = true) →
      bestDivider (fsOf suf) ls j (some x) (d + utf8Len suf) = some x
  | [], _, _, _ => rfl
  | l :: ls, j, x, h => by
    have hl := h l (by simp)
    have ih := bestDivider_lt_end suf d ls (j + 1) x (fun y hy => h y (by simp [hy]))
    simp only [bestDivider]
    cases hd : parseDelimLine l '-' with
    | none => exact ih
    | some ns =>
      obtain ⟨n, sfx⟩ := ns
      simp only
      by_cases hm : suffixMatches (fsOf suf) sfx = true
      · have hs := suffixMatches_fsOf_eq suf sfx hm
        have hn : n < d := by
          unfold dashBound at hl
          simp only [hd, hm, Bool.not_true, Bool.false_or, decide_eq_true_eq] at hl
          exact hl
        have : decide (n + utf8Len sfx ≥ d + utf8Len suf) = false := by rw [hs]; simp; omega
        simp only [hm, this, Bool.and_false, Bool.false_eq_true, ↓reduceIte]
        exact ih
      · simp only [hm, Bool.false_and, Bool.false_eq_true, ↓reduceIte]
        exact ih

/-- The body the reader collects for a written test (plus following separator lines) gives back the input. -/
theorem buildEntry_body (suf : Str) (c : Correction) (sep : List Str) (p : Pending)
    (h : SimpleS suf c) (hs : SufOK '-' suf) (hsep : ∀ l ∈ sep, parseDelimLine l '-' = none) :
    ∃ e, buildEntry (fsOf suf) (bodyL suf c ++ sep) p = some e ∧
      e.name = p.name ∧ e.attrsStr = p.attrsStr ∧ e.input = c.input ∧ e.hlen = p.hlen ∧ e.dlen = c.dlen ∧
      e.attrs = p.attrs ∧
      (p.attrs.cst = false → e.output = normalizeSexp ('\n' :: (trim c.output ++ '\n' :: sep.flatten)) ∧
        e.hasFields = hasFieldsOf e.output) ∧
      (p.attrs.cst = true → e.output = trim ('\n' :: (trim c.output ++ '\n' :: sep.flatten)) ∧ e.hasFields = false) := by
  have hin : ∀ l ∈ splitIncl (c.input ++ ['\n']), dashBound (fsOf suf) (fun n => decide (n ≤ c.dlen)) l = true :=
    fun l hl => (h.inputLines l hl).2.1
  have hrest : ∀ l ∈ splitIncl (trim c.output ++ ['\n']) ++ sep, dashBound (fsOf suf) (fun n => decide (n < c.dlen)) l = true := by
    intro l hl
    simp only [List.mem_append] at hl
    rcases hl with hl | hl
    · exact (h.outputLines l hl).2.1
    · simp [dashBound, hsep l hl]
  have hnl : parseDelimLine ['\n'] '-' = none := parseDelimLine_noDelim (noDelim_nl '-' (by decide))
  have hbest : bestDivider (fsOf suf) (bodyL suf c ++ sep) 0 none 0 =
      some (c.dlen, (splitIncl (c.input ++ ['\n'])).length) := by
    simp only [bodyL, List.append_assoc, List.cons_append]
    obtain ⟨best', bt', hbt, hstep⟩ := bestDivider_le suf c.dlen (splitIncl (c.input ++ ['\n']))
      ((rep '-' c.dlen ++ (suf ++ ['\n'])) :: ['\n'] :: (splitIncl (trim c.output ++ ['\n']) ++ sep)) 0 none 0
      (Nat.zero_le _) hin
    rw [hstep]
    have hge : decide (c.dlen + utf8Len suf ≥ bt') = true := by simpa using hbt
    simp only [bestDivider, parseDelimLine_rep '-' c.dlen suf h.dlen (by decide) hs, suffixMatches_fsOf,
      Bool.true_and, hge, ↓reduceIte, Nat.zero_add, hnl]
    exact bestDivider_lt_end suf c.dlen _ _ _ hrest
  refine ⟨_, by simp only [buildEntry, hbest]; rfl, rfl, rfl, ?_, rfl, rfl, rfl, ?_, ?_⟩
  · simp only [bodyL, List.append_assoc]
    rw [List.take_left' rfl, splitIncl_flatten]
    exact h.inputCr
  · intro hcst
    simp only [hcst, Bool.false_eq_true, ↓reduceIte, bodyL, List.append_assoc, List.cons_append]
    rw [drop_len_succ]
    simp [splitIncl_flatten]
  · intro hcst
    simp only [hcst, ↓reduceIte, bodyL, List.append_assoc, List.cons_append]
    rw [drop_len_succ]
    simp [splitIncl_flatten]

/-! ## the lines of a written file -/

/-- The part of a correction / of an entry that is not an expected output. -/
def Correction.skey (c : Correction) : Str × Str × Str := (c.name, c.attrsStr, c.input)
def Entry.skey (e : Entry) : Str × Str × Str := (e.name, e.attrsStr, e.input)
/-- … together with the delimiter lengths. -/
def Correction.dkey (c : Correction) : Str × Str × Str × Nat × Nat := (c.name, c.attrsStr, c.input, c.hlen, c.dlen)
def Entry.dkey (e : Entry) : Str × Str × Str × Nat × Nat := (e.name, e.attrsStr, e.input, e.hlen, e.dlen)

theorem splitIncl_line_cons2 (a b rest : Str) (h : '\n' ∉ a ++ b) :
    splitIncl (a ++ (b ++ '\n' :: rest)) = (a ++ (b ++ ['\n'])) :: splitIncl rest := by
  have := splitIncl_line_cons (a ++ b) rest h
  simpa [List.append_assoc] using this

theorem nl_notin_rep (c : Char) (n : Nat) (suf : Str) (hc : c ≠ '\n') (hs : ∀ x ∈ suf, x ≠ '\r' ∧ x ≠ '\n') :
    '\n' ∉ rep c n ++ suf := by
  simp only [rep, List.mem_append, List.mem_replicate, not_or, not_and]
  exact ⟨fun _ h => hc h.symm, fun h => (hs _ h).2 rfl⟩

theorem splitIncl_writeOne (suf : Str) (c : Correction) (rest : Str) (h : SimpleS suf c)
    (hs : ∀ x ∈ suf, x ≠ '\r' ∧ x ≠ '\n') :
    splitIncl (writeOne suf c ++ rest) = hdrL suf c ++ (bodyL suf c ++ splitIncl rest) := by
  have e2 : ∀ x : Str, splitIncl ('\n' :: x) = ['\n'] :: splitIncl x := by intro x; simp [splitIncl]
  have tailEq : ∀ r : Str, splitIncl (rep '=' c.hlen ++ (suf ++ '\n' ::
        (c.input ++ '\n' :: (rep '-' c.dlen ++ (suf ++ '\n' :: '\n' :: (trim c.output ++ '\n' :: r)))))) =
      (rep '=' c.hlen ++ (suf ++ ['\n'])) :: (bodyL suf c ++ splitIncl r) := by
    intro r
    rw [splitIncl_line_cons2 _ _ _ (nl_notin_rep '=' _ suf (by decide) hs), splitIncl_append c.input,
      splitIncl_line_cons2 _ _ _ (nl_notin_rep '-' _ suf (by decide) hs), e2, splitIncl_append (trim c.output)]
    simp [bodyL]
  by_cases ha : c.attrsStr = []
  · have e : writeOne suf c ++ rest =
        rep '=' c.hlen ++ (suf ++ '\n' :: (c.name ++ '\n' :: (rep '=' c.hlen ++ (suf ++ '\n' ::
          (c.input ++ '\n' :: (rep '-' c.dlen ++ (suf ++ '\n' :: '\n' :: (trim c.output ++ '\n' :: rest)))))))) := by
      simp [writeOne, ha]
    rw [e, splitIncl_line_cons2 _ _ _ (nl_notin_rep '=' _ suf (by decide) hs),
      splitIncl_append c.name, tailEq]
    simp [hdrL, attrLines, nameLines, ha]
  · have hemp : c.attrsStr.isEmpty = false := by cases hc : c.attrsStr <;> simp_all
    have e : writeOne suf c ++ rest =
        rep '=' c.hlen ++ (suf ++ '\n' :: (c.name ++ '\n' :: (c.attrsStr ++ '\n' :: (rep '=' c.hlen ++ (suf ++ '\n' ::
          (c.input ++ '\n' :: (rep '-' c.dlen ++ (suf ++ '\n' :: '\n' :: (trim c.output ++ '\n' :: rest))))))))) := by
      simp [writeOne, hemp]
    rw [e, splitIncl_line_cons2 _ _ _ (nl_notin_rep '=' _ suf (by decide) hs),
      splitIncl_append c.name, splitIncl_append c.attrsStr, tailEq]
    simp [hdrL, attrLines, nameLines, hemp]

/-- Lines of the tests after the first one: a blank separator line, then header and body. -/
def tailLines (suf : Str) (cs : List Correction) : List Str :=
  (cs.map fun c => ['\n'] :: (hdrL suf c ++ bodyL suf c)).flatten

theorem splitIncl_tail (suf : Str) (hs : ∀ x ∈ suf, x ≠ '\r' ∧ x ≠ '\n') :
    ∀ cs : List Correction, (∀ c ∈ cs, SimpleS suf c) →
      splitIncl (cs.map fun c => '\n' :: writeOne suf c).flatten = tailLines suf cs
  | [], _ => by simp [tailLines, splitIncl]
  | c :: cs, h => by
    have ih := splitIncl_tail suf hs cs (fun x hx => h x (by simp [hx]))
    simp only [List.map_cons, List.flatten_cons, List.cons_append, tailLines]
    have e2 : ∀ x : Str, splitIncl ('\n' :: x) = ['\n'] :: splitIncl x := by intro x; simp [splitIncl]
    rw [e2, splitIncl_writeOne suf c _ (h c (by simp)) hs, ih]
    simp [tailLines]

theorem splitIncl_writeTests (suf : Str) (hs : ∀ x ∈ suf, x ≠ '\r' ∧ x ≠ '\n') (c : Correction) (cs : List Correction)
    (h : ∀ x ∈ c :: cs, SimpleS suf x) :
    splitIncl (writeTests suf (c :: cs)) = hdrL suf c ++ (bodyL suf c ++ tailLines suf cs) := by
  rw [writeTests, splitIncl_writeOne suf c _ (h c (by simp)) hs,
    splitIncl_tail suf hs cs (fun x hx => h x (by simp [hx]))]

/-! ## the reader on those lines -/

theorem bodyL_noHeader (suf : Str) (c : Correction) (h : SimpleS suf c) :
    ∀ l ∈ bodyL suf c, isHeaderDelim (fsOf suf) l = false := by
  intro l hl
  simp only [bodyL, List.mem_append, List.mem_cons] at hl
  rcases hl with hl | hl | hl | hl
  · exact (h.inputLines l hl).1
  · subst hl
    apply isHeaderDelim_noDelim
    apply noDelim_of_head
    have : 0 < c.dlen := by have := h.dlen; omega
    obtain ⟨k, hk⟩ := Nat.exists_eq_succ_of_ne_zero (Nat.pos_iff_ne_zero.mp this)
    simp [rep, hk, List.replicate_succ]
  · subst hl; exact isHeaderDelim_noDelim _ _ (noDelim_nl '=' (by decide))
  · exact (h.outputLines l hl).1

/-- In a file without suffix no body line starts with `===`. -/
theorem bodyL_noDelim_nil (c : Correction) (h : SimpleS [] c) : ∀ l ∈ bodyL [] c, NoDelim '=' l := by
  intro l hl
  simp only [bodyL, List.mem_append, List.mem_cons] at hl
  rcases hl with hl | hl | hl | hl
  · exact (h.inputLines l hl).2.2 rfl
  · subst hl
    apply noDelim_of_head
    have : 0 < c.dlen := by have := h.dlen; omega
    obtain ⟨k, hk⟩ := Nat.exists_eq_succ_of_ne_zero (Nat.pos_iff_ne_zero.mp this)
    simp [rep, hk, List.replicate_succ]
  · subst hl; exact noDelim_nl '=' (by decide)
  · exact (h.outputLines l hl).2.2 rfl

theorem dkey_of_built {os : Str} {c0 : Correction} {p0 : Pending} {e : Entry} (hp : PendOf os p0 c0)
    (h1 : e.name = p0.name) (h2 : e.attrsStr = p0.attrsStr) (h3 : e.input = c0.input)
    (h4 : e.hlen = p0.hlen) (h5 : e.dlen = c0.dlen) :
    e.dkey = c0.dkey := by
  obtain ⟨a, b, c⟩ := hp
  simp [Entry.dkey, Correction.dkey, h1, h2, h3, h4, h5, a, b, c]

/-- Passing over the remaining lines of a header block that was just recognised. -/
theorem scan_skip (fs : Option Str) (os : Str) :
    ∀ (xs rest : List Str) (prev : Option Pending) (body : List Str) (acc : List Entry),
      scan fs os (xs ++ rest) xs.length prev body acc = scan fs os rest 0 prev body acc
  | [], _, _, _, _ => by simp
  | x :: xs, rest, prev, body, acc => by
    simp only [List.cons_append, List.length_cons, scan]
    exact scan_skip fs os xs rest prev body acc

/-- One step of the scanning loop at a written header block. -/
theorem scan_hdr (os suf : Str) (hse : SufOK '=' suf) (c : Correction) (hc : SimpleS suf c) (rest : List Str)
    (prev : Option Pending) (body : List Str) (acc : List Entry) :
    ∃ p, PendOf os p c ∧ scan (fsOf suf) os (hdrL suf c ++ rest) 0 prev body acc =
      scan (fsOf suf) os rest 0 (some p) [] (acc ++ finishPrev (fsOf suf) prev body) := by
  obtain ⟨p, hp, hpo⟩ := parseHeader_hdr os suf c rest hc hse
  refine ⟨p, hpo, ?_⟩
  have e3 : hdrL suf c ++ rest = (rep '=' c.hlen ++ (suf ++ ['\n'])) ::
      ((nameLines c ++ (attrLines c ++ [rep '=' c.hlen ++ (suf ++ ['\n'])])) ++ rest) := by simp [hdrL]
  rw [e3] at hp ⊢
  simp only [scan, hp]
  have : (hdrL suf c).length - 1 = (nameLines c ++ (attrLines c ++ [rep '=' c.hlen ++ (suf ++ ['\n'])])).length := by
    simp [hdrL]
  rw [this]
  exact scan_skip _ _ _ _ _ _ _

/-- Two lists related element by element. -/
inductive All2 {α β : Type} (R : α → β → Prop) : List α → List β → Prop
  | nil : All2 R [] []
  | cons {a : α} {b : β} {as : List α} {bs : List β} : R a b → All2 R as bs → All2 R (a :: as) (b :: bs)

/-- The text of the expectation section the reader sees for a written test (`sepf` = what follows
before the next header: nothing for the last test, one blank line otherwise). -/
def outSection (c : Correction) (sepf : Str) : Str := '\n' :: (trim c.output ++ '\n' :: sepf)

/-- Entry `e` is what the reader returns for the written correction `c`. -/
def Built (os : Str) (e : Entry) (c : Correction) : Prop :=
  e.dkey = c.dkey ∧ e.attrs = flagsOf os c.name c.attrsStr ∧
  ((∀ l ∈ splitIncl (c.attrsStr ++ ['\n']), noCstLine l) → e.attrs.cst = false) ∧
  ∃ sepf, (sepf = [] ∨ sepf = ['\n']) ∧
    (e.attrs.cst = false → e.output = normalizeSexp (outSection c sepf) ∧ e.hasFields = hasFieldsOf e.output) ∧
    (e.attrs.cst = true → e.output = trim (outSection c sepf) ∧ e.hasFields = false)

/-- The scanning loop over the remaining tests of a written file, a test `c0` being pending with its
own body lines collected. -/
theorem scan_tail (os suf : Str) (hse : SufOK '=' suf) (hsd : SufOK '-' suf) :
    ∀ (cs : List Correction) (c0 : Correction) (p0 : Pending) (acc : List Entry), SimpleS suf c0 → PendOf os p0 c0 →
      (∀ c ∈ cs, SimpleS suf c) →
      ∃ new, scan (fsOf suf) os (tailLines suf cs) 0 (some p0) (bodyL suf c0).reverse acc = acc ++ new ∧
        All2 (Built os) new (c0 :: cs)
  | [], c0, p0, acc, h0, hp0, _ => by
    obtain ⟨e, he, h1, h2, h3, h4, h5, h7, h6, h8⟩ := buildEntry_body suf c0 [] p0 h0 hsd (by simp)
    simp only [List.append_nil] at he
    refine ⟨[e], by simp [tailLines, scan, finishPrev, he], ?_⟩
    refine All2.cons ⟨dkey_of_built hp0 h1 h2 h3 h4 h5, h7.trans hp0.2.2.2.2,
      fun hc => by rw [h7]; exact hp0.2.2.2.1 hc, [], Or.inl rfl, ?_, ?_⟩ All2.nil
    · intro hc; have h6' := h6 (h7 ▸ hc); exact ⟨by simpa [outSection] using h6'.1, h6'.2⟩
    · intro hc; have h8' := h8 (h7 ▸ hc); exact ⟨by simpa [outSection] using h8'.1, h8'.2⟩
  | c :: cs, c0, p0, acc, h0, hp0, h => by
    have hc := h c (by simp)
    obtain ⟨e, he, h1, h2, h3, h4, h5, h7, h6, h8⟩ := buildEntry_body suf c0 [['\n']] p0 h0 hsd
      (by intro l hl; simp at hl; subst hl; exact parseDelimLine_noDelim (noDelim_nl '-' (by decide)))
    have e1 : tailLines suf (c :: cs) = ['\n'] :: (hdrL suf c ++ (bodyL suf c ++ tailLines suf cs)) := by
      simp [tailLines]
    rw [e1, scan, parseHeader_none_of_noDelim _ _ _ _ (noDelim_nl '=' (by decide))]
    obtain ⟨p, hpc, hstep⟩ := scan_hdr os suf hse c hc (bodyL suf c ++ tailLines suf cs) (some p0)
      (['\n'] :: (bodyL suf c0).reverse) acc
    rw [hstep]
    have e4 : finishPrev (fsOf suf) (some p0) (['\n'] :: (bodyL suf c0).reverse) = [e] := by
      simp [finishPrev, he]
    rw [e4, scan_noHeader _ _ _ _ _ _ _ (bodyL_noHeader suf c hc)]
    simp only [List.append_nil]
    obtain ⟨new, hnew, hf2⟩ := scan_tail os suf hse hsd cs c p (acc ++ [e]) hc hpc (fun x hx => h x (by simp [hx]))
    refine ⟨e :: new, by rw [hnew]; simp, ?_⟩
    refine All2.cons ⟨dkey_of_built hp0 h1 h2 h3 h4 h5, h7.trans hp0.2.2.2.2,
      fun hcc => by rw [h7]; exact hp0.2.2.2.1 hcc, ['\n'], Or.inr rfl, ?_, ?_⟩ hf2
    · intro hcc; have h6' := h6 (h7 ▸ hcc); exact ⟨by simpa [outSection] using h6'.1, h6'.2⟩
    · intro hcc; have h8' := h8 (h7 ▸ hcc); exact ⟨by simpa [outSection] using h8'.1, h8'.2⟩

/-! ## the file's suffix as the reader discovers it -/

theorem firstSuffix_none_of (ls : List Str)
    (h : ∀ l ∈ ls, ∀ n s, parseDelimLine l '=' = some (n, s) → s = []) : firstSuffix ls = none := by
  induction ls with
  | nil => rfl
  | cons l ls ih =>
    have ih' := ih (fun x hx => h x (by simp [hx]))
    unfold firstSuffix
    cases hp : parseDelimLine l '=' with
    | none => simpa using ih'
    | some ns =>
      obtain ⟨n, s⟩ := ns
      have := h l (by simp) n s hp
      subst this
      simpa using ih'

theorem firstSuffix_written (suf : Str) (hse : SufOK '=' suf) (c : Correction) (cs : List Correction)
    (h : ∀ x ∈ c :: cs, SimpleS suf x) :
    firstSuffix (hdrL suf c ++ (bodyL suf c ++ tailLines suf cs)) = fsOf suf := by
  by_cases hsuf : suf = []
  case neg =>
    have hd := parseDelimLine_rep '=' c.hlen suf (h c (by simp)).hlen (by decide) hse
    have : suf.isEmpty = false := by cases suf <;> simp_all
    simp [hdrL, firstSuffix, hd, fsOf, this]
  case pos =>
    subst hsuf
    have hse' : SufOK '=' [] := hse
    simp only [fsOf, List.isEmpty_nil, ↓reduceIte]
    apply firstSuffix_none_of
    have key : ∀ (c : Correction), SimpleS [] c → ∀ l ∈ hdrL [] c ++ bodyL [] c,
        ∀ n s, parseDelimLine l '=' = some (n, s) → s = [] := by
      intro c hc l hl n s hp
      simp only [List.mem_append] at hl
      rcases hl with hl | hl
      · simp only [hdrL, List.mem_cons, List.mem_append, List.not_mem_nil, or_false] at hl
        rcases hl with hl | hl | hl | hl
        · subst hl; rw [parseDelimLine_rep '=' c.hlen [] hc.hlen (by decide) hse'] at hp; simp at hp; exact hp.2
        · rw [parseDelimLine_noDelim (hc.name.lines l hl).1] at hp; simp at hp
        · rw [parseDelimLine_noDelim (attrLines_noDelim c hc l hl)] at hp; simp at hp
        · subst hl; rw [parseDelimLine_rep '=' c.hlen [] hc.hlen (by decide) hse'] at hp; simp at hp; exact hp.2
      · rw [parseDelimLine_noDelim (bodyL_noDelim_nil c hc l hl)] at hp; simp at hp
    intro l hl n s hp
    rw [← List.append_assoc] at hl
    rcases List.mem_append.mp hl with hl | hl
    · exact key c (h c (by simp)) l hl n s hp
    · simp only [tailLines, List.mem_flatten, List.mem_map] at hl
      obtain ⟨grp, ⟨c', hc', rfl⟩, hl⟩ := hl
      simp only [List.mem_cons] at hl
      rcases hl with hl | hl
      · subst hl; rw [parseDelimLine_noDelim (noDelim_nl '=' (by decide))] at hp; simp at hp
      · exact key c' (h c' (by simp [hc'])) l hl n s hp

/-- The scanning loop on the lines of a written file, whatever non-test lines were collected before. -/
theorem scan_written (os suf : Str) (hse : SufOK '=' suf) (hsd : SufOK '-' suf) (c : Correction) (cs : List Correction)
    (h : ∀ x ∈ c :: cs, SimpleS suf x) (body : List Str) :
    All2 (Built os) (scan (fsOf suf) os (hdrL suf c ++ (bodyL suf c ++ tailLines suf cs)) 0 none body []) (c :: cs) := by
  have hc := h c (by simp)
  obtain ⟨p, hpc, hstep⟩ := scan_hdr os suf hse c hc (bodyL suf c ++ tailLines suf cs) none body []
  rw [hstep, scan_noHeader _ _ _ _ _ _ _ (bodyL_noHeader suf c hc)]
  obtain ⟨new, hnew, hf2⟩ := scan_tail os suf hse hsd cs c p [] hc hpc (fun x hx => h x (by simp [hx]))
  simp only [finishPrev, List.append_nil, List.nil_append] at hnew ⊢
  rw [hnew]
  exact hf2

/-- `parse_write_roundtrip` for `Simple` corrections, relational form: the reader applied to the written
file returns exactly one entry per correction, in order, each `Built` from its correction. -/
theorem roundtrip_built (os suf : Str) (hse : SufOK '=' suf) (hsd : SufOK '-' suf) (cs : List Correction)
    (h : ∀ c ∈ cs, SimpleS suf c) :
    All2 (Built os) (parseFile os (writeTests suf cs)) cs := by
  cases cs with
  | nil =>
    have : parseFile os (writeTests suf []) = [] := by
      simp [parseFile, writeTests, splitIncl, scan, finishPrev, firstSuffix]
    rw [this]; exact All2.nil
  | cons c cs =>
    unfold parseFile
    simp only [splitIncl_writeTests suf hse.2 c cs h, firstSuffix_written suf hse c cs h]
    exact scan_written os suf hse hsd c cs h []

theorem forall2_map_dkey {os : Str} {es : List Entry} {cs : List Correction} (h : All2 (Built os) es cs) :
    es.map Entry.dkey = cs.map Correction.dkey := by
  induction h with
  | nil => rfl
  | cons hb _ ih => simp [hb.1, ih]

/-- `parse_write_roundtrip` for `Simple` corrections: the reader applied to the written file returns,
in order, one entry per correction with the same name, attribute text, input and delimiter lengths — for
every list of corrections, every delimiter lengths ≥ 3 and every admissible suffix. -/
theorem roundtrip_simple (os suf : Str) (hse : SufOK '=' suf) (hsd : SufOK '-' suf) (cs : List Correction)
    (h : ∀ c ∈ cs, SimpleS suf c) :
    (parseFile os (writeTests suf cs)).map Entry.dkey = cs.map Correction.dkey :=
  forall2_map_dkey (roundtrip_built os suf hse hsd cs h)

end TsVerif.C20
