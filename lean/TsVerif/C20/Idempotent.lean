import TsVerif.C20.Props
/-!
# C20 — a second update is the identity, and updated tests pass: general form

Generalises `update_idempotent_partial` / `update_passes_partial` (Props.lean) to `:cst` tests, tests with several
`:language(..)` lines and updates through a name filter (`--include` / `--exclude`), for the model with
the committed repairs.
-/
namespace TsVerif.C20

/-! ## trimming -/

theorem dropWhileEnd_shape (p : Char → Bool) (s : Str) :
    dropWhileEnd p s = [] ∨ ∃ y c, dropWhileEnd p s = y ++ [c] ∧ p c = false := by
  induction s with
  | nil => exact Or.inl rfl
  | cons a s ih =>
    unfold dropWhileEnd at ih ⊢
    simp only [List.foldr_cons]
    rcases ih with h | ⟨y, c, h, hc⟩
    · rw [h]
      by_cases hp : p a = true
      · simp [hp]
      · right; exact ⟨[], a, by simp [hp], by simpa using hp⟩
    · rw [h]; right; exact ⟨a :: y, c, by simp, hc⟩

theorem dropWhileEnd_idem (p : Char → Bool) (s : Str) : dropWhileEnd p (dropWhileEnd p s) = dropWhileEnd p s := by
  rcases dropWhileEnd_shape p s with h | ⟨y, c, h, hc⟩
  · rw [h]; rfl
  · rw [h]; exact dropWhileEnd_snoc_false p y c hc

theorem dropWhileEnd_append_ws (p : Char → Bool) (s ws : Str) (h : ∀ c ∈ ws, p c = true) :
    dropWhileEnd p (s ++ ws) = dropWhileEnd p s := by
  induction ws generalizing s with
  | nil => simp
  | cons w ws ih =>
    have e : s ++ w :: ws = (s ++ [w]) ++ ws := by simp
    rw [e, ih (s ++ [w]) (fun c hc => h c (by simp [hc])), dropWhileEnd_snoc_true p s w (h w (by simp))]

theorem dropWhileEnd_prefix (p : Char → Bool) (s : Str) : ∃ t, s = dropWhileEnd p s ++ t := by
  induction s with
  | nil => exact ⟨[], rfl⟩
  | cons a s ih =>
    obtain ⟨t, ht⟩ := ih
    unfold dropWhileEnd at ht ⊢
    simp only [List.foldr_cons]
    by_cases hc : (List.foldr (fun c acc => if acc.isEmpty && p c then [] else c :: acc) [] s).isEmpty && p a
    · simp only [hc, ↓reduceIte]; exact ⟨a :: s, rfl⟩
    · simp only [hc, Bool.false_eq_true, ↓reduceIte]
      exact ⟨t, by rw [List.cons_append, ← ht]⟩

theorem dropWhile_all (p : Char → Bool) (l : Str) (h : ∀ c ∈ l, p c = true) : l.dropWhile p = [] := by
  induction l with
  | nil => rfl
  | cons a l ih => simp [List.dropWhile, h a (by simp), ih (fun c hc => h c (by simp [hc]))]

/-- The expectation section of a written `:cst` test trims back to the (trimmed) expectation. -/
theorem trim_section (x sepf : Str) (hsepf : sepf = [] ∨ sepf = ['\n']) :
    trim ('\n' :: (trim x ++ '\n' :: sepf)) = trim x := by
  have hnl : isWs '\n' = true := by decide
  have hws : ∀ c ∈ '\n' :: sepf, isWs c = true := by
    intro c hc
    rcases hsepf with rfl | rfl <;> simp at hc <;> (try rcases hc with rfl | rfl) <;> (try subst hc) <;> decide
  have hidem : trimEnd (trim x) = trim x := by unfold trim trimEnd; exact dropWhileEnd_idem _ _
  unfold trim
  have h1 : trimStart ('\n' :: (trimEnd (trimStart x) ++ '\n' :: sepf)) = trimStart (trimEnd (trimStart x) ++ '\n' :: sepf) := by
    simp [trimStart, List.dropWhile, hnl]
  rw [h1]
  cases ht : trimEnd (trimStart x) with
  | nil =>
    have : trimStart ([] ++ '\n' :: sepf) = [] := by
      simp only [List.nil_append, trimStart]
      exact dropWhile_all isWs _ hws
    rw [this]; rfl
  | cons a t =>
    -- the first character of a non-empty `trim x` is not white space
    have ha : isWs a = false := by
      obtain ⟨u, hu⟩ := dropWhileEnd_prefix isWs (trimStart x)
      have hu' : trimStart x = (a :: t) ++ u := by
        have : trimEnd (trimStart x) = dropWhileEnd isWs (trimStart x) := rfl
        rw [← this, ht] at hu; exact hu
      have hhead : (trimStart x).head? = some a := by rw [hu']; rfl
      unfold trimStart at hhead
      cases hh : isWs a with
      | false => rfl
      | true =>
        have := List.head?_dropWhile_not isWs x
        rw [hhead] at this
        simp [hh] at this
    have h2 : trimStart ((a :: t) ++ '\n' :: sepf) = (a :: t) ++ '\n' :: sepf := by
      simp [trimStart, List.dropWhile, ha]
    rw [h2]
    have h3 : trimEnd ((a :: t) ++ '\n' :: sepf) = trimEnd (a :: t) := dropWhileEnd_append_ws isWs _ _ hws
    rw [h3, ← ht]
    have : trimEnd (trimEnd (trimStart x)) = trimEnd (trimStart x) := hidem
    exact this

/-! ## one language iteration, all kinds of tests -/

/-- The rendering a test is compared with (`render_test_output`). -/
def actualG (e : Entry) (a : Actual) : Str :=
  if e.attrs.cst then a.cst else if e.hasFields then a.sexpFields else a.sexpPlain

/-- How an expectation is written: `:cst` expectations verbatim, S-expressions through `format_sexp`. -/
def wr (fx : Fixes) (e : Entry) (x : Str) : Str := if e.attrs.cst then x else formatSexp fx x

/-- The expectation the update keeps or installs for a run test. -/
def keptG (e : Entry) (a : Actual) : Str :=
  match e.attrs.expect with
  | .error => e.output
  | _ =>
    if actualG e a == e.output then e.output
    else if containsSub strERROR (actualG e a) || containsSub strMISSING (actualG e a) then e.output
    else actualG e a

/-- Does the iteration stop the run (fail-fast)? -/
def stopG (e : Entry) (a : Actual) : Bool :=
  match e.attrs.expect with
  | .error => e.attrs.failFast
  | _ => if actualG e a == e.output then false else e.attrs.failFast

theorem updateLang_G (fx : Fixes) (e : Entry) (a : Actual) :
    updateLang fx e a = (e.corr (wr fx e (keptG e a)), stopG e a) := by
  unfold updateLang keptG stopG wr actualG
  cases hc : e.attrs.cst <;> cases hx : e.attrs.expect <;> simp only [Bool.false_eq_true, ↓reduceIte] <;>
    (repeat' split) <;> simp_all [Entry.corr]

/-- Parser answers usable as expectations (adds the trimmed CST rendering to `ActOK`). -/
structure ActOKG (a : Actual) : Prop extends ActOK a where
  cstTrim : trim a.cst = a.cst

def actOKGb (a : Actual) : Bool := actOKb a && (trim a.cst == a.cst)

theorem actOKG_of_b {a : Actual} (h : actOKGb a = true) : ActOKG a := by
  simp only [actOKGb, Bool.and_eq_true, beq_iff_eq] at h
  exact { toActOK := actOK_of_b h.1, cstTrim := h.2 }

/-- Entries covered by the general theorems. -/
structure EntryOKG (orc : Oracle) (e : Entry) : Prop where
  langs : e.attrs.languages ≠ []
  hf : e.hasFields = (if e.attrs.cst then false else hasFieldsOf e.output)
  out : e.attrs.cst = false → (e.output = [] ∨ inFormatClass e.output = true)
  outCst : e.attrs.cst = true → trim e.output = e.output
  act : ∀ l a, e.attrs.languages.head? = some l → orc l e.input = some a → ActOKG a

/-- An expectation that reads back as itself: empty or balanced S-expression, resp. trimmed CST text. -/
def GoodX (e : Entry) (x : Str) : Prop :=
  (e.attrs.cst = false → (x = [] ∨ inFormatClass x = true)) ∧ (e.attrs.cst = true → trim x = x)

theorem keptG_cases (e : Entry) (a : Actual) :
    keptG e a = e.output ∨ (keptG e a = actualG e a ∧ actualG e a ≠ e.output ∧
      containsSub strERROR (actualG e a) = false ∧ containsSub strMISSING (actualG e a) = false ∧
      e.attrs.expect ≠ .error) := by
  unfold keptG
  split
  · exact Or.inl rfl
  · next hne =>
    split
    · exact Or.inl rfl
    · split
      · exact Or.inl rfl
      · next h1 h2 =>
        simp only [Bool.or_eq_true, not_or, Bool.not_eq_true] at h2
        exact Or.inr ⟨rfl, by simpa using h1, h2.1, h2.2, fun h => hne h⟩

theorem goodX_output (orc : Oracle) (e : Entry) (he : EntryOKG orc e) : GoodX e e.output := ⟨he.out, he.outCst⟩

theorem goodX_kept (orc : Oracle) (e : Entry) (a : Actual) (he : EntryOKG orc e) (ha : ActOKG a) : GoodX e (keptG e a) := by
  rcases keptG_cases e a with hk | ⟨hk, _, h3, h4, _⟩
  · rw [hk]; exact goodX_output orc e he
  · rw [hk]
    refine ⟨fun hc => Or.inr ?_, fun hc => ?_⟩
    · unfold actualG at h3 h4 ⊢
      simp only [hc, Bool.false_eq_true, ↓reduceIte] at h3 h4 ⊢
      split
      · next hh => simp only [hh, ↓reduceIte] at h3 h4; exact ha.classF h3 h4
      · next hh => simp only [hh, Bool.false_eq_true, ↓reduceIte] at h3 h4; exact ha.classP h3 h4
    · unfold actualG; simp only [hc, ↓reduceIte]; exact ha.cstTrim

/-- What the reader makes of an expectation written with `wr`: the expectation itself. -/
theorem readbackG (fx : Fixes) (os : Str) (e e1 : Entry) (c : Correction) (x : Str) (hb : Built os e1 c)
    (hattrs : e1.attrs = e.attrs) (hc : c.output = wr fx e x) (hx : GoodX e x) :
    e1.output = x ∧ e1.hasFields = (if e.attrs.cst then false else hasFieldsOf x) := by
  obtain ⟨sepf, hsepf, hn, hcs⟩ := hb.2.2.2
  cases hcst : e.attrs.cst with
  | false =>
    have h1 : e1.attrs.cst = false := by rw [hattrs]; exact hcst
    obtain ⟨ho, hh⟩ := hn h1
    have hc' : c.output = formatSexp fx x := by rw [hc, wr, hcst]; rfl
    have := readback fx c x sepf hc' (hx.1 hcst) hsepf
    rw [ho, this] at hh ⊢
    exact ⟨rfl, by simpa using hh⟩
  | true =>
    have h1 : e1.attrs.cst = true := by rw [hattrs]; exact hcst
    obtain ⟨ho, hh⟩ := hcs h1
    have hc' : c.output = x := by rw [hc, wr, hcst]; rfl
    have ht := hx.2 hcst
    rw [ho, outSection, hc', trim_section x sepf hsepf, ht]
    exact ⟨rfl, by simpa using hh⟩

/-- The entry read back: same flags and input, expectation `x` = the kept one of the first language. -/
structure ReadBack (e e1 : Entry) (x : Str) : Prop where
  attrs : e1.attrs = e.attrs
  input : e1.input = e.input
  output : e1.output = x
  hf : e1.hasFields = (if e.attrs.cst then false else hasFieldsOf x)

theorem actualG_same (orc : Oracle) (e e1 : Entry) (a : Actual) (he : EntryOKG orc e)
    (hr : ReadBack e e1 e.output) : actualG e1 a = actualG e a := by
  unfold actualG
  rw [hr.attrs, hr.hf, he.hf]

/-- Second round, first language: the kept expectation is kept again. -/
theorem keptG_second (orc : Oracle) (e e1 : Entry) (a : Actual) (he : EntryOKG orc e) (ha : ActOKG a)
    (hr : ReadBack e e1 (keptG e a)) : keptG e1 a = keptG e a := by
  have hact1 : actualG e1 a = actualG e a := by
    rcases keptG_cases e a with hk | ⟨hk, _, _, _, _⟩
    · exact actualG_same orc e e1 a he (hk ▸ hr)
    · unfold actualG at hk ⊢
      rw [hr.attrs, hr.hf, hk]
      cases hc : e.attrs.cst with
      | true => rfl
      | false =>
        simp only [hc, Bool.false_eq_true, ↓reduceIte] at hk ⊢
        by_cases hh : e.hasFields = true
        · simp only [hh, ↓reduceIte]
          by_cases h2 : hasFieldsOf a.sexpFields = true
          · simp [h2]
          · have h2' : hasFieldsOf a.sexpFields = false := by simpa using h2
            simp [h2', ha.fieldsEq h2']
        · have hh' : e.hasFields = false := by simpa using hh
          simp [hh', ha.plainNoFields]
  unfold keptG
  rw [hr.attrs, hact1, hr.output]
  rcases keptG_cases e a with hk | ⟨hk, hne, h3, h4, hex⟩
  · rw [hk]
  · rw [hk]
    cases hexp : e.attrs.expect <;> simp_all

/-- Second round, any language: if the first round stopped neither at the first language nor at this
one, the second round does not stop at this one. -/
theorem stopG_second (orc : Oracle) (e e1 : Entry) (a1 a : Actual) (he : EntryOKG orc e)
    (hr : ReadBack e e1 (keptG e a1)) (h1 : stopG e a1 = false) (h : stopG e a = false) : stopG e1 a = false := by
  cases hff : e.attrs.failFast with
  | false =>
    unfold stopG
    rw [hr.attrs, hff]
    cases e.attrs.expect <;> simp
  | true =>
    -- with fail-fast, "not stopped" means every language matched the old expectation
    have hexp : e.attrs.expect ≠ .error := by
      intro hx; unfold stopG at h1; simp [hx, hff] at h1
    have hm1 : (actualG e a1 == e.output) = true := by
      unfold stopG at h1
      cases hx : e.attrs.expect <;> simp_all
    have hm : (actualG e a == e.output) = true := by
      unfold stopG at h
      cases hx : e.attrs.expect <;> simp_all
    have hk : keptG e a1 = e.output := by
      unfold keptG
      cases hx : e.attrs.expect <;> simp_all
    have hr' : ReadBack e e1 e.output := hk ▸ hr
    have hact := actualG_same orc e e1 a he hr'
    unfold stopG
    rw [hr.attrs, hact, hr'.output]
    cases hx : e.attrs.expect <;> simp_all

/-! ## the languages loop with one correction per test -/

/-- No language of the list is unknown or stops the run. -/
def NoStop (orc : Oracle) (e : Entry) (ls : List Str) : Prop :=
  ∀ l ∈ ls, ∃ a, orc l e.input = some a ∧ stopG e a = false

theorem updateLangs_one (fx : Fixes) (ho : fx.oneCorrection = true) (orc : Oracle) (e : Entry) (c : Correction) :
    ∀ (ls : List Str) (cs : List Correction), updateLangs fx orc e ls [c] = .cont cs ↔ (cs = [c] ∧ NoStop orc e ls)
  | [], cs => by simp [updateLangs, NoStop]; exact eq_comm
  | l :: ls, cs => by
    unfold updateLangs
    cases hor : orc l e.input with
    | none =>
      simp only [NoStop, List.mem_cons, forall_eq_or_imp, hor]
      simp
    | some a =>
      simp only [updateLang_G, ho, ↓reduceIte]
      cases hs : stopG e a with
      | true =>
        simp only [↓reduceIte, NoStop, List.mem_cons, forall_eq_or_imp, hor, Option.some.injEq, exists_eq_left', hs]
        simp
      | false =>
        simp only [Bool.false_eq_true, ↓reduceIte, List.cons_append, List.nil_append, List.take_succ_cons, List.take_zero]
        rw [updateLangs_one fx ho orc e c ls cs]
        simp only [NoStop, List.mem_cons, forall_eq_or_imp, hor, Option.some.injEq, exists_eq_left', hs, true_and]

/-- `run_tests` on a run test (not skipped, this platform) with both repairs: it goes on with exactly the
first language's correction iff no language is unknown or stops. -/
theorem updateLangs_head (fx : Fixes) (ho : fx.oneCorrection = true) (orc : Oracle) (e : Entry) (l : Str) (ls : List Str)
    (cs : List Correction) :
    updateLangs fx orc e (l :: ls) [] = .cont cs ↔
      ∃ a, orc l e.input = some a ∧ cs = [e.corr (wr fx e (keptG e a))] ∧ NoStop orc e (l :: ls) := by
  unfold updateLangs
  cases hor : orc l e.input with
  | none => simp [NoStop, hor]
  | some a =>
    simp only [updateLang_G, ho, ↓reduceIte, List.nil_append, List.take_succ_cons, List.take_zero]
    cases hs : stopG e a with
    | true =>
      simp only [↓reduceIte, Option.some.injEq, exists_eq_left', NoStop, List.mem_cons, forall_eq_or_imp, hor, hs]
      simp
    | false =>
      simp only [Bool.false_eq_true, ↓reduceIte]
      rw [updateLangs_one fx ho orc e _ ls cs]
      simp only [Option.some.injEq, exists_eq_left', NoStop, List.mem_cons, forall_eq_or_imp, hor, hs, true_and]

/-! ## one test -/

/-- The test is not run: skipped or for another platform. -/
def unrun (e : Entry) : Bool := e.attrs.expect == .skip || !e.attrs.platform

theorem updateEntry_unrun (fx : Fixes) (hk : fx.keepUnrun = true) (orc : Oracle) (e : Entry) (h : unrun e = true) :
    updateEntry fx orc e = .cont [e.corr (wr fx e e.output)] := by
  unfold updateEntry unrun wr at *
  simp only [hk, ↓reduceIte]
  simp only [Bool.or_eq_true, Bool.not_eq_true'] at h
  rcases h with h | h
  · simp [h]
  · by_cases hs : (e.attrs.expect == Expect.skip) = true
    · simp [hs]
    · simp [hs, h]

theorem updateEntry_run (fx : Fixes) (orc : Oracle) (e : Entry) (h : unrun e = false) :
    updateEntry fx orc e = updateLangs fx orc e e.attrs.languages [] := by
  unfold updateEntry unrun at *
  simp only [Bool.or_eq_false_iff, Bool.not_eq_false'] at h
  simp [h.1, h.2]

theorem corr_eq {os : Str} {e1 : Entry} {c : Correction} (hb : Built os e1 c) (o : Str) (h : o = c.output) :
    e1.corr o = c := h ▸ corr_of_built hb

/-- Second round on one run or un-run test, any number of languages, `:cst` or not. -/
theorem updateEntry_secondG (fx : Fixes) (hk : fx.keepUnrun = true) (ho : fx.oneCorrection = true) (orc : Oracle)
    (os : Str) (e e1 : Entry) (c : Correction) (he : EntryOKG orc e) (h1 : updateEntry fx orc e = .cont [c])
    (hb : Built os e1 c) (hcanon : e.attrs = flagsOf os e.name e.attrsStr) :
    updateEntry fx orc e1 = .cont [c] := by
  have hs := (updateEntry_spec fx orc e [c] h1).1 c (by simp)
  simp only [Correction.skey, Entry.skey, Prod.mk.injEq] at hs
  have hd := hb.1
  simp only [Entry.dkey, Correction.dkey, Prod.mk.injEq] at hd
  have hattrs : e1.attrs = e.attrs := by rw [hb.2.1, hcanon, hs.1, hs.2.1]
  have hinp : e1.input = e.input := hd.2.2.1.trans hs.2.2
  have hun : unrun e1 = unrun e := by unfold unrun; rw [hattrs]
  have hwr : ∀ x, wr fx e1 x = wr fx e x := by intro x; unfold wr; rw [hattrs]
  cases hu : unrun e with
  | true =>
    rw [updateEntry_unrun fx hk orc e hu] at h1
    simp only [Step.cont.injEq, List.cons.injEq, and_true] at h1
    have hco : c.output = wr fx e e.output := by rw [← h1]; rfl
    obtain ⟨hout, _⟩ := readbackG fx os e e1 c e.output hb hattrs hco (goodX_output orc e he)
    rw [updateEntry_unrun fx hk orc e1 (hun ▸ hu), hwr, hout]
    simp only [Step.cont.injEq, List.cons.injEq, and_true]
    exact corr_eq hb _ hco.symm
  | false =>
    rw [updateEntry_run fx orc e hu] at h1
    rw [updateEntry_run fx orc e1 (hun ▸ hu), hattrs]
    obtain ⟨l, ls, hl⟩ : ∃ l ls, e.attrs.languages = l :: ls := by
      cases hls : e.attrs.languages with
      | nil => exact absurd hls he.langs
      | cons l ls => exact ⟨l, ls, rfl⟩
    rw [hl] at h1 ⊢
    obtain ⟨a, hor, hc, hns⟩ := (updateLangs_head fx ho orc e l ls [c]).mp h1
    simp only [List.cons.injEq, and_true] at hc
    have ha := he.act l a (by simp [hl]) hor
    have hco : c.output = wr fx e (keptG e a) := by rw [hc]; rfl
    obtain ⟨hout, hhf⟩ := readbackG fx os e e1 c (keptG e a) hb hattrs hco (goodX_kept orc e a he ha)
    have hr : ReadBack e e1 (keptG e a) := ⟨hattrs, hinp, hout, hhf⟩
    have hs1 : stopG e a = false := by
      obtain ⟨a', ha', hsa⟩ := hns l (by simp)
      rw [hor] at ha'; cases ha'; exact hsa
    refine (updateLangs_head fx ho orc e1 l ls [c]).mpr ⟨a, by rw [hinp]; exact hor, ?_, ?_⟩
    · rw [hwr, keptG_second orc e e1 a he ha hr]
      simp only [List.cons.injEq, and_true]
      exact (corr_eq hb _ hco.symm).symm
    · intro l' hl'
      obtain ⟨a', ha', hsa⟩ := hns l' hl'
      exact ⟨a', by rw [hinp]; exact ha', stopG_second orc e e1 a a' he hr hs1 hsa⟩

/-! ## a whole file, possibly through a name filter -/

/-- What a (filtered) update records for one test. -/
def StepOf (fx : Fixes) (orc : Oracle) (flt : Str → Bool) (e : Entry) (c : Correction) : Prop :=
  if flt e.name then updateEntry fx orc e = .cont [c] else c = e.corr (wr fx e e.output)

theorem updateEntriesF_all2_fixed (fx : Fixes) (hk : fx.keepUnrun = true) (ho : fx.oneCorrection = true)
    (hkc : fx.keepCstFiltered = true) (orc : Oracle) (flt : Str → Bool) :
    ∀ (es : List Entry) (acc cs : List Correction), (∀ e ∈ es, e.attrs.languages ≠ []) →
      updateEntriesF fx orc flt es acc = some cs →
      ∃ new, cs = acc ++ new ∧ All2 (StepOf fx orc flt) es new
  | [], acc, cs, _, h => by
    simp only [updateEntriesF, Option.some.injEq] at h
    exact ⟨[], by simp [h], All2.nil⟩
  | e :: es, acc, cs, hl, h => by
    unfold updateEntriesF at h
    by_cases hf : flt e.name = true
    · simp only [hf, ↓reduceIte] at h
      cases hu : updateEntry fx orc e with
      | stop => simp [hu] at h
      | err => simp [hu] at h
      | cont cs' =>
        simp only [hu] at h
        have hlen := (updateEntry_spec fx orc e cs' hu).2.2 hk ho (hl e (by simp))
        obtain ⟨new, hnew, hall⟩ := updateEntriesF_all2_fixed fx hk ho hkc orc flt es _ cs
          (fun x hx => hl x (by simp [hx])) h
        match cs', hlen, hu with
        | [c], _, hu => exact ⟨c :: new, by simp [hnew], All2.cons (by simp [StepOf, hf, hu]) hall⟩
    · simp only [hf, Bool.false_eq_true, ↓reduceIte] at h
      obtain ⟨new, hnew, hall⟩ := updateEntriesF_all2_fixed fx hk ho hkc orc flt es _ cs
        (fun x hx => hl x (by simp [hx])) h
      refine ⟨e.corr (if (fx.keepCstFiltered && e.attrs.cst) = true then e.output else formatSexp fx e.output) :: new,
        by simp [hnew], All2.cons ?_ hall⟩
      simp only [StepOf, hf, Bool.false_eq_true, ↓reduceIte, wr, hkc, Bool.true_and]

/-- Second round on a test the filter carries over. -/
theorem carried_second (fx : Fixes) (orc : Oracle) (os : Str) (e e1 : Entry) (c : Correction) (he : EntryOKG orc e)
    (h1 : c = e.corr (wr fx e e.output)) (hb : Built os e1 c) (hcanon : e.attrs = flagsOf os e.name e.attrsStr) :
    e1.corr (wr fx e1 e1.output) = c ∧ e1.name = e.name := by
  have hd := hb.1
  simp only [Entry.dkey, Correction.dkey, Prod.mk.injEq] at hd
  have hn : c.name = e.name := by rw [h1]; rfl
  have ha : c.attrsStr = e.attrsStr := by rw [h1]; rfl
  have hattrs : e1.attrs = e.attrs := by rw [hb.2.1, hcanon, hn, ha]
  have hco : c.output = wr fx e e.output := by rw [h1]; rfl
  obtain ⟨hout, _⟩ := readbackG fx os e e1 c e.output hb hattrs hco (goodX_output orc e he)
  have hwr : wr fx e1 e1.output = wr fx e e.output := by unfold wr; rw [hattrs, hout]
  exact ⟨by rw [hwr]; exact corr_eq hb _ hco.symm, hd.1.trans hn⟩

theorem updateEntriesF_second (fx : Fixes) (hk : fx.keepUnrun = true) (ho : fx.oneCorrection = true)
    (hkc : fx.keepCstFiltered = true) (orc : Oracle) (flt : Str → Bool) (os : Str) :
    ∀ {es : List Entry} {cs : List Correction}, All2 (StepOf fx orc flt) es cs →
      ∀ (es1 : List Entry) (acc : List Correction), All2 (Built os) es1 cs →
        (∀ e ∈ es, EntryOKG orc e) → (∀ e ∈ es, e.attrs = flagsOf os e.name e.attrsStr) →
        updateEntriesF fx orc flt es1 acc = some (acc ++ cs)
  | _, _, .nil, es1, acc, hb, _, _ => by
    cases hb
    simp [updateEntriesF]
  | _, _, .cons (a := e) (b := c) h1 hrest, es1, acc, hb, he, hcanon => by
    cases hb with
    | cons hb1 hbrest =>
      rename_i e1 es1'
      have ih := updateEntriesF_second fx hk ho hkc orc flt os hrest es1' (acc ++ [c]) hbrest
        (fun x hx => he x (by simp [hx])) (fun x hx => hcanon x (by simp [hx]))
      unfold updateEntriesF
      by_cases hf : flt e.name = true
      · simp only [StepOf, hf, ↓reduceIte] at h1
        have hs := (updateEntry_spec fx orc e [c] h1).1 c (by simp)
        simp only [Correction.skey, Entry.skey, Prod.mk.injEq] at hs
        have hd := hb1.1
        simp only [Entry.dkey, Correction.dkey, Prod.mk.injEq] at hd
        have hname : e1.name = e.name := hd.1.trans hs.1
        have := updateEntry_secondG fx hk ho orc os e e1 c (he e (by simp)) h1 hb1 (hcanon e (by simp))
        simp only [hname, hf, ↓reduceIte, this]
        rw [ih]; simp
      · simp only [StepOf, hf, Bool.false_eq_true, ↓reduceIte] at h1
        obtain ⟨hc2, hname⟩ := carried_second fx orc os e e1 c (he e (by simp)) h1 hb1 (hcanon e (by simp))
        simp only [hname, hf, Bool.false_eq_true, ↓reduceIte, hkc, Bool.true_and]
        have : e1.corr (if e1.attrs.cst = true then e1.output else formatSexp fx e1.output) = c := by
          have := hc2; unfold wr at this; exact this
        rw [this, ih]; simp

/-! ## text in front of the first test -/

/-- No line of `pre` (followed by `rest`) opens a header. -/
def NoHdr (fs : Option Str) (os : Str) : List Str → List Str → Prop
  | [], _ => True
  | l :: p, rest => parseHeader fs os (l :: (p ++ rest)) = none ∧ NoHdr fs os p rest

theorem preambleLines_spec (fs : Option Str) (os : Str) :
    ∀ lines : List Str, ∃ rest, lines = preambleLines fs os lines ++ rest ∧
      NoHdr fs os (preambleLines fs os lines) rest ∧ (rest = [] ∨ (parseHeader fs os rest).isSome = true)
  | [] => ⟨[], rfl, trivial, Or.inl rfl⟩
  | l :: ls => by
    unfold preambleLines
    by_cases h : (parseHeader fs os (l :: ls)).isSome = true
    · simp only [h, ↓reduceIte]
      exact ⟨l :: ls, rfl, trivial, Or.inr h⟩
    · simp only [h, Bool.false_eq_true, ↓reduceIte]
      obtain ⟨rest, h1, h2, h3⟩ := preambleLines_spec fs os ls
      refine ⟨rest, by rw [List.cons_append, ← h1], ⟨?_, h2⟩, h3⟩
      rw [← h1]
      simpa using h

theorem scan_noHdr (fs : Option Str) (os : Str) (rest : List Str) :
    ∀ (pre : List Str) (prev : Option Pending) (body : List Str) (acc : List Entry), NoHdr fs os pre rest →
      scan fs os (pre ++ rest) 0 prev body acc = scan fs os rest 0 prev (pre.reverse ++ body) acc
  | [], _, _, _, _ => by simp
  | l :: p, prev, body, acc, h => by
    simp only [List.cons_append, scan, h.1]
    rw [scan_noHdr fs os rest p prev (l :: body) acc h.2]
    simp

theorem headerLoop_none_stable (fs : Option Str) (os : Str) (H H' : Str) (R R' : List Str)
    (hH : isHeaderDelim fs H = true) (hH' : isHeaderDelim fs H' = true) :
    ∀ (A : List Str) (st : HState) (k : Nat),
      headerLoop fs os (A ++ H :: R) st k = none → headerLoop fs os (A ++ H' :: R') st k = none
  | [], st, k, h => by simp [headerLoop, hH] at h
  | x :: A, st, k, h => by
    simp only [List.cons_append, headerLoop] at h ⊢
    by_cases hx : isHeaderDelim fs x = true
    · simp [hx] at h
    · simp only [hx, Bool.false_eq_true, ↓reduceIte] at h ⊢
      cases hl : headerLine os st x with
      | none => rfl
      | some st' =>
        simp only [hl] at h ⊢
        exact headerLoop_none_stable fs os H H' R R' hH hH' A st' (k + 1) h

theorem parseHeader_none_stable (fs : Option Str) (os : Str) (H H' : Str) (R R' : List Str)
    (hH : isHeaderDelim fs H = true) (hH' : isHeaderDelim fs H' = true) (l : Str) (A : List Str)
    (h : parseHeader fs os (l :: (A ++ H :: R)) = none) : parseHeader fs os (l :: (A ++ H' :: R')) = none := by
  simp only [parseHeader] at h ⊢
  cases hd : parseDelimLine l '=' with
  | none => simp
  | some ns =>
    obtain ⟨n, sfx⟩ := ns
    simp only [hd] at h ⊢
    by_cases hm : suffixMatches fs sfx = true
    · simp only [hm, Bool.not_true, Bool.false_eq_true, ↓reduceIte] at h ⊢
      cases hl : headerLoop fs os (A ++ H :: R) {} 0 with
      | none => simp [headerLoop_none_stable fs os H H' R R' hH hH' A {} 0 hl]
      | some r => simp [hl] at h
    · simp [hm]

theorem noHdr_stable (fs : Option Str) (os : Str) (H H' : Str) (R R' : List Str)
    (hH : isHeaderDelim fs H = true) (hH' : isHeaderDelim fs H' = true) :
    ∀ pre : List Str, NoHdr fs os pre (H :: R) → NoHdr fs os pre (H' :: R')
  | [], _ => trivial
  | l :: p, h => ⟨parseHeader_none_stable fs os H H' R R' hH hH' l p h.1, noHdr_stable fs os H H' R R' hH hH' p h.2⟩

theorem preambleLines_of_noHdr (fs : Option Str) (os : Str) (X : List Str) (hX : (parseHeader fs os X).isSome = true) :
    ∀ pre : List Str, NoHdr fs os pre X → preambleLines fs os (pre ++ X) = pre
  | [], _ => by
    cases X with
    | nil => simp [parseHeader] at hX
    | cons x xs => simp [preambleLines, hX]
  | l :: p, h => by
    simp only [List.cons_append, preambleLines, h.1, Option.isSome_none, Bool.false_eq_true, ↓reduceIte]
    rw [preambleLines_of_noHdr fs os X hX p h.2]

theorem isHeaderDelim_of_parseHeader (fs : Option Str) (os : Str) (H : Str) (R : List Str)
    (h : (parseHeader fs os (H :: R)).isSome = true) : isHeaderDelim fs H = true := by
  simp only [parseHeader] at h
  unfold isHeaderDelim
  cases hd : parseDelimLine H '=' with
  | none => simp [hd] at h
  | some ns =>
    obtain ⟨n, sfx⟩ := ns
    simp only [hd] at h ⊢
    by_cases hm : suffixMatches fs sfx = true
    · exact hm
    · simp [hm] at h

/-! ### the file's suffix -/

theorem firstSuffix_ne_nil : ∀ (ls : List Str) (s : Str), firstSuffix ls = some s → s ≠ []
  | [], s, h => by simp [firstSuffix] at h
  | l :: ls, s, h => by
    unfold firstSuffix at h
    cases hd : parseDelimLine l '=' with
    | none => simp only [hd] at h; exact firstSuffix_ne_nil ls s h
    | some ns =>
      obtain ⟨n, sfx⟩ := ns
      simp only [hd] at h
      by_cases he : sfx.isEmpty = true
      · simp only [he, ↓reduceIte] at h; exact firstSuffix_ne_nil ls s h
      · simp only [he, Bool.false_eq_true, ↓reduceIte, Option.some.injEq] at h
        subst h; intro h0; simp [h0] at he

theorem firstSuffix_append (a b : List Str) :
    firstSuffix (a ++ b) = match firstSuffix a with | some s => some s | none => firstSuffix b := by
  induction a with
  | nil => simp [firstSuffix]
  | cons l a ih =>
    simp only [List.cons_append, firstSuffix]
    cases hd : parseDelimLine l '=' with
    | none => simpa using ih
    | some ns =>
      obtain ⟨n, sfx⟩ := ns
      by_cases he : sfx.isEmpty = true
      · simpa [he] using ih
      · simp [he]

theorem fsOf_getD (fs : Option Str) (h : ∀ s, fs = some s → s ≠ []) : fsOf (fs.getD []) = fs := by
  cases fs with
  | none => rfl
  | some s =>
    have := h s rfl
    cases s with
    | nil => exact absurd rfl this
    | cons a t => rfl

/-! ### complete lines -/

theorem splitIncl_pre (w : Str) : ∀ pre : List Str, (∀ l ∈ pre, ∃ b, l = b ++ ['\n'] ∧ '\n' ∉ b) →
    splitIncl (pre.flatten ++ w) = pre ++ splitIncl w
  | [], _ => by simp
  | l :: p, h => by
    obtain ⟨b, hb, hnb⟩ := h l (by simp)
    subst hb
    simp only [List.flatten_cons, List.append_assoc, List.cons_append, List.nil_append]
    rw [splitIncl_line_cons b _ hnb, splitIncl_pre w p (fun x hx => h x (by simp [hx]))]

theorem pre_complete (f : Str) (pre rest : List Str) (hs : splitIncl f = pre ++ rest) (hr : rest ≠ []) :
    ∀ l ∈ pre, ∃ b, l = b ++ ['\n'] ∧ '\n' ∉ b := by
  obtain ⟨init, last, hsp, hinit, hlast⟩ := splitIncl_struct f
  have hlen : pre.length ≤ init.length := by
    have h1 : pre.length + rest.length = init.length + last.length := by
      rw [← List.length_append, ← List.length_append, ← hs, hsp]
    have h2 : 1 ≤ rest.length := by cases rest with | nil => exact absurd rfl hr | cons _ _ => simp
    have h3 : last.length ≤ 1 := by
      rcases hlast with h | ⟨l, h, _⟩ <;> simp [h]
    omega
  have hpre : pre = init.take pre.length := by
    have : (pre ++ rest).take pre.length = (init ++ last).take pre.length := by rw [← hs, hsp]
    rw [List.take_left' rfl, List.take_append_of_le_length hlen] at this
    exact this
  intro l hl
  rw [hpre] at hl
  exact hinit l (List.mem_of_mem_take hl)

/-! ## the general theorems -/

theorem all2_nil_left {α β : Type} {R : α → β → Prop} {bs : List β} (h : All2 R [] bs) : bs = [] := by
  cases h; rfl

theorem all2_nil_right' {α β : Type} {R : α → β → Prop} {as : List α} (h : All2 R as []) : as = [] := by
  cases h; rfl

/-- Everything the first (filtered) update round establishes about the rewritten file. -/
structure FirstRound (fx : Fixes) (os : Str) (orc : Oracle) (flt : Str → Bool) (f : Str) (cs : List Correction) : Prop where
  steps : All2 (StepOf fx orc flt) (parseFile os f) cs
  built : All2 (Built os) (parseFile os (updateFileF fx os orc flt f)) cs
  form : updateFileF fx os orc flt f =
    preamble os (updateFileF fx os orc flt f) ++ writeTests ((firstSuffix (splitIncl (updateFileF fx os orc flt f))).getD []) cs
  /-- the text in front of the first test is untouched -/
  pre : preamble os (updateFileF fx os orc flt f) = preamble os f
  /-- the file keeps its delimiter suffix -/
  suf : (firstSuffix (splitIncl (updateFileF fx os orc flt f))).getD [] = (firstSuffix (splitIncl f)).getD []

theorem first_round (fx : Fixes) (hk : fx.keepUnrun = true) (ho : fx.oneCorrection = true)
    (hsp : fx.keepSuffixPreamble = true) (hkc : fx.keepCstFiltered = true)
    (os : Str) (orc : Oracle) (flt : Str → Bool) (f : Str) (cs : List Correction)
    (hne : parseFile os f ≠ [])
    (hrun : updateEntriesF fx orc flt (parseFile os f) [] = some cs)
    (hlangs : ∀ e ∈ parseFile os f, e.attrs.languages ≠ [])
    (hsimple : ∀ c ∈ cs, SimpleS ((firstSuffix (splitIncl f)).getD []) c)
    (hse : SufOK '=' ((firstSuffix (splitIncl f)).getD [])) (hsd : SufOK '-' ((firstSuffix (splitIncl f)).getD [])) :
    FirstRound fx os orc flt f cs := by
  -- the original file: leading lines, then the first header
  generalize hfs : firstSuffix (splitIncl f) = fs at hse hsd hsimple
  generalize hsuf : fs.getD [] = suf at hse hsd hsimple
  have hfsOf : fsOf suf = fs := by rw [← hsuf]; exact fsOf_getD fs (fun s h => firstSuffix_ne_nil _ s (hfs ▸ h))
  obtain ⟨rest, hlines, hnoh, hrest⟩ := preambleLines_spec fs os (splitIncl f)
  generalize hpre : preambleLines fs os (splitIncl f) = pre at hlines hnoh
  have hpf : parseFile os f = scan fs os rest 0 none (pre.reverse ++ []) [] := by
    unfold parseFile
    simp only [hfs]
    rw [hlines, scan_noHdr fs os rest pre none [] [] hnoh]
  have hrne : rest ≠ [] := by
    intro h0; rw [h0] at hpf; simp [scan, finishPrev] at hpf; exact hne hpf
  obtain ⟨H, R, hHR⟩ : ∃ H R, rest = H :: R := by
    cases rest with
    | nil => exact absurd rfl hrne
    | cons H R => exact ⟨H, R, rfl⟩
  have hHdelim : isHeaderDelim fs H = true := by
    rcases hrest with h | h
    · exact absurd h hrne
    · rw [hHR] at h; exact isHeaderDelim_of_parseHeader fs os H R h
  -- first round
  obtain ⟨new, hnew, hall⟩ := updateEntriesF_all2_fixed fx hk ho hkc orc flt _ [] cs hlangs hrun
  simp only [List.nil_append] at hnew
  subst hnew
  have hcs : cs ≠ [] := fun h0 => by subst h0; exact hne (all2_nil_right' hall)
  obtain ⟨c0, cs', rfl⟩ : ∃ c0 cs', cs = c0 :: cs' := by
    cases cs with
    | nil => exact absurd rfl hcs
    | cons c0 cs' => exact ⟨c0, cs', rfl⟩
  have h1 : updateFileF fx os orc flt f = pre.flatten ++ writeTests suf (c0 :: cs') := by
    unfold updateFileF
    split
    · next h => exact absurd h hne
    · simp [hrun, hsp, preamble, hfs, hpre, hsuf]
  -- the lines of the rewritten file
  have hWl := splitIncl_writeTests suf hse.2 c0 cs' hsimple
  have hcompl := pre_complete f pre rest hlines hrne
  have hlines1 : splitIncl (pre.flatten ++ writeTests suf (c0 :: cs')) =
      pre ++ (hdrL suf c0 ++ (bodyL suf c0 ++ tailLines suf cs')) := by
    rw [splitIncl_pre _ pre hcompl, hWl]
  have hfsW := firstSuffix_written suf hse c0 cs' hsimple
  have hfs1 : firstSuffix (pre ++ (hdrL suf c0 ++ (bodyL suf c0 ++ tailLines suf cs'))) = fs := by
    rw [firstSuffix_append, hfsW, hfsOf]
    have h0 := hfs
    rw [hlines, firstSuffix_append] at h0
    cases hp : firstSuffix pre with
    | none => rfl
    | some s => simpa [hp] using h0
  -- the header that follows the leading lines now
  have hc0 := hsimple c0 (by simp)
  have hW0 : hdrL suf c0 ++ (bodyL suf c0 ++ tailLines suf cs') =
      (rep '=' c0.hlen ++ (suf ++ ['\n'])) ::
        (nameLines c0 ++ (attrLines c0 ++ [rep '=' c0.hlen ++ (suf ++ ['\n'])]) ++ (bodyL suf c0 ++ tailLines suf cs')) := by
    simp [hdrL]
  have hH' : isHeaderDelim fs (rep '=' c0.hlen ++ (suf ++ ['\n'])) = true := by
    rw [← hfsOf]; exact isHeaderDelim_rep suf c0.hlen hc0.hlen hse
  have hnoh1 : NoHdr fs os pre (hdrL suf c0 ++ (bodyL suf c0 ++ tailLines suf cs')) := by
    rw [hW0]
    rw [hHR] at hnoh
    exact noHdr_stable fs os H _ R _ hHdelim hH' pre hnoh
  have hsome1 : (parseHeader fs os (hdrL suf c0 ++ (bodyL suf c0 ++ tailLines suf cs'))).isSome = true := by
    obtain ⟨p, hp, _⟩ := parseHeader_hdr os suf c0 (bodyL suf c0 ++ tailLines suf cs') hc0 hse
    rw [hfsOf] at hp
    rw [hp]; rfl
  have hbuilt : All2 (Built os) (parseFile os (pre.flatten ++ writeTests suf (c0 :: cs'))) (c0 :: cs') := by
    unfold parseFile
    simp only [hlines1, hfs1]
    rw [scan_noHdr fs os _ pre none [] [] hnoh1, ← hfsOf]
    exact scan_written os suf hse hsd c0 cs' hsimple _
  have hpre1 : preamble os (pre.flatten ++ writeTests suf (c0 :: cs')) = pre.flatten := by
    unfold preamble
    simp only [hlines1, hfs1]
    rw [preambleLines_of_noHdr fs os _ hsome1 pre hnoh1]
  have hpre0 : preamble os f = pre.flatten := by simp [preamble, hfs, hpre]
  refine ⟨hall, by rw [h1]; exact hbuilt, ?_, by rw [h1, hpre1, hpre0], by rw [h1, hlines1, hfs1, hsuf, hfs, hsuf]⟩
  rw [h1, hpre1, hlines1, hfs1, hsuf]

/-- `update_idempotent_general` (model with the committed repairs): for every corpus file — with or without text
in front of its first test, updated with or without a name filter — whose (filtered) update run writes
corrections that are `SimpleS` for the file's suffix (so, in a suffixed file, inputs and expectations may contain
un-suffixed `===`/`---` lines), whose tests satisfy `EntryOKG` (at least one language; `:cst` tests allowed; expectation
empty / a balanced S-expression, resp. trimmed CST text; usable parser answer) and have the attribute flags
their attribute text stands for, a second identical update leaves the file byte-identical. -/
theorem update_idempotent_general (fx : Fixes) (hk : fx.keepUnrun = true) (ho : fx.oneCorrection = true)
    (hsp : fx.keepSuffixPreamble = true) (hkc : fx.keepCstFiltered = true)
    (os : Str) (orc : Oracle) (flt : Str → Bool) (f : Str) (cs : List Correction)
    (hne : parseFile os f ≠ [])
    (hrun : updateEntriesF fx orc flt (parseFile os f) [] = some cs)
    (hent : ∀ e ∈ parseFile os f, EntryOKG orc e)
    (hcanon : ∀ e ∈ parseFile os f, e.attrs = flagsOf os e.name e.attrsStr)
    (hsimple : ∀ c ∈ cs, SimpleS ((firstSuffix (splitIncl f)).getD []) c)
    (hse : SufOK '=' ((firstSuffix (splitIncl f)).getD [])) (hsd : SufOK '-' ((firstSuffix (splitIncl f)).getD [])) :
    updateFileF fx os orc flt (updateFileF fx os orc flt f) = updateFileF fx os orc flt f := by
  obtain ⟨hall, hbuilt, hform, _, _⟩ := first_round fx hk ho hsp hkc os orc flt f cs hne hrun
    (fun e he => (hent e he).langs) hsimple hse hsd
  have h2 := updateEntriesF_second fx hk ho hkc orc flt os hall _ [] hbuilt hent hcanon
  simp only [List.nil_append] at h2
  have hne1 : parseFile os (updateFileF fx os orc flt f) ≠ [] := by
    intro h0; rw [h0] at hbuilt
    have := all2_nil_left hbuilt
    subst this
    exact hne (all2_nil_right' hall)
  generalize updateFileF fx os orc flt f = f1 at *
  conv => lhs; unfold updateFileF
  split
  · next h => exact absurd h hne1
  · simp only [h2, hsp, ↓reduceIte]
    exact hform.symm

/-- `update_preserves_general` (model with the committed repairs): under the hypotheses of `update_idempotent_general` the
(filtered) update rewrites only expected outputs — the file reads back with the same tests in the same
order, each with the same name, attribute text, attribute FLAGS, input and delimiter lengths; the text in
front of the first test and the delimiter suffix are unchanged.  (No test is dropped, duplicated, merged or
split: `All2` relates the two entry lists position by position.) -/
theorem update_preserves_general (fx : Fixes) (hk : fx.keepUnrun = true) (ho : fx.oneCorrection = true)
    (hsp : fx.keepSuffixPreamble = true) (hkc : fx.keepCstFiltered = true)
    (os : Str) (orc : Oracle) (flt : Str → Bool) (f : Str) (cs : List Correction)
    (hne : parseFile os f ≠ [])
    (hrun : updateEntriesF fx orc flt (parseFile os f) [] = some cs)
    (hlangs : ∀ e ∈ parseFile os f, e.attrs.languages ≠ [])
    (hcanon : ∀ e ∈ parseFile os f, e.attrs = flagsOf os e.name e.attrsStr)
    (hsimple : ∀ c ∈ cs, SimpleS ((firstSuffix (splitIncl f)).getD []) c)
    (hse : SufOK '=' ((firstSuffix (splitIncl f)).getD [])) (hsd : SufOK '-' ((firstSuffix (splitIncl f)).getD [])) :
    All2 (fun e e1 => e1.key = e.key ∧ e1.hlen = e.hlen ∧ e1.dlen = e.dlen)
        (parseFile os f) (parseFile os (updateFileF fx os orc flt f)) ∧
      preamble os (updateFileF fx os orc flt f) = preamble os f ∧
      (firstSuffix (splitIncl (updateFileF fx os orc flt f))).getD [] = (firstSuffix (splitIncl f)).getD [] := by
  obtain ⟨hall, hbuilt, _, hpre, hsuf⟩ := first_round fx hk ho hsp hkc os orc flt f cs hne hrun hlangs hsimple hse hsd
  refine ⟨?_, hpre, hsuf⟩
  have hcomp := all2_comp hall hbuilt
  have hmem : ∀ {es e1s : List Entry}, (∀ e ∈ es, e.attrs = flagsOf os e.name e.attrsStr ∧ e.attrs.languages ≠ []) →
      All2 (fun e e1 => ∃ c, StepOf fx orc flt e c ∧ Built os e1 c) es e1s →
      All2 (fun e e1 => e1.key = e.key ∧ e1.hlen = e.hlen ∧ e1.dlen = e.dlen) es e1s := by
    intro es e1s hes hh
    induction hh with
    | nil => exact All2.nil
    | @cons e e1 _ _ hx _ ih =>
      refine All2.cons ?_ (ih (fun x hx' => hes x (by simp [hx'])))
      obtain ⟨c, hstep, hb⟩ := hx
      have hd := hb.1
      simp only [Entry.dkey, Correction.dkey, Prod.mk.injEq] at hd
      have hkeys : c.name = e.name ∧ c.attrsStr = e.attrsStr ∧ c.input = e.input ∧ c.hlen = e.hlen ∧ c.dlen = e.dlen := by
        unfold StepOf at hstep
        split at hstep
        · have hcs := updateEntry_spec fx orc e [c] hstep
          have hs := hcs.1 c (by simp)
          simp only [Correction.skey, Entry.skey, Prod.mk.injEq] at hs
          -- the delimiter lengths come with `e.corr _`
          have hform : ∃ o, c = e.corr o := by
            by_cases hu : unrun e = true
            · rw [updateEntry_unrun fx hk orc e hu] at hstep
              simp only [Step.cont.injEq, List.cons.injEq, and_true] at hstep
              exact ⟨_, hstep.symm⟩
            · have hu' : unrun e = false := by simpa using hu
              rw [updateEntry_run fx orc e hu'] at hstep
              obtain ⟨l, ls, hls⟩ : ∃ l ls, e.attrs.languages = l :: ls := by
                cases hq : e.attrs.languages with
                | nil => exact absurd hq (hes e (by simp)).2
                | cons l ls => exact ⟨l, ls, rfl⟩
              rw [hls] at hstep
              obtain ⟨a, _, hc, _⟩ := (updateLangs_head fx ho orc e l ls [c]).mp hstep
              simp only [List.cons.injEq, and_true] at hc
              exact ⟨_, hc⟩
          obtain ⟨o, ho'⟩ := hform
          exact ⟨hs.1, hs.2.1, hs.2.2, by rw [ho']; rfl, by rw [ho']; rfl⟩
        · rw [hstep]; exact ⟨rfl, rfl, rfl, rfl, rfl⟩
      have hattrs : e1.attrs = e.attrs := by rw [hb.2.1, (hes e (by simp)).1, hkeys.1, hkeys.2.1]
      refine ⟨?_, hd.2.2.2.1.trans hkeys.2.2.2.1, hd.2.2.2.2.trans hkeys.2.2.2.2⟩
      simp only [Entry.key, Key.mk.injEq]
      exact ⟨hd.1.trans hkeys.1, hd.2.1.trans hkeys.2.1, hattrs, hd.2.2.1.trans hkeys.2.2.1⟩
  exact hmem (fun e he => ⟨hcanon e he, hlangs e he⟩) hcomp

/-- Entry `e1` (read back after the update) is entry `e`, and passes if `e` is run and parses without error. -/
def PassesAfterG (orc : Oracle) (flt : Str → Bool) (e e1 : Entry) : Prop :=
  e1.name = e.name ∧ e1.attrsStr = e.attrsStr ∧ e1.input = e.input ∧
  (e.attrs = e1.attrs → flt e.name = true → unrun e = false → e.attrs.expect ≠ .error →
    ∀ l a, e.attrs.languages.head? = some l → orc l e.input = some a →
      containsSub strERROR (actualG e a) = false → containsSub strMISSING (actualG e a) = false →
      e1.output = actualG e a ∧ actualG e1 a = e1.output)

/-- `update_passes_general` (model with the committed repairs): under the hypotheses of `update_idempotent_general`,
the rewritten file reads back test by test with the same name, attribute text and input, and every test
that the filter lets run, that is not skipped / for another platform / `:error`, and whose rendering (first
language; S-expression or CST) shows no error, has that rendering as its expectation and is compared with
the same rendering again: it passes. -/
theorem update_passes_general (fx : Fixes) (hk : fx.keepUnrun = true) (ho : fx.oneCorrection = true)
    (hsp : fx.keepSuffixPreamble = true) (hkc : fx.keepCstFiltered = true)
    (os : Str) (orc : Oracle) (flt : Str → Bool) (f : Str) (cs : List Correction)
    (hne : parseFile os f ≠ [])
    (hrun : updateEntriesF fx orc flt (parseFile os f) [] = some cs)
    (hent : ∀ e ∈ parseFile os f, EntryOKG orc e)
    (hcanon : ∀ e ∈ parseFile os f, e.attrs = flagsOf os e.name e.attrsStr)
    (hsimple : ∀ c ∈ cs, SimpleS ((firstSuffix (splitIncl f)).getD []) c)
    (hse : SufOK '=' ((firstSuffix (splitIncl f)).getD [])) (hsd : SufOK '-' ((firstSuffix (splitIncl f)).getD [])) :
    All2 (PassesAfterG orc flt) (parseFile os f) (parseFile os (updateFileF fx os orc flt f)) := by
  obtain ⟨hall, hbuilt, _, _, _⟩ := first_round fx hk ho hsp hkc os orc flt f cs hne hrun
    (fun e he => (hent e he).langs) hsimple hse hsd
  have hcomp := all2_comp hall hbuilt
  have hmem : ∀ {es e1s : List Entry}, (∀ e ∈ es, EntryOKG orc e ∧ e.attrs = flagsOf os e.name e.attrsStr) →
      All2 (fun e e1 => ∃ c, StepOf fx orc flt e c ∧ Built os e1 c) es e1s → All2 (PassesAfterG orc flt) es e1s := by
    intro es e1s hes hh
    induction hh with
    | nil => exact All2.nil
    | @cons e e1 _ _ hx _ ih =>
      refine All2.cons ?_ (ih (fun x hx' => hes x (by simp [hx'])))
      obtain ⟨he, hcan⟩ := hes e (by simp)
      obtain ⟨c, hstep, hb⟩ := hx
      have hd := hb.1
      simp only [Entry.dkey, Correction.dkey, Prod.mk.injEq] at hd
      -- the correction carries the entry's name, attribute text and input in both branches
      have hkeys : c.name = e.name ∧ c.attrsStr = e.attrsStr ∧ c.input = e.input := by
        unfold StepOf at hstep
        split at hstep
        · have hs := (updateEntry_spec fx orc e [c] hstep).1 c (by simp)
          simpa [Correction.skey, Entry.skey] using hs
        · rw [hstep]; exact ⟨rfl, rfl, rfl⟩
      refine ⟨hd.1.trans hkeys.1, hd.2.1.trans hkeys.2.1, hd.2.2.1.trans hkeys.2.2, ?_⟩
      intro _ hf hun hexp l a hl hor h3 h4
      have hattrs : e1.attrs = e.attrs := by rw [hb.2.1, hcan, hkeys.1, hkeys.2.1]
      simp only [StepOf, hf, ↓reduceIte] at hstep
      rw [updateEntry_run fx orc e hun] at hstep
      obtain ⟨l', ls, hls⟩ : ∃ l' ls, e.attrs.languages = l' :: ls := by
        cases hq : e.attrs.languages with
        | nil => exact absurd hq he.langs
        | cons l' ls => exact ⟨l', ls, rfl⟩
      have hll : l' = l := by rw [hls] at hl; simpa using hl
      subst hll
      rw [hls] at hstep
      obtain ⟨a', hor', hc, _⟩ := (updateLangs_head fx ho orc e l' ls [c]).mp hstep
      have haa : a' = a := by rw [hor] at hor'; simpa using hor'.symm
      subst haa
      simp only [List.cons.injEq, and_true] at hc
      have ha := he.act l' a' (by simp [hls]) hor
      have hco : c.output = wr fx e (keptG e a') := by rw [hc]; rfl
      obtain ⟨hout, hhf⟩ := readbackG fx os e e1 c (keptG e a') hb hattrs hco (goodX_kept orc e a' he ha)
      have hr : ReadBack e e1 (keptG e a') := ⟨hattrs, hd.2.2.1.trans hkeys.2.2, hout, hhf⟩
      have hk2 := keptG_second orc e e1 a' he ha hr
      -- an error-free rendering is what is kept
      have hkact : keptG e a' = actualG e a' := by
        have main : (if (actualG e a' == e.output) = true then e.output
            else if (containsSub strERROR (actualG e a') || containsSub strMISSING (actualG e a')) = true then e.output
            else actualG e a') = actualG e a' := by
          by_cases heq : (actualG e a' == e.output) = true
          · simp only [heq, ↓reduceIte]; exact (eq_of_beq heq).symm
          · simp [heq, h3, h4]
        unfold keptG
        cases hx : e.attrs.expect with
        | error => exact absurd hx hexp
        | pass => exact main
        | skip => exact main
      refine ⟨hout.trans hkact, ?_⟩
      -- and the second round compares with the same rendering
      have hact1 : actualG e1 a' = actualG e a' := by
        have : keptG e1 a' = actualG e1 a' ∨ keptG e1 a' = e1.output := by
          rcases keptG_cases e1 a' with h | ⟨h, _⟩
          · exact Or.inr h
          · exact Or.inl h
        -- reuse the computation inside `keptG_second`: same flags, expectation = actual
        unfold actualG
        rw [hattrs, hhf, hkact]
        cases hcst : e.attrs.cst with
        | true => rfl
        | false =>
          unfold actualG
          simp only [hcst, Bool.false_eq_true, ↓reduceIte]
          by_cases hh : e.hasFields = true
          · simp only [hh, ↓reduceIte]
            by_cases h2 : hasFieldsOf a'.sexpFields = true
            · simp [h2]
            · have h2' : hasFieldsOf a'.sexpFields = false := by simpa using h2
              simp [h2', ha.fieldsEq h2']
          · have hh' : e.hasFields = false := by simpa using hh
            simp [hh', ha.plainNoFields]
      rw [hact1, hout, hkact]
  exact hmem (fun e he => ⟨hent e he, hcanon e he⟩) hcomp

/-- The unfiltered case: `updateFile`. -/
theorem updateFileF_true (fx : Fixes) (os : Str) (orc : Oracle) (f : Str) :
    updateFileF fx os orc (fun _ => true) f = updateFile fx os orc f := by
  unfold updateFileF updateFile
  split <;> simp [updateEntriesF_true]

theorem update_idempotent_unfiltered (fx : Fixes) (hk : fx.keepUnrun = true) (ho : fx.oneCorrection = true)
    (hsp : fx.keepSuffixPreamble = true) (hkc : fx.keepCstFiltered = true)
    (os : Str) (orc : Oracle) (f : Str) (cs : List Correction)
    (hne : parseFile os f ≠ [])
    (hrun : updateEntries fx orc (parseFile os f) [] = some cs)
    (hent : ∀ e ∈ parseFile os f, EntryOKG orc e)
    (hcanon : ∀ e ∈ parseFile os f, e.attrs = flagsOf os e.name e.attrsStr)
    (hsimple : ∀ c ∈ cs, SimpleS ((firstSuffix (splitIncl f)).getD []) c)
    (hse : SufOK '=' ((firstSuffix (splitIncl f)).getD [])) (hsd : SufOK '-' ((firstSuffix (splitIncl f)).getD [])) :
    updateFile fx os orc (updateFile fx os orc f) = updateFile fx os orc f := by
  have := update_idempotent_general fx hk ho hsp hkc os orc (fun _ => true) f cs hne
    (by rw [updateEntriesF_true]; exact hrun) hent hcanon hsimple hse hsd
  simpa [updateFileF_true] using this

/-- Boolean form of the structural part of `EntryOKG` (languages, `has_fields`, trimmed CST text), and of its
expectation-shape part, evaluated by the driver on every real entry. -/
def entryShapeB (e : Entry) : Bool :=
  !e.attrs.languages.isEmpty && (e.hasFields == (if e.attrs.cst then false else hasFieldsOf e.output)) &&
  (!e.attrs.cst || trim e.output == e.output)
def entryExpectB (e : Entry) : Bool := e.attrs.cst || e.output.isEmpty || inFormatClass e.output

/-- Non-vacuity of the general theorems on a concrete file with leading text, a `:cst` test, a test with two
languages, and a filter that carries the first test over: hypotheses that are decidable hold, the first
update changes the file, the second does not. -/
def fExG : Str :=
  "; notes\n\n===\nkeep\n===\na\n---\n\n(x)\n\n====\ncst one\n:cst\n====\nb\n-----\n\n0:0 - 0:1 old\n\n===\ntwo\n:language(p)\n:language(q)\n===\nc\n---\n\n(y)\n".toList
def orcG : Oracle := fun _ _ => some { sexpFields := sxSource, sexpPlain := sxSource, cst := "0:0 - 0:1 new".toList, hasError := false }
def fltG : Str → Bool := fun n => n != "keep".toList
example : (parseFile [] fExG).length = 3 ∧ (parseFile [] fExG).all entryShapeB = true ∧
    (parseFile [] fExG).all entryExpectB = true ∧
    (parseFile [] fExG).all (fun e => decide (e.attrs = flagsOf [] e.name e.attrsStr)) = true ∧
    preamble [] fExG ≠ [] ∧
    updateFileF fxAll [] orcG fltG fExG ≠ fExG ∧
    updateFileF fxAll [] orcG fltG (updateFileF fxAll [] orcG fltG fExG) = updateFileF fxAll [] orcG fltG fExG := by
  decide +kernel

/-- Attribute combinations and the error branch through the general theorems, on one concrete file:
`:error` (tree has an error: passes), `:error :fail-fast`-free `:cst :skip`, `:platform(other)`, a test whose parse
has an ERROR and a wrong expectation (kept; the run reports `Err`), a passing `:fail-fast` test, a stale expectation that gets updated.  All decidable
hypotheses hold, the run's status is `Err` (`updateStatus = false`), the file is rewritten, and a second update is
the identity. -/
def fExA : Str :=
  ("===\nerr\n:error\n===\ne\n---\n\n(old)\n\n===\nsk\n:cst\n:skip\n===\ns\n---\n\n0:0 - 0:1 kept\n\n" ++
   "===\nmac\n:platform(macos)\n===\nm\n---\n\n(m)\n\n===\nbroken\n===\nx\n---\n\n(wrong)\n\n" ++
   "===\nff\n:fail-fast\n===\ng\n---\n\n(source)\n\n===\nstale\n===\nu\n---\n\n(stale)\n").toList
def orcA : Oracle := fun _ inp =>
  if inp == ['e'] || inp == ['x'] then
    some { sexpFields := "(source (ERROR))".toList, sexpPlain := "(source (ERROR))".toList, cst := "0:0 ERROR".toList, hasError := true }
  else some { sexpFields := sxSource, sexpPlain := sxSource, cst := "0:0 - 0:1 new".toList, hasError := false }
example : (parseFile "linux".toList fExA).length = 6 ∧ (parseFile "linux".toList fExA).all entryShapeB = true ∧
    (parseFile "linux".toList fExA).all entryExpectB = true ∧
    (parseFile "linux".toList fExA).all (fun e => decide (e.attrs = flagsOf "linux".toList e.name e.attrsStr)) = true ∧
    updateStatus fxAll orcA (fun _ => true) (parseFile "linux".toList fExA) false = false ∧
    updateFile fxAll "linux".toList orcA fExA ≠ fExA ∧
    updateFile fxAll "linux".toList orcA (updateFile fxAll "linux".toList orcA fExA) = updateFile fxAll "linux".toList orcA fExA := by
  decide +kernel

/-- Witness for the hypothesis `EntryOKG.out` (expectation empty or ONE balanced S-expression): an expectation with two
top-level groups, kept because the parse has an error, is re-formatted differently by every further update
(`(a) (b)` → `(a)(b)` → `(a` / `  (b))`), so the second update changes the file again — for the repaired code too. -/
def fExJunk : Str := "===\nj\n===\nx\n---\n\n(a) (b)\n".toList
theorem idempotent_fails_two_toplevel_expectation :
    updateFile fxAll [] orcA (updateFile fxAll [] orcA fExJunk) ≠ updateFile fxAll [] orcA fExJunk := by decide +kernel

/-- Multi-language tests (`:language(p)` / `:language(q)` with DIFFERENT renderings per language) through the general
theorems: the update writes the test ONCE with the first language's rendering; the file read back has one test
with both language lines; the second update is the identity (no fail-fast, so the mismatch under `q` does not
stop the run).  With `:fail-fast` the run stops at `q` and nothing is written (first conjunct of the last line). -/
def fExL : Str := "===\nml\n:language(p)\n:language(q)\n===\nc\n---\n\n(old)\n".toList
def fExLff : Str := "===\nml\n:language(p)\n:language(q)\n:fail-fast\n===\nc\n---\n\n(old)\n".toList
def orcL : Oracle := fun l _ =>
  if l == ['q'] then some { sexpFields := "(other)".toList, sexpPlain := "(other)".toList, cst := [], hasError := false }
  else some { sexpFields := sxSource, sexpPlain := sxSource, cst := [], hasError := false }
example : (parseFile [] fExL).all entryShapeB = true ∧ (parseFile [] fExL).all entryExpectB = true ∧
    (parseFile [] (updateFile fxAll [] orcL fExL)).map (fun e => (e.attrs.languages, e.output)) = [([['p'], ['q']], sxSource)] ∧
    updateFile fxAll [] orcL (updateFile fxAll [] orcL fExL) = updateFile fxAll [] orcL fExL ∧
    updateFile fxAll [] orcL fExLff = fExLff := by decide +kernel

end TsVerif.C20
