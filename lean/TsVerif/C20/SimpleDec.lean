import TsVerif.C20.Roundtrip
/-!
# C20 — the syntactic well-formedness hypothesis `SimpleS` is decidable

`SimpleS suf c` (Roundtrip.lean) is the hypothesis on the corrections of `roundtrip_built`,
`update_preserves_general`, `update_idempotent_general`.  The driver evaluates it on every real case (field
`simples`), next to the semantic condition `canonB` of the judge; `roundtrip_built` says the first implies the
second, and the check asserts that implication on every real case.
-/
namespace TsVerif.C20

instance (n : Str) : Decidable (NameOK n) :=
  decidable_of_iff ((∀ l ∈ splitIncl (n ++ ['\n']), NameLineOK l) ∧ trimEnd (n ++ ['\n']) = n)
    ⟨fun ⟨a, b⟩ => ⟨a, b⟩, fun h => ⟨h.lines, h.trimmed⟩⟩

/-- first line of the attribute text is a recognised marker -/
def firstMarker (a : Str) : Bool :=
  match splitIncl (a ++ ['\n']) with
  | l :: _ => markerLine l
  | [] => false

theorem firstMarker_iff (a : Str) :
    firstMarker a = true ↔ ∃ l ls, splitIncl (a ++ ['\n']) = l :: ls ∧ markerLine l = true := by
  unfold firstMarker
  cases h : splitIncl (a ++ ['\n']) with
  | nil => simp
  | cons l ls => simp

instance (a : Str) : Decidable (AttrsOK a) :=
  decidable_of_iff (a = [] ∨ (firstMarker a = true ∧
      (∀ l ∈ splitIncl (a ++ ['\n']), NoDelim '=' l) ∧ trimEnd (a ++ ['\n']) = a))
    (by unfold AttrsOK; rw [firstMarker_iff])

instance (suf : Str) (c : Correction) : Decidable (SimpleS suf c) :=
  decidable_of_iff (3 ≤ c.hlen ∧ 3 ≤ c.dlen ∧ NameOK c.name ∧ AttrsOK c.attrsStr ∧
      (∀ l ∈ splitIncl (c.input ++ ['\n']), BodyLineOK suf (fun n => decide (n ≤ c.dlen)) l) ∧
      popNewline (c.input ++ ['\n']) = c.input ∧
      (∀ l ∈ splitIncl (trim c.output ++ ['\n']), BodyLineOK suf (fun n => decide (n < c.dlen)) l))
    ⟨fun ⟨a, b, c', d, e, f, g⟩ => ⟨a, b, c', d, e, f, g⟩,
     fun h => ⟨h.hlen, h.dlen, h.name, h.attrs, h.inputLines, h.inputCr, h.outputLines⟩⟩

/-- the hypothesis of the general theorems on a list of corrections, as a Bool -/
def simpleSAll (suf : Str) (cs : List Correction) : Bool :=
  decide (SufOK '=' suf) && decide (SufOK '-' suf) && cs.all fun c => decide (SimpleS suf c)

end TsVerif.C20
