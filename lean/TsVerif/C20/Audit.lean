import TsVerif.C20.Props
#print axioms TsVerif.C20.splitIncl_flatten
#print axioms TsVerif.C20.updateLangs_spec
#print axioms TsVerif.C20.updateEntry_spec
#print axioms TsVerif.C20.updateEntries_keys
#print axioms TsVerif.C20.updateEntries_keys_fixed
#print axioms TsVerif.C20.update_preserves_partial
#print axioms TsVerif.C20.parse_write_roundtrip_partial
#print axioms TsVerif.C20.update_preserves_simple
#print axioms TsVerif.C20.roundtrip_fails_delimiter_in_input
#print axioms TsVerif.C20.format_sexp_quote_state
