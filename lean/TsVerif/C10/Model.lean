import TsVerif.Gen.Basic
import TsVerif.Gen.Edit
import TsVerif.Gen.Consts
import TsVerif.Common.Tree
/-!
# C10 — port of `ts_subtree_edit` (lib/src/subtree.c)

The C function uses an explicit stack of (subtree, edit) entries.  An entry's child loop only
*pushes* entries for children (it never reads back an edited child), and the only state that
flows between iterations of the child loop is `child_right` and `edit.new_end`; hence the
stack order is irrelevant and the function is the structural recursion below.
Helpers `length_*`, `point_*`, `ts_subtree_can_inline` are the *generated* definitions (T-gen).
-/
namespace TsVerif.C10
open TsGen TsVerif

/-- `Edit` of subtree.c: three positions in the coordinates of the current subtree. -/
structure Edit where
  start : Length
  old_end : Length
  new_end : Length
  deriving DecidableEq, Repr, Inhabited

def Edit.ofInput (e : TSInputEdit) : Edit :=
  { start := { bytes := e.start_byte, extent := e.start_point }
    old_end := { bytes := e.old_end_byte, extent := e.old_end_point }
    new_end := { bytes := e.new_end_byte, extent := e.new_end_point } }

/-- The three geometry cases: new (padding, size) of a subtree under `edit`. -/
def reshape (padding size : Length) (edit : Edit) : Length × Length :=
  let total_size := length_add padding size
  let is_pure_insertion := edit.old_end.bytes = edit.start.bytes
  if edit.old_end.bytes ≤ padding.bytes then
    (length_add edit.new_end (length_sub padding edit.old_end), size)
  else if edit.start.bytes < padding.bytes then
    (edit.new_end, length_saturating_sub size (length_sub edit.old_end padding))
  else if edit.start.bytes < total_size.bytes ∨ (edit.start.bytes = total_size.bytes ∧ is_pure_insertion) then
    (padding, length_add (length_sub edit.new_end padding) (length_saturating_sub total_size edit.old_end))
  else
    (padding, size)

/-- Storing the new padding/size: inline leaves keep only `size.bytes` (column = bytes) while
they still fit, otherwise they are promoted to a heap leaf whose other flags are reset. -/
def store (d : NodeData) (padding size : Length) : NodeData :=
  if d.isInline then
    if ts_subtree_can_inline padding size d.lookahead then
      { d with padding := padding
               size := { bytes := size.bytes, extent := { row := 0, column := size.bytes } }
               hasChanges := true }
    else
      { d with padding := padding, size := size, isInline := false, errorCost := 0
               fragileLeft := false, fragileRight := false, hasExternalTokens := false
               dependsOnColumn := false, hasChanges := true }
  else
    { d with padding := padding, size := size, hasChanges := true }

/-- Parent context that the child loop reads. -/
structure Ctx where
  parentDependsOnColumn : Bool
  columnShifted : Bool
  isPureInsertion : Bool
  padding : Length          -- the parent's *new* padding
  oldEnd : Length
  start : Length

/-- Does the child loop stop (`break`) at this child? -/
def stopsAt (cx : Ctx) (childLeft : Length) (childSize : Length) (i : Nat) (childDependsOnColumn : Bool) : Bool :=
  ((decide (childLeft.bytes > cx.oldEnd.bytes)) ||
    (decide (childLeft.bytes = cx.oldEnd.bytes) && decide (childSize.bytes > 0) && decide (i > 0))) &&
  (!cx.parentDependsOnColumn || decide (childLeft.extent.row > cx.padding.extent.row)) &&
  (!childDependsOnColumn || !cx.columnShifted || decide (childLeft.extent.row > cx.oldEnd.extent.row))

mutual
  def editTree (t : Tree) (edit : Edit) : Tree :=
    match t with
    | .mk d kids =>
      let is_noop := edit.old_end.bytes = edit.start.bytes ∧ edit.new_end.bytes = edit.start.bytes
      let total_size := length_add d.padding d.size
      let end_byte := total_size.bytes + d.lookahead
      if edit.start.bytes > end_byte ∨ (is_noop ∧ edit.start.bytes = end_byte) then .mk d kids
      else
        let ps := reshape d.padding d.size edit
        let d' := store d ps.1 ps.2
        let cx : Ctx :=
          { parentDependsOnColumn := d.dependsOnColumn
            columnShifted := decide (edit.new_end.extent.column ≠ edit.old_end.extent.column)
            isPureInsertion := decide (edit.old_end.bytes = edit.start.bytes)
            padding := ps.1, oldEnd := edit.old_end, start := edit.start }
        .mk d' (editKids kids cx edit.new_end length_zero 0)

  /-- The child loop; `newEnd` is the (mutated) `edit.new_end`, `childRight` the running offset. -/
  def editKids (kids : List Tree) (cx : Ctx) (newEnd : Length) (childRight : Length) (i : Nat) : List Tree :=
    match kids with
    | [] => []
    | c :: rest =>
      let child_size := c.totalSize
      let child_left := childRight
      let child_right := length_add child_left child_size
      if child_right.bytes + c.data.lookahead < cx.start.bytes then
        c :: editKids rest cx newEnd child_right (i + 1)
      else if stopsAt cx child_left child_size i c.data.dependsOnColumn then
        c :: rest
      else
        let ce_start := length_saturating_sub cx.start child_left
        let ce_old := length_saturating_sub cx.oldEnd child_left
        let ce_new := length_saturating_sub newEnd child_left
        if child_right.bytes > cx.start.bytes ∨ (child_right.bytes = cx.start.bytes ∧ cx.isPureInsertion) then
          editTree c { start := ce_start, old_end := ce_old, new_end := ce_new }
            :: editKids rest cx cx.start child_right (i + 1)
        else
          editTree c { start := ce_start, old_end := ce_start, new_end := ce_start }
            :: editKids rest cx newEnd child_right (i + 1)
end

/-- `ts_tree_edit`: the stored included ranges move by `ts_range_edit`, the root by `editTree`. -/
def treeEdit (d : TreeDump) (e : TSInputEdit) : TreeDump :=
  { ranges := d.ranges.map (ts_range_edit · e), root := editTree d.root (Edit.ofInput e) }

end TsVerif.C10
