import TsVerif.C10.Props
#print axioms TsVerif.C10.edit_shape
#print axioms TsVerif.C10.point_edit_eq_phi
#print axioms TsVerif.C10.range_edit_eq_phi
#print axioms TsVerif.C10.edit_marks_root
#print axioms TsVerif.C10.edit_untouched_same
#print axioms TsVerif.C10.edit_kept_shifted_bytes
#print axioms TsVerif.C10.edit_preserves_tiling
#print axioms TsVerif.C10.edits_preserve_tiling
#print axioms TsVerif.C10.wfbCheck_sound
#print axioms TsVerif.C10.edit_marks
#print axioms TsVerif.C10.laokCheck_sound
#print axioms TsVerif.point_add_assoc
#print axioms TsVerif.point_sub_add_cancel
#print axioms TsVerif.length_add_assoc
#print axioms TsVerif.length_sub_add_cancel
#print axioms TsVerif.extent_append
#print axioms TsVerif.lengthOf_sub_prefix
