import TsVerif.C10.Props
#print axioms TsVerif.C10.edit_shape
#print axioms TsVerif.C10.point_edit_eq_phi
#print axioms TsVerif.C10.range_edit_eq_phi
#print axioms TsVerif.C10.edit_marks_root
#print axioms TsVerif.C10.edit_untouched_same
