import TsVerif.C10.Bytes
/-!
# C10 — absolute byte spans of all nodes, and how an edit moves them
-/
namespace TsVerif.C10
open TsGen TsVerif

abbrev Span := Nat × Nat

mutual
  /-- Preorder list of (content start, content end) of every node; `A` = where `t`'s padding starts. -/
  def spans : Tree → Nat → List Span
    | .mk d ks, A => (A + d.padding.bytes, A + d.padding.bytes + d.size.bytes) :: spansL ks A
  def spansL : List Tree → Nat → List Span
    | [], _ => []
    | c :: rest, A => spans c A ++ spansL rest (A + tb c)
end

inductive All2 {α β : Type} (R : α → β → Prop) : List α → List β → Prop
  | nil : All2 R [] []
  | cons {a b as bs} : R a b → All2 R as bs → All2 R (a :: as) (b :: bs)

theorem All2.append {α β : Type} {R : α → β → Prop} {xs ys : List α} {us vs : List β}
    (h1 : All2 R xs us) (h2 : All2 R ys vs) : All2 R (xs ++ ys) (us ++ vs) := by
  induction h1 with
  | nil => simpa using h2
  | cons h _ ih => exact All2.cons h ih

theorem All2.mono {α β : Type} {R S : α → β → Prop} {xs : List α} {us : List β}
    (h : All2 R xs us) (hRS : ∀ a b, a ∈ xs → R a b → S a b) : All2 S xs us := by
  induction h with
  | nil => exact All2.nil
  | cons h _ ih =>
    refine All2.cons (hRS _ _ (by simp) h) (ih ?_)
    intro a b ha; exact hRS a b (by simp [ha])

theorem All2.map {α β γ δ : Type} {R : α → β → Prop} {S : γ → δ → Prop} (f : α → γ) (g : β → δ)
    {xs : List α} {us : List β} (h : All2 R xs us) (hRS : ∀ a b, a ∈ xs → R a b → S (f a) (g b)) :
    All2 S (xs.map f) (us.map g) := by
  induction h with
  | nil => exact All2.nil
  | cons h _ ih =>
    refine All2.cons (hRS _ _ (by simp) h) (ih ?_)
    intro a b ha; exact hRS a b (by simp [ha])

theorem All2.refl' {α : Type} {R : α → α → Prop} (xs : List α) (h : ∀ a, a ∈ xs → R a a) : All2 R xs xs := by
  induction xs with
  | nil => exact All2.nil
  | cons a as ih => exact All2.cons (h a (by simp)) (ih (fun b hb => h b (by simp [hb])))

def shift (B : Nat) (p : Span) : Span := (p.1 + B, p.2 + B)

mutual
  theorem spans_shift : ∀ (t : Tree) (A B : Nat), spans t (A + B) = (spans t A).map (shift B)
    | .mk d ks, A, B => by
      simp only [spans, List.map_cons, shift]
      rw [spansL_shift ks A B]
      congr 1
      simp only [Prod.mk.injEq]; omega
  theorem spansL_shift : ∀ (ks : List Tree) (A B : Nat), spansL ks (A + B) = (spansL ks A).map (shift B)
    | [], _, _ => by simp [spansL]
    | c :: rest, A, B => by
      simp only [spansL, List.map_append]
      rw [spans_shift c A B, show A + B + tb c = (A + tb c) + B by omega, spansL_shift rest (A + tb c) B]
end

mutual
  /-- Every span of a subtree starting at `A` lies at or after `A` and is ordered. -/
  theorem spans_ge : ∀ (t : Tree) (A : Nat) (p : Span), p ∈ spans t A → A ≤ p.1 ∧ p.1 ≤ p.2
    | .mk d ks, A, p, h => by
      simp only [spans, List.mem_cons] at h
      rcases h with h | h
      · subst h; simp
      · exact spansL_ge ks A p h
  theorem spansL_ge : ∀ (ks : List Tree) (A : Nat) (p : Span), p ∈ spansL ks A → A ≤ p.1 ∧ p.1 ≤ p.2
    | [], _, _, h => by simp [spansL] at h
    | c :: rest, A, p, h => by
      simp only [spansL, List.mem_append] at h
      rcases h with h | h
      · exact spans_ge c A p h
      · have := spansL_ge rest (A + tb c) p h
        omega
end

mutual
  /-- Under `WFb`, every span of a subtree ends at or before the subtree's end. -/
  theorem spans_le_end : ∀ (t : Tree) (A : Nat) (p : Span), WFb t → p ∈ spans t A → p.2 ≤ A + tb t
    | .mk d [], A, p, _, h => by
      simp only [spans, spansL, List.mem_cons, List.not_mem_nil, or_false] at h
      subst h; simp only [tb_mk]; omega
    | .mk d (k :: ks), A, p, hw, h => by
      cases hw with
      | node _ _ _ hk hks hpad hsum =>
      simp only [spans, List.mem_cons] at h
      rcases h with h | h
      · subst h; simp only [tb_mk]; omega
      · have := spansL_le_end (k :: ks) A p (WFbL.cons _ _ hk hks) h
        rw [tb_mk]; omega
  theorem spansL_le_end : ∀ (ks : List Tree) (A : Nat) (p : Span), WFbL ks → p ∈ spansL ks A → p.2 ≤ A + sumT ks
    | [], _, _, _, h => by simp [spansL] at h
    | c :: rest, A, p, hw, h => by
      cases hw with
      | cons _ _ hc hrest =>
      simp only [spansL, List.mem_append] at h
      rcases h with h | h
      · have := spans_le_end c A p hc h
        simp only [sumT_cons]; omega
      · have := spansL_le_end rest (A + tb c) p hrest h
        simp only [sumT_cons]; omega
end

end TsVerif.C10
