import TsVerif.C10.Spans
/-!
# C10 — every node whose extended span meets the change is marked (`has_changes`)

Absolute-coordinate induction: `S`/`O` are the edit's start / old end in root coordinates, `A` the
absolute offset of the current frame.  Whatever `Edit` a frame receives from its parent's child loop
has one of two *forms* w.r.t. `(S, O, A)` (`Form`), and both forms reach every non-empty node whose
extended span `[content start, content end + look-ahead)` meets `[S, O)`.
-/
namespace TsVerif.C10
open TsGen TsVerif

abbrev Ext := Nat × Nat × Nat   -- (frame start f, content start a, look-ahead end c)

mutual
  def ext : Tree → Nat → List Ext
    | .mk d ks, A =>
      (A, A + d.padding.bytes, A + d.padding.bytes + d.size.bytes + d.lookahead) :: extL ks A
  def extL : List Tree → Nat → List Ext
    | [], _ => []
    | c :: rest, A => ext c A ++ extL rest (A + tb c)
end

mutual
  def flags : Tree → List Bool
    | .mk d ks => d.hasChanges :: flagsL ks
  def flagsL : List Tree → List Bool
    | [] => []
    | c :: rest => flags c ++ flagsL rest
end

mutual
  /-- Look-ahead monotonicity (what `ts_subtree_summarize_children` establishes): a child's
  look-ahead end never exceeds its parent's. -/
  inductive LaOK : Tree → Prop
    | mk (d : NodeData) (ks : List Tree) :
        LaOKL ks 0 (d.padding.bytes + d.size.bytes + d.lookahead) → LaOK (.mk d ks)
  inductive LaOKL : List Tree → Nat → Nat → Prop
    | nil (l B : Nat) : LaOKL [] l B
    | cons (c : Tree) (rest : List Tree) (l B : Nat) :
        LaOK c → l + tb c + c.data.lookahead ≤ B → LaOKL rest (l + tb c) B → LaOKL (c :: rest) l B
end

/-- The marking clause for one node. -/
def Mark (S O : Nat) (x : Ext) (f : Bool) : Prop :=
  (x.2.1 < O ∧ S < x.2.2 ∧ x.1 < x.2.2) → f = true

mutual
  theorem ext_bounds : ∀ (t : Tree) (A : Nat) (x : Ext), WFb t → LaOK t → x ∈ ext t A →
      A ≤ x.1 ∧ x.1 ≤ x.2.1 ∧ x.2.1 ≤ x.2.2 ∧ x.2.2 ≤ A + tb t + t.data.lookahead
    | .mk d ks, A, x, hw, hl, hx => by
      simp only [ext, List.mem_cons] at hx
      rcases hx with hx | hx
      · subst hx; simp only [tb_mk, Tree.data]; omega
      · cases hl with
        | mk _ _ hl =>
        have hwl : WFbL ks := by
          cases hw with
          | leaf _ => exact WFbL.nil
          | node _ _ _ hk hks _ _ => exact WFbL.cons _ _ hk hks
        have := extL_bounds ks A 0 _ x hwl hl (by simpa using hx)
        simp only [tb_mk, Tree.data]; omega
  theorem extL_bounds : ∀ (ks : List Tree) (A l B : Nat) (x : Ext), WFbL ks → LaOKL ks l B →
      x ∈ extL ks (A + l) → A + l ≤ x.1 ∧ x.1 ≤ x.2.1 ∧ x.2.1 ≤ x.2.2 ∧ x.2.2 ≤ A + B
    | [], _, _, _, _, _, _, hx => by simp [extL] at hx
    | c :: rest, A, l, B, x, hw, hl, hx => by
      cases hw with
      | cons _ _ hc hrest =>
      cases hl with
      | cons _ _ _ _ hlc hb hlr =>
      simp only [extL, List.mem_append] at hx
      rcases hx with hx | hx
      · have := ext_bounds c (A + l) x hc hlc hx
        omega
      · have := extL_bounds rest A (l + tb c) B x hrest hlr (by rw [← Nat.add_assoc]; exact hx)
        omega
end

/-- The two shapes of the `Edit` a frame at absolute offset `A` (total `T`) can receive. -/
def Form (S O A T : Nat) (e : Edit) : Prop :=
  e.start.bytes = S - A ∧
  (e.old_end.bytes = O - A ∨ (e.old_end.bytes = S - A ∧ (A ≤ S → A + T ≤ S) ∧ (S < A → T = 0)))

theorem all2_unmarked {S O : Nat} (xs : List Ext) (fs : List Bool) (hlen : xs.length = fs.length)
    (h : ∀ x ∈ xs, ¬ (x.2.1 < O ∧ S < x.2.2 ∧ x.1 < x.2.2)) : All2 (Mark S O) xs fs := by
  induction xs generalizing fs with
  | nil => cases fs with
    | nil => exact All2.nil
    | cons _ _ => simp at hlen
  | cons x xs ih => cases fs with
    | nil => simp at hlen
    | cons f fs =>
      refine All2.cons (fun hx => absurd hx (h x (by simp))) (ih fs (by simpa using hlen) ?_)
      intro y hy; exact h y (by simp [hy])

mutual
  theorem ext_flags_len : ∀ (t : Tree) (A : Nat), (ext t A).length = (flags t).length
    | .mk d ks, A => by simp only [ext, flags, List.length_cons, extL_flags_len ks A]
  theorem extL_flags_len : ∀ (ks : List Tree) (A : Nat), (extL ks A).length = (flagsL ks).length
    | [], _ => rfl
    | c :: rest, A => by
      simp only [extL, flagsL, List.length_append, ext_flags_len c A, extL_flags_len rest (A + tb c)]
end

set_option maxHeartbeats 1600000 in
mutual
  theorem editTree_marks : ∀ (t : Tree) (e : Edit) (S O A : Nat), S ≤ O → WFb t → LaOK t →
      Form S O A (tb t) e → All2 (Mark S O) (ext t A) (flags (editTree t e))
    | .mk d ks, e, S, O, A, hSO, hw, hl, hf => by
      have hb := fun x hx => ext_bounds (.mk d ks) A x hw hl hx
      obtain ⟨hf1, hf2⟩ := hf
      unfold editTree
      simp only [length_add_bytes]
      split
      · rename_i hr
        refine all2_unmarked _ _ (ext_flags_len _ _) ?_
        intro x hx hm
        have := hb x hx
        simp only [tb_mk, Tree.data] at this hf2
        rcases hr with hr | ⟨⟨hr1, hr2⟩, hr3⟩ <;> omega
      · rename_i hr
        simp only [ext, flags]
        refine All2.cons ?_ ?_
        · intro _
          unfold store
          split
          · split <;> rfl
          · rfl
        · cases hl with
          | mk _ _ hl =>
          have hwl : WFbL ks := by
            cases hw with
            | leaf _ => exact WFbL.nil
            | node _ _ _ hk hks _ _ => exact WFbL.cons _ _ hk hks
          have hsum : sumT ks ≤ d.padding.bytes + d.size.bytes := by
            cases hw with
            | leaf _ => simp
            | node _ _ _ _ _ _ hs => omega
          have hK := editKids_marks ks
            { parentDependsOnColumn := d.dependsOnColumn
              columnShifted := decide (e.new_end.extent.column ≠ e.old_end.extent.column)
              isPureInsertion := decide (e.old_end.bytes = e.start.bytes)
              padding := (reshape d.padding d.size e).1, oldEnd := e.old_end, start := e.start }
            e.new_end length_zero 0 S O A _ hSO hwl hl hf1
            (by simp only [tb_mk] at hf2; simp only [length_zero_bytes]; omega)
          simpa using hK

  theorem editKids_marks : ∀ (ks : List Tree) (cx : Ctx) (ne l : Length) (i : Nat) (S O A B : Nat),
      S ≤ O → WFbL ks → LaOKL ks l.bytes B →
      cx.start.bytes = S - A →
      (cx.oldEnd.bytes = O - A ∨ (cx.oldEnd.bytes = S - A ∧ (A ≤ S → A + (l.bytes + sumT ks) ≤ S) ∧ (S < A → l.bytes + sumT ks = 0))) →
      All2 (Mark S O) (extL ks (A + l.bytes)) (flagsL (editKids ks cx ne l i))
    | [], _, _, _, _, _, _, _, _, _, _, _, _, _ => by
      unfold editKids; simp only [extL, flagsL]; exact All2.nil
    | c :: rest, cx, ne, l, i, S, O, A, B, hSO, hw, hl, hf1, hf2 => by
      cases hw with
      | cons _ _ hc hrest =>
      cases hl with
      | cons _ _ _ _ hlc hbd hlr =>
      have hbc := fun x hx => ext_bounds c (A + l.bytes) x hc hlc hx
      have hbr := fun x hx => extL_bounds rest A (l.bytes + tb c) B x hrest hlr hx
      simp only [sumT_cons] at hf2
      unfold editKids
      simp only [length_add_bytes, totalSize_bytes]
      split
      · rename_i hcont
        have ih := editKids_marks rest cx ne (length_add l c.totalSize) (i + 1) S O A B hSO hrest
          (by simpa using hlr) hf1 (by simp only [length_add_bytes, totalSize_bytes]; omega)
        simp only [length_add_bytes, totalSize_bytes] at ih
        simp only [extL, flagsL]
        refine All2.append (all2_unmarked _ _ (ext_flags_len _ _) ?_) (by rw [← Nat.add_assoc] at ih; exact ih)
        intro x hx hm
        have := hbc x hx
        omega
      · split
        · rename_i hcont hstop
          have hb := stopsAt_bytes _ _ _ _ _ hstop
          simp only [totalSize_bytes] at hb
          refine all2_unmarked _ _ (extL_flags_len _ _) ?_
          intro x hx hm
          simp only [extL, List.mem_append] at hx
          have hx' : A + l.bytes ≤ x.1 ∧ x.1 ≤ x.2.1 := by
            rcases hx with hx | hx
            · have := hbc x hx; omega
            · have := hbr x (by rw [← Nat.add_assoc]; exact hx); omega
          rcases hb with hb | ⟨hb1, hb2, hb3⟩ <;> rcases hf2 with hf2 | ⟨hf2, hf3, hf4⟩ <;> omega
        · rename_i hcont hstop
          have ihr : ∀ ne', All2 (Mark S O) (extL rest (A + l.bytes + tb c))
              (flagsL (editKids rest cx ne' (length_add l c.totalSize) (i + 1))) := by
            intro ne'
            have ih := editKids_marks rest cx ne' (length_add l c.totalSize) (i + 1) S O A B hSO hrest
              (by simpa using hlr) hf1 (by simp only [length_add_bytes, totalSize_bytes]; omega)
            simp only [length_add_bytes, totalSize_bytes] at ih
            rw [← Nat.add_assoc] at ih; exact ih
          split
          · rename_i htake
            have it := editTree_marks c { start := length_saturating_sub cx.start l, old_end := length_saturating_sub cx.oldEnd l, new_end := length_saturating_sub ne l }
              S O (A + l.bytes) hSO hc hlc
              (by unfold Form; simp only [length_saturating_sub_bytes]
                  rcases hf2 with hf2 | ⟨hf2, hf3, hf4⟩
                  · exact ⟨by omega, Or.inl (by omega)⟩
                  · exact ⟨by omega, Or.inr ⟨by omega, by omega, by omega⟩⟩)
            simp only [extL, flagsL]
            exact All2.append it (ihr _)
          · rename_i htake
            have hnt : ¬ (l.bytes + tb c > cx.start.bytes) := fun h => htake (Or.inl h)
            have it := editTree_marks c { start := length_saturating_sub cx.start l, old_end := length_saturating_sub cx.start l, new_end := length_saturating_sub cx.start l }
              S O (A + l.bytes) hSO hc hlc
              (by unfold Form; simp only [length_saturating_sub_bytes]
                  exact ⟨by omega, Or.inr ⟨by omega, by omega, by omega⟩⟩)
            simp only [extL, flagsL]
            exact All2.append it (ihr _)
end

end TsVerif.C10
