import TsVerif.C10.Spans
/-!
# C10 — how `editTree` moves the byte span of every node (kept / shifted clauses)
-/
namespace TsVerif.C10
open TsGen TsVerif

/-- The property's two positional clauses for one node, in bytes: `p` = old span, `q` = new span.
* a node that ends before the change (or exactly at its start, unless the edit is a pure
  insertion there) keeps its span;
* a node that starts at or after the old end is shifted by φ(x) = new_end + (x − old_end). -/
def Rel (s o n : Nat) (p q : Span) : Prop :=
  ((p.2 < s ∨ (p.2 = s ∧ o ≠ s)) → q = p) ∧
  (o ≤ p.1 → q = (n + (p.1 - o), n + (p.2 - o)))

theorem reshape_noop (p z : Length) (e : Edit) (h1 : e.old_end.bytes = e.start.bytes)
    (h2 : e.new_end.bytes = e.start.bytes) :
    (reshape p z e).1.bytes = p.bytes ∧ (reshape p z e).2.bytes = z.bytes := by
  unfold reshape
  simp only [length_add_bytes]
  split
  · exact ⟨by simp only [length_add_bytes, length_sub_bytes]; omega, rfl⟩
  · split
    · exfalso; omega
    · split
      · refine ⟨rfl, ?_⟩
        simp only [length_add_bytes, length_sub_bytes, length_saturating_sub_bytes]; omega
      · exact ⟨rfl, rfl⟩

mutual
  /-- An edit whose three byte offsets coincide never changes byte geometry (it only marks). -/
  theorem noop_spans : ∀ (t : Tree) (e : Edit) (A : Nat),
      e.old_end.bytes = e.start.bytes → e.new_end.bytes = e.start.bytes →
      spans (editTree t e) A = spans t A ∧ tb (editTree t e) = tb t
    | .mk d ks, e, A, h1, h2 => by
      obtain ⟨r1, r2⟩ := reshape_noop d.padding d.size e h1 h2
      unfold editTree
      simp only
      split
      · exact ⟨rfl, rfl⟩
      · have hk := noop_spansL ks
          { parentDependsOnColumn := d.dependsOnColumn
            columnShifted := decide (e.new_end.extent.column ≠ e.old_end.extent.column)
            isPureInsertion := decide (e.old_end.bytes = e.start.bytes)
            padding := (reshape d.padding d.size e).1, oldEnd := e.old_end, start := e.start }
          e.new_end length_zero 0 A h1 h2
        simp only [spans, tb_mk, store_padding_bytes, store_size_bytes, r1, r2, hk.1, and_self]
  theorem noop_spansL : ∀ (ks : List Tree) (cx : Ctx) (ne l : Length) (i : Nat) (A : Nat),
      cx.oldEnd.bytes = cx.start.bytes → ne.bytes = cx.start.bytes →
      spansL (editKids ks cx ne l i) A = spansL ks A ∧ sumT (editKids ks cx ne l i) = sumT ks
    | [], _, _, _, _, _, _, _ => by unfold editKids; exact ⟨rfl, rfl⟩
    | c :: rest, cx, ne, l, i, A, h1, h2 => by
      unfold editKids
      simp only
      split
      · have ih := noop_spansL rest cx ne (length_add l c.totalSize) (i + 1) (A + tb c) h1 h2
        simp only [spansL, sumT_cons, ih.1, ih.2, and_self]
      · split
        · exact ⟨rfl, rfl⟩
        · split
          · have it := noop_spans c { start := length_saturating_sub cx.start l, old_end := length_saturating_sub cx.oldEnd l, new_end := length_saturating_sub ne l } A
              (by simp only [length_saturating_sub_bytes]; omega) (by simp only [length_saturating_sub_bytes]; omega)
            have ih := noop_spansL rest cx cx.start (length_add l c.totalSize) (i + 1) (A + tb c) h1 rfl
            simp only [spansL, sumT_cons, it.1, it.2, ih.1, ih.2, and_self]
          · have it := noop_spans c { start := length_saturating_sub cx.start l, old_end := length_saturating_sub cx.start l, new_end := length_saturating_sub cx.start l } A rfl rfl
            have ih := noop_spansL rest cx ne (length_add l c.totalSize) (i + 1) (A + tb c) h1 h2
            simp only [spansL, sumT_cons, it.1, it.2, ih.1, ih.2, and_self]
end

/-- Rel for a node's own span, from the reshape lemmas. -/
theorem rel_own (pad tot pad' tot' : Nat) (e : Edit) (he : EditB e) (hpt : pad ≤ tot)
    (hp : pad' = padB pad e)
    (ht1 : Takes tot e → tot' = e.new_end.bytes + (tot - e.old_end.bytes))
    (ht2 : ¬ Takes tot e → tot' = tot) :
    Rel e.start.bytes e.old_end.bytes e.new_end.bytes (pad, tot) (pad', tot') := by
  obtain ⟨h1, h2⟩ := he
  obtain ⟨pb1, pb2, pb3⟩ := padB_cases pad e
  unfold Takes at ht1 ht2
  constructor
  · intro hb
    simp only at hb
    have hnt : ¬ (e.start.bytes < tot ∨ (e.start.bytes = tot ∧ e.old_end.bytes = e.start.bytes)) := by omega
    rw [hp, ht2 hnt, pb3 (by omega) (by omega)]
  · intro ha
    simp only at ha
    have hT : e.start.bytes < tot ∨ (e.start.bytes = tot ∧ e.old_end.bytes = e.start.bytes) := by omega
    rw [hp, ht1 hT, pb1 ha]

set_option maxHeartbeats 1600000 in
mutual
  theorem editTree_moves : ∀ (t : Tree) (e : Edit), WFb t → EditB e →
      All2 (Rel e.start.bytes e.old_end.bytes e.new_end.bytes) (spans t 0) (spans (editTree t e) 0)
    | .mk d ks, e, hw, he => by
      have hp := reshape_pad_bytes d.padding d.size e
      obtain ⟨ht1, ht2⟩ := reshape_total_bytes d.padding d.size e he
      have hle := fun p hp => spans_le_end (.mk d ks) 0 p hw hp
      have hge := fun p hp => spans_ge (.mk d ks) 0 p hp
      obtain ⟨h1, h2⟩ := he
      unfold editTree
      simp only [length_add_bytes]
      split
      · rename_i hr
        apply All2.refl'
        intro p hpm
        have := hle p hpm
        have := hge p hpm
        simp only [tb_mk] at *
        constructor
        · intro _; rfl
        · intro ha
          rcases hr with hr | ⟨⟨hr1, hr2⟩, hr3⟩
          · omega
          · ext <;> simp only <;> omega
      · rename_i hr
        simp only [spans, Nat.zero_add]
        refine All2.cons ?_ ?_
        · simp only [store_padding_bytes, store_size_bytes]
          exact rel_own _ _ _ _ e ⟨h1, h2⟩ (by omega) hp ht1 ht2
        · cases ks with
          | nil => unfold editKids; simp only [spansL]; exact All2.nil
          | cons k ks =>
            cases hw with
            | node _ _ _ hk hks hpad hsum =>
            have hK := editKidsA_moves (k :: ks)
              { parentDependsOnColumn := d.dependsOnColumn
                columnShifted := decide (e.new_end.extent.column ≠ e.old_end.extent.column)
                isPureInsertion := decide (e.old_end.bytes = e.start.bytes)
                padding := (reshape d.padding d.size e).1, oldEnd := e.old_end, start := e.start }
              e.new_end length_zero 0 (WFbL.cons _ _ hk hks) h1 rfl h2 (by simp) (by intro _; exact ⟨rfl, by simp⟩)
            simpa using hK

  theorem editKidsA_moves : ∀ (ks : List Tree) (cx : Ctx) (ne l : Length) (i : Nat),
      WFbL ks → cx.start.bytes ≤ cx.oldEnd.bytes →
      cx.isPureInsertion = decide (cx.oldEnd.bytes = cx.start.bytes) →
      cx.start.bytes ≤ ne.bytes → l.bytes ≤ cx.start.bytes →
      ((l.bytes = cx.start.bytes ∧ cx.oldEnd.bytes = cx.start.bytes) → i = 0 ∧ ks ≠ []) →
      All2 (Rel cx.start.bytes cx.oldEnd.bytes ne.bytes) (spansL ks l.bytes) (spansL (editKids ks cx ne l i) l.bytes)
    | [], _, _, _, _, _, _, _, _, _, _ => by unfold editKids; simp only [spansL]; exact All2.nil
    | c :: rest, cx, ne, l, i, hw, hso, hpure, hsn, hls, hinv => by
      cases hw with
      | cons _ _ hc hrest =>
      have hle := fun p hp => spans_le_end c l.bytes p hc hp
      have hge := fun p hp => spans_ge c l.bytes p hp
      unfold editKids
      simp only [length_add_bytes, totalSize_bytes]
      split
      · rename_i hcont
        have ih := editKidsA_moves rest cx ne (length_add l c.totalSize) (i + 1) hrest hso hpure hsn
          (by simp; omega) (by simp; omega)
        simp only [length_add_bytes, totalSize_bytes] at ih
        simp only [spansL]
        refine All2.append (All2.refl' _ ?_) ih
        intro p hpm
        have := hle p hpm; have := hge p hpm
        exact ⟨fun _ => rfl, fun ha => by exfalso; omega⟩
      · split
        · rename_i hcont hstop
          have hb := stopsAt_bytes _ _ _ _ _ hstop
          exfalso
          rcases hb with hb | ⟨hb1, hb2, hb3⟩
          · omega
          · have := hinv ⟨by omega, by omega⟩
            omega
        · rename_i hcont hstop
          split
          · rename_i htake
            rw [hpure] at htake
            simp only [decide_eq_true_eq] at htake
            have hce : EditB { start := length_saturating_sub cx.start l, old_end := length_saturating_sub cx.oldEnd l, new_end := length_saturating_sub ne l } := by
              unfold EditB; simp; omega
            have it := editTree_moves c _ hc hce
            obtain ⟨_, t2, _, _⟩ := editTree_bytes c _ hc hce
            unfold Takes at t2
            simp only [length_saturating_sub_bytes] at it t2
            have ihr := editKidsB_moves rest cx ne (length_add l c.totalSize) (i + 1) hrest hso hsn hpure
              (by simp; omega) (by simp; omega)
            simp only [length_add_bytes, totalSize_bytes] at ihr
            simp only [spansL]
            refine All2.append ?_ ?_
            · have e1 := spans_shift c 0 l.bytes
              have e2 := spans_shift (editTree c { start := length_saturating_sub cx.start l, old_end := length_saturating_sub cx.oldEnd l, new_end := length_saturating_sub ne l }) 0 l.bytes
              simp only [Nat.zero_add] at e1 e2
              rw [e1, e2]
              refine All2.map _ _ it ?_
              intro p q hpm hrel
              have := spans_ge c 0 p hpm
              obtain ⟨hr1, hr2⟩ := hrel
              unfold Rel shift
              simp only
              constructor
              · intro hb
                rw [hr1 (by omega)]
              · intro ha
                rw [hr2 (by omega)]
                simp only [Prod.mk.injEq]; omega
            · rw [t2 (by omega)]
              have : l.bytes + (ne.bytes - l.bytes + (tb c - (cx.oldEnd.bytes - l.bytes)))
                  = ne.bytes + (l.bytes + tb c - cx.oldEnd.bytes) := by omega
              rw [this]
              exact ihr
          · rename_i htake
            rw [hpure] at htake
            simp only [decide_eq_true_eq] at htake
            obtain ⟨n1, n2⟩ := noop_spans c { start := length_saturating_sub cx.start l, old_end := length_saturating_sub cx.start l, new_end := length_saturating_sub cx.start l } l.bytes rfl rfl
            have ih := editKidsA_moves rest cx ne (length_add l c.totalSize) (i + 1) hrest hso hpure hsn
              (by simp; omega) (by simp; omega)
            simp only [length_add_bytes, totalSize_bytes] at ih
            simp only [spansL, n1, n2]
            refine All2.append (All2.refl' _ ?_) ih
            intro p hpm
            have := hle p hpm; have := hge p hpm
            exact ⟨fun _ => rfl, fun ha => by exfalso; omega⟩

  /-- After the insertion has been attributed: `n0` is the original `new_end`, the loop now runs
  with `edit.new_end = edit.start`; children at old offset `l` sit at `n0 + (l − old_end)`. -/
  theorem editKidsB_moves : ∀ (ks : List Tree) (cx : Ctx) (n0 l : Length) (i : Nat),
      WFbL ks → cx.start.bytes ≤ cx.oldEnd.bytes → cx.start.bytes ≤ n0.bytes →
      cx.isPureInsertion = decide (cx.oldEnd.bytes = cx.start.bytes) →
      l.bytes ≥ cx.start.bytes → (l.bytes > cx.start.bytes ∨ cx.oldEnd.bytes = cx.start.bytes) →
      All2 (Rel cx.start.bytes cx.oldEnd.bytes n0.bytes) (spansL ks l.bytes)
        (spansL (editKids ks cx cx.start l i) (n0.bytes + (l.bytes - cx.oldEnd.bytes)))
    | [], _, _, _, _, _, _, _, _, _, _ => by unfold editKids; simp only [spansL]; exact All2.nil
    | c :: rest, cx, n0, l, i, hw, hso, hsn, hpure, hls, hinv => by
      cases hw with
      | cons _ _ hc hrest =>
      unfold editKids
      simp only [length_add_bytes, totalSize_bytes]
      split
      · rename_i hcont; exfalso; omega
      · split
        · rename_i hcont hstop
          have hb := stopsAt_bytes _ _ _ _ _ hstop
          have hlo : l.bytes ≥ cx.oldEnd.bytes := by rcases hb with hb | ⟨hb1, _, _⟩ <;> omega
          have e1 := spansL_shift (c :: rest) 0 l.bytes
          have e2 := spansL_shift (c :: rest) 0 (n0.bytes + (l.bytes - cx.oldEnd.bytes))
          simp only [Nat.zero_add] at e1 e2
          rw [e1, e2]
          refine All2.map _ _ (All2.refl' (R := fun a b => a = b) _ (fun _ _ => rfl)) ?_
          intro p q hpm hpq
          subst hpq
          have := spansL_ge (c :: rest) 0 p hpm
          unfold Rel shift
          simp only
          constructor
          · intro hb; exfalso; omega
          · intro ha; simp only [Prod.mk.injEq]; omega
        · rename_i hcont hstop
          split
          · rename_i htake
            rw [hpure] at htake
            simp only [decide_eq_true_eq] at htake
            have hce : EditB { start := length_saturating_sub cx.start l, old_end := length_saturating_sub cx.oldEnd l, new_end := length_saturating_sub cx.start l } := by
              unfold EditB; simp; omega
            have it := editTree_moves c _ hc hce
            obtain ⟨_, t2, t2', _⟩ := editTree_bytes c _ hc hce
            unfold Takes at t2 t2'
            simp only [length_saturating_sub_bytes] at it t2 t2'
            have htb : tb (editTree c { start := length_saturating_sub cx.start l, old_end := length_saturating_sub cx.oldEnd l, new_end := length_saturating_sub cx.start l })
                = tb c - (cx.oldEnd.bytes - l.bytes) := by
              by_cases hx : cx.start.bytes - l.bytes < tb c ∨
                  (cx.start.bytes - l.bytes = tb c ∧ cx.oldEnd.bytes - l.bytes = cx.start.bytes - l.bytes)
              · rw [t2 hx]; omega
              · rw [t2' hx]; omega
            have ihr := editKidsB_moves rest cx n0 (length_add l c.totalSize) (i + 1) hrest hso hsn hpure
              (by simp; omega) (by simp; omega)
            simp only [length_add_bytes, totalSize_bytes] at ihr
            simp only [spansL]
            refine All2.append ?_ ?_
            · have e1 := spans_shift c 0 l.bytes
              have e2 := spans_shift (editTree c { start := length_saturating_sub cx.start l, old_end := length_saturating_sub cx.oldEnd l, new_end := length_saturating_sub cx.start l }) 0
                               (n0.bytes + (l.bytes - cx.oldEnd.bytes))
              simp only [Nat.zero_add] at e1 e2
              rw [e1, e2]
              refine All2.map _ _ it ?_
              intro p q hpm hrel
              have := spans_ge c 0 p hpm
              obtain ⟨hr1, hr2⟩ := hrel
              unfold Rel shift
              simp only
              constructor
              · intro hb; exfalso; omega
              · intro ha
                rw [hr2 (by omega)]
                simp only [Prod.mk.injEq]; omega
            · rw [htb]
              have : n0.bytes + (l.bytes - cx.oldEnd.bytes) + (tb c - (cx.oldEnd.bytes - l.bytes))
                  = n0.bytes + (l.bytes + tb c - cx.oldEnd.bytes) := by omega
              rw [this]
              exact ihr
          · rename_i htake
            rw [hpure] at htake
            simp only [decide_eq_true_eq] at htake
            exfalso; omega
end

end TsVerif.C10
