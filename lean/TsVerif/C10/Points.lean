import TsVerif.C10.Text
import TsVerif.C10.Spans
import TsVerif.C10.Judge
/-!
# C10 — the edit keeps a tree consistent with the text (row/column dimension, main induction)

`editTree_cons`: if a subtree at old frame `A` is consistent with the old text `T` (`Cons T t A`) and
the `Edit` it receives is the text change expressed in its frame (`TForm`), the edited subtree is
consistent with the new text `T'` at its new frame `A'`.  Mutual induction over `editTree` and the
child loop `editKids` in its two states (before / after the inserted text has been attributed to a
child), mirroring `editTree_bytes` (Bytes.lean).
-/
namespace TsVerif.C10
open TsGen TsVerif

/-! ## Moving a consistent subtree to another text that agrees on its window -/

mutual
  theorem cons_transport : ∀ (t : Tree) (T T' : List Nat) (A A' : Nat), WFb t → Cons T t A →
      (∀ a b, A ≤ a → a ≤ b → b ≤ A + tb t → lenS T a b = lenS T' (A' + (a - A)) (A' + (b - A))) →
      A' + tb t ≤ T'.length → Cons T' t A'
    | .mk d [], T, T', A, A', _, hc, h, hl => by
      simp only [Cons, ConsL, and_true] at hc ⊢
      obtain ⟨hb, hp, hz⟩ := hc
      simp only [tb_mk] at h hl
      refine NodeCons.of (A' + d.padding.bytes) (A' + d.padding.bytes + d.size.bytes) ?_ ?_
        (by omega) (by omega) (by omega)
      · have := h A (A + d.padding.bytes) (by omega) (by omega) (by omega)
        exact hp.trans (this.trans (by congr 1 <;> omega))
      · have := h (A + d.padding.bytes) (A + d.padding.bytes + d.size.bytes) (by omega) (by omega) (by omega)
        exact hz.trans (this.trans (by congr 1 <;> omega))
    | .mk d (k :: ks), T, T', A, A', hw, hc, h, hl => by
      cases hw with
      | node _ _ _ hk hks hpad hsum =>
      simp only [Cons] at hc ⊢
      obtain ⟨⟨hb, hp, hz⟩, hkids⟩ := hc
      simp only [tb_mk] at h hl
      refine ⟨?_, ?_⟩
      · refine NodeCons.of (A' + d.padding.bytes) (A' + d.padding.bytes + d.size.bytes) ?_ ?_
          (by omega) (by omega) (by omega)
        · have := h A (A + d.padding.bytes) (by omega) (by omega) (by omega)
          exact hp.trans (this.trans (by congr 1 <;> omega))
        · have := h (A + d.padding.bytes) (A + d.padding.bytes + d.size.bytes) (by omega) (by omega) (by omega)
          exact hz.trans (this.trans (by congr 1 <;> omega))
      · exact consL_transport (k :: ks) T T' A A' (WFbL.cons _ _ hk hks) hkids
          (by intro a b h1 h2 h3; exact h a b h1 h2 (by omega)) (by omega)
  theorem consL_transport : ∀ (ks : List Tree) (T T' : List Nat) (A A' : Nat), WFbL ks → ConsL T ks A →
      (∀ a b, A ≤ a → a ≤ b → b ≤ A + sumT ks → lenS T a b = lenS T' (A' + (a - A)) (A' + (b - A))) →
      A' + sumT ks ≤ T'.length → ConsL T' ks A'
    | [], _, _, _, _, _, _, _, _ => by simp only [ConsL]
    | c :: rest, T, T', A, A', hw, hc, h, hl => by
      cases hw with
      | cons _ _ hwc hwr =>
      simp only [ConsL] at hc ⊢
      simp only [sumT_cons] at h hl
      refine ⟨cons_transport c T T' A A' hwc hc.1 (by intro a b h1 h2 h3; exact h a b h1 h2 (by omega)) (by omega),
        consL_transport rest T T' (A + tb c) (A' + tb c) hwr hc.2 ?_ (by omega)⟩
      intro a b h1 h2 h3
      rw [h a b (by omega) h2 (by omega)]
      congr 1 <;> omega
end

/-- A subtree that lies at or below the start of the change keeps its frame. -/
theorem cons_keep {T T' : List Nat} {S O N : Nat} (hc : Chg T T' S O N) (t : Tree) (A : Nat)
    (hw : WFb t) (h : Cons T t A) (hS : A + tb t ≤ S) : Cons T' t A := by
  have := hc.sn; have := hc.len_le
  refine cons_transport t T T' A A hw h ?_ (by omega)
  intro a b h1 h2 h3
  rw [hc.below_eq a b (by omega)]
  congr 1 <;> omega

/-- A subtree whose frame is at or after the old end of the change moves by φ. -/
theorem cons_shift {T T' : List Nat} {S O N : Nat} (hc : Chg T T' S O N) (t : Tree) (A : Nat)
    (hw : WFb t) (h : Cons T t A) (hO : O ≤ A) : Cons T' t (N + (A - O)) := by
  have := hc.len; have := h.total.2
  refine cons_transport t T T' A (N + (A - O)) hw h ?_ (by omega)
  intro a b h1 h2 h3
  exact hc.above_eq a b _ _ (by omega) (by omega) (by omega)

theorem consL_total {T : List Nat} : ∀ (ks : List Tree) (A : Nat), ConsL T ks A → ks ≠ [] → A + sumT ks ≤ T.length
  | [], _, _, h => absurd rfl h
  | [c], A, hc, _ => by
    simp only [ConsL] at hc
    have := hc.1.total.2
    simp only [sumT_cons, sumT_nil]; omega
  | c :: c2 :: rest, A, hc, _ => by
    simp only [ConsL] at hc
    have := consL_total (c2 :: rest) (A + tb c) (by simp only [ConsL]; exact hc.2) (by simp)
    simp only [sumT_cons] at this ⊢; omega

theorem consL_shift {T T' : List Nat} {S O N : Nat} (hc : Chg T T' S O N) (ks : List Tree) (A : Nat)
    (hw : WFbL ks) (h : ConsL T ks A) (hO : O ≤ A) : ConsL T' ks (N + (A - O)) := by
  by_cases hks : ks = []
  · subst hks; simp only [ConsL]
  · have := hc.len; have := consL_total ks A h hks
    refine consL_transport ks T T' A (N + (A - O)) hw h ?_ (by omega)
    intro a b h1 h2 h3
    exact hc.above_eq a b _ _ (by omega) (by omega) (by omega)

/-! ## The edit a frame receives -/

/-- The `Edit` received by the frame at old byte `A` / new byte `A'`: the change `(S, O, N)` in
that frame's coordinates.  Either the frame starts at or before the change and stays (`A' = A`), or
an earlier sibling already took the inserted text and the frame moves by φ. -/
structure TForm (T T' : List Nat) (S O N A A' : Nat) (e : Edit) : Prop where
  hs : e.start = lenS T A S
  ho : e.old_end = lenS T A O
  hn : e.new_end = lenS T' A' N
  pos : (A ≤ S ∧ A' = A) ∨ (S ≤ A ∧ A' = N + (A - O))

/-- `reshape` when the frame starts at or before the change. -/
theorem reshape_full {T T' : List Nat} {S O N : Nat} (hc : Chg T T' S O N) {A P E : Nat} {p z : Length} {e : Edit}
    (hp : p = lenS T A P) (hz : z = lenS T P E) (hAP : A ≤ P) (hPE : P ≤ E) (hE : E ≤ T.length)
    (hAS : A ≤ S) (hs : e.start = lenS T A S) (ho : e.old_end = lenS T A O) (hn : e.new_end = lenS T' A N) :
    NodeCons T' A (reshape p z e).1 (reshape p z e).2 := by
  have hso := hc.so; have hot := hc.ot; have hsn := hc.sn; have hl := hc.len
  have hpb : p.bytes = P - A := by rw [hp]; exact lenS_bytes _ _ _ (by omega)
  have hzb : z.bytes = E - P := by rw [hz]; exact lenS_bytes _ _ _ (by omega)
  have hsb : e.start.bytes = S - A := by rw [hs]; exact lenS_bytes _ _ _ (by omega)
  have hob : e.old_end.bytes = O - A := by rw [ho]; exact lenS_bytes _ _ _ (by omega)
  have hnb : e.new_end.bytes = N - A := by rw [hn]; exact lenS_bytes _ _ _ (by omega)
  unfold reshape
  simp only [length_add_bytes]
  by_cases c1 : e.old_end.bytes ≤ p.bytes
  · rw [if_pos c1]
    refine NodeCons.of (N + (P - O)) (N + (E - O)) ?_ ?_ (by omega) (by omega) (by omega)
    · show length_add e.new_end (length_sub p e.old_end) = _
      rw [hn, hp, ho, lenS_sub T A O P (by omega) (by omega),
        hc.above_eq O P N (N + (P - O)) (by omega) (by omega) (by omega),
        lenS_add T' A N (N + (P - O)) (by omega) (by omega)]
    · show z = _
      rw [hz]
      exact hc.above_eq P E _ _ (by omega) (by omega) (by omega)
  · rw [if_neg c1]
    by_cases c2 : e.start.bytes < p.bytes
    · rw [if_pos c2]
      refine NodeCons.of N (N + (E - O)) ?_ ?_ (by omega) (by omega) (by omega)
      · exact hn
      · show length_saturating_sub z (length_sub e.old_end p) = _
        rw [hz, ho, hp, lenS_sub T A P O (by omega) (by omega),
          sat_lenS T P E O (by omega) (by omega) (by omega)]
        exact hc.above_eq O E _ _ (by omega) (by omega) (by omega)
    · rw [if_neg c2]
      by_cases c3 : e.start.bytes < p.bytes + z.bytes ∨ (e.start.bytes = p.bytes + z.bytes ∧ e.old_end.bytes = e.start.bytes)
      · rw [if_pos c3]
        refine NodeCons.of P (N + (E - O)) ?_ ?_ (by omega) (by omega) (by omega)
        · show p = _
          rw [hp]; exact hc.below_eq A P (by omega)
        · show length_add (length_sub e.new_end p) (length_saturating_sub (length_add p z) e.old_end) = _
          rw [hn, hp, hz, ho, lenS_add T A P E (by omega) (by omega),
            hc.below_eq A P (by omega), lenS_sub T' A P N (by omega) (by omega),
            sat_lenS T A E O (by omega) (by omega) (by omega),
            hc.above_eq O E N (N + (E - O)) (by omega) (by omega) (by omega),
            lenS_add T' P N (N + (E - O)) (by omega) (by omega)]
      · rw [if_neg c3]
        refine NodeCons.of P E ?_ ?_ (by omega) (by omega) (by omega)
        · show p = _
          rw [hp]; exact hc.below_eq A P (by omega)
        · show z = _
          rw [hz]; exact hc.below_eq P E (by omega)

/-- `reshape` when an earlier sibling already took the inserted text. -/
theorem reshape_consumed {T T' : List Nat} {S O N : Nat} (hc : Chg T T' S O N) {A A' P E : Nat} {p z : Length} {e : Edit}
    (hp : p = lenS T A P) (hz : z = lenS T P E) (hAP : A ≤ P) (hPE : P ≤ E) (hE : E ≤ T.length)
    (hAS : S ≤ A) (hA' : A' = N + (A - O))
    (hs : e.start = lenS T A S) (ho : e.old_end = lenS T A O) (hn : e.new_end = lenS T' A' N) :
    NodeCons T' A' (reshape p z e).1 (reshape p z e).2 := by
  have hso := hc.so; have hot := hc.ot; have hsn := hc.sn; have hl := hc.len
  have hpb : p.bytes = P - A := by rw [hp]; exact lenS_bytes _ _ _ (by omega)
  have hzb : z.bytes = E - P := by rw [hz]; exact lenS_bytes _ _ _ (by omega)
  have hsb : e.start.bytes = 0 := by rw [hs, lenS_bytes _ _ _ (by omega)]; omega
  have hob : e.old_end.bytes = O - A := by rw [ho]; exact lenS_bytes _ _ _ (by omega)
  have hn0 : e.new_end = length_zero := by rw [hn]; exact lenS_zero _ _ _ (by omega)
  unfold reshape
  simp only [length_add_bytes]
  by_cases c1 : e.old_end.bytes ≤ p.bytes
  · rw [if_pos c1]
    refine NodeCons.of (N + (P - O)) (N + (E - O)) ?_ ?_ (by omega) (by omega) (by omega)
    · show length_add e.new_end (length_sub p e.old_end) = _
      rw [hn0, length_zero_add, hp, ho]
      by_cases hAO : A ≤ O
      · rw [lenS_sub T A O P hAO (by omega)]
        exact hc.above_eq O P _ _ (by omega) (by omega) (by omega)
      · rw [lenS_zero T A O (by omega), length_sub_zero]
        exact hc.above_eq A P _ _ (by omega) (by omega) (by omega)
    · show z = _
      rw [hz]
      exact hc.above_eq P E _ _ (by omega) (by omega) (by omega)
  · rw [if_neg c1]
    by_cases c2 : e.start.bytes < p.bytes
    · rw [if_pos c2]
      refine NodeCons.of N (N + (E - O)) ?_ ?_ (by omega) (by omega) (by omega)
      · show e.new_end = _
        rw [hn0]; exact (lenS_zero _ _ _ (by omega)).symm
      · show length_saturating_sub z (length_sub e.old_end p) = _
        rw [hz, ho, hp, lenS_sub T A P O (by omega) (by omega),
          sat_lenS T P E O (by omega) (by omega) (by omega)]
        exact hc.above_eq O E _ _ (by omega) (by omega) (by omega)
    · rw [if_neg c2]
      by_cases c3 : e.start.bytes < p.bytes + z.bytes ∨ (e.start.bytes = p.bytes + z.bytes ∧ e.old_end.bytes = e.start.bytes)
      · rw [if_pos c3]
        refine NodeCons.of N (N + (E - O)) ?_ ?_ (by omega) (by omega) (by omega)
        · show p = _
          rw [hp, lenS_zero T A P (by omega)]; exact (lenS_zero _ _ _ (by omega)).symm
        · show length_add (length_sub e.new_end p) (length_saturating_sub (length_add p z) e.old_end) = _
          rw [hn0, hp, hz, ho, lenS_add T A P E (by omega) (by omega),
            lenS_zero T A P (by omega), length_sub_zero, length_zero_add,
            sat_lenS T A E O (by omega) (by omega) (by omega)]
          exact hc.above_eq O E _ _ (by omega) (by omega) (by omega)
      · rw [if_neg c3]
        refine NodeCons.of A' A' ?_ ?_ (by omega) (by omega) (by omega)
        · show p = _
          rw [hp, lenS_zero T A P (by omega)]; exact (lenS_zero _ _ _ (by omega)).symm
        · show z = _
          rw [hz, lenS_zero T P E (by omega)]; exact (lenS_zero _ _ _ (by omega)).symm

/-- Both forms at once. -/
theorem reshape_cons {T T' : List Nat} {S O N : Nat} (hc : Chg T T' S O N) {A A' : Nat} {p z : Length} {e : Edit}
    (hn : NodeCons T A p z) (hf : TForm T T' S O N A A' e) :
    NodeCons T' A' (reshape p z e).1 (reshape p z e).2 := by
  obtain ⟨hb, hp, hz⟩ := hn
  obtain ⟨hs, ho, hne, hpos⟩ := hf
  rcases hpos with ⟨h1, h2⟩ | ⟨h1, h2⟩
  · subst h2
    exact reshape_full hc hp hz (by omega) (by omega) hb h1 hs ho hne
  · exact reshape_consumed hc hp hz (by omega) (by omega) hb h1 h2 hs ho hne


theorem store_size_cons (d : NodeData) (p z : Length) (xs : List Nat) (h : z = lengthOf xs) :
    (store d p z).size = z := by
  subst h; exact store_size_lengthOf d p xs

/-- An edit whose three positions coincide keeps tiling and total bytes. -/
theorem noop_tb (c : Tree) (x : Length) (hw : WFb c) :
    WFb (editTree c { start := x, old_end := x, new_end := x }) ∧
    tb (editTree c { start := x, old_end := x, new_end := x }) = tb c := by
  obtain ⟨w, t2, t2', _⟩ := editTree_bytes c { start := x, old_end := x, new_end := x } hw
    ⟨Nat.le_refl _, Nat.le_refl _⟩
  refine ⟨w, ?_⟩
  by_cases hT : Takes (tb c) { start := x, old_end := x, new_end := x }
  · rw [t2 hT]
    unfold Takes at hT
    simp only at hT ⊢
    omega
  · exact t2' hT

set_option maxHeartbeats 1600000 in
mutual
  theorem editTree_cons : ∀ (t : Tree) (e : Edit) (T T' : List Nat) (S O N A A' : Nat),
      Chg T T' S O N → WFb t → Cons T t A → TForm T T' S O N A A' e → Cons T' (editTree t e) A'
    | .mk d ks, e, T, T', S, O, N, A, A', hc, hw, hcons, hf => by
      have hso := hc.so; have hot := hc.ot; have hsn := hc.sn; have hl := hc.len
      have hcons' := hcons
      simp only [Cons] at hcons'
      obtain ⟨hnode, hkids⟩ := hcons'
      have hr := reshape_cons hc hnode hf
      obtain ⟨hb, hp, hz⟩ := hnode
      obtain ⟨hs, ho, hn, hpos⟩ := hf
      have hsb : e.start.bytes = S - A := by rw [hs]; exact lenS_bytes _ _ _ (by omega)
      have hob : e.old_end.bytes = O - A := by rw [ho]; exact lenS_bytes _ _ _ (by omega)
      have hnb : e.new_end.bytes = N - A' := by rw [hn]; exact lenS_bytes _ _ _ (by omega)
      have hwl : WFbL ks := by
        cases hw with
        | leaf _ => exact WFbL.nil
        | node _ _ _ hk hks _ _ => exact WFbL.cons _ _ hk hks
      unfold editTree
      simp only [length_add_bytes]
      split
      · rename_i hr0
        rcases hpos with ⟨h1, h2⟩ | ⟨h1, h2⟩
        · rw [h2]
          exact cons_keep hc _ A hw hcons
            (by simp only [tb_mk]; rcases hr0 with h | ⟨⟨ha, hb'⟩, hc'⟩ <;> omega)
        · rw [h2]
          exact cons_shift hc _ A hw hcons
            (by rcases hr0 with h | ⟨⟨ha, hb'⟩, hc'⟩ <;> omega)
      · rename_i hr0
        simp only [Cons]
        refine ⟨?_, ?_⟩
        · obtain ⟨rb, rp, rz⟩ := hr
          have e1 := store_padding d (reshape d.padding d.size e).1 (reshape d.padding d.size e).2
          have e2 := store_size_cons d (reshape d.padding d.size e).1 (reshape d.padding d.size e).2 _ rz
          unfold NodeCons
          rw [e1, e2]
          exact ⟨rb, rp, rz⟩
        · rcases hpos with ⟨h1, h2⟩ | ⟨h1, h2⟩
          · rw [h2] at hn ⊢
            exact editKidsA_cons ks _ e.new_end length_zero 0 T T' S O N A A hc hwl hkids
              (Nat.le_refl _) h1 hs ho hn (lenS_zero T A A (Nat.le_refl _)).symm rfl (fun _ => rfl)
          · have hn0 : e.new_end = length_zero := by rw [hn]; exact lenS_zero _ _ _ (by omega)
            have hs0 : e.start = length_zero := by rw [hs]; exact lenS_zero _ _ _ (by omega)
            rw [h2]
            exact editKidsB_cons ks _ e.new_end length_zero 0 T T' S O N A A hc hwl hkids
              (Nat.le_refl _) h1 (by omega) hs ho (lenS_zero T A A (Nat.le_refl _)).symm rfl
              (hn0.trans hs0.symm)

  /-- Child loop before the inserted text has been attributed to a child: the parent's frame `Ap`
  and the next child's frame `Al` are at or before the change and do not move. -/
  theorem editKidsA_cons : ∀ (ks : List Tree) (cx : Ctx) (ne l : Length) (i : Nat) (T T' : List Nat)
      (S O N Ap Al : Nat),
      Chg T T' S O N → WFbL ks → ConsL T ks Al → Ap ≤ Al → Al ≤ S →
      cx.start = lenS T Ap S → cx.oldEnd = lenS T Ap O → ne = lenS T' Ap N → l = lenS T Ap Al →
      cx.isPureInsertion = decide (cx.oldEnd.bytes = cx.start.bytes) →
      ((l.bytes = cx.start.bytes ∧ cx.oldEnd.bytes = cx.start.bytes) → i = 0) →
      ConsL T' (editKids ks cx ne l i) Al
    | [], _, _, _, _, _, _, _, _, _, _, _, _, _, _, _, _, _, _, _, _, _, _ => by
      unfold editKids; simp only [ConsL]
    | c :: rest, cx, ne, l, i, T, T', S, O, N, Ap, Al, hc, hw, hcons, hAp, hAl, hs, ho, hn, hl, hpure, hinv => by
      have hso := hc.so; have hot := hc.ot; have hsn := hc.sn; have hlen := hc.len
      cases hw with
      | cons _ _ hwc hwr =>
      simp only [ConsL] at hcons
      obtain ⟨hcc, hcr⟩ := hcons
      obtain ⟨htot, htb⟩ := hcc.total
      have hsb : cx.start.bytes = S - Ap := by rw [hs]; exact lenS_bytes _ _ _ (by omega)
      have hob : cx.oldEnd.bytes = O - Ap := by rw [ho]; exact lenS_bytes _ _ _ (by omega)
      have hnb : ne.bytes = N - Ap := by rw [hn]; exact lenS_bytes _ _ _ (by omega)
      have hlb : l.bytes = Al - Ap := by rw [hl]; exact lenS_bytes _ _ _ (by omega)
      have hl' : length_add l c.totalSize = lenS T Ap (Al + tb c) := by
        rw [hl, htot, lenS_add T Ap Al (Al + tb c) hAp (by omega)]
      unfold editKids
      simp only [length_add_bytes, totalSize_bytes]
      split
      · rename_i hcont
        simp only [ConsL]
        exact ⟨cons_keep hc c Al hwc hcc (by omega),
          editKidsA_cons rest cx ne (length_add l c.totalSize) (i + 1) T T' S O N Ap (Al + tb c) hc hwr hcr
            (by omega) (by omega) hs ho hn hl' hpure
            (by simp only [length_add_bytes, totalSize_bytes]; omega)⟩
      · split
        · rename_i hcont hstop
          have hbk := stopsAt_bytes _ _ _ _ _ hstop
          exfalso
          rcases hbk with hbk | ⟨hb1, hb2, hb3⟩
          · omega
          · have := hinv ⟨by omega, by omega⟩
            omega
        · rename_i hcont hstop
          split
          · rename_i htake
            rw [hpure] at htake
            simp only [decide_eq_true_eq] at htake
            have hform : TForm T T' S O N Al Al
                { start := length_saturating_sub cx.start l
                  old_end := length_saturating_sub cx.oldEnd l
                  new_end := length_saturating_sub ne l } :=
              ⟨by rw [hs, hl]; exact sat_lenS T Ap S Al hAp (by omega) (by omega),
               by rw [ho, hl]; exact sat_lenS T Ap O Al hAp (by omega) (by omega),
               by rw [hn, hl, hc.below_eq Ap Al hAl]; exact sat_lenS T' Ap N Al hAp (by omega) (by omega),
               Or.inl ⟨hAl, rfl⟩⟩
            have it := editTree_cons c _ T T' S O N Al Al hc hwc hcc hform
            have hce : EditB { start := length_saturating_sub cx.start l
                               old_end := length_saturating_sub cx.oldEnd l
                               new_end := length_saturating_sub ne l } := by
              unfold EditB; simp only [length_saturating_sub_bytes]; omega
            obtain ⟨_, t2, _, _⟩ := editTree_bytes c _ hwc hce
            unfold Takes at t2
            simp only [length_saturating_sub_bytes] at t2
            have htb' : Al + tb (editTree c { start := length_saturating_sub cx.start l
                                              old_end := length_saturating_sub cx.oldEnd l
                                              new_end := length_saturating_sub ne l })
                = N + (Al + tb c - O) := by
              rw [t2 (by omega)]; omega
            have ihr := editKidsB_cons rest cx cx.start (length_add l c.totalSize) (i + 1) T T' S O N Ap
              (Al + tb c) hc hwr hcr (by omega) (by omega) (by omega) hs ho hl' hpure rfl
            simp only [ConsL]
            refine ⟨it, ?_⟩
            rw [htb']; exact ihr
          · rename_i htake
            rw [hpure] at htake
            simp only [decide_eq_true_eq] at htake
            have hx : length_saturating_sub cx.start l = lenS T Al S := by
              rw [hs, hl]; exact sat_lenS T Ap S Al hAp (by omega) (by omega)
            have hform : TForm T T S S S Al Al
                { start := length_saturating_sub cx.start l
                  old_end := length_saturating_sub cx.start l
                  new_end := length_saturating_sub cx.start l } :=
              ⟨hx, hx, hx, Or.inl ⟨hAl, rfl⟩⟩
            have it := editTree_cons c _ T T S S S Al Al (Chg.trivial T S (by omega)) hwc hcc hform
            obtain ⟨hwc', htbc⟩ := noop_tb c (length_saturating_sub cx.start l) hwc
            simp only [ConsL]
            refine ⟨cons_keep hc _ Al hwc' it (by omega), ?_⟩
            rw [htbc]
            exact editKidsA_cons rest cx ne (length_add l c.totalSize) (i + 1) T T' S O N Ap (Al + tb c) hc hwr hcr
              (by omega) (by omega) hs ho hn hl' hpure
              (by simp only [length_add_bytes, totalSize_bytes]; omega)

  /-- Child loop after the inserted text has been attributed (`edit.new_end = edit.start`): the
  next child's frame `Al` is at or after the start of the change and moves to `N + (Al − O)`. -/
  theorem editKidsB_cons : ∀ (ks : List Tree) (cx : Ctx) (ne l : Length) (i : Nat) (T T' : List Nat)
      (S O N Ap Al : Nat),
      Chg T T' S O N → WFbL ks → ConsL T ks Al → Ap ≤ Al → S ≤ Al → Al ≤ T.length →
      cx.start = lenS T Ap S → cx.oldEnd = lenS T Ap O → l = lenS T Ap Al →
      cx.isPureInsertion = decide (cx.oldEnd.bytes = cx.start.bytes) → ne = cx.start →
      ConsL T' (editKids ks cx ne l i) (N + (Al - O))
    | [], _, _, _, _, _, _, _, _, _, _, _, _, _, _, _, _, _, _, _, _, _, _ => by
      unfold editKids; simp only [ConsL]
    | c :: rest, cx, ne, l, i, T, T', S, O, N, Ap, Al, hc, hw, hcons, hAp, hSl, hAlT, hs, ho, hl, hpure, hne => by
      subst hne
      have hso := hc.so; have hot := hc.ot; have hsn := hc.sn; have hlen := hc.len
      cases hw with
      | cons _ _ hwc hwr =>
      have hcons0 := hcons
      simp only [ConsL] at hcons
      obtain ⟨hcc, hcr⟩ := hcons
      obtain ⟨htot, htb⟩ := hcc.total
      have hsb : cx.start.bytes = S - Ap := by rw [hs]; exact lenS_bytes _ _ _ (by omega)
      have hob : cx.oldEnd.bytes = O - Ap := by rw [ho]; exact lenS_bytes _ _ _ (by omega)
      have hlb : l.bytes = Al - Ap := by rw [hl]; exact lenS_bytes _ _ _ (by omega)
      have hl' : length_add l c.totalSize = lenS T Ap (Al + tb c) := by
        rw [hl, htot, lenS_add T Ap Al (Al + tb c) hAp (by omega)]
      unfold editKids
      simp only [length_add_bytes, totalSize_bytes]
      split
      · rename_i hcont; exfalso; omega
      · split
        · rename_i hcont hstop
          have hbk := stopsAt_bytes _ _ _ _ _ hstop
          have hO : O ≤ Al := by rcases hbk with hbk | ⟨hb1, _, _⟩ <;> omega
          exact consL_shift hc (c :: rest) Al (WFbL.cons _ _ hwc hwr) hcons0 hO
        · rename_i hcont hstop
          have hx : length_saturating_sub cx.start l = lenS T Al S := by
            rw [hs, hl]; exact sat_lenS T Ap S Al hAp (by omega) (by omega)
          have ihr := editKidsB_cons rest cx cx.start (length_add l c.totalSize) (i + 1) T T' S O N Ap
            (Al + tb c) hc hwr hcr (by omega) (by omega) (by omega) hs ho hl' hpure rfl
          split
          · rename_i htake
            have hform : TForm T T' S O N Al (N + (Al - O))
                { start := length_saturating_sub cx.start l
                  old_end := length_saturating_sub cx.oldEnd l
                  new_end := length_saturating_sub cx.start l } :=
              ⟨hx,
               by rw [ho, hl]; exact sat_lenS T Ap O Al hAp (by omega) (by omega),
               by rw [hx, lenS_zero T Al S (by omega), lenS_zero T' (N + (Al - O)) N (by omega)],
               Or.inr ⟨hSl, rfl⟩⟩
            have it := editTree_cons c _ T T' S O N Al (N + (Al - O)) hc hwc hcc hform
            have hce : EditB { start := length_saturating_sub cx.start l
                               old_end := length_saturating_sub cx.oldEnd l
                               new_end := length_saturating_sub cx.start l } := by
              unfold EditB; simp only [length_saturating_sub_bytes]; omega
            obtain ⟨_, t2, t2', _⟩ := editTree_bytes c _ hwc hce
            unfold Takes at t2 t2'
            simp only [length_saturating_sub_bytes] at t2 t2'
            have htb' : N + (Al - O) + tb (editTree c { start := length_saturating_sub cx.start l
                                                        old_end := length_saturating_sub cx.oldEnd l
                                                        new_end := length_saturating_sub cx.start l })
                = N + (Al + tb c - O) := by
              by_cases hT : cx.start.bytes - l.bytes < tb c ∨
                  (cx.start.bytes - l.bytes = tb c ∧ cx.oldEnd.bytes - l.bytes = cx.start.bytes - l.bytes)
              · rw [t2 hT]; omega
              · rw [t2' hT]; omega
            simp only [ConsL]
            refine ⟨it, ?_⟩
            rw [htb']; exact ihr
          · rename_i htake
            rw [hpure] at htake
            simp only [decide_eq_true_eq] at htake
            have hx0 : length_saturating_sub cx.start l = lenS T Al Al := by
              rw [hx, lenS_zero T Al S (by omega), lenS_zero T Al Al (Nat.le_refl _)]
            have hform : TForm T T Al Al Al Al Al
                { start := length_saturating_sub cx.start l
                  old_end := length_saturating_sub cx.start l
                  new_end := length_saturating_sub cx.start l } :=
              ⟨hx0, hx0, hx0, Or.inl ⟨Nat.le_refl _, rfl⟩⟩
            have it := editTree_cons c _ T T Al Al Al Al Al (Chg.trivial T Al hAlT) hwc hcc hform
            obtain ⟨hwc', htbc⟩ := noop_tb c (length_saturating_sub cx.start l) hwc
            have h0 : tb c = 0 := by omega
            simp only [ConsL]
            refine ⟨cons_transport _ T T' Al (N + (Al - O)) hwc' it ?_ (by omega), ?_⟩
            · intro a b h1 h2 h3
              rw [lenS_zero T a b (by omega), lenS_zero T' _ _ (by omega)]
            · rw [htbc]
              have : N + (Al - O) + tb c = N + (Al + tb c - O) := by omega
              rw [this]; exact ihr
end


/-! ## Absolute positions with row/column, as the runtime computes them -/

mutual
  /-- Preorder list of the (content start, content end) positions of every node **as `Length`s**
  (bytes and row/column), computed the way the runtime does (`ts_node_start_point`, tree cursor):
  by `length_add`-ing relative lengths from the frame position `off`. -/
  def pts : Tree → Length → List (Length × Length)
    | .mk d ks, off =>
      (length_add off d.padding, length_add (length_add off d.padding) d.size) :: ptsL ks off
  def ptsL : List Tree → Length → List (Length × Length)
    | [], _ => []
    | c :: rest, off => pts c off ++ ptsL rest (length_add off c.totalSize)
end

def bytesOf (p : Length × Length) : Span := (p.1.bytes, p.2.bytes)

mutual
  theorem pts_bytes : ∀ (t : Tree) (off : Length), (pts t off).map bytesOf = spans t off.bytes
    | .mk d ks, off => by
      simp only [pts, spans, List.map_cons, bytesOf, length_add_bytes, ptsL_bytes ks off]
  theorem ptsL_bytes : ∀ (ks : List Tree) (off : Length), (ptsL ks off).map bytesOf = spansL ks off.bytes
    | [], _ => by simp only [ptsL, spansL, List.map_nil]
    | c :: rest, off => by
      simp only [ptsL, spansL, List.map_append, pts_bytes c off, ptsL_bytes rest (length_add off c.totalSize),
        length_add_bytes, totalSize_bytes]
end

/-- A position that is what the text says: its row/column is the extent of the text before it. -/
def AbsOK (T : List Nat) (x : Length) : Prop := x = lenS T 0 x.bytes ∧ x.bytes ≤ T.length

theorem AbsOK.of {T : List Nat} {x : Length} (m : Nat) (h : x = lenS T 0 m) (hm : m ≤ T.length) : AbsOK T x := by
  have hb : x.bytes = m := by rw [h, lenS_bytes T 0 m hm]; omega
  unfold AbsOK
  rw [hb]; exact ⟨h, hm⟩

theorem lenS_zero_eq_take (T : List Nat) (n : Nat) : lenS T 0 n = lengthOf (T.take n) := by
  unfold lenS slice
  simp only [List.drop_zero, Nat.sub_zero]

mutual
  theorem pts_cons : ∀ (t : Tree) (T : List Nat) (A : Nat) (off : Length), Cons T t A → off = lenS T 0 A →
      ∀ p ∈ pts t off, AbsOK T p.1 ∧ AbsOK T p.2 ∧ p.1.bytes ≤ p.2.bytes
    | .mk d ks, T, A, off, hc, hoff, p, hp => by
      simp only [Cons] at hc
      obtain ⟨⟨hb, hpd, hz⟩, hk⟩ := hc
      simp only [pts, List.mem_cons] at hp
      rcases hp with hp | hp
      · subst hp
        have e1 : length_add off d.padding = lenS T 0 (A + d.padding.bytes) := by
          rw [hoff]
          exact (congrArg (length_add (lenS T 0 A)) hpd).trans (lenS_add T 0 A _ (by omega) (by omega))
        have e2 : length_add (length_add off d.padding) d.size = lenS T 0 (A + d.padding.bytes + d.size.bytes) := by
          rw [e1]
          exact (congrArg (length_add (lenS T 0 (A + d.padding.bytes))) hz).trans
            (lenS_add T 0 _ _ (by omega) (by omega))
        exact ⟨AbsOK.of _ e1 (by omega), AbsOK.of _ e2 hb, by simp only [length_add_bytes]; omega⟩
      · exact ptsL_cons ks T A off hk hoff p hp
  theorem ptsL_cons : ∀ (ks : List Tree) (T : List Nat) (A : Nat) (off : Length), ConsL T ks A → off = lenS T 0 A →
      ∀ p ∈ ptsL ks off, AbsOK T p.1 ∧ AbsOK T p.2 ∧ p.1.bytes ≤ p.2.bytes
    | [], _, _, _, _, _, p, hp => by simp [ptsL] at hp
    | c :: rest, T, A, off, hc, hoff, p, hp => by
      simp only [ConsL] at hc
      simp only [ptsL, List.mem_append] at hp
      rcases hp with hp | hp
      · exact pts_cons c T A off hc.1 hoff p hp
      · refine ptsL_cons rest T (A + tb c) (length_add off c.totalSize) hc.2 ?_ p hp
        rw [hoff, hc.1.total.1, lenS_add T 0 A (A + tb c) (by omega) (by omega)]
end

theorem All2.of_map {α β γ δ : Type} {R : γ → δ → Prop} (f : α → γ) (g : β → δ) :
    ∀ (xs : List α) (us : List β), All2 R (xs.map f) (us.map g) → All2 (fun a b => R (f a) (g b)) xs us
  | [], [], _ => All2.nil
  | [], _ :: _, h => by cases h
  | _ :: _, [], h => by cases h
  | x :: xs, u :: us, h => by
    cases h with
    | cons h1 h2 => exact All2.cons h1 (All2.of_map f g xs us h2)

theorem All2.mono2 {α β : Type} {R S : α → β → Prop} {xs : List α} {us : List β}
    (h : All2 R xs us) (hRS : ∀ a b, a ∈ xs → b ∈ us → R a b → S a b) : All2 S xs us := by
  induction h with
  | nil => exact All2.nil
  | cons h _ ih =>
    refine All2.cons (hRS _ _ (by simp) (by simp) h) (ih ?_)
    intro a b ha hb; exact hRS a b (by simp [ha]) (by simp [hb])

/-! ## The Boolean checker is sound -/

mutual
  theorem consCheckAt_sound : ∀ (t : Tree) (T : List Nat) (A : Nat), A ≤ T.length →
      consCheckAt (T.drop A) t = true → Cons T t A
    | .mk d ks, T, A, hA, h => by
      simp only [consCheckAt, Bool.and_eq_true, decide_eq_true_eq, List.length_drop] at h
      obtain ⟨⟨⟨h1, h2⟩, h3⟩, h4⟩ := h
      simp only [Cons]
      refine ⟨⟨by omega, ?_, ?_⟩, consCheckAtL_sound ks T A hA h4⟩
      · refine h2.trans ?_
        unfold lenS slice
        rw [show A + d.padding.bytes - A = d.padding.bytes by omega]
      · refine h3.trans ?_
        unfold lenS slice
        rw [List.drop_drop,
          show A + d.padding.bytes + d.size.bytes - (A + d.padding.bytes) = d.size.bytes by omega]
  theorem consCheckAtL_sound : ∀ (ks : List Tree) (T : List Nat) (A : Nat), A ≤ T.length →
      consCheckAtL (T.drop A) ks = true → ConsL T ks A
    | [], _, _, _, _ => by simp only [ConsL]
    | c :: rest, T, A, hA, h => by
      simp only [consCheckAtL, Bool.and_eq_true] at h
      have hc := consCheckAt_sound c T A hA h.1
      simp only [ConsL]
      refine ⟨hc, consCheckAtL_sound rest T (A + tb c) hc.total.2 ?_⟩
      have := h.2
      rw [List.drop_drop] at this
      exact this
end


/-! ## The root edit and edit histories -/

/-- The root `Edit` describes the text change "replace bytes `[S, O)` of `T` by `ins`": its three
positions are the bytes *and the row/column* of `S`, `O` in the old text and `S + |ins|` in the new. -/
structure EditOK (T ins : List Nat) (S O : Nat) (e : Edit) : Prop where
  so : S ≤ O
  ot : O ≤ T.length
  start : e.start = lenS T 0 S
  old_end : e.old_end = lenS T 0 O
  new_end : e.new_end = lenS (splice T ins S O) 0 (S + ins.length)

theorem EditOK.bytes {T ins : List Nat} {S O : Nat} {e : Edit} (h : EditOK T ins S O e) :
    e.start.bytes = S ∧ e.old_end.bytes = O ∧ e.new_end.bytes = S + ins.length := by
  have := h.so; have := h.ot
  have hl := splice_length T ins S O h.so h.ot
  refine ⟨?_, ?_, ?_⟩
  · rw [h.start, lenS_bytes _ _ _ (by omega)]; omega
  · rw [h.old_end, lenS_bytes _ _ _ (by omega)]; omega
  · rw [h.new_end, lenS_bytes _ _ _ (by omega)]; omega

theorem EditOK.editB {T ins : List Nat} {S O : Nat} {e : Edit} (h : EditOK T ins S O e) : EditB e := by
  obtain ⟨h1, h2, h3⟩ := h.bytes
  have := h.so
  unfold EditB; omega

/-- One step of an edit history: the `Edit` handed to the tree and the text change it stands for. -/
structure TextEdit where
  e : Edit
  ins : List Nat
  S : Nat
  O : Nat

def applyText (T : List Nat) (x : TextEdit) : List Nat := splice T x.ins x.S x.O
def applyEdit (t : Tree) (x : TextEdit) : Tree := editTree t x.e

/-- Every edit of the history is `EditOK` w.r.t. the text current at that moment. -/
def HistOK : List Nat → List TextEdit → Prop
  | _, [] => True
  | T, x :: xs => EditOK T x.ins x.S x.O x.e ∧ HistOK (applyText T x) xs

/-- kept / shifted for one node with row/column: `p` = (start, end) before, `q` = after. -/
def RelP (T T' : List Nat) (S O N : Nat) (p q : Length × Length) : Prop :=
  ((p.2.bytes < S ∨ (p.2.bytes = S ∧ O ≠ S)) → q = p) ∧
  (O ≤ p.1.bytes →
    q.1.bytes = N + (p.1.bytes - O) ∧ q.2.bytes = N + (p.2.bytes - O) ∧
    q.1.extent = extent (T'.take q.1.bytes) ∧ q.2.extent = extent (T'.take q.2.bytes) ∧
    slice T' q.1.bytes q.2.bytes = slice T p.1.bytes p.2.bytes)

end TsVerif.C10
