import TsVerif.C10.Model
import TsVerif.Common.LengthAlgebra
/-!
# C10 judge and correspondence, evaluated on dumps of real trees

`corr` compares the model's `editTree before e` with the implementation's `after` dump field by
field; `judge` decides the property's clauses on the implementation's `after` dump alone (given
the before dump, the edit and the two texts).  The same definitions are used by the theorems.
-/
namespace TsVerif.C10
open TsGen TsVerif

/-- Fields that `ts_subtree_edit` may change or must preserve, compared between model and real. -/
def sameNode (a b : NodeData) : Bool :=
  a.symbol == b.symbol && decide (a.padding = b.padding) && decide (a.size = b.size) &&
  a.lookahead == b.lookahead && a.parseState == b.parseState && a.visible == b.visible &&
  a.named == b.named && a.extra == b.extra && a.hasChanges == b.hasChanges &&
  a.isMissing == b.isMissing && a.isKeyword == b.isKeyword && a.fragileLeft == b.fragileLeft &&
  a.fragileRight == b.fragileRight && a.hasExternalTokens == b.hasExternalTokens &&
  a.dependsOnColumn == b.dependsOnColumn && a.isInline == b.isInline && a.errorCost == b.errorCost

mutual
  /-- First path (child indices, reversed) at which two trees differ on `sameNode`, if any. -/
  def diffTree (a b : Tree) (path : List Nat) : Option (List Nat) :=
    match a, b with
    | .mk da ka, .mk db kb =>
      if !sameNode da db then some path
      else diffKids ka kb path 0
  def diffKids (ka kb : List Tree) (path : List Nat) (i : Nat) : Option (List Nat) :=
    match ka, kb with
    | [], [] => none
    | a :: ra, b :: rb =>
      match diffTree a b (i :: path) with
      | some p => some p
      | none => diffKids ra rb path (i + 1)
    | _, _ => some (i :: path)
end

/-- Position of byte offset `i` in `text` obtained by counting newlines (10). -/
def posOf (text : Array Nat) (i : Nat) : TSPoint := Id.run do
  let mut row := 0
  let mut col := 0
  for k in [0:i] do
    if text.getD k 0 == 10 then
      row := row + 1
      col := 0
    else
      col := col + 1
  return { row := row, column := col }

/-- The position map φ of an edit on lengths: identity before `start`, shift from `old_end` on. -/
def phi (e : Edit) (x : Length) : Length :=
  length_add e.new_end (length_sub x e.old_end)

structure Stats where
  nodes : Nat := 0
  kept : Nat := 0
  shifted : Nat := 0
  touched : Nat := 0
  fail : Option String := none
  deriving Repr

def Stats.bad (s : Stats) (msg : String) : Stats :=
  match s.fail with
  | some _ => s
  | none => { s with fail := some msg }

def sliceEq (t1 : Array Nat) (a1 : Nat) (t2 : Array Nat) (a2 : Nat) (n : Nat) : Bool := Id.run do
  for k in [0:n] do
    if t1.getD (a1 + k) 256 != t2.getD (a2 + k) 257 then return false
  return true

mutual
  /-- Walk the before tree and the implementation's after tree in lock step.
  `off`/`off'` are the absolute positions (as `Length`) where the node's padding starts;
  `anc` says whether some ancestor was required to be marked. Returns stats and whether this
  subtree contained a touched node (so the caller can demand marks on ancestors). -/
  def judgeTree (e : Edit) (text text' : Array Nat) (t t' : Tree) (off off' : Length) (st : Stats) : Stats × Bool :=
    match t, t' with
    | .mk d kids, .mk d' kids' =>
      let a := length_add off d.padding
      let b := length_add a d.size
      let c := b.bytes + d.lookahead
      let a' := length_add off' d'.padding
      let b' := length_add a' d'.size
      let st := { st with nodes := st.nodes + 1 }
      -- shape
      let st := if d.symbol != d'.symbol || kids.length != kids'.length || d.lookahead != d'.lookahead
                   || d.visible != d'.visible || d.named != d'.named || d.extra != d'.extra
                   || d.isMissing != d'.isMissing
                then st.bad s!"shape changed at node starting at byte {a.bytes}" else st
      let pure := e.old_end.bytes == e.start.bytes
      let noop := pure && e.new_end.bytes == e.start.bytes
      -- ends before the change: keeps its byte and row/column range
      let st :=
        if b.bytes < e.start.bytes || (b.bytes == e.start.bytes && !pure) then
          let st := { st with kept := st.kept + 1 }
          if decide (a' = a) && decide (b' = b) then st
          else st.bad s!"node [{a.bytes},{b.bytes}) ends before the change but moved to [{a'.bytes},{b'.bytes}) rows {a'.extent.row}:{a'.extent.column}"
        else st
      -- starts after the change: shifted by φ, same characters, correct row/column
      let st :=
        if a.bytes ≥ e.old_end.bytes && !noop && !(b.bytes < e.start.bytes || (b.bytes == e.start.bytes && !pure)) then
          let st := { st with shifted := st.shifted + 1 }
          let ea := phi e a
          let eb := phi e b
          if a'.bytes != ea.bytes || b'.bytes != eb.bytes then
            st.bad s!"node [{a.bytes},{b.bytes}) starts after the change; expected bytes [{ea.bytes},{eb.bytes}) got [{a'.bytes},{b'.bytes})"
          else if !(sliceEq text a.bytes text' a'.bytes (b.bytes - a.bytes)) then
            st.bad s!"node [{a.bytes},{b.bytes}) no longer covers the same characters"
          else if decide (a'.extent ≠ posOf text' a'.bytes) || decide (b'.extent ≠ posOf text' b'.bytes) then
            st.bad s!"node at new bytes [{a'.bytes},{b'.bytes}) has row/column {a'.extent.row}:{a'.extent.column}-{b'.extent.row}:{b'.extent.column}, text says {(posOf text' a'.bytes).row}:{(posOf text' a'.bytes).column}-{(posOf text' b'.bytes).row}:{(posOf text' b'.bytes).column}"
          else st
        else st
      -- overlaps the change (or its look-ahead does): has_changes
      let touched := !noop && a.bytes < e.old_end.bytes && e.start.bytes < c
      let touched := touched || (!noop && pure && a.bytes < e.start.bytes && e.start.bytes < c)
      let st := if touched then { st with touched := st.touched + 1 } else st
      let (st, below) := judgeKids e text text' kids kids' off off' st false
      let must := touched || below
      let st := if must && !d'.hasChanges then
                  st.bad s!"node [{a.bytes},{b.bytes}) look-ahead end {c} overlaps the change (or a descendant does) but has_changes is false"
                else st
      (st, must)
  def judgeKids (e : Edit) (text text' : Array Nat) (ks ks' : List Tree) (off off' : Length) (st : Stats) (acc : Bool) : Stats × Bool :=
    match ks, ks' with
    | k :: rest, k' :: rest' =>
      let (st, m) := judgeTree e text text' k k' off off' st
      judgeKids e text text' rest rest' (length_add off k.totalSize) (length_add off' k'.totalSize) st (acc || m)
    | _, _ => (st, acc)
end


/-! ## The theorems' hypothesis, decided on real trees -/

def tbJ (t : Tree) : Nat := t.data.padding.bytes + t.data.size.bytes

mutual
  /-- Decidable version of `WFb` (Bytes.lean): every inner node's padding is its first child's
  padding and its total is the sum of its children's totals (byte dimension). -/
  def wfbCheck : Tree → Bool
    | .mk _ [] => true
    | .mk d (k :: ks) =>
      wfbCheck k && wfbCheckL ks && d.padding.bytes == k.data.padding.bytes &&
        d.padding.bytes + d.size.bytes == tbJ k + sumTJ ks
  def wfbCheckL : List Tree → Bool
    | [] => true
    | t :: ts => wfbCheck t && wfbCheckL ts
  def sumTJ : List Tree → Nat
    | [] => 0
    | t :: ts => tbJ t + sumTJ ts
end


mutual
  /-- Decidable version of `LaOK` (Marks.lean): no child's look-ahead end exceeds its parent's. -/
  def laokCheck : Tree → Bool
    | .mk d ks => laokCheckL ks 0 (d.padding.bytes + d.size.bytes + d.lookahead)
  def laokCheckL : List Tree → Nat → Nat → Bool
    | [], _, _ => true
    | c :: rest, l, B =>
      laokCheck c && decide (l + tbJ c + c.data.lookahead ≤ B) && laokCheckL rest (l + tbJ c) B
end

/-- The byte a stored position moves to under the property's mapping (the statement of
`range_edit_eq_phi`, written out): at or after the old end it is shifted, strictly inside the replaced
text it collapses to the start, up to the start it stays. -/
def movedByte (b : Nat) (e : TSInputEdit) : Nat :=
  if b ≥ e.old_end_byte then e.new_end_byte + (b - e.old_end_byte)
  else if b > e.start_byte then e.start_byte else b

/-- Where `ts_range_edit` puts a range END at 32 bits: an open end (`UINT32_MAX`) stays open, a shifted
end that no longer fits 32 bits becomes the open end (the C code's wrap-around test), otherwise
`movedByte`. -/
def movedEndSat (b : Nat) (e : TSInputEdit) : Nat :=
  if b ≥ e.old_end_byte then
    if b = 4294967295 then 4294967295
    else if e.new_end_byte + (b - e.old_end_byte) ≥ 4294967296 then 4294967295
    else e.new_end_byte + (b - e.old_end_byte)
  else if b > e.start_byte then e.start_byte else b

/-- … and a range START (no open-end exemption: only the wrap-around test). -/
def movedStartSat (b : Nat) (e : TSInputEdit) : Nat :=
  if b ≥ e.old_end_byte then
    if e.new_end_byte + (b - e.old_end_byte) ≥ 4294967296 then 4294967295
    else e.new_end_byte + (b - e.old_end_byte)
  else if b > e.start_byte then e.start_byte else b

/-- Judge for the tree's stored included ranges (property text: "the tree's stored included ranges move
by the same mapping"): same number of ranges, and for every 32-bit range both byte ends are the moved
bytes of `range_edit_sat` (open ends stay open, overflow saturates to the open end), and an open end keeps
its end point.  Returns the index of the first offending range. -/
def rangesJudge (old new : List TSRange) (e : TSInputEdit) : Option Nat :=
  if old.length ≠ new.length then some old.length else
  let rec go : List TSRange → List TSRange → Nat → Option Nat
    | r :: rs, n :: ns, i =>
      -- both byte ends, for every 32-bit range and edit (open ends, sentinels and overflow included)
      if r.start_byte < 4294967296 ∧ r.end_byte < 4294967296 ∧ e.new_end_byte < 4294967296 ∧
         (n.end_byte ≠ movedEndSat r.end_byte e ∨ n.start_byte ≠ movedStartSat r.start_byte e) then some i
      -- an OPEN end (`UINT32_MAX`, "to the end of the document") also keeps its end point
      else if r.end_byte = 4294967295 ∧ e.start_byte ≤ e.old_end_byte ∧ e.old_end_byte < 4294967296 ∧
         e.new_end_byte + r.start_byte < 4294967296 ∧ n.end_point ≠ r.end_point then some i
      else go rs ns (i + 1)
    | _, _, _ => none
  go old new 0


end TsVerif.C10

/-! ## Row/column consistency with a text, decided on real trees (hypothesis of `edit_consistent`) -/
namespace TsVerif.C10
open TsGen TsVerif

mutual
  /-- `R` is the text from the node's frame (start of its padding) on.  Every stored padding/size is
  the `lengthOf` (bytes, newline-counted row/column) of the bytes it covers; children sit at
  consecutive frames. -/
  def consCheckAt (R : List Nat) : Tree → Bool
    | .mk d ks =>
      decide (d.padding.bytes + d.size.bytes ≤ R.length) &&
      decide (d.padding = lengthOf (R.take d.padding.bytes)) &&
      decide (d.size = lengthOf ((R.drop d.padding.bytes).take d.size.bytes)) &&
      consCheckAtL R ks
  def consCheckAtL (R : List Nat) : List Tree → Bool
    | [] => true
    | c :: rest => consCheckAt R c && consCheckAtL (R.drop (tbJ c)) rest
end

/-- Decidable version of `Cons T t A` (Text.lean): the subtree `t` whose padding starts at absolute
byte `A` of text `T` stores exactly the row/column extents that counting newlines in `T` gives. -/
def consCheck (T : List Nat) (t : Tree) (A : Nat) : Bool :=
  decide (A ≤ T.length) && consCheckAt (T.drop A) t

/-- Decidable version of `EditOK` (Points.lean) given the old text `T` and the new text `T2`: the
edit's byte offsets describe how `T2` arises from `T`, and its three points are the newline-counted
row/column of those offsets (start, old end in `T`; new end in `T2`). -/
def editOKCheck (T T2 : List Nat) (e : Edit) : Bool :=
  decide (e.start.bytes ≤ e.old_end.bytes) && decide (e.old_end.bytes ≤ T.length) &&
  decide (e.start.bytes ≤ e.new_end.bytes) && decide (e.new_end.bytes ≤ T2.length) &&
  decide (T2 = T.take e.start.bytes ++ (T2.drop e.start.bytes).take (e.new_end.bytes - e.start.bytes)
                ++ T.drop e.old_end.bytes) &&
  decide (e.start = lengthOf (T.take e.start.bytes)) &&
  decide (e.old_end = lengthOf (T.take e.old_end.bytes)) &&
  decide (e.new_end = lengthOf (T2.take e.new_end.bytes))

end TsVerif.C10
