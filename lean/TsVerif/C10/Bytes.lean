import TsVerif.C10.Lemmas
/-!
# C10 — the edit preserves byte tiling (main induction)

`WFb t`: in the byte dimension every inner node's padding equals its first child's padding and
its total (padding + size) equals the sum of its children's totals — what
`ts_subtree_summarize_children` establishes and what makes absolute positions well defined.
-/
namespace TsVerif.C10
open TsGen TsVerif

mutual
  inductive WFb : Tree → Prop
    | leaf (d : NodeData) : WFb (.mk d [])
    | node (d : NodeData) (k : Tree) (ks : List Tree) :
        WFb k → WFbL ks → d.padding.bytes = k.data.padding.bytes →
        d.padding.bytes + d.size.bytes = sumT (k :: ks) → WFb (.mk d (k :: ks))
  inductive WFbL : List Tree → Prop
    | nil : WFbL []
    | cons (t : Tree) (ts : List Tree) : WFb t → WFbL ts → WFbL (t :: ts)
end

theorem stopsAt_bytes (cx : Ctx) (cl cs : Length) (i : Nat) (b : Bool)
    (h : stopsAt cx cl cs i b = true) :
    cl.bytes > cx.oldEnd.bytes ∨ (cl.bytes = cx.oldEnd.bytes ∧ cs.bytes > 0 ∧ i > 0) := by
  unfold stopsAt at h
  simp only [Bool.and_eq_true, Bool.or_eq_true, decide_eq_true_eq] at h
  obtain ⟨⟨h1, _⟩, _⟩ := h
  rcases h1 with h1 | ⟨⟨h1, h2⟩, h3⟩
  · exact Or.inl h1
  · exact Or.inr ⟨h1, h2, h3⟩

/-- The edit seen by the child loop, as an `Edit`. -/
def kidsEdit (cx : Ctx) (ne : Length) : Edit := { start := cx.start, old_end := cx.oldEnd, new_end := ne }

@[simp] theorem sumT_cons (c : Tree) (rest : List Tree) : sumT (c :: rest) = tb c + sumT rest := rfl
@[simp] theorem sumT_nil : sumT [] = 0 := rfl

theorem tb_mk (d : NodeData) (ks : List Tree) : tb (.mk d ks) = d.padding.bytes + d.size.bytes := rfl

/-- Result statement for a whole subtree. -/
def TreeGoal (t : Tree) (e : Edit) : Prop :=
  WFb (editTree t e) ∧
  (Takes (tb t) e → tb (editTree t e) = e.new_end.bytes + (tb t - e.old_end.bytes)) ∧
  (¬ Takes (tb t) e → tb (editTree t e) = tb t) ∧
  (editTree t e).data.padding.bytes = padB t.data.padding.bytes e

/-- The child-loop condition "some child takes the edit", in closed form. -/
def KTakes (cx : Ctx) (l : Nat) (S : Nat) : Prop :=
  cx.start.bytes < l + S ∨ (cx.start.bytes = l + S ∧ cx.oldEnd.bytes = cx.start.bytes)

set_option maxHeartbeats 1600000 in
mutual
  theorem editTree_bytes : ∀ (t : Tree) (e : Edit), WFb t → EditB e → TreeGoal t e
    | .mk d [], e, _, he => by
      unfold TreeGoal
      have hp := reshape_pad_bytes d.padding d.size e
      obtain ⟨ht1, ht2⟩ := reshape_total_bytes d.padding d.size e he
      obtain ⟨pb1, pb2, pb3⟩ := padB_cases d.padding.bytes e
      obtain ⟨h1, h2⟩ := he
      unfold editTree
      simp only [length_add_bytes]
      split
      · rename_i hr
        refine ⟨WFb.leaf _, ?_, ?_, ?_⟩
        · simp only [tb_mk]; unfold Takes; intro hT; omega
        · intro _; rfl
        · simp only [Tree.data]
          by_cases c1 : e.old_end.bytes ≤ d.padding.bytes
          · rw [pb1 c1]; omega
          · by_cases c2 : e.start.bytes < d.padding.bytes
            · rw [pb2 c1 c2]; omega
            · rw [pb3 c1 c2]
      · refine ⟨?_, ?_, ?_, ?_⟩
        · simp only [editKids]; exact WFb.leaf _
        · simp only [tb_mk, store_padding_bytes, store_size_bytes]; exact ht1
        · simp only [tb_mk, store_padding_bytes, store_size_bytes]; exact ht2
        · simp only [Tree.data, store_padding_bytes]; exact hp
    | .mk d (k :: ks), e, hw, he => by
      unfold TreeGoal
      have hp := reshape_pad_bytes d.padding d.size e
      obtain ⟨ht1, ht2⟩ := reshape_total_bytes d.padding d.size e he
      obtain ⟨pb1, pb2, pb3⟩ := padB_cases d.padding.bytes e
      cases hw with
      | node _ _ _ hk hks hpad hsum =>
      obtain ⟨h1, h2⟩ := he
      unfold editTree
      simp only [length_add_bytes]
      split
      · rename_i hr
        refine ⟨WFb.node _ _ _ hk hks hpad hsum, ?_, ?_, ?_⟩
        · simp only [tb_mk]; unfold Takes; intro hT; omega
        · intro _; rfl
        · simp only [Tree.data]
          by_cases c1 : e.old_end.bytes ≤ d.padding.bytes
          · rw [pb1 c1]; omega
          · by_cases c2 : e.start.bytes < d.padding.bytes
            · rw [pb2 c1 c2]; omega
            · rw [pb3 c1 c2]
      · rename_i hr
        -- the child loop
        have hK := editKidsA_bytes (k :: ks)
          { parentDependsOnColumn := d.dependsOnColumn
            columnShifted := decide (e.new_end.extent.column ≠ e.old_end.extent.column)
            isPureInsertion := decide (e.old_end.bytes = e.start.bytes)
            padding := (reshape d.padding d.size e).1, oldEnd := e.old_end, start := e.start }
          e.new_end length_zero 0 (WFbL.cons _ _ hk hks) h1 rfl h2 (by simp) (by intro _; exact ⟨rfl, by simp⟩)
        obtain ⟨hw', hs1, hs2, hfirst⟩ := hK
        obtain ⟨k', rest', hres, hkpad⟩ := hfirst rfl (by simp) k ks rfl
        simp only [kidsEdit] at hkpad
        unfold KTakes at hs1 hs2
        simp only [length_zero_bytes, Nat.zero_add, Nat.sub_zero] at hs1 hs2
        rw [hres] at hw' hs1 hs2 ⊢
        cases hw' with
        | cons _ _ hwk hwr =>
        unfold Takes at ht1 ht2
        refine ⟨WFb.node _ _ _ hwk hwr ?_ ?_, ?_, ?_, ?_⟩
        · simp only [store_padding_bytes, hp, hkpad, hpad]
        · simp only [store_padding_bytes, store_size_bytes]
          by_cases hc : e.start.bytes < sumT (k :: ks) ∨ (e.start.bytes = sumT (k :: ks) ∧ e.old_end.bytes = e.start.bytes)
          · rw [hs1 hc, ht1 (by omega)]; omega
          · rw [hs2 hc, ht2 (by omega)]; omega
        · simp only [tb_mk, store_padding_bytes, store_size_bytes]; unfold Takes; exact ht1
        · simp only [tb_mk, store_padding_bytes, store_size_bytes]; unfold Takes; exact ht2
        · simp only [Tree.data, store_padding_bytes]; exact hp

  /-- Child loop before the inserted text has been attributed to a child. -/
  theorem editKidsA_bytes : ∀ (ks : List Tree) (cx : Ctx) (ne l : Length) (i : Nat),
      WFbL ks → cx.start.bytes ≤ cx.oldEnd.bytes →
      cx.isPureInsertion = decide (cx.oldEnd.bytes = cx.start.bytes) →
      cx.start.bytes ≤ ne.bytes → l.bytes ≤ cx.start.bytes →
      ((l.bytes = cx.start.bytes ∧ cx.oldEnd.bytes = cx.start.bytes) → i = 0 ∧ ks ≠ []) →
      WFbL (editKids ks cx ne l i) ∧
      (KTakes cx l.bytes (sumT ks) →
        sumT (editKids ks cx ne l i) = (ne.bytes - l.bytes) + ((l.bytes + sumT ks) - cx.oldEnd.bytes)) ∧
      (¬ KTakes cx l.bytes (sumT ks) → sumT (editKids ks cx ne l i) = sumT ks) ∧
      (i = 0 → l.bytes = 0 → ∀ k rest, ks = k :: rest →
        ∃ k' rest', editKids ks cx ne l i = k' :: rest' ∧
          k'.data.padding.bytes = padB k.data.padding.bytes (kidsEdit cx ne))
    | [], cx, ne, l, i, _, hso, hpure, hsn, hls, hinv => by
      refine ⟨by unfold editKids; exact WFbL.nil, ?_, ?_, ?_⟩
      · unfold KTakes editKids
        simp only [sumT_nil, Nat.add_zero]
        intro hc
        exfalso
        rcases hc with hc | ⟨hc1, hc2⟩
        · omega
        · have := hinv ⟨by omega, hc2⟩
          exact this.2 rfl
      · intro _; unfold editKids; rfl
      · intro _ _ k rest h; cases h
    | c :: rest, cx, ne, l, i, hw, hso, hpure, hsn, hls, hinv => by
      cases hw with
      | cons _ _ hc hrest =>
      have hpadle : c.data.padding.bytes ≤ tb c := by unfold tb; omega
      obtain ⟨pb1, pb2, pb3⟩ := padB_cases c.data.padding.bytes (kidsEdit cx ne)
      simp only [kidsEdit] at pb1 pb2 pb3
      unfold editKids
      simp only [length_add_bytes, totalSize_bytes]
      split
      · -- child ends (with look-ahead) before the edit: untouched
        rename_i hcont
        have ih := editKidsA_bytes rest cx ne (length_add l c.totalSize) (i + 1) hrest hso hpure hsn
          (by simp; omega) (by simp; omega)
        obtain ⟨ih1, ih2, ih3, _⟩ := ih
        unfold KTakes at ih2 ih3 ⊢
        simp only [length_add_bytes, totalSize_bytes] at ih2 ih3
        refine ⟨WFbL.cons _ _ hc ih1, ?_, ?_, ?_⟩
        · intro hk; simp only [sumT_cons] at hk ⊢; rw [ih2 (by omega)]; omega
        · intro hk; simp only [sumT_cons] at hk ⊢; rw [ih3 (by omega)]
        · intro hi hl k r hk
          cases hk
          refine ⟨c, _, rfl, ?_⟩
          simp only [kidsEdit]
          rw [pb3 (by omega) (by omega)]
      · split
        · -- break: cannot happen before the insertion is attributed
          rename_i hcont hstop
          have hb := stopsAt_bytes _ _ _ _ _ hstop
          exfalso
          rcases hb with hb | ⟨hb1, hb2, hb3⟩
          · omega
          · have := hinv ⟨by omega, by omega⟩
            omega
        · rename_i hcont hstop
          split
          · -- this child takes the edit
            rename_i htake
            rw [hpure] at htake
            simp only [decide_eq_true_eq] at htake
            have hce : EditB { start := length_saturating_sub cx.start l
                               old_end := length_saturating_sub cx.oldEnd l
                               new_end := length_saturating_sub ne l } := by
              unfold EditB; simp; omega
            obtain ⟨t1, t2, _, t3⟩ := editTree_bytes c _ hc hce
            have ihr := editKidsB_bytes rest cx cx.start (length_add l c.totalSize) (i + 1) hrest hso hpure
              rfl (by simp; omega)
            obtain ⟨r1, r2⟩ := ihr
            unfold Takes at t2
            simp only [length_saturating_sub_bytes, length_add_bytes, totalSize_bytes] at t2 r2
            unfold KTakes
            refine ⟨WFbL.cons _ _ t1 r1, ?_, ?_, ?_⟩
            · intro _; simp only [sumT_cons]; rw [t2 (by omega), r2]; omega
            · intro hk; simp only [sumT_cons] at hk; exfalso; omega
            · intro hi hl k r hk
              cases hk
              refine ⟨_, _, rfl, ?_⟩
              rw [t3]
              unfold padB kidsEdit
              simp only [length_saturating_sub_bytes, hl, Nat.sub_zero]
          · -- child lies before the edit: it only gets marked
            rename_i htake
            rw [hpure] at htake
            simp only [decide_eq_true_eq] at htake
            have hce : EditB { start := length_saturating_sub cx.start l
                               old_end := length_saturating_sub cx.start l
                               new_end := length_saturating_sub cx.start l } := by
              unfold EditB; simp
            obtain ⟨t1, t2, t2', t3⟩ := editTree_bytes c _ hc hce
            have ihr := editKidsA_bytes rest cx ne (length_add l c.totalSize) (i + 1) hrest hso hpure hsn
              (by simp; omega) (by simp; omega)
            obtain ⟨r1, r2, r3, _⟩ := ihr
            unfold Takes at t2 t2'
            unfold KTakes at r2 r3 ⊢
            simp only [length_saturating_sub_bytes, length_add_bytes, totalSize_bytes] at t2 t2' r2 r3
            have htb : tb (editTree c { start := length_saturating_sub cx.start l
                                        old_end := length_saturating_sub cx.start l
                                        new_end := length_saturating_sub cx.start l }) = tb c := by
              by_cases hx : cx.start.bytes - l.bytes < tb c ∨ (cx.start.bytes - l.bytes = tb c ∧ True)
              · rw [t2 hx]; omega
              · exact t2' hx
            refine ⟨WFbL.cons _ _ t1 r1, ?_, ?_, ?_⟩
            · intro hk; simp only [sumT_cons] at hk ⊢; rw [htb, r2 (by omega)]; omega
            · intro hk; simp only [sumT_cons] at hk ⊢; rw [htb, r3 (by omega)]
            · intro hi hl k r hk
              cases hk
              refine ⟨_, _, rfl, ?_⟩
              rw [t3]
              obtain ⟨q1, q2, q3⟩ := padB_cases c.data.padding.bytes
                { start := length_saturating_sub cx.start l
                  old_end := length_saturating_sub cx.start l
                  new_end := length_saturating_sub cx.start l }
              simp only [length_saturating_sub_bytes, hl, Nat.sub_zero] at q1 q2 q3
              simp only [kidsEdit]
              by_cases c1 : cx.start.bytes ≤ c.data.padding.bytes
              · rw [q1 c1]
                by_cases d1 : cx.oldEnd.bytes ≤ c.data.padding.bytes
                · rw [pb1 d1]; omega
                · by_cases d2 : cx.start.bytes < c.data.padding.bytes
                  · omega
                  · rw [pb3 d1 d2]; omega
              · rw [q3 c1 (by omega), pb3 (by omega) (by omega)]

  /-- Child loop after the inserted text has been attributed (`edit.new_end = edit.start`). -/
  theorem editKidsB_bytes : ∀ (ks : List Tree) (cx : Ctx) (ne l : Length) (i : Nat),
      WFbL ks → cx.start.bytes ≤ cx.oldEnd.bytes →
      cx.isPureInsertion = decide (cx.oldEnd.bytes = cx.start.bytes) →
      ne = cx.start → l.bytes ≥ cx.start.bytes →
      WFbL (editKids ks cx ne l i) ∧
      sumT (editKids ks cx ne l i) = sumT ks - (cx.oldEnd.bytes - l.bytes)
    | [], cx, ne, l, i, _, _, _, _, _ => by
      unfold editKids; exact ⟨WFbL.nil, by simp [sumT]⟩
    | c :: rest, cx, ne, l, i, hw, hso, hpure, hne, hls => by
      subst hne
      cases hw with
      | cons _ _ hc hrest =>
      unfold editKids
      simp only [length_add_bytes, totalSize_bytes]
      split
      · rename_i hcont; exfalso; omega
      · split
        · rename_i hcont hstop
          have hb := stopsAt_bytes _ _ _ _ _ hstop
          refine ⟨WFbL.cons _ _ hc hrest, ?_⟩
          rcases hb with hb | ⟨hb1, _, _⟩ <;> omega
        · rename_i hcont hstop
          have ihr := editKidsB_bytes rest cx cx.start (length_add l c.totalSize) (i + 1) hrest hso hpure rfl
            (by simp; omega)
          obtain ⟨r1, r2⟩ := ihr
          simp only [length_add_bytes, totalSize_bytes] at r2
          split
          · rename_i htake
            have hce : EditB { start := length_saturating_sub cx.start l
                               old_end := length_saturating_sub cx.oldEnd l
                               new_end := length_saturating_sub cx.start l } := by
              unfold EditB; simp; omega
            obtain ⟨t1, t2, t2', _⟩ := editTree_bytes c _ hc hce
            unfold Takes at t2 t2'
            simp only [length_saturating_sub_bytes] at t2 t2'
            refine ⟨WFbL.cons _ _ t1 r1, ?_⟩
            simp only [sumT_cons, r2]
            by_cases hx : cx.start.bytes - l.bytes < tb c ∨
                (cx.start.bytes - l.bytes = tb c ∧ cx.oldEnd.bytes - l.bytes = cx.start.bytes - l.bytes)
            · rw [t2 hx]; omega
            · rw [t2' hx]; omega
          · rename_i htake
            have hce : EditB { start := length_saturating_sub cx.start l
                               old_end := length_saturating_sub cx.start l
                               new_end := length_saturating_sub cx.start l } := by
              unfold EditB; simp
            obtain ⟨t1, t2, t2', _⟩ := editTree_bytes c _ hc hce
            unfold Takes at t2 t2'
            simp only [length_saturating_sub_bytes] at t2 t2'
            refine ⟨WFbL.cons _ _ t1 r1, ?_⟩
            simp only [sumT_cons, r2]
            by_cases hx : cx.start.bytes - l.bytes < tb c ∨ (cx.start.bytes - l.bytes = tb c ∧ True)
            · rw [t2 hx]; omega
            · rw [t2' hx]; omega
end

end TsVerif.C10
