import TsVerif.C10.Model
/-!
# C10 — byte-dimension lemmas about the port of `ts_subtree_edit`
-/
namespace TsVerif.C10
open TsGen TsVerif

@[simp] theorem length_add_bytes (a b : Length) : (length_add a b).bytes = a.bytes + b.bytes := by
  simp [length_add]

@[simp] theorem length_sub_bytes (a b : Length) : (length_sub a b).bytes = a.bytes - b.bytes := by
  simp only [length_sub]
  split <;> omega

@[simp] theorem length_zero_bytes : length_zero.bytes = 0 := by simp [length_zero]

@[simp] theorem length_saturating_sub_bytes (a b : Length) :
    (length_saturating_sub a b).bytes = a.bytes - b.bytes := by
  unfold length_saturating_sub
  split
  · simp
  · simp; omega

/-- Total bytes of a subtree (padding + size). -/
def tb (t : Tree) : Nat := t.data.padding.bytes + t.data.size.bytes

def sumT : List Tree → Nat
  | [] => 0
  | t :: ts => tb t + sumT ts

@[simp] theorem totalSize_bytes (t : Tree) : t.totalSize.bytes = tb t := by
  simp [Tree.totalSize, tb]

/-- Byte-level padding after an edit. -/
def padB (p : Nat) (e : Edit) : Nat :=
  if e.old_end.bytes ≤ p then e.new_end.bytes + (p - e.old_end.bytes)
  else if e.start.bytes < p then e.new_end.bytes else p

/-- The node (or child) "takes" the edit: the edit starts inside it, or is a pure insertion at its end. -/
def Takes (T : Nat) (e : Edit) : Prop :=
  e.start.bytes < T ∨ (e.start.bytes = T ∧ e.old_end.bytes = e.start.bytes)

instance (T : Nat) (e : Edit) : Decidable (Takes T e) := by unfold Takes; infer_instance

/-- Edits whose three byte offsets are ordered the way `EditOK` says. -/
def EditB (e : Edit) : Prop := e.start.bytes ≤ e.old_end.bytes ∧ e.start.bytes ≤ e.new_end.bytes

theorem reshape_pad_bytes (p z : Length) (e : Edit) :
    (reshape p z e).1.bytes = padB p.bytes e := by
  unfold reshape padB
  simp only [length_add_bytes]
  split
  · simp
  · split
    · simp
    · split <;> simp

theorem reshape_total_bytes (p z : Length) (e : Edit) (he : EditB e) :
    (Takes (p.bytes + z.bytes) e →
      (reshape p z e).1.bytes + (reshape p z e).2.bytes = e.new_end.bytes + ((p.bytes + z.bytes) - e.old_end.bytes)) ∧
    (¬ Takes (p.bytes + z.bytes) e →
      (reshape p z e).1.bytes + (reshape p z e).2.bytes = p.bytes + z.bytes) := by
  obtain ⟨h1, h2⟩ := he
  constructor
  · intro hT
    unfold Takes at hT
    unfold reshape
    simp only [length_add_bytes]
    split
    · simp only [length_add_bytes, length_sub_bytes]; omega
    · split
      · simp only [length_saturating_sub_bytes, length_sub_bytes]; omega
      · simp only [length_add_bytes, length_sub_bytes, length_saturating_sub_bytes]; omega
  · intro hT
    unfold Takes at hT
    unfold reshape
    simp only [length_add_bytes]
    split
    · simp only [length_add_bytes, length_sub_bytes]; omega
    · split
      · simp only [length_saturating_sub_bytes, length_sub_bytes]; omega
      · rfl

theorem padB_cases (p : Nat) (e : Edit) :
    (e.old_end.bytes ≤ p → padB p e = e.new_end.bytes + (p - e.old_end.bytes)) ∧
    (¬ e.old_end.bytes ≤ p → e.start.bytes < p → padB p e = e.new_end.bytes) ∧
    (¬ e.old_end.bytes ≤ p → ¬ e.start.bytes < p → padB p e = p) := by
  unfold padB
  refine ⟨?_, ?_, ?_⟩
  · intro h; simp [h]
  · intro h1 h2; simp [h1, h2]
  · intro h1 h2; simp [h1, h2]

@[simp] theorem store_padding_bytes (d : NodeData) (p z : Length) : (store d p z).padding.bytes = p.bytes := by
  unfold store
  split
  · split <;> rfl
  · rfl

@[simp] theorem store_size_bytes (d : NodeData) (p z : Length) : (store d p z).size.bytes = z.bytes := by
  unfold store
  split
  · split <;> rfl
  · rfl

end TsVerif.C10
