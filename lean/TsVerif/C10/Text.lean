import TsVerif.C10.Bytes
import TsVerif.Common.LengthAlgebra
/-!
# C10 — trees that are consistent with a text (row/column dimension): definitions and text lemmas

`slice T a b` is the byte range `[a, b)` of the text `T`; `lenS T a b` its `Length` (bytes and the
row/column extent obtained by counting newlines — `lengthOf` of Common/LengthAlgebra.lean).
`Cons T t A`: the subtree `t` whose frame (start of its padding) is at absolute byte `A` of `T`
stores, in every node, exactly the padding/size `Length`s that the text gives.
`Chg T T' S O N`: `T'` is `T` with the bytes `[S, O)` replaced by `N - S` new bytes.
-/
namespace TsVerif.C10
open TsGen TsVerif

def slice (T : List Nat) (a b : Nat) : List Nat := (T.drop a).take (b - a)

def lenS (T : List Nat) (a b : Nat) : Length := lengthOf (slice T a b)

theorem slice_append (T : List Nat) (a b c : Nat) (h1 : a ≤ b) (h2 : b ≤ c) :
    slice T a b ++ slice T b c = slice T a c := by
  unfold slice
  have h : c - a = (b - a) + (c - b) := by omega
  rw [h, List.take_add, List.drop_drop]
  have : a + (b - a) = b := by omega
  rw [this]

theorem slice_empty (T : List Nat) (a b : Nat) (h : b ≤ a) : slice T a b = [] := by
  unfold slice
  have : b - a = 0 := by omega
  rw [this]; rfl

theorem slice_length (T : List Nat) (a b : Nat) (h : b ≤ T.length) : (slice T a b).length = b - a := by
  unfold slice
  simp only [List.length_take, List.length_drop]
  omega

theorem lengthOf_nil : lengthOf [] = length_zero := rfl

theorem lenS_add (T : List Nat) (a b c : Nat) (h1 : a ≤ b) (h2 : b ≤ c) :
    length_add (lenS T a b) (lenS T b c) = lenS T a c := by
  unfold lenS
  rw [← lengthOf_append, slice_append T a b c h1 h2]

theorem lenS_sub (T : List Nat) (a b c : Nat) (h1 : a ≤ b) (h2 : b ≤ c) :
    length_sub (lenS T a c) (lenS T a b) = lenS T b c := by
  unfold lenS
  rw [← slice_append T a b c h1 h2, lengthOf_sub_prefix]

theorem lenS_zero (T : List Nat) (a b : Nat) (h : b ≤ a) : lenS T a b = length_zero := by
  unfold lenS
  rw [slice_empty T a b h]; rfl

theorem lenS_bytes (T : List Nat) (a b : Nat) (h : b ≤ T.length) : (lenS T a b).bytes = b - a := by
  unfold lenS lengthOf
  exact slice_length T a b h

theorem length_sub_zero (a : Length) : length_sub a length_zero = a := by
  cases a with
  | mk b e =>
    cases e with
    | mk r c =>
      simp only [length_sub, length_zero, point_sub, point__new]
      by_cases hr : r > 0
      · simp [hr]
      · have : r = 0 := by omega
        subst this
        simp

/-- `length_saturating_sub` on two positions measured from the same origin `A`: the text between
them (empty when they are in the other order). -/
theorem sat_lenS (T : List Nat) (A x y : Nat) (hy : A ≤ y) (hyT : y ≤ T.length) (hxT : x ≤ T.length) :
    length_saturating_sub (lenS T A x) (lenS T A y) = lenS T y x := by
  unfold length_saturating_sub
  rw [lenS_bytes T A x hxT, lenS_bytes T A y hyT]
  by_cases h : x - A > y - A
  · rw [if_pos h]
    exact lenS_sub T A y x hy (by omega)
  · rw [if_neg h]
    exact (lenS_zero T y x (by omega)).symm

/-! ## Newline-free text: column = bytes (what makes the inline representation faithful) -/

theorem extent_row_zero_col (xs : List Nat) : (extent xs).row = 0 → (extent xs).column = xs.length := by
  induction xs with
  | nil => intro _; rfl
  | cons b bs ih =>
    simp only [extent, List.length_cons]
    by_cases hb : b = 10
    · simp [hb]
    · simp only [hb, if_false]
      by_cases h0 : (extent bs).row = 0
      · simp only [h0, if_true]
        intro _
        rw [ih h0]
      · simp only [h0, if_false]
        intro h; exact h.elim

theorem lengthOf_inline (xs : List Nat) (h : (lengthOf xs).extent.row = 0) :
    ({ bytes := (lengthOf xs).bytes, extent := { row := 0, column := (lengthOf xs).bytes } } : Length) = lengthOf xs := by
  unfold lengthOf at *
  simp only at h ⊢
  have hc := extent_row_zero_col xs h
  cases he : extent xs with
  | mk r c =>
    rw [he] at h hc
    simp only at h hc
    subst h; subst hc; rfl

/-- `store` keeps a text-derived size text-derived (inline leaves drop the extent only when it is
recoverable from the byte count). -/
theorem store_size_lengthOf (d : NodeData) (p : Length) (xs : List Nat) :
    (store d p (lengthOf xs)).size = lengthOf xs := by
  unfold store
  split
  · split
    · rename_i _ hc
      have hrow : (lengthOf xs).extent.row = 0 := by
        unfold ts_subtree_can_inline at hc
        simp only [decide_eq_true_eq] at hc
        exact hc.1.1.2
      exact lengthOf_inline xs hrow
    · rfl
  · rfl

theorem store_padding (d : NodeData) (p z : Length) : (store d p z).padding = p := by
  unfold store
  split
  · split <;> rfl
  · rfl

/-! ## Consistency of a tree with a text -/

/-- One node: padding and size are what the text says, and the node lies inside the text. -/
def NodeCons (T : List Nat) (A : Nat) (p z : Length) : Prop :=
  A + p.bytes + z.bytes ≤ T.length ∧
  p = lenS T A (A + p.bytes) ∧
  z = lenS T (A + p.bytes) (A + p.bytes + z.bytes)

theorem NodeCons.of {T : List Nat} {A : Nat} {p z : Length} (P E : Nat)
    (hp : p = lenS T A P) (hz : z = lenS T P E) (h1 : A ≤ P) (h2 : P ≤ E) (h3 : E ≤ T.length) :
    NodeCons T A p z := by
  have hpb : p.bytes = P - A := by rw [hp]; exact lenS_bytes T A P (by omega)
  have hzb : z.bytes = E - P := by rw [hz]; exact lenS_bytes T P E h3
  have e1 : A + p.bytes = P := by omega
  have e2 : A + p.bytes + z.bytes = E := by omega
  unfold NodeCons
  rw [e2, e1]
  exact ⟨h3, hp, hz⟩

mutual
  /-- `Cons T t A`: every node of `t` (frame at absolute byte `A`) stores the text's extents. -/
  def Cons (T : List Nat) : Tree → Nat → Prop
    | .mk d ks, A => NodeCons T A d.padding d.size ∧ ConsL T ks A
  def ConsL (T : List Nat) : List Tree → Nat → Prop
    | [], _ => True
    | c :: rest, A => Cons T c A ∧ ConsL T rest (A + tb c)
end

theorem Cons.total {T : List Nat} {t : Tree} {A : Nat} (h : Cons T t A) :
    t.totalSize = lenS T A (A + tb t) ∧ A + tb t ≤ T.length := by
  cases t with
  | mk d ks =>
    simp only [Cons] at h
    obtain ⟨⟨hb, hp, hz⟩, _⟩ := h
    refine ⟨?_, by simp only [tb_mk]; omega⟩
    simp only [Tree.totalSize, Tree.data, tb_mk]
    rw [show A + (d.padding.bytes + d.size.bytes) = A + d.padding.bytes + d.size.bytes by omega]
    rw [← lenS_add T A (A + d.padding.bytes) (A + d.padding.bytes + d.size.bytes) (by omega) (by omega)]
    rw [← hp, ← hz]

/-! ## The text change -/

/-- `T'` is `T` with `[S, O)` replaced by `N − S` bytes: the texts agree below `S`, and `T'` from
`N` on is `T` from `O` on. -/
structure Chg (T T' : List Nat) (S O N : Nat) : Prop where
  so : S ≤ O
  ot : O ≤ T.length
  sn : S ≤ N
  len : T'.length = N + (T.length - O)
  below : ∀ a b, b ≤ S → lenS T' a b = lenS T a b
  above : ∀ x y, lenS T' (N + x) (N + y) = lenS T (O + x) (O + y)

theorem slice_eq_drop_take (T : List Nat) (a b : Nat) : slice T a b = (T.take b).drop a := by
  unfold slice
  rw [List.drop_take]

/-- The text after replacing the bytes `[S, O)` of `T` by `ins`. -/
def splice (T ins : List Nat) (S O : Nat) : List Nat := T.take S ++ ins ++ T.drop O

theorem splice_length (T ins : List Nat) (S O : Nat) (h1 : S ≤ O) (h2 : O ≤ T.length) :
    (splice T ins S O).length = S + ins.length + (T.length - O) := by
  unfold splice
  simp only [List.length_append, List.length_take, List.length_drop]; omega

/-- Below the start of the change the two texts have the same bytes. -/
theorem slice_splice_below (T ins : List Nat) (S O a b : Nat) (h2 : O ≤ T.length) (h1 : S ≤ O) (hb : b ≤ S) :
    slice (splice T ins S O) a b = slice T a b := by
  unfold splice
  rw [slice_eq_drop_take, slice_eq_drop_take]
  have : (T.take S ++ ins ++ T.drop O).take b = T.take b := by
    rw [List.append_assoc, List.take_append_of_le_length (by simp only [List.length_take]; omega),
      List.take_take]
    congr 1; omega
  rw [this]

/-- From the new end on, the new text has the bytes the old text has from the old end on. -/
theorem slice_splice_above (T ins : List Nat) (S O x y : Nat) (h1 : S ≤ O) (h2 : O ≤ T.length) :
    slice (splice T ins S O) (S + ins.length + x) (S + ins.length + y) = slice T (O + x) (O + y) := by
  have hlenP : (T.take S ++ ins).length = S + ins.length := by
    simp only [List.length_append, List.length_take]; omega
  unfold splice slice
  have hd : (T.take S ++ ins ++ T.drop O).drop (S + ins.length + x) = T.drop (O + x) := by
    rw [← hlenP, List.drop_append, List.drop_drop]
    have e : (T.take S ++ ins).length + x - (T.take S ++ ins).length = x := by omega
    rw [e, List.drop_of_length_le (by omega), List.nil_append]
  rw [hd]
  congr 1
  omega

theorem Chg.of_splice (T ins : List Nat) (S O : Nat) (h1 : S ≤ O) (h2 : O ≤ T.length) :
    Chg T (splice T ins S O) S O (S + ins.length) := by
  refine ⟨h1, h2, by omega, ?_, ?_, ?_⟩
  · rw [splice_length T ins S O h1 h2]
  · intro a b hb
    unfold lenS
    rw [slice_splice_below T ins S O a b h2 h1 hb]
  · intro x y
    unfold lenS
    rw [slice_splice_above T ins S O x y h1 h2]

theorem Chg.trivial (T : List Nat) (S : Nat) (h : S ≤ T.length) : Chg T T S S S :=
  ⟨Nat.le_refl _, h, Nat.le_refl _, by omega, fun _ _ _ => rfl, fun _ _ => rfl⟩

/-- `below`, in rewriting form with side goals for `omega`. -/
theorem Chg.below_eq {T T' : List Nat} {S O N : Nat} (hc : Chg T T' S O N) (a b : Nat) (hb : b ≤ S) :
    lenS T a b = lenS T' a b := (hc.below a b hb).symm

/-- `above`, in rewriting form with side goals for `omega`. -/
theorem Chg.above_eq {T T' : List Nat} {S O N : Nat} (hc : Chg T T' S O N) (a b a' b' : Nat)
    (ha : O ≤ a) (ha' : a' = N + (a - O)) (hb' : b' = N + (b - O)) :
    lenS T a b = lenS T' a' b' := by
  subst ha'; subst hb'
  by_cases hb : O ≤ b
  · rw [hc.above]
    congr 1 <;> omega
  · rw [lenS_zero T a b (by omega), lenS_zero T' _ _ (by omega)]

theorem Chg.len_le {T T' : List Nat} {S O N : Nat} (hc : Chg T T' S O N) : N ≤ T'.length := by
  have := hc.len; omega

end TsVerif.C10
