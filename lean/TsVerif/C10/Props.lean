import TsVerif.C10.Judge
import TsVerif.C10.Move
import TsVerif.C10.Marks
import TsVerif.C10.Points
import TsVerif.Common.LengthAlgebra
/-!
# C10 — Editing a tree keeps every untouched node in sync with the new text

Property text (properties.jsonl): after the tree-edit call for a text change, every node that ends
before the change keeps its byte and row/column range, every node that starts after the change is
shifted so that it covers the same characters in the new text with the correct row/column, every
node that overlaps the change (or whose look-ahead does) reports has_changes, as do all its
ancestors; the stand-alone point/range/node edit functions and the stored included ranges move by
the same mapping; for all trees, all edits with start ≤ old end, all sequences of such edits.

Clause → theorem map (model = `editTree`, the port of `ts_subtree_edit`, tied to the C code by the
correspondence check on dumps of real subtrees; helpers are the *generated* definitions):

* shape is never changed .................................. `edit_shape`
* "ends before ⇒ keeps range", "starts after ⇒ shifted by φ" (byte dimension, every node, in
  absolute coordinates, for ALL trees that tile in bytes and ALL edits) ... `edit_kept_shifted_bytes`
* the edited tree still tiles, and its length is the new text's length .... `edit_preserves_tiling`
* … for every finite sequence of edits without re-parsing .................. `edits_preserve_tiling`
* reached subtree is marked / unreached subtree is the very same value .... `edit_marks_root`,
  `edit_untouched_same`
* stand-alone helpers and stored ranges move by the same map φ ............. `point_edit_eq_phi`,
  `range_edit_eq_phi` (closed ranges), `range_edit_open_end` (open end `UINT32_MAX` stays open),
  `range_edit_sat` (every 32-bit range: open ends and overflow saturate to the open end);
  the tree's STORED ranges: `treeEdit` maps `ts_range_edit` over them, and the judge applied to the
  real tree's ranges accepts exactly that ........ `rangesJudge_model`;
  `ts_node_edit` is `ts_point_edit` on the node's start (three assignments in node.c): not ported,
  its real results are compared with the generated `ts_point_edit` and judged against φ and the new
  text on every explored node (helper lines `hn`) — judged, not proved

Boundary conventions fixed here (read off the C code): the change is the half-open byte interval
[start, old_end), a pure insertion being the point `start`; a node whose content ends exactly at
`start` keeps its range unless the edit is a pure insertion there (then it may grow); a node
whose content starts at or after `old_end` is shifted (also for a pure insertion exactly at its
start).  * touched (incl. via look-ahead) ⇒ has_changes, for every node incl. ancestors ........ `edit_marks`

* row/column arithmetic the edit relies on (over the generated point/length definitions): monoid laws,
  cancellation `length_sub (length_add a b) a = b`, and `extent (x ++ y) = point_add (extent x) (extent y)`
  for the newline-counting text model ........ `TsVerif.point_add_assoc`, `point_sub_add_cancel`,
  `length_sub_add_cancel`, `extent_append`, `lengthOf_sub_prefix` (Common/LengthAlgebra.lean)

* row/column dimension at tree level (Text.lean, Points.lean): a tree consistent with the old text
  (`Cons T t 0`: every stored padding/size is the newline-counted extent of the bytes it covers) is,
  after `editTree` with an edit whose points are the row/column of its bytes (`EditOK`), consistent
  with the new text ................................................ `edit_consistent`
  … for every finite history of such edits ......................... `edits_consistent`
  positions obtained by adding relative lengths down from the root are the text's ... `cons_points`
  kept ⇒ same start/end *points*; shifted ⇒ new bytes φ(old), same characters, and start/end
  row/column = `extent (T'.take byte)` in the new text ............... `edit_kept_shifted_points`
  the hypotheses `Cons` / `EditOK` are decided on every real case by `consCheck` / `editOKCheck`
  ................................................ `consCheck_sound`, `editOKCheck_sound`
-/
namespace TsVerif.C10
open TsGen TsVerif

/-- What `ts_subtree_edit` may not change in a node. -/
def sameShapeData (a b : NodeData) : Prop :=
  a.symbol = b.symbol ∧ a.lookahead = b.lookahead ∧ a.parseState = b.parseState ∧
  a.visible = b.visible ∧ a.named = b.named ∧ a.extra = b.extra ∧ a.isMissing = b.isMissing ∧
  a.isKeyword = b.isKeyword

mutual
  inductive SameShape : Tree → Tree → Prop
    | mk {d d' : NodeData} {ks ks' : List Tree} :
        sameShapeData d d' → SameShapeL ks ks' → SameShape (.mk d ks) (.mk d' ks')
  inductive SameShapeL : List Tree → List Tree → Prop
    | nil : SameShapeL [] []
    | cons {t t' : Tree} {ts ts' : List Tree} : SameShape t t' → SameShapeL ts ts' → SameShapeL (t :: ts) (t' :: ts')
end

theorem sameShapeData_store (d : NodeData) (p s : Length) : sameShapeData d (store d p s) := by
  unfold store sameShapeData
  split
  · split <;> simp
  · simp

mutual
  theorem SameShape.refl : ∀ t : Tree, SameShape t t
    | .mk d ks => .mk (by simp [sameShapeData]) (SameShapeL.refl ks)
  theorem SameShapeL.refl : ∀ ts : List Tree, SameShapeL ts ts
    | [] => .nil
    | t :: ts => .cons (SameShape.refl t) (SameShapeL.refl ts)
end

mutual
  /-- `edit_shape`: editing never changes the shape of a tree (same paths, symbols, look-ahead,
  parse states and all flags other than `has_changes` / the inline promotion). -/
  theorem edit_shape : ∀ (t : Tree) (e : Edit), SameShape t (editTree t e)
    | .mk d ks, e => by
      unfold editTree
      simp only
      split
      · exact SameShape.refl _
      · exact .mk (sameShapeData_store _ _ _) (editKids_shape ks _ _ _ _)
  theorem editKids_shape : ∀ (ks : List Tree) (cx : Ctx) (ne cr : Length) (i : Nat),
      SameShapeL ks (editKids ks cx ne cr i)
    | [], _, _, _, _ => by unfold editKids; exact .nil
    | c :: rest, cx, ne, cr, i => by
      unfold editKids
      simp only
      split
      · exact .cons (SameShape.refl _) (editKids_shape rest _ _ _ _)
      · split
        · exact SameShapeL.refl _
        · split
          · exact .cons (edit_shape c _) (editKids_shape rest _ _ _ _)
          · exact .cons (edit_shape c _) (editKids_shape rest _ _ _ _)
end

end TsVerif.C10

namespace TsVerif.C10
open TsGen TsVerif

/-- The byte/point pair as a `Length`. -/
def mkLen (b : Nat) (p : TSPoint) : Length := { bytes := b, extent := p }

/-- `point_edit_eq_phi`: the stand-alone point edit moves a position at or after the old end by
the same map φ that the judge (and `editTree`) use, keeps positions up to `start`, and collapses
positions inside the replaced text to the new end. -/
theorem point_edit_eq_phi (p : TSPoint) (b : Nat) (e : TSInputEdit) :
    (b ≥ e.old_end_byte → ts_point_edit p b e =
        ((phi (Edit.ofInput e) (mkLen b p)).extent, (phi (Edit.ofInput e) (mkLen b p)).bytes)) ∧
    (b ≤ e.start_byte → b < e.old_end_byte → ts_point_edit p b e = (p, b)) ∧
    (e.start_byte < b → b < e.old_end_byte → ts_point_edit p b e = (e.new_end_point, e.new_end_byte)) := by
  refine ⟨?_, ?_, ?_⟩
  · intro h
    simp [ts_point_edit, phi, Edit.ofInput, mkLen, length_add, length_sub, h]
  · intro h1 h2
    have h3 : ¬ (b ≥ e.old_end_byte) := by omega
    have h4 : ¬ (b > e.start_byte) := by omega
    simp [ts_point_edit, h3, h4]
  · intro h1 h2
    have h3 : ¬ (b ≥ e.old_end_byte) := by omega
    simp [ts_point_edit, h3, h1]

/-- `range_edit_eq_phi` (byte dimension, no sentinel/overflow): both ends of a stored range move
like `ts_point_edit` moves a byte offset. -/
theorem range_edit_eq_phi (r : TSRange) (e : TSInputEdit)
    (hs : r.start_byte ≤ r.end_byte) (hmax : r.end_byte < 4294967295)
    (hno : e.new_end_byte + r.end_byte < 4294967296)
    (hedit : e.start_byte ≤ e.old_end_byte) :
    (ts_range_edit r e).end_byte =
      (if r.end_byte ≥ e.old_end_byte then e.new_end_byte + (r.end_byte - e.old_end_byte)
       else if r.end_byte > e.start_byte then e.start_byte else r.end_byte) ∧
    (ts_range_edit r e).start_byte =
      (if r.start_byte ≥ e.old_end_byte then e.new_end_byte + (r.start_byte - e.old_end_byte)
       else if r.start_byte > e.start_byte then e.start_byte else r.start_byte) := by
  have hne : r.end_byte ≠ 4294967295 := by omega
  have w1 : r.end_byte ≥ e.old_end_byte →
      (e.new_end_byte + (r.end_byte + 4294967296 - e.old_end_byte) % 4294967296) % 4294967296
        = e.new_end_byte + (r.end_byte - e.old_end_byte) := by intro h; omega
  have w2 : r.start_byte ≥ e.old_end_byte →
      (e.new_end_byte + (r.start_byte + 4294967296 - e.old_end_byte) % 4294967296) % 4294967296
        = e.new_end_byte + (r.start_byte - e.old_end_byte) := by intro h; omega
  have n1 : ∀ x, ¬ (e.new_end_byte + x < e.new_end_byte) := by intro x; omega
  unfold ts_range_edit
  by_cases h1 : r.end_byte ≥ e.old_end_byte <;> by_cases h2 : r.end_byte > e.start_byte <;>
    by_cases h3 : r.start_byte ≥ e.old_end_byte <;> by_cases h4 : r.start_byte > e.start_byte <;>
    simp [h1, h2, h3, h4, hne, w1, w2, n1] <;> (try omega)

/-- First phase of `ts_range_edit`: the END of the range. -/
def rangeEditEnd (range : TSRange) (edit : TSInputEdit) : TSRange :=
  if (range.end_byte ≥ edit.old_end_byte) then
    if (range.end_byte ≠ 4294967295) then
      let range := { range with end_byte := ((edit.new_end_byte + ((range.end_byte + 4294967296 - edit.old_end_byte) % 4294967296)) % 4294967296) }
      let range := { range with end_point := (point_add edit.new_end_point (point_sub range.end_point edit.old_end_point)) }
      if (range.end_byte < edit.new_end_byte) then
        let range := { range with end_byte := 4294967295 }
        let range := { range with end_point := POINT_MAX }
        range
      else
        range
    else
      range
  else
    if (range.end_byte > edit.start_byte) then
      let range := { range with end_byte := edit.start_byte }
      let range := { range with end_point := edit.start_point }
      range
    else
      range

/-- Second phase of `ts_range_edit`: the START of the range. -/
def rangeEditStart (range : TSRange) (edit : TSInputEdit) : TSRange :=
  if (range.start_byte ≥ edit.old_end_byte) then
    let range := { range with start_byte := ((edit.new_end_byte + ((range.start_byte + 4294967296 - edit.old_end_byte) % 4294967296)) % 4294967296) }
    let range := { range with start_point := (point_add edit.new_end_point (point_sub range.start_point edit.old_end_point)) }
    if (range.start_byte < edit.new_end_byte) then
      let range := { range with start_byte := 4294967295 }
      let range := { range with start_point := POINT_MAX }
      range
    else
      range
  else
    if (range.start_byte > edit.start_byte) then
      let range := { range with start_byte := edit.start_byte }
      let range := { range with start_point := edit.start_point }
      range
    else
      range

theorem range_edit_phases (r : TSRange) (e : TSInputEdit) :
    ts_range_edit r e = rangeEditStart (rangeEditEnd r e) e := rfl

theorem rangeEditStart_end (x : TSRange) (e : TSInputEdit) : (rangeEditStart x e).end_byte = x.end_byte := by
  unfold rangeEditStart; dsimp only
  repeat' split
  all_goals rfl

theorem rangeEditEnd_start (x : TSRange) (e : TSInputEdit) : (rangeEditEnd x e).start_byte = x.start_byte := by
  unfold rangeEditEnd; dsimp only
  repeat' split
  all_goals rfl

theorem rangeEditEnd_end (x : TSRange) (e : TSInputEdit)
    (he : x.end_byte < 4294967296) (hn : e.new_end_byte < 4294967296) :
    (rangeEditEnd x e).end_byte = movedEndSat x.end_byte e := by
  unfold rangeEditEnd movedEndSat
  dsimp only
  repeat' split
  all_goals simp_all
  all_goals omega

theorem rangeEditStart_start (x : TSRange) (e : TSInputEdit)
    (hs : x.start_byte < 4294967296) (hn : e.new_end_byte < 4294967296) :
    (rangeEditStart x e).start_byte = movedStartSat x.start_byte e := by
  unfold rangeEditStart movedStartSat
  dsimp only
  repeat' split
  all_goals simp_all
  all_goals omega

/-- `range_edit_sat`: the byte ends of `ts_range_edit` for EVERY 32-bit range and edit (including
open ends, `UINT32_MAX` sentinels and shifts that overflow 32 bits): the end moves by `movedEndSat`,
the start by `movedStartSat`.  Contains `range_edit_eq_phi` and the byte part of
`range_edit_open_end`; the stand-alone helper (also through the Rust binding's
`InputEdit::edit_range`) and `ts_tree_edit`'s stored ranges are both judged against it. -/
theorem range_edit_sat (r : TSRange) (e : TSInputEdit)
    (hs : r.start_byte < 4294967296) (he : r.end_byte < 4294967296)
    (hn : e.new_end_byte < 4294967296) :
    (ts_range_edit r e).end_byte = movedEndSat r.end_byte e ∧
    (ts_range_edit r e).start_byte = movedStartSat r.start_byte e :=
  by
  rw [range_edit_phases, rangeEditStart_end, rangeEditEnd_end r e he hn,
    rangeEditStart_start _ e (by rw [rangeEditEnd_start]; exact hs) hn, rangeEditEnd_start]
  exact ⟨rfl, rfl⟩

/-- `range_edit_open_end`: a range whose end is open (`UINT32_MAX`, the default "to the end of the
document" range of every tree parsed without explicit ranges) keeps its open end and end point under
every edit, and its start moves like any other position. -/
theorem range_edit_open_end (r : TSRange) (e : TSInputEdit)
    (hopen : r.end_byte = 4294967295) (_hedit : e.start_byte ≤ e.old_end_byte)
    (hoe : e.old_end_byte < 4294967296) (hno : e.new_end_byte + r.start_byte < 4294967296) :
    (ts_range_edit r e).end_byte = 4294967295 ∧ (ts_range_edit r e).end_point = r.end_point ∧
    (ts_range_edit r e).start_byte =
      (if r.start_byte ≥ e.old_end_byte then e.new_end_byte + (r.start_byte - e.old_end_byte)
       else if r.start_byte > e.start_byte then e.start_byte else r.start_byte) := by
  have h1 : e.old_end_byte ≤ 4294967295 := by omega
  have w2 : r.start_byte ≥ e.old_end_byte →
      (e.new_end_byte + (r.start_byte + 4294967296 - e.old_end_byte) % 4294967296) % 4294967296
        = e.new_end_byte + (r.start_byte - e.old_end_byte) := by intro h; omega
  have n1 : ∀ x, ¬ (e.new_end_byte + x < e.new_end_byte) := by intro x; omega
  unfold ts_range_edit
  by_cases h3 : r.start_byte ≥ e.old_end_byte <;> by_cases h4 : r.start_byte > e.start_byte <;>
    simp [h1, hopen, h3, h4, w2, n1] <;> (try omega)

/-- `rangesJudge` never rejects what `ts_range_edit` computes (so a rejection is a deviation of the
implementation from the proved mapping, not of the judge from the model). -/
theorem rangesJudge_model (rs : List TSRange) (e : TSInputEdit) :
    rangesJudge rs (rs.map (ts_range_edit · e)) e = none := by
  unfold rangesJudge
  simp only [List.length_map, ne_eq, not_true_eq_false, if_false]
  suffices h : ∀ i, rangesJudge.go e rs (rs.map (ts_range_edit · e)) i = none from h 0
  induction rs with
  | nil => intro i; simp [rangesJudge.go]
  | cons r rs ih =>
    intro i
    simp only [List.map_cons, rangesJudge.go]
    rw [if_neg, if_neg]
    · exact ih (i + 1)
    · rintro ⟨h1, h2, h3, h4, h5⟩
      exact h5 (range_edit_open_end r e h1 h2 h3 h4).2.1
    · rintro ⟨h1, h2, h3, h5⟩
      have := range_edit_sat r e h1 h2 h3
      rcases h5 with h5 | h5
      · exact h5 this.1
      · exact h5 this.2

/-- A subtree that the edit reaches is marked: the root of `editTree t e` has `has_changes`
unless the edit starts beyond the node's look-ahead end (or is a no-op at that end). -/
theorem edit_marks_root (d : NodeData) (ks : List Tree) (e : Edit)
    (h : ¬ (e.start.bytes > (length_add d.padding d.size).bytes + d.lookahead ∨
        ((e.old_end.bytes = e.start.bytes ∧ e.new_end.bytes = e.start.bytes) ∧
          e.start.bytes = (length_add d.padding d.size).bytes + d.lookahead))) :
    (editTree (.mk d ks) e).data.hasChanges = true := by
  unfold editTree
  simp only [h, if_false, Tree.data]
  unfold store
  split
  · split <;> rfl
  · rfl

/-- …and a subtree the edit does not reach is returned unchanged (the very same value). -/
theorem edit_untouched_same (d : NodeData) (ks : List Tree) (e : Edit)
    (h : e.start.bytes > (length_add d.padding d.size).bytes + d.lookahead) :
    editTree (.mk d ks) e = .mk d ks := by
  unfold editTree
  simp only
  rw [if_pos (Or.inl h)]

-- non-vacuity: a concrete edit satisfying the hypotheses of `range_edit_eq_phi`
example : let r : TSRange := { start_point := ⟨0, 2⟩, end_point := ⟨0, 9⟩, start_byte := 2, end_byte := 9 }
    let e : TSInputEdit := { start_byte := 1, old_end_byte := 3, new_end_byte := 6,
                             start_point := ⟨0,1⟩, old_end_point := ⟨0,3⟩, new_end_point := ⟨0,6⟩ }
    r.start_byte ≤ r.end_byte ∧ r.end_byte < 4294967295 ∧ e.new_end_byte + r.end_byte < 4294967296 ∧
    (ts_range_edit r e).start_byte = 1 ∧ (ts_range_edit r e).end_byte = 12 := by decide


/-- **kept / shifted (bytes)** — for every tree that tiles in bytes (`WFb`, which the judge checks on
every real tree) and every edit with start ≤ old_end, start ≤ new_end: pairing the nodes of the
tree before and after the edit in preorder, every node satisfies `Rel`: if its content ends before
`start` (or at `start` and the edit is not a pure insertion) its byte span is unchanged; if its
content starts at or after `old_end` its span is moved by φ(x) = new_end + (x − old_end). -/
theorem edit_kept_shifted_bytes (t : Tree) (e : Edit) (hw : WFb t) (he : EditB e) :
    All2 (Rel e.start.bytes e.old_end.bytes e.new_end.bytes) (spans t 0) (spans (editTree t e) 0) :=
  editTree_moves t e hw he

/-- **tiling is preserved** and the total length follows the text: if the edit lies inside the
tree (old_end ≤ total) the new total is new_end + (total − old_end) = |new text|. -/
theorem edit_preserves_tiling (t : Tree) (e : Edit) (hw : WFb t) (he : EditB e)
    (hin : e.old_end.bytes ≤ tb t) :
    WFb (editTree t e) ∧ tb (editTree t e) = e.new_end.bytes + (tb t - e.old_end.bytes) := by
  obtain ⟨h1, h2, h3, _⟩ := editTree_bytes t e hw he
  refine ⟨h1, ?_⟩
  by_cases hT : Takes (tb t) e
  · exact h2 hT
  · rw [h3 hT]
    unfold Takes at hT
    unfold EditB at he
    omega

/-- **all finite edit histories**: any sequence of byte-ordered edits keeps the tree tiling. -/
theorem edits_preserve_tiling (es : List Edit) (t : Tree) (hw : WFb t) (hes : ∀ e ∈ es, EditB e) :
    WFb (es.foldl editTree t) := by
  induction es generalizing t with
  | nil => simpa using hw
  | cons e es ih =>
    simp only [List.foldl_cons]
    apply ih
    · exact (editTree_bytes t e hw (hes e (by simp))).1
    · intro e' he'; exact hes e' (by simp [he'])

-- non-vacuity: a concrete two-level tree that tiles, and an edit inside its second leaf
private def nd (p z la : Nat) : NodeData :=
  { (default : NodeData) with padding := ⟨p, ⟨0, p⟩⟩, size := ⟨z, ⟨0, z⟩⟩, lookahead := la }
private def exTree : Tree := .mk (nd 1 6 0) [.mk (nd 1 2 1) [], .mk (nd 1 3 0) []]
private def exEdit : Edit := { start := ⟨5, ⟨0, 5⟩⟩, old_end := ⟨6, ⟨0, 6⟩⟩, new_end := ⟨9, ⟨0, 9⟩⟩ }
example : WFb exTree :=
  WFb.node _ _ _ (WFb.leaf _) (WFbL.cons _ _ (WFb.leaf _) WFbL.nil) rfl rfl
example : EditB exEdit ∧ exEdit.old_end.bytes ≤ tb exTree := by unfold EditB; decide
example : spans exTree 0 = [(1, 7), (1, 3), (4, 7)] ∧
    spans (editTree exTree exEdit) 0 = [(1, 10), (1, 3), (4, 10)] := by decide


theorem sumTJ_eq (ks : List Tree) : sumTJ ks = sumT ks := by
  induction ks with
  | nil => rfl
  | cons k ks ih => simp only [sumTJ, sumT_cons, ih]; rfl

mutual
  /-- The Boolean check the driver runs on every real tree implies the theorems' hypothesis. -/
  theorem wfbCheck_sound : ∀ t : Tree, wfbCheck t = true → WFb t
    | .mk d [], _ => WFb.leaf d
    | .mk d (k :: ks), h => by
      simp only [wfbCheck, Bool.and_eq_true, beq_iff_eq] at h
      obtain ⟨⟨⟨h1, h2⟩, h3⟩, h4⟩ := h
      refine WFb.node d k ks (wfbCheck_sound k h1) (wfbCheckL_sound ks h2) h3 ?_
      rw [h4, sumTJ_eq]; rfl
  theorem wfbCheckL_sound : ∀ ts : List Tree, wfbCheckL ts = true → WFbL ts
    | [], _ => WFbL.nil
    | t :: ts, h => by
      simp only [wfbCheckL, Bool.and_eq_true] at h
      exact WFbL.cons t ts (wfbCheck_sound t h.1) (wfbCheckL_sound ts h.2)
end


/-- **touched ⇒ has_changes** — for every tree that tiles in bytes (`WFb`) and whose look-ahead
ends are monotone (`LaOK`), and every edit with start ≤ old_end: pairing nodes before/after in
preorder, every non-empty node (frame start < look-ahead end) whose extended span
`[content start, content end + lookahead_bytes)` meets the change (`a < old_end ∧ start < c`) has
`has_changes = true` in the edited tree.  Since a touched node's ancestors are touched too
(`ext_bounds`: an ancestor starts no later and its look-ahead ends no earlier), this is also the
"as do all its ancestors" clause. -/
theorem edit_marks (t : Tree) (e : Edit) (hw : WFb t) (hl : LaOK t) (he : e.start.bytes ≤ e.old_end.bytes) :
    All2 (Mark e.start.bytes e.old_end.bytes) (ext t 0) (flags (editTree t e)) :=
  editTree_marks t e e.start.bytes e.old_end.bytes 0 he hw hl ⟨by simp, Or.inl (by simp)⟩

/-- The excluded corner is necessary: a completely empty subtree (no padding, size or look-ahead)
strictly inside the deleted text is *not* marked by `ts_subtree_edit`'s algorithm. -/
example :
    let t : Tree := .mk (nd 0 4 0) [.mk (nd 0 2 0) [], .mk (nd 0 2 0) [.mk (nd 0 0 0) [], .mk (nd 0 2 0) []]]
    let e : Edit := { start := ⟨1, ⟨0, 1⟩⟩, old_end := ⟨3, ⟨0, 3⟩⟩, new_end := ⟨1, ⟨0, 1⟩⟩ }
    ext t 0 = [(0, 0, 4), (0, 0, 2), (2, 2, 4), (2, 2, 2), (2, 2, 4)] ∧
    flags (editTree t e) = [true, true, true, false, true] := by decide

mutual
  theorem laokCheck_sound : ∀ t : Tree, laokCheck t = true → LaOK t
    | .mk d ks, h => by
      simp only [laokCheck] at h
      exact LaOK.mk d ks (laokCheckL_sound ks 0 _ h)
  theorem laokCheckL_sound : ∀ (ks : List Tree) (l B : Nat), laokCheckL ks l B = true → LaOKL ks l B
    | [], l, B, _ => LaOKL.nil l B
    | c :: rest, l, B, h => by
      simp only [laokCheckL, Bool.and_eq_true, decide_eq_true_eq] at h
      obtain ⟨⟨h1, h2⟩, h3⟩ := h
      exact LaOKL.cons c rest l B (laokCheck_sound c h1) h2 (laokCheckL_sound rest _ B h3)
end

end TsVerif.C10

/-! ## Row/column dimension (Text.lean, Points.lean): the edited tree is consistent with the new text

`Cons T t A` — every node of `t` (frame at absolute byte `A`) stores exactly the padding/size
`Length`s (bytes, rows, columns) obtained by counting newlines in the bytes of `T` it covers, and
children sit at consecutive frames.  `EditOK T ins S O e` — `e` is the change "replace `[S, O)` of
`T` by `ins`" with the correct row/column for its three positions. -/
namespace TsVerif.C10
open TsGen TsVerif

/-- **the edit keeps the tree consistent with the text** — for every tree that tiles in bytes and
is consistent with the old text, and every edit that describes a text change correctly, every node
of the edited tree stores the row/column extents of the bytes it covers in the NEW text. -/
theorem edit_consistent (t : Tree) (e : Edit) (T ins : List Nat) (S O : Nat)
    (hw : WFb t) (hc : Cons T t 0) (he : EditOK T ins S O e) :
    Cons (splice T ins S O) (editTree t e) 0 :=
  editTree_cons t e T (splice T ins S O) S O (S + ins.length) 0 0 (Chg.of_splice T ins S O he.so he.ot) hw hc
    ⟨he.start, he.old_end, he.new_end, Or.inl ⟨Nat.zero_le _, rfl⟩⟩

/-- **all finite edit histories** (no re-parse in between): tiling and consistency with the
current text are invariants. -/
theorem edits_consistent (xs : List TextEdit) (T : List Nat) (t : Tree)
    (hw : WFb t) (hc : Cons T t 0) (hx : HistOK T xs) :
    WFb (xs.foldl applyEdit t) ∧ Cons (xs.foldl applyText T) (xs.foldl applyEdit t) 0 := by
  induction xs generalizing T t with
  | nil => exact ⟨hw, hc⟩
  | cons x xs ih =>
    simp only [List.foldl_cons]
    simp only [HistOK] at hx
    exact ih (applyText T x) (applyEdit t x) (editTree_bytes t x.e hw hx.1.editB).1
      (edit_consistent t x.e T x.ins x.S x.O hw hc hx.1) hx.2

/-- **positions computed by the runtime are the text's** — in a consistent tree, the absolute start
and end of every node, obtained by `length_add`-ing relative lengths down from the root (as
`ts_node_start_point` / the tree cursor do), have the row/column of that byte offset in the text. -/
theorem cons_points (t : Tree) (T : List Nat) (hc : Cons T t 0) :
    ∀ p ∈ pts t length_zero,
      p.1 = lengthOf (T.take p.1.bytes) ∧ p.2 = lengthOf (T.take p.2.bytes) ∧
      p.1.bytes ≤ p.2.bytes ∧ p.2.bytes ≤ T.length := by
  intro p hp
  obtain ⟨⟨h1, _⟩, ⟨h2, h2'⟩, h3⟩ := pts_cons t T 0 length_zero hc (lenS_zero T 0 0 (Nat.le_refl _)).symm p hp
  rw [lenS_zero_eq_take] at h1 h2
  exact ⟨h1, h2, h3, h2'⟩

/-- **kept / shifted with row/column** — pairing nodes before/after in preorder: a node that ends
before the change keeps its start and end *positions* (bytes, row, column); a node that starts at or
after the old end has new bytes φ(old bytes), covers the same characters in the new text, and its
new start/end row/column are those of its new bytes in the new text. -/
theorem edit_kept_shifted_points (t : Tree) (e : Edit) (T ins : List Nat) (S O : Nat)
    (hw : WFb t) (hc : Cons T t 0) (he : EditOK T ins S O e) :
    All2 (RelP T (splice T ins S O) S O (S + ins.length))
      (pts t length_zero) (pts (editTree t e) length_zero) := by
  have hc' := edit_consistent t e T ins S O hw hc he
  have hchg := Chg.of_splice T ins S O he.so he.ot
  obtain ⟨b1, b2, b3⟩ := he.bytes
  have hm := editTree_moves t e hw he.editB
  rw [b1, b2, b3] at hm
  have z0 : (length_zero).bytes = 0 := length_zero_bytes
  rw [← z0, ← pts_bytes t length_zero, ← pts_bytes (editTree t e) length_zero] at hm
  have hz : length_zero = lenS T 0 0 := (lenS_zero T 0 0 (Nat.le_refl _)).symm
  have hz' : length_zero = lenS (splice T ins S O) 0 0 := (lenS_zero _ 0 0 (Nat.le_refl _)).symm
  refine (All2.of_map bytesOf bytesOf _ _ hm).mono2 ?_
  intro p q hp hq hrel
  obtain ⟨⟨p1, _⟩, ⟨p2, _⟩, p3⟩ := pts_cons t T 0 length_zero hc hz p hp
  obtain ⟨⟨q1, _⟩, ⟨q2, _⟩, _⟩ := pts_cons _ _ 0 length_zero hc' hz' q hq
  obtain ⟨r1, r2⟩ := hrel
  simp only [bytesOf] at r1 r2
  constructor
  · intro hk
    have h := r1 hk
    simp only [Prod.mk.injEq] at h
    have e1 : q.1 = p.1 := by
      rw [q1, p1, h.1]; exact hchg.below 0 _ (by omega)
    have e2 : q.2 = p.2 := by
      rw [q2, p2, h.2]; exact hchg.below 0 _ (by omega)
    exact Prod.ext e1 e2
  · intro hs
    have h := r2 hs
    simp only [Prod.mk.injEq] at h
    refine ⟨h.1, h.2, ?_, ?_, ?_⟩
    · exact (congrArg Length.extent q1).trans (by rw [lenS_zero_eq_take]; rfl)
    · exact (congrArg Length.extent q2).trans (by rw [lenS_zero_eq_take]; rfl)
    · rw [h.1, h.2, slice_splice_above T ins S O _ _ he.so he.ot]
      congr 1 <;> omega

/-- The Boolean check the driver runs on every real tree (with the real text) implies `Cons`. -/
theorem consCheck_sound (T : List Nat) (t : Tree) (A : Nat) (h : consCheck T t A = true) : Cons T t A := by
  simp only [consCheck, Bool.and_eq_true, decide_eq_true_eq] at h
  exact consCheckAt_sound t T A h.1 h.2

/-- The Boolean check of the edit (old text, new text, edit) implies `EditOK` for the inserted
bytes read off the new text, and that the new text is the splice. -/
theorem editOKCheck_sound (T T2 : List Nat) (e : Edit) (h : editOKCheck T T2 e = true) :
    EditOK T ((T2.drop e.start.bytes).take (e.new_end.bytes - e.start.bytes)) e.start.bytes e.old_end.bytes e ∧
    splice T ((T2.drop e.start.bytes).take (e.new_end.bytes - e.start.bytes)) e.start.bytes e.old_end.bytes = T2 := by
  simp only [editOKCheck, Bool.and_eq_true, decide_eq_true_eq] at h
  obtain ⟨⟨⟨⟨⟨⟨⟨h1, h2⟩, h3⟩, h4⟩, h5⟩, h6⟩, h7⟩, h8⟩ := h
  have hsp : splice T ((T2.drop e.start.bytes).take (e.new_end.bytes - e.start.bytes)) e.start.bytes e.old_end.bytes = T2 :=
    h5.symm
  have hlen : ((T2.drop e.start.bytes).take (e.new_end.bytes - e.start.bytes)).length = e.new_end.bytes - e.start.bytes := by
    simp only [List.length_take, List.length_drop]; omega
  refine ⟨⟨h1, h2, ?_, ?_, ?_⟩, hsp⟩
  · rw [lenS_zero_eq_take]; exact h6
  · rw [lenS_zero_eq_take]; exact h7
  · rw [hsp, hlen, lenS_zero_eq_take, show e.start.bytes + (e.new_end.bytes - e.start.bytes) = e.new_end.bytes by omega]
    exact h8

-- non-vacuity: the text "ab\ncd", a two-leaf tree over it (second leaf has the newline as padding),
-- and the change "replace b by x\ny" with its row/column: hypotheses hold, and the result is as stated.
private def exText : List Nat := [97, 98, 10, 99, 100]
private def ndl (p z : Length) : NodeData := { (default : NodeData) with padding := p, size := z }
private def exTreeP : Tree :=
  .mk (ndl ⟨0, ⟨0, 0⟩⟩ ⟨5, ⟨1, 2⟩⟩) [.mk (ndl ⟨0, ⟨0, 0⟩⟩ ⟨2, ⟨0, 2⟩⟩) [], .mk (ndl ⟨1, ⟨1, 0⟩⟩ ⟨2, ⟨0, 2⟩⟩) []]
private def exEditP : Edit := { start := ⟨1, ⟨0, 1⟩⟩, old_end := ⟨2, ⟨0, 2⟩⟩, new_end := ⟨4, ⟨1, 1⟩⟩ }
example : WFb exTreeP := wfbCheck_sound _ (by decide)
example : Cons exText exTreeP 0 := consCheck_sound _ _ _ (by decide)
example : EditOK exText [120, 10, 121] 1 2 exEditP := ⟨by decide, by decide, by decide, by decide, by decide⟩
example : splice exText [120, 10, 121] 1 2 = [97, 120, 10, 121, 10, 99, 100] := by decide
example : pts exTreeP length_zero =
    [(⟨0, ⟨0, 0⟩⟩, ⟨5, ⟨1, 2⟩⟩), (⟨0, ⟨0, 0⟩⟩, ⟨2, ⟨0, 2⟩⟩), (⟨3, ⟨1, 0⟩⟩, ⟨5, ⟨1, 2⟩⟩)] := by decide
example : pts (editTree exTreeP exEditP) length_zero =
    [(⟨0, ⟨0, 0⟩⟩, ⟨7, ⟨2, 2⟩⟩), (⟨0, ⟨0, 0⟩⟩, ⟨4, ⟨1, 1⟩⟩), (⟨5, ⟨2, 0⟩⟩, ⟨7, ⟨2, 2⟩⟩)] := by decide
example : editOKCheck exText [97, 120, 10, 121, 10, 99, 100] exEditP = true := by decide
example : HistOK exText [⟨exEditP, [120, 10, 121], 1, 2⟩] :=
  ⟨⟨by decide, by decide, by decide, by decide, by decide⟩, trivial⟩

end TsVerif.C10
