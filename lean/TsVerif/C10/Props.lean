import TsVerif.C10.Judge
/-!
# C10 — property theorems (statements only about the model; lemmas live in Lemmas.lean)
-/
namespace TsVerif.C10
open TsGen TsVerif

/-- What `ts_subtree_edit` may not change in a node. -/
def sameShapeData (a b : NodeData) : Prop :=
  a.symbol = b.symbol ∧ a.lookahead = b.lookahead ∧ a.parseState = b.parseState ∧
  a.visible = b.visible ∧ a.named = b.named ∧ a.extra = b.extra ∧ a.isMissing = b.isMissing ∧
  a.isKeyword = b.isKeyword

mutual
  inductive SameShape : Tree → Tree → Prop
    | mk {d d' : NodeData} {ks ks' : List Tree} :
        sameShapeData d d' → SameShapeL ks ks' → SameShape (.mk d ks) (.mk d' ks')
  inductive SameShapeL : List Tree → List Tree → Prop
    | nil : SameShapeL [] []
    | cons {t t' : Tree} {ts ts' : List Tree} : SameShape t t' → SameShapeL ts ts' → SameShapeL (t :: ts) (t' :: ts')
end

theorem sameShapeData_store (d : NodeData) (p s : Length) : sameShapeData d (store d p s) := by
  unfold store sameShapeData
  split
  · split <;> simp
  · simp

mutual
  theorem SameShape.refl : ∀ t : Tree, SameShape t t
    | .mk d ks => .mk (by simp [sameShapeData]) (SameShapeL.refl ks)
  theorem SameShapeL.refl : ∀ ts : List Tree, SameShapeL ts ts
    | [] => .nil
    | t :: ts => .cons (SameShape.refl t) (SameShapeL.refl ts)
end

mutual
  /-- `edit_shape`: editing never changes the shape of a tree (same paths, symbols, look-ahead,
  parse states and all flags other than `has_changes` / the inline promotion). -/
  theorem edit_shape : ∀ (t : Tree) (e : Edit), SameShape t (editTree t e)
    | .mk d ks, e => by
      unfold editTree
      simp only
      split
      · exact SameShape.refl _
      · exact .mk (sameShapeData_store _ _ _) (editKids_shape ks _ _ _ _)
  theorem editKids_shape : ∀ (ks : List Tree) (cx : Ctx) (ne cr : Length) (i : Nat),
      SameShapeL ks (editKids ks cx ne cr i)
    | [], _, _, _, _ => by unfold editKids; exact .nil
    | c :: rest, cx, ne, cr, i => by
      unfold editKids
      simp only
      split
      · exact .cons (SameShape.refl _) (editKids_shape rest _ _ _ _)
      · split
        · exact SameShapeL.refl _
        · split
          · exact .cons (edit_shape c _) (editKids_shape rest _ _ _ _)
          · exact .cons (edit_shape c _) (editKids_shape rest _ _ _ _)
end

end TsVerif.C10

namespace TsVerif.C10
open TsGen TsVerif

/-- The byte/point pair as a `Length`. -/
def mkLen (b : Nat) (p : TSPoint) : Length := { bytes := b, extent := p }

/-- `point_edit_eq_phi`: the stand-alone point edit moves a position at or after the old end by
the same map φ that the judge (and `editTree`) use, keeps positions up to `start`, and collapses
positions inside the replaced text to the new end. -/
theorem point_edit_eq_phi (p : TSPoint) (b : Nat) (e : TSInputEdit) :
    (b ≥ e.old_end_byte → ts_point_edit p b e =
        ((phi (Edit.ofInput e) (mkLen b p)).extent, (phi (Edit.ofInput e) (mkLen b p)).bytes)) ∧
    (b ≤ e.start_byte → b < e.old_end_byte → ts_point_edit p b e = (p, b)) ∧
    (e.start_byte < b → b < e.old_end_byte → ts_point_edit p b e = (e.new_end_point, e.new_end_byte)) := by
  refine ⟨?_, ?_, ?_⟩
  · intro h
    simp [ts_point_edit, phi, Edit.ofInput, mkLen, length_add, length_sub, h]
  · intro h1 h2
    have h3 : ¬ (b ≥ e.old_end_byte) := by omega
    have h4 : ¬ (b > e.start_byte) := by omega
    simp [ts_point_edit, h3, h4]
  · intro h1 h2
    have h3 : ¬ (b ≥ e.old_end_byte) := by omega
    simp [ts_point_edit, h3, h1]

/-- `range_edit_eq_phi` (byte dimension, no sentinel/overflow): both ends of a stored range move
like `ts_point_edit` moves a byte offset. -/
theorem range_edit_eq_phi (r : TSRange) (e : TSInputEdit)
    (hs : r.start_byte ≤ r.end_byte) (hmax : r.end_byte < 4294967295)
    (hno : e.new_end_byte + r.end_byte < 4294967296)
    (hedit : e.start_byte ≤ e.old_end_byte) :
    (ts_range_edit r e).end_byte =
      (if r.end_byte ≥ e.old_end_byte then e.new_end_byte + (r.end_byte - e.old_end_byte)
       else if r.end_byte > e.start_byte then e.start_byte else r.end_byte) ∧
    (ts_range_edit r e).start_byte =
      (if r.start_byte ≥ e.old_end_byte then e.new_end_byte + (r.start_byte - e.old_end_byte)
       else if r.start_byte > e.start_byte then e.start_byte else r.start_byte) := by
  have hne : r.end_byte ≠ 4294967295 := by omega
  have w1 : r.end_byte ≥ e.old_end_byte →
      (e.new_end_byte + (r.end_byte + 4294967296 - e.old_end_byte) % 4294967296) % 4294967296
        = e.new_end_byte + (r.end_byte - e.old_end_byte) := by intro h; omega
  have w2 : r.start_byte ≥ e.old_end_byte →
      (e.new_end_byte + (r.start_byte + 4294967296 - e.old_end_byte) % 4294967296) % 4294967296
        = e.new_end_byte + (r.start_byte - e.old_end_byte) := by intro h; omega
  have n1 : ∀ x, ¬ (e.new_end_byte + x < e.new_end_byte) := by intro x; omega
  unfold ts_range_edit
  by_cases h1 : r.end_byte ≥ e.old_end_byte <;> by_cases h2 : r.end_byte > e.start_byte <;>
    by_cases h3 : r.start_byte ≥ e.old_end_byte <;> by_cases h4 : r.start_byte > e.start_byte <;>
    simp [h1, h2, h3, h4, hne, w1, w2, n1] <;> (try omega)

/-- A subtree that the edit reaches is marked: the root of `editTree t e` has `has_changes`
unless the edit starts beyond the node's look-ahead end (or is a no-op at that end). -/
theorem edit_marks_root (d : NodeData) (ks : List Tree) (e : Edit)
    (h : ¬ (e.start.bytes > (length_add d.padding d.size).bytes + d.lookahead ∨
        ((e.old_end.bytes = e.start.bytes ∧ e.new_end.bytes = e.start.bytes) ∧
          e.start.bytes = (length_add d.padding d.size).bytes + d.lookahead))) :
    (editTree (.mk d ks) e).data.hasChanges = true := by
  unfold editTree
  simp only [h, if_false, Tree.data]
  unfold store
  split
  · split <;> rfl
  · rfl

/-- …and a subtree the edit does not reach is returned unchanged (the very same value). -/
theorem edit_untouched_same (d : NodeData) (ks : List Tree) (e : Edit)
    (h : e.start.bytes > (length_add d.padding d.size).bytes + d.lookahead) :
    editTree (.mk d ks) e = .mk d ks := by
  unfold editTree
  simp [h]

-- non-vacuity: a concrete edit satisfying the hypotheses of `range_edit_eq_phi`
example : let r : TSRange := { start_point := ⟨0, 2⟩, end_point := ⟨0, 9⟩, start_byte := 2, end_byte := 9 }
    let e : TSInputEdit := { start_byte := 1, old_end_byte := 3, new_end_byte := 6,
                             start_point := ⟨0,1⟩, old_end_point := ⟨0,3⟩, new_end_point := ⟨0,6⟩ }
    r.start_byte ≤ r.end_byte ∧ r.end_byte < 4294967295 ∧ e.new_end_byte + r.end_byte < 4294967296 ∧
    (ts_range_edit r e).start_byte = 1 ∧ (ts_range_edit r e).end_byte = 12 := by decide

end TsVerif.C10
