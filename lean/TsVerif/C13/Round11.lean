import TsVerif.C13.Props
import TsVerif.C09.Props
/-!
# C13 round 11 — the full lexer port over an ARBITRARY range list produces `rangedChars`

`stream_concat` / `token_inside` (Props.lean) are about `rangedChars` (Stream.lean), the character logic of the port
over included ranges.  Here: the FULL port (`ts_lexer__advance` with its ASCII fast path, `ts_lexer__do_advance` with the
row/column/column-cache updates, the range-skipping `while` loop over the list that was set, the chunk re-fetch,
`ts_lexer__get_lookahead` with its retry, EOF by ranges or by the end of the input) produces exactly that sequence —
for EVERY range list (no validity, no character-boundary hypothesis), EVERY chunking of the document that satisfies
C09's `WholeChar` (in particular the one-chunk provider the driver uses), from every state in which the lexer stands
inside a range that includes text with a decoded look-ahead (`RInv`; what `ts_lexer_start` leaves behind).
-/
namespace TsVerif.C13
open TsGen TsVerif.Lex TsVerif.Utf TsVerif.C09

/-- The extent (row, column) carried by the position has no influence on the range-skipping loop. -/
theorem skipL_ext (rs : List TSRange) (b : Nat) (e1 e2 : TSPoint) :
    (skipL rs ⟨b, e1⟩).1 = (skipL rs ⟨b, e2⟩).1 ∧ (skipL rs ⟨b, e1⟩).2.1.bytes = (skipL rs ⟨b, e2⟩).2.1.bytes ∧
    (skipL rs ⟨b, e1⟩).2.2 = (skipL rs ⟨b, e2⟩).2.2 := by
  cases rs with
  | nil => simp [skipL]
  | cons cur rest =>
    unfold skipL
    by_cases hc : b ≥ cur.end_byte ∨ cur.end_byte = cur.start_byte
    · simp only [hc, if_true]
      cases rest with
      | nil => simp
      | cons nxt rest' => simp
    · simp only [hc, if_false]
      simp

/-- Where the loop stops inside a range: that range includes text and the position is before its end. -/
theorem skipL_stop : ∀ (rs : List TSRange) (p : Length), (skipL rs p).2.2 = true →
    ∃ r, rs[(skipL rs p).1]? = some r ∧ (skipL rs p).2.1.bytes < r.end_byte ∧ r.end_byte ≠ r.start_byte
  | [], p, h => by simp [skipL] at h
  | cur :: rest, p, h => by
    unfold skipL at h ⊢
    by_cases hc : p.bytes ≥ cur.end_byte ∨ cur.end_byte = cur.start_byte
    · simp only [hc, if_true] at h ⊢
      cases rest with
      | nil => simp at h
      | cons nxt rest' =>
        simp only at h ⊢
        obtain ⟨r, h1, h2, h3⟩ := skipL_stop (nxt :: rest') ⟨nxt.start_byte, nxt.start_point⟩ h
        exact ⟨r, by simpa using h1, h2, h3⟩
    · simp only [hc, if_false]
      exact ⟨cur, by simp, by omega, by omega⟩

/-- When the loop runs off the list it has stepped over all of it. -/
theorem skipL_false : ∀ (rs : List TSRange) (p : Length), (skipL rs p).2.2 = false → (skipL rs p).1 = rs.length
  | [], p, _ => by simp [skipL]
  | cur :: rest, p, h => by
    unfold skipL at h ⊢
    by_cases hc : p.bytes ≥ cur.end_byte ∨ cur.end_byte = cur.start_byte
    · simp only [hc, if_true] at h ⊢
      cases rest with
      | nil => simp
      | cons nxt rest' =>
        simp only at h ⊢
        have := skipL_false (nxt :: rest') ⟨nxt.start_byte, nxt.start_point⟩ h
        simp [this]
    · simp only [hc, if_false] at h
      simp at h

/-- Inside a range that includes text the loop does nothing. -/
theorem skipL_here (r : TSRange) (rest : List TSRange) (p : Length)
    (h1 : p.bytes < r.end_byte) (h2 : r.end_byte ≠ r.start_byte) : skipL (r :: rest) p = (0, p, true) := by
  unfold skipL
  have hc : ¬ (p.bytes ≥ r.end_byte ∨ r.end_byte = r.start_byte) := by omega
  simp only [hc, if_false]

/-- `rangedChars` may be entered before or after the range-skipping loop. -/
theorem rangedChars_skip (doc : List Nat) (fuel : Nat) (rs : List TSRange) (b : Nat)
    (h : (skipL rs ⟨b, ⟨0, 0⟩⟩).2.2 = true) :
    rangedChars doc fuel rs b =
      rangedChars doc fuel (rs.drop (skipL rs ⟨b, ⟨0, 0⟩⟩).1) (skipL rs ⟨b, ⟨0, 0⟩⟩).2.1.bytes := by
  cases fuel with
  | zero => simp [rangedChars]
  | succ f =>
    obtain ⟨r, h1, h2, h3⟩ := skipL_stop rs _ h
    have hd : rs.drop (skipL rs ⟨b, ⟨0, 0⟩⟩).1 = r :: rs.drop ((skipL rs ⟨b, ⟨0, 0⟩⟩).1 + 1) := by
      have hlt : (skipL rs ⟨b, ⟨0, 0⟩⟩).1 < rs.length := by
        rcases Nat.lt_or_ge (skipL rs ⟨b, ⟨0, 0⟩⟩).1 rs.length with hh | hh
        · exact hh
        · rw [List.getElem?_eq_none hh] at h1; cases h1
      rw [List.drop_eq_getElem_cons hlt]
      congr 1
      rw [List.getElem?_eq_getElem hlt] at h1
      exact Option.some.inj h1
    have hhere := skipL_here r (rs.drop ((skipL rs ⟨b, ⟨0, 0⟩⟩).1 + 1)) ⟨(skipL rs ⟨b, ⟨0, 0⟩⟩).2.1.bytes, ⟨0, 0⟩⟩ h2 h3
    conv => lhs; unfold rangedChars
    conv => rhs; unfold rangedChars
    simp only [h, hd, hhere, Bool.not_true, Bool.false_eq_true, if_false, List.drop_zero]

theorem rangedChars_done (doc : List Nat) (fuel : Nat) (rs : List TSRange) (b : Nat)
    (h : (skipL rs ⟨b, ⟨0, 0⟩⟩).2.2 = false) : rangedChars doc fuel rs b = [] := by
  cases fuel with
  | zero => simp [rangedChars]
  | succ f => unfold rangedChars; simp [h]

theorem rangedChars_beyond (doc : List Nat) (fuel : Nat) (rs : List TSRange) (b : Nat)
    (h : doc.length ≤ (skipL rs ⟨b, ⟨0, 0⟩⟩).2.1.bytes) : rangedChars doc fuel rs b = [] := by
  cases fuel with
  | zero => simp [rangedChars]
  | succ f => unfold rangedChars; simp only; split <;> simp [h]

/-! ## `ts_lexer__do_advance` split into its position update and its tail -/

/-- The first part of `ts_lexer__do_advance`: move over the look-ahead character (row / column / column cache). -/
def posUpd (l : Lexer) : Lexer :=
  if l.laSize != 0 then
    let l :=
      if l.lookahead == 10 then
        { l with pos := { l.pos with extent := ⟨l.pos.extent.row + 1, 0⟩ }, colValid := true, colValue := 0 }
      else
        let isBom := l.pos.bytes == 0 && l.lookahead == BYTE_ORDER_MARK
        let l := if !isBom && l.colValid then { l with colValue := l.colValue + 1 } else l
        { l with pos := { l.pos with extent := ⟨l.pos.extent.row, l.pos.extent.column + l.laSize⟩ } }
    { l with pos := { l.pos with bytes := l.pos.bytes + l.laSize } }
  else l

/-- The rest of `ts_lexer__do_advance`: range-skipping loop, `skip`, re-fetch and decode or EOF. -/
def advTail (read : Read) (l : Lexer) (skip : Bool) : Lexer :=
  let (k, pos, inRange) := if l.skipEmpty then skipLF (l.ranges.toList.drop l.idx) l.pos else skipL (l.ranges.toList.drop l.idx) l.pos
  let l := { l with idx := l.idx + k, pos := pos }
  let l := if skip then { l with tokStart := l.pos } else l
  if inRange then l.refill read
  else
    let l := l.clearChunk
    { l with lookahead := 0, laSize := 1 }

theorem doAdvance_eq (read : Read) (l : Lexer) (skip : Bool) :
    l.doAdvance read skip = advTail read (posUpd l) skip := rfl

theorem posUpd_facts (l : Lexer) (hsz : 1 ≤ l.laSize) :
    (posUpd l).pos.bytes = l.pos.bytes + l.laSize ∧ (posUpd l).ranges = l.ranges ∧ (posUpd l).idx = l.idx ∧
    (posUpd l).chunkStart = l.chunkStart ∧ (posUpd l).chunk = l.chunk ∧ (posUpd l).skipEmpty = l.skipEmpty := by
  have h0 : (l.laSize != 0) = true := by simp; omega
  unfold posUpd
  simp only [h0, if_true]
  split
  · simp
  · split <;> simp

theorem advTail_spec (read : Read) (m : Lexer) (hne : m.skipEmpty = false) :
    ((skipL (m.ranges.toList.drop m.idx) m.pos).2.2 = true →
      advTail read m false =
        ({ m with idx := m.idx + (skipL (m.ranges.toList.drop m.idx) m.pos).1,
                  pos := (skipL (m.ranges.toList.drop m.idx) m.pos).2.1 } : Lexer).refill read) ∧
    ((skipL (m.ranges.toList.drop m.idx) m.pos).2.2 = false →
      (advTail read m false).idx = m.idx + (skipL (m.ranges.toList.drop m.idx) m.pos).1 ∧
      (advTail read m false).ranges = m.ranges) := by
  unfold advTail
  simp only [hne, Bool.false_eq_true, if_false]
  generalize skipL (m.ranges.toList.drop m.idx) m.pos = res
  obtain ⟨k, p, b⟩ := res
  constructor
  · intro hb
    simp only at hb
    simp [hb]
  · intro hb
    simp only at hb
    simp [hb, Lexer.clearChunk]

/-- `ts_lexer__do_advance` over an arbitrary range list: with `sk` the outcome of the range-skipping loop from the
byte after the look-ahead character, either the lexer re-fetches/decodes at `sk`'s position inside range
`idx + sk.1`, or it ran off the list. -/
theorem doAdvance_ranged (read : Read) (l : Lexer) (hsz : 1 ≤ l.laSize) (hne : l.skipEmpty = false) :
    ((skipL (l.ranges.toList.drop l.idx) ⟨l.pos.bytes + l.laSize, ⟨0, 0⟩⟩).2.2 = true →
      ∃ l1 : Lexer, l.doAdvance read false = l1.refill read ∧
        l1.pos.bytes = (skipL (l.ranges.toList.drop l.idx) ⟨l.pos.bytes + l.laSize, ⟨0, 0⟩⟩).2.1.bytes ∧
        l1.ranges = l.ranges ∧ l1.idx = l.idx + (skipL (l.ranges.toList.drop l.idx) ⟨l.pos.bytes + l.laSize, ⟨0, 0⟩⟩).1 ∧
        l1.chunkStart = l.chunkStart ∧ l1.chunk = l.chunk ∧ l1.skipEmpty = false) ∧
    ((skipL (l.ranges.toList.drop l.idx) ⟨l.pos.bytes + l.laSize, ⟨0, 0⟩⟩).2.2 = false →
      (l.doAdvance read false).idx = l.idx + (skipL (l.ranges.toList.drop l.idx) ⟨l.pos.bytes + l.laSize, ⟨0, 0⟩⟩).1 ∧
      (l.doAdvance read false).ranges = l.ranges) := by
  obtain ⟨p1, p2, p3, p4, p5, p6⟩ := posUpd_facts l hsz
  have sp := advTail_spec read (posUpd l) (by rw [p6]; exact hne)
  rw [doAdvance_eq]
  have ext := skipL_ext ((posUpd l).ranges.toList.drop (posUpd l).idx) (posUpd l).pos.bytes (posUpd l).pos.extent ⟨0, 0⟩
  have heta : (⟨(posUpd l).pos.bytes, (posUpd l).pos.extent⟩ : Length) = (posUpd l).pos := rfl
  rw [heta, p1, p2, p3] at ext
  rw [p2, p3] at sp
  obtain ⟨e1, e2, e3⟩ := ext
  constructor
  · intro hb
    rw [← e3] at hb
    refine ⟨_, sp.1 hb, ?_, ?_, ?_, ?_, ?_, ?_⟩
    · exact e2
    · rfl
    · show l.idx + _ = _; rw [e1]
    · exact p4
    · exact p5
    · show (posUpd l).skipEmpty = false; rw [p6]; exact hne
  · intro hb
    rw [← e3] at hb
    have := sp.2 hb
    rw [e1] at this
    exact this

/-- What fetch-and-decode (`coreLook`) yields under a chunking with `WholeChar`: end of input exactly at / after the
end of the text, otherwise the decoding of the rest of the text. -/
theorem coreLook_val (text : List Nat) (read : Read) (hch : ChunkingOf text read) (hw : WholeChar text read)
    (pos : Nat) (c : Cache) (hc : CacheOK text c) :
    ((coreLook read pos c).2.2.2 = true ↔ text.length ≤ pos) ∧
    ((coreLook read pos c).2.2.2 = false →
      ((coreLook read pos c).1, (coreLook read pos c).2.1) = norm (decodeUtf8 (text.drop pos))) := by
  have hf : ((fetch read pos c).chunk = [] → text.length ≤ pos) ∧
      ((fetch read pos c).chunk ≠ [] → pos < text.length ∧ (fetch read pos c).chunk <+: text.drop (fetch read pos c).cs ∧
        (fetch read pos c).cs ≤ pos ∧ pos < (fetch read pos c).cs + (fetch read pos c).chunk.length) := by
    unfold fetch
    split
    · by_cases hp : pos < text.length
      · have := hch.1 pos hp
        exact ⟨fun h => absurd h this.1, fun _ => ⟨hp, this.2, Nat.le_refl _, by
          have : (read pos).length ≠ 0 := by simpa using this.1
          simp; omega⟩⟩
      · have := hch.2 pos (by omega)
        exact ⟨fun _ => by omega, fun h => absurd this h⟩
    · rename_i hin
      refine ⟨fun h => ?_, fun h => ?_⟩
      · simp [h] at hin; omega
      · rcases hc with h0 | hpre
        · exact absurd h0 h
        · have hlen : c.cs + c.chunk.length ≤ text.length := by
            obtain ⟨t, ht⟩ := hpre
            have := congrArg List.length ht
            simp at this; omega
          exact ⟨by omega, hpre, by omega, by omega⟩
  unfold coreLook
  simp only
  generalize fetch read pos c = c1 at hf ⊢
  obtain ⟨hemp, hne⟩ := hf
  by_cases he : c1.chunk = []
  · have := hemp he
    simp [he, this]
  · obtain ⟨hp, hpre, h1, h2⟩ := hne he
    have hise : c1.chunk.isEmpty = false := by cases hcc : c1.chunk <;> simp_all
    simp only [hise, Bool.false_eq_true, if_false]
    refine ⟨⟨fun h => (by simp at h), fun h => (by omega)⟩, fun _ => ?_⟩
    obtain ⟨hb1, hb2⟩ := drop_prefix c1.chunk text c1.cs pos hpre h1 h2
    exact lookahead_chunk_indep text read pos _ hch (hw pos hp) hb2 hb1

/-- The lexer stands inside a range that includes text, not in the repaired-variant mode, with the look-ahead decoded
from the text at its position and a cached chunk (a piece of the text) that covers the position. -/
structure RInv (text : List Nat) (l : Lexer) : Prop where
  noFix : l.skipEmpty = false
  idx : l.idx < l.ranges.size
  inside : l.pos.bytes < (l.range l.idx).end_byte
  nonempty : (l.range l.idx).end_byte ≠ (l.range l.idx).start_byte
  lo : l.chunkStart ≤ l.pos.bytes
  hi : l.pos.bytes < l.chunkStart + l.chunk.length
  cache : l.chunk <+: text.drop l.chunkStart
  look : (l.lookahead, l.laSize) = norm (decodeUtf8 (text.drop l.pos.bytes))

theorem range_of_drop (l : Lexer) (k : Nat) (r : TSRange) (h : (l.ranges.toList.drop l.idx)[k]? = some r) :
    l.idx + k < l.ranges.size ∧ l.range (l.idx + k) = r := by
  rw [List.getElem?_drop] at h
  have hlt : l.idx + k < l.ranges.size := by
    rcases Nat.lt_or_ge (l.idx + k) l.ranges.size with hh | hh
    · exact hh
    · rw [List.getElem?_eq_none (by simpa using hh)] at h; cases h
  refine ⟨hlt, ?_⟩
  simp only [Array.getElem?_toList] at h
  unfold Lexer.range
  simp [Array.getD, hlt]
  rw [Array.getElem?_eq_getElem hlt] at h
  exact Option.some.inj h

theorem drop_idx (l : Lexer) (h : l.idx < l.ranges.size) :
    l.ranges.toList.drop l.idx = l.range l.idx :: l.ranges.toList.drop (l.idx + 1) := by
  have hlt : l.idx < l.ranges.toList.length := by simpa using h
  rw [List.drop_eq_getElem_cons hlt]
  congr 1
  unfold Lexer.range
  simp [Array.getD, h]

theorem norm_size (s : List Nat) : 1 ≤ (norm (decodeUtf8 s)).2 := by
  unfold norm
  split
  · simp
  · rename_i hh
    exact (decode_ok_size s (decodeUtf8 s).1 (decodeUtf8 s).2 rfl (by simpa using hh)).1

theorem getLookahead_skipEmpty (read : Read) (l : Lexer) : (l.getLookahead read).skipEmpty = l.skipEmpty := by
  unfold Lexer.getLookahead
  simp only
  repeat' (first | rfl | split)

theorem refill_skipEmpty (read : Read) (l : Lexer) : (l.refill read).skipEmpty = l.skipEmpty := by
  unfold Lexer.refill
  simp only
  rw [getLookahead_skipEmpty]
  split
  · unfold Lexer.getChunk; simp only; split <;> rfl
  · rfl

/-- Outcome of the range-skipping loop from the byte after the look-ahead character (extent irrelevant, `skipL_ext`). -/
def nextSk (l : Lexer) : Nat × Length × Bool :=
  skipL (l.ranges.toList.drop l.idx) ⟨l.pos.bytes + l.laSize, ⟨0, 0⟩⟩

/-- One `ts_lexer__do_advance` from a state satisfying `RInv`. -/
theorem doAdvance_step (text : List Nat) (read : Read) (hch : ChunkingOf text read) (hw : WholeChar text read)
    (l : Lexer) (h : RInv text l) :
    ((nextSk l).2.2 = false → (l.doAdvance read false).eof = true) ∧
    ((nextSk l).2.2 = true → text.length ≤ (nextSk l).2.1.bytes → (l.doAdvance read false).eof = true) ∧
    ((nextSk l).2.2 = true → (nextSk l).2.1.bytes < text.length →
      RInv text (l.doAdvance read false) ∧ (l.doAdvance read false).pos.bytes = (nextSk l).2.1.bytes ∧
      (l.doAdvance read false).ranges = l.ranges ∧ (l.doAdvance read false).idx = l.idx + (nextSk l).1) := by
  have hsz : 1 ≤ l.laSize := by
    have := norm_size (text.drop l.pos.bytes); rw [← h.look] at this; exact this
  obtain ⟨d1, d2⟩ := doAdvance_ranged read l hsz h.noFix
  unfold nextSk
  refine ⟨fun hb => ?_, fun hb hlen => ?_, fun hb hlen => ?_⟩
  · obtain ⟨i1, i2⟩ := d2 hb
    have hk := skipL_false _ _ hb
    have hi := h.idx
    simp only [Lexer.eof, Lexer.count, i1, i2, hk, beq_iff_eq, List.length_drop, Array.length_toList]
    omega
  · obtain ⟨l1, e, q1, q2, q3, q4, q5, q6⟩ := d1 hb
    have sp := refill_spec read l1
    simp only at sp
    rw [q1, q4, q5] at sp
    have cv := coreLook_val text read hch hw (skipL (l.ranges.toList.drop l.idx) ⟨l.pos.bytes + l.laSize, ⟨0, 0⟩⟩).2.1.bytes
      ⟨l.chunkStart, l.chunk⟩ (Or.inr h.cache)
    have heof := cv.1.2 hlen
    have hidx := (sp.2.2.1 heof).1
    rw [e]
    simp only [Lexer.eof, Lexer.count, hidx, sp.2.1, beq_self_eq_true]
  · obtain ⟨l1, e, q1, q2, q3, q4, q5, q6⟩ := d1 hb
    have sp := refill_spec read l1
    simp only at sp
    rw [q1, q4, q5] at sp
    have cv := coreLook_val text read hch hw (skipL (l.ranges.toList.drop l.idx) ⟨l.pos.bytes + l.laSize, ⟨0, 0⟩⟩).2.1.bytes
      ⟨l.chunkStart, l.chunk⟩ (Or.inr h.cache)
    have heof : (coreLook read (skipL (l.ranges.toList.drop l.idx) ⟨l.pos.bytes + l.laSize, ⟨0, 0⟩⟩).2.1.bytes
        ⟨l.chunkStart, l.chunk⟩).2.2.2 = false := by
      cases hq : (coreLook read (skipL (l.ranges.toList.drop l.idx) ⟨l.pos.bytes + l.laSize, ⟨0, 0⟩⟩).2.1.bytes
        ⟨l.chunkStart, l.chunk⟩).2.2.2 with
      | false => rfl
      | true => have := cv.1.1 hq; omega
    have hf := coreLook_facts text read hch _ ⟨l.chunkStart, l.chunk⟩ (Or.inr h.cache) heof
    simp only at hf
    obtain ⟨m1, m2, m3, m4, m5, m6⟩ := hf
    obtain ⟨t1, t2, t3, t4, t5⟩ := sp.2.2.2 heof m1
    obtain ⟨r, g1, g2, g3⟩ := skipL_stop _ _ hb
    obtain ⟨g4, g5⟩ := range_of_drop l _ r g1
    have hpos : (l1.refill read).pos.bytes =
        (skipL (l.ranges.toList.drop l.idx) ⟨l.pos.bytes + l.laSize, ⟨0, 0⟩⟩).2.1.bytes := by rw [sp.1]; exact q1
    have hrg : (l1.refill read).ranges = l.ranges := by rw [sp.2.1]; exact q2
    have hidx : (l1.refill read).idx = l.idx + (skipL (l.ranges.toList.drop l.idx) ⟨l.pos.bytes + l.laSize, ⟨0, 0⟩⟩).1 := by
      rw [t1]; exact q3
    have hrange : (l1.refill read).range (l1.refill read).idx = r := by
      unfold Lexer.range at g5 ⊢; rw [hrg, hidx]; exact g5
    rw [e]
    exact ⟨{ noFix := by rw [refill_skipEmpty]; exact q6
             idx := by rw [hrg, hidx]; exact g4
             inside := by rw [hrange, hpos]; exact g2
             nonempty := by rw [hrange]; exact g3
             lo := by rw [t4, hpos]; exact m3
             hi := by rw [t4, t5, hpos]; exact m4
             cache := by rw [t4, t5]; exact m2
             look := by rw [t2, t3, hpos]; exact cv.2 heof }, hpos, hrg, hidx⟩

/-- One `ts_lexer__advance` (ASCII fast path or `do_advance`) from a state satisfying `RInv`. -/
theorem advance_step (text : List Nat) (read : Read) (hch : ChunkingOf text read) (hw : WholeChar text read)
    (l : Lexer) (h : RInv text l) :
    ((nextSk l).2.2 = false → (l.advance read false).eof = true) ∧
    ((nextSk l).2.2 = true → text.length ≤ (nextSk l).2.1.bytes → (l.advance read false).eof = true) ∧
    ((nextSk l).2.2 = true → (nextSk l).2.1.bytes < text.length →
      RInv text (l.advance read false) ∧ (l.advance read false).pos.bytes = (nextSk l).2.1.bytes ∧
      (l.advance read false).ranges = l.ranges ∧ (l.advance read false).idx = l.idx + (nextSk l).1) := by
  have hne : l.chunk.isEmpty = false := by
    cases hq : l.chunk with
    | nil => have h1 := h.hi; have h2 := h.lo; rw [hq] at h1; simp at h1; omega
    | cons a b => rfl
  have hneof : l.eof = false := by
    have := h.idx
    simp [Lexer.eof, Lexer.count]; omega
  have gen := doAdvance_step text read hch hw l h
  unfold Lexer.advance
  simp only [hne, hneof, Bool.or_self, Bool.false_eq_true, if_false]
  split
  · rename_i hfast
    split
    · rename_i hnb
      simp only [Bool.and_eq_true, beq_iff_eq, bne_iff_ne, ne_eq, decide_eq_true_eq] at hfast
      obtain ⟨⟨⟨h1, h2⟩, h3⟩, h4⟩ := hfast
      have hsk : nextSk l = (0, ⟨l.pos.bytes + 1, ⟨0, 0⟩⟩, true) := by
        unfold nextSk; rw [drop_idx l h.idx, h1]; exact skipL_here _ _ _ h3 h.nonempty
      rw [hsk]
      have hlen : l.chunkStart + l.chunk.length ≤ text.length := by
        have hpl := prefix_len h.cache
        rw [List.length_drop] at hpl
        have := h.hi; have := h.lo; omega
      have hlo := h.lo
      obtain ⟨hb1, hb2⟩ := drop_prefix l.chunk text l.chunkStart (l.pos.bytes + 1) h.cache (by omega) h4
      have hla := lookahead_chunk_indep text read (l.pos.bytes + 1) _ hch (hw _ (by omega)) hb2 hb1
      have hdec : decodeAt read (l.chunk.drop (l.pos.bytes + 1 - l.chunkStart)) (l.pos.bytes + 1) =
          (((l.chunk.getD (l.pos.bytes + 1 - l.chunkStart) 0 : Nat) : Int), 1, none) := by
        unfold decodeAt
        have hh : (l.chunk.drop (l.pos.bytes + 1 - l.chunkStart)).headD 0 =
            l.chunk.getD (l.pos.bytes + 1 - l.chunkStart) 0 := by
          simp [List.headD_eq_head?_getD, List.getD_eq_getElem?_getD]
        simp only [hh, hnb, if_true]
      rw [hdec] at hla
      have hla' : (((l.chunk.getD (l.pos.bytes + 1 - l.chunkStart) 0 : Nat) : Int), l.laSize) =
          norm (decodeUtf8 (text.drop (l.pos.bytes + 1))) := by rw [h1]; exact hla
      refine ⟨fun hb => by simp at hb, fun _ hl => ?_, fun _ _ => ?_⟩
      · simp only at hl; omega
      · split <;> exact ⟨{ noFix := h.noFix, idx := h.idx, inside := h3, nonempty := h.nonempty,
                           lo := (by show l.chunkStart ≤ l.pos.bytes + 1; omega), hi := h4, cache := h.cache, look := hla' },
                         rfl, rfl, rfl⟩
    · exact gen
  · exact gen

/-- `lexChars_eq_rangedChars`: for every text, every chunking of it satisfying `WholeChar`, EVERY range list (valid or
not, boundaries anywhere) and every lexer state standing inside a range that includes text with a decoded look-ahead
(`RInv`), the `(offset, look-ahead, size)` sequence that the FULL port produces by repeated `ts_lexer__advance`
(ASCII fast path, `do_advance` with row/column/column-cache updates, the range-skipping loop, chunk re-fetch,
`get_lookahead` with retry, EOF by ranges or by end of input) is `rangedChars` — the sequence `stream_concat` and
`token_inside` are about — over the ranges from the current one on. -/
theorem lexChars_eq_rangedChars (text : List Nat) (read : Read) (hch : ChunkingOf text read) (hw : WholeChar text read) :
    ∀ (fuel : Nat) (l : Lexer), RInv text l →
      lexChars read fuel l = rangedChars text fuel (l.ranges.toList.drop l.idx) l.pos.bytes := by
  intro fuel
  induction fuel with
  | zero => intro l _; simp [lexChars, rangedChars]
  | succ f ih =>
    intro l h
    have hneof : l.eof = false := by
      have := h.idx
      simp [Lexer.eof, Lexer.count]; omega
    have hlen : l.pos.bytes < text.length := by
      have hpl := prefix_len h.cache
      rw [List.length_drop] at hpl
      have := h.hi; have := h.lo; omega
    have hhere : skipL (l.ranges.toList.drop l.idx) ⟨l.pos.bytes, ⟨0, 0⟩⟩ = (0, ⟨l.pos.bytes, ⟨0, 0⟩⟩, true) := by
      rw [drop_idx l h.idx]; exact skipL_here _ _ _ h.inside h.nonempty
    have hl1 : (norm (decodeUtf8 (text.drop l.pos.bytes))).1 = l.lookahead := by rw [← h.look]
    have hl2 : (norm (decodeUtf8 (text.drop l.pos.bytes))).2 = l.laSize := by rw [← h.look]
    have hnl : ¬ text.length ≤ l.pos.bytes := by omega
    conv => rhs; unfold rangedChars
    unfold lexChars
    simp only [hneof, hhere, Bool.not_true, Bool.false_eq_true, if_false, List.drop_zero, ge_iff_le, hnl, hl1, hl2]
    congr 1
    obtain ⟨a1, a2, a3⟩ := advance_step text read hch hw l h
    unfold nextSk at a1 a2 a3
    cases hb : (skipL (l.ranges.toList.drop l.idx) ⟨l.pos.bytes + l.laSize, ⟨0, 0⟩⟩).2.2 with
    | false =>
      rw [rangedChars_done text f _ _ hb]
      have := a1 hb
      cases f <;> simp [lexChars, this]
    | true =>
      by_cases hlen2 : (skipL (l.ranges.toList.drop l.idx) ⟨l.pos.bytes + l.laSize, ⟨0, 0⟩⟩).2.1.bytes < text.length
      · obtain ⟨inv', b1, b2, b3⟩ := a3 hb hlen2
        rw [ih _ inv', rangedChars_skip text f _ _ hb, b1, b2, b3, List.drop_drop]
      · rw [rangedChars_beyond text f _ _ (by omega)]
        have := a2 hb (by omega)
        cases f <;> simp [lexChars, this]

/-- The one-chunk provider of the driver (`rangedAgrees` in Drivers/C13.lean) is a chunking with `WholeChar`. -/
theorem whole_chunking (text : List Nat) :
    ChunkingOf text (fun p => text.drop p) ∧ WholeChar text (fun p => text.drop p) := by
  refine ⟨⟨fun i hi => ⟨?_, List.prefix_refl _⟩, fun i hi => List.drop_eq_nil_of_le hi⟩, fun i _ => Or.inr (Or.inr rfl)⟩
  intro hnil
  have := congrArg List.length hnil
  simp at this; omega

/-- The same for the document in one chunk (the driver's configuration), no hypothesis on the provider left. -/
theorem lexChars_eq_rangedChars_whole (doc : List Nat) (fuel : Nat) (l : Lexer) (h : RInv doc l) :
    lexChars (fun p => doc.drop p) fuel l = rangedChars doc fuel (l.ranges.toList.drop l.idx) l.pos.bytes :=
  lexChars_eq_rangedChars doc _ (whole_chunking doc).1 (whole_chunking doc).2 fuel l h

/-- `lexStream_eq_rangedChars_partial`: the obligation `model:rangedChars=lexStream` of the driver from the state left by
`ts_lexer_set_included_ranges`, `ts_lexer_set_input`, `ts_lexer_start` on, with `RInv` of that state as a hypothesis
(decidable per case; the non-vacuity example below evaluates it).  The hypothesis is DISCHARGED in `Round11b.lean`
(`lexStream_eq_rangedChars`: every accepted non-empty list, every text that does not begin with a byte-order mark);
this form stays useful for texts that begin with a BOM.  OPEN: the BOM skip of `start` over a range list whose first
range with text starts at offset 0 (C09's `lexStream_bom` does it for the default range). -/
theorem lexStream_eq_rangedChars_partial (text : List Nat) (read : Read) (hch : ChunkingOf text read)
    (hw : WholeChar text read) (rs : List TSRange) (fuel : Nat)
    (h : RInv text (((({} : Lexer).setIncludedRanges rs).1.setInput).start read)) :
    lexChars read fuel (((({} : Lexer).setIncludedRanges rs).1.setInput).start read) =
      rangedChars text fuel
        ((((({} : Lexer).setIncludedRanges rs).1.setInput).start read).ranges.toList.drop
          (((({} : Lexer).setIncludedRanges rs).1.setInput).start read).idx)
        (((({} : Lexer).setIncludedRanges rs).1.setInput).start read).pos.bytes :=
  lexChars_eq_rangedChars text read hch hw fuel _ h

/-- Non-vacuity: `ab<<>>c€d`, ranges `[0,2) [6,6) [6,11)` (an empty range, a multi-byte character), chunks of three
bytes: the state left by `set_included_ranges`, `set_input`, `start` satisfies `RInv`, and the run is `a b c € d`. -/
example : let doc : List Nat := [0x61, 0x62, 0x3c, 0x3c, 0x3e, 0x3e, 0x63, 0xe2, 0x82, 0xac, 0x64]
    let rs : List TSRange := [⟨⟨0,0⟩,⟨0,2⟩,0,2⟩, ⟨⟨0,6⟩,⟨0,6⟩,6,6⟩, ⟨⟨0,6⟩,⟨0,11⟩,6,11⟩]
    let read : Read := fun p => (doc.drop p).take 3
    let l := ((({} : Lexer).setIncludedRanges rs).1.setInput).start read
    RInv doc l ∧ l.idx = 0 ∧ l.pos.bytes = 0 ∧
    lexChars read 12 l = [(0, 0x61, 1), (1, 0x62, 1), (6, 0x63, 1), (7, 0x20ac, 3), (10, 0x64, 1)] := by
  refine ⟨⟨by decide, by decide, by decide, by decide, by decide, by decide, ⟨[0x3c, 0x3e, 0x3e, 0x63, 0xe2, 0x82, 0xac, 0x64], by decide⟩, by decide⟩,
    by decide, by decide, by decide⟩

/-! ## Towards the OPEN initial-state part -/

/-- The scan of `ts_lexer_goto` at offset 0 (what `set_included_ranges` / `set_input` run on a fresh lexer) and the
range-skipping loop of `do_advance` started at the first range's start (what `rangedChars` starts with) find the same
range — the first one that includes text — at its start, or both find none.  No validity hypothesis. -/
theorem findRange_skipL : ∀ (rs : List TSRange) (i : Nat) (pos : Length),
    (∀ r rest, rs = r :: rest → pos.bytes = r.start_byte) →
    match findRange rs i 0 with
    | none => (skipL rs pos).2.2 = false
    | some (j, r) => j = i + (skipL rs pos).1 ∧ (skipL rs pos).2.1.bytes = r.start_byte ∧ (skipL rs pos).2.2 = true ∧
        rs[(skipL rs pos).1]? = some r
  | [], i, pos, _ => by simp [findRange, skipL]
  | cur :: rest, i, pos, hp => by
    have hpos := hp cur rest rfl
    unfold findRange skipL
    by_cases hc : cur.end_byte > 0 ∧ cur.end_byte > cur.start_byte
    · have hn : ¬ (pos.bytes ≥ cur.end_byte ∨ cur.end_byte = cur.start_byte) := by omega
      simp only [hc, hn, and_self, if_true, if_false]
      simp [hpos]
    · have hy : pos.bytes ≥ cur.end_byte ∨ cur.end_byte = cur.start_byte := by omega
      simp only [hc, hy, if_true, if_false]
      cases rest with
      | nil => simp [findRange]
      | cons nxt rest' =>
        have ih := findRange_skipL (nxt :: rest') (i + 1) ⟨nxt.start_byte, nxt.start_point⟩
          (by intro r rest hr; cases hr; rfl)
        simp only
        split at ih
        · simpa using ih
        · rename_i j r hsome
          obtain ⟨q1, q2, q3, q4⟩ := ih
          exact ⟨by omega, q2, q3, by simpa using q4⟩

example : let rs : List TSRange := [⟨⟨0,0⟩,⟨0,0⟩,0,0⟩, ⟨⟨0,3⟩,⟨0,3⟩,3,3⟩, ⟨⟨0,6⟩,⟨0,11⟩,6,11⟩]
    findRange rs 0 0 = some (2, ⟨⟨0,6⟩,⟨0,11⟩,6,11⟩) ∧ skipL rs ⟨0, ⟨0,0⟩⟩ = (2, ⟨6, ⟨0,6⟩⟩, true) := by decide

end TsVerif.C13
