import TsVerif.C13.Lexer
/-!
# C13 — helper definitions and lemmas
-/
namespace TsVerif.C13
open TsGen TsVerif.Lex

/-- The specification of an acceptable range list: every range is well formed and ranges are
ordered and non-overlapping (`end ≤ start` of every later range). -/
def RangesValid (rs : List TSRange) : Prop :=
  (∀ r ∈ rs, r.start_byte ≤ r.end_byte) ∧ rs.Pairwise (fun a b => a.end_byte ≤ b.start_byte)

theorem validFrom_iff : ∀ (rs : List TSRange) (prev : Nat),
    validFrom prev rs = true ↔
      ((∀ r ∈ rs, prev ≤ r.start_byte ∧ r.start_byte ≤ r.end_byte) ∧
        rs.Pairwise (fun a b => a.end_byte ≤ b.start_byte))
  | [], _ => by simp [validFrom]
  | r :: rest, prev => by
    have ih := validFrom_iff rest r.end_byte
    unfold validFrom
    by_cases hbad : r.start_byte < prev ∨ r.end_byte < r.start_byte
    · simp only [hbad, if_true]
      constructor
      · intro h; cases h
      · rintro ⟨h, _⟩
        have := h r (by simp)
        omega
    · simp only [hbad, if_false]
      rw [ih]
      constructor
      · rintro ⟨h1, h2⟩
        refine ⟨?_, List.pairwise_cons.2 ⟨fun q hq => (h1 q hq).1, h2⟩⟩
        intro q hq
        rcases List.mem_cons.1 hq with rfl | hq
        · omega
        · have := h1 q hq; omega
      · rintro ⟨h1, h2⟩
        have hp := List.pairwise_cons.1 h2
        exact ⟨fun q hq => ⟨hp.1 q hq, (h1 q (List.mem_cons_of_mem _ hq)).2⟩, hp.2⟩

theorem goto_ranges (l : Lexer) (p : Length) : (l.goto p).ranges = l.ranges := by
  unfold Lexer.goto
  simp only
  split <;> (repeat' split) <;> simp [Lexer.clearChunk]

/-- `firstBadFrom` counts from its offset. -/
theorem firstBadFrom_ge : ∀ (rs : List TSRange) (prev k m : Nat), firstBadFrom prev k rs = some m → k ≤ m
  | [], _, _, _, h => by simp [firstBadFrom] at h
  | r :: rest, prev, k, m, h => by
    unfold firstBadFrom at h
    split at h
    · simp at h; omega
    · have := firstBadFrom_ge rest _ _ _ h; omega

theorem firstBadFrom_spec : ∀ (rs : List TSRange) (prev k i : Nat),
    firstBadFrom prev k rs = some (k + i) ↔
      (i < rs.length ∧ validFrom prev (rs.take i) = true ∧ validFrom prev (rs.take (i + 1)) = false)
  | [], prev, k, i => by simp [firstBadFrom]
  | r :: rest, prev, k, i => by
    unfold firstBadFrom
    by_cases hbad : r.start_byte < prev ∨ r.end_byte < r.start_byte
    · simp only [hbad, if_true]
      cases i with
      | zero => simp [validFrom, hbad]
      | succ j =>
        simp only [List.take_succ_cons, validFrom, hbad, if_true]
        constructor
        · intro h; simp at h <;> omega
        · rintro ⟨_, h, _⟩; cases h
    · simp only [hbad, if_false]
      cases i with
      | zero =>
        simp only [List.take_zero, List.take_succ_cons, validFrom, hbad, if_false, Nat.add_zero]
        constructor
        · intro h; have := firstBadFrom_ge _ _ _ _ h; omega
        · rintro ⟨_, _, h⟩; simp [validFrom] at h
      | succ j =>
        have ih := firstBadFrom_spec rest r.end_byte (k + 1) j
        have e : k + (j + 1) = k + 1 + j := by omega
        simp only [List.take_succ_cons, validFrom, hbad, if_false, List.length_cons, e]
        rw [ih]
        constructor
        · rintro ⟨a, b, c⟩; exact ⟨by omega, b, c⟩
        · rintro ⟨a, b, c⟩; exact ⟨by omega, b, c⟩

/-! ## Offsets in the concatenation -/

def rangeLen (r : TSRange) : Nat := r.end_byte - r.start_byte

/-- Offset, in the concatenation of `rs`, of document position `p` lying in range number `k` of `rs`. -/
def offsetL : List TSRange → Nat → Nat → Nat
  | [], _, _ => 0
  | r :: _, 0, p => p - r.start_byte
  | r :: rest, k + 1, p => rangeLen r + offsetL rest k p

def totalLen : List TSRange → Nat
  | [] => 0
  | r :: rest => rangeLen r + totalLen rest

/-- Ordered list from `lo` on (what `validFrom lo` accepts). -/
def Ordered : Nat → List TSRange → Prop
  | _, [] => True
  | lo, r :: rest => lo ≤ r.start_byte ∧ r.start_byte ≤ r.end_byte ∧ Ordered r.end_byte rest

theorem ordered_of_validFrom : ∀ (rs : List TSRange) (lo : Nat), validFrom lo rs = true → Ordered lo rs
  | [], _, _ => trivial
  | r :: rest, lo, h => by
    unfold validFrom at h
    split at h
    · cases h
    · exact ⟨by omega, by omega, ordered_of_validFrom rest _ h⟩

/-- The range-skipping loop moves along the concatenation without losing or gaining bytes:
started at a position `p` of the first range (`start ≤ p ≤ end`, e.g. just after a character that
ended inside or exactly at the end of the range) it stops either inside a non-empty range at the
same concatenation offset, or after the last range with the offset equal to the total length. -/
theorem skipL_offset : ∀ (rs : List TSRange) (pos : Length) (lo : Nat), Ordered lo rs →
    (∀ r rest, rs = r :: rest → r.start_byte ≤ pos.bytes ∧ pos.bytes ≤ r.end_byte) →
    let res := skipL rs pos
    (res.2.2 = true →
      ∃ r, rs[res.1]? = some r ∧ r.start_byte ≤ res.2.1.bytes ∧ res.2.1.bytes < r.end_byte ∧
        offsetL rs res.1 res.2.1.bytes = offsetL rs 0 pos.bytes) ∧
    (res.2.2 = false → res.1 = rs.length ∧ totalLen rs = offsetL rs 0 pos.bytes)
  | [], pos, lo, _, _ => by simp [skipL, offsetL, totalLen]
  | cur :: rest, pos, lo, ho, hp => by
    obtain ⟨h1, h2, h3⟩ := ho
    have hpos := hp cur rest rfl
    unfold skipL
    by_cases hc : pos.bytes ≥ cur.end_byte ∨ cur.end_byte = cur.start_byte
    · simp only [hc, if_true]
      have hpe : pos.bytes = cur.end_byte := by omega
      cases rest with
      | nil =>
        simp [offsetL, totalLen, rangeLen]; omega
      | cons nxt rest' =>
        have ih := skipL_offset (nxt :: rest') ⟨nxt.start_byte, nxt.start_point⟩ cur.end_byte h3
          (by intro r rest hr; cases hr; exact ⟨Nat.le_refl _, h3.2.1⟩)
        simp only at ih ⊢
        constructor
        · intro hb
          obtain ⟨r, hr1, hr2, hr3, hr4⟩ := ih.1 hb
          refine ⟨r, by simpa using hr1, hr2, hr3, ?_⟩
          simp only [offsetL] at hr4 ⊢
          rw [hr4]; simp [rangeLen]; omega
        · intro hb
          obtain ⟨e1, e2⟩ := ih.2 hb
          refine ⟨by simp [e1], ?_⟩
          simp only [totalLen, offsetL] at e2 ⊢
          rw [e2]; simp [rangeLen]; omega
    · simp only [hc, if_false]
      refine ⟨fun _ => ⟨cur, by simp, hpos.1, by omega, by first | rfl | trivial⟩, fun h => by cases h⟩

/-- The repaired range-skipping loop (`skipLF`, fixes/C13-empty-range-boundary.diff) and the original one
agree on the number of ranges stepped over and on whether a range was reached, and — when one was — on
the position (the start of a range that includes text is assigned by both); they differ only in the
position left behind at the end of the ranges. -/
theorem skipLF_agrees : ∀ (rs : List TSRange) (p1 p2 : Length),
    (∀ r ∈ rs, r.start_byte ≤ r.end_byte) →
    (∀ r rest, rs = r :: rest → r.end_byte ≠ r.start_byte → p1 = p2) →
    (skipLF rs p1).1 = (skipL rs p2).1 ∧ (skipLF rs p1).2.2 = (skipL rs p2).2.2 ∧
    ((skipL rs p2).2.2 = true → (skipLF rs p1).2.1 = (skipL rs p2).2.1)
  | [], p1, p2, _, _ => by simp [skipL, skipLF]
  | cur :: rest, p1, p2, hw, h => by
    have step : ∀ (nxt : TSRange) (rest' : List TSRange), rest = nxt :: rest' →
        (skipLF rest (if nxt.end_byte > nxt.start_byte then ⟨nxt.start_byte, nxt.start_point⟩ else p1)).1 =
          (skipL rest ⟨nxt.start_byte, nxt.start_point⟩).1 ∧
        (skipLF rest (if nxt.end_byte > nxt.start_byte then ⟨nxt.start_byte, nxt.start_point⟩ else p1)).2.2 =
          (skipL rest ⟨nxt.start_byte, nxt.start_point⟩).2.2 ∧
        ((skipL rest ⟨nxt.start_byte, nxt.start_point⟩).2.2 = true →
          (skipLF rest (if nxt.end_byte > nxt.start_byte then ⟨nxt.start_byte, nxt.start_point⟩ else p1)).2.1 =
            (skipL rest ⟨nxt.start_byte, nxt.start_point⟩).2.1) := by
      intro nxt rest' hr
      refine skipLF_agrees rest _ _ (fun r hr' => hw r (List.mem_cons_of_mem _ hr')) ?_
      intro r rs hrr hne
      rw [hr] at hrr; cases hrr
      have := hw nxt (by rw [hr]; simp)
      have hgt : nxt.end_byte > nxt.start_byte := by omega
      simp [hgt]
    unfold skipL skipLF
    by_cases he : cur.end_byte = cur.start_byte
    · simp only [he, or_true, if_true]
      cases rest with
      | nil => simp
      | cons nxt rest' =>
        have ih := step nxt rest' rfl
        simp only at ih ⊢
        exact ⟨by rw [ih.1], ih.2.1, ih.2.2⟩
    · have hp : p1 = p2 := h cur rest rfl he
      subst hp
      simp only [he, or_false]
      by_cases hc : p1.bytes ≥ cur.end_byte
      · simp only [hc, if_true]
        cases rest with
        | nil => simp
        | cons nxt rest' =>
          have ih := step nxt rest' rfl
          simp only at ih ⊢
          exact ⟨by rw [ih.1], ih.2.1, ih.2.2⟩
      · simp [hc]

end TsVerif.C13
