import TsVerif.C13.Round11
namespace TsVerif.C13
open TsGen TsVerif.Lex TsVerif.Utf TsVerif.C09

theorem findRange_again : ∀ (rs : List TSRange) (i j : Nat) (r : TSRange),
    findRange rs i 0 = some (j, r) → findRange rs i r.start_byte = some (j, r) ∧ r.end_byte > r.start_byte
  | [], _, _, _, h => by simp [findRange] at h
  | cur :: rest, i, j, r, h => by
    unfold findRange at h ⊢
    by_cases hc : cur.end_byte > 0 ∧ cur.end_byte > cur.start_byte
    · simp only [hc, and_self, if_true] at h
      cases h
      simp [hc.2]
    · simp only [hc, if_false] at h
      have ih := findRange_again rest (i+1) j r h
      have hc' : ¬ (cur.end_byte > r.start_byte ∧ cur.end_byte > cur.start_byte) := by omega
      simp only [hc', if_false]; exact ih

theorem goto_some (l : Lexer) (position : Length) (i : Nat) (r : TSRange)
    (h : findRange l.ranges.toList 0 position.bytes = some (i, r)) :
    (l.goto position).idx = i ∧
    (l.goto position).pos.bytes = (if r.start_byte ≥ position.bytes then r.start_byte else position.bytes) ∧
    (l.goto position).ranges = l.ranges ∧ (l.goto position).laSize = 0 ∧
    (l.goto position).skipEmpty = l.skipEmpty ∧
    (l.chunk = [] → (l.goto position).chunk = [] ∧ (l.goto position).chunkStart = l.chunkStart) := by
  unfold Lexer.goto
  by_cases hc : (position.bytes != l.pos.bytes) = true
  · simp only [hc, if_true, h]
    by_cases hs : r.start_byte ≥ position.bytes
    · simp only [hs, if_true]
      refine ⟨?_, ?_, ?_, ?_, ?_, ?_⟩ <;> (repeat' split) <;> simp_all [Lexer.clearChunk] <;> omega
    · simp only [hs, if_false]
      refine ⟨?_, ?_, ?_, ?_, ?_, ?_⟩ <;> (repeat' split) <;> simp_all [Lexer.clearChunk] <;> omega
  · simp only [hc, if_false, h]
    by_cases hs : r.start_byte ≥ position.bytes
    · simp only [hs, if_true]
      refine ⟨?_, ?_, ?_, ?_, ?_, ?_⟩ <;> (repeat' split) <;> simp_all [Lexer.clearChunk] <;> omega
    · simp only [hs, if_false]
      refine ⟨?_, ?_, ?_, ?_, ?_, ?_⟩ <;> (repeat' split) <;> simp_all [Lexer.clearChunk] <;> omega

theorem goto_none (l : Lexer) (position : Length)
    (h : findRange l.ranges.toList 0 position.bytes = none) :
    (l.goto position).idx = l.ranges.size ∧ (l.goto position).ranges = l.ranges := by
  unfold Lexer.goto
  by_cases hc : (position.bytes != l.pos.bytes) = true
  · simp only [hc, if_true]; simp only [h]; simp [Lexer.clearChunk, Lexer.count]
  · simp only [hc, Bool.false_eq_true, if_false, h]; simp [Lexer.clearChunk, Lexer.count]

/-- The state after `ts_lexer_set_included_ranges rs; ts_lexer_set_input` on a fresh lexer. -/
def m0 (rs : List TSRange) : Lexer := (({} : Lexer).setIncludedRanges rs).1.setInput

theorem m0_some (rs : List TSRange) (hne : rs ≠ []) (hv : validFrom 0 rs = true) (i : Nat) (r : TSRange)
    (h : findRange rs 0 0 = some (i, r)) :
    (m0 rs).idx = i ∧ (m0 rs).pos.bytes = r.start_byte ∧ (m0 rs).ranges = rs.toArray ∧ (m0 rs).laSize = 0 ∧
    (m0 rs).skipEmpty = false ∧ (m0 rs).chunk = [] ∧ (m0 rs).chunkStart = 0 := by
  have hie : rs.isEmpty = false := by cases rs <;> simp_all
  have hset : (({} : Lexer).setIncludedRanges rs).1 =
      (({ ({} : Lexer) with ranges := rs.toArray } : Lexer)).goto length_zero := by
    unfold Lexer.setIncludedRanges; simp only [hie, hv, Bool.false_eq_true, if_false, if_true]
  unfold m0 Lexer.setInput
  rw [hset]
  generalize hla : ({ ({} : Lexer) with ranges := rs.toArray } : Lexer) = la
  have la_r : la.ranges.toList = rs := by rw [← hla]
  have la_facts : la.chunk = [] ∧ la.chunkStart = 0 ∧ la.skipEmpty = false ∧ la.ranges = rs.toArray := by
    rw [← hla]; exact ⟨rfl, rfl, rfl, rfl⟩
  obtain ⟨a1, a2, a3, a4, a5, a6⟩ := goto_some la length_zero i r (by rw [la_r]; exact h)
  have hz : length_zero.bytes = 0 := rfl
  simp only [hz, ge_iff_le, Nat.zero_le, if_true] at a2
  generalize hlb : la.goto length_zero = lb at a1 a2 a3 a4 a5 a6 ⊢
  obtain ⟨c1, c2⟩ := a6 la_facts.1
  obtain ⟨f1, f2⟩ := findRange_again rs 0 i r h
  have hb : findRange (lb.clearChunk).ranges.toList 0 lb.pos.bytes = some (i, r) := by
    show findRange lb.ranges.toList 0 lb.pos.bytes = _
    rw [a3, la_r, a2]; exact f1
  obtain ⟨b1, b2, b3, b4, b5, b6⟩ := goto_some lb.clearChunk lb.pos i r hb
  refine ⟨b1, ?_, ?_, b4, ?_, ?_, ?_⟩
  · rw [b2, a2]; simp
  · rw [b3]; show lb.ranges = _; rw [a3]; exact la_facts.2.2.2
  · rw [b5]; show lb.skipEmpty = false; rw [a5]; exact la_facts.2.2.1
  · exact (b6 rfl).1
  · rw [(b6 rfl).2]; rfl

theorem findRange_none_any : ∀ (rs : List TSRange) (i p : Nat), findRange rs i 0 = none → findRange rs i p = none
  | [], _, _, _ => by simp [findRange]
  | cur :: rest, i, p, h => by
    unfold findRange at h ⊢
    by_cases hc : cur.end_byte > 0 ∧ cur.end_byte > cur.start_byte
    · simp only [hc, and_self, if_true] at h; cases h
    · simp only [hc, if_false] at h
      have hc' : ¬ (cur.end_byte > p ∧ cur.end_byte > cur.start_byte) := by omega
      simp only [hc', if_false]
      exact findRange_none_any rest (i + 1) p h

theorem m0_none (rs : List TSRange) (hne : rs ≠ []) (hv : validFrom 0 rs = true)
    (h : findRange rs 0 0 = none) : (m0 rs).eof = true := by
  have hie : rs.isEmpty = false := by cases rs <;> simp_all
  have hset : (({} : Lexer).setIncludedRanges rs).1 =
      (({ ({} : Lexer) with ranges := rs.toArray } : Lexer)).goto length_zero := by
    unfold Lexer.setIncludedRanges; simp only [hie, hv, Bool.false_eq_true, if_false, if_true]
  unfold m0 Lexer.setInput
  rw [hset]
  generalize hla : ({ ({} : Lexer) with ranges := rs.toArray } : Lexer) = la
  have la_r : la.ranges.toList = rs := by rw [← hla]
  obtain ⟨a1, a3⟩ := goto_none la length_zero (by rw [la_r]; exact h)
  generalize hlb : la.goto length_zero = lb at a1 a3 ⊢
  have hb : findRange (lb.clearChunk).ranges.toList 0 lb.pos.bytes = none := by
    show findRange lb.ranges.toList 0 lb.pos.bytes = _
    rw [a3, la_r]; exact findRange_none_any rs 0 _ h
  obtain ⟨b1, b3⟩ := goto_none lb.clearChunk lb.pos hb
  simp only [Lexer.eof, Lexer.count, b1, b3, beq_self_eq_true]

theorem start_body' (read : Read) (m : Lexer) (he : m.eof = false) (h4 : m.chunk = []) (h6 : m.laSize = 0)
    (h5 : m.chunkStart = 0)
    (hb : ((m.refill read).pos.bytes == 0) = true → ((m.refill read).lookahead == BYTE_ORDER_MARK) = false) :
    (if !m.eof then
      let l := if m.chunk.isEmpty then m.getChunk read else m
      let l := if l.laSize == 0 then l.getLookahead read else l
      if l.pos.bytes == 0 then
        let l := if l.lookahead == BYTE_ORDER_MARK then l.advance read true else l
        { l with colValid := true, colValue := 0 }
      else l
    else m) =
      (if (m.refill read).pos.bytes == 0 then { m.refill read with colValid := true, colValue := 0 } else m.refill read) := by
  have hr : (if m.chunk.isEmpty = true then m.getChunk read else m) = m.getChunk read := by simp [h4]
  have hl : (m.getChunk read).laSize = 0 := by unfold Lexer.getChunk; simp only; split <;> simp [h6]
  have hrefill : m.refill read = (m.getChunk read).getLookahead read := by
    unfold Lexer.refill; simp [h4, h5]
  simp only [he, Bool.not_false, if_true, hr, hl, beq_self_eq_true]
  rw [← hrefill]
  by_cases hp : ((m.refill read).pos.bytes == 0) = true
  · simp only [hp, hb hp, if_true, Bool.false_eq_true, if_false]
  · simp only [hp, Bool.false_eq_true, if_false]

theorem RInv_col (text : List Nat) (x : Lexer) (h : RInv text x) (b : Bool) (v : Nat) :
    RInv text { x with colValid := b, colValue := v } :=
  ⟨h.noFix, h.idx, h.inside, h.nonempty, h.lo, h.hi, h.cache, h.look⟩

/-- The first assignments of `ts_lexer_start`. -/
def withTok (m : Lexer) : Lexer := { m with tokStart := m.pos, tokEnd := LENGTH_UNDEFINED }

theorem start_gen (read : Read) (m : Lexer) (he : m.eof = false) (h4 : m.chunk = []) (h6 : m.laSize = 0)
    (h5 : m.chunkStart = 0)
    (hb : (((withTok m).refill read).pos.bytes == 0) = true → (((withTok m).refill read).lookahead == BYTE_ORDER_MARK) = false) :
    m.start read = (if ((withTok m).refill read).pos.bytes == 0 then
        { (withTok m).refill read with colValid := true, colValue := 0 } else (withTok m).refill read) :=
  start_body' read (withTok m) he h4 h6 h5 hb

/-- `lexStream_eq_rangedChars` (closes the obligation `model:rangedChars=lexStream` for texts that do not begin with a
byte-order mark): for every text, every chunking of it with `WholeChar`, and EVERY non-empty range list accepted by the
setter, the `(offset, look-ahead, size)` sequence of the FULL port — `ts_lexer_set_included_ranges`,
`ts_lexer_set_input` (both through `ts_lexer_goto`), `ts_lexer_start`, then `ts_lexer__advance` until EOF — is
`rangedChars text fuel rs rs.head.start_byte`. -/
theorem lexStream_eq_rangedChars (text : List Nat) (read : Read) (hch : ChunkingOf text read) (hw : WholeChar text read)
    (r0 : TSRange) (rest : List TSRange) (hv : validFrom 0 (r0 :: rest) = true)
    (hbom : (norm (decodeUtf8 text)).1 ≠ BYTE_ORDER_MARK) (fuel : Nat) :
    lexChars read fuel ((m0 (r0 :: rest)).start read) = rangedChars text fuel (r0 :: rest) r0.start_byte := by
  have hne : (r0 :: rest) ≠ [] := by simp
  have hfs := findRange_skipL (r0 :: rest) 0 ⟨r0.start_byte, ⟨0, 0⟩⟩ (by intro r rs h; cases h; rfl)
  generalize hrs : r0 :: rest = rs at *
  cases hfr : findRange rs 0 0 with
  | none =>
    rw [hfr] at hfs
    simp only at hfs
    have he := m0_none _ hne hv hfr
    have hs : ((m0 rs).start read).eof = true := by
      unfold Lexer.start
      have : ({ m0 rs with tokStart := (m0 rs).pos, tokEnd := LENGTH_UNDEFINED } : Lexer).eof = true := he
      simp only [this, Bool.not_true, Bool.false_eq_true, if_false]
    rw [rangedChars_done text fuel _ _ hfs]
    cases fuel <;> simp [lexChars, hs]
  | some jr =>
    obtain ⟨i, r⟩ := jr
    rw [hfr] at hfs
    simp only at hfs
    obtain ⟨s1, s2, s3, s4⟩ := hfs
    obtain ⟨n1, n2, n3, n4, n5, n6, n7⟩ := m0_some _ hne hv i r hfr
    obtain ⟨_, f2⟩ := findRange_again _ 0 i r hfr
    have hi : rs[i]? = some r := by rw [s1]; simpa using s4
    have hlt : i < rs.length := by
      rcases Nat.lt_or_ge i rs.length with hh | hh
      · exact hh
      · rw [List.getElem?_eq_none hh] at hi; cases hi
    generalize hM : m0 rs = M at *
    have he : M.eof = false := by simp [Lexer.eof, Lexer.count, n1, n3]; omega
    have x1 : (withTok M).idx = i := n1
    have x2 : (withTok M).pos.bytes = r.start_byte := n2
    have x3 : (withTok M).ranges = rs.toArray := n3
    have x5 : (withTok M).skipEmpty = false := n5
    have x6 : (withTok M).chunk = [] := n6
    have x7 : (withTok M).chunkStart = 0 := n7
    have hst := start_gen read M he n6 n4 n7
    generalize withTok M = X at *
    have hrange : X.range i = r := by
      unfold Lexer.range; rw [x3]
      simp [Array.getD, hlt]
      rw [List.getElem?_eq_getElem hlt] at hi; exact Option.some.inj hi
    have sp := refill_spec read X
    simp only at sp
    rw [x2, x6, x7] at sp
    obtain ⟨p1, p2, p3, p4⟩ := sp
    have cv := coreLook_val text read hch hw r.start_byte ⟨0, []⟩ (Or.inl rfl)
    -- the skip loop of `rangedChars` from the first range's start
    have hk : (skipL rs ⟨r0.start_byte, ⟨0, 0⟩⟩).1 = i := by omega
    by_cases hlen : text.length ≤ r.start_byte
    · have heof := cv.1.2 hlen
      obtain ⟨q1, q2, q3⟩ := p3 heof
      have hbb : ((X.refill read).pos.bytes == 0) = true → ((X.refill read).lookahead == BYTE_ORDER_MARK) = false := by
        intro _; rw [q2]; decide
      have hs : (M.start read).eof = true := by
        rw [hst hbb]
        split <;> simp [Lexer.eof, Lexer.count, q1, p2]
      rw [rangedChars_beyond text fuel _ _ (by rw [s2]; exact hlen)]
      cases fuel <;> simp [lexChars, hs]
    · have heof : (coreLook read r.start_byte ⟨0, []⟩).2.2.2 = false := by
        cases hq : (coreLook read r.start_byte ⟨0, []⟩).2.2.2 with
        | false => rfl
        | true => have := cv.1.1 hq; omega
      have hf := coreLook_facts text read hch r.start_byte ⟨0, []⟩ (Or.inl rfl) heof
      simp only at hf
      obtain ⟨m1, m2, m3, m4, m5, m6⟩ := hf
      obtain ⟨t1, t2, t3, t4, t5⟩ := p4 heof m1
      have hpos : (X.refill read).pos.bytes = r.start_byte := by rw [p1]; exact x2
      have hidx : (X.refill read).idx = i := by rw [t1]; exact x1
      have hrange' : (X.refill read).range (X.refill read).idx = r := by
        unfold Lexer.range at hrange ⊢; rw [p2, hidx]; exact hrange
      have hinv : RInv text (X.refill read) :=
        { noFix := by rw [refill_skipEmpty]; exact x5
          idx := by rw [p2, hidx, x3]; simpa using hlt
          inside := by rw [hrange', hpos]; exact f2
          nonempty := by rw [hrange']; omega
          lo := by rw [t4, hpos]; exact m3
          hi := by rw [t4, t5, hpos]; exact m4
          cache := by rw [t4, t5]; exact m2
          look := by rw [t2, t3, hpos]; exact cv.2 heof }
      have hbb : ((X.refill read).pos.bytes == 0) = true → ((X.refill read).lookahead == BYTE_ORDER_MARK) = false := by
        intro h0
        have h0' : r.start_byte = 0 := by rw [hpos] at h0; simpa using h0
        have hl := congrArg Prod.fst (cv.2 heof)
        simp only at hl
        rw [t2, hl, h0', List.drop_zero]
        simpa using hbom
      have hrhs : rangedChars text fuel rs r0.start_byte = rangedChars text fuel (rs.drop i) r.start_byte := by
        rw [rangedChars_skip text fuel rs r0.start_byte s3, hk, s2]
      have hlist : (X.refill read).ranges.toList.drop (X.refill read).idx = rs.drop i := by
        rw [p2, hidx, x3]
      rw [hst hbb, hrhs]
      split
      · have := lexChars_eq_rangedChars text read hch hw fuel _ (RInv_col text _ hinv true 0)
        rw [this]
        show rangedChars text fuel ((X.refill read).ranges.toList.drop (X.refill read).idx) (X.refill read).pos.bytes = _
        rw [hlist, hpos]
      · rw [lexChars_eq_rangedChars text read hch hw fuel _ hinv, hlist, hpos]

/-- Non-vacuity: `ab<<>>c€d`, ranges `[0,2) [6,6) [6,11)`, three-byte chunks: accepted list, no BOM, and the run. -/
example : let doc : List Nat := [0x61, 0x62, 0x3c, 0x3c, 0x3e, 0x3e, 0x63, 0xe2, 0x82, 0xac, 0x64]
    let rs : List TSRange := [⟨⟨0,0⟩,⟨0,2⟩,0,2⟩, ⟨⟨0,6⟩,⟨0,6⟩,6,6⟩, ⟨⟨0,6⟩,⟨0,11⟩,6,11⟩]
    let read : Read := fun p => (doc.drop p).take 3
    validFrom 0 rs = true ∧ (norm (decodeUtf8 doc)).1 ≠ BYTE_ORDER_MARK ∧
    lexChars read 12 ((m0 rs).start read) = [(0, 0x61, 1), (1, 0x62, 1), (6, 0x63, 1), (7, 0x20ac, 3), (10, 0x64, 1)] ∧
    rangedChars doc 12 rs 0 = [(0, 0x61, 1), (1, 0x62, 1), (6, 0x63, 1), (7, 0x20ac, 3), (10, 0x64, 1)] := by
  refine ⟨by decide, by decide, by decide, by decide⟩

/-- `port_stream_concat`: clause 1 of the property at the level of the FULL lexer port on BOTH sides.  For every
document, every accepted non-empty range list with `RangesOnCharBoundaries` (`FitRun`), every chunking of the document
and every chunking of the concatenation (both with `WholeChar`; neither text begins with a byte-order mark; the
concatenation is shorter than `UINT32_MAX`): the sequence of (look-ahead, size) that the port produces over
(document, ranges) — `set_included_ranges`, `set_input`, `start`, `advance`… — is the one it produces over the
concatenation of the ranges as a stand-alone text with the default range. -/
theorem port_stream_concat (doc : List Nat) (read : Read) (hch : ChunkingOf doc read) (hw : WholeChar doc read)
    (r0 : TSRange) (rest : List TSRange) (hv : validFrom 0 (r0 :: rest) = true)
    (hbom : (norm (decodeUtf8 doc)).1 ≠ BYTE_ORDER_MARK) (fuel : Nat)
    (hf : FitRun doc fuel (r0 :: rest) r0.start_byte)
    (read2 : Read) (hch2 : ChunkingOf (concatL doc (r0 :: rest)) read2) (hw2 : WholeChar (concatL doc (r0 :: rest)) read2)
    (hsmall : (concatL doc (r0 :: rest)).length < UMAX)
    (hbom2 : (coreLook read2 0 ⟨0, []⟩).1 ≠ BYTE_ORDER_MARK) :
    (lexChars read fuel ((m0 (r0 :: rest)).start read)).map (fun x => (x.2.1, x.2.2)) =
      (lexStream read2 fuel).map (fun x => (x.2.1, x.2.2)) := by
  rw [lexStream_eq_rangedChars doc read hch hw r0 rest hv hbom fuel, stream_concat_text doc r0 rest fuel hv hf,
    lexStream_eq_coreChars _ read2 hch2 hsmall hbom2, chars_chunk_indep _ read2 hch2 hw2 fuel 0 _ (Or.inl rfl)]

end TsVerif.C13
