import TsVerif.C13.Lemmas
import TsVerif.C13.StreamLemmas
/-!
# C13 — Parsing included ranges equals parsing their concatenation

Property text: "Parsing a document restricted to a list of included ranges yields the same tree
shape as parsing the concatenation of those ranges as a stand-alone text, with every node position
mapped back to document coordinates, and no leaf covers excluded text. The range setter accepts
exactly the ordered, non-overlapping lists, and the tree reports the ranges it was parsed with."

Clause-by-clause map (property sentence → theorem; PROVED = kernel-checked ∀-theorem about the ports in
`Lexer.lean` / `Stream.lean`, which are tied to `lib/src/lexer.c` by scripted runs of the real lexer,
`checks/c13.py`; JUDGED = decided on every real output by the Lean judge `Judge.lean`):

1. "Parsing a document restricted to a list of included ranges yields the same tree shape as parsing the
   concatenation of those ranges as a stand-alone text"
   * PROVED, lexer level — `stream_concat` (+ `stream_concat_text`): under `RangesOnCharBoundaries` (= `FitRun`:
     along the run no character straddles a range end and an ill-formed byte is at least four bytes before one;
     decidable, evaluated per real case) the sequence of (code point or error, size) and the EOF seen over
     (document, ranges) is the one seen over the concatenation.  `char_split_witness`: without the hypothesis the
     streams differ (finding C13-char-splitting-range-boundary).  The theorem is about `rangedChars`, the character
     logic of the port over ranges (skip loop, EOF, decode from the unclipped document, advance); that the full
     port (`set_included_ranges`, `set_input`/`goto`, `start`, `advance`/`do_advance`: chunks, columns, fast path, range
     loop, EOF) produces that sequence is PROVED for every accepted non-empty range list, every `WholeChar` chunking
     and every text that does not begin with a byte-order mark — `Round11.lean`/`Round11b.lean`:
     `lexChars_eq_rangedChars`, `advance_step`, `lexStream_eq_rangedChars`; `port_stream_concat` states clause 1 with
     the full port on both sides (ranged run = run over the concatenation with the default range).  Texts beginning
     with a BOM: `lexStream_eq_rangedChars_partial` + the driver's per-case check (`model:rangedChars=lexStream`).
   * PROVED, tree level, for DETERMINISTIC parsing only — `TreeLevel.lean`: `driver_concat` (any lex-mode-driven
     lex/parse loop that reads the text only through the observation sequence ends in the same parser state) and
     `tree_shape_concat` (w-incr's LR machine with extras, `C01.LR` + `steps_skel`: token lists with the same
     symbols — sizes in document resp. concatenation coordinates — go through the same states and build trees of
     the same shape).  Corollaries of `stream_concat` by congruence; the modelling claim behind them (the parser
     is a function of the observation sequence: no GLR, no error recovery, no external scanner, no `get_column`)
     is not proved against the C code.
   * JUDGED, tree level, all parses (GLR, error recovery, external scanners included) — `cmpTree` on the dumps of
     both real trees; where the claim is genuinely false the judge says so (findings C13-error-recovery,
     C13-char-splitting-range-boundary, C13-range-beyond-eof-boundary; column-sensitive scanners are compared only
     when no gap contains a newline).
2. "with every node position mapped back to document coordinates"
   * PROVED, lexer level — `seam_offset_preserved`: crossing a seam neither loses nor gains bytes of the
     concatenation (empty and adjacent ranges included); `skipL_remC` (the invariant of `stream_concat`: what is
     left of the concatenation at the lexer's document position); `mark_end_on_range`: token ends lie on an
     included range (closed).
   * JUDGED, tree level — every node's start/end (bytes and points) is the ψ-image of the concatenation node's
     (`psiRight` for starts, `psiLeft` for ends; zero-width leaves by the convention below).
3. "and no leaf covers excluded text"
   * PROVED, lexer level — `token_inside`: every character the lexer consumes lies inside one of the ranges and
     inside the document.
   * JUDGED, tree level — a leaf *boundary* may not lie strictly inside excluded text (the literal reading — no
     byte of a leaf is excluded — is false by construction: a token continuing across a gap contains the gap,
     finding C13-literal-leaf-spans-gap).
4. "The range setter accepts exactly the ordered, non-overlapping lists"
   * PROVED — `ranges_valid_iff`, `set_ranges_accepts_iff`; nothing is assigned on failure / the list is stored
     on success: `set_ranges_reject_keeps`, `set_ranges_assigns`; the Rust wrapper's error index is the first
     offending index: `first_bad_index_spec`, `first_bad_exists`.  Tied to the real setter per generated list.
5. "and the tree reports the ranges it was parsed with"
   * JUDGED — `Tree::included_ranges` of the real tree equals the list handed to the setter (empty list → the
     whole-document range); no theorem (the value is copied by `ts_tree_new`, outside the lexer port).

Boundary conventions: ranges are half-open in bytes; `ψ` is right-biased for starts and
left-biased for ends; empty ranges include nothing.
-/
namespace TsVerif.C13
open TsGen TsVerif.Lex

/-- `ranges_valid_iff`: the validation loop accepts exactly the lists whose ranges are well formed
and pairwise ordered without overlap. -/
theorem ranges_valid_iff (rs : List TSRange) : validFrom 0 rs = true ↔ RangesValid rs := by
  rw [validFrom_iff]
  unfold RangesValid
  constructor
  · rintro ⟨h1, h2⟩; exact ⟨fun r hr => (h1 r hr).2, h2⟩
  · rintro ⟨h1, h2⟩; exact ⟨fun r hr => ⟨Nat.zero_le _, h1 r hr⟩, h2⟩

example : RangesValid [⟨⟨0,0⟩,⟨0,2⟩,0,2⟩, ⟨⟨0,2⟩,⟨0,2⟩,2,2⟩, ⟨⟨0,6⟩,⟨0,11⟩,6,11⟩] := by
  simp [RangesValid]

/-- The setter's verdict: accepted iff the list is empty (→ whole document) or valid. -/
theorem set_ranges_accepts_iff (l : Lexer) (rs : List TSRange) :
    (l.setIncludedRanges rs).2 = true ↔ (rs = [] ∨ RangesValid rs) := by
  unfold Lexer.setIncludedRanges
  by_cases he : rs = []
  · simp [he]
  · have : rs.isEmpty = false := by cases rs <;> simp_all
    rw [← ranges_valid_iff]
    by_cases hv : validFrom 0 rs = true <;> simp [this, hv, he]

/-- On failure nothing is assigned: the lexer is returned unchanged. -/
theorem set_ranges_reject_keeps (l : Lexer) (rs : List TSRange)
    (h : (l.setIncludedRanges rs).2 = false) : (l.setIncludedRanges rs).1 = l := by
  unfold Lexer.setIncludedRanges at h ⊢
  split
  · simp_all
  · split
    · simp_all
    · rfl

/-- On success the lexer holds exactly the given list (the whole-document range for the empty list). -/
theorem set_ranges_assigns (l : Lexer) (rs : List TSRange)
    (h : (l.setIncludedRanges rs).2 = true) :
    (l.setIncludedRanges rs).1.ranges = (if rs.isEmpty then #[DEFAULT_RANGE] else rs.toArray) := by
  unfold Lexer.setIncludedRanges at h ⊢
  split
  · simp [goto_ranges]
  · split
    · simp [goto_ranges]
    · simp_all

/-- `first_bad_index_spec`: the index reported by `Parser::set_included_ranges` is `i` iff the
first `i` ranges form a valid list and the first `i+1` do not. -/
theorem first_bad_index_spec (rs : List TSRange) (i : Nat) :
    firstBad rs = some i ↔
      (i < rs.length ∧ validFrom 0 (rs.take i) = true ∧ validFrom 0 (rs.take (i + 1)) = false) := by
  have := firstBadFrom_spec rs 0 0 i
  simpa [firstBad] using this

/-- A rejected list always has a first offending index (the wrapper's fall-through
`IncludedRangesError(0)` is dead code), an accepted one has none. -/
theorem first_bad_exists (rs : List TSRange) : (firstBad rs).isSome = !validFrom 0 rs := by
  have key : ∀ (rs : List TSRange) (prev k : Nat), (firstBadFrom prev k rs).isSome = !validFrom prev rs := by
    intro rs
    induction rs with
    | nil => intro prev k; simp [firstBadFrom, validFrom]
    | cons r rest ih =>
      intro prev k
      unfold firstBadFrom validFrom
      split <;> simp [ih]
  exact key rs 0 0

/-- `seam_offset_preserved` (positional core of `stream_concat`): for every valid list, if the
lexer stands at `p` in the first of the remaining ranges (`start ≤ p ≤ end`: just after a
character that did not straddle the range end), the range-skipping loop of `ts_lexer__do_advance`
ends either inside a non-empty range at the SAME offset of the concatenation, or past the last
range with that offset equal to the concatenation's length.  Empty and adjacent ranges included. -/
theorem seam_offset_preserved (rs : List TSRange) (pos : Length) (lo : Nat)
    (hv : validFrom lo rs = true)
    (hp : ∀ r rest, rs = r :: rest → r.start_byte ≤ pos.bytes ∧ pos.bytes ≤ r.end_byte) :
    ((skipL rs pos).2.2 = true →
      ∃ r, rs[(skipL rs pos).1]? = some r ∧ r.start_byte ≤ (skipL rs pos).2.1.bytes ∧
        (skipL rs pos).2.1.bytes < r.end_byte ∧
        offsetL rs (skipL rs pos).1 (skipL rs pos).2.1.bytes = offsetL rs 0 pos.bytes) ∧
    ((skipL rs pos).2.2 = false →
      (skipL rs pos).1 = rs.length ∧ totalLen rs = offsetL rs 0 pos.bytes) :=
  skipL_offset rs pos lo (ordered_of_validFrom rs lo hv) hp

example : let rs : List TSRange := [⟨⟨0,0⟩,⟨0,2⟩,0,2⟩, ⟨⟨0,3⟩,⟨0,3⟩,3,3⟩, ⟨⟨0,6⟩,⟨0,11⟩,6,11⟩]
    validFrom 0 rs = true ∧ skipL rs ⟨2, ⟨0,2⟩⟩ = (2, ⟨6, ⟨0,6⟩⟩, true) ∧ offsetL rs 2 6 = 2 := by decide

/-- `mark_end_on_range`: when the lexer is not at EOF and stands inside range `idx`
(`start ≤ pos ≤ end`), the token end recorded by `ts_lexer__mark_end` lies on a given range
(closed interval): on range `idx` itself, or — at its very start — on the end of range `idx-1`
(the code as it is, `skipEmpty = false`; with fixes/C13-empty-range-boundary.diff it is the end of the nearest
previous range that includes text). -/
theorem mark_end_on_range (l : Lexer) (hv : l.skipEmpty = false) (h1 : l.idx < l.count)
    (h2 : (l.range l.idx).start_byte ≤ l.pos.bytes ∧ l.pos.bytes ≤ (l.range l.idx).end_byte) :
    ∃ j, j < l.count ∧ (l.range j).start_byte ≤ l.markEnd.tokEnd.bytes ∧ l.markEnd.tokEnd.bytes ≤ (l.range j).end_byte ∨
      (l.markEnd.tokEnd.bytes = (l.range j).end_byte ∧ j + 1 = l.idx) := by
  unfold Lexer.markEnd
  have hne : l.eof = false := by simp [Lexer.eof]; omega
  simp only [hne]
  by_cases hc : (l.idx > 0 && l.pos.bytes == (l.range l.idx).start_byte) = true
  · refine ⟨l.idx - 1, Or.inr ?_⟩
    simp only [Bool.and_eq_true, decide_eq_true_eq] at hc
    simp [hc, hv]; omega
  · refine ⟨l.idx, Or.inl ⟨h1, ?_⟩⟩
    simp [hc]; exact h2

/-- `stream_concat`: for every document and every valid range list, if along the run every
character fits its range (`FitRun`, the decidable form of RangesOnCharBoundaries evaluated by the
driver on each real case), then the lexer over (document, ranges) sees exactly the sequence of
(code point or error, size) — and the same end — that a lexer sees over the concatenation of the
ranges' bytes as a stand-alone text. -/
theorem stream_concat (doc : List Nat) (r0 : TSRange) (rest : List TSRange) (fuel : Nat)
    (hv : validFrom 0 (r0 :: rest) = true) (hf : FitRun doc fuel (r0 :: rest) r0.start_byte) :
    (rangedChars doc fuel (r0 :: rest) r0.start_byte).map (fun x => (x.2.1, x.2.2)) =
      refCharsS fuel (concatL doc (r0 :: rest)) :=
  (stream_concat_core doc fuel (r0 :: rest) r0.start_byte 0 (ordered_of_validFrom _ 0 hv)
    (by intro r rs h; cases h; exact Nat.le_refl _) hf).1

/-- The same, phrased with C09's reference sequence of the concatenation as a text. -/
theorem stream_concat_text (doc : List Nat) (r0 : TSRange) (rest : List TSRange) (fuel : Nat)
    (hv : validFrom 0 (r0 :: rest) = true) (hf : FitRun doc fuel (r0 :: rest) r0.start_byte) :
    (rangedChars doc fuel (r0 :: rest) r0.start_byte).map (fun x => (x.2.1, x.2.2)) =
      (C09.refChars (concatL doc (r0 :: rest)) fuel 0).map (fun x => (x.2.1, x.2.2)) := by
  rw [stream_concat doc r0 rest fuel hv hf, refChars_map]; rfl

/-- `token_inside`: under the same hypotheses every character the lexer consumes over
(document, ranges) lies entirely inside one of the given ranges and inside the document. -/
theorem token_inside (doc : List Nat) (r0 : TSRange) (rest : List TSRange) (fuel : Nat)
    (hv : validFrom 0 (r0 :: rest) = true) (hf : FitRun doc fuel (r0 :: rest) r0.start_byte) :
    ∀ x ∈ rangedChars doc fuel (r0 :: rest) r0.start_byte,
      ∃ r ∈ r0 :: rest, r.start_byte ≤ x.1 ∧ x.1 + x.2.2 ≤ r.end_byte ∧ x.1 + x.2.2 ≤ doc.length :=
  (stream_concat_core doc fuel (r0 :: rest) r0.start_byte 0 (ordered_of_validFrom _ 0 hv)
    (by intro r rs h; cases h; exact Nat.le_refl _) hf).2

/-- Non-vacuity: `ab<<>>c€d`, ranges `[0,2) [6,6) [6,11)`: the hypotheses hold and the run is `a b c € d`. -/
example : let doc : List Nat := [0x61, 0x62, 0x3c, 0x3c, 0x3e, 0x3e, 0x63, 0xe2, 0x82, 0xac, 0x64]
    let rs : List TSRange := [⟨⟨0,0⟩,⟨0,2⟩,0,2⟩, ⟨⟨0,6⟩,⟨0,6⟩,6,6⟩, ⟨⟨0,6⟩,⟨0,11⟩,6,11⟩]
    validFrom 0 rs = true ∧ fitRunB doc 12 rs 0 = true ∧
    rangedChars doc 12 rs 0 = [(0, 0x61, 1), (1, 0x62, 1), (6, 0x63, 1), (7, 0x20ac, 3), (10, 0x64, 1)] := by decide

/-! ## Witness for the necessity of `RangesOnCharBoundaries` (finding C13-char-splitting-range-boundary) -/

/-- Look-ahead characters seen by `start` followed by `n` advances. -/
def lookaheads (read : Read) (l : Lexer) : Nat → List Int
  | 0 => [(l.start read).lookahead]
  | n + 1 =>
    let rec go (l : Lexer) : Nat → List Int
      | 0 => []
      | k + 1 => let l' := l.advance read false; l'.lookahead :: go l' k
    let l0 := l.start read
    l0.lookahead :: go l0 (n + 1)

def wDoc : List Nat := [0x61, 0xc3, 0xa9, 0x20, 0x58, 0x58, 0x20, 0x62]      -- "aé XX b"
def wRanges : List TSRange := [⟨⟨0,0⟩,⟨0,2⟩,0,2⟩, ⟨⟨0,6⟩,⟨0,8⟩,6,8⟩]           -- first range ends inside `é`
def wConcat : List Nat := [0x61, 0xc3, 0x20, 0x62]
def wholeRead (doc : List Nat) : Read := fun p => doc.drop p

set_option maxRecDepth 20000 in
/-- Over `(doc, ranges)` the lexer sees `a é ␠ b`; over the concatenation `61 C3 20 62` it sees
`a ERROR ␠ b`: without `RangesOnCharBoundaries` the two character streams differ. -/
theorem char_split_witness :
    lookaheads (wholeRead wDoc) ((({} : Lexer).setIncludedRanges wRanges).1.setInput) 3 = [0x61, 0xe9, 0x20, 0x62] ∧
    lookaheads (wholeRead wConcat) (({} : Lexer).setInput) 3 = [0x61, -1, 0x20, 0x62] := by
  decide

end TsVerif.C13
