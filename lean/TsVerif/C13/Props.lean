import TsVerif.C13.Lemmas
/-!
# C13 — Parsing included ranges equals parsing their concatenation

Property text: "Parsing a document restricted to a list of included ranges yields the same tree
shape as parsing the concatenation of those ranges as a stand-alone text, with every node position
mapped back to document coordinates, and no leaf covers excluded text. The range setter accepts
exactly the ordered, non-overlapping lists, and the tree reports the ranges it was parsed with."

Clause map (theorems are about the ports in `Lexer.lean`, tied to `lib/src/lexer.c` by scripted
runs of the real lexer, `checks/c13.py`):

* "the setter accepts exactly the ordered, non-overlapping lists"  → `ranges_valid_iff`, `set_ranges_accepts_iff`
* nothing is assigned on failure / the list is stored on success   → `set_ranges_reject_keeps`, `set_ranges_assigns`
* the Rust wrapper's error index is the first offending index       → `first_bad_index_spec`, `first_bad_exists`
* positions map back by ψ: crossing a seam neither loses nor gains
  bytes of the concatenation (empty and adjacent ranges included)    → `seam_offset_preserved`
* token ends lie on an included range (closed)                       → `mark_end_on_range`
* "same characters as the concatenation" (`stream_concat`)          → OPEN; needs `RangesOnCharBoundaries`
  (a character of the document never straddles a range end): `char_split_witness` shows the streams
  differ without it (genuine finding, known_findings/C13.json).  What is proved towards it is the
  positional core `seam_offset_preserved`; the decoder-locality half (a well-formed character is
  decoded from its own bytes only) is not proved for the `U8_NEXT` port.
* "same tree shape", "tree reports its ranges", "no leaf covers excluded text" → decided per real
  case by the Lean judge (`Judge.lean`); conventions: a leaf *boundary* may not lie strictly inside
  excluded text (the literal reading — no byte of a leaf is excluded — is false by construction:
  a token continuing across a gap contains the gap, finding C13-literal-leaf-spans-gap).

Boundary conventions: ranges are half-open in bytes; `ψ` is right-biased for starts and
left-biased for ends; empty ranges include nothing.
-/
namespace TsVerif.C13
open TsGen TsVerif.Lex

/-- `ranges_valid_iff`: the validation loop accepts exactly the lists whose ranges are well formed
and pairwise ordered without overlap. -/
theorem ranges_valid_iff (rs : List TSRange) : validFrom 0 rs = true ↔ RangesValid rs := by
  rw [validFrom_iff]
  unfold RangesValid
  constructor
  · rintro ⟨h1, h2⟩; exact ⟨fun r hr => (h1 r hr).2, h2⟩
  · rintro ⟨h1, h2⟩; exact ⟨fun r hr => ⟨Nat.zero_le _, h1 r hr⟩, h2⟩

example : RangesValid [⟨⟨0,0⟩,⟨0,2⟩,0,2⟩, ⟨⟨0,2⟩,⟨0,2⟩,2,2⟩, ⟨⟨0,6⟩,⟨0,11⟩,6,11⟩] := by
  simp [RangesValid]

/-- The setter's verdict: accepted iff the list is empty (→ whole document) or valid. -/
theorem set_ranges_accepts_iff (l : Lexer) (rs : List TSRange) :
    (l.setIncludedRanges rs).2 = true ↔ (rs = [] ∨ RangesValid rs) := by
  unfold Lexer.setIncludedRanges
  by_cases he : rs = []
  · simp [he]
  · have : rs.isEmpty = false := by cases rs <;> simp_all
    rw [← ranges_valid_iff]
    by_cases hv : validFrom 0 rs = true <;> simp [this, hv, he]

/-- On failure nothing is assigned: the lexer is returned unchanged. -/
theorem set_ranges_reject_keeps (l : Lexer) (rs : List TSRange)
    (h : (l.setIncludedRanges rs).2 = false) : (l.setIncludedRanges rs).1 = l := by
  unfold Lexer.setIncludedRanges at h ⊢
  split
  · simp_all
  · split
    · simp_all
    · rfl

/-- On success the lexer holds exactly the given list (the whole-document range for the empty list). -/
theorem set_ranges_assigns (l : Lexer) (rs : List TSRange)
    (h : (l.setIncludedRanges rs).2 = true) :
    (l.setIncludedRanges rs).1.ranges = (if rs.isEmpty then #[DEFAULT_RANGE] else rs.toArray) := by
  unfold Lexer.setIncludedRanges at h ⊢
  split
  · simp [goto_ranges]
  · split
    · simp [goto_ranges]
    · simp_all

/-- `first_bad_index_spec`: the index reported by `Parser::set_included_ranges` is `i` iff the
first `i` ranges form a valid list and the first `i+1` do not. -/
theorem first_bad_index_spec (rs : List TSRange) (i : Nat) :
    firstBad rs = some i ↔
      (i < rs.length ∧ validFrom 0 (rs.take i) = true ∧ validFrom 0 (rs.take (i + 1)) = false) := by
  have := firstBadFrom_spec rs 0 0 i
  simpa [firstBad] using this

/-- A rejected list always has a first offending index (the wrapper's fall-through
`IncludedRangesError(0)` is dead code), an accepted one has none. -/
theorem first_bad_exists (rs : List TSRange) : (firstBad rs).isSome = !validFrom 0 rs := by
  have key : ∀ (rs : List TSRange) (prev k : Nat), (firstBadFrom prev k rs).isSome = !validFrom prev rs := by
    intro rs
    induction rs with
    | nil => intro prev k; simp [firstBadFrom, validFrom]
    | cons r rest ih =>
      intro prev k
      unfold firstBadFrom validFrom
      split <;> simp [ih]
  exact key rs 0 0

/-- `seam_offset_preserved` (positional core of `stream_concat`): for every valid list, if the
lexer stands at `p` in the first of the remaining ranges (`start ≤ p ≤ end`: just after a
character that did not straddle the range end), the range-skipping loop of `ts_lexer__do_advance`
ends either inside a non-empty range at the SAME offset of the concatenation, or past the last
range with that offset equal to the concatenation's length.  Empty and adjacent ranges included. -/
theorem seam_offset_preserved (rs : List TSRange) (pos : Length) (lo : Nat)
    (hv : validFrom lo rs = true)
    (hp : ∀ r rest, rs = r :: rest → r.start_byte ≤ pos.bytes ∧ pos.bytes ≤ r.end_byte) :
    ((skipL rs pos).2.2 = true →
      ∃ r, rs[(skipL rs pos).1]? = some r ∧ r.start_byte ≤ (skipL rs pos).2.1.bytes ∧
        (skipL rs pos).2.1.bytes < r.end_byte ∧
        offsetL rs (skipL rs pos).1 (skipL rs pos).2.1.bytes = offsetL rs 0 pos.bytes) ∧
    ((skipL rs pos).2.2 = false →
      (skipL rs pos).1 = rs.length ∧ totalLen rs = offsetL rs 0 pos.bytes) :=
  skipL_offset rs pos lo (ordered_of_validFrom rs lo hv) hp

example : let rs : List TSRange := [⟨⟨0,0⟩,⟨0,2⟩,0,2⟩, ⟨⟨0,3⟩,⟨0,3⟩,3,3⟩, ⟨⟨0,6⟩,⟨0,11⟩,6,11⟩]
    validFrom 0 rs = true ∧ skipL rs ⟨2, ⟨0,2⟩⟩ = (2, ⟨6, ⟨0,6⟩⟩, true) ∧ offsetL rs 2 6 = 2 := by decide

/-- `mark_end_on_range`: when the lexer is not at EOF and stands inside range `idx`
(`start ≤ pos ≤ end`), the token end recorded by `ts_lexer__mark_end` lies on a given range
(closed interval): on range `idx` itself, or — at its very start — on the end of range `idx-1`. -/
theorem mark_end_on_range (l : Lexer) (h1 : l.idx < l.count)
    (h2 : (l.range l.idx).start_byte ≤ l.pos.bytes ∧ l.pos.bytes ≤ (l.range l.idx).end_byte) :
    ∃ j, j < l.count ∧ (l.range j).start_byte ≤ l.markEnd.tokEnd.bytes ∧ l.markEnd.tokEnd.bytes ≤ (l.range j).end_byte ∨
      (l.markEnd.tokEnd.bytes = (l.range j).end_byte ∧ j + 1 = l.idx) := by
  unfold Lexer.markEnd
  have hne : l.eof = false := by simp [Lexer.eof]; omega
  simp only [hne]
  by_cases hc : (l.idx > 0 && l.pos.bytes == (l.range l.idx).start_byte) = true
  · refine ⟨l.idx - 1, Or.inr ?_⟩
    simp only [Bool.and_eq_true, decide_eq_true_eq] at hc
    simp [hc]; omega
  · refine ⟨l.idx, Or.inl ⟨h1, ?_⟩⟩
    simp [hc]; exact h2

/-! ## Witness for the necessity of `RangesOnCharBoundaries` (finding C13-char-splitting-range-boundary) -/

/-- Look-ahead characters seen by `start` followed by `n` advances. -/
def lookaheads (read : Read) (l : Lexer) : Nat → List Int
  | 0 => [(l.start read).lookahead]
  | n + 1 =>
    let rec go (l : Lexer) : Nat → List Int
      | 0 => []
      | k + 1 => let l' := l.advance read false; l'.lookahead :: go l' k
    let l0 := l.start read
    l0.lookahead :: go l0 (n + 1)

def wDoc : List Nat := [0x61, 0xc3, 0xa9, 0x20, 0x58, 0x58, 0x20, 0x62]      -- "aé XX b"
def wRanges : List TSRange := [⟨⟨0,0⟩,⟨0,2⟩,0,2⟩, ⟨⟨0,6⟩,⟨0,8⟩,6,8⟩]           -- first range ends inside `é`
def wConcat : List Nat := [0x61, 0xc3, 0x20, 0x62]
def wholeRead (doc : List Nat) : Read := fun p => doc.drop p

set_option maxRecDepth 20000 in
/-- Over `(doc, ranges)` the lexer sees `a é ␠ b`; over the concatenation `61 C3 20 62` it sees
`a ERROR ␠ b`: without `RangesOnCharBoundaries` the two character streams differ. -/
theorem char_split_witness :
    lookaheads (wholeRead wDoc) ((({} : Lexer).setIncludedRanges wRanges).1.setInput) 3 = [0x61, 0xe9, 0x20, 0x62] ∧
    lookaheads (wholeRead wConcat) (({} : Lexer).setInput) 3 = [0x61, -1, 0x20, 0x62] := by
  decide

end TsVerif.C13
