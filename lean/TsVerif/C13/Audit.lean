import TsVerif.C13.Props
import TsVerif.C13.TreeLevel
import TsVerif.C13.Round11
import TsVerif.C13.Round11b
#print axioms TsVerif.C13.ranges_valid_iff
#print axioms TsVerif.C13.set_ranges_accepts_iff
#print axioms TsVerif.C13.set_ranges_reject_keeps
#print axioms TsVerif.C13.set_ranges_assigns
#print axioms TsVerif.C13.first_bad_index_spec
#print axioms TsVerif.C13.first_bad_exists
#print axioms TsVerif.C13.seam_offset_preserved
#print axioms TsVerif.C13.mark_end_on_range
#print axioms TsVerif.C13.char_split_witness
#print axioms TsVerif.C13.stream_concat
#print axioms TsVerif.C13.stream_concat_text
#print axioms TsVerif.C13.token_inside
#print axioms TsVerif.C13.obs_eq
#print axioms TsVerif.C13.driver_concat
#print axioms TsVerif.C13.tree_shape_concat
#print axioms TsVerif.C13.lexChars_eq_rangedChars
#print axioms TsVerif.C13.lexChars_eq_rangedChars_whole
#print axioms TsVerif.C13.lexStream_eq_rangedChars_partial
#print axioms TsVerif.C13.advance_step
#print axioms TsVerif.C13.findRange_skipL
#print axioms TsVerif.C13.lexStream_eq_rangedChars
#print axioms TsVerif.C13.port_stream_concat
