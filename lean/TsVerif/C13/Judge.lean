import TsVerif.Common.Tree
import TsVerif.C13.Lexer
/-!
# C13 judge — `parse(doc, ranges)` against `parse(concat(ranges))`, decided on the real trees

Conventions (Props.lean header): the *effective* ranges are the given ranges clipped to the
document and with empty ones dropped; `C` is the concatenation of their bytes; `ψ` maps offsets of
`C` to document offsets — right-biased for node starts (a start at a seam is the start of the
next range), left-biased for node ends (an end at a seam is the end of the previous range).
-/
namespace TsVerif.C13
open TsGen TsVerif TsVerif.Lex TsVerif.Utf

structure Eff where
  a : Nat
  b : Nat
  cum : Nat
  deriving Repr

/-- Effective ranges with cumulative offsets in the concatenation. -/
def effRanges (rs : List TSRange) (len : Nat) : List Eff :=
  let rec go (rs : List TSRange) (cum : Nat) : List Eff :=
    match rs with
    | [] => []
    | r :: rest =>
      let b := min r.end_byte len
      if r.start_byte < b then { a := r.start_byte, b := b, cum := cum } :: go rest (cum + (b - r.start_byte))
      else go rest cum
  go rs 0

def concatLen (es : List Eff) : Nat := es.foldl (fun n e => n + (e.b - e.a)) 0

/-- `ψ` right-biased: the document offset of concat byte `q` (`none` at/after the end of `C`). -/
def psiRight : List Eff → Nat → Option Nat
  | [], _ => none
  | e :: rest, q => if q < e.cum + (e.b - e.a) then some (e.a + (q - e.cum)) else psiRight rest q

/-- `ψ` left-biased: the document offset just after concat byte `q-1` (`0 ↦ 0`). -/
def psiLeft : List Eff → Nat → Nat
  | [], _ => 0
  | e :: rest, q => if q ≤ e.cum + (e.b - e.a) then (if q ≤ e.cum then 0 else e.a + (q - e.cum)) else
      match rest with
      | [] => e.b
      | _ => psiLeft rest q

/-- Is `p` an allowed node boundary: inside or at either end of a non-empty effective range? -/
def inClosure (es : List Eff) (p : Nat) : Bool := es.any fun e => e.a ≤ p && p ≤ e.b

def pointAt (text : Array Nat) (i : Nat) : TSPoint := Id.run do
  let mut row := 0
  let mut col := 0
  for k in [0:min i text.size] do
    if text[k]! == 10 then
      row := row + 1
      col := 0
    else
      col := col + 1
  return { row := row, column := col + (i - min i text.size) }

structure Stats where
  nodes : Nat := 0
  leaves : Nat := 0
  gapLeaves : Nat := 0      -- leaves whose byte range contains excluded bytes (literal reading of "covers excluded text")
  quirks : Nat := 0         -- boundaries that sit on an EMPTY given range instead of ψ's image (tolerated, reported separately)
  quirkPos : List Nat := [] -- the positions of those boundaries
  quirkMsg : String := ""
  fail : Option String := none

def Stats.bad (s : Stats) (msg : String) : Stats :=
  match s.fail with
  | some _ => s
  | none => { s with fail := some msg }

def spansGap (es : List Eff) (a b : Nat) : Bool :=
  -- some byte of [a,b) is in no effective range
  let inc := es.foldl (fun n e => n + (min b e.b - max a e.a)) 0
  a < b && inc < b - a

mutual
  /-- Is the leftmost leaf of the tree zero-width (e.g. an external scanner's INDENT/NEWLINE, a MISSING token)? -/
  def firstLeafEmpty : Tree → Bool
    | .mk d [] => d.size.bytes == 0
    | .mk _ (k :: _) => firstLeafEmpty k
end

/-- Is the rightmost leaf of the tree zero-width? -/
def lastLeafEmpty : Tree → Bool
  | .mk d [] => d.size.bytes == 0
  | .mk d (k :: ks) =>
    have : sizeOf ((k :: ks).getLast (by simp)) < 1 + sizeOf d + sizeOf (k :: ks) := by
      have := List.sizeOf_lt_of_mem (List.getLast_mem (l := k :: ks) (by simp)); omega
    lastLeafEmpty ((k :: ks).getLast (by simp))

mutual
  /-- Lock-step walk of the ranged tree `t` (document coordinates) and the tree `c` of the
  concatenation.  `off`/`offC` are the absolute positions where each node's padding starts. -/
  def cmpTree (es : List Eff) (empties : List Nat) (doc : Array Nat) (positions : Bool) (t c : Tree) (off offC : Length) (st : Stats) : Stats :=
    match t, c with
    | .mk d kids, .mk dc kidsC =>
      let s := (length_add off d.padding)
      let e := (length_add s d.size)
      let sC := offC.bytes + dc.padding.bytes
      let eC := sC + dc.size.bytes
      let st := { st with nodes := st.nodes + 1 }
      let st := if d.symbol != dc.symbol || kids.length != kidsC.length || d.visible != dc.visible ||
                   d.named != dc.named || d.extra != dc.extra || d.isMissing != dc.isMissing
                then st.bad s!"shape: node at document bytes [{s.bytes},{e.bytes}) has symbol {d.symbol}/{kids.length} children, concatenation has symbol {dc.symbol}/{kidsC.length} children at [{sC},{eC})"
                else st
      let st :=
        if !positions || st.fail.isSome then st
        else if d.size.bytes == 0 then
          -- zero-width node: anywhere between the two images of its concat offset
          let lo := psiLeft es sC
          match psiRight es sC with
          | some hi => if lo ≤ s.bytes && s.bytes ≤ hi then st else st.bad s!"position: empty node at {s.bytes}, expected within [{lo},{hi}] (concat offset {sC})"
          | none => if lo ≤ s.bytes then st else st.bad s!"position: empty node at {s.bytes}, expected at or after {lo} (concat offset {sC})"
        else
          let es' := psiLeft es eC
          match psiRight es sC with
          | some ss =>
            -- the empty-range rule of the code: a boundary at a seam may sit on an EMPTY given range
            -- lying between the two images of the seam
            let startQuirk := s.bytes != ss && empties.contains s.bytes && psiLeft es sC ≤ s.bytes && s.bytes ≤ ss
            let endHi := (psiRight es eC).getD (e.bytes + 1)
            let endQuirk := e.bytes != es' && empties.contains e.bytes && es' ≤ e.bytes && e.bytes ≤ endHi
            -- a node that BEGINS with a zero-width token at a seam starts where that token sits: at the left image
            -- (`mark_end` at a range start reports the previous range's end and `finish` pulls the start back);
            -- one that ENDS with a zero-width token may end at the right image
            let zwStart := firstLeafEmpty (.mk d kids) && s.bytes == psiLeft es sC
            let zwEnd := lastLeafEmpty (.mk d kids) && psiRight es eC == some e.bytes
            let okS := s.bytes == ss || zwStart
            let okE := e.bytes == es' || zwEnd
            if !okS && !startQuirk then st.bad s!"position: node starts at {s.bytes}, ψ(concat start {sC}) = {ss}"
            else if !okE && !endQuirk then st.bad s!"position: node [{s.bytes},{e.bytes}) ends at {e.bytes}, ψ(concat end {eC}) = {es'}"
            else if decide (s.extent ≠ pointAt doc s.bytes) || decide (e.extent ≠ pointAt doc e.bytes) then
              st.bad s!"position: node [{s.bytes},{e.bytes}) has points {s.extent.row}:{s.extent.column}-{e.extent.row}:{e.extent.column}, the document says {(pointAt doc s.bytes).row}:{(pointAt doc s.bytes).column}-{(pointAt doc e.bytes).row}:{(pointAt doc e.bytes).column}"
            else if (!okS && startQuirk) || (!okE && endQuirk) then
              { st with quirks := st.quirks + 1,
                        quirkPos := (if !okS && startQuirk then [s.bytes] else []) ++ (if !okE && endQuirk then [e.bytes] else []) ++ st.quirkPos,
                        quirkMsg := if st.quirks == 0 then s!"node [{s.bytes},{e.bytes}) has a boundary on an empty included range; ψ gives [{ss},{es'})" else st.quirkMsg }
            else st
          | none => st.bad s!"position: non-empty node at concat offset {sC} beyond the concatenation"
      -- leaves: boundaries never strictly inside excluded text
      let st :=
        if kids.isEmpty then
          let st := { st with leaves := st.leaves + 1, gapLeaves := st.gapLeaves + (if spansGap es s.bytes e.bytes then 1 else 0) }
          if positions && d.size.bytes > 0 &&
              !((inClosure es s.bytes || empties.contains s.bytes) && (inClosure es e.bytes || empties.contains e.bytes)) then
            st.bad s!"leaf [{s.bytes},{e.bytes}) has a boundary strictly inside excluded text"
          else st
        else st
      cmpKids es empties doc positions kids kidsC off offC st
  def cmpKids (es : List Eff) (empties : List Nat) (doc : Array Nat) (positions : Bool) (ks ksC : List Tree) (off offC : Length) (st : Stats) : Stats :=
    match ks, ksC with
    | k :: rest, kc :: restC =>
      let st := cmpTree es empties doc positions k kc off offC st
      cmpKids es empties doc positions rest restC (length_add off k.totalSize) (length_add offC kc.totalSize) st
    | _, _ => st
end

/-- Positions of the given ranges that include nothing (empty, or starting at/after the end of the document). -/
def emptyPositions (rs : List TSRange) (len : Nat) : List Nat :=
  (rs.filter fun r => !(r.start_byte < min r.end_byte len)).map (·.start_byte)

mutual
  /-- Some node of the tree carries the `depends_on_column` flag (a column-sensitive external scanner produced it). -/
  def anyColumn : Tree → Bool
    | .mk d kids => d.dependsOnColumn || anyColumnL kids
  def anyColumnL : List Tree → Bool
    | [] => false
    | t :: ts => anyColumn t || anyColumnL ts
end

/-- Positions of the given ranges with `start = end` (truly empty). -/
def trueEmptyPositions (rs : List TSRange) : List Nat :=
  (rs.filter fun r => r.start_byte ≥ r.end_byte).map (·.start_byte)

/-- Does the tree contain an error (ERROR / MISSING node)? -/
def hasError (t : Tree) : Bool := t.data.errorCost > 0 || t.data.isMissing || t.data.symbol == 65535

/-- Positions at which the document has a character start when decoded from the beginning with the
lexer's decoder (ill-formed bytes count as one-byte characters). -/
def charStarts (doc : List Nat) : List Nat :=
  let rec go (fuel : Nat) (bytes : List Nat) (p : Nat) : List Nat :=
    match fuel with
    | 0 => []
    | fuel + 1 =>
      if bytes.isEmpty then [p]
      else
        let (cp, n) := decodeUtf8 bytes
        let n := if cp == DECODE_ERROR || n == 0 then 1 else n
        p :: go fuel (bytes.drop n) (p + n)
  go (doc.length + 1) doc 0

/-- `RangesOnCharBoundaries`: every boundary of an effective range is a character start (or the end) of the document. -/
def onCharBoundaries (es : List Eff) (doc : List Nat) : Bool :=
  let cs := charStarts doc
  es.all fun e => cs.contains e.a && cs.contains e.b

/-- The bytes the ranged lexer actually consumes (characters are decoded from the document, not
clipped to the range): `E(doc, ranges)`.  Equals the concatenation when `onCharBoundaries`. -/
def effectiveText (rs : List TSRange) (doc : Array Nat) : List Nat :=
  let docL := doc.toList
  let rec go (fuel : Nat) (idx : Nat) (p : Nat) (acc : List Nat) : List Nat :=
    match fuel with
    | 0 => acc
    | fuel + 1 =>
      match rs[idx]? with
      | none => acc
      | some r =>
        if p ≥ r.end_byte ∨ r.end_byte = r.start_byte then
          match rs[idx + 1]? with
          | some nx => go fuel (idx + 1) nx.start_byte acc
          | none => acc
        else if p ≥ doc.size then acc
        else
          let bytes := docL.drop p
          let (cp, n) := decodeUtf8 bytes
          let n := if cp == DECODE_ERROR || n == 0 then 1 else n
          go fuel idx (p + n) (acc ++ bytes.take n)
  match rs with
  | [] => docL
  | r0 :: _ => go (2 * doc.size + 2 * rs.length + 4) 0 r0.start_byte []

end TsVerif.C13
