import TsVerif.C13.Stream
import TsVerif.C13.Lemmas
import TsVerif.C09.Lemmas
/-!
# C13 — lemmas for `stream_concat`
-/
namespace TsVerif.C13
open TsGen TsVerif.Lex TsVerif.Utf TsVerif.C09

theorem slice_prefix (doc : List Nat) (a b : Nat) : slice doc a b <+: doc.drop a := List.take_prefix _ _

theorem slice_length (doc : List Nat) (a b : Nat) : (slice doc a b).length = min (b - a) (doc.length - a) := by
  simp [slice]

theorem slice_drop (doc : List Nat) (a b n : Nat) : (slice doc a b).drop n = slice doc (a + n) b := by
  unfold slice
  rw [List.drop_take, List.drop_drop]
  congr 1; omega

theorem slice_nil_of_le (doc : List Nat) (a b : Nat) (h : b ≤ a ∨ doc.length ≤ a) : slice doc a b = [] := by
  apply List.eq_nil_of_length_eq_zero
  rw [slice_length]; omega

theorem concatL_nil_of_beyond (doc : List Nat) : ∀ (rs : List TSRange) (lo : Nat), Ordered lo rs →
    doc.length ≤ lo → concatL doc rs = []
  | [], _, _, _ => rfl
  | r :: rest, lo, ⟨h1, h2, h3⟩, hl => by
    simp only [concatL]
    rw [slice_nil_of_le doc _ _ (Or.inr (by omega)), concatL_nil_of_beyond doc rest r.end_byte h3 (by omega)]
    rfl

/-- The range-skipping loop does not change what is left of the concatenation, and ends inside a
non-empty range or with nothing left. -/
theorem skipL_remC (doc : List Nat) : ∀ (rs : List TSRange) (pos : Length) (lo : Nat), Ordered lo rs →
    (∀ r rest, rs = r :: rest → r.start_byte ≤ pos.bytes) →
    remC doc rs pos.bytes = remC doc (rs.drop (skipL rs pos).1) (skipL rs pos).2.1.bytes ∧
    ((skipL rs pos).2.2 = true →
      ∃ r rest, rs.drop (skipL rs pos).1 = r :: rest ∧ r ∈ rs ∧ r.start_byte ≤ (skipL rs pos).2.1.bytes ∧
        (skipL rs pos).2.1.bytes < r.end_byte ∧ Ordered r.start_byte (r :: rest)) ∧
    ((skipL rs pos).2.2 = false → rs.drop (skipL rs pos).1 = [])
  | [], pos, lo, _, _ => by simp [skipL, remC]
  | cur :: rest, pos, lo, ho, hp => by
    obtain ⟨h1, h2, h3⟩ := ho
    have hpos := hp cur rest rfl
    unfold skipL
    by_cases hc : pos.bytes ≥ cur.end_byte ∨ cur.end_byte = cur.start_byte
    · simp only [hc, if_true]
      have hs : slice doc pos.bytes cur.end_byte = [] := slice_nil_of_le doc _ _ (Or.inl (by omega))
      cases rest with
      | nil => simp [remC, concatL, hs]
      | cons nxt rest' =>
        have ih := skipL_remC doc (nxt :: rest') ⟨nxt.start_byte, nxt.start_point⟩ cur.end_byte h3
          (by intro r rest hr; cases hr; exact Nat.le_refl _)
        simp only at ih ⊢
        refine ⟨?_, ?_, ?_⟩
        · simp only [List.drop_succ_cons]
          rw [← ih.1]
          simp [remC, concatL, hs]
        · intro hb
          obtain ⟨r, rest2, e1, e2, e3, e4, e5⟩ := ih.2.1 hb
          exact ⟨r, rest2, by simpa using e1, List.mem_cons_of_mem _ e2, e3, e4, e5⟩
        · intro hb
          simpa using ih.2.2 hb
    · simp only [hc, if_false]
      refine ⟨by simp, fun _ => ⟨cur, rest, by simp, by simp, hpos, by omega, ⟨Nat.le_refl _, h2, h3⟩⟩, fun h => by cases h⟩

/-- Core of `stream_concat` and `token_inside`, from any state of the run. -/
theorem stream_concat_core (doc : List Nat) : ∀ (fuel : Nat) (rs : List TSRange) (pos lo : Nat),
    Ordered lo rs → (∀ r rest, rs = r :: rest → r.start_byte ≤ pos) → FitRun doc fuel rs pos →
    (rangedChars doc fuel rs pos).map (fun x => (x.2.1, x.2.2)) = refCharsS fuel (remC doc rs pos) ∧
    ∀ x ∈ rangedChars doc fuel rs pos, ∃ r ∈ rs, r.start_byte ≤ x.1 ∧ x.1 + x.2.2 ≤ r.end_byte ∧ x.1 + x.2.2 ≤ doc.length
  | 0, _, _, _, _, _, _ => by simp [rangedChars, refCharsS]
  | fuel + 1, rs, pos, lo, ho, hp, hf => by
    have hsk := skipL_remC doc rs ⟨pos, ⟨0, 0⟩⟩ lo ho hp
    unfold rangedChars refCharsS
    unfold FitRun at hf
    simp only at hf hsk ⊢
    generalize hskd : skipL rs ⟨pos, ⟨0, 0⟩⟩ = sk at hsk hf ⊢
    obtain ⟨hrem, hin, hout⟩ := hsk
    rw [hrem]
    by_cases hb : sk.2.2 = true
    · obtain ⟨r, rest, hdrop, hmem, hs1, hs2, hord⟩ := hin hb
      simp only [hb, Bool.not_true, Bool.false_eq_true, if_false]
      rw [hdrop]
      by_cases hlen : sk.2.1.bytes ≥ doc.length
      · simp only [hlen, if_true]
        have : remC doc (r :: rest) sk.2.1.bytes = [] := by
          simp only [remC]
          rw [slice_nil_of_le doc _ _ (Or.inr hlen), concatL_nil_of_beyond doc rest r.end_byte hord.2.2 (by omega)]
          rfl
        simp [this]
      · simp only [hlen, if_false]
        have hlt : sk.2.1.bytes < doc.length := by omega
        obtain ⟨hfit, hrun⟩ := hf hb hlt r (by rw [hdrop]; rfl)
        -- the bytes of the range from the position on
        have hpre_len : (slice doc sk.2.1.bytes r.end_byte).length = min (r.end_byte - sk.2.1.bytes) (doc.length - sk.2.1.bytes) :=
          slice_length _ _ _
        have hpre_ne : slice doc sk.2.1.bytes r.end_byte ≠ [] := by
          intro he; have := congrArg List.length he; rw [hpre_len] at this; simp at this; omega
        have hp1 : slice doc sk.2.1.bytes r.end_byte <+: doc.drop sk.2.1.bytes := slice_prefix _ _ _
        have hp2 : slice doc sk.2.1.bytes r.end_byte <+: remC doc (r :: rest) sk.2.1.bytes := by
          simp only [remC]; exact List.prefix_append _ _
        have hd1 : decodeUtf8 (doc.drop sk.2.1.bytes) = decodeUtf8 (slice doc sk.2.1.bytes r.end_byte) := by
          rcases hfit with h | h
          · exact decode_prefix_stable _ _ hp1 (decodeUtf8 (slice doc sk.2.1.bytes r.end_byte)).1 (decodeUtf8 (slice doc sk.2.1.bytes r.end_byte)).2 rfl h
          · exact decode_ge4 _ _ hp1 h
        have hd2 : decodeUtf8 (remC doc (r :: rest) sk.2.1.bytes) = decodeUtf8 (slice doc sk.2.1.bytes r.end_byte) := by
          rcases hfit with h | h
          · exact decode_prefix_stable _ _ hp2 (decodeUtf8 (slice doc sk.2.1.bytes r.end_byte)).1 (decodeUtf8 (slice doc sk.2.1.bytes r.end_byte)).2 rfl h
          · exact decode_ge4 _ _ hp2 h
        -- the size fits the range
        have hsize : (norm (decodeUtf8 (slice doc sk.2.1.bytes r.end_byte))).2 ≤ (slice doc sk.2.1.bytes r.end_byte).length := by
          by_cases he : (decodeUtf8 (slice doc sk.2.1.bytes r.end_byte)).1 = DECODE_ERROR
          · have : 0 < (slice doc sk.2.1.bytes r.end_byte).length := by
              rw [hpre_len]; omega
            simp [norm, he]; omega
          · have := decode_ok_size _ _ _ rfl he
            simp [norm, he]; exact this.2
        have hremne : (remC doc (r :: rest) sk.2.1.bytes).isEmpty = false := by
          obtain ⟨t, ht⟩ := hp2
          rw [← ht]; cases hq : slice doc sk.2.1.bytes r.end_byte with
          | nil => exact absurd hq hpre_ne
          | cons a b => rfl
        simp only [hremne, Bool.false_eq_true, if_false]
        rw [hd1] at hrun ⊢
        rw [hd2]
        generalize hn : (norm (decodeUtf8 (slice doc sk.2.1.bytes r.end_byte))).2 = n at hrun hsize ⊢
        have hdropeq : (remC doc (r :: rest) sk.2.1.bytes).drop n = remC doc (r :: rest) (sk.2.1.bytes + n) := by
          simp only [remC]
          rw [List.drop_append_of_le_length hsize, slice_drop]
        rw [hdropeq]
        have ih := stream_concat_core doc fuel (r :: rest) (sk.2.1.bytes + n) r.start_byte hord
          (by intro r' rest' hr; cases hr; omega) (by rw [hdrop] at hrun; exact hrun)
        refine ⟨?_, ?_⟩
        · simp only [List.map_cons]
          rw [ih.1]
        · intro x hx
          rcases List.mem_cons.1 hx with rfl | hx
          · exact ⟨r, hmem, hs1, by simp only; rw [hpre_len] at hsize; omega, by simp only; rw [hpre_len] at hsize; omega⟩
          · obtain ⟨r', hr', h1, h2, h3⟩ := ih.2 x hx
            refine ⟨r', ?_, h1, h2, h3⟩
            have : r' ∈ rs.drop sk.1 := by rw [hdrop]; exact hr'
            exact List.mem_of_mem_drop this
    · have hb' : sk.2.2 = false := by cases h : sk.2.2 <;> simp_all
      have := hout hb'
      simp [hb', this, remC]

/-- The suffix form of the reference sequence is the reference sequence of C09 without the offsets. -/
theorem refChars_map (text : List Nat) : ∀ (fuel p : Nat),
    (refChars text fuel p).map (fun x => (x.2.1, x.2.2)) = refCharsS fuel (text.drop p)
  | 0, _ => by simp [refChars, refCharsS]
  | fuel + 1, p => by
    unfold refChars refCharsS
    by_cases h : p ≥ text.length
    · have : text.drop p = [] := List.drop_eq_nil_of_le h
      simp [h, this]
    · have hne : (text.drop p).isEmpty = false := by
        cases hq : text.drop p with
        | nil => have := List.drop_eq_nil_iff.1 hq; omega
        | cons a b => rfl
      simp only [h, hne, if_false, Bool.false_eq_true, List.map_cons]
      rw [refChars_map text fuel, List.drop_drop]

/-- The Boolean check the driver evaluates implies the hypothesis of `stream_concat`. -/
theorem fitRunB_sound (doc : List Nat) : ∀ (fuel : Nat) (rs : List TSRange) (pos : Nat),
    fitRunB doc fuel rs pos = true → FitRun doc fuel rs pos
  | 0, _, _, _ => trivial
  | fuel + 1, rs, pos, h => by
    unfold fitRunB at h
    unfold FitRun
    simp only at h ⊢
    intro hb hl r hr
    simp only [hb, hl, decide_true, Bool.and_self, if_true, hr, Bool.and_eq_true, Bool.or_eq_true,
      bne_iff_ne, ne_eq, decide_eq_true_eq] at h
    exact ⟨h.1, fitRunB_sound doc fuel _ _ h.2⟩

end TsVerif.C13
