import TsVerif.C13.Lexer
import TsVerif.C09.Model
/-!
# C13 — the character stream over (document, ranges) and over the concatenation

`rangedChars` is the character logic of the lexer port over included ranges with the document in
one chunk: normalise the position with the range-skipping loop `skipL` (the `while` of
`ts_lexer__do_advance`), stop at the end of the ranges or of the document, decode at the position
FROM THE DOCUMENT (not clipped to the range — as `ts_lexer__get_lookahead` does), advance by the
size.  (That the chunk logic does not matter is C09's `chars_chunk_indep`.)  That the full port
`Lexer.start/advance` produces this sequence is checked by the driver on every real case.
-/
namespace TsVerif.C13
open TsGen TsVerif.Lex TsVerif.Utf TsVerif.C09

/-- `doc[a, b)` clipped to the document. -/
def slice (doc : List Nat) (a b : Nat) : List Nat := (doc.drop a).take (b - a)

/-- The concatenation of the ranges' bytes. -/
def concatL (doc : List Nat) : List TSRange → List Nat
  | [] => []
  | r :: rest => slice doc r.start_byte r.end_byte ++ concatL doc rest

/-- What is left of the concatenation when the lexer stands at `pos` in the first of the remaining ranges. -/
def remC (doc : List Nat) : List TSRange → Nat → List Nat
  | [], _ => []
  | r :: rest, pos => slice doc pos r.end_byte ++ concatL doc rest

/-- Reference character sequence of a text given as the remaining bytes: `(code point or -1, size)`. -/
def refCharsS : Nat → List Nat → List (Int × Nat)
  | 0, _ => []
  | fuel + 1, s =>
    if s.isEmpty then []
    else
      let d := norm (decodeUtf8 s)
      (d.1, d.2) :: refCharsS fuel (s.drop d.2)

/-- `(document offset, code point or -1, size)` seen over (document, remaining ranges) from `pos`. -/
def rangedChars (doc : List Nat) : Nat → List TSRange → Nat → List (Nat × Int × Nat)
  | 0, _, _ => []
  | fuel + 1, rs, pos =>
    let sk := skipL rs ⟨pos, ⟨0, 0⟩⟩
    if !sk.2.2 then []
    else
      let p := sk.2.1.bytes
      if p ≥ doc.length then []
      else
        let d := norm (decodeUtf8 (doc.drop p))
        (p, d.1, d.2) :: rangedChars doc fuel (rs.drop sk.1) (p + d.2)

/-- The character at `p` fits its range: the bytes of the range from `p` on decide the decoding
(they decode to a character, or there are at least four of them). -/
def Fit (doc : List Nat) (p : Nat) (r : TSRange) : Prop :=
  (decodeUtf8 (slice doc p r.end_byte)).1 ≠ DECODE_ERROR ∨ 4 ≤ (slice doc p r.end_byte).length

/-- `RangesOnCharBoundaries`: along the run over (document, ranges) every character fits its range
(no character straddles a range end; an ill-formed byte is at least four bytes before a range end). -/
def FitRun (doc : List Nat) : Nat → List TSRange → Nat → Prop
  | 0, _, _ => True
  | fuel + 1, rs, pos =>
    let sk := skipL rs ⟨pos, ⟨0, 0⟩⟩
    sk.2.2 = true → sk.2.1.bytes < doc.length →
      ∀ r, (rs.drop sk.1).head? = some r →
        Fit doc sk.2.1.bytes r ∧
        FitRun doc fuel (rs.drop sk.1) (sk.2.1.bytes + (norm (decodeUtf8 (doc.drop sk.2.1.bytes))).2)

/-- Decidable version for the driver. -/
def fitRunB (doc : List Nat) : Nat → List TSRange → Nat → Bool
  | 0, _, _ => true
  | fuel + 1, rs, pos =>
    let sk := skipL rs ⟨pos, ⟨0, 0⟩⟩
    if sk.2.2 && decide (sk.2.1.bytes < doc.length) then
      match (rs.drop sk.1).head? with
      | some r =>
        let pre := slice doc sk.2.1.bytes r.end_byte
        ((decodeUtf8 pre).1 != DECODE_ERROR || decide (4 ≤ pre.length)) &&
        fitRunB doc fuel (rs.drop sk.1) (sk.2.1.bytes + (norm (decodeUtf8 (doc.drop sk.2.1.bytes))).2)
      | none => true
    else true

end TsVerif.C13
