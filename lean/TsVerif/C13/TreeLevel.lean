import TsVerif.C13.Props
import TsVerif.C01.Skel
/-!
# C13 — from "same characters" to "same tree shape", for deterministic parsing

`stream_concat` (Props.lean) is a statement about the LEXER: over (document, ranges) it sees the
character sequence of the concatenation.  The property's main clause is about TREES.  What connects the
two is the shape of the parser: everything `ts_parser__lex` / `ts_lex` / a table-driven parse learn about the
text they learn through `lookahead`, `advance`, `eof` — i.e. from the observation sequence
`(code point or error, size)*` followed by the end — PROVIDED there is no error recovery (its costs count
skipped BYTES and ROWS, and a gap inside a skipped stretch changes them — the known finding
`C13-error-recovery`), no external scanner and no `get_column` (column-sensitive scanners see the gap's
columns — the `colsens` exclusion of the judge).  Under that reading:

* `driver_concat`: ANY deterministic driver that alternates "lex one token in the lex mode of the current
  parser state" and "advance the parser by that token" (C01's `runDriver`; positions are indices into the
  observation sequence) reaches the same parser state — hence builds the same tree — over (document, ranges)
  and over the concatenation.  This covers mode-dependent lexing interleaved with parsing.
* `tree_shape_concat`: for w-incr's deterministic LR machine with extras (`C01.LR`; `steps_skel`: the machine
  looks only at token symbols): two token lists whose SYMBOLS are the same function of the observation
  sequence — one with paddings/sizes in document coordinates, one in concatenation coordinates — drive the
  machine through the same states and build trees of the same shape (`LR.skel`: same symbols, same nesting,
  same leaf symbols; paddings and sizes forgotten).  With `stream_concat` the premise holds for the token list
  over (document, ranges) and the one over the concatenation.

Both are corollaries by congruence: their content is the modelling claim above (the parser is a function of
the observation sequence), which is NOT proved against the C code; on real runs it is the Lean judge
(`Judge.lean`: `cmpTree`, ψ) that decides "same shape, positions mapped back" per case, GLR and error
recovery included.  Positions: that a token's document span is the ψ-image of its concatenation span is
`seam_offset_preserved` (lexer level) and judged per node (tree level).
-/
namespace TsVerif.C13
open TsGen TsVerif.Lex TsVerif.C01

/-- What a lex function can observe of a text through the `TSLexer` interface. -/
abbrev CharStream := List (Int × Nat)

/-- The observation sequence over (document, ranges). -/
def obsRanged (doc : List Nat) (fuel : Nat) (rs : List TSRange) : CharStream :=
  match rs with
  | [] => []
  | r0 :: _ => (rangedChars doc fuel rs r0.start_byte).map fun x => (x.2.1, x.2.2)

/-- The observation sequence over the concatenation as a stand-alone text. -/
def obsConcat (doc : List Nat) (fuel : Nat) (rs : List TSRange) : CharStream := refCharsS fuel (concatL doc rs)

theorem obs_eq (doc : List Nat) (r0 : TSRange) (rest : List TSRange) (fuel : Nat)
    (hv : validFrom 0 (r0 :: rest) = true) (hf : FitRun doc fuel (r0 :: rest) r0.start_byte) :
    obsRanged doc fuel (r0 :: rest) = obsConcat doc fuel (r0 :: rest) :=
  stream_concat doc r0 rest fuel hv hf

/-- `driver_concat`: a deterministic lex-then-parse loop (lex mode taken from the parser state, one token
lexed from what is left of the observation sequence) ends in the same parser state over (document, ranges) and
over the concatenation. -/
theorem driver_concat {σ μ : Type} (step : σ → Tok → σ) (mode : σ → μ) (lexOne : μ → CharStream → Tok)
    (doc : List Nat) (r0 : TSRange) (rest : List TSRange) (fuel : Nat)
    (hv : validFrom 0 (r0 :: rest) = true) (hf : FitRun doc fuel (r0 :: rest) r0.start_byte)
    (n : Nat) (s : σ) :
    runDriver step mode (fun m i => lexOne m ((obsRanged doc fuel (r0 :: rest)).drop i)) n s 0 =
    runDriver step mode (fun m i => lexOne m ((obsConcat doc fuel (r0 :: rest)).drop i)) n s 0 := by
  rw [obs_eq doc r0 rest fuel hv hf]

theorem map_skelTok (l : List Tok) : l.map LR.skelTok = (l.map (·.sym)).map fun s => ({ sym := s, pad := 0, size := 0, la := 0 } : Tok) := by
  rw [List.map_map]; rfl

/-- `tree_shape_concat`: for the deterministic LR machine of C01 (extras and non-terminal extras included;
no GLR, no error recovery): if the token symbols are a function `symbols` of the observation sequence, the
token list `tokR` lexed over (document, ranges) and the token list `tokC` lexed over the concatenation —
whatever their paddings and sizes — take the machine through configurations with the same states and the
same tree shapes, after every number `k` of steps. -/
theorem tree_shape_concat (T : LR.Table) (bottom k : Nat) (symbols : CharStream → List Nat)
    (doc : List Nat) (r0 : TSRange) (rest : List TSRange) (fuel : Nat)
    (hv : validFrom 0 (r0 :: rest) = true) (hf : FitRun doc fuel (r0 :: rest) r0.start_byte)
    (tokR tokC : List Tok)
    (hR : tokR.map (·.sym) = symbols (obsRanged doc fuel (r0 :: rest)))
    (hC : tokC.map (·.sym) = symbols (obsConcat doc fuel (r0 :: rest))) :
    (LR.steps T bottom k [] tokR).map LR.skelCfg = (LR.steps T bottom k [] tokC).map LR.skelCfg := by
  have h : tokR.map LR.skelTok = tokC.map LR.skelTok := by
    rw [map_skelTok, map_skelTok, hR, hC, obs_eq doc r0 rest fuel hv hf]
  have e1 := LR.steps_skel T bottom k [] tokR
  have e2 := LR.steps_skel T bottom k [] tokC
  simp only [List.map_nil] at e1 e2
  rw [← e1, ← e2, h]

/-- Non-vacuity: a document `ab⎵⎵cd` with ranges `[0,2) [4,6)`; the observation sequences are those of `abcd`. -/
example : obsRanged [97, 98, 32, 32, 99, 100] 8 [⟨⟨0,0⟩,⟨0,2⟩,0,2⟩, ⟨⟨0,4⟩,⟨0,6⟩,4,6⟩] = [(97,1),(98,1),(99,1),(100,1)] ∧
    obsConcat [97, 98, 32, 32, 99, 100] 8 [⟨⟨0,0⟩,⟨0,2⟩,0,2⟩, ⟨⟨0,4⟩,⟨0,6⟩,4,6⟩] = [(97,1),(98,1),(99,1),(100,1)] := by
  decide

end TsVerif.C13
