import TsVerif.Gen.Basic
import TsVerif.C09.Utf8
/-!
# Port of the position logic of `lib/src/lexer.c` (UTF-8 input)

Shared by C13 (included ranges) and C09 (chunking).  The input callback is a function
`read : Nat → List Nat` (byte offset ↦ the bytes of the chunk returned there; `[]` = size 0).
`chunk == NULL` ⇔ `chunk = []` (the C code keeps `chunk_size = 0` exactly when `chunk` is `NULL`).
Ported: `ts_lexer__get_chunk`, `__clear_chunk`, `__get_lookahead` (with the retry), `ts_lexer_goto`,
`__do_advance`, `__advance` (ASCII fast path), `__mark_end`, `__eof`, `__is_at_included_range_start`,
`ts_lexer_reset`, `_start`, `_finish`, `_set_included_ranges` (+ `DEFAULT_RANGE`), `_set_input`.
`ts_lexer__get_column` is ported too (`getColumn`).  Not ported: logging, UTF-16 / custom decoders.  Tied to the C code by scripted runs of the real lexer (`cunit_c13.c`).
-/
namespace TsVerif.Lex
open TsGen TsVerif.Utf

def UMAX : Nat := 4294967295

def DEFAULT_RANGE : TSRange :=
  { start_point := ⟨0, 0⟩, end_point := ⟨UMAX, UMAX⟩, start_byte := 0, end_byte := UMAX }

structure Lexer where
  ranges : Array TSRange := #[DEFAULT_RANGE]
  idx : Nat := 0                      -- current_included_range_index
  pos : Length := length_zero         -- current_position
  tokStart : Length := length_zero
  tokEnd : Length := length_zero
  lookahead : Int := 0
  laSize : Nat := 0
  chunkStart : Nat := 0
  chunk : List Nat := []
  colValid : Bool := false
  colValue : Nat := 0
  /-- Model variant, not a field of the C struct: `true` = lexer.c with fixes/C13-empty-range-boundary.diff
  (empty ranges are stepped over without moving the position, `mark_end` walks back over them). -/
  skipEmpty : Bool := false
  deriving Inhabited

abbrev Read := Nat → List Nat

def Lexer.count (l : Lexer) : Nat := l.ranges.size
def Lexer.eof (l : Lexer) : Bool := l.idx == l.count
def Lexer.range (l : Lexer) (i : Nat) : TSRange := l.ranges.getD i default

def Lexer.clearChunk (l : Lexer) : Lexer := { l with chunk := [], chunkStart := 0 }

def Lexer.getChunk (read : Read) (l : Lexer) : Lexer :=
  let c := read l.pos.bytes
  if c.isEmpty then { l with chunkStart := l.pos.bytes, chunk := [], idx := l.count }
  else { l with chunkStart := l.pos.bytes, chunk := c }

/-- The decoding part of `ts_lexer__get_lookahead` (UTF-8) on the bytes left in the current chunk
(non-empty): `(look-ahead, size, re-fetched chunk if the retry happened)`.  ASCII shortcut;
`ts_decode_utf8`; if that fails with fewer than 4 bytes left, fetch a fresh chunk at the current
offset and decode again; an error has size 1. -/
def decodeAt (read : Read) (bytes : List Nat) (pos : Nat) : Int × Nat × Option (List Nat) :=
  let b0 := bytes.headD 0
  if b0 < 0x80 then ((b0 : Int), 1, none)
  else
    let r := decodeUtf8 bytes
    if r.1 == DECODE_ERROR && bytes.length < 4 then
      let c := read pos
      let r' := decodeUtf8 c
      if r'.1 == DECODE_ERROR then (DECODE_ERROR, 1, some c) else (r'.1, r'.2, some c)
    else if r.1 == DECODE_ERROR then (DECODE_ERROR, 1, none) else (r.1, r.2, none)

/-- `ts_lexer__get_lookahead` (UTF-8). -/
def Lexer.getLookahead (read : Read) (l : Lexer) : Lexer :=
  let pic := l.pos.bytes - l.chunkStart
  let size := l.chunk.length - pic
  if size == 0 then { l with laSize := 1, lookahead := 0 }
  else
    let (cp, n, nc) := decodeAt read (l.chunk.drop pic) l.pos.bytes
    let l := match nc with
      | some c => if c.isEmpty then { l with chunkStart := l.pos.bytes, chunk := [], idx := l.count }
                  else { l with chunkStart := l.pos.bytes, chunk := c }
      | none => l
    { l with lookahead := cp, laSize := n }

/-- The scan of `ts_lexer_goto`: first non-empty range ending after `p`. -/
def findRange (rs : List TSRange) (i : Nat) (p : Nat) : Option (Nat × TSRange) :=
  match rs with
  | [] => none
  | r :: rest =>
    if r.end_byte > p ∧ r.end_byte > r.start_byte then some (i, r) else findRange rest (i + 1) p

/-- The nearest range before index `i` that includes text (for `mark_end` with the fix): walk back over empty ones. -/
def prevNonEmpty (ranges : Array TSRange) : Nat → Option TSRange
  | 0 => none
  | i + 1 =>
    let r := ranges.getD i default
    if r.end_byte > r.start_byte then some r
    else if i == 0 then none else prevNonEmpty ranges i

def Lexer.goto (l : Lexer) (position : Length) : Lexer :=
  let l := if position.bytes != l.pos.bytes then { l with colValid := false, colValue := 0 } else l
  let l := { l with pos := position }
  match findRange l.ranges.toList 0 position.bytes with
  | some (i, r) =>
    let l := if r.start_byte ≥ l.pos.bytes then { l with pos := ⟨r.start_byte, r.start_point⟩ } else l
    let l := { l with idx := i }
    let l := if !l.chunk.isEmpty && (l.pos.bytes < l.chunkStart || l.pos.bytes ≥ l.chunkStart + l.chunk.length)
             then l.clearChunk else l
    { l with laSize := 0, lookahead := 0 }
  | none =>
    let last := if l.skipEmpty then (prevNonEmpty l.ranges l.count).getD (l.range 0) else l.range (l.count - 1)
    let l := { l with idx := l.count, pos := ⟨last.end_byte, last.end_point⟩ }
    let l := l.clearChunk
    { l with laSize := 1, lookahead := 0 }

/-- The `while` loop of `ts_lexer__do_advance`, on the ranges from the current index on
(`&included_ranges[current_included_range_index]`): `(number of ranges stepped over, position,
still inside a range)`.  Stepping onto a range sets the position to its start, also when the
range is empty (as in C). -/
def skipL : List TSRange → Length → Nat × Length × Bool
  | [], pos => (0, pos, false)
  | cur :: rest, pos =>
    if pos.bytes ≥ cur.end_byte ∨ cur.end_byte = cur.start_byte then
      match rest with
      | [] => (1, pos, false)
      | nxt :: _ =>
        let r := skipL rest ⟨nxt.start_byte, nxt.start_point⟩
        (r.1 + 1, r.2.1, r.2.2)
    else (0, pos, true)

/-- `skipL` with fixes/C13-empty-range-boundary.diff: stepping onto a range sets the position only when the
range includes text. -/
def skipLF : List TSRange → Length → Nat × Length × Bool
  | [], pos => (0, pos, false)
  | cur :: rest, pos =>
    if pos.bytes ≥ cur.end_byte ∨ cur.end_byte = cur.start_byte then
      match rest with
      | [] => (1, pos, false)
      | nxt :: _ =>
        let r := skipLF rest (if nxt.end_byte > nxt.start_byte then ⟨nxt.start_byte, nxt.start_point⟩ else pos)
        (r.1 + 1, r.2.1, r.2.2)
    else (0, pos, true)

def BYTE_ORDER_MARK : Int := 0xFEFF

/-- The tail of `ts_lexer__do_advance` when still inside a range: re-fetch if the position left the cached
chunk, then decode the look-ahead. -/
def Lexer.refill (read : Read) (l : Lexer) : Lexer :=
  let l := if l.pos.bytes < l.chunkStart || l.pos.bytes ≥ l.chunkStart + l.chunk.length then l.getChunk read else l
  l.getLookahead read

/-- `ts_lexer__do_advance`. -/
def Lexer.doAdvance (read : Read) (l : Lexer) (skip : Bool) : Lexer :=
  let l :=
    if l.laSize != 0 then
      let l :=
        if l.lookahead == 10 then
          { l with pos := { l.pos with extent := ⟨l.pos.extent.row + 1, 0⟩ }, colValid := true, colValue := 0 }
        else
          let isBom := l.pos.bytes == 0 && l.lookahead == BYTE_ORDER_MARK
          let l := if !isBom && l.colValid then { l with colValue := l.colValue + 1 } else l
          { l with pos := { l.pos with extent := ⟨l.pos.extent.row, l.pos.extent.column + l.laSize⟩ } }
      { l with pos := { l.pos with bytes := l.pos.bytes + l.laSize } }
    else l
  let (k, pos, inRange) := if l.skipEmpty then skipLF (l.ranges.toList.drop l.idx) l.pos else skipL (l.ranges.toList.drop l.idx) l.pos
  let l := { l with idx := l.idx + k, pos := pos }
  let l := if skip then { l with tokStart := l.pos } else l
  if inRange then l.refill read
  else
    let l := l.clearChunk
    { l with lookahead := 0, laSize := 1 }

/-- `ts_lexer__advance` (without logging). -/
def Lexer.advance (read : Read) (l : Lexer) (skip : Bool) : Lexer :=
  -- `if (!self->chunk || ts_lexer__eof(_self)) return;` (the EOF test since /repo 5e58eb0)
  if l.chunk.isEmpty || l.eof then l
  else
    let next := l.pos.bytes + 1
    let curEnd := (l.range l.idx).end_byte
    if l.laSize == 1 && l.lookahead != 10 && next < curEnd && next < l.chunkStart + l.chunk.length then
      let nb := l.chunk.getD (next - l.chunkStart) 0
      if nb < 0x80 then
        let l := if l.colValid then { l with colValue := l.colValue + 1 } else l
        let l := { l with pos := { bytes := l.pos.bytes + 1, extent := ⟨l.pos.extent.row, l.pos.extent.column + 1⟩ } }
        let l := if skip then { l with tokStart := l.pos } else l
        { l with lookahead := nb }
      else l.doAdvance read skip
    else l.doAdvance read skip

/-- The `while` loop of `ts_lexer__get_column` (fuelled by the distance to the goal). -/
def getColumnLoop (read : Read) : Nat → Lexer → Nat → Lexer
  | 0, l, _ => l
  | fuel + 1, l, goal =>
    if l.pos.bytes < goal && !l.eof && !l.chunk.isEmpty then
      let l := l.doAdvance read false
      if l.eof then l else getColumnLoop read fuel l goal
    else l

/-- `ts_lexer__get_column`: `(new state, column)`.  With a valid cache it is the cached value; otherwise
the lexer goes back to the start of the line and re-advances to the current offset, counting characters. -/
def Lexer.getColumn (read : Read) (l : Lexer) : Lexer × Nat :=
  if !l.colValid then
    let goal := l.pos.bytes
    let l := l.goto ⟨l.pos.bytes - l.pos.extent.column, ⟨l.pos.extent.row, 0⟩⟩
    let l := { l with colValid := true, colValue := 0 }
    let l := l.getChunk read
    let l := if !l.eof then getColumnLoop read (goal + 2) (l.getLookahead read) goal else l
    (l, l.colValue)
  else (l, l.colValue)

/-- `ts_lexer__mark_end`. -/
def Lexer.markEnd (l : Lexer) : Lexer :=
  if !l.eof then
    let cur := l.range l.idx
    if l.idx > 0 && l.pos.bytes == cur.start_byte then
      if l.skipEmpty then
        match prevNonEmpty l.ranges l.idx with
        | some prev => { l with tokEnd := ⟨prev.end_byte, prev.end_point⟩ }
        | none => { l with tokEnd := l.pos }
      else
        let prev := l.range (l.idx - 1)
        { l with tokEnd := ⟨prev.end_byte, prev.end_point⟩ }
    else { l with tokEnd := l.pos }
  else { l with tokEnd := l.pos }

def Lexer.isAtIncludedRangeStart (l : Lexer) : Bool :=
  if l.idx < l.count then l.pos.bytes == (l.range l.idx).start_byte else false

def Lexer.reset (l : Lexer) (position : Length) : Lexer :=
  if position.bytes != l.pos.bytes then l.goto position else l

/-- `ts_lexer_start`. -/
def Lexer.start (read : Read) (l : Lexer) : Lexer :=
  let l := { l with tokStart := l.pos, tokEnd := LENGTH_UNDEFINED }
  if !l.eof then
    let l := if l.chunk.isEmpty then l.getChunk read else l
    let l := if l.laSize == 0 then l.getLookahead read else l
    if l.pos.bytes == 0 then
      let l := if l.lookahead == BYTE_ORDER_MARK then l.advance read true else l
      { l with colValid := true, colValue := 0 }
    else l
  else l

/-- `ts_lexer_finish`; returns the new `*lookahead_end_byte`. -/
def Lexer.finish (l : Lexer) (lookaheadEnd : Nat) : Lexer × Nat :=
  let l := if length_is_undefined l.tokEnd then l.markEnd else l
  let l := if l.tokEnd.bytes < l.tokStart.bytes then { l with tokStart := l.tokEnd } else l
  -- /repo 57e0c8c: every byte of the (fully decoded) look-ahead character counts as examined, not just the first
  let cur := l.pos.bytes + (if l.laSize > 1 then l.laSize else 1)
  let cur := if l.lookahead == DECODE_ERROR then cur + 4 else cur
  (l, if cur > lookaheadEnd then cur else lookaheadEnd)

/-- The validation loop of `ts_lexer_set_included_ranges`. -/
def validFrom : Nat → List TSRange → Bool
  | _, [] => true
  | prev, r :: rest =>
    if r.start_byte < prev ∨ r.end_byte < r.start_byte then false else validFrom r.end_byte rest

/-- `ts_lexer_set_included_ranges`: `(new state, accepted)`; nothing is assigned on failure. -/
def Lexer.setIncludedRanges (l : Lexer) (ranges : List TSRange) : Lexer × Bool :=
  if ranges.isEmpty then (({ l with ranges := #[DEFAULT_RANGE] } : Lexer).goto l.pos, true)
  else if validFrom 0 ranges then (({ l with ranges := ranges.toArray } : Lexer).goto l.pos, true)
  else (l, false)

/-- `ts_lexer_set_input`. -/
def Lexer.setInput (l : Lexer) : Lexer := (l.clearChunk).goto l.pos

/-- The error index computed by `Parser::set_included_ranges` (lib/binding_rust/lib.rs) after the C
setter refused the list; `none` is the wrapper's fall-through `IncludedRangesError(0)`. -/
def firstBadFrom : Nat → Nat → List TSRange → Option Nat
  | _, _, [] => none
  | prev, i, r :: rest =>
    if r.start_byte < prev ∨ r.end_byte < r.start_byte then some i else firstBadFrom r.end_byte (i + 1) rest

def firstBad (ranges : List TSRange) : Option Nat := firstBadFrom 0 0 ranges

end TsVerif.Lex
