import TsVerif.C17.Full
import TsVerif.C17.MergeMultiLemmas
import TsVerif.C17.MergeTerm
/-!
# C17 helper lemmas for the end-to-end model (`Full.lean`): well-formedness and termination

Same structure as `MergeMultiLemmas.lean` / `MergeTerm.lean`, for layers with scope stacks and the
model-driven injection step.
-/
namespace TsVerif.C17.Full
open TsVerif.C17

/-- Number of open highlights over all layers (= nesting depth of the stream so far). -/
def totalEnds : List FLayer → Nat
  | [] => 0
  | l :: r => l.ends.length + totalEnds r

theorem totalEnds_append (a b : List FLayer) : totalEnds (a ++ b) = totalEnds a + totalEnds b := by
  induction a with
  | nil => simp [totalEnds]
  | cons l r ih => simp [totalEnds, ih]; omega

def LayerOk (n : Nat) (l : FLayer) : Prop :=
  (∀ eb ∈ l.ends, eb ≤ n) ∧ (∀ c ∈ l.caps, c.s ≤ n ∧ c.e ≤ n)

def DefsOk (n : Nat) (cx : Ctx) : Prop := ∀ d ∈ cx.defs, ∀ c ∈ d.caps, c.s ≤ n ∧ c.e ≤ n

theorem sortKey_none {l : FLayer} (h : sortKey l = none) : l.caps = [] ∧ l.ends = [] := by
  unfold sortKey at h
  split at h
  · split at h <;> simp at h
  · simp at h
  · simp at h
  · rename_i h1 h2; exact ⟨h1, h2⟩

/-! ## sort_layers -/

theorem totalEnds_sortLayers (ls : List FLayer) : totalEnds (sortLayers ls) = totalEnds ls := by
  induction ls with
  | nil => rfl
  | cons l0 rest ih =>
    unfold sortLayers
    cases hk : sortKey l0 with
    | none =>
      simp only
      rw [ih, totalEnds, (sortKey_none hk).2]; simp
    | some k =>
      simp only
      rw [totalEnds_append, totalEnds, totalEnds]
      have := totalEnds_append (rest.take (leadCount k rest)) (rest.drop (leadCount k rest))
      rw [List.take_append_drop] at this
      omega

theorem mem_sortLayers {ls : List FLayer} {l : FLayer} (h : l ∈ sortLayers ls) : l ∈ ls := by
  induction ls with
  | nil => simp [sortLayers] at h
  | cons l0 rest ih =>
    unfold sortLayers at h
    cases hk : sortKey l0 with
    | none => rw [hk] at h; exact List.mem_cons_of_mem _ (ih h)
    | some k =>
      rw [hk] at h
      simp only [List.mem_append, List.mem_cons] at h
      rcases h with h | h | h
      · exact List.mem_cons_of_mem _ (List.mem_of_mem_take h)
      · rw [h]; exact List.mem_cons_self
      · exact List.mem_cons_of_mem _ (List.mem_of_mem_drop h)

theorem head_sortLayers (ls : List FLayer) (l : FLayer) (r : List FLayer) (h : sortLayers ls = l :: r) :
    sortKey l ≠ none := by
  induction ls with
  | nil => simp [sortLayers] at h
  | cons l0 rest ih =>
    unfold sortLayers at h
    cases hk : sortKey l0 with
    | none => rw [hk] at h; exact ih h
    | some k =>
      rw [hk] at h
      simp only at h
      cases rest with
      | nil =>
        simp [leadCount] at h
        rw [← h.1, hk]; simp
      | cons x r' =>
        unfold leadCount at h
        cases hx : sortKey x with
        | none =>
          rw [hx] at h; simp at h
          rw [← h.1, hk]; simp
        | some k' =>
          rw [hx] at h
          by_cases hlt : keyLt k' k = true
          · simp [hlt] at h
            rw [← h.1, hx]; simp
          · simp [hlt] at h
            rw [← h.1, hk]; simp

/-! ## insert_layer -/

theorem totalEnds_insGo (k : Key) (nl : FLayer) (ls : List FLayer) :
    totalEnds (insGo k nl ls) = totalEnds ls + nl.ends.length := by
  induction ls with
  | nil => simp [insGo, totalEnds]
  | cons li r ih =>
    unfold insGo
    cases hk : sortKey li with
    | none => simp only; rw [ih, totalEnds, (sortKey_none hk).2]; simp
    | some ki =>
      simp only
      split
      · simp [totalEnds]; omega
      · simp [totalEnds, ih]; omega

theorem mem_insGo {k : Key} {nl : FLayer} {ls : List FLayer} {l : FLayer} (h : l ∈ insGo k nl ls) :
    l ∈ ls ∨ l = nl := by
  induction ls with
  | nil => simp [insGo] at h; exact Or.inr h
  | cons li r ih =>
    unfold insGo at h
    cases hk : sortKey li with
    | none =>
      rw [hk] at h
      rcases ih h with h | h
      · exact Or.inl (List.mem_cons_of_mem _ h)
      · exact Or.inr h
    | some ki =>
      rw [hk] at h
      simp only at h
      split at h
      · simp only [List.mem_cons] at h
        rcases h with h | h | h
        · exact Or.inr h
        · exact Or.inl (by rw [h]; exact List.mem_cons_self)
        · exact Or.inl (List.mem_cons_of_mem _ h)
      · simp only [List.mem_cons] at h
        rcases h with h | h
        · exact Or.inl (by rw [h]; exact List.mem_cons_self)
        · rcases ih h with h | h
          · exact Or.inl (List.mem_cons_of_mem _ h)
          · exact Or.inr h

theorem totalEnds_insertLayer (ls : List FLayer) (nl : FLayer) (hn : nl.ends = []) :
    totalEnds (insertLayer ls nl) = totalEnds ls := by
  unfold insertLayer
  cases sortKey nl with
  | none => rfl
  | some k =>
    cases ls with
    | nil => simp [totalEnds, hn]
    | cons l0 rest => simp [totalEnds, totalEnds_insGo, hn]

theorem mem_insertLayer {ls : List FLayer} {nl l : FLayer} (h : l ∈ insertLayer ls nl) : l ∈ ls ∨ l = nl := by
  unfold insertLayer at h
  cases hk : sortKey nl with
  | none => rw [hk] at h; exact Or.inl h
  | some k =>
    rw [hk] at h
    cases ls with
    | nil => simp at h; exact Or.inr h
    | cons l0 rest =>
      simp only [List.mem_cons] at h
      rcases h with h | h
      · exact Or.inl (by rw [h]; exact List.mem_cons_self)
      · rcases mem_insGo h with h | h
        · exact Or.inl (List.mem_cons_of_mem _ h)
        · exact Or.inr h

theorem mkLayer_ok {n : Nat} {cx : Ctx} (hd : DefsOk n cx) {id : Nat} {nl : FLayer}
    (h : mkLayer cx id = some nl) : nl.ends = [] ∧ LayerOk n nl := by
  unfold mkLayer at h
  cases hg : cx.defs[id]? with
  | none => rw [hg] at h; simp at h
  | some d =>
    rw [hg] at h
    simp only [Option.map_some, Option.some.injEq] at h
    subst h
    have hm : d ∈ cx.defs := List.mem_of_getElem? hg
    exact ⟨rfl, ⟨fun _ h => by simp at h, hd d hm⟩⟩

theorem fold_insert_ok {n : Nat} {cx : Ctx} (hd : DefsOk n cx) (ids : List Nat) :
    ∀ (ls : List FLayer), (∀ l ∈ ls, LayerOk n l) →
      totalEnds (ids.foldl (insertById cx) ls) = totalEnds ls ∧
      ∀ l ∈ ids.foldl (insertById cx) ls, LayerOk n l := by
  induction ids with
  | nil => intro ls h; exact ⟨rfl, h⟩
  | cons id r ih =>
    intro ls h
    simp only [List.foldl_cons]
    cases hm : mkLayer cx id with
    | none =>
      have e : insertById cx ls id = ls := by unfold insertById; rw [hm]
      rw [e]; exact ih ls h
    | some nl =>
      have e : insertById cx ls id = insertLayer ls nl := by unfold insertById; rw [hm]
      rw [e]
      obtain ⟨he, hok⟩ := mkLayer_ok hd hm
      have h2 : ∀ l ∈ insertLayer ls nl, LayerOk n l := by
        intro l hl
        rcases mem_insertLayer hl with hl | hl
        · exact h l hl
        · rw [hl]; exact hok
      have := ih (insertLayer ls nl) h2
      exact ⟨by rw [this.1, totalEnds_insertLayer ls nl he], this.2⟩


/-! ## sums of layer weights -/

theorem sumW_append (f : FLayer → Nat) (a b : List FLayer) : sumW f (a ++ b) = sumW f a + sumW f b := by
  induction a with
  | nil => simp [sumW]
  | cons l r ih => simp [sumW, ih]; omega

/-- A weight that vanishes on exhausted layers. -/
def ZeroOnDead (f : FLayer → Nat) : Prop := ∀ l : FLayer, l.caps = [] → l.ends = [] → f l = 0

theorem layerW_zero (cx : Ctx) : ZeroOnDead (layerW cx) := by
  intro l h1 h2; simp [layerW, h1, h2, capsW]

theorem sumW_sortLayers {f : FLayer → Nat} (hf : ZeroOnDead f) (ls : List FLayer) :
    sumW f (sortLayers ls) = sumW f ls := by
  induction ls with
  | nil => rfl
  | cons l0 rest ih =>
    unfold sortLayers
    cases hk : sortKey l0 with
    | none =>
      simp only
      rw [ih, sumW, hf l0 (sortKey_none hk).1 (sortKey_none hk).2]; simp
    | some k =>
      simp only
      rw [sumW_append, sumW, sumW]
      have := sumW_append f (rest.take (leadCount k rest)) (rest.drop (leadCount k rest))
      rw [List.take_append_drop] at this
      omega

theorem sumW_insGo {f : FLayer → Nat} (hf : ZeroOnDead f) (k : Key) (nl : FLayer) (ls : List FLayer) :
    sumW f (insGo k nl ls) = sumW f ls + f nl := by
  induction ls with
  | nil => simp [insGo, sumW]
  | cons li r ih =>
    unfold insGo
    cases hk : sortKey li with
    | none => simp only; rw [ih, sumW, hf li (sortKey_none hk).1 (sortKey_none hk).2]; simp
    | some ki =>
      simp only
      split
      · simp [sumW]; omega
      · simp [sumW, ih]; omega

theorem sumW_insertLayer {f : FLayer → Nat} (hf : ZeroOnDead f) (ls : List FLayer) (nl : FLayer) :
    sumW f (insertLayer ls nl) = sumW f ls + f nl := by
  unfold insertLayer
  cases hk : sortKey nl with
  | none => simp only; rw [hf nl (sortKey_none hk).1 (sortKey_none hk).2]; simp
  | some k =>
    cases ls with
    | nil => simp [sumW]
    | cons l0 rest => simp [sumW, sumW_insGo hf]; omega


/-! ## weights -/

theorem capsW_congr_mem (cx : Ctx) {w1 w2 : Nat → Nat} (lang depth : Nat) (ranges : List Rg) (caps : List FCap)
    (h : ∀ c ∈ caps, ∀ m, c.kind = .inj m → ∀ j ∈ injIds cx lang depth ranges m, w1 j = w2 j) :
    capsW cx w1 lang depth ranges caps = capsW cx w2 lang depth ranges caps := by
  induction caps with
  | nil => rfl
  | cons c r ih =>
    simp only [capsW]
    rw [ih (fun c' hc' => h c' (List.mem_cons_of_mem _ hc'))]
    congr 1
    unfold capW
    cases hk : c.kind with
    | inj m => simp only; rw [idsW_congr _ (h c (List.mem_cons_self) m hk)]
    | _ => rfl

theorem capsW_congr (cx : Ctx) {w1 w2 : Nat → Nat} (lang depth : Nat) (ranges : List Rg) (caps : List FCap)
    (h : ∀ j, w1 j = w2 j) : capsW cx w1 lang depth ranges caps = capsW cx w2 lang depth ranges caps :=
  capsW_congr_mem cx lang depth ranges caps (fun _ _ _ _ j _ => h j)

theorem wtK_stable (cx : Ctx) : ∀ (m j k : Nat), cx.defs.length - j ≤ m → cx.defs.length - j ≤ k →
    wtK cx k j = wtK cx (cx.defs.length - j) j := by
  intro m
  induction m with
  | zero =>
    intro j k hm _
    have hj : cx.defs.length ≤ j := by omega
    have hnone : cx.defs[j]? = none := List.getElem?_eq_none hj
    have h0 : cx.defs.length - j = 0 := by omega
    rw [h0]
    cases k with
    | zero => rfl
    | succ k => simp [wtK, hnone]
  | succ m ih =>
    intro j k hm hk
    by_cases hj : cx.defs.length ≤ j
    · have hnone : cx.defs[j]? = none := List.getElem?_eq_none hj
      have h0 : cx.defs.length - j = 0 := by omega
      rw [h0]
      cases k with
      | zero => rfl
      | succ k => simp [wtK, hnone]
    · obtain ⟨q, hq⟩ : ∃ q, cx.defs.length - j = q + 1 := ⟨cx.defs.length - j - 1, by omega⟩
      obtain ⟨k', rfl⟩ : ∃ k', k = k' + 1 := ⟨k - 1, by omega⟩
      rw [hq]
      simp only [wtK]
      cases cx.defs[j]? with
      | none => rfl
      | some d =>
        simp only
        apply capsW_congr
        intro j'
        by_cases hjj : j < j'
        · simp only [if_pos hjj]
          rw [ih j' k' (by omega) (by omega), ih j' q (by omega) (by omega)]
        · simp only [if_neg hjj]

theorem refsUp_spec {cx : Ctx} (hr : refsUp cx = true) {i : Nat} {d : FDef}
    (hd : cx.defs[i]? = some d) {c : FCap} (hc : c ∈ d.caps) {m : InjMatch} (hk : c.kind = .inj m)
    {j : Nat} (hj : j ∈ injIds cx d.lang d.depth d.ranges m) : i < j := by
  have hi : i < cx.defs.length := by
    rcases Nat.lt_or_ge i cx.defs.length with h | h
    · exact h
    · rw [List.getElem?_eq_none h] at hd; simp at hd
  have h1 := List.all_eq_true.mp hr i (List.mem_range.mpr hi)
  rw [hd] at h1
  have h2 := List.all_eq_true.mp h1 c hc
  rw [hk] at h2
  have h3 := List.all_eq_true.mp h2 j hj
  simpa using h3

theorem wt_eq {cx : Ctx} (hr : refsUp cx = true) {j : Nat} {d : FDef}
    (hd : cx.defs[j]? = some d) : wt cx j = capsW cx (wt cx) d.lang d.depth d.ranges d.caps := by
  have hj : j < cx.defs.length := by
    rcases Nat.lt_or_ge j cx.defs.length with h | h
    · exact h
    · rw [List.getElem?_eq_none h] at hd; simp at hd
  obtain ⟨q, hq⟩ : ∃ q, cx.defs.length - j = q + 1 := ⟨cx.defs.length - j - 1, by omega⟩
  unfold wt
  rw [hq]
  simp only [wtK, hd]
  apply capsW_congr_mem
  intro c hc m hk j' hj'
  have hlt : j < j' := refsUp_spec hr hd hc hk hj'
  simp only [if_pos hlt]
  exact wtK_stable cx (cx.defs.length - j') j' q (Nat.le_refl _) (by omega)

theorem layerW_mkLayer {cx : Ctx} (hr : refsUp cx = true) {id : Nat} {nl : FLayer}
    (h : mkLayer cx id = some nl) : layerW cx nl = wt cx id := by
  unfold mkLayer at h
  cases hg : cx.defs[id]? with
  | none => rw [hg] at h; simp at h
  | some d =>
    rw [hg] at h
    simp only [Option.map_some, Option.some.injEq] at h
    subst h
    simp [layerW, wt_eq hr hg]

theorem sumW_fold_insert {cx : Ctx} (hr : refsUp cx = true) (ids : List Nat) :
    ∀ (ls : List FLayer), sumW (layerW cx) (ids.foldl (insertById cx) ls) + ids.length
      ≤ sumW (layerW cx) ls + idsW (wt cx) ids := by
  induction ids with
  | nil => intro ls; simp [idsW]
  | cons id r ih =>
    intro ls
    simp only [List.foldl_cons, idsW, List.length_cons]
    cases hm : mkLayer cx id with
    | none =>
      have e : insertById cx ls id = ls := by unfold insertById; rw [hm]
      rw [e]; have := ih ls; omega
    | some nl =>
      have e : insertById cx ls id = insertLayer ls nl := by unfold insertById; rw [hm]
      rw [e]
      have h1 := ih (insertLayer ls nl)
      rw [sumW_insertLayer (layerW_zero cx), layerW_mkLayer hr hm] at h1
      omega

theorem capW_ge_two (cx : Ctx) (w : Nat → Nat) (lang depth : Nat) (ranges : List Rg) (c : FCap) :
    2 ≤ capW cx w lang depth ranges c := by
  unfold capW; cases c.kind <;> simp

/-! ## the locals loop and the later-pattern loop only drop captures -/

theorem localsRun_sub (r : LRun) (c : FCap) (rest : List FCap) :
    (∀ x ∈ (localsRun r c rest).2.2, x ∈ rest) ∧
    ∀ (cx : Ctx) (w : Nat → Nat) (lang depth : Nat) (ranges : List Rg),
      capsW cx w lang depth ranges (localsRun r c rest).2.2 ≤ capsW cx w lang depth ranges rest := by
  induction rest generalizing r c with
  | nil =>
    unfold localsRun
    cases c.kind <;> simp [capsW]
  | cons nx rest' ih =>
    unfold localsRun
    cases hk : c.kind with
    | hl h nl => simp
    | _ =>
      simp only
      split
      · have := ih (applyLocal r (toL c)) nx
        refine ⟨fun x hx => List.mem_cons_of_mem _ (this.1 x hx), fun cx w lang depth ranges => ?_⟩
        have h2 := this.2 cx w lang depth ranges
        simp only [capsW]; omega
      · exact ⟨fun x hx => hx, fun _ _ _ _ _ => Nat.le_refl _⟩

theorem collapseL_sub (isLocal : Bool) (node : Nat) (h : Option Nat) (caps : List FCap) :
    (∀ x ∈ (collapseL isLocal node h caps).2, x ∈ caps) ∧
    ∀ (cx : Ctx) (w : Nat → Nat) (lang depth : Nat) (ranges : List Rg),
      capsW cx w lang depth ranges (collapseL isLocal node h caps).2 ≤ capsW cx w lang depth ranges caps := by
  induction caps generalizing h with
  | nil => simp [collapseL]
  | cons x r ih =>
    unfold collapseL
    split
    · have key : ∀ h', (∀ y ∈ (collapseL isLocal node h' r).2, y ∈ x :: r) ∧
          ∀ (cx : Ctx) (w : Nat → Nat) (lang depth : Nat) (ranges : List Rg),
            capsW cx w lang depth ranges (collapseL isLocal node h' r).2 ≤ capsW cx w lang depth ranges (x :: r) := by
        intro h'
        refine ⟨fun y hy => List.mem_cons_of_mem _ ((ih h').1 y hy), fun cx w lang depth ranges => ?_⟩
        have := (ih h').2 cx w lang depth ranges
        simp only [capsW]; omega
      cases x.kind with
      | hl h' nl => simp only; split <;> exact key _
      | _ => exact key _
    · exact ⟨fun y hy => hy, fun _ _ _ _ _ => Nat.le_refl _⟩

/-! ## one step -/

structure SInv (n : Nat) (st : FSt) : Prop where
  offn : st.off ≤ n
  lok : ∀ l ∈ st.layers, LayerOk n l
  head : ∀ l r, st.layers = l :: r → sortKey l ≠ none

def StepOk (n : Nat) (st : FSt) : StepRes → Prop
  | .done evs => wellFormedFrom n st.off (totalEnds st.layers) evs = true
  | .more evs st' => SInv n st' ∧ ∀ rest, wellFormedFrom n st'.off (totalEnds st'.layers) rest = true →
      wellFormedFrom n st.off (totalEnds st.layers) (evs ++ rest) = true

theorem sinv_sorted {n off : Nat} {last : Option (Nat × Nat × Nat)} {X : List FLayer} (ho : off ≤ n)
    (hX : ∀ l ∈ X, LayerOk n l) : SInv n { layers := sortLayers X, off := off, last := last } :=
  { offn := ho
    lok := fun l hl => hX l (mem_sortLayers hl)
    head := fun l r h => head_sortLayers X l r h }

theorem action_pop {l : FLayer} {eb : Nat} {ends' : List Nat} (h : action l = .pop eb ends') :
    l.ends = eb :: ends' := by
  unfold action at h
  split at h
  · simp at h
  · rename_i h2; simp at h; rw [h2, h.1, h.2]
  · simp at h
  · rename_i h2; split at h
    · simp at h; rw [h2, h.1, h.2]
    · simp at h

theorem action_take {l : FLayer} {c : FCap} {caps' : List FCap} (h : action l = .take c caps') :
    l.caps = c :: caps' := by
  unfold action at h
  split at h
  · simp at h
  · simp at h
  · rename_i h1 _; simp at h; rw [h1, h.1, h.2]
  · rename_i h1 _; split at h
    · simp at h
    · simp at h; rw [h1, h.1, h.2]

theorem action_final {l : FLayer} (h : action l = .final) : sortKey l = none := by
  unfold action at h
  split at h
  · rename_i h1 h2; unfold sortKey; rw [h1, h2]
  · simp at h
  · simp at h
  · split at h <;> simp at h

/-- Facts about the first layer shared by the two step lemmas. -/
structure TakeCtx (n : Nat) (l : FLayer) (rest : List FLayer) (c : FCap) (caps' : List FCap) : Prop where
  hl : LayerOk n l
  hrest : ∀ x ∈ rest, LayerOk n x
  hc : l.caps = c :: caps'
  hcin : c.s ≤ n ∧ c.e ≤ n
  hcaps' : ∀ x ∈ caps', x.s ≤ n ∧ x.e ≤ n

theorem skip_ok {n : Nat} {l : FLayer} {rest : List FLayer} {c : FCap} {caps' : List FCap} (t : TakeCtx n l rest c caps')
    {off : Nat} {last : Option (Nat × Nat × Nat)} (hoff : off ≤ n) (cs : List FCap) (sc : List LScope)
    (hcs : ∀ x ∈ cs, x ∈ caps') :
    StepOk n { layers := l :: rest, off := off, last := last }
      (stepSkip { layers := l :: rest, off := off, last := last } { l with caps := cs, scopes := sc } rest) := by
  simp only [stepSkip, StepOk]
  have hX : ∀ x ∈ ({ l with caps := cs, scopes := sc } :: rest : List FLayer), LayerOk n x := by
    intro x hx
    rcases List.mem_cons.mp hx with rfl | hx
    · exact ⟨t.hl.1, fun y hy => t.hcaps' y (hcs y hy)⟩
    · exact t.hrest x hx
  refine ⟨sinv_sorted hoff hX, ?_⟩
  intro evs hw
  simp only [totalEnds_sortLayers, totalEnds] at hw
  simpa [totalEnds] using hw

theorem start_ok {n : Nat} {l : FLayer} {rest : List FLayer} {c : FCap} {caps' : List FCap} (t : TakeCtx n l rest c caps')
    {off : Nat} {last : Option (Nat × Nat × Nat)} (hoff : off ≤ n) (cs : List FCap) (sc : List LScope)
    (hcs : ∀ x ∈ cs, x ∈ caps') (hh : Nat) :
    StepOk n { layers := l :: rest, off := off, last := last }
      (stepStart { layers := l :: rest, off := off, last := last } { l with caps := cs, scopes := sc } rest c hh) := by
  simp only [stepStart, StepOk]
  have hX : ∀ x ∈ ({ l with caps := cs, scopes := sc, ends := c.e :: l.ends } :: rest : List FLayer), LayerOk n x := by
    intro x hx
    rcases List.mem_cons.mp hx with rfl | hx
    · refine ⟨?_, fun y hy => t.hcaps' y (hcs y hy)⟩
      intro y hy
      rcases List.mem_cons.mp hy with rfl | hy
      · exact t.hcin.2
      · exact t.hl.1 y hy
    · exact t.hrest x hx
  refine ⟨sinv_sorted (emitM_le _ hoff t.hcin.1) hX, ?_⟩
  intro evs hw
  apply wf_emitM _ _ _ _ _ _ t.hcin.1
  simp only [totalEnds_sortLayers, totalEnds, List.length_cons] at hw
  simp only [wellFormedFrom, totalEnds]
  have : l.ends.length + totalEnds rest + 1 = l.ends.length + 1 + totalEnds rest := by omega
  rw [this]; exact hw

theorem stepLocals_ok {n : Nat} {l : FLayer} {rest : List FLayer} {c : FCap} {caps' : List FCap}
    (t : TakeCtx n l rest c caps') {off : Nat} {last : Option (Nat × Nat × Nat)} (hoff : off ≤ n) :
    StepOk n { layers := l :: rest, off := off, last := last }
      (stepLocals { layers := l :: rest, off := off, last := last } l rest c caps') := by
  unfold stepLocals
  have hrun := (localsRun_sub { scopes := popScopes c.s l.scopes, refHl := none, defP := false } c caps').1
  simp only
  split
  · exact skip_ok t hoff _ _ hrun
  · split
    · exact skip_ok t hoff _ _ hrun
    · rename_i hc0 _ _
      have hcol := (collapseL_sub
        ((localsRun { scopes := popScopes c.s l.scopes, refHl := none, defP := false } c caps').1.defP ||
          (localsRun { scopes := popScopes c.s l.scopes, refHl := none, defP := false } c caps').1.refHl.isSome)
        hc0.node (hlOf hc0)
        (localsRun { scopes := popScopes c.s l.scopes, refHl := none, defP := false } c caps').2.2).1
      split
      · exact start_ok t hoff _ _ (fun x hx => hrun x (hcol x hx)) _
      · exact skip_ok t hoff _ _ (fun x hx => hrun x (hcol x hx))

theorem step_sound {n : Nat} {cx : Ctx} (hd : DefsOk n cx) (st : FSt) (hi : SInv n st) :
    StepOk n st (stepM cx n st) := by
  obtain ⟨layers, off, last⟩ := st
  have hoff : off ≤ n := hi.offn
  unfold stepM
  cases layers with
  | nil =>
    simp only [StepOk, totalEnds]
    by_cases hlt : off < n
    · simp [hlt, wellFormedFrom]
    · have : off = n := by omega
      simp [wellFormedFrom, this]
  | cons l rest =>
    simp only
    have hl : LayerOk n l := hi.lok l (List.mem_cons_self)
    have hrest : ∀ x ∈ rest, LayerOk n x := fun x hx => hi.lok x (List.mem_cons_of_mem _ hx)
    cases hact : action l with
    | final => exact absurd (action_final hact) (hi.head l rest rfl)
    | pop eb ends' =>
      simp only [stepPop, StepOk]
      have he := action_pop hact
      have hebn : eb ≤ n := hl.1 eb (by rw [he]; exact List.mem_cons_self)
      have hX : ∀ x ∈ ({ l with ends := ends' } :: rest : List FLayer), LayerOk n x := by
        intro x hx
        rcases List.mem_cons.mp hx with rfl | hx
        · exact ⟨fun y hy => hl.1 y (by rw [he]; exact List.mem_cons_of_mem _ hy), hl.2⟩
        · exact hrest x hx
      refine ⟨sinv_sorted (emitM_le _ hoff hebn) hX, ?_⟩
      intro evs hw
      apply wf_emitM _ _ _ _ _ _ hebn
      simp only [totalEnds_sortLayers, totalEnds] at hw
      simp only [wellFormedFrom, totalEnds, he, List.length_cons, Bool.and_eq_true, decide_eq_true_eq]
      refine ⟨by omega, ?_⟩
      have : ends'.length + 1 + totalEnds rest - 1 = ends'.length + totalEnds rest := by omega
      rw [this]; exact hw
    | take c caps' =>
      simp only
      have hc := action_take hact
      have t : TakeCtx n l rest c caps' :=
        { hl := hl, hrest := hrest, hc := hc
          hcin := hl.2 c (by rw [hc]; exact List.mem_cons_self)
          hcaps' := fun x hx => hl.2 x (by rw [hc]; exact List.mem_cons_of_mem _ hx) }
      cases hk : c.kind with
      | inj m =>
        simp only [stepInj, StepOk]
        have hbase : ∀ x ∈ ({ l with caps := caps' } :: rest : List FLayer), LayerOk n x := by
          intro x hx
          rcases List.mem_cons.mp hx with rfl | hx
          · exact ⟨hl.1, t.hcaps'⟩
          · exact hrest x hx
        have hf := fold_insert_ok hd (injIds cx l.lang l.depth l.ranges m) _ hbase
        refine ⟨sinv_sorted hoff hf.2, ?_⟩
        intro evs hw
        simp only [totalEnds_sortLayers] at hw
        rw [hf.1] at hw
        simpa [totalEnds] using hw
      | _ => exact stepLocals_ok t hoff

theorem runM_wf {n : Nat} {cx : Ctx} (hd : DefsOk n cx) : ∀ (fuel : Nat) (st : FSt), SInv n st →
    (runM cx n fuel st).2 = true →
    wellFormedFrom n st.off (totalEnds st.layers) (runM cx n fuel st).1 = true := by
  intro fuel
  induction fuel with
  | zero => intro st _ h; simp [runM] at h
  | succ fuel ih =>
    intro st hi hfin
    have hs := step_sound hd st hi
    unfold runM at hfin ⊢
    cases hstep : stepM cx n st with
    | done evs =>
      rw [hstep] at hs
      simpa [StepOk] using hs
    | more evs st' =>
      rw [hstep] at hs hfin
      simp only at hfin ⊢
      exact hs.2 _ (ih st' hs.1 hfin)

/-! ## every iteration decreases the measure -/

theorem skip_mu {cx : Ctx} {l : FLayer} {rest : List FLayer} {c : FCap} {caps' : List FCap}
    (hc : l.caps = c :: caps') (cs : List FCap) (sc : List LScope)
    (hcs : capsW cx (wt cx) l.lang l.depth l.ranges cs ≤ capsW cx (wt cx) l.lang l.depth l.ranges caps')
    {off : Nat} {last : Option (Nat × Nat × Nat)} {evs : List Ev} {st' : FSt}
    (h : stepSkip { layers := l :: rest, off := off, last := last } { l with caps := cs, scopes := sc } rest = .more evs st') :
    sumW (layerW cx) st'.layers < sumW (layerW cx) (l :: rest) := by
  simp only [stepSkip, StepRes.more.injEq] at h
  rw [← h.2]
  have hc2 := capW_ge_two cx (wt cx) l.lang l.depth l.ranges c
  simp only [sumW_sortLayers (layerW_zero cx), sumW, layerW, hc, capsW]
  omega

theorem start_mu {cx : Ctx} {l : FLayer} {rest : List FLayer} {c : FCap} {caps' : List FCap}
    (hc : l.caps = c :: caps') (cs : List FCap) (sc : List LScope) (hh : Nat)
    (hcs : capsW cx (wt cx) l.lang l.depth l.ranges cs ≤ capsW cx (wt cx) l.lang l.depth l.ranges caps')
    {off : Nat} {last : Option (Nat × Nat × Nat)} {evs : List Ev} {st' : FSt}
    (h : stepStart { layers := l :: rest, off := off, last := last } { l with caps := cs, scopes := sc } rest c hh = .more evs st') :
    sumW (layerW cx) st'.layers < sumW (layerW cx) (l :: rest) := by
  simp only [stepStart, StepRes.more.injEq] at h
  rw [← h.2]
  have hc2 := capW_ge_two cx (wt cx) l.lang l.depth l.ranges c
  simp only [sumW_sortLayers (layerW_zero cx), sumW, layerW, hc, capsW, List.length_cons]
  omega

theorem stepLocals_mu {cx : Ctx} {l : FLayer} {rest : List FLayer} {c : FCap} {caps' : List FCap}
    (hc : l.caps = c :: caps') {off : Nat} {last : Option (Nat × Nat × Nat)} {evs : List Ev} {st' : FSt}
    (h : stepLocals { layers := l :: rest, off := off, last := last } l rest c caps' = .more evs st') :
    sumW (layerW cx) st'.layers < sumW (layerW cx) (l :: rest) := by
  unfold stepLocals at h
  have hrun := (localsRun_sub { scopes := popScopes c.s l.scopes, refHl := none, defP := false } c caps').2
    cx (wt cx) l.lang l.depth l.ranges
  simp only at h
  split at h
  · exact skip_mu hc _ _ hrun h
  · split at h
    · exact skip_mu hc _ _ hrun h
    · rename_i hc0 _ _
      have hcol := (collapseL_sub
        ((localsRun { scopes := popScopes c.s l.scopes, refHl := none, defP := false } c caps').1.defP ||
          (localsRun { scopes := popScopes c.s l.scopes, refHl := none, defP := false } c caps').1.refHl.isSome)
        hc0.node (hlOf hc0)
        (localsRun { scopes := popScopes c.s l.scopes, refHl := none, defP := false } c caps').2.2).2
        cx (wt cx) l.lang l.depth l.ranges
      split at h
      · exact start_mu hc _ _ _ (Nat.le_trans hcol hrun) h
      · exact skip_mu hc _ _ (Nat.le_trans hcol hrun) h

theorem step_mu {n : Nat} {cx : Ctx} (hr : refsUp cx = true) (st : FSt) (hi : SInv n st)
    {evs : List Ev} {st' : FSt} (h : stepM cx n st = .more evs st') :
    sumW (layerW cx) st'.layers < sumW (layerW cx) st.layers := by
  obtain ⟨layers, off, last⟩ := st
  unfold stepM at h
  cases layers with
  | nil => simp at h
  | cons l rest =>
    simp only at h
    have hz := layerW_zero cx
    cases hact : action l with
    | final => exact absurd (action_final hact) (hi.head l rest rfl)
    | pop eb ends' =>
      rw [hact] at h
      simp only [stepPop, StepRes.more.injEq] at h
      rw [← h.2]
      have he := action_pop hact
      simp only [sumW_sortLayers hz, sumW, layerW, he, List.length_cons]
      omega
    | take c caps' =>
      rw [hact] at h
      simp only at h
      have hc := action_take hact
      cases hk : c.kind with
      | inj m =>
        rw [hk] at h
        simp only [stepInj, StepRes.more.injEq] at h
        rw [← h.2]
        simp only [sumW_sortLayers hz]
        have hf := sumW_fold_insert hr (injIds cx l.lang l.depth l.ranges m) ({ l with caps := caps' } :: rest)
        have hcw : capW cx (wt cx) l.lang l.depth l.ranges c = 2 + idsW (wt cx) (injIds cx l.lang l.depth l.ranges m) := by
          unfold capW; rw [hk]
        simp only [sumW, layerW, hc, capsW, hcw] at hf ⊢
        omega
      | _ =>
        rw [hk] at h
        exact stepLocals_mu hc h

theorem runM_fin {n : Nat} {cx : Ctx} (hd : DefsOk n cx) (hr : refsUp cx = true) :
    ∀ (fuel : Nat) (st : FSt), SInv n st → sumW (layerW cx) st.layers < fuel →
      (runM cx n fuel st).2 = true := by
  intro fuel
  induction fuel with
  | zero => intro st _ h; omega
  | succ fuel ih =>
    intro st hi hlt
    have hs := step_sound hd st hi
    unfold runM
    cases hstep : stepM cx n st with
    | done evs => rfl
    | more evs st' =>
      rw [hstep] at hs
      simp only
      have hmu := step_mu hr st hi hstep
      exact ih st' hs.1 (by omega)

/-- The end-to-end model terminates and yields a well-formed stream. -/
theorem mergeFull_ok (cx : Ctx) (top : List Nat) (n : Nat) (hd : defsIn n cx = true) (hr : refsUp cx = true) :
    (mergeFull cx top n).2 = true ∧ wellFormed n (mergeFull cx top n).1 = true := by
  have hdo : DefsOk n cx := by
    intro d hdm c hc
    have h1 := List.all_eq_true.mp hd d hdm
    have h2 := List.all_eq_true.mp h1 c hc
    simpa using h2
  have hinit : ∀ (ids : List Nat), totalEnds (ids.filterMap (mkLayer cx)) = 0 ∧
      ∀ l ∈ ids.filterMap (mkLayer cx), LayerOk n l := by
    intro ids
    induction ids with
    | nil => exact ⟨rfl, fun _ h => by simp at h⟩
    | cons id r ih =>
      cases hm : mkLayer cx id with
      | none => simpa [List.filterMap_cons, hm] using ih
      | some nl =>
        obtain ⟨he, hok⟩ := mkLayer_ok hdo hm
        simp only [List.filterMap_cons, hm]
        refine ⟨by simp [totalEnds, he, ih.1], ?_⟩
        intro l hl
        rcases List.mem_cons.mp hl with rfl | hl
        · exact hok
        · exact ih.2 l hl
  -- the initial layer vector, with or without the insertion of the further layers
  have hfold : ∀ (r base : List FLayer), (∀ l ∈ r, l.ends = [] ∧ LayerOk n l) → (∀ l ∈ base, LayerOk n l) →
      totalEnds (r.foldl insertLayer base) = totalEnds base ∧ ∀ l ∈ r.foldl insertLayer base, LayerOk n l := by
    intro r
    induction r with
    | nil => intro base _ hb; exact ⟨rfl, hb⟩
    | cons x r ih =>
      intro base hr hb
      simp only [List.foldl_cons]
      have hx := hr x (List.mem_cons_self)
      have hb' : ∀ l ∈ insertLayer base x, LayerOk n l := by
        intro l hl
        rcases mem_insertLayer hl with hl | hl
        · exact hb l hl
        · rw [hl]; exact hx.2
      have := ih (insertLayer base x) (fun l hl => hr l (List.mem_cons_of_mem _ hl)) hb'
      exact ⟨by rw [this.1, totalEnds_insertLayer base x hx.1], this.2⟩
  have hends : ∀ (ids : List Nat), ∀ l ∈ ids.filterMap (mkLayer cx), l.ends = [] ∧ LayerOk n l := by
    intro ids l hl
    obtain ⟨id, _, hm⟩ := List.mem_filterMap.mp hl
    exact mkLayer_ok hdo hm
  have hinit2 : totalEnds (initLayers cx top) = 0 ∧ ∀ l ∈ initLayers cx top, LayerOk n l := by
    unfold initLayers
    split
    · cases hf : top.filterMap (mkLayer cx) with
      | nil => exact ⟨rfl, fun _ h => by simp at h⟩
      | cons l0 r =>
        simp only
        have hall := hends top
        rw [hf] at hall
        have h0 := hall l0 (List.mem_cons_self)
        have := hfold r [l0] (fun l hl => hall l (List.mem_cons_of_mem _ hl))
          (fun l hl => by simp at hl; rw [hl]; exact h0.2)
        exact ⟨by rw [this.1]; simp [totalEnds, h0.1], this.2⟩
    · exact hinit top
  have hs : SInv n { layers := sortLayers (initLayers cx top) } :=
    sinv_sorted (Nat.zero_le _) hinit2.2
  have hfin : (mergeFull cx top n).2 = true := by
    unfold mergeFull
    exact runM_fin hdo hr _ _ hs (Nat.lt_succ_self _)
  refine ⟨hfin, ?_⟩
  unfold mergeFull at hfin ⊢
  have := runM_wf hdo _ _ hs hfin
  simp only [totalEnds_sortLayers, hinit2.1] at this
  exact this

end TsVerif.C17.Full
