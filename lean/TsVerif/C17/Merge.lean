import TsVerif.C17.Model
/-!
# C17 model of the event merge of one highlight layer

Code-shaped model of the highlight branch of `HighlightIter::next` together with `emit_event`,
`next_event` and `highlight_end_stack` for ONE layer (`/repo/crates/highlight/src/highlight.rs`).
`Cap` is one capture after the "keep iterating over later patterns that match this node" loop has
collapsed all captures of one node into the last one (`h = none`: that pattern's name is not
recognised, no event).  The iterator is unrolled into the list of events it yields:

* `emitEv off t ev` = `emit_event(t, Some(ev))`: a `Source {byte_offset, t}` first when
  `byte_offset < t` (the event itself is parked in `next_event` and returned by the next call);
* stack top `end_byte <= range.start` ⇒ pop, `emit_event(end_byte, HighlightEnd)`;
* no captures left ⇒ pop the remaining ends, then `emit_event(source.len(), None)`.

Tied to the real code by correspondence on single-layer configurations (`run merge` cases of the
driver).  Several layers (`sort_key`, `sort_layers`, `insert_layer`, `last_highlight_range`) are not
modelled; real multi-layer streams are judged by `judgeEvents`.
-/
namespace TsVerif.C17

structure Cap where
  s : Nat
  e : Nat
  h : Option Nat
  deriving Repr, DecidableEq

/-- `emit_event(t, Some(ev))` as the list of events the iterator yields for it. -/
def emitEv (off t : Nat) (ev : Ev) : List Ev :=
  if off < t then [.source off t, ev] else [ev]

/-- Events of one layer; `off` = `byte_offset`, `ends` = `highlight_end_stack` (top first),
`fuel` > 2·|caps| + |ends|. -/
def mergeGo (n : Nat) : Nat → Nat → List Nat → List Cap → List Ev
  | 0, _, _, _ => []
  | fuel + 1, off, ends, caps =>
    match caps, ends with
    | [], [] => if off < n then [.source off n] else []
    | [], eb :: ends' => emitEv off eb .stop ++ mergeGo n fuel (max off eb) ends' []
    | c :: caps', [] =>
      match c.h with
      | some h => emitEv off c.s (.start h) ++ mergeGo n fuel (max off c.s) [c.e] caps'
      | none => mergeGo n fuel off [] caps'
    | c :: caps', eb :: ends' =>
      if eb ≤ c.s then emitEv off eb .stop ++ mergeGo n fuel (max off eb) ends' (c :: caps')
      else
        match c.h with
        | some h => emitEv off c.s (.start h) ++ mergeGo n fuel (max off c.s) (c.e :: eb :: ends') caps'
        | none => mergeGo n fuel off (eb :: ends') caps'

/-- The event stream of a single-layer highlight of a source of `n` bytes. -/
def mergeLayer (n : Nat) (caps : List Cap) : List Ev := mergeGo n (2 * caps.length + 1) 0 [] caps

/-- All capture offsets lie inside the source. -/
def capsIn (n : Nat) (caps : List Cap) : Bool := caps.all fun c => c.s ≤ n && c.e ≤ n

def capOk (n : Nat) (c : Cap) : Bool := c.s ≤ c.e && c.e ≤ n

/-- `c` may follow `p` in capture order: it starts no earlier and is disjoint from or nested in `p`. -/
def capAfter (p c : Cap) : Bool := p.s ≤ c.s && (p.e ≤ c.s || c.e ≤ p.e)

/-- Captures inside `[0,n]`, in start order, any two nested or disjoint (decided on every real
capture list by the driver). -/
def capsOk (n : Nat) : List Cap → Bool
  | [] => true
  | c :: r => capOk n c && r.all (capAfter c) && capsOk n r

end TsVerif.C17
