import TsVerif.C17.Props
/-!
# C17 round 11: the single-layer merge WITH the locals branch yields a well-formed stream

`mergeLocals` (`Locals.lean`) is the port of `HighlightIter::next` for one layer with a locals query
(scope stack, definitions, references, `non_local_variable_patterns`), tied to the real code by
exact reproduction of the real stream on every K case.  Until this round only `local_ref_like_def`
was proved about it; its well-formedness was listed as "not proved (same argument as
`merge_wellformed_partial`)".  Here it is proved: whatever the locals loop does to the scope stack and
to the highlight it picks, the loop consumes at least one capture per iteration that does not pop, and
pushes one end per emitted `Start`.
-/
namespace TsVerif.C17

/-- The locals loop hands back a part of the captures it was given (never more, never others). -/
theorem localsRun_rest : ∀ (rest : List LCap) (r : LRun) (c : LCap),
    (localsRun r c rest).2.2.length ≤ rest.length ∧ ∀ x ∈ (localsRun r c rest).2.2, x ∈ rest := by
  intro rest
  induction rest with
  | nil =>
    intro r c
    unfold localsRun
    cases c.kind <;> simp
  | cons nx rest' ih =>
    intro r c
    unfold localsRun
    cases hk : c.kind with
    | hl h nl => simp
    | scope i =>
      simp only
      by_cases hn : nx.node = c.node
      · rw [if_pos hn]
        have := ih (applyLocal r c) nx
        exact ⟨by simp; omega, fun x hx => List.mem_cons_of_mem _ (this.2 x hx)⟩
      · rw [if_neg hn]; simp
    | defn a b ok =>
      simp only
      by_cases hn : nx.node = c.node
      · rw [if_pos hn]
        have := ih (applyLocal r c) nx
        exact ⟨by simp; omega, fun x hx => List.mem_cons_of_mem _ (this.2 x hx)⟩
      · rw [if_neg hn]; simp
    | ref a ok =>
      simp only
      by_cases hn : nx.node = c.node
      · rw [if_pos hn]
        have := ih (applyLocal r c) nx
        exact ⟨by simp; omega, fun x hx => List.mem_cons_of_mem _ (this.2 x hx)⟩
      · rw [if_neg hn]; simp
    | other =>
      simp only
      by_cases hn : nx.node = c.node
      · rw [if_pos hn]
        have := ih (applyLocal r c) nx
        exact ⟨by simp; omega, fun x hx => List.mem_cons_of_mem _ (this.2 x hx)⟩
      · rw [if_neg hn]; simp

/-- The later-pattern loop hands back a part of the captures it was given. -/
theorem collapseL_rest (isLocal : Bool) (node : Nat) : ∀ (l : List LCap) (h : Option Nat),
    (collapseL isLocal node h l).2.length ≤ l.length ∧ ∀ x ∈ (collapseL isLocal node h l).2, x ∈ l := by
  intro l
  induction l with
  | nil => intro h; simp [collapseL]
  | cons c r ih =>
    intro h
    unfold collapseL
    by_cases hn : c.node = node
    · rw [if_pos hn]
      cases hk : c.kind with
      | hl h' nl =>
        simp only
        by_cases hb : (isLocal && nl) = true
        · rw [if_pos hb]
          have := ih h
          exact ⟨by simp; omega, fun x hx => List.mem_cons_of_mem _ (this.2 x hx)⟩
        · rw [if_neg hb]
          have := ih h'
          exact ⟨by simp; omega, fun x hx => List.mem_cons_of_mem _ (this.2 x hx)⟩
      | scope i =>
        have := ih none
        exact ⟨by simp; omega, fun x hx => List.mem_cons_of_mem _ (this.2 x hx)⟩
      | defn a b ok =>
        have := ih none
        exact ⟨by simp; omega, fun x hx => List.mem_cons_of_mem _ (this.2 x hx)⟩
      | ref a ok =>
        have := ih none
        exact ⟨by simp; omega, fun x hx => List.mem_cons_of_mem _ (this.2 x hx)⟩
      | other =>
        have := ih none
        exact ⟨by simp; omega, fun x hx => List.mem_cons_of_mem _ (this.2 x hx)⟩
    · rw [if_neg hn]; simp

/-- Invariant of the loop with locals: everything stays inside `[0,n]`. -/
structure LWInv (n off : Nat) (ends : List Nat) (caps : List LCap) : Prop where
  offn : off ≤ n
  endsLe : ∀ eb ∈ ends, eb ≤ n
  capsIn : ∀ c ∈ caps, c.s ≤ n ∧ c.e ≤ n

theorem LWInv.pop {n off eb : Nat} {ends : List Nat} {caps : List LCap} (hi : LWInv n off (eb :: ends) caps) :
    LWInv n (max off eb) ends caps :=
  { offn := by have := hi.offn; have := hi.endsLe eb (List.mem_cons_self); omega
    endsLe := fun x hx => hi.endsLe x (List.mem_cons_of_mem _ hx)
    capsIn := hi.capsIn }

theorem LWInv.sub {n off : Nat} {ends : List Nat} {c : LCap} {rest caps' : List LCap}
    (hi : LWInv n off ends (c :: rest)) (hs : ∀ x ∈ caps', x ∈ rest) : LWInv n off ends caps' :=
  { offn := hi.offn
    endsLe := hi.endsLe
    capsIn := fun c' hc' => hi.capsIn c' (List.mem_cons_of_mem _ (hs c' hc')) }

theorem LWInv.take {n off : Nat} {ends : List Nat} {c : LCap} {rest caps' : List LCap}
    (hi : LWInv n off ends (c :: rest)) (hs : ∀ x ∈ caps', x ∈ rest) :
    LWInv n (max off c.s) (c.e :: ends) caps' := by
  have hc := hi.capsIn c (List.mem_cons_self)
  exact {
    offn := by have := hi.offn; omega
    endsLe := by
      intro x hx
      rcases List.mem_cons.mp hx with rfl | hx
      · exact hc.2
      · exact hi.endsLe x hx
    capsIn := fun c' hc' => hi.capsIn c' (List.mem_cons_of_mem _ (hs c' hc')) }

/-- The "process the next capture" branch of `mergeLGo` (no end to pop first). -/
theorem mergeLGo_take (n fuel off : Nat) (ends : List Nat) (scopes : List LScope) (c : LCap) (rest : List LCap)
    (ih : ∀ (off : Nat) (ends : List Nat) (scopes : List LScope) (caps : List LCap),
      2 * caps.length + ends.length < fuel → LWInv n off ends caps →
      wellFormedFrom n off ends.length (mergeLGo n fuel off ends scopes caps) = true)
    (hf : 2 * (c :: rest).length + ends.length < fuel + 1) (hi : LWInv n off ends (c :: rest)) :
    wellFormedFrom n off ends.length
      (let run := localsRun { scopes := popScopes c.s scopes, refHl := none, defP := false } c rest
        match run.2.1 with
        | none => mergeLGo n fuel off ends run.1.scopes run.2.2
        | some hc =>
          let h0 := match hc.kind with | .hl h _ => h | _ => none
          let col := collapseL (run.1.defP || run.1.refHl.isSome) hc.node h0 run.2.2
          let scopes' := if run.1.defP then setDefHl col.1 run.1.scopes else run.1.scopes
          match run.1.refHl.or col.1 with
          | some hh => emitEv off c.s (.start hh) ++ mergeLGo n fuel (max off c.s) (c.e :: ends) scopes' col.2
          | none => mergeLGo n fuel off ends scopes' col.2) = true := by
  have hr := localsRun_rest rest { scopes := popScopes c.s scopes, refHl := none, defP := false } c
  generalize localsRun { scopes := popScopes c.s scopes, refHl := none, defP := false } c rest = run at hr ⊢
  obtain ⟨r1, ohc, rest1⟩ := run
  simp only at hr ⊢
  have hcn := hi.capsIn c (List.mem_cons_self)
  simp only [List.length_cons] at hf
  cases ohc with
  | none =>
    simp only
    exact ih off ends r1.scopes rest1 (by omega) (hi.sub hr.2)
  | some hc =>
    simp only
    have hcl := collapseL_rest (r1.defP || r1.refHl.isSome) hc.node rest1
      (match hc.kind with | .hl h _ => h | _ => none)
    generalize collapseL (r1.defP || r1.refHl.isSome) hc.node
      (match hc.kind with | .hl h _ => h | _ => none) rest1 = col at hcl ⊢
    obtain ⟨ch, crest⟩ := col
    simp only at hcl ⊢
    have hsub : ∀ x ∈ crest, x ∈ rest := fun x hx => hr.2 x (hcl.2 x hx)
    cases hor : r1.refHl.or ch with
    | none =>
      simp only
      exact ih off ends _ crest (by omega) (hi.sub hsub)
    | some hh =>
      simp only
      apply wf_emit _ _ _ _ _ _ hcn.1
      simp only [wellFormedFrom]
      exact ih (max off c.s) (c.e :: ends) _ crest (by simp only [List.length_cons]; omega) (hi.take hsub)

theorem mergeLGo_wf (n : Nat) : ∀ (fuel off : Nat) (ends : List Nat) (scopes : List LScope) (caps : List LCap),
    2 * caps.length + ends.length < fuel → LWInv n off ends caps →
    wellFormedFrom n off ends.length (mergeLGo n fuel off ends scopes caps) = true := by
  intro fuel
  induction fuel with
  | zero => intro off ends scopes caps hf; omega
  | succ fuel ih =>
    intro off ends scopes caps hf hi
    cases caps with
    | nil =>
      cases ends with
      | nil =>
        simp only [mergeLGo]
        have := hi.offn
        by_cases hlt : off < n
        · rw [if_pos hlt]; simp [wellFormedFrom, hlt]
        · rw [if_neg hlt]
          have : off = n := by omega
          simp [wellFormedFrom, this]
      | cons eb ends' =>
        simp only [mergeLGo]
        apply wf_emit _ _ _ _ _ _ (hi.endsLe eb (List.mem_cons_self))
        simp only [wellFormedFrom, List.length_cons, Nat.add_sub_cancel, Bool.and_eq_true, decide_eq_true_eq]
        exact ⟨by omega, ih _ ends' scopes [] (by simp at hf ⊢; omega) hi.pop⟩
    | cons c rest =>
      cases ends with
      | nil =>
        simp only [mergeLGo]
        exact mergeLGo_take n fuel off [] scopes c rest ih hf hi
      | cons eb ends' =>
        simp only [mergeLGo]
        by_cases hle : eb ≤ c.s
        · rw [if_pos hle]
          simp only
          apply wf_emit _ _ _ _ _ _ (hi.endsLe eb (List.mem_cons_self))
          simp only [wellFormedFrom, List.length_cons, Nat.add_sub_cancel, Bool.and_eq_true, decide_eq_true_eq]
          exact ⟨by omega, ih _ ends' scopes (c :: rest) (by simp at hf ⊢; omega) hi.pop⟩
        · rw [if_neg hle]
          simp only
          exact mergeLGo_take n fuel off (eb :: ends') scopes c rest ih hf hi

/-- All raw capture offsets lie inside the source. -/
def lcapsIn (n : Nat) (caps : List LCap) : Bool := caps.all fun c => c.s ≤ n && c.e ≤ n

/-- WELL-FORMEDNESS OF THE SINGLE-LAYER MERGE WITH THE LOCALS BRANCH: for every raw capture list
(locals-pattern captures — scopes, definitions, references, others — and highlight captures in ANY
order and nesting, any node ids, any names) whose offsets lie inside the source, the stream of
`mergeLocals` satisfies `judgeEvents`: `Source` spans contiguous, non-empty, increasing, covering
`[0,n)` exactly once; `Start`/`End` balanced, never negative, all closed at the end.  In particular
the port never runs out of its fuel `2·|caps| + 2`.
`_partial`: ONE layer (several layers with locals: `merge_full_wellformed`, which needs `refsUp`);
the hypothesis cannot be dropped (example below). -/
theorem merge_locals_wellformed_partial (n : Nat) (caps : List LCap) (h : lcapsIn n caps = true) :
    judgeEvents n (mergeLocals n caps) = true := by
  have hin : ∀ c ∈ caps, c.s ≤ n ∧ c.e ≤ n := by
    intro c hc
    have := List.all_eq_true.mp h c hc
    simpa using this
  exact mergeLGo_wf n _ 0 [] _ caps (by simp) ⟨Nat.zero_le _, fun _ h => by simp at h, hin⟩

/-- non-vacuity: a scope with a definition (highlighted 1), a reference to it in the same scope that
takes the definition's highlight although its own pattern says 2, an unrecognised capture, and a
reference after the scope has ended (keeps 2). -/
example :
    let caps : List LCap :=
      [⟨0, 8, 1, .scope true⟩,
       ⟨1, 2, 2, .defn 7 0 true⟩, ⟨1, 2, 2, .hl (some 1) false⟩,
       ⟨3, 4, 3, .ref 7 true⟩, ⟨3, 4, 3, .hl (some 2) false⟩,
       ⟨5, 6, 4, .hl none false⟩,
       ⟨9, 10, 5, .ref 7 true⟩, ⟨9, 10, 5, .hl (some 2) false⟩]
    lcapsIn 11 caps = true ∧
    mergeLocals 11 caps =
      [.source 0 1, .start 1, .source 1 2, .stop, .source 2 3, .start 1, .source 3 4, .stop,
       .source 4 9, .start 2, .source 9 10, .stop, .source 10 11] := by decide

/-- The hypothesis cannot be dropped: a highlighted node that ends beyond the source yields a
`Source` event past the end. -/
example : judgeEvents 3 (mergeLocals 3 [⟨1, 9, 1, .hl (some 0) false⟩]) = false := by decide

/-! ## Event level: which highlight the `Start` of a definition / a reference carries

Until this round "a name resolved as a local reference is highlighted like its definition" was proved
only for the locals loop's register (`local_ref_like_def`: `reference_highlight = h`).  The three
theorems below are about the EVENTS of `mergeLGo`. -/

/-- EVENT-LEVEL `local_ref_like_def`: in ANY state of the single-layer loop with locals (any offset,
end stack, scope stack, fuel, following captures) whose next node carries a `@local.reference` capture
followed by one highlight capture (any highlight `h0`, recognised or not, `#is-not? local` or not),
with no end to pop first, if after popping the finished scopes the scopes above the defining one all
inherit and hold no admissible definition of the name and the defining scope's newest admissible
definition stores highlight `hh`, then this iteration emits `HighlightStart(hh)` AT the reference's
start (after the pending `Source`), pushes the reference's end, and continues behind the node's
later patterns — the reference's own pattern highlight `h0` is overridden. -/
theorem merge_locals_ref_event (n fuel off s e s2 e2 node name hh : Nat) (h0 : Option Nat) (nl : Bool)
    (ends : List Nat) (scopes above below : List LScope) (sc : LScope) (rest : List LCap)
    (hends : ∀ eb ∈ ends.head?, s < eb)
    (hpop : popScopes s scopes = above ++ sc :: below)
    (habove : ∀ a ∈ above, a.inherits = true ∧ findDef name s a.defs = none)
    (hsc : findDef name s sc.defs = some (some hh)) :
    mergeLGo n (fuel + 1) off ends scopes (⟨s, e, node, .ref name true⟩ :: ⟨s2, e2, node, .hl h0 nl⟩ :: rest) =
      emitEv off s (.start hh) ++
        mergeLGo n fuel (max off s) (e :: ends) (popScopes s scopes) (collapseL true node h0 rest).2 := by
  have hl := local_ref_like_def name s e node above below sc (some hh)
    { scopes := popScopes s scopes, refHl := none, defP := false } hpop rfl habove hsc
  have hd : (applyLocal { scopes := popScopes s scopes, refHl := none, defP := false }
      ⟨s, e, node, .ref name true⟩).defP = false := by simp [applyLocal]
  have hs : (applyLocal { scopes := popScopes s scopes, refHl := none, defP := false }
      ⟨s, e, node, .ref name true⟩).scopes = popScopes s scopes := by simp [applyLocal]
  cases ends with
  | nil =>
    simp only [mergeLGo, localsRun, if_true, hl, hd, hs, Option.some_or, Bool.false_or, Option.isSome_some, Bool.false_eq_true, if_false]
  | cons eb ends' =>
    have : ¬ eb ≤ s := by have := hends eb (by simp); omega
    simp only [mergeLGo, localsRun, if_true, if_neg this, hl, hd, hs, Option.some_or, Bool.false_or, Option.isSome_some, Bool.false_eq_true, if_false]

/-- EVENT-LEVEL definition step: a node with a `@local.definition` capture followed by a highlight
capture, whose final highlight (after the later patterns of the node, `#is-not? local` ones skipped) is
`hh`: the iteration emits `HighlightStart(hh)` at the definition's start AND stores exactly `hh` as the
highlight of the new newest definition of the current scope (`*definition_highlight = current`).  So the
highlight stored for a definition IS the one its own `Start` event carries (was: judged only). -/
theorem merge_locals_def_event (n fuel off s e s2 e2 node name ve hh : Nat) (h0 : Option Nat) (nl : Bool)
    (ends : List Nat) (scopes below : List LScope) (sc : LScope) (rest : List LCap)
    (hends : ∀ eb ∈ ends.head?, s < eb)
    (hpop : popScopes s scopes = sc :: below)
    (hcol : (collapseL true node h0 rest).1 = some hh) :
    mergeLGo n (fuel + 1) off ends scopes (⟨s, e, node, .defn name ve true⟩ :: ⟨s2, e2, node, .hl h0 nl⟩ :: rest) =
      emitEv off s (.start hh) ++
        mergeLGo n fuel (max off s) (e :: ends)
          ({ sc with defs := { name := name, valueEnd := ve, hl := some hh } :: sc.defs } :: below)
          (collapseL true node h0 rest).2 := by
  have ha : applyLocal { scopes := popScopes s scopes, refHl := none, defP := false }
      ⟨s, e, node, .defn name ve true⟩ =
      { scopes := { sc with defs := { name := name, valueEnd := ve, hl := none } :: sc.defs } :: below,
        refHl := none, defP := true } := by simp [applyLocal, hpop]
  cases ends with
  | nil =>
    simp only [mergeLGo, localsRun, if_true, ha, Bool.true_or, hcol, Option.none_or, setDefHl]
  | cons eb ends' =>
    have : ¬ eb ≤ s := by have := hends eb (by simp); omega
    simp only [mergeLGo, localsRun, if_true, if_neg this, ha, Bool.true_or, hcol, Option.none_or, setDefHl]

/-- the pop step -/
theorem mergeLGo_pop (n fuel off eb : Nat) (ends : List Nat) (scopes : List LScope) (c : LCap) (rest : List LCap)
    (h : eb ≤ c.s) :
    mergeLGo n (fuel + 1) off (eb :: ends) scopes (c :: rest) =
      emitEv off eb .stop ++ mergeLGo n fuel (max off eb) ends scopes (c :: rest) := by
  simp only [mergeLGo, if_pos h]

/-- "A name resolved as a local reference is highlighted like its definition", AS EVENTS, for a
definition node directly followed by a reference node of the same name in the same scope (the
definition's node and value end before the reference starts; the scope has not ended; no older open
highlight ends before the reference): from ANY state, the next three iterations emit
`Start(hh)` at the definition, its `End`, and `Start(hh)` at the reference — the SAME highlight, whatever
the reference's own pattern (`h2`) says.  `_partial` in shape only: arbitrary captures between the two
nodes need an invariant on the scope stack (OPEN); the two step theorems above hold for any state. -/
theorem merge_locals_ref_like_def_events (n fuel off s1 e1 a1 b1 s2 e2 a2 b2 node1 node2 name ve hh : Nat)
    (h2 : Option Nat) (nl1 nl2 : Bool)
    (ends : List Nat) (scopes below : List LScope) (sc : LScope) (rest : List LCap)
    (hne : node2 ≠ node1) (h12 : s1 ≤ s2) (hes : e1 ≤ s2) (hve : ve ≤ s2) (hre : s2 ≤ sc.re)
    (hends : ∀ eb ∈ ends.head?, s2 < eb)
    (hpop : popScopes s1 scopes = sc :: below) :
    mergeLGo n (fuel + 3) off ends scopes
        (⟨s1, e1, node1, .defn name ve true⟩ :: ⟨a1, b1, node1, .hl (some hh) nl1⟩ ::
         ⟨s2, e2, node2, .ref name true⟩ :: ⟨a2, b2, node2, .hl h2 nl2⟩ :: rest) =
      emitEv off s1 (.start hh) ++ (emitEv (max off s1) e1 .stop ++
        (emitEv (max (max off s1) e1) s2 (.start hh) ++
          mergeLGo n fuel (max (max (max off s1) e1) s2) (e2 :: ends)
            ({ sc with defs := { name := name, valueEnd := ve, hl := some hh } :: sc.defs } :: below)
            (collapseL true node2 h2 rest).2)) := by
  have hc : collapseL true node1 (some hh)
      (⟨s2, e2, node2, .ref name true⟩ :: ⟨a2, b2, node2, .hl h2 nl2⟩ :: rest) =
      (some hh, ⟨s2, e2, node2, .ref name true⟩ :: ⟨a2, b2, node2, .hl h2 nl2⟩ :: rest) := by
    simp [collapseL, hne]
  have hends1 : ∀ eb ∈ ends.head?, s1 < eb := fun eb h => by have := hends eb h; omega
  rw [merge_locals_def_event n (fuel + 2) off s1 e1 a1 b1 node1 name ve hh (some hh) nl1 ends scopes below sc _
    hends1 hpop (by rw [hc]), hc]
  simp only
  rw [mergeLGo_pop n (fuel + 1) _ e1 ends _ _ _ hes]
  have hp2 : popScopes s2 ({ sc with defs := { name := name, valueEnd := ve, hl := some hh } :: sc.defs } :: below) =
      [] ++ { sc with defs := { name := name, valueEnd := ve, hl := some hh } :: sc.defs } :: below := by
    simp [popScopes]; omega
  rw [merge_locals_ref_event n fuel _ s2 e2 a2 b2 node2 name hh h2 nl2 ends _ [] below _ rest hends hp2
    (by simp) (by simp [findDef]; omega)]
  rw [hp2]; rfl

/-- non-vacuity of `merge_locals_ref_like_def_events` (hence of the two step theorems it is composed
of): `a = …; a` in the root scope, the reference's own pattern says 2, both Starts carry 1. -/
example :
    mergeLGo 11 (7 + 3) 0 [] [⟨false, usizeMax, []⟩]
        [⟨1, 2, 2, .defn 7 0 true⟩, ⟨1, 2, 2, .hl (some 1) false⟩,
         ⟨3, 4, 3, .ref 7 true⟩, ⟨3, 4, 3, .hl (some 2) false⟩] =
      emitEv 0 1 (.start 1) ++ (emitEv (max 0 1) 2 .stop ++ (emitEv (max (max 0 1) 2) 3 (.start 1) ++
        mergeLGo 11 7 (max (max (max 0 1) 2) 3) [4]
          [⟨false, usizeMax, [⟨7, 0, some 1⟩]⟩] (collapseL true 3 (some 2) []).2)) :=
  merge_locals_ref_like_def_events 11 7 0 1 2 1 2 3 4 3 4 2 3 7 0 1 (some 2) false false [] _ []
    ⟨false, usizeMax, []⟩ [] (by decide) (by decide) (by decide) (by decide) (by simp [usizeMax]) (by simp)
    (by simp [popScopes, usizeMax])

/-- the same run evaluated: the reference (own pattern: 2) is emitted with the definition's 1 -/
example :
    mergeLGo 11 10 0 [] [⟨false, usizeMax, []⟩]
        [⟨1, 2, 2, .defn 7 0 true⟩, ⟨1, 2, 2, .hl (some 1) false⟩,
         ⟨3, 4, 3, .ref 7 true⟩, ⟨3, 4, 3, .hl (some 2) false⟩] =
      [.source 0 1, .start 1, .source 1 2, .stop, .source 2 3, .start 1, .source 3 4, .stop, .source 4 11] := by
  decide

/-! ## The same for the END-TO-END model (`Full.lean`: several layers, injections, one scope stack per layer)

`Full.stepM` is one iteration of the `'main` loop of `HighlightIter::next` in the model that reproduces
every real F-case stream (locals AND injections).  Listed OPEN until this round: "event-level
`local_ref_like_def` for `mergeFull`". -/

/-- In ANY state of the end-to-end multi-layer model whose HEAD layer (the one `sort_layers` put first)
has as next node a `@local.reference` capture followed by a highlight capture, with no end of that
layer to pop first and the cross-layer de-duplication not firing (`dedup = false`; when it fires the
real code emits nothing for the node): if in that layer's scope stack, after popping finished scopes,
the scopes above the defining one inherit and hold no admissible definition of the name and the
defining scope's newest admissible definition stores `hh`, the iteration IS `stepStart … hh`: it emits
`HighlightStart(hh)` at the reference's start (own pattern highlight `h0` overridden), pushes the
reference's end on that layer's stack, records `last_highlight_range` and re-sorts the layers. -/
theorem full_ref_event (cx : Full.Ctx) (n : Nat) (st : Full.FSt) (l : Full.FLayer) (rest : List Full.FLayer)
    (s e s2 e2 node name hh : Nat) (h0 : Option Nat) (nl : Bool) (caps' : List Full.FCap)
    (above below : List LScope) (sc : LScope)
    (hlay : st.layers = l :: rest)
    (hcaps : l.caps = ⟨s, e, node, .ref name true⟩ :: ⟨s2, e2, node, .hl h0 nl⟩ :: caps')
    (hends : ∀ eb ∈ l.ends.head?, s < eb)
    (hdd : Full.dedup st l ⟨s, e, node, .ref name true⟩ = false)
    (hpop : popScopes s l.scopes = above ++ sc :: below)
    (habove : ∀ a ∈ above, a.inherits = true ∧ findDef name s a.defs = none)
    (hsc : findDef name s sc.defs = some (some hh)) :
    Full.stepM cx n st =
      Full.stepStart st { l with caps := (Full.collapseL true node h0 caps').2, scopes := popScopes s l.scopes }
        rest ⟨s, e, node, .ref name true⟩ hh := by
  have hl := local_ref_like_def name s e node above below sc (some hh)
    { scopes := popScopes s l.scopes, refHl := none, defP := false } hpop rfl habove hsc
  have hd : (applyLocal { scopes := popScopes s l.scopes, refHl := none, defP := false }
      ⟨s, e, node, .ref name true⟩).defP = false := by simp [applyLocal]
  have hs : (applyLocal { scopes := popScopes s l.scopes, refHl := none, defP := false }
      ⟨s, e, node, .ref name true⟩).scopes = popScopes s l.scopes := by simp [applyLocal]
  have hact : Full.action l = .take ⟨s, e, node, .ref name true⟩ (⟨s2, e2, node, .hl h0 nl⟩ :: caps') := by
    unfold Full.action
    rw [hcaps]
    cases he : l.ends with
    | nil => rfl
    | cons eb ends' =>
      have : ¬ eb ≤ s := by have := hends eb (by simp [he]); omega
      simp only [if_neg this]
  simp only [Full.stepM, hlay, hact, Full.stepLocals, Full.localsRun, Full.toL, if_true, hdd, hl, hd, hs,
    Option.some_or, Bool.false_or, Option.isSome_some, Bool.false_eq_true, if_false, Full.hlOf]

/-- Definition step of the end-to-end model: the `Start` of a definition node carries the node's final
highlight `hh` and exactly `hh` is stored as the highlight of the new newest definition of the head
layer's current scope. -/
theorem full_def_event (cx : Full.Ctx) (n : Nat) (st : Full.FSt) (l : Full.FLayer) (rest : List Full.FLayer)
    (s e s2 e2 node name ve hh : Nat) (h0 : Option Nat) (nl : Bool) (caps' : List Full.FCap)
    (below : List LScope) (sc : LScope)
    (hlay : st.layers = l :: rest)
    (hcaps : l.caps = ⟨s, e, node, .defn name ve true⟩ :: ⟨s2, e2, node, .hl h0 nl⟩ :: caps')
    (hends : ∀ eb ∈ l.ends.head?, s < eb)
    (hdd : Full.dedup st l ⟨s, e, node, .defn name ve true⟩ = false)
    (hpop : popScopes s l.scopes = sc :: below)
    (hcol : (Full.collapseL true node h0 caps').1 = some hh) :
    Full.stepM cx n st =
      Full.stepStart st { l with caps := (Full.collapseL true node h0 caps').2,
                                 scopes := { sc with defs := { name := name, valueEnd := ve, hl := some hh } :: sc.defs } :: below }
        rest ⟨s, e, node, .defn name ve true⟩ hh := by
  have ha : applyLocal { scopes := popScopes s l.scopes, refHl := none, defP := false }
      ⟨s, e, node, .defn name ve true⟩ =
      { scopes := { sc with defs := { name := name, valueEnd := ve, hl := none } :: sc.defs } :: below,
        refHl := none, defP := true } := by simp [applyLocal, hpop]
  have hact : Full.action l = .take ⟨s, e, node, .defn name ve true⟩ (⟨s2, e2, node, .hl h0 nl⟩ :: caps') := by
    unfold Full.action
    rw [hcaps]
    cases he : l.ends with
    | nil => rfl
    | cons eb ends' =>
      have : ¬ eb ≤ s := by have := hends eb (by simp [he]); omega
      simp only [if_neg this]
  simp only [Full.stepM, hlay, hact, Full.stepLocals, Full.localsRun, Full.toL, if_true, hdd, ha,
    Bool.true_or, hcol, Option.none_or, setDefHl, Bool.false_eq_true, if_false, Full.hlOf]

/-- run form of `full_ref_event`: the events of the iteration open the run's remaining stream -/
theorem full_ref_event_run (cx : Full.Ctx) (n fuel : Nat) (st : Full.FSt) (l : Full.FLayer) (rest : List Full.FLayer)
    (s e s2 e2 node name hh : Nat) (h0 : Option Nat) (nl : Bool) (caps' : List Full.FCap)
    (above below : List LScope) (sc : LScope)
    (hlay : st.layers = l :: rest)
    (hcaps : l.caps = ⟨s, e, node, .ref name true⟩ :: ⟨s2, e2, node, .hl h0 nl⟩ :: caps')
    (hends : ∀ eb ∈ l.ends.head?, s < eb)
    (hdd : Full.dedup st l ⟨s, e, node, .ref name true⟩ = false)
    (hpop : popScopes s l.scopes = above ++ sc :: below)
    (habove : ∀ a ∈ above, a.inherits = true ∧ findDef name s a.defs = none)
    (hsc : findDef name s sc.defs = some (some hh)) :
    ∃ st', (Full.runM cx n (fuel + 1) st).1 = emitEv st.off s (.start hh) ++ (Full.runM cx n fuel st').1 := by
  rw [Full.runM, full_ref_event cx n st l rest s e s2 e2 node name hh h0 nl caps' above below sc hlay hcaps hends hdd
    hpop habove hsc]
  simp only [Full.stepStart]
  by_cases hlt : st.off < s
  · simp only [emitM, emitEv, if_pos hlt]; exact ⟨_, rfl⟩
  · simp only [emitM, emitEv, if_neg hlt]; exact ⟨_, rfl⟩

def r11Cx : Full.Ctx := { defs := [], news := [], nKnown := 0, rootLang := 0 }
def r11L : Full.FLayer :=
  { lang := 0, depth := 0, ranges := [], ends := [9],
    caps := [⟨3, 4, 3, .ref 7 true⟩, ⟨3, 4, 3, .hl (some 2) false⟩, ⟨6, 7, 4, .hl (some 5) false⟩],
    scopes := [⟨true, 8, []⟩, ⟨false, usizeMax, [⟨7, 0, some 1⟩]⟩] }
def r11L2 : Full.FLayer :=
  { lang := 1, depth := 1, ranges := [], ends := [], caps := [⟨5, 6, 1, .hl (some 4) false⟩],
    scopes := [⟨false, usizeMax, []⟩] }
def r11St : Full.FSt := { layers := [r11L, r11L2], off := 2, last := some (1, 2, 0) }

/-- non-vacuity of `full_ref_event`: two live layers, the head layer's next node is a reference to a
name defined (highlight 1) in the enclosing non-innermost scope; its own pattern says 2; an older
highlight is still open (end 9). -/
example :
    Full.stepM r11Cx 11 r11St =
      Full.stepStart r11St
        { lang := r11L.lang, depth := r11L.depth, ranges := r11L.ranges,
          caps := (Full.collapseL true 3 (some 2) [⟨6, 7, 4, .hl (some 5) false⟩]).2,
          ends := r11L.ends, scopes := popScopes 3 r11L.scopes } [r11L2] ⟨3, 4, 3, .ref 7 true⟩ 1 :=
  full_ref_event r11Cx 11 r11St r11L [r11L2] 3 4 3 4 3 7 1 (some 2) false [⟨6, 7, 4, .hl (some 5) false⟩]
    [⟨true, 8, []⟩] [] ⟨false, usizeMax, [⟨7, 0, some 1⟩]⟩ rfl rfl (by simp [r11L]) (by simp [Full.dedup, r11St])
    (by simp [popScopes, r11L]) (by simp [findDef]) (by simp [findDef])

def r11D : Full.FLayer :=
  { lang := 0, depth := 0, ranges := [], ends := [],
    caps := [⟨1, 2, 2, .defn 7 0 true⟩, ⟨1, 2, 2, .hl (some 1) false⟩, ⟨1, 2, 2, .hl (some 6) true⟩,
             ⟨3, 4, 3, .ref 7 true⟩],
    scopes := [⟨false, usizeMax, []⟩] }

/-- non-vacuity of `full_def_event`: the definition node has a later `#is-not? local` pattern (6),
which is skipped; the Start carries 1 and 1 is stored for the definition. -/
example :
    Full.stepM r11Cx 11 { layers := [r11D, r11L2] } =
      Full.stepStart { layers := [r11D, r11L2] }
        { lang := 0, depth := 0, ranges := [], ends := [],
          caps := (Full.collapseL true 2 (some 1) [⟨1, 2, 2, .hl (some 6) true⟩, ⟨3, 4, 3, .ref 7 true⟩]).2,
          scopes := [⟨false, usizeMax, [⟨7, 0, some 1⟩]⟩] } [r11L2] ⟨1, 2, 2, .defn 7 0 true⟩ 1 :=
  full_def_event r11Cx 11 { layers := [r11D, r11L2] } r11D [r11L2] 1 2 1 2 2 7 0 1 (some 1) false
    [⟨1, 2, 2, .hl (some 6) true⟩, ⟨3, 4, 3, .ref 7 true⟩] [] ⟨false, usizeMax, []⟩ rfl rfl (by simp [r11D])
    (by simp [Full.dedup]) (by simp [popScopes, r11D, usizeMax]) (by simp [Full.collapseL])

end TsVerif.C17
