import TsVerif.C17.Merge
/-!
# C17 helper lemmas: the single-layer merge yields a well-formed stream
-/
namespace TsVerif.C17

theorem wf_emit (n off t d : Nat) (ev : Ev) (rest : List Ev) (ht : t ≤ n)
    (h : wellFormedFrom n (max off t) d (ev :: rest) = true) :
    wellFormedFrom n off d (emitEv off t ev ++ rest) = true := by
  unfold emitEv
  by_cases hlt : off < t
  · rw [if_pos hlt]
    have hm : max off t = t := by omega
    rw [hm] at h
    simp only [List.cons_append, List.nil_append, wellFormedFrom, Bool.and_eq_true, beq_self_eq_true,
      decide_eq_true_eq, true_and]
    exact ⟨⟨hlt, ht⟩, h⟩
  · rw [if_neg hlt]
    have hm : max off t = off := by omega
    rw [hm] at h
    exact h

/-- Invariant of the merge loop: everything stays inside `[0,n]`. -/
structure MInv (n off : Nat) (ends : List Nat) (caps : List Cap) : Prop where
  offn : off ≤ n
  endsLe : ∀ eb ∈ ends, eb ≤ n
  capsIn : ∀ c ∈ caps, c.s ≤ n ∧ c.e ≤ n

theorem MInv.pop {n off eb : Nat} {ends : List Nat} {caps : List Cap} (hi : MInv n off (eb :: ends) caps) :
    MInv n (max off eb) ends caps :=
  { offn := by have := hi.offn; have := hi.endsLe eb (List.mem_cons_self); omega
    endsLe := fun x hx => hi.endsLe x (List.mem_cons_of_mem _ hx)
    capsIn := hi.capsIn }

theorem MInv.skip {n off : Nat} {ends : List Nat} {c : Cap} {caps : List Cap} (hi : MInv n off ends (c :: caps)) :
    MInv n off ends caps :=
  { offn := hi.offn
    endsLe := hi.endsLe
    capsIn := fun c' hc' => hi.capsIn c' (List.mem_cons_of_mem _ hc') }

theorem MInv.take {n off : Nat} {ends : List Nat} {c : Cap} {caps : List Cap} (hi : MInv n off ends (c :: caps)) :
    MInv n (max off c.s) (c.e :: ends) caps := by
  have hc := hi.capsIn c (List.mem_cons_self)
  exact {
    offn := by have := hi.offn; omega
    endsLe := by
      intro x hx
      rcases List.mem_cons.mp hx with rfl | hx
      · exact hc.2
      · exact hi.endsLe x hx
    capsIn := fun c' hc' => hi.capsIn c' (List.mem_cons_of_mem _ hc') }

theorem mergeGo_wf (n : Nat) : ∀ (fuel off : Nat) (ends : List Nat) (caps : List Cap),
    2 * caps.length + ends.length < fuel → MInv n off ends caps →
    wellFormedFrom n off ends.length (mergeGo n fuel off ends caps) = true := by
  intro fuel
  induction fuel with
  | zero => intro off ends caps hf; omega
  | succ fuel ih =>
    intro off ends caps hf hi
    cases caps with
    | nil =>
      cases ends with
      | nil =>
        simp only [mergeGo]
        have := hi.offn
        by_cases hlt : off < n
        · rw [if_pos hlt]; simp [wellFormedFrom, hlt]
        · rw [if_neg hlt]
          have : off = n := by omega
          simp [wellFormedFrom, this]
      | cons eb ends' =>
        simp only [mergeGo]
        apply wf_emit _ _ _ _ _ _ (hi.endsLe eb (List.mem_cons_self))
        simp only [wellFormedFrom, List.length_cons, Nat.add_sub_cancel, Bool.and_eq_true, decide_eq_true_eq]
        exact ⟨by omega, ih _ ends' [] (by simp at hf ⊢; omega) hi.pop⟩
    | cons c caps' =>
      have hcn := hi.capsIn c (List.mem_cons_self)
      cases ends with
      | nil =>
        simp only [mergeGo]
        cases hh : c.h with
        | none => exact ih _ [] caps' (by simp at hf ⊢; omega) hi.skip
        | some h =>
          simp only
          apply wf_emit _ _ _ _ _ _ hcn.1
          simp only [wellFormedFrom, List.length_nil]
          exact ih _ [c.e] caps' (by simp at hf ⊢; omega) hi.take
      | cons eb ends' =>
        simp only [mergeGo]
        by_cases hle : eb ≤ c.s
        · rw [if_pos hle]
          apply wf_emit _ _ _ _ _ _ (hi.endsLe eb (List.mem_cons_self))
          simp only [wellFormedFrom, List.length_cons, Nat.add_sub_cancel, Bool.and_eq_true, decide_eq_true_eq]
          exact ⟨by omega, ih _ ends' (c :: caps') (by simp at hf ⊢; omega) hi.pop⟩
        · rw [if_neg hle]
          cases hh : c.h with
          | none => exact ih _ (eb :: ends') caps' (by simp at hf ⊢; omega) hi.skip
          | some h =>
            simp only
            apply wf_emit _ _ _ _ _ _ hcn.1
            simp only [wellFormedFrom]
            exact ih _ (c.e :: eb :: ends') caps' (by simp at hf ⊢; omega) hi.take

end TsVerif.C17
