/-!
# C17 model: `HighlightIterLayer::intersect_ranges`

Code-shaped port (byte offsets only; the row/column points that the code copies along are not
modelled) of `/repo/crates/highlight/src/highlight.rs: intersect_ranges`: the content ranges of an
injection = the ranges of the content nodes, minus their children's ranges unless
`include-children`, intersected with the ranges of the current layer (`parent_ranges`), walking the
parent ranges with ONE forward iterator shared by all nodes.
-/
namespace TsVerif.C17

abbrev Rg := Nat × Nat

/-- A content node: its byte range and the ranges of its children (in order). -/
structure INode where
  s : Nat
  e : Nat
  children : List Rg
  deriving Repr

/-- Loop state handed around: result so far, current parent range, remaining parent ranges, and
whether the parent iterator ran out (`return result`). -/
abbrev IRes := List Rg × Rg × List Rg × Bool

/-- Body of the `while` up to the `break` / advance decision, for the range `[rs, re)` and the
parent range `cur`: (new `range.start_byte`, result, `break`?). -/
def irStep (rs re : Nat) (cur : Rg) (acc : List Rg) : Nat × List Rg × Bool :=
  if rs < cur.2 then
    let rs1 := if rs < cur.1 then cur.1 else rs
    if cur.2 < re then (cur.2, if rs1 < cur.2 then acc ++ [(rs1, cur.2)] else acc, false)
    else (rs1, if rs1 < re then acc ++ [(rs1, re)] else acc, true)
  else (rs, acc, false)

/-- `while parent_range.start_byte <= range.end_byte { … }` for the range `[rs, re)`. -/
def irWhile (rs re : Nat) (cur : Rg) (rest : List Rg) (acc : List Rg) : IRes :=
  if cur.1 ≤ re then
    if (irStep rs re cur acc).2.2 then ((irStep rs re cur acc).2.1, cur, rest, false)
    else
      match rest with
      | [] => ((irStep rs re cur acc).2.1, cur, [], true)
      | nx :: rest' => irWhile (irStep rs re cur acc).1 re nx rest' (irStep rs re cur acc).2.1
  else (acc, cur, rest, false)

/-- The loop over the excluded ranges (children, then the range after the node); `prevEnd` =
`preceding_range.end_byte`. -/
def irExcl (prevEnd : Nat) (excl : List Rg) (cur : Rg) (rest : List Rg) (acc : List Rg) : IRes :=
  match excl with
  | [] => (acc, cur, rest, false)
  | x :: xs =>
    if x.1 < cur.1 then irExcl x.2 xs cur rest acc      -- `continue`
    else
      let r := irWhile prevEnd x.1 cur rest acc
      if r.2.2.2 then r else irExcl x.2 xs r.2.1 r.2.2.1 r.1

/-- Children (unless `include-children`) chained with the range following the node. -/
def exclOf (incl : Bool) (nd : INode) : List Rg := (if incl then [] else nd.children) ++ [(nd.e, nd.e)]

def irNodes (incl : Bool) (nodes : List INode) (cur : Rg) (rest : List Rg) (acc : List Rg) : List Rg :=
  match nodes with
  | [] => acc
  | nd :: ns =>
    let r := irExcl nd.s (exclOf incl nd) cur rest acc
    if r.2.2.2 then r.1 else irNodes incl ns r.2.1 r.2.2.1 r.1

/-- `intersect_ranges(parent_ranges, nodes, includes_children)`; the code panics on an empty
`parent_ranges` ("Layers should only be constructed with non-empty ranges vectors"). -/
def intersectRanges (parents : List Rg) (nodes : List INode) (incl : Bool) : List Rg :=
  match parents with
  | [] => []
  | p :: ps => irNodes incl nodes p ps []

/-- The stretches of a node not covered by the excluded ranges: `[prevEnd, x₁.start)`,
`[x₁.end, x₂.start)`, … -/
def gapsOf (prevEnd : Nat) : List Rg → List Rg
  | [] => []
  | x :: xs => (prevEnd, x.1) :: gapsOf x.2 xs

end TsVerif.C17
