import TsVerif.C17.MergeMulti
/-!
# C17: `sort_layers` and `insert_layer` keep the layer list ordered by `sort_key`

The order of `sort_key` — offset, then ends before starts, then deeper layers first — is a strict
total order (`keyLt_trans`, `keyLt_asymm`, `keyLt_total`).  `HighlightIter` keeps `layers[1..]`
ordered by it; only the first layer's key changes in an iteration.  `sortLayers_sorted`: rotating
the first layer behind the following layers with smaller keys (and dropping it when exhausted)
yields a completely ordered list, whose head therefore has the MINIMAL key (`sorted_head_min`):
the next event always comes from the layer with the earliest boundary, an end before a start at
the same offset, the deeper layer first.  `insertLayer_sorted`: inserting a new layer from index 1 on
keeps `layers[1..]` ordered.
-/
namespace TsVerif.C17

theorem keyLt_trans {a b c : Key} (h1 : keyLt a b = true) (h2 : keyLt b c = true) : keyLt a c = true := by
  obtain ⟨a1, a2, a3⟩ := a
  obtain ⟨b1, b2, b3⟩ := b
  obtain ⟨c1, c2, c3⟩ := c
  cases a2 <;> cases b2 <;> cases c2 <;> simp [keyLt] at * <;> omega

theorem keyLt_asymm {a b : Key} (h : keyLt a b = true) : keyLt b a = false := by
  obtain ⟨a1, a2, a3⟩ := a
  obtain ⟨b1, b2, b3⟩ := b
  cases a2 <;> cases b2 <;> simp [keyLt] at * <;> omega

/-- `a ≤ b ≤ c` in the key order (`x ≤ y` := `¬ y < x`). -/
theorem keyLe_trans {a b c : Key} (h1 : keyLt b a = false) (h2 : keyLt c b = false) : keyLt c a = false := by
  obtain ⟨a1, a2, a3⟩ := a
  obtain ⟨b1, b2, b3⟩ := b
  obtain ⟨c1, c2, c3⟩ := c
  cases a2 <;> cases b2 <;> cases c2 <;> simp [keyLt] at * <;> omega

theorem keyLt_total (a b : Key) : keyLt a b = true ∨ a = b ∨ keyLt b a = true := by
  obtain ⟨a1, a2, a3⟩ := a
  obtain ⟨b1, b2, b3⟩ := b
  cases a2 <;> cases b2 <;> simp [keyLt] <;> omega

/-- `y` has a key that is not smaller than `k`. -/
def KeyGe (k : Key) (y : MLayer) : Prop := ∃ ky, sortKey y = some ky ∧ keyLt ky k = false

/-- Every layer has a key and the keys never decrease along the list. -/
def Sorted : List MLayer → Prop
  | [] => True
  | l :: r => (∃ k, sortKey l = some k ∧ ∀ y ∈ r, KeyGe k y) ∧ Sorted r

theorem sorted_append {a b : List MLayer} :
    Sorted (a ++ b) ↔ Sorted a ∧ Sorted b ∧ ∀ x ∈ a, ∃ k, sortKey x = some k ∧ ∀ y ∈ b, KeyGe k y := by
  induction a with
  | nil => simp [Sorted]
  | cons l r ih =>
    simp only [List.cons_append, Sorted, ih, List.mem_append, List.mem_cons]
    constructor
    · rintro ⟨⟨k, hk, hall⟩, hr, hb, hrb⟩
      refine ⟨⟨⟨k, hk, fun y hy => hall y (Or.inl hy)⟩, hr⟩, hb, ?_⟩
      intro x hx
      rcases hx with rfl | hx
      · exact ⟨k, hk, fun y hy => hall y (Or.inr hy)⟩
      · exact hrb x hx
    · rintro ⟨⟨⟨k, hk, hall⟩, hr⟩, hb, hab⟩
      refine ⟨⟨k, hk, ?_⟩, hr, hb, fun x hx => hab x (Or.inr hx)⟩
      intro y hy
      rcases hy with hy | hy
      · exact hall y hy
      · obtain ⟨k', hk', h'⟩ := hab l (Or.inl rfl)
        rw [hk] at hk'; cases hk'
        exact h' y hy

/-- In an ordered list the head has the minimal key. -/
theorem sorted_head_min {l : MLayer} {r : List MLayer} (h : Sorted (l :: r)) :
    ∃ k, sortKey l = some k ∧ ∀ y ∈ r, KeyGe k y := h.1

/-- What `leadCount` splits an ordered list into: keys below `k`, then keys not below `k`. -/
theorem leadCount_spec (k : Key) : ∀ (rest : List MLayer), Sorted rest →
    (∀ x ∈ rest.take (leadCount k rest), ∃ kx, sortKey x = some kx ∧ keyLt kx k = true) ∧
    (∀ y ∈ rest.drop (leadCount k rest), KeyGe k y) := by
  intro rest
  induction rest with
  | nil => intro _; simp [leadCount]
  | cons x r ih =>
    intro hs
    obtain ⟨⟨kx, hkx, hall⟩, hr⟩ := hs
    unfold leadCount
    rw [hkx]
    simp only
    by_cases hlt : keyLt kx k = true
    · rw [if_pos hlt]
      obtain ⟨i1, i2⟩ := ih hr
      constructor
      · intro z hz
        simp only [List.take_succ_cons, List.mem_cons] at hz
        rcases hz with rfl | hz
        · exact ⟨kx, hkx, hlt⟩
        · exact i1 z hz
      · intro y hy
        simp only [List.drop_succ_cons] at hy
        exact i2 y hy
    · rw [if_neg hlt]
      have hge : keyLt kx k = false := by simpa using hlt
      constructor
      · intro z hz; simp at hz
      · intro y hy
        simp only [List.drop_zero, List.mem_cons] at hy
        rcases hy with rfl | hy
        · exact ⟨kx, hkx, hge⟩
        · obtain ⟨ky, hky, hyk⟩ := hall y hy
          exact ⟨ky, hky, keyLe_trans hge hyk⟩

/-- An ordered list is left alone by `sort_layers`. -/
theorem sortLayers_of_sorted : ∀ (ls : List MLayer), Sorted ls → sortLayers ls = ls := by
  intro ls hs
  cases ls with
  | nil => rfl
  | cons l r =>
    obtain ⟨⟨k, hk, hall⟩, hr⟩ := hs
    unfold sortLayers
    rw [hk]
    simp only
    have h0 : leadCount k r = 0 := by
      cases r with
      | nil => rfl
      | cons y r' =>
        obtain ⟨ky, hky, hge⟩ := hall y (List.mem_cons_self)
        unfold leadCount
        rw [hky]
        simp [hge]
    rw [h0]; simp

/-- `sort_layers` restores the order when only the first layer is out of place: if `layers[1..]` is
ordered, the result is ordered (so its head has the minimal key). -/
theorem sortLayers_sorted (l0 : MLayer) (rest : List MLayer) (hs : Sorted rest) :
    Sorted (sortLayers (l0 :: rest)) := by
  unfold sortLayers
  cases hk : sortKey l0 with
  | none => simp only; rw [sortLayers_of_sorted rest hs]; exact hs
  | some k =>
    simp only
    obtain ⟨hlow, hhigh⟩ := leadCount_spec k rest hs
    have hsplit : Sorted (rest.take (leadCount k rest) ++ rest.drop (leadCount k rest)) := by
      rw [List.take_append_drop]; exact hs
    obtain ⟨st, sd, _⟩ := sorted_append.mp hsplit
    apply sorted_append.mpr
    refine ⟨st, ⟨⟨k, hk, hhigh⟩, sd⟩, ?_⟩
    intro x hx
    obtain ⟨kx, hkx, hlt⟩ := hlow x hx
    refine ⟨kx, hkx, ?_⟩
    intro y hy
    rcases List.mem_cons.mp hy with rfl | hy
    · exact ⟨k, hk, keyLt_asymm hlt⟩
    · obtain ⟨ky, hky, hge⟩ := hhigh y hy
      exact ⟨ky, hky, keyLe_trans (keyLt_asymm hlt) hge⟩

/-- The loop of `insert_layer` keeps an ordered list ordered. -/
theorem insGo_sorted (k : Key) (nl : MLayer) (hk : sortKey nl = some k) : ∀ (ls : List MLayer), Sorted ls →
    Sorted (insGo k nl ls) ∧ ∀ k0, (∀ y ∈ ls, KeyGe k0 y) → keyLt k k0 = false → ∀ y ∈ insGo k nl ls, KeyGe k0 y := by
  intro ls
  induction ls with
  | nil =>
    intro _
    refine ⟨⟨⟨k, hk, fun y hy => by simp at hy⟩, trivial⟩, ?_⟩
    intro k0 _ hge y hy
    simp only [insGo, List.mem_singleton] at hy
    subst hy
    exact ⟨k, hk, hge⟩
  | cons li r ih =>
    intro hs
    obtain ⟨⟨ki, hki, hall⟩, hr⟩ := hs
    unfold insGo
    rw [hki]
    simp only
    by_cases hlt : keyLt k ki = true
    · rw [if_pos hlt]
      constructor
      · refine ⟨⟨k, hk, ?_⟩, ⟨ki, hki, hall⟩, hr⟩
        intro y hy
        rcases List.mem_cons.mp hy with rfl | hy
        · exact ⟨ki, hki, keyLt_asymm hlt⟩
        · obtain ⟨ky, hky, hge⟩ := hall y hy
          exact ⟨ky, hky, keyLe_trans (keyLt_asymm hlt) hge⟩
      · intro k0 h0 hge y hy
        rcases List.mem_cons.mp hy with rfl | hy
        · exact ⟨k, hk, hge⟩
        · exact h0 y hy
    · rw [if_neg hlt]
      have hge' : keyLt k ki = false := by simpa using hlt
      obtain ⟨i1, i2⟩ := ih hr
      constructor
      · refine ⟨⟨ki, hki, ?_⟩, i1⟩
        exact i2 ki hall hge'
      · intro k0 h0 hge y hy
        rcases List.mem_cons.mp hy with rfl | hy
        · exact h0 y (List.mem_cons_self)
        · exact i2 k0 (fun z hz => h0 z (List.mem_cons_of_mem _ hz)) hge y hy

/-- `insert_layer` keeps `layers[1..]` ordered (the first layer is the one being processed; the
`sort_layers` that follows puts it in place). -/
theorem insertLayer_sorted (l0 : MLayer) (rest : List MLayer) (nl : MLayer) (hs : Sorted rest) :
    ∃ rest', insertLayer (l0 :: rest) nl = l0 :: rest' ∧ Sorted rest' := by
  unfold insertLayer
  cases hk : sortKey nl with
  | none => exact ⟨rest, rfl, hs⟩
  | some k => exact ⟨insGo k nl rest, rfl, (insGo_sorted k nl hk rest hs).1⟩

theorem fold_insert_sorted (defs : List LayerDef) (ids : List Nat) : ∀ (l0 : MLayer) (rest : List MLayer), Sorted rest →
    ∃ rest', ids.foldl (insertById defs) (l0 :: rest) = l0 :: rest' ∧ Sorted rest' := by
  induction ids with
  | nil => intro l0 rest hs; exact ⟨rest, rfl, hs⟩
  | cons id r ih =>
    intro l0 rest hs
    simp only [List.foldl_cons]
    unfold insertById
    cases mkLayer defs id with
    | none => exact ih l0 rest hs
    | some nl =>
      simp only
      obtain ⟨rest1, h1, hs1⟩ := insertLayer_sorted l0 rest nl hs
      rw [h1]
      exact ih l0 rest1 hs1

theorem sorted_tail {l : MLayer} {r : List MLayer} (h : Sorted (l :: r)) : Sorted r := h.2

/-- Every iteration of the loop leaves the layer list completely ordered by `sort_key`, so the
event it handles next is the one with the earliest offset, an end before a start at one offset,
the deeper layer first. -/
theorem stepM_keeps_sorted (defs : List LayerDef) (n : Nat) (st st' : MSt) (evs : List Ev)
    (hs : Sorted st.layers) (h : stepM defs n st = .more evs st') : Sorted st'.layers := by
  obtain ⟨layers, off, last⟩ := st
  unfold stepM at h
  cases layers with
  | nil => simp at h
  | cons l rest =>
    simp only at h
    have hr : Sorted rest := sorted_tail hs
    cases hact : action l with
    | final =>
      rw [hact] at h
      simp only at h
      split at h
      · simp only [StepRes.more.injEq] at h
        rw [← h.2]; exact sortLayers_sorted _ _ hr
      · simp at h
    | pop eb ends' =>
      rw [hact] at h
      simp only [stepPop, StepRes.more.injEq] at h
      rw [← h.2]; exact sortLayers_sorted _ _ hr
    | take c caps' =>
      rw [hact] at h
      simp only at h
      cases hk : c.kind with
      | inj ids =>
        rw [hk] at h
        simp only [stepInj, StepRes.more.injEq] at h
        rw [← h.2]
        obtain ⟨rest', he, hs'⟩ := fold_insert_sorted defs ids { l with caps := caps' } rest hr
        simp only
        rw [he]
        exact sortLayers_sorted _ _ hs'
      | hl hh =>
        rw [hk] at h
        simp only at h
        split at h
        · simp only [stepSkip, StepRes.more.injEq] at h
          rw [← h.2]; exact sortLayers_sorted _ _ hr
        · split at h
          · simp only [stepStart, StepRes.more.injEq] at h
            rw [← h.2]; exact sortLayers_sorted _ _ hr
          · simp only [stepSkip, StepRes.more.injEq] at h
            rw [← h.2]; exact sortLayers_sorted _ _ hr

theorem fold_insertLayer_sorted : ∀ (r : List MLayer) (l0 : MLayer) (rest : List MLayer), Sorted rest →
    ∃ rest', r.foldl insertLayer (l0 :: rest) = l0 :: rest' ∧ Sorted rest' := by
  intro r
  induction r with
  | nil => intro l0 rest hs; exact ⟨rest, rfl, hs⟩
  | cons x r ih =>
    intro l0 rest hs
    simp only [List.foldl_cons]
    obtain ⟨rest1, h1, hs1⟩ := insertLayer_sorted l0 rest x hs
    rw [h1]
    exact ih l0 rest1 hs1

/-- The repaired set-up of `Highlighter::highlight` yields an ordered layer list, whatever layers
`HighlightIterLayer::new` returned and in whatever order. -/
theorem initLayersR_sorted (defs : List LayerDef) (top : List Nat) : Sorted (initLayersR defs top) := by
  unfold initLayersR
  cases top.filterMap (mkLayer defs) with
  | nil => trivial
  | cons l0 r =>
    simp only
    obtain ⟨rest', he, hs⟩ := fold_insertLayer_sorted r l0 [] trivial
    rw [he]
    exact sortLayers_sorted l0 rest' hs

/-- Every state the loop reaches from an ordered state is ordered. -/
theorem iterM_sorted (defs : List LayerDef) (n : Nat) : ∀ (k : Nat) (st st' : MSt), Sorted st.layers →
    iterM defs n k st = some st' → Sorted st'.layers := by
  intro k
  induction k with
  | zero => intro st st' hs h; simp only [iterM, Option.some.injEq] at h; rw [← h]; exact hs
  | succ k ih =>
    intro st st' hs h
    unfold iterM at h
    cases hstep : stepM defs n st with
    | done evs => rw [hstep] at h; simp at h
    | more evs st1 =>
      rw [hstep] at h
      exact ih st1 st' (stepM_keeps_sorted defs n st st1 evs hs hstep) h

end TsVerif.C17
