import TsVerif.C17.SortOrder
import TsVerif.C17.MergeMultiLemmas
/-!
# C17: in the multi-layer merge no event is late

With the layer list ordered (`SortOrder.lean`) and, inside every layer, captures in start order,
nested or disjoint, the byte offset never overtakes a pending boundary: `byte_offset` is at most the
start of every remaining capture and at most every open end, of EVERY layer, in every state the loop
reaches.  Hence each `HighlightStart` is emitted at the start of its capture and each `HighlightEnd`
at the end of its capture (`emit_event` never finds `byte_offset > offset`) — the opposite of what
the unordered initial layers of the unrepaired `Highlighter::highlight` produced.
-/
namespace TsVerif.C17

def capAfterR (p c : RCap) : Bool := p.s ≤ c.s && (p.e ≤ c.s || c.e ≤ p.e)

/-- Captures of one layer: `s ≤ e`, in start order, any two nested or disjoint, in nesting order. -/
def capsOkR : List RCap → Bool
  | [] => true
  | c :: r => decide (c.s ≤ c.e) && r.all (capAfterR c) && capsOkR r

theorem capsOkR_cons {c : RCap} {r : List RCap} (h : capsOkR (c :: r) = true) :
    c.s ≤ c.e ∧ (∀ c' ∈ r, c.s ≤ c'.s ∧ (c.e ≤ c'.s ∨ c'.e ≤ c.e)) ∧ capsOkR r = true := by
  simp only [capsOkR, capAfterR, Bool.and_eq_true, decide_eq_true_eq, List.all_eq_true, Bool.or_eq_true] at h
  exact ⟨h.1.1, h.1.2, h.2⟩

theorem capsOkR_collapse (node : Nat) (h : Option Nat) (caps : List RCap) (hc : capsOkR caps = true) :
    capsOkR (collapse node h caps).2 = true := by
  induction caps generalizing h with
  | nil => simpa [collapse] using hc
  | cons x r ih =>
    unfold collapse
    split
    · exact ih _ (capsOkR_cons hc).2.2
    · exact hc

/-- Order facts of one layer relative to the byte offset. -/
structure LInv (off : Nat) (l : MLayer) : Prop where
  endsSorted : l.ends.Pairwise (· ≤ ·)
  endsGe : ∀ eb ∈ l.ends, off ≤ eb
  capsok : capsOkR l.caps = true
  capsGe : ∀ c ∈ l.caps, off ≤ c.s
  nest : ∀ eb ∈ l.ends, ∀ c ∈ l.caps, eb ≤ c.s ∨ c.e ≤ eb

/-- The layer data: every layer's captures are in order, and the layers an injection capture creates
only have captures that start at or after that capture (their content lies behind it). -/
def DefsNice (defs : List LayerDef) : Prop :=
  (∀ d ∈ defs, capsOkR d.caps = true) ∧
  ∀ d ∈ defs, ∀ c ∈ d.caps, ∀ ids, c.kind = .inj ids → ∀ j ∈ ids, ∀ d', defs[j]? = some d' → ∀ c' ∈ d'.caps, c.s ≤ c'.s

structure OInv (st : MSt) : Prop where
  sorted : Sorted st.layers
  linv : ∀ l ∈ st.layers, LInv st.off l

/-- The key of a layer is at most every pending boundary of that layer. -/
theorem key_le_all {off : Nat} {l : MLayer} (hi : LInv off l) {k : Key} (hk : sortKey l = some k) :
    (∀ c ∈ l.caps, k.1 ≤ c.s) ∧ (∀ eb ∈ l.ends, k.1 ≤ eb) := by
  unfold sortKey at hk
  have hcaps : ∀ c r, l.caps = c :: r → ∀ c' ∈ l.caps, c.s ≤ c'.s := by
    intro c r hc c' hc'
    rw [hc] at hc'
    rcases List.mem_cons.mp hc' with rfl | h
    · exact Nat.le_refl _
    · have := hi.capsok; rw [hc] at this; exact ((capsOkR_cons this).2.1 c' h).1
  have hends : ∀ e r, l.ends = e :: r → ∀ e' ∈ l.ends, e ≤ e' := by
    intro e r he e' he'
    have hs := hi.endsSorted
    rw [he] at hs he'
    rcases List.mem_cons.mp he' with rfl | h
    · exact Nat.le_refl _
    · exact (List.pairwise_cons.mp hs).1 e' h
  split at hk
  · rename_i c r e r' hc he
    have hn := hi.nest e (by rw [he]; exact List.mem_cons_self) c (by rw [hc]; exact List.mem_cons_self)
    split at hk
    · simp only [Option.some.injEq] at hk; subst hk
      refine ⟨hcaps c r hc, fun eb heb => ?_⟩
      have := hends e r' he eb heb; simp only; omega
    · simp only [Option.some.injEq] at hk; subst hk
      refine ⟨fun c' hc' => ?_, hends e r' he⟩
      have := hcaps c r hc c' hc'; simp only; omega
  · rename_i c r hc he
    simp only [Option.some.injEq] at hk; subst hk
    exact ⟨hcaps c r hc, fun eb heb => by rw [he] at heb; simp at heb⟩
  · rename_i e r' hc he
    simp only [Option.some.injEq] at hk; subst hk
    exact ⟨fun c hcm => by rw [hc] at hcm; simp at hcm, hends e r' he⟩
  · simp at hk

theorem keyGe_pos {k : Key} {y : MLayer} (h : KeyGe k y) : ∃ ky, sortKey y = some ky ∧ k.1 ≤ ky.1 := by
  obtain ⟨ky, hky, hge⟩ := h
  refine ⟨ky, hky, ?_⟩
  obtain ⟨a1, a2, a3⟩ := ky
  obtain ⟨b1, b2, b3⟩ := k
  simp [keyLt] at hge
  by_cases h : a1 < b1
  · exact absurd (hge.1) (by omega)
  · simp only; omega

/-- Every other layer stays in order when the offset moves up to the head's key position. -/
theorem LInv.advance {off t : Nat} {y : MLayer} (hi : LInv off y) {ky : Key} (hky : sortKey y = some ky)
    (ht : t ≤ ky.1) : LInv (max off t) y := by
  obtain ⟨h1, h2⟩ := key_le_all hi hky
  exact {
    endsSorted := hi.endsSorted
    endsGe := fun eb heb => by have := hi.endsGe eb heb; have := h2 eb heb; omega
    capsok := hi.capsok
    capsGe := fun c hc => by have := hi.capsGe c hc; have := h1 c hc; omega
    nest := hi.nest }

theorem LInv.fresh {off : Nat} {defs : List LayerDef} (hn : DefsNice defs) {id : Nat} {nl : MLayer}
    (h : mkLayer defs id = some nl) (hge : ∀ d', defs[id]? = some d' → ∀ c' ∈ d'.caps, off ≤ c'.s) : LInv off nl := by
  unfold mkLayer at h
  cases hg : defs[id]? with
  | none => rw [hg] at h; simp at h
  | some d =>
    rw [hg] at h
    simp only [Option.map_some, Option.some.injEq] at h
    subst h
    exact {
      endsSorted := List.Pairwise.nil
      endsGe := fun _ h => by simp at h
      capsok := hn.1 d (List.mem_of_getElem? hg)
      capsGe := fun c hc => hge d hg c hc
      nest := fun _ h => by simp at h }

/-- The head layer after a pop. -/
theorem LInv.pop {off eb : Nat} {l : MLayer} {ends' : List Nat} (hi : LInv off l) (he : l.ends = eb :: ends')
    (hc : ∀ c ∈ l.caps, eb ≤ c.s) : LInv (max off eb) { l with ends := ends' } := by
  have hoe := hi.endsGe eb (by rw [he]; exact List.mem_cons_self)
  have hs := hi.endsSorted
  rw [he] at hs
  have hs' := List.pairwise_cons.mp hs
  have hm : max off eb = eb := by omega
  rw [hm]
  exact {
    endsSorted := hs'.2
    endsGe := fun x hx => hs'.1 x hx
    capsok := hi.capsok
    capsGe := hc
    nest := fun x hx c hcm => hi.nest x (by rw [he]; exact List.mem_cons_of_mem _ hx) c hcm }

/-- The head layer after dropping captures from the front (skip, collapse). -/
theorem LInv.dropCaps {off : Nat} {l : MLayer} (hi : LInv off l) (cs : List RCap) (hok : capsOkR cs = true)
    (hsub : ∀ c ∈ cs, c ∈ l.caps) : LInv off { l with caps := cs } :=
  { endsSorted := hi.endsSorted
    endsGe := hi.endsGe
    capsok := hok
    capsGe := fun c hc => hi.capsGe c (hsub c hc)
    nest := fun x hx c hc => hi.nest x hx c (hsub c hc) }

/-- The head layer after taking a capture whose start lies before every open end. -/
theorem LInv.take {off : Nat} {l : MLayer} {c : RCap} {caps' : List RCap} (hi : LInv off l) (hc : l.caps = c :: caps')
    (cs : List RCap) (hok : capsOkR cs = true) (hsub : ∀ x ∈ cs, x ∈ caps') (hopen : ∀ eb ∈ l.ends, c.s < eb) :
    LInv (max off c.s) { l with caps := cs, ends := c.e :: l.ends } := by
  have hoc := hi.capsGe c (by rw [hc]; exact List.mem_cons_self)
  have hm : max off c.s = c.s := by omega
  rw [hm]
  have hcok := hi.capsok
  rw [hc] at hcok
  obtain ⟨hse, haft, _⟩ := capsOkR_cons hcok
  have hce : ∀ eb ∈ l.ends, c.e ≤ eb := by
    intro eb heb
    rcases hi.nest eb heb c (by rw [hc]; exact List.mem_cons_self) with h | h
    · have := hopen eb heb; omega
    · exact h
  exact {
    endsSorted := List.pairwise_cons.mpr ⟨hce, hi.endsSorted⟩
    endsGe := by
      intro x hx
      rcases List.mem_cons.mp hx with rfl | hx
      · exact hse
      · have := hopen x hx; omega
    capsok := hok
    capsGe := fun x hx => (haft x (hsub x hx)).1
    nest := by
      intro x hx c' hc'
      rcases List.mem_cons.mp hx with rfl | hx
      · exact (haft c' (hsub c' hc')).2
      · exact hi.nest x hx c' (by rw [hc]; exact List.mem_cons_of_mem _ (hsub c' hc')) }

theorem mem_collapse' {node : Nat} {h : Option Nat} {caps : List RCap} {c : RCap}
    (hc : c ∈ (collapse node h caps).2) : c ∈ caps := mem_collapse hc

/-- Build the invariant of the next state from a list whose head was updated. -/
theorem oinv_of {off' : Nat} {last : Option (Nat × Nat × Nat)} {l' : MLayer} {rest : List MLayer}
    (hr : Sorted rest) (hl : LInv off' l') (hrest : ∀ y ∈ rest, LInv off' y) :
    OInv { layers := sortLayers (l' :: rest), off := off', last := last } :=
  { sorted := sortLayers_sorted l' rest hr
    linv := fun y hy => by
      rcases List.mem_cons.mp (mem_sortLayers hy) with rfl | h
      · exact hl
      · exact hrest y h }

theorem fold_insert_linv {off : Nat} {defs : List LayerDef} (hn : DefsNice defs) (ids : List Nat)
    (hge : ∀ j ∈ ids, ∀ d', defs[j]? = some d' → ∀ c' ∈ d'.caps, off ≤ c'.s) :
    ∀ (ls : List MLayer), (∀ y ∈ ls, LInv off y) → ∀ y ∈ ids.foldl (insertById defs) ls, LInv off y := by
  induction ids with
  | nil => intro ls h; exact h
  | cons id r ih =>
    intro ls h
    simp only [List.foldl_cons]
    have hge' : ∀ j ∈ r, ∀ d', defs[j]? = some d' → ∀ c' ∈ d'.caps, off ≤ c'.s :=
      fun j hj => hge j (List.mem_cons_of_mem _ hj)
    cases hm : mkLayer defs id with
    | none =>
      have e : insertById defs ls id = ls := by unfold insertById; rw [hm]
      rw [e]; exact ih hge' ls h
    | some nl =>
      have e : insertById defs ls id = insertLayer ls nl := by unfold insertById; rw [hm]
      rw [e]
      apply ih hge'
      intro y hy
      rcases mem_insertLayer hy with hy | hy
      · exact h y hy
      · rw [hy]; exact LInv.fresh hn hm (hge id (List.mem_cons_self))

/-- One iteration keeps "ordered layers, no boundary behind the offset". -/
theorem stepM_keeps_oinv (defs : List LayerDef) (hn : DefsNice defs) (n : Nat) (st st' : MSt) (evs : List Ev)
    (hi : OInv st) (hlay : ∀ l ∈ st.layers, ∀ c ∈ l.caps, ∀ ids, c.kind = .inj ids → ∀ j ∈ ids, ∀ d', defs[j]? = some d' →
      ∀ c' ∈ d'.caps, c.s ≤ c'.s)
    (h : stepM defs n st = .more evs st') : OInv st' := by
  obtain ⟨layers, off, last⟩ := st
  unfold stepM at h
  cases layers with
  | nil => simp at h
  | cons l rest =>
    simp only at h
    have hs := hi.sorted
    have hr : Sorted rest := sorted_tail hs
    obtain ⟨k, hk, hmin⟩ := sorted_head_min hs
    have hl : LInv off l := hi.linv l (List.mem_cons_self)
    have hrestI : ∀ y ∈ rest, LInv off y := fun y hy => hi.linv y (List.mem_cons_of_mem _ hy)
    -- the other layers after the offset moved to a position not beyond the head's key
    have hadv : ∀ t, t ≤ k.1 → ∀ y ∈ rest, LInv (max off t) y := by
      intro t ht y hy
      obtain ⟨ky, hky, hle⟩ := keyGe_pos (hmin y hy)
      exact (hrestI y hy).advance hky (by omega)
    obtain ⟨kc, ke⟩ := key_le_all hl hk
    cases hact : action l with
    | final =>
      rw [hact] at h
      simp only at h
      split at h
      · exact absurd (action_final hact) (by rw [hk]; simp)
      · simp at h
    | pop eb ends' =>
      rw [hact] at h
      simp only [stepPop, StepRes.more.injEq] at h
      rw [← h.2]
      have he := action_pop hact
      have hkeb : k.1 ≤ eb := ke eb (by rw [he]; exact List.mem_cons_self)
      -- the key position is eb (a pop happens only when eb is the key position)
      have hebk : eb ≤ k.1 := by
        unfold sortKey at hk
        rw [he] at hk
        unfold action at hact
        rw [he] at hact
        cases hcaps : l.caps with
        | nil => rw [hcaps] at hk; simp at hk; rw [← hk]; exact Nat.le_refl _
        | cons c r =>
          rw [hcaps] at hk hact
          simp only at hk hact
          by_cases hle : eb ≤ c.s
          · have : ¬ c.s < eb := by omega
            simp only [this, if_false, Option.some.injEq] at hk; rw [← hk]; exact Nat.le_refl _
          · simp [hle] at hact
      have hoff' : (emitM off eb .stop).2 = max off eb := by unfold emitM; split <;> simp <;> omega
      rw [hoff']
      have hcapsge : ∀ c ∈ l.caps, eb ≤ c.s := fun c hc => by have := kc c hc; omega
      exact oinv_of hr (hl.pop he hcapsge) (hadv eb hebk)
    | take c caps' =>
      rw [hact] at h
      simp only at h
      have hc := action_take hact
      have hcok := hl.capsok
      rw [hc] at hcok
      obtain ⟨_, haftc, hok'⟩ := capsOkR_cons hcok
      -- every open end of the head layer lies beyond c.s
      have hopen : ∀ eb ∈ l.ends, c.s < eb := by
        intro eb heb
        unfold action at hact
        rw [hc] at hact
        cases hends : l.ends with
        | nil => rw [hends] at heb; simp at heb
        | cons e0 r =>
          rw [hends] at hact heb
          simp only at hact
          by_cases hle : e0 ≤ c.s
          · simp [hle] at hact
          · have hs0 := hl.endsSorted
            rw [hends] at hs0
            rcases List.mem_cons.mp heb with rfl | hx
            · omega
            · have := (List.pairwise_cons.mp hs0).1 eb hx; omega
      have hkc : c.s ≤ k.1 := by
        unfold sortKey at hk
        rw [hc] at hk
        cases hends : l.ends with
        | nil => rw [hends] at hk; simp at hk; rw [← hk]; exact Nat.le_refl _
        | cons e0 r =>
          rw [hends] at hk
          simp only at hk
          have := hopen e0 (by rw [hends]; exact List.mem_cons_self)
          simp only [this, if_true, Option.some.injEq] at hk; rw [← hk]; exact Nat.le_refl _
      cases hkind : c.kind with
      | inj ids =>
        rw [hkind] at h
        simp only [stepInj, StepRes.more.injEq] at h
        rw [← h.2]
        have hbase : ∀ y ∈ ({ l with caps := caps' } :: rest : List MLayer), LInv off y := by
          intro y hy
          rcases List.mem_cons.mp hy with rfl | hy
          · exact hl.dropCaps caps' hok' (fun x hx => by rw [hc]; exact List.mem_cons_of_mem _ hx)
          · exact hrestI y hy
        have hoc := hl.capsGe c (by rw [hc]; exact List.mem_cons_self)
        have hge : ∀ j ∈ ids, ∀ d', defs[j]? = some d' → ∀ c' ∈ d'.caps, off ≤ c'.s := by
          intro j hj d' hd' c' hc'
          have := hlay l (List.mem_cons_self) c (by rw [hc]; exact List.mem_cons_self) ids hkind j hj d' hd' c' hc'
          omega
        obtain ⟨rest', he, hs'⟩ := fold_insert_sorted defs ids { l with caps := caps' } rest hr
        have hall := fold_insert_linv hn ids hge _ hbase
        rw [he] at hall ⊢
        exact oinv_of hs' (hall _ (List.mem_cons_self)) (fun y hy => hall y (List.mem_cons_of_mem _ hy))
      | hl hh =>
        rw [hkind] at h
        simp only at h
        have hdrop : ∀ cs, capsOkR cs = true → (∀ x ∈ cs, x ∈ caps') →
            OInv { layers := sortLayers ({ l with caps := cs } :: rest), off := off, last := last } := by
          intro cs hok hsub
          exact oinv_of hr (hl.dropCaps cs hok (fun x hx => by rw [hc]; exact List.mem_cons_of_mem _ (hsub x hx))) hrestI
        split at h
        · simp only [stepSkip, StepRes.more.injEq] at h
          rw [← h.2]; exact hdrop caps' hok' (fun x hx => hx)
        · split at h
          · simp only [stepStart, StepRes.more.injEq] at h
            rw [← h.2]
            have hoff' : ∀ hx, (emitM off c.s (.start hx)).2 = max off c.s := by
              intro hx; unfold emitM; split <;> simp <;> omega
            rw [hoff']
            exact oinv_of hr
              (hl.take hc _ (capsOkR_collapse c.node hh caps' hok') (fun x hx => mem_collapse' hx) hopen)
              (hadv c.s hkc)
          · simp only [stepSkip, StepRes.more.injEq] at h
            rw [← h.2]
            exact hdrop _ (capsOkR_collapse c.node hh caps' hok') (fun x hx => mem_collapse' hx)

/-- Every capture of a state layer is a capture of some layer of the table. -/
def FromDefs (defs : List LayerDef) (ls : List MLayer) : Prop := ∀ l ∈ ls, ∀ c ∈ l.caps, ∃ d ∈ defs, c ∈ d.caps

theorem fromDefs_fold (defs : List LayerDef) (ids : List Nat) : ∀ (ls : List MLayer), FromDefs defs ls →
    FromDefs defs (ids.foldl (insertById defs) ls) := by
  induction ids with
  | nil => intro ls h; exact h
  | cons id r ih =>
    intro ls h
    simp only [List.foldl_cons]
    cases hm : mkLayer defs id with
    | none =>
      have e : insertById defs ls id = ls := by unfold insertById; rw [hm]
      rw [e]; exact ih ls h
    | some nl =>
      have e : insertById defs ls id = insertLayer ls nl := by unfold insertById; rw [hm]
      rw [e]
      apply ih
      intro y hy c hc
      rcases mem_insertLayer hy with hy | hy
      · exact h y hy c hc
      · subst hy
        unfold mkLayer at hm
        cases hg : defs[id]? with
        | none => rw [hg] at hm; simp at hm
        | some d =>
          rw [hg] at hm
          simp only [Option.map_some, Option.some.injEq] at hm
          subst hm
          exact ⟨d, List.mem_of_getElem? hg, hc⟩

theorem stepM_fromDefs (defs : List LayerDef) (n : Nat) (st st' : MSt) (evs : List Ev)
    (hf : FromDefs defs st.layers) (h : stepM defs n st = .more evs st') : FromDefs defs st'.layers := by
  obtain ⟨layers, off, last⟩ := st
  unfold stepM at h
  cases layers with
  | nil => simp at h
  | cons l rest =>
    simp only at h
    -- a head with fewer captures
    have hsub : ∀ (l' : MLayer), (∀ c ∈ l'.caps, c ∈ l.caps) → FromDefs defs (sortLayers (l' :: rest)) := by
      intro l' hl' y hy c hc
      rcases List.mem_cons.mp (mem_sortLayers hy) with rfl | hy'
      · exact hf l (List.mem_cons_self) c (hl' c hc)
      · exact hf y (List.mem_cons_of_mem _ hy') c hc
    cases hact : action l with
    | final =>
      rw [hact] at h
      simp only at h
      split at h
      · simp only [StepRes.more.injEq] at h; rw [← h.2]; exact hsub l (fun c hc => hc)
      · simp at h
    | pop eb ends' =>
      rw [hact] at h
      simp only [stepPop, StepRes.more.injEq] at h
      rw [← h.2]; exact hsub _ (fun c hc => hc)
    | take c caps' =>
      rw [hact] at h
      simp only at h
      have hc := action_take hact
      have htail : ∀ x ∈ caps', x ∈ l.caps := fun x hx => by rw [hc]; exact List.mem_cons_of_mem _ hx
      cases hkind : c.kind with
      | inj ids =>
        rw [hkind] at h
        simp only [stepInj, StepRes.more.injEq] at h
        rw [← h.2]
        have hbase : FromDefs defs ({ l with caps := caps' } :: rest) := by
          intro y hy x hx
          rcases List.mem_cons.mp hy with rfl | hy'
          · exact hf l (List.mem_cons_self) x (htail x hx)
          · exact hf y (List.mem_cons_of_mem _ hy') x hx
        have := fromDefs_fold defs ids _ hbase
        intro y hy x hx
        exact this y (mem_sortLayers hy) x hx
      | hl hh =>
        rw [hkind] at h
        simp only at h
        split at h
        · simp only [stepSkip, StepRes.more.injEq] at h
          rw [← h.2]; exact hsub _ htail
        · split at h
          · simp only [stepStart, StepRes.more.injEq] at h
            rw [← h.2]; exact hsub _ (fun x hx => htail x (mem_collapse' hx))
          · simp only [stepSkip, StepRes.more.injEq] at h
            rw [← h.2]; exact hsub _ (fun x hx => htail x (mem_collapse' hx))

theorem mem_fold_insertLayer : ∀ (r base : List MLayer) (y : MLayer), y ∈ r.foldl insertLayer base → y ∈ base ∨ y ∈ r := by
  intro r
  induction r with
  | nil => intro base y h; exact Or.inl h
  | cons x r ih =>
    intro base y h
    simp only [List.foldl_cons] at h
    rcases ih _ y h with h1 | h1
    · rcases mem_insertLayer h1 with h2 | h2
      · exact Or.inl h2
      · exact Or.inr (by rw [h2]; exact List.mem_cons_self)
    · exact Or.inr (List.mem_cons_of_mem _ h1)

/-- The repaired initial state satisfies the invariants. -/
theorem init_oinv (defs : List LayerDef) (hn : DefsNice defs) (top : List Nat) :
    OInv { layers := initLayersR defs top } ∧ FromDefs defs (initLayersR defs top) := by
  have hmk : ∀ y ∈ top.filterMap (mkLayer defs), LInv 0 y ∧ ∀ c ∈ y.caps, ∃ d ∈ defs, c ∈ d.caps := by
    intro y hy
    obtain ⟨id, _, hm⟩ := List.mem_filterMap.mp hy
    refine ⟨LInv.fresh hn hm (fun _ _ _ _ => Nat.zero_le _), ?_⟩
    unfold mkLayer at hm
    cases hg : defs[id]? with
    | none => rw [hg] at hm; simp at hm
    | some d =>
      rw [hg] at hm
      simp only [Option.map_some, Option.some.injEq] at hm
      subst hm
      exact fun c hc => ⟨d, List.mem_of_getElem? hg, hc⟩
  have hmem : ∀ y ∈ initLayersR defs top, y ∈ top.filterMap (mkLayer defs) := by
    intro y hy
    unfold initLayersR at hy
    cases hf : top.filterMap (mkLayer defs) with
    | nil => rw [hf] at hy; simp at hy
    | cons l0 r =>
      rw [hf] at hy
      simp only at hy
      rcases mem_fold_insertLayer r [l0] y (mem_sortLayers hy) with h | h
      · simp at h; rw [h]; exact List.mem_cons_self
      · exact List.mem_cons_of_mem _ h
  exact ⟨⟨initLayersR_sorted defs top, fun y hy => (hmk y (hmem y hy)).1⟩, fun y hy => (hmk y (hmem y hy)).2⟩

/-- Every reachable state of the repaired model: ordered layers, no boundary behind the offset. -/
theorem iterM_oinv (defs : List LayerDef) (hn : DefsNice defs) (n : Nat) : ∀ (k : Nat) (st st' : MSt),
    OInv st → FromDefs defs st.layers → iterM defs n k st = some st' → OInv st' ∧ FromDefs defs st'.layers := by
  intro k
  induction k with
  | zero => intro st st' h1 h2 h; simp only [iterM, Option.some.injEq] at h; rw [← h]; exact ⟨h1, h2⟩
  | succ k ih =>
    intro st st' h1 h2 h
    unfold iterM at h
    cases hstep : stepM defs n st with
    | done evs => rw [hstep] at h; simp at h
    | more evs st1 =>
      rw [hstep] at h
      have hlay : ∀ l ∈ st.layers, ∀ c ∈ l.caps, ∀ ids, c.kind = .inj ids → ∀ j ∈ ids, ∀ d', defs[j]? = some d' →
          ∀ c' ∈ d'.caps, c.s ≤ c'.s := by
        intro l hl c hc ids hk j hj d' hd' c' hc'
        obtain ⟨d, hd, hcd⟩ := h2 l hl c hc
        exact hn.2 d hd c hcd ids hk j hj d' hd' c' hc'
      exact ih st1 st' (stepM_keeps_oinv defs hn n st st1 evs h1 hlay hstep) (stepM_fromDefs defs n st st1 evs h2 hstep) h

end TsVerif.C17
