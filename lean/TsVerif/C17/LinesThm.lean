import TsVerif.C17.Lines
import TsVerif.C17.Lemmas
/-!
# C17 — the model renderer's `line_offsets` are exactly the line starts of its html
-/
namespace TsVerif.C17

/-- positions after every newline, counting from `i` -/
def nlPosGo : Nat → Bytes → List Nat
  | _, [] => []
  | i, c :: r => if c = 10 then (i + 1) :: nlPosGo (i + 1) r else nlPosGo (i + 1) r

theorem nlPos_append (a b : Bytes) : ∀ i, nlPosGo i (a ++ b) = nlPosGo i a ++ nlPosGo (i + a.length) b := by
  induction a with
  | nil => intro i; simp [nlPosGo]
  | cons c r ih =>
    intro i
    simp only [List.cons_append, nlPosGo, List.length_cons]
    rw [ih (i + 1)]
    have : i + 1 + r.length = i + (r.length + 1) := by omega
    rw [this]
    split <;> simp

theorem nlPos_none (b : Bytes) (h : 10 ∉ b) : ∀ i, nlPosGo i b = [] := by
  induction b with
  | nil => intro i; rfl
  | cons c r ih =>
    intro i
    have hc : c ≠ 10 := fun e => h (by rw [e]; exact List.mem_cons_self)
    simp only [nlPosGo, hc, if_false]
    exact ih (fun hm => h (List.mem_cons_of_mem _ hm)) _

theorem nlPos_le (b : Bytes) : ∀ i, ∀ x ∈ nlPosGo i b, x ≤ i + b.length := by
  induction b with
  | nil => intro i x hx; simp [nlPosGo] at hx
  | cons c r ih =>
    intro i x hx
    simp only [nlPosGo] at hx
    simp only [List.length_cons]
    split at hx
    · rcases List.mem_cons.mp hx with rfl | hx'
      · omega
      · have := ih (i + 1) x hx'; omega
    · have := ih (i + 1) x hx; omega

/-- the line starts of html that ends with a newline: all newline positions of the part before it -/
theorem lineStartsGo_snoc (a : Bytes) : ∀ i, lineStartsGo i (a ++ [10]) = nlPosGo i a := by
  induction a with
  | nil => intro i; simp [lineStartsGo, nlPosGo]
  | cons c r ih =>
    intro i
    simp only [List.cons_append, lineStartsGo, nlPosGo]
    rw [ih (i + 1)]
    have : (r ++ [10]).isEmpty = false := by cases r <;> rfl
    simp [this]

def no10 (xs : Bytes) : Prop := 10 ∉ xs

/-- `line_offsets` = 0 and the position after every newline written so far; a pending CR offset has
no newline behind it. -/
structure JInv (st : RState) : Prop where
  offs : st.lineOffsets = 0 :: nlPosGo 0 st.html
  cr : ∀ off, st.lastCR = some off → off ≤ st.html.length ∧ 10 ∉ st.html.drop off

theorem rlen (st : RState) : st.rhtml.length = st.html.length := by simp [RState.html]

theorem jinv_push {st : RState} (hj : JInv st) (xs : Bytes) (hx : 10 ∉ xs) : JInv (st.push xs) := by
  constructor
  · show st.lineOffsets = 0 :: nlPosGo 0 (st.push xs).html
    rw [html_push, nlPos_append, nlPos_none xs hx, List.append_nil]
    exact hj.offs
  · intro off ho
    rw [lastCR_push] at ho
    obtain ⟨h1, h2⟩ := hj.cr off ho
    rw [html_push]
    refine ⟨by simp; omega, ?_⟩
    rw [List.drop_append_of_le_length h1]
    intro hm
    rcases List.mem_append.mp hm with h | h
    · exact h2 h
    · exact hx h

theorem jinv_clear {st : RState} (hj : JInv st) : JInv { st with lastCR := none } :=
  ⟨hj.offs, fun off h => by simp at h⟩

theorem no10_spanClose : 10 ∉ spanClose := by decide

theorem no10_flatMap {α : Type} (l : List α) (f : α → Bytes) (h : ∀ a, 10 ∉ f a) : 10 ∉ l.flatMap f := by
  intro hm
  obtain ⟨a, _, ha⟩ := List.mem_flatMap.mp hm
  exact h a ha

theorem no10_spanOpen (cfg : RCfg) (hnl : ∀ h, 10 ∉ cfg.attr h) (h : Nat) : 10 ∉ spanOpen cfg h := by
  unfold spanOpen spanPre
  intro hm
  simp only [List.mem_append, List.mem_cons, List.not_mem_nil, or_false] at hm
  rcases hm with (hm | hm) | hm
  · omega
  · exact hnl h hm
  · omega

theorem no10_crSpan (cfg : RCfg) (hnl : ∀ h, 10 ∉ cfg.attr h) (h : Nat) : 10 ∉ crSpan cfg h := by
  unfold crSpan spanPre spanClose
  intro hm
  simp only [List.mem_append, List.mem_cons, List.not_mem_nil, or_false] at hm
  rcases hm with (hm | hm) | hm
  · omega
  · exact hnl h hm
  · omega

theorem jinv_addCR (cfg : RCfg) (hnl : ∀ h, 10 ∉ cfg.attr h) {st : RState} (hj : JInv st) (off : Nat)
    (ho : st.lastCR = some off) : JInv (addCR cfg { st with lastCR := none } off) := by
  unfold addCR
  cases hcr : cfg.crh with
  | none => exact jinv_clear hj
  | some h =>
    obtain ⟨h1, h2⟩ := hj.cr off ho
    constructor
    · show st.lineOffsets = 0 :: nlPosGo 0 (RState.insertAt { st with lastCR := none } off (crSpan cfg h)).html
      rw [html_insertAt]
      show st.lineOffsets = 0 :: nlPosGo 0 (st.html.take off ++ crSpan cfg h ++ st.html.drop off)
      rw [nlPos_append, nlPos_append, nlPos_none _ (no10_crSpan cfg hnl h), nlPos_none _ h2, List.append_nil,
        List.append_nil, hj.offs]
      conv => lhs; rw [← List.take_append_drop off st.html, nlPos_append, nlPos_none _ h2, List.append_nil]
    · intro o hh; simp at hh

theorem jinv_resolveCR (cfg : RCfg) (hnl : ∀ h, 10 ∉ cfg.attr h) {st : RState} (hj : JInv st) (c : Nat) :
    JInv (resolveCR cfg st c) ∧ (resolveCR cfg st c).lastCR = none := by
  unfold resolveCR
  cases ho : st.lastCR with
  | none => exact ⟨hj, ho⟩
  | some off =>
    simp only
    split
    · refine ⟨jinv_addCR cfg hnl hj off ho, ?_⟩
      unfold addCR; cases cfg.crh <;> rfl
    · exact ⟨jinv_clear hj, rfl⟩

theorem jinv_finishCR (cfg : RCfg) (hnl : ∀ h, 10 ∉ cfg.attr h) {st : RState} (hj : JInv st) :
    JInv (finishCR cfg st) ∧ (finishCR cfg st).lastCR = none := by
  unfold finishCR
  cases ho : st.lastCR with
  | none => exact ⟨hj, ho⟩
  | some off =>
    refine ⟨jinv_addCR cfg hnl hj off ho, ?_⟩
    unfold addCR; cases cfg.crh <;> rfl

theorem html_addNewline (cfg : RCfg) (hl : List Nat) (st : RState) :
    (addNewline cfg hl st).html = st.html ++ (hl.flatMap fun _ => spanClose) ++ [10] ++ hl.flatMap (spanOpen cfg) := by
  unfold addNewline
  simp [RState.html, RState.push]

theorem offs_addNewline (cfg : RCfg) (hl : List Nat) (st : RState) :
    (addNewline cfg hl st).lineOffsets =
      st.lineOffsets ++ [(st.html ++ (hl.flatMap fun _ => spanClose) ++ [10]).length] := by
  unfold addNewline
  simp [RState.html, RState.push]
  omega

theorem jinv_addNewline (cfg : RCfg) (hnl : ∀ h, 10 ∉ cfg.attr h) (hl : List Nat) {st : RState} (hj : JInv st)
    (hcr : st.lastCR = none) : JInv (addNewline cfg hl st) ∧ (addNewline cfg hl st).lastCR = none := by
  have hcr' : (addNewline cfg hl st).lastCR = none := by unfold addNewline; exact hcr
  refine ⟨?_, hcr'⟩
  constructor
  · rw [html_addNewline, offs_addNewline, nlPos_append, nlPos_append, nlPos_append,
      nlPos_none _ (no10_flatMap hl _ fun _ => no10_spanClose),
      nlPos_none _ (no10_flatMap hl _ (no10_spanOpen cfg hnl)), hj.offs]
    simp [nlPosGo]
    omega
  · intro off ho
    rw [hcr'] at ho
    simp at ho

theorem esc_no10 (c : Nat) (hc : c ≠ 10) : 10 ∉ esc c := by
  rcases esc_cases c with ⟨_, e⟩ | ⟨_, e⟩ | ⟨_, e⟩ | ⟨_, e⟩ | ⟨_, e⟩ | ⟨_, _, _, _, _, e⟩ <;> rw [e] <;> simp <;> omega

theorem jinv_addByte (cfg : RCfg) (hnl : ∀ h, 10 ∉ cfg.attr h) (hl : List Nat) {st : RState} (hj : JInv st) (c : Nat) :
    JInv (addByte cfg hl st c) := by
  unfold addByte
  by_cases h13 : c = 13
  · rw [if_pos h13]
    have hj0 : JInv (if cfg.crcr then finishCR cfg st else st) := by
      split
      · exact (jinv_finishCR cfg hnl hj).1
      · exact hj
    generalize (if cfg.crcr then finishCR cfg st else st) = st0 at hj0
    refine ⟨hj0.offs, ?_⟩
    intro off ho
    simp only [Option.some.injEq] at ho
    subst ho
    show st0.rhtml.length ≤ st0.html.length ∧ 10 ∉ st0.html.drop st0.rhtml.length
    rw [rlen]
    simp
  · rw [if_neg h13]
    obtain ⟨hj1, hc1⟩ := jinv_resolveCR cfg hnl hj c
    by_cases h10 : c = 10
    · rw [if_pos h10]; exact (jinv_addNewline cfg hnl hl hj1 hc1).1
    · rw [if_neg h10, addPlain_eq]; exact jinv_push hj1 _ (esc_no10 c h10)

theorem jinv_addText (dec : Bytes → Bytes) (cfg : RCfg) (hnl : ∀ h, 10 ∉ cfg.attr h) (hl : List Nat)
    {st : RState} (hj : JInv st) (chunk : Bytes) : JInv (addText dec cfg hl st chunk) := by
  unfold addText
  generalize dec chunk = bs
  induction bs generalizing st with
  | nil => exact hj
  | cons c r ih => simp only [List.foldl_cons]; exact ih (jinv_addByte cfg hnl hl hj c)

theorem jinv_renderEv (dec : Bytes → Bytes) (cfg : RCfg) (hnl : ∀ h, 10 ∉ cfg.attr h) (src : Bytes)
    (p : RState × List Nat) (hj : JInv p.1) (ev : Ev) : JInv (renderEv dec cfg src p ev).1 := by
  cases ev with
  | start h => exact jinv_push hj _ (no10_spanOpen cfg hnl h)
  | stop => exact jinv_push hj _ no10_spanClose
  | source s e => exact jinv_addText dec cfg hnl p.2 hj _

theorem jinv_fold (dec : Bytes → Bytes) (cfg : RCfg) (hnl : ∀ h, 10 ∉ cfg.attr h) (src : Bytes) :
    ∀ (evs : List Ev) (p : RState × List Nat), JInv p.1 → JInv (evs.foldl (renderEv dec cfg src) p).1 := by
  intro evs
  induction evs with
  | nil => intro p h; exact h
  | cons ev r ih => intro p h; simp only [List.foldl_cons]; exact ih _ (jinv_renderEv dec cfg hnl src p h ev)

theorem jinv_init : JInv {} := ⟨rfl, fun off h => by simp at h⟩

/-- THE MODEL RENDERER'S `line_offsets` ARE EXACTLY THE LINE STARTS OF ITS HTML: 0 and the byte after
every newline except a final one.  Hence every offset is the start of a line, none is missing,
`lines()` concatenates to the whole html and every line ends with a newline (the html ends with one).
Hypothesis: the attribute callback writes no newline (otherwise a newline inside a tag would look
like a line break to `lineStarts`). -/
theorem render_line_offsets (dec : Bytes → Bytes) (cfg : RCfg) (hnl : ∀ h, 10 ∉ cfg.attr h) (evs : List Ev) (src : Bytes) :
    (renderT dec cfg evs src).lineOffsets = lineStarts (renderT dec cfg evs src).html ∧
    (renderT dec cfg evs src).html.getLast? = some 10 := by
  unfold renderT renderFinish
  have hj := jinv_fold dec cfg hnl src evs ({}, []) jinv_init
  generalize (evs.foldl (renderEv dec cfg src) ({}, [])).1 = st0 at hj
  obtain ⟨hj1, _⟩ := jinv_finishCR cfg hnl hj
  generalize finishCR cfg st0 = st at hj1
  rw [html_finishOffsets]
  unfold finishNewline
  have hhead : st.rhtml.head? = st.html.getLast? := by simp [RState.html, List.getLast?_reverse]
  by_cases hlast : st.html.getLast? = some 10
  · -- the html already ends with a newline
    have hc0 : ¬ st.rhtml.head? ≠ some 10 := by rw [hhead, hlast]; simp
    rw [if_neg hc0]
    refine ⟨?_, hlast⟩
    obtain ⟨a, ha⟩ : ∃ a, st.html = a ++ [10] := by
      rcases List.eq_nil_or_concat st.html with h | ⟨a, b, h⟩
      · rw [h] at hlast; simp at hlast
      · rw [h] at hlast; simp at hlast; exact ⟨a, by rw [h, hlast]; simp⟩
    unfold finishOffsets lineStarts
    have hoffs : st.lineOffsets = 0 :: (nlPosGo 0 a ++ [a.length + 1]) := by
      rw [hj1.offs, ha, nlPos_append]; simp [nlPosGo]
    have hlen : st.rhtml.length = a.length + 1 := by rw [rlen, ha]; simp
    have hc : st.lineOffsets.getLast? = some st.rhtml.length := by
      rw [hoffs, hlen]
      have : (0 :: (nlPosGo 0 a ++ [a.length + 1])) = (0 :: nlPosGo 0 a) ++ [a.length + 1] := rfl
      rw [this, List.getLast?_append]
      simp
    rw [if_pos hc]
    show st.lineOffsets.dropLast = 0 :: lineStartsGo 0 st.html
    rw [hoffs, ha, lineStartsGo_snoc]
    simp [List.dropLast_cons_of_ne_nil, List.dropLast_append_of_ne_nil]
  · -- a final newline is added, no offset recorded for it
    have hc0 : st.rhtml.head? ≠ some 10 := by rw [hhead]; exact hlast
    rw [if_pos hc0]
    refine ⟨?_, by simp⟩
    unfold finishOffsets lineStarts
    have hoffs : (st.push [10]).lineOffsets = 0 :: nlPosGo 0 st.html := hj1.offs
    have hne : (st.push [10]).lineOffsets.getLast? ≠ some (st.push [10]).rhtml.length := by
      rw [hoffs, rlen, html_push]
      intro h
      have hm : st.html.length + 1 ∈ (0 :: nlPosGo 0 st.html) := by
        have := List.mem_of_getLast? h
        simpa using this
      rcases List.mem_cons.mp hm with h0 | h1
      · omega
      · have := nlPos_le st.html 0 _ h1; omega
    rw [if_neg hne, html_push, lineStartsGo_snoc]
    exact hoffs

end TsVerif.C17
