import TsVerif.C17.Model
import TsVerif.C17.Judge
/-!
# C17 helper lemmas (renderer invariant, tag stripping, entity decoding)
-/
namespace TsVerif.C17

/-! ## html as a reversed list -/

@[simp] theorem html_push (st : RState) (bs : Bytes) : (st.push bs).html = st.html ++ bs := by
  simp [RState.html, RState.push]

@[simp] theorem lastCR_push (st : RState) (bs : Bytes) : (st.push bs).lastCR = st.lastCR := rfl

theorem html_insertAt (st : RState) (off : Nat) (ins : Bytes) :
    (st.insertAt off ins).html = st.html.take off ++ ins ++ st.html.drop off := by
  simp [RState.html, RState.insertAt, List.take_reverse, List.drop_reverse]

@[simp] theorem lastCR_insertAt (st : RState) (off : Nat) (ins : Bytes) :
    (st.insertAt off ins).lastCR = st.lastCR := rfl

/-! ## strip / endSt -/

theorem strip_append (s : Bool) (a b : Bytes) : strip s (a ++ b) = strip s a ++ strip (endSt s a) b := by
  induction a generalizing s with
  | nil => simp [strip, endSt]
  | cons c r ih =>
    cases s <;> simp only [List.cons_append, strip, endSt] <;> split <;> simp [ih]

theorem endSt_append (s : Bool) (a b : Bytes) : endSt s (a ++ b) = endSt (endSt s a) b := by
  induction a generalizing s with
  | nil => simp [endSt]
  | cons c r ih =>
    cases s <;> simp only [List.cons_append, endSt] <;> split <;> simp [ih]

theorem strip_true_body (body rest : Bytes) (h : 62 ∉ body) :
    strip true (body ++ 62 :: rest) = strip false rest := by
  induction body with
  | nil => simp [strip]
  | cons c r ih =>
    have hc : c ≠ 62 := by intro e; apply h; simp [e]
    have hr : 62 ∉ r := by intro e; apply h; simp [e]
    simp [strip, hc, ih hr]

theorem endSt_true_body (body rest : Bytes) (h : 62 ∉ body) :
    endSt true (body ++ 62 :: rest) = endSt false rest := by
  induction body with
  | nil => simp [endSt]
  | cons c r ih =>
    have hc : c ≠ 62 := by intro e; apply h; simp [e]
    have hr : 62 ∉ r := by intro e; apply h; simp [e]
    simp [endSt, hc, ih hr]

/-- A byte string that is text-free and leaves `strip` outside a tag (a sequence of whole tags). -/
def Neutral (xs : Bytes) : Prop := strip false xs = [] ∧ endSt false xs = false

theorem Neutral.nil : Neutral [] := by simp [Neutral, strip, endSt]

theorem Neutral.append {a b : Bytes} (ha : Neutral a) (hb : Neutral b) : Neutral (a ++ b) := by
  constructor
  · rw [strip_append, ha.1, ha.2, hb.1]; rfl
  · rw [endSt_append, ha.2, hb.2]

theorem Neutral.flatMap {α : Type} (l : List α) (f : α → Bytes) (h : ∀ a, Neutral (f a)) :
    Neutral (l.flatMap f) := by
  induction l with
  | nil => exact Neutral.nil
  | cons a r ih => simpa [List.flatMap_cons] using (h a).append ih

theorem neutral_spanClose : Neutral spanClose := by
  constructor <;> decide

theorem neutral_spanOpen (cfg : RCfg) (h : Nat) (hattr : 62 ∉ cfg.attr h) : Neutral (spanOpen cfg h) := by
  have hb : 62 ∉ ([115, 112, 97, 110, 32] ++ cfg.attr h) := by
    simp only [List.mem_append, not_or]; exact ⟨by decide, hattr⟩
  constructor
  · show strip false (60 :: ([115, 112, 97, 110, 32] ++ cfg.attr h ++ [62])) = []
    simp only [strip, ↓reduceIte]
    rw [strip_true_body _ _ hb]; rfl
  · show endSt false (60 :: ([115, 112, 97, 110, 32] ++ cfg.attr h ++ [62])) = false
    simp only [endSt, ↓reduceIte]
    rw [endSt_true_body _ _ hb]; rfl

theorem neutral_crSpan (cfg : RCfg) (h : Nat) (hattr : 62 ∉ cfg.attr h) : Neutral (crSpan cfg h) := by
  have : crSpan cfg h = spanOpen cfg h ++ spanClose := by simp [crSpan, spanOpen]
  rw [this]; exact (neutral_spanOpen cfg h hattr).append neutral_spanClose

/-! ## escaping -/

theorem esc_cases (c : Nat) :
    (c = 62 ∧ esc c = [38, 103, 116, 59]) ∨ (c = 60 ∧ esc c = [38, 108, 116, 59]) ∨
    (c = 38 ∧ esc c = [38, 97, 109, 112, 59]) ∨ (c = 39 ∧ esc c = [38, 35, 51, 57, 59]) ∨
    (c = 34 ∧ esc c = [38, 113, 117, 111, 116, 59]) ∨
    (c ≠ 62 ∧ c ≠ 60 ∧ c ≠ 38 ∧ c ≠ 39 ∧ c ≠ 34 ∧ esc c = [c]) := by
  by_cases h1 : c = 62
  · subst h1; left; exact ⟨rfl, rfl⟩
  by_cases h2 : c = 60
  · subst h2; right; left; exact ⟨rfl, rfl⟩
  by_cases h3 : c = 38
  · subst h3; right; right; left; exact ⟨rfl, rfl⟩
  by_cases h4 : c = 39
  · subst h4; right; right; right; left; exact ⟨rfl, rfl⟩
  by_cases h5 : c = 34
  · subst h5; right; right; right; right; left; exact ⟨rfl, rfl⟩
  right; right; right; right; right
  refine ⟨h1, h2, h3, h4, h5, ?_⟩
  simp [esc, htmlEscape, h1, h2, h3, h4, h5]

theorem strip_esc (c : Nat) : strip false (esc c) = esc c ∧ endSt false (esc c) = false := by
  rcases esc_cases c with h | h | h | h | h | h
  · rw [h.2]; constructor <;> decide
  · rw [h.2]; constructor <;> decide
  · rw [h.2]; constructor <;> decide
  · rw [h.2]; constructor <;> decide
  · rw [h.2]; constructor <;> decide
  · obtain ⟨h1, h2, _, _, _, he⟩ := h
    rw [he]; simp [strip, endSt, h2]

theorem esc_ne_nil (c : Nat) : esc c ≠ [] := by
  rcases esc_cases c with h | h | h | h | h | h <;> simp [h.2] <;> simp [h.2.2.2.2.2]

theorem getLast?_append_ne_nil (a b : Bytes) (h : b ≠ []) : (a ++ b).getLast? = b.getLast? := by
  cases b with
  | nil => contradiction
  | cons x r =>
    rw [List.getLast?_append, List.getLast?_eq_some_getLast (List.cons_ne_nil x r)]; rfl

theorem esc_getLast_nl (c : Nat) (h : (esc c).getLast? = some 10) : c = 10 := by
  rcases esc_cases c with h' | h' | h' | h' | h' | h'
  · rw [h'.2] at h; simp at h
  · rw [h'.2] at h; simp at h
  · rw [h'.2] at h; simp at h
  · rw [h'.2] at h; simp at h
  · rw [h'.2] at h; simp at h
  · rw [h'.2.2.2.2.2] at h; simpa using h

theorem unescapeAux_esc (c : Nat) (r : Bytes) : unescapeAux 0 (esc c ++ r) = c :: unescapeAux 0 r := by
  rcases esc_cases c with h | h | h | h | h | h
  · rw [h.2, h.1]; simp [unescapeAux, entityAt]
  · rw [h.2, h.1]; simp [unescapeAux, entityAt]
  · rw [h.2, h.1]; simp [unescapeAux, entityAt]
  · rw [h.2, h.1]; simp [unescapeAux, entityAt]
  · rw [h.2, h.1]; simp [unescapeAux, entityAt]
  · obtain ⟨_, _, h3, _, _, he⟩ := h
    rw [he]; simp [unescapeAux, h3]

theorem unescape_flatMap_esc (t : Bytes) : unescape (t.flatMap esc) = t := by
  induction t with
  | nil => rfl
  | cons c r ih =>
    simp only [List.flatMap_cons, unescape] at *
    rw [unescapeAux_esc, ih]

/-- If escaped text ends with a newline byte, the text ends with a newline. -/
theorem flatMap_esc_ends_nl (t u : Bytes) (h : t.flatMap esc = u ++ [10]) : t.getLast? = some 10 := by
  rcases List.eq_nil_or_concat t with rfl | ⟨t', c, rfl⟩
  · simp at h
  · have h2 : (esc c).getLast? = some 10 := by
      have h' : t'.flatMap esc ++ esc c = u ++ [10] := by simpa [List.flatMap_append] using h
      have := congrArg List.getLast? h'
      rw [getLast?_append_ne_nil _ _ (esc_ne_nil c)] at this
      simpa using this
    have := esc_getLast_nl c h2
    simp [this]

/-! ## The renderer invariant -/

/-- `t` = the text (CR-free decoded bytes) rendered so far. -/
structure Inv (st : RState) (t : Bytes) : Prop where
  text : strip false st.html = t.flatMap esc
  closed : endSt false st.html = false
  cr : ∀ off, st.lastCR = some off → off ≤ st.html.length ∧ endSt false (st.html.take off) = false

theorem inv_init : Inv {} [] := by
  constructor
  · rfl
  · rfl
  · intro off h; simp at h

theorem inv_push {st : RState} {t : Bytes} (hi : Inv st t) (xs ys : Bytes)
    (hx : strip false xs = ys.flatMap esc) (hc : endSt false xs = false) : Inv (st.push xs) (t ++ ys) := by
  constructor
  · rw [html_push, strip_append, hi.closed, hi.text, hx, List.flatMap_append]
  · rw [html_push, endSt_append, hi.closed, hc]
  · intro off ho
    rw [lastCR_push] at ho
    obtain ⟨h1, h2⟩ := hi.cr off ho
    rw [html_push]
    constructor
    · simp; omega
    · rw [List.take_append_of_le_length h1]; exact h2

theorem inv_push_neutral {st : RState} {t : Bytes} (hi : Inv st t) (xs : Bytes) (hn : Neutral xs) :
    Inv (st.push xs) t := by
  have := inv_push hi xs [] (by simpa using hn.1) hn.2
  simpa using this

theorem inv_push_esc {st : RState} {t : Bytes} (hi : Inv st t) (c : Nat) :
    Inv (st.push (esc c)) (t ++ [c]) :=
  inv_push hi (esc c) [c] (by simp [(strip_esc c).1]) (strip_esc c).2

theorem inv_clearCR {st : RState} {t : Bytes} (hi : Inv st t) : Inv { st with lastCR := none } t := by
  constructor
  · exact hi.text
  · exact hi.closed
  · intro off h; simp at h

theorem inv_addCR (cfg : RCfg) (hattr : ∀ h, 62 ∉ cfg.attr h) {st : RState} {t : Bytes} (hi : Inv st t)
    (off : Nat) (ho : st.lastCR = some off) : Inv (addCR cfg { st with lastCR := none } off) t := by
  unfold addCR
  cases hcr : cfg.crh with
  | none => exact inv_clearCR hi
  | some h =>
    obtain ⟨h1, h2⟩ := hi.cr off ho
    have hn := neutral_crSpan cfg h (hattr h)
    have hsplit : st.html = st.html.take off ++ st.html.drop off := (List.take_append_drop off st.html).symm
    have hhtml : (RState.insertAt { st with lastCR := none } off (crSpan cfg h)).html
        = st.html.take off ++ crSpan cfg h ++ st.html.drop off := html_insertAt _ _ _
    have e1 : strip false (st.html.take off ++ crSpan cfg h ++ st.html.drop off) = strip false st.html := by
      rw [List.append_assoc, strip_append, h2, strip_append, hn.1, hn.2, List.nil_append]
      conv => rhs; rw [hsplit, strip_append, h2]
    have e2 : endSt false (st.html.take off ++ crSpan cfg h ++ st.html.drop off) = endSt false st.html := by
      rw [List.append_assoc, endSt_append, h2, endSt_append, hn.2]
      conv => rhs; rw [hsplit, endSt_append, h2]
    constructor
    · rw [hhtml, e1]; exact hi.text
    · rw [hhtml, e2]; exact hi.closed
    · intro o h; simp at h

theorem esc_nl : esc 10 = [10] := by decide

theorem inv_resolveCR (cfg : RCfg) (hattr : ∀ h, 62 ∉ cfg.attr h) {st : RState} {t : Bytes}
    (hi : Inv st t) (c : Nat) : Inv (resolveCR cfg st c) t := by
  unfold resolveCR
  cases ho : st.lastCR with
  | none => exact hi
  | some off =>
    simp only
    by_cases h10 : c = 10
    · rw [if_neg (by simp [h10])]; exact inv_clearCR hi
    · rw [if_pos h10]; exact inv_addCR cfg hattr hi off ho

theorem inv_lineOffsets {st : RState} {t : Bytes} (hi : Inv st t) (lo : List Nat) :
    Inv { st with lineOffsets := lo } t := ⟨hi.text, hi.closed, hi.cr⟩

theorem inv_addNewline (cfg : RCfg) (hattr : ∀ h, 62 ∉ cfg.attr h) (hl : List Nat) {st : RState} {t : Bytes}
    (hi : Inv st t) : Inv (addNewline cfg hl st) (t ++ [10]) := by
  unfold addNewline
  have a1 := inv_push_neutral hi (hl.flatMap fun _ => spanClose)
    (Neutral.flatMap _ _ fun _ => neutral_spanClose)
  have a2 := inv_push a1 [10] [10] (by decide) (by decide)
  exact inv_push_neutral (inv_lineOffsets a2 _) _ (Neutral.flatMap _ _ fun h => neutral_spanOpen cfg h (hattr h))

theorem addPlain_eq (st : RState) (c : Nat) : addPlain st c = st.push (esc c) := by
  unfold addPlain esc
  cases htmlEscape c <;> rfl

theorem inv_finishCR (cfg : RCfg) (hattr : ∀ h, 62 ∉ cfg.attr h) {st : RState} {t : Bytes} (hi : Inv st t) :
    Inv (finishCR cfg st) t := by
  unfold finishCR
  cases ho : st.lastCR with
  | none => exact hi
  | some off => exact inv_addCR cfg hattr hi off ho

theorem inv_addByte (cfg : RCfg) (hattr : ∀ h, 62 ∉ cfg.attr h) (hl : List Nat) {st : RState} {t : Bytes}
    (hi : Inv st t) (c : Nat) : Inv (addByte cfg hl st c) (t ++ [c].filter (· ≠ 13)) := by
  unfold addByte
  by_cases h13 : c = 13
  · subst h13
    rw [if_pos rfl]
    have hf13 : [13].filter (· ≠ 13) = [] := by decide
    rw [hf13, List.append_nil]
    have hi0 : Inv (if cfg.crcr then finishCR cfg st else st) t := by
      split
      · exact inv_finishCR cfg hattr hi
      · exact hi
    generalize (if cfg.crcr then finishCR cfg st else st) = st0 at hi0
    have hlen : st0.rhtml.length = st0.html.length := by simp [RState.html]
    refine ⟨hi0.text, hi0.closed, ?_⟩
    intro off ho
    simp only [Option.some.injEq] at ho
    subst ho
    show st0.rhtml.length ≤ st0.html.length ∧ endSt false (st0.html.take st0.rhtml.length) = false
    rw [hlen, List.take_length]
    exact ⟨Nat.le_refl _, hi0.closed⟩
  · rw [if_neg h13]
    have hf : [c].filter (· ≠ 13) = [c] := by simp [h13]
    rw [hf]
    have hi1 := inv_resolveCR cfg hattr hi c
    by_cases h10 : c = 10
    · subst h10; rw [if_pos rfl]; exact inv_addNewline cfg hattr hl hi1
    · rw [if_neg h10, addPlain_eq]; exact inv_push_esc hi1 c

theorem inv_addText (dec : Bytes → Bytes) (cfg : RCfg) (hattr : ∀ h, 62 ∉ cfg.attr h) (hl : List Nat)
    {st : RState} {t : Bytes} (hi : Inv st t) (chunk : Bytes) :
    Inv (addText dec cfg hl st chunk) (t ++ (dec chunk).filter (· ≠ 13)) := by
  unfold addText
  generalize dec chunk = bs
  induction bs generalizing st t with
  | nil => simpa using hi
  | cons c r ih =>
    simp only [List.foldl_cons]
    have := ih (inv_addByte cfg hattr hl hi c)
    have e : (c :: r).filter (· ≠ 13) = [c].filter (· ≠ 13) ++ r.filter (· ≠ 13) := by
      rw [← List.filter_append]; rfl
    rw [e, ← List.append_assoc]; exact this

/-- Text contributed by one event. -/
def evText (dec : Bytes → Bytes) (src : Bytes) : Ev → Bytes
  | .source s e => (dec (sliceT src s e)).filter (· ≠ 13)
  | _ => []

theorem inv_renderEv (dec : Bytes → Bytes) (cfg : RCfg) (hattr : ∀ h, 62 ∉ cfg.attr h) (src : Bytes)
    {p : RState × List Nat} {t : Bytes} (hi : Inv p.1 t) (ev : Ev) :
    Inv (renderEv dec cfg src p ev).1 (t ++ evText dec src ev) := by
  cases ev with
  | source s e => exact inv_addText dec cfg hattr p.2 hi _
  | start h => simpa [renderEv, evText] using inv_push_neutral hi _ (neutral_spanOpen cfg h (hattr h))
  | stop => simpa [renderEv, evText] using inv_push_neutral hi _ neutral_spanClose

theorem inv_fold (dec : Bytes → Bytes) (cfg : RCfg) (hattr : ∀ h, 62 ∉ cfg.attr h) (src : Bytes)
    (evs : List Ev) {p : RState × List Nat} {t : Bytes} (hi : Inv p.1 t) :
    Inv (evs.foldl (renderEv dec cfg src) p).1 (t ++ evs.flatMap (evText dec src)) := by
  induction evs generalizing p t with
  | nil => simpa using hi
  | cons ev r ih =>
    simp only [List.foldl_cons, List.flatMap_cons]
    have := ih (inv_renderEv dec cfg hattr src hi ev)
    simpa [List.append_assoc] using this

theorem textOf_eq (dec : Bytes → Bytes) (evs : List Ev) (src : Bytes) :
    textOf dec evs src = evs.flatMap (evText dec src) := by
  unfold textOf decoded
  induction evs with
  | nil => rfl
  | cons ev r ih =>
    simp only [List.flatMap_cons, List.filter_append, ih]
    cases ev <;> simp [evText]


theorem html_finishOffsets (st : RState) : (finishOffsets st).html = st.html := by
  unfold finishOffsets; split <;> rfl

/-- The text read back from a finished renderer. -/
theorem htmlText_finish (cfg : RCfg) (hattr : ∀ h, 62 ∉ cfg.attr h) {st : RState} {t : Bytes} (hi : Inv st t) :
    htmlText (renderFinish cfg st).html = t ++ [10] ∨
    (htmlText (renderFinish cfg st).html = t ∧ t.getLast? = some 10) := by
  unfold renderFinish
  rw [html_finishOffsets]
  have hi1 := inv_finishCR cfg hattr hi
  generalize finishCR cfg st = st1 at hi1 ⊢
  unfold finishNewline
  by_cases hh : st1.rhtml.head? ≠ some 10
  · rw [if_pos hh]
    left
    have := inv_push hi1 [10] [10] (by decide) (by decide)
    unfold htmlText stripTags
    rw [this.text, unescape_flatMap_esc]
  · rw [if_neg hh]
    right
    have hh' : st1.rhtml.head? = some 10 := by simpa using hh
    obtain ⟨r', hr⟩ : ∃ r', st1.rhtml = 10 :: r' := by
      cases hrh : st1.rhtml with
      | nil => rw [hrh] at hh'; simp at hh'
      | cons x r => rw [hrh] at hh'; simp at hh'; exact ⟨r, by rw [hh']⟩
    have hhtml : st1.html = r'.reverse ++ [10] := by simp [RState.html, hr]
    have hcl : endSt false r'.reverse = false := by
      have := hi1.closed
      rw [hhtml, endSt_append] at this
      cases hc : endSt false r'.reverse with
      | false => rfl
      | true => rw [hc] at this; simp [endSt] at this
    have htx : t.flatMap esc = strip false r'.reverse ++ [10] := by
      rw [← hi1.text, hhtml, strip_append, hcl]; rfl
    constructor
    · unfold htmlText stripTags
      rw [hi1.text, unescape_flatMap_esc]
    · exact flatMap_esc_ends_nl t _ htx

theorem judgeHtml_renderT (dec : Bytes → Bytes) (cfg : RCfg) (hattr : ∀ h, 62 ∉ cfg.attr h)
    (evs : List Ev) (src : Bytes) : judgeHtml dec evs src (renderT dec cfg evs src).html = true := by
  have hi : Inv (evs.foldl (renderEv dec cfg src) ({}, [])).1 (textOf dec evs src) := by
    have := inv_fold dec cfg hattr src evs (p := ({}, [])) (t := []) inv_init
    simpa [textOf_eq] using this
  unfold judgeHtml renderT
  rcases htmlText_finish cfg hattr hi with h | ⟨h1, h2⟩
  · simp [h]
  · simp [h1, h2]

end TsVerif.C17
