import TsVerif.C17.Props
#print axioms TsVerif.C17.render_roundtrip_gen
#print axioms TsVerif.C17.render_roundtrip_fixed
#print axioms TsVerif.C17.render_roundtrip_partial
#print axioms TsVerif.C17.lossyFixed_eq_spec
#print axioms TsVerif.C17.lossy_eq_spec_partial
#print axioms TsVerif.C17.lossy_drops_truncated_tail
#print axioms TsVerif.C17.lossy_drops_final_replacement
#print axioms TsVerif.C17.render_roundtrip_witness_truncated
#print axioms TsVerif.C17.render_roundtrip_witness_final_invalid
#print axioms TsVerif.C17.render_total_of_wellFormed
#print axioms TsVerif.C17.merge_wellformed_partial
#print axioms TsVerif.C17.normalize_whole
#print axioms TsVerif.C17.render_roundtrip_whole_fixed
#print axioms TsVerif.C17.merge_multi_wellformed_partial
#print axioms TsVerif.C17.merge_multi_wellformed
#print axioms TsVerif.C17.intersect_ranges_spec
#print axioms TsVerif.C17.injected_content_inside
