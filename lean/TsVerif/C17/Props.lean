import TsVerif.C17.Lemmas
import TsVerif.C17.Lossy
import TsVerif.C17.MergeLemmas
import TsVerif.C17.Whole
import TsVerif.C17.MergeMultiLemmas
import TsVerif.C17.MergeTerm
import TsVerif.C17.IntersectLemmas
import TsVerif.C17.Locals
import TsVerif.C17.FullLemmas
import TsVerif.C17.StackThm
import TsVerif.C17.SortOrder
import TsVerif.C17.MultiOrder
import TsVerif.C17.WellNested
import TsVerif.C17.LinesThm
/-!
# C17 — Highlight events are well nested and reproduce the source text exactly

Property text (`properties.jsonl`): *For any source, the highlighter's event stream consists of source
spans that are contiguous, increasing and cover the text from first to last byte exactly once,
interleaved with start/end events that are properly nested and all closed at the end; spans
produced by an injected language stay inside the injection's content.  The HTML renderer's output,
with tags removed and entities decoded, is the source text up to its documented normalisations
(carriage returns dropped, invalid UTF-8 replaced, a final newline added), and a name resolved as a
local reference is highlighted like its definition.*  Quantifier: all sources over the zoo languages
with highlight, locals and injection queries (nested and combined), all recognised-name lists,
highlighter reuse across documents.

## Clause map (phrase of the text → theorems; `partial` = proved under a stated premise that excludes
part of what the text includes; `model` = statement about the hand-ported Lean model, tied to the real
code only by exact reproduction of real streams (correspondence) on the generated cases; `judged only`
= no theorem, a Lean judge runs on every real output)

| # | phrase | theorems | mark |
|---|---|---|---|
| 1 | "for any source, the highlighter's event stream" | every merge theorem below quantifies over ALL capture tables / layer tables of the model (`∀ caps`, `∀ defs top n`, `∀ cx`); the real parser + query engine that produce those tables are NOT modelled (C01–C16 territory) | model; real streams judged only (`judgeEvents` on every real stream: H, M, N, K, F, C, S cases) |
| 2 | "source spans that are contiguous, increasing and cover the text from first to last byte exactly once" | `merge_wellformed_partial` (one layer), `merge_locals_wellformed_partial` (one layer WITH the locals branch, `Round11.lean`), `merge_multi_wellformed` / `merge_multi_wellformed_partial` (several layers, injections creating layers), `merge_full_wellformed` (layers + locals + `injection_for_match`); `judgeEvents n evs = true` says exactly: spans contiguous from 0 to n, non-empty, increasing | model; premises `capsIn`/`defsIn` (captures inside the source) and `refsUp` (injections create later table entries) are checked on every real case, never failed |
| 3 | "interleaved with start/end events that are properly nested" | syntactic nesting (never an End without an open Start): same theorems as 2.  Nesting WITH SPAN IDENTITY ("each End closes the span that ends there, which is the most recently opened one"): `merge_stack_spec_partial` (one layer); several layers INCLUDING layers created during the run: `merge_well_nested_dynamic_partial` (every prefix of the run), `merge_well_nested_run_partial` (the whole run of `mergeLayersR`: finishes, every End passes, stack empty at the end), premise `dynNice` (decidable); static corollary `merge_well_nested_partial`; witnesses `well_nested_needs_crossNice`, `well_nested_needs_laminar`, `well_nested_equal_depth_tie`, `well_nested_needs_injTieOk`, `well_nested_needs_closureNodup` | model, partial (premise holds on 165/303 real multi-layer cases of the quick tier); real streams judged (`judgeStacks`) on the applicable ones |
| 4 | "and all closed at the end" | same theorems as 2 (`judgeEvents` requires depth 0 after the last event) | model |
| 5 | "spans produced by an injected language stay inside the injection's content" | `intersect_ranges_spec`, `injected_content_inside` (every computed content range is non-empty, inside a parent range, inside a content node, clear of children unless include-children), `intersect_ranges_ordered`, `injection_ranges_ordered` (`Round11b.lean`: the computed list is ordered and pairwise disjoint for content nodes in document order, ANY parent ranges), `injection_language_captured`; that a layer's captures lie inside its included ranges is a fact about parsing with included ranges (C13) | ranges: proved for the port (compared with the real private function through `hooks/C17-reexport.diff` when applied); SPANS inside content: judged only (`judgeInjected`, every real stream with injections) |
| 6 | "the HTML renderer's output, with tags removed and entities decoded, is the source text up to its documented normalisations" | `render_roundtrip_gen` (ANY event stream, any decoder: html text = concatenated decoded chunks without CR + final newline rule), `render_roundtrip_fixed`, `render_roundtrip_partial`, `render_roundtrip_whole_fixed`, `render_reproduces_source` (valid UTF-8: html text = source without CRs + newline rule), `render_total_of_wellFormed` | model of `HtmlRenderer`; `_partial` for the iterator of the tree before `fixes/C17-lossy-truncated.diff` (witnesses `render_roundtrip_witness_truncated`, `render_roundtrip_witness_final_invalid`); real HTML judged on every R/H/C case (`judgeHtml`) |
| 6b | the same PER LINE, as read through `HtmlRenderer::lines()` / `line_offsets` (the observation point "HtmlRenderer output"; the CLI prints the html line by line) | `render_line_offsets` (model: `line_offsets` = exactly the line starts of the html — 0 and the byte after every newline but a final one — and the html ends with a newline; hence the lines concatenate to the whole and each ends with a newline; hypothesis: the attribute callback writes no newline); per-line tags / re-opening / text with CR markers: no theorem | model; real output judged on every rendering (`judgeLines`: offsets, line-newline, line-tags, line-reopen, line-text), genuine finding `C17-cr-before-cr-unstyled` |
| 7 | "carriage returns dropped" | part of `judgeHtml`/`textOf` (`filter (· ≠ 13)`) in the theorems of 6; `normalize_whole` | model |
| 8 | "invalid UTF-8 replaced" | `lossyFixed_eq_spec` (∀ bytes, iterator after the fix = `String::from_utf8_lossy` spec), `lossy_eq_spec_partial`, `lossyV_diag`, witnesses `lossy_drops_truncated_tail`, `lossy_drops_final_replacement`, `lossySpec_valid` | model of `LossyUtf8`, compared byte for byte with the real iterator on every L case; `lossySpec` is my port of the std spec, compared with the real `from_utf8_lossy` on every L case |
| 9 | "a final newline added" | `judgeHtml` alternatives in 6 (`t ++ "\n"` always, `t` only if it ends in a newline) | model; boundary convention below |
| 10 | "a name resolved as a local reference is highlighted like its definition" | `local_ref_like_def`, `findDef_newest` (one layer, the register `reference_highlight`); EVENT level (`Round11.lean`): `merge_locals_ref_event`, `merge_locals_def_event`, `merge_locals_ref_like_def_events` (single-layer port), `full_ref_event`, `full_def_event`, `full_ref_event_run` (end-to-end multi-layer model, any state) | model, partial (see gaps); real streams judged (`judgeLocals`) |
| 11 | events in offset order across layers (mechanism anchor "event emission in offset order across layers") | `sort_key_order`, `sort_layers_restores_order`, `insert_layer_keeps_order`, `merge_layers_stay_ordered_partial`, `initial_layers_ordered`, `merge_layers_stay_ordered`, `merge_events_in_place`; witness `initial_layers_unordered_witness` (set-up before `fixes/C17-initial-layer-order.diff`) | model |
| 12 | "all recognised-name lists", "highlighter reuse across documents" (quantifier) | no theorem | judged only (names modes 0–3 in H/F cases; histories over one `Highlighter`, S cases, each stream judged and compared with a fresh highlighter) |

## Gaps (each theorem checked against the text)

* **All merge theorems are about the models.**  Nothing is proved about `highlight.rs` itself; the
  tie is exact reproduction of the real event stream by the model on every generated case (M, N, K, F)
  plus the judges on every real stream.  A source outside the generated families is covered by the
  theorems only as far as the model is faithful there.
* **2/3/4 `merge_full_wellformed`** needs `Full.refsUp` and `Full.defsIn`; both are facts about the
  harness' table construction / tree-sitter node ranges, checked per case, not proved.  Cancellation
  and the error path are outside the theorems (judged: C/E cases).
* **3 span identity is `partial`**: `merge_stack_spec_partial` is one layer without locals and needs
  `capsOk` (captures in nesting order: outer first at equal start).  `merge_well_nested_dynamic_partial`
  / `merge_well_nested_run_partial` cover layers created during the run but need `dynNice`:
  (a) `defsNiceD`, `refsUp`, `closureNodup` (each layer id referenced at most once) — facts about the
  harness' table construction, they hold on every real case; (b) `crossNice` (different layers
  laminar; start ties only between different depths with the shallower span not longer);
  (c) `injTieOkP` (no span of a shallower layer can already be open at the byte where a deeper layer
  with a span capture there is created; on real tables it holds wherever `crossNice` holds, because
  injection patterns precede highlight patterns in the combined query); (d) the repaired set-up
  (`initLayersR`).  Measured on the real multi-layer cases of the quick tier (default seed): `dynNice`
  holds on 165/303 = every case on which `crossNice` holds; 109/303 have a start tie with the wrong
  orientation (the real stream itself closes the wrong span there; `judgeStacks` skips them as
  `skip-start-tie`, no theorem can include them), 29/303 are not laminar; `injTieOkP` fails on 18, all
  among those.  The model's run passes the stack discipline on 180/303 (the 165 and 15 more).  The
  statement is about the model's `highlight_end_stack` ends (a span is identified by its end on the
  global stack), not about the highlight ids; locals are not in this model (`Full.lean` has no
  such theorem).
* **5 "spans … inside the content" is judged only** for spans; the theorems are about the ranges
  handed to the parser.  `judgeInjected` checks Starts only and tolerates a zero-width span at the
  end of a range (missing-token nodes).
* **6 `render_reproduces_source`** assumes a well-formed stream, valid UTF-8 and span boundaries on
  character boundaries (`endsTruncated = false`); for invalid UTF-8 the statement is per chunk
  (`render_roundtrip_fixed`: text = concatenation of the lossy decodings of the chunks), which differs
  from the lossy decoding of the whole source when a boundary splits a multi-byte sequence — that is
  what the code does, and the text's "invalid UTF-8 replaced" does not say which.  `hattr` (the
  attribute callback never writes `>`) is an external contract, not in the text.
* **6b** per line only the offsets/newline statement is a theorem (`render_line_offsets`, model); that
  the tags of each line are balanced, that open spans are re-opened in order, and that the CR marker
  sits where the lone CR was, is judged only (`judgeLines`, every real rendering).  The optional
  carriage-return highlight is not mentioned in the property text; its defect (a CR before a CR is not
  styled) is reported as a known finding with `fixes/C17-cr-cr-marker.diff`.
* **9** the renderer adds the newline after the last html BYTE (a closing tag after a final newline
  still gets one): accepted by the judge, stated in the boundary conventions.
* **10 `local_ref_like_def` is `partial`**: one layer; the reference is the capture being processed;
  hypotheses: every scope above the defining one inherits and does not define the name, and no
  definition capture is pending on the same node (`defP = false`).  "highlighted like its
  definition" is proved as "takes the highlight STORED for the definition"; that the stored
  highlight is the one the definition itself was emitted with is now a theorem too
  (`merge_locals_def_event`, `full_def_event`: the `Start` of the definition node carries `hh` and `hh`
  is what is stored), and `merge_locals_ref_event` / `full_ref_event` say the reference's `Start`
  EVENT carries the stored highlight, for ANY state of the single-layer / end-to-end multi-layer
  model; shape: the node's captures are [definition | reference, one highlight capture, later
  patterns].  What links the two steps over ARBITRARY captures in between (the definition stays the
  newest admissible one of its scope) is proved only for the adjacent shape
  (`merge_locals_ref_like_def_events`); in general still judged (`judgeLocals`).
  `local.definition-value` never takes effect in the real code (value range always 0..0): observation
  in notes, outside the text.
* **12** is judged only.

Boundary conventions: the renderer adds the final newline whenever the last HTML *byte* is not a
newline, so a text that already ends in a newline still gets one when a tag follows it; `judgeHtml`
therefore accepts `text ++ "\n"` always and `text` only when it ends with a newline.  Tags are
removed before entities are decoded.  The attribute callback must not write `>` (hypothesis
`hattr`; external contract of `HtmlRenderer::render`).
-/
namespace TsVerif.C17

/-! ## "invalid UTF-8 replaced" -/

/-- The iterator of `fixes/C17-lossy-truncated.diff` is the replacement-complete decoding, for all inputs. -/
theorem lossyFixed_eq_spec (bs : Bytes) : lossyFixed bs = lossySpec bs :=
  lossyGo_fixed bs.length bs _ (Nat.le_refl _) (Nat.le_refl _)

/-- The iterator of the unchanged tree is the replacement-complete decoding on inputs that neither
end inside a multi-byte sequence nor end with an invalid sequence directly after a valid character.
OPEN (false, see the two witnesses): `∀ bs, lossy bs = lossySpec bs`. -/
theorem lossy_eq_spec_partial (bs : Bytes) (h : tailLoss bs = false) : lossy bs = lossySpec bs :=
  lossyGo_orig bs.length bs _ (Nat.le_refl _) (by omega) h

/-- The two-flag port used by the driver (one flag per repaired defect, selected by probing the
real code) coincides with the proved ports on the diagonal. -/
theorem lossyV_diag (b : Bool) (bs : Bytes) : lossyV b b bs = lossyF b bs := by
  have hn : ∀ it : LossyIt, it.nextV b b = it.next b := fun it => rfl
  have hg : ∀ (fuel : Nat) (it : LossyIt), lossyGoV b b fuel it = lossyGo b fuel it := by
    intro fuel
    induction fuel with
    | zero => intro it; rfl
    | succ f ih =>
      intro it
      simp only [lossyGoV, lossyGo, hn]
      cases it.next b with
      | none => rfl
      | some p => simp only [ih]
  exact hg _ _

/-- non-vacuity: an input with valid, invalid and multi-byte parts that satisfies the hypothesis -/
example : tailLoss [97, 0xC0, 0xC1, 0xC3, 0xA9, 98] = false ∧
    lossy [97, 0xC0, 0xC1, 0xC3, 0xA9, 98] = [97, 0xEF, 0xBF, 0xBD, 0xEF, 0xBF, 0xBD, 0xC3, 0xA9, 98] := by decide

/-- Witness (a): `LossyUtf8::new(b"ab\xe2")` yields nothing; the specification yields `ab\u{fffd}`. -/
theorem lossy_drops_truncated_tail :
    lossy [97, 98, 0xE2] = [] ∧ lossySpec [97, 98, 0xE2] = [97, 98, 0xEF, 0xBF, 0xBD] ∧
    tailLoss [97, 98, 0xE2] = true := by decide

/-- Witness (b): `LossyUtf8::new(b"ab\xff")` yields `ab` without the replacement character. -/
theorem lossy_drops_final_replacement :
    lossy [97, 98, 0xFF] = [97, 98] ∧ lossySpec [97, 98, 0xFF] = [97, 98, 0xEF, 0xBF, 0xBD] ∧
    tailLoss [97, 98, 0xFF] = true := by decide

/-! ## The renderer -/

/-- For EVERY event stream, decoder and source: the HTML with tags removed and entities decoded is
the decoded text of the `Source` chunks with carriage returns dropped, plus the final newline. -/
theorem render_roundtrip_gen (dec : Bytes → Bytes) (cfg : RCfg) (hattr : ∀ h, 62 ∉ cfg.attr h)
    (evs : List Ev) (src : Bytes) : judgeHtml dec evs src (renderT dec cfg evs src).html = true :=
  judgeHtml_renderT dec cfg hattr evs src

theorem decoded_congr (d1 d2 : Bytes → Bytes) (evs : List Ev) (src : Bytes)
    (h : ∀ s e, Ev.source s e ∈ evs → d1 (sliceT src s e) = d2 (sliceT src s e)) :
    decoded d1 evs src = decoded d2 evs src := by
  induction evs with
  | nil => rfl
  | cons ev r ih =>
    have ihr := ih (fun s e hm => h s e (List.mem_cons_of_mem _ hm))
    unfold decoded at *
    simp only [List.flatMap_cons, ihr]
    cases ev with
    | source s e => simp only; rw [h s e (List.mem_cons_self)]
    | start _ => rfl
    | stop => rfl

/-- Full statement, with the repaired iterator: the text read back is the source normalised by the
replacement-complete decoding. -/
theorem render_roundtrip_fixed (cfg : RCfg) (hattr : ∀ h, 62 ∉ cfg.attr h) (evs : List Ev) (src : Bytes) :
    judgeHtml lossySpec evs src (renderT lossyFixed cfg evs src).html = true := by
  have hf : lossyFixed = lossySpec := funext lossyFixed_eq_spec
  rw [hf]; exact render_roundtrip_gen lossySpec cfg hattr evs src

/-- OPEN `render_roundtrip`: `∀ evs src, judgeHtml lossySpec evs src (renderT lossy cfg evs src).html`
— FALSE for the unchanged iterator (witnesses below).  Proved part: every `Source` chunk is free of
tail loss (does not end inside a multi-byte sequence, nor with an invalid sequence right after a
valid character). -/
theorem render_roundtrip_partial (cfg : RCfg) (hattr : ∀ h, 62 ∉ cfg.attr h) (evs : List Ev) (src : Bytes)
    (hchunks : ∀ s e, Ev.source s e ∈ evs → tailLoss (sliceT src s e) = false) :
    judgeHtml lossySpec evs src (renderT lossy cfg evs src).html = true := by
  have h := render_roundtrip_gen lossy cfg hattr evs src
  have ht : textOf lossy evs src = textOf lossySpec evs src := by
    unfold textOf
    rw [decoded_congr lossy lossySpec evs src (fun s e hm => lossy_eq_spec_partial _ (hchunks s e hm))]
  unfold judgeHtml at *
  rw [← ht]; exact h

/-- The attribute callback of the harness and of the examples: `class=c<h>` style, no `>`. -/
def exCfg : RCfg := { attr := fun h => [99, 48 + h % 10], crh := some 7 }

/-- the attribute callback of the examples writes no newline (hypothesis of `render_line_offsets`) -/
theorem exCfg_nl : ∀ h, 10 ∉ exCfg.attr h := by
  intro h; simp only [exCfg, List.mem_cons, List.not_mem_nil, or_false, not_or]; omega

/-- non-vacuity of `render_line_offsets` (`LinesThm.lean`): `a\r\nb\r` inside a highlight with a
carriage-return highlight renders as `<span c1>a</span>\n<span c1>b<span c7></span></span>\n`; the CR of
CRLF leaves no marker, the CR at the end does, and the second line starts at byte 18. -/
example : (renderT lossyFixed exCfg [Ev.start 1, .source 0 5, .stop] [97, 13, 10, 98, 13]).lineOffsets = [0, 18] ∧
    lineStarts (renderT lossyFixed exCfg [Ev.start 1, .source 0 5, .stop] [97, 13, 10, 98, 13]).html = [0, 18] := by decide

theorem exCfg_attr : ∀ h, 62 ∉ exCfg.attr h := by
  intro h; simp only [exCfg, List.mem_cons, List.not_mem_nil, or_false, not_or]; omega

/-- non-vacuity of `render_roundtrip_partial`: nested highlight over CR LF, an escaped `<`, a lone CR -/
example : (∀ s e, Ev.source s e ∈ [Ev.start 1, .source 0 3, .stop, .source 3 6] →
      tailLoss (sliceT [97, 13, 10, 60, 0xFF, 13] s e) = false) ∧
    wellFormed 6 [Ev.start 1, .source 0 3, .stop, .source 3 6] = true ∧
    htmlText (renderT lossy exCfg [Ev.start 1, .source 0 3, .stop, .source 3 6] [97, 13, 10, 60, 0xFF, 13]).html
      = [97, 10, 60, 0xEF, 0xBF, 0xBD, 10] := by
  refine ⟨?_, by decide, by decide⟩
  intro s e hm
  simp only [List.mem_cons, List.not_mem_nil, or_false, reduceCtorEq, false_or, Ev.source.injEq] at hm
  rcases hm with ⟨rfl, rfl⟩ | ⟨rfl, rfl⟩ <;> decide

/-- Witness for the OPEN statement (a): a chunk boundary inside `é…` / a source ending in a truncated
sequence loses the chunk's text: `ab\xe2` renders as an empty line. -/
theorem render_roundtrip_witness_truncated :
    judgeHtml lossySpec [Ev.source 0 3] [97, 98, 0xE2] (renderT lossy exCfg [Ev.source 0 3] [97, 98, 0xE2]).html = false ∧
    (renderT lossy exCfg [Ev.source 0 3] [97, 98, 0xE2]).html = [10] := by decide

/-- Witness (b): `ab\xff` renders as `ab` — the replacement character is lost. -/
theorem render_roundtrip_witness_final_invalid :
    judgeHtml lossySpec [Ev.source 0 3] [97, 98, 0xFF] (renderT lossy exCfg [Ev.source 0 3] [97, 98, 0xFF]).html = false := by decide

/-- A well-formed stream never makes `&source[start..end]` panic. -/
theorem render_total_of_wellFormed (dec : Bytes → Bytes) (cfg : RCfg) (evs : List Ev) (src : Bytes)
    (hwf : wellFormed src.length evs = true) : render dec cfg evs src = some (renderT dec cfg evs src) := by
  have key : ∀ (evs : List Ev) (pos depth : Nat), wellFormedFrom src.length pos depth evs = true →
      slicesOk src.length evs = true := by
    intro evs
    induction evs with
    | nil => intros; rfl
    | cons ev r ih =>
      intro pos depth h
      cases ev with
      | source s e =>
        simp only [wellFormedFrom, Bool.and_eq_true, beq_iff_eq, decide_eq_true_eq] at h
        have := ih e depth h.2
        simp only [slicesOk, List.all_cons, Bool.and_eq_true, decide_eq_true_eq] at this ⊢
        exact ⟨⟨by omega, h.1.2⟩, this⟩
      | start hh =>
        simp only [wellFormedFrom] at h
        have := ih pos (depth + 1) h
        simpa [slicesOk] using this
      | stop =>
        simp only [wellFormedFrom, Bool.and_eq_true] at h
        have := ih pos (depth - 1) h.2
        simpa [slicesOk] using this
  unfold render
  rw [if_pos (key evs 0 0 hwf)]

example : wellFormed 5 [Ev.start 3, .source 0 2, .start 4, .source 2 5, .stop, .stop] = true := by decide

/-- For a well-formed stream none of whose chunks ends inside a multi-byte sequence, decoding chunk by
chunk is decoding the whole source: the normalised text is `lossySpec src` with CRs dropped. -/
theorem normalize_whole (evs : List Ev) (src : Bytes) (hwf : wellFormed src.length evs = true)
    (hb : ∀ s e, Ev.source s e ∈ evs → endsTruncated (sliceT src s e) = false) :
    textOf lossySpec evs src = (lossySpec src).filter (· ≠ 13) := by
  unfold textOf
  rw [decoded_whole src evs 0 0 hwf hb, List.drop_zero]

/-- The property's HTML clause about the WHOLE source, for the repaired code: tags removed and
entities decoded, the HTML is the lossily decoded source without CRs, plus the final newline. -/
theorem render_roundtrip_whole_fixed (cfg : RCfg) (hattr : ∀ h, 62 ∉ cfg.attr h) (evs : List Ev) (src : Bytes)
    (hwf : wellFormed src.length evs = true)
    (hb : ∀ s e, Ev.source s e ∈ evs → endsTruncated (sliceT src s e) = false) :
    let t := (lossySpec src).filter (· ≠ 13)
    let x := htmlText (renderT lossyFixed cfg evs src).html
    x = t ++ [10] ∨ (x = t ∧ t.getLast? = some 10) := by
  have h := render_roundtrip_fixed cfg hattr evs src
  unfold judgeHtml at h
  rw [normalize_whole evs src hwf hb] at h
  simpa using h

/-- Valid UTF-8 is left unchanged by the lossy decoding. -/
theorem lossySpec_valid (src : Bytes) (h : fromUtf8 src = none) : lossySpec src = src :=
  ((fromUtf8_walk src.length src 0 (Nat.le_refl _)).1 h).1

/-- THE RENDERER CLAUSE OF THE PROPERTY, for the code as committed (`lossyFixed`): for a WELL-FORMED
event stream over a VALID UTF-8 source whose `Source` spans do not end inside a character, the HTML
with tags removed and entities decoded is the source with carriage returns dropped, followed by the
final newline — which may be omitted only if that text already ends in a newline (exactly what
`judgeHtml` checks on every real output). -/
theorem render_reproduces_source (cfg : RCfg) (hattr : ∀ h, 62 ∉ cfg.attr h) (evs : List Ev) (src : Bytes)
    (hwf : wellFormed src.length evs = true) (hvalid : fromUtf8 src = none)
    (hb : ∀ s e, Ev.source s e ∈ evs → endsTruncated (sliceT src s e) = false) :
    let t := src.filter (· ≠ 13)
    let x := htmlText (renderT lossyFixed cfg evs src).html
    x = t ++ [10] ∨ (x = t ∧ t.getLast? = some 10) := by
  have h := render_roundtrip_whole_fixed cfg hattr evs src hwf hb
  rw [lossySpec_valid src hvalid] at h
  exact h

/-- non-vacuity: `a<é\r\n€` highlighted in two spans; the text comes back with `\r` dropped -/
example : wellFormed 9 [Ev.start 1, .source 0 4, .stop, .source 4 9] = true ∧
    fromUtf8 [97, 60, 0xC3, 0xA9, 13, 10, 0xE2, 0x82, 0xAC] = none ∧
    (∀ s e, Ev.source s e ∈ [Ev.start 1, .source 0 4, .stop, .source 4 9] →
      endsTruncated (sliceT [97, 60, 0xC3, 0xA9, 13, 10, 0xE2, 0x82, 0xAC] s e) = false) ∧
    htmlText (renderT lossyFixed exCfg [Ev.start 1, .source 0 4, .stop, .source 4 9] [97, 60, 0xC3, 0xA9, 13, 10, 0xE2, 0x82, 0xAC]).html
      = [97, 60, 0xC3, 0xA9, 10, 0xE2, 0x82, 0xAC, 10] := by
  refine ⟨by decide, by decide, ?_, by decide⟩
  intro s e hm
  simp only [List.mem_cons, List.not_mem_nil, or_false, reduceCtorEq, false_or, Ev.source.injEq] at hm
  rcases hm with ⟨rfl, rfl⟩ | ⟨rfl, rfl⟩ <;> decide

/-- non-vacuity: chunk boundaries between characters (é | €), CR LF inside a highlight -/
example : wellFormed 7 [Ev.source 0 2, .start 1, .source 2 7, .stop] = true ∧
    (∀ s e, Ev.source s e ∈ [Ev.source 0 2, .start 1, .source 2 7, .stop] →
      endsTruncated (sliceT [0xC3, 0xA9, 0xE2, 0x82, 0xAC, 13, 10] s e) = false) := by
  refine ⟨by decide, ?_⟩
  intro s e hm
  simp only [List.mem_cons, List.not_mem_nil, or_false, reduceCtorEq, false_or, Ev.source.injEq] at hm
  rcases hm with ⟨rfl, rfl⟩ | ⟨rfl, rfl⟩ <;> decide

/-- The hypothesis cannot be dropped: a boundary inside `é` gives two replacement characters. -/
example : decoded lossySpec [Ev.source 0 1, .source 1 2] [0xC3, 0xA9] ≠ lossySpec [0xC3, 0xA9] := by decide

/-! ## Well-formed event streams (model of the merge of one layer) -/

/-- For EVERY capture list whose offsets lie inside the source (no ordering or nesting assumption is
needed), the single-layer merge yields a well-formed stream: `Source` spans contiguous, strictly
increasing, covering `[0,n)` exactly once; `Start`/`End` balanced, never negative, all closed.
`_partial`: one layer only — OPEN for several layers (`sort_key` / `sort_layers` / `insert_layer` /
`last_highlight_range` are not modelled; real multi-layer streams are judged instead). -/
theorem merge_wellformed_partial (n : Nat) (caps : List Cap) (h : capsIn n caps = true) :
    judgeEvents n (mergeLayer n caps) = true := by
  have hin : ∀ c ∈ caps, c.s ≤ n ∧ c.e ≤ n := by
    intro c hc
    have := List.all_eq_true.mp h c hc
    simpa using this
  exact mergeGo_wf n _ 0 [] caps (by simp) ⟨Nat.zero_le _, fun _ h => by simp at h, hin⟩

/-- non-vacuity: nested, adjacent, zero-width and unrecognised captures -/
example : capsIn 7 [⟨0, 5, some 1⟩, ⟨0, 2, some 2⟩, ⟨2, 2, some 4⟩, ⟨2, 3, none⟩, ⟨3, 5, some 3⟩] = true ∧
    mergeLayer 7 [⟨0, 5, some 1⟩, ⟨0, 2, some 2⟩, ⟨2, 2, some 4⟩, ⟨2, 3, none⟩, ⟨3, 5, some 3⟩] =
      [.start 1, .start 2, .source 0 2, .stop, .start 4, .stop, .source 2 3, .start 3, .source 3 5, .stop, .stop,
       .source 5 7] := by decide

/-- The hypothesis cannot be dropped: a capture that ends beyond the source yields a `Source`
event past the end. -/
example : judgeEvents 3 (mergeLayer 3 [⟨1, 9, some 0⟩]) = false := by decide

/-! ## Scope stacks -/

/-- The `StackSpec` clause as a theorem about the single-layer merge: for captures inside the source,
in start order, any two nested or disjoint and listed in nesting order (`capsOk` — what the judge's
applicability conditions say for one layer), over EVERY `Source` span of `mergeLayer` the stack of
open highlights (innermost first; `Start` pushes, `End` pops) is exactly the list of the highlights
of the captures whose range contains the span, latest capture first.  In particular every `End`
closes the highlight of the capture that ends there.  `_partial`: one layer (several layers:
judged, theorem OPEN); the hypothesis `capsOk` cannot be dropped (witnesses below). -/
theorem merge_stack_spec_partial (n : Nat) (caps : List Cap) (h : capsOk n caps = true) :
    ∀ t ∈ observed (mergeLayer n caps), t.1 < t.2.1 ∧ t.2.2 = expectedStack caps t.1 t.2.1 := by
  intro t ht
  have hi : SInvL n 0 [] caps :=
    { sorted := by simp
      openLe := fun x hx => by simp at hx
      capsok := h
      restGe := fun c _ => Nat.zero_le _
      nest := fun x hx => by simp at hx }
  have := mergeGo_stack n (2 * caps.length + 1) 0 [] caps (by simp) hi t (by simpa [observed, mergeLayer] using ht)
  obtain ⟨_, g2, g3⟩ := this
  exact ⟨g2, by simpa [EState] using g3⟩

/-- non-vacuity: nested, adjacent, same-range, zero-width and unrecognised captures -/
example : capsOk 9 [⟨0, 6, some 1⟩, ⟨0, 2, some 2⟩, ⟨2, 4, some 3⟩, ⟨2, 4, some 4⟩, ⟨4, 4, some 5⟩, ⟨4, 6, none⟩, ⟨7, 8, some 6⟩] = true ∧
    observed (mergeLayer 9 [⟨0, 6, some 1⟩, ⟨0, 2, some 2⟩, ⟨2, 4, some 3⟩, ⟨2, 4, some 4⟩, ⟨4, 4, some 5⟩, ⟨4, 6, none⟩, ⟨7, 8, some 6⟩]) =
      [(0, 2, [2, 1]), (2, 4, [4, 3, 1]), (4, 6, [1]), (6, 7, []), (7, 8, [6]), (8, 9, [])] := by decide

/-- `capsOk` cannot be dropped (1): two captures starting together, the INNER one listed first (a
start tie against the nesting order): the end stack is then `[5, 2]`, the inner highlight is only
closed at 5, and the one `Source` span `[0,5)` carries `[2, 1]` although only capture 2 contains it. -/
example : capsOk 5 [⟨0, 2, some 1⟩, ⟨0, 5, some 2⟩] = false ∧
    observed (mergeLayer 5 [⟨0, 2, some 1⟩, ⟨0, 5, some 2⟩]) = [(0, 5, [2, 1])] ∧
    expectedStack [⟨0, 2, some 1⟩, ⟨0, 5, some 2⟩] 0 5 = [2] := by decide

/-- `capsOk` cannot be dropped (2): partially overlapping captures. -/
example : capsOk 5 [⟨0, 3, some 1⟩, ⟨2, 5, some 2⟩] = false ∧
    observed (mergeLayer 5 [⟨0, 3, some 1⟩, ⟨2, 5, some 2⟩]) = [(0, 2, [1]), (2, 5, [2, 1])] ∧
    expectedStack [⟨0, 3, some 1⟩, ⟨2, 5, some 2⟩] 3 5 = [2] := by decide

/-! ## Order of the layers -/

/-- (same data as `unorderedInit` below) -/
def unorderedInitR : List LayerDef := [
  ⟨0, [⟨0, 8, 1, .hl (some 1)⟩, ⟨8, 16, 2, .hl (some 2)⟩]⟩,
  ⟨1, [⟨9, 14, 3, .hl (some 3)⟩]⟩,
  ⟨1, [⟨4, 5, 4, .hl (some 4)⟩]⟩]

/-- `sort_key`'s order — offset, then ends before starts, then deeper layers first — is a strict total
order. -/
theorem sort_key_order (a b c : Key) :
    (keyLt a b = true → keyLt b c = true → keyLt a c = true) ∧ (keyLt a b = true → keyLt b a = false) ∧
    (keyLt a b = true ∨ a = b ∨ keyLt b a = true) :=
  ⟨keyLt_trans, keyLt_asymm, keyLt_total a b⟩

/-- `sort_layers` restores the order when only the first layer is out of place: if `layers[1..]` is
ordered by `sort_key`, the whole list is ordered afterwards, hence its first layer has the minimal
key (the earliest boundary; an end before a start at the same offset; the deeper layer first). -/
theorem sort_layers_restores_order (l0 : MLayer) (rest : List MLayer) (hs : Sorted rest) :
    Sorted (sortLayers (l0 :: rest)) := sortLayers_sorted l0 rest hs

/-- `insert_layer` keeps `layers[1..]` ordered. -/
theorem insert_layer_keeps_order (l0 : MLayer) (rest : List MLayer) (nl : MLayer) (hs : Sorted rest) :
    ∃ rest', insertLayer (l0 :: rest) nl = l0 :: rest' ∧ Sorted rest' := insertLayer_sorted l0 rest nl hs

/-- Every iteration of `HighlightIter::next` (model `stepM`: pop / start / skip / injection with its
`insert_layer`s, each followed by `sort_layers`) leaves the layer list ordered by `sort_key` — IF it
was ordered before.  `_partial`: the hypothesis fails initially for the unchanged
`Highlighter::highlight`, see the witness. -/
theorem merge_layers_stay_ordered_partial (defs : List LayerDef) (n : Nat) (st st' : MSt) (evs : List Ev)
    (hs : Sorted st.layers) (h : stepM defs n st = .more evs st') : Sorted st'.layers :=
  stepM_keeps_sorted defs n st st' evs hs h

/-- The repaired `Highlighter::highlight` set-up (first layer, `insert_layer` for the others,
`sort_layers`; `fixes/C17-initial-layer-order.diff`, committed) yields an ordered layer list —
for ANY layers in ANY creation order. -/
theorem initial_layers_ordered (defs : List LayerDef) (top : List Nat) : Sorted (initLayersR defs top) :=
  initLayersR_sorted defs top

/-- UNCONDITIONAL for the repaired model: every state the loop reaches has a layer list ordered by
`sort_key` — so the event handled next always has the earliest offset, an end before a start at one
offset, the deeper layer first.  (For the unchanged set-up this fails: `initial_layers_unordered_witness`.) -/
theorem merge_layers_stay_ordered (defs : List LayerDef) (top : List Nat) (n k : Nat) (st' : MSt)
    (h : iterM defs n k { layers := initLayersR defs top } = some st') : Sorted st'.layers :=
  iterM_sorted defs n k _ st' (initLayersR_sorted defs top) h

/-- In the repaired multi-layer model NO EVENT IS LATE: if every layer's captures are in start
order, nested or disjoint, in nesting order, and the layers an injection creates only have captures
at or after the injecting capture (`DefsNice`), then in every state the loop reaches the layer list
is ordered by `sort_key`, every layer's end stack is sorted, and the byte offset is at most the start
of EVERY remaining capture and at most EVERY open end of EVERY layer.  So `emit_event` never finds
`byte_offset > offset`: each `HighlightStart` is emitted exactly at its capture's start, each
`HighlightEnd` exactly at its capture's end (what the unordered initial layers of the unrepaired code
violated: `initial_layers_unordered_witness` emits highlight 4 of the capture 4..5 at offset 9).
This is the ordering half of the multi-layer scope-stack statement; the stack half is OPEN. -/
theorem merge_events_in_place (defs : List LayerDef) (hn : DefsNice defs) (top : List Nat) (n k : Nat) (st' : MSt)
    (h : iterM defs n k { layers := initLayersR defs top } = some st') :
    Sorted st'.layers ∧
    ∀ l ∈ st'.layers, (∀ c ∈ l.caps, st'.off ≤ c.s) ∧ (∀ eb ∈ l.ends, st'.off ≤ eb) ∧ l.ends.Pairwise (· ≤ ·) := by
  obtain ⟨h1, h2⟩ := init_oinv defs hn top
  obtain ⟨ho, _⟩ := iterM_oinv defs hn n k _ st' h1 h2 h
  exact ⟨ho.sorted, fun l hl => ⟨(ho.linv l hl).capsGe, (ho.linv l hl).endsGe, (ho.linv l hl).endsSorted⟩⟩

/-- non-vacuity: the three-layer data satisfies `DefsNice` -/
example : DefsNice unorderedInitR := by
  refine ⟨by decide, ?_⟩
  intro d hd c hc ids hk
  simp only [unorderedInitR, List.mem_cons, List.not_mem_nil, or_false] at hd
  rcases hd with rfl | rfl | rfl <;> simp only [List.mem_cons, List.not_mem_nil, or_false] at hc
  · rcases hc with rfl | rfl <;> simp at hk
  · subst hc; simp at hk
  · subst hc; simp at hk

/-- the three layers of the old-code witness, through the repaired set-up: now ordered, and highlight 4
is opened and closed in place (4..5) -/
example : (initLayersR unorderedInitR [0, 1, 2]).map sortKey = [some (0, true, 0), some (4, true, 1), some (9, true, 1)] ∧
    (mergeLayersR unorderedInitR [0, 1, 2] 16).1 =
      [.start 1, .source 0 4, .start 4, .source 4 5, .stop, .source 5 8, .stop, .start 2, .source 8 9, .start 3,
       .source 9 14, .stop, .source 14 16, .stop] := by decide

/-- non-vacuity: an ordered list of three layers (end at 4 before start at 4, deeper first) -/
example : Sorted [⟨2, [], [4], 0⟩, ⟨1, [], [4], 1⟩, ⟨1, [⟨4, 6, 1, .hl (some 1)⟩], [], 2⟩] := by
  refine ⟨⟨(4, false, 2), rfl, ?_⟩, ⟨(4, false, 1), rfl, ?_⟩, ⟨(4, true, 1), rfl, ?_⟩, trivial⟩
  · intro y hy
    simp only [List.mem_cons, List.not_mem_nil, or_false] at hy
    rcases hy with rfl | rfl
    · exact ⟨(4, false, 1), rfl, by decide⟩
    · exact ⟨(4, true, 1), rfl, by decide⟩
  · intro y hy
    simp only [List.mem_cons, List.not_mem_nil, or_false] at hy
    subst hy
    exact ⟨(4, true, 1), rfl, by decide⟩
  · intro y hy; simp at hy

/-- Three initial layers as `HighlightIterLayer::new` returns them for a root with TWO combined
injection patterns: the second combined layer's first capture (4..5) precedes the first one's (9..14). -/
def unorderedInit : List LayerDef := [
  ⟨0, [⟨0, 8, 1, .hl (some 1)⟩, ⟨8, 16, 2, .hl (some 2)⟩]⟩,
  ⟨1, [⟨9, 14, 3, .hl (some 3)⟩]⟩,
  ⟨1, [⟨4, 5, 4, .hl (some 4)⟩]⟩]

/-- GENUINE DEFECT of the unchanged tree (reproduced on the real code: tmpl `<%= x %> hello a` with the
patterns of `zoo/tmpl/queries/injections_d.scm`): after the single `sort_layers` of
`Highlighter::highlight` the keys are `(0,start) (9,start) (4,start)` — not ordered — and highlight 4
of the capture 4..5 is opened and closed at offset 9: the byte 4..5 is not highlighted, and the span
lies outside its layer's content.  Fixed by `fixes/C17-initial-layer-order.diff`. -/
theorem initial_layers_unordered_witness :
    (sortLayers ([0, 1, 2].filterMap (mkLayer unorderedInit))).map sortKey =
      [some (0, true, 0), some (9, true, 1), some (4, true, 1)] ∧
    (mergeLayers unorderedInit [0, 1, 2] 16).1 =
      [.start 1, .source 0 8, .stop, .start 2, .source 8 9, .start 3, .start 4, .stop, .source 9 14, .stop,
       .source 14 16, .stop] := by decide

/-! ## Well-nestedness across layers -/

/-- WELL-NESTEDNESS of the merged multi-layer stream, with layers created DURING the run.
Premise `dynNice defs top` (decidable; the driver evaluates every part on every real case):
* `defsNiceD`: every layer's captures in start order, nested or disjoint, in nesting order, and the
  layers an injection capture creates only have captures at or after it;
* `refsUp`: injection captures refer to later table entries;
* `closureNodup`: each layer id is referenced at most once, from `top` or from an injection capture of
  a reachable layer (`Nodup (top.flatMap tree)`);
* `crossNice`: over the captures that can become spans (`spanCaps`), different table entries are
  laminar, and two non-empty captures starting at the same byte belong to layers of different depths
  with the SHALLOWER layer's capture not the longer one — the orientation in which the code emits
  them (deeper layer's Start first), the same test as the StackSpec judge's `startTiesOk`;
* `injTieOkP`: when an injection capture at byte `p` creates a layer that has a span capture at `p`,
  no non-empty span capture starting at `p` of a layer shallower than the new one can already be
  open — none BEFORE the injection capture in the creating layer's capture order, none in any other
  table entry (in the real code injection patterns precede highlight patterns in the combined query).
Run the repaired model and keep the GLOBAL stack of the ends of the open spans by stack discipline
(`iterG`: push the capture's end at a `HighlightStart`, pop at a `HighlightEnd`, FAIL if the top is not
the end being closed).  Then the run never fails: every `HighlightEnd` closes the most recently
opened still-open span, and that span ends exactly there; moreover the global stack is always sorted
by end (inner spans end first) and is a permutation of all layers' `highlight_end_stack`s.
Invariant (`NInv`): the ids the state owns — live ids and the trees of the pending injection
references — are distinct (an injection step moves ids from a tree to the live list, consuming
captures only removes some; counting argument); every live layer is a suffix of its table entry and
every open end belongs to a span capture in the consumed prefix; a span opened AT the current offset
has no deeper live layer with a pending span capture there.
`_partial`: each part of the premise excludes real cases (fractions in notes/C17.md); witnesses that
`crossNice` (3 parts), `injTieOkP` and `closureNodup` cannot be dropped are below. -/
theorem merge_well_nested_dynamic_partial (defs : List LayerDef) (top : List Nat) (n k : Nat) (st' : MSt)
    (hnice : dynNice defs top = true)
    (h : iterM defs n k { layers := initLayersR defs top } = some st') :
    ∃ G, iterG defs n k { layers := initLayersR defs top } [] = some (st', G) ∧
      G.Pairwise (· ≤ ·) ∧ G.Perm (allEnds st'.layers) := by
  simp only [dynNice, Bool.and_eq_true] at hnice
  obtain ⟨⟨⟨⟨h1, h2⟩, h3⟩, h4⟩, h5⟩ := hnice
  have hn := defsNice_of_D h1
  obtain ⟨ho, _⟩ := init_oinv defs hn top
  have hv := init_ninv defs h2 top (of_decide_eq_true h3)
  have hE : allEnds (initLayersR defs top) = [] := by
    have : ∀ y ∈ initLayersR defs top, y.ends = [] := by
      intro y hy
      have hmem : y ∈ top.filterMap (mkLayer defs) := by
        unfold initLayersR at hy
        cases hf : top.filterMap (mkLayer defs) with
        | nil => rw [hf] at hy; simp at hy
        | cons l0 r =>
          rw [hf] at hy
          simp only at hy
          rcases mem_fold_insertLayer r [l0] y (mem_sortLayers hy) with h | h
          · simp at h; rw [h]; exact List.mem_cons_self
          · exact List.mem_cons_of_mem _ h
      obtain ⟨id, _, hm⟩ := List.mem_filterMap.mp hmem
      obtain ⟨_, _, _, _, _, he⟩ := mkLayer_some hm
      exact he
    exact allEnds_nil_of _ this
  exact iterG_well_nested defs hn h2 h4 h5 n k _ st' [] ho hv List.Pairwise.nil (by rw [hE]) h

/-- The same for the WHOLE run of the model's top-level function: with the captures inside the source
the run of `mergeLayersR` finishes (`refsUp` is part of `dynNice`), it consists of `k` iterations and
the final step, every one of the `k` iterations passes the stack-discipline check, and the global
stack is EMPTY at the end (every span is closed, each by its own End). -/
theorem merge_well_nested_run_partial (defs : List LayerDef) (top : List Nat) (n : Nat)
    (hnice : dynNice defs top = true) (hd : defsIn n defs = true) :
    (mergeLayersR defs top n).2 = true ∧
    ∃ k st' evs, iterM defs n k { layers := initLayersR defs top } = some st' ∧ stepM defs n st' = .done evs ∧
      iterG defs n k { layers := initLayersR defs top } [] = some (st', []) := by
  have hnice' := hnice
  simp only [dynNice, Bool.and_eq_true] at hnice'
  obtain ⟨⟨⟨⟨h1, h2⟩, _⟩, _⟩, _⟩ := hnice'
  have hn := defsNice_of_D h1
  have hdo : DefsOk n defs := by
    intro d hdm c hc
    have q1 := List.all_eq_true.mp hd d hdm
    have q2 := List.all_eq_true.mp q1 c hc
    simpa using q2
  have hfin : (mergeLayersR defs top n).2 = true := by
    unfold mergeLayersR
    refine runM_fin hdo h2 _ _ ?_ (Nat.lt_succ_self _)
    unfold initLayersR
    cases hf : top.filterMap (mkLayer defs) with
    | nil => exact ⟨Nat.zero_le _, fun l hl => by simp at hl, fun l r h => by simp at h⟩
    | cons l0 r =>
      simp only
      refine sinv_sorted (Nat.zero_le _) ?_
      intro y hy
      have hmem : y ∈ top.filterMap (mkLayer defs) := by
        rw [hf]
        rcases mem_fold_insertLayer r [l0] y hy with h | h
        · simp at h; rw [h]; exact List.mem_cons_self
        · exact List.mem_cons_of_mem _ h
      obtain ⟨id, _, hm⟩ := List.mem_filterMap.mp hmem
      exact (mkLayer_ok hdo hm).2
  refine ⟨hfin, ?_⟩
  obtain ⟨k, st', evs, hk, hdone⟩ := runM_iter defs n _ _ hfin
  obtain ⟨G, hG, _, hGp⟩ := merge_well_nested_dynamic_partial defs top n k st' hnice hk
  obtain ⟨o1, o2⟩ := init_oinv defs hn top
  obtain ⟨ho', _⟩ := iterM_oinv defs hn n k _ st' o1 o2 hk
  have hnil := done_layers_nil ho' hdone
  rw [hnil] at hGp
  have : G = [] := List.Perm.eq_nil (by simpa [allEnds] using hGp)
  rw [this] at hG
  exact ⟨k, st', evs, hk, hdone, hG⟩

/-- The static special case (the statement of the previous rounds): no injection capture, distinct
top-level ids. -/
theorem merge_well_nested_partial (defs : List LayerDef) (top : List Nat) (n k : Nat) (st' : MSt)
    (hnice : staticNice defs = true) (hnd : top.Nodup)
    (h : iterM defs n k { layers := initLayersR defs top } = some st') :
    ∃ G, iterG defs n k { layers := initLayersR defs top } [] = some (st', G) ∧
      G.Pairwise (· ≤ ·) ∧ G.Perm (allEnds st'.layers) :=
  merge_well_nested_dynamic_partial defs top n k st' (dynNice_of_static hnice hnd) h

/-- non-vacuity of the dynamic premise: the root's injection capture at byte 2 creates layer 1 during
the run, whose first span starts at the same byte 2 as the root's NEXT span (the content node's own
highlight, captured after the injection capture) and ends with it (the root's span of the same range
is then skipped by `last_highlight_range`); layer 1 in turn creates layer 2.  The global stack after
0..15 iterations; the 16th step is the final one. -/
def nestedDyn : List LayerDef := [
  ⟨0, [⟨0, 12, 1, .hl (some 1)⟩, ⟨2, 8, 2, .inj [1]⟩, ⟨2, 8, 2, .hl (some 2)⟩, ⟨9, 11, 3, .hl (some 3)⟩]⟩,
  ⟨1, [⟨2, 8, 4, .hl (some 4)⟩, ⟨3, 6, 5, .inj [2]⟩, ⟨6, 7, 6, .hl (some 6)⟩]⟩,
  ⟨2, [⟨3, 4, 7, .hl (some 7)⟩, ⟨4, 6, 8, .hl (some 8)⟩]⟩]

example : dynNice nestedDyn [0] = true ∧ noInj nestedDyn = false ∧ defsIn 12 nestedDyn = true ∧
    (List.range 20).map (fun k => (iterG nestedDyn 12 k { layers := initLayersR nestedDyn [0] } []).map (·.2)) =
      [some [], some [12], some [12], some [8, 12], some [8, 12], some [8, 12], some [4, 8, 12], some [8, 12],
       some [6, 8, 12], some [8, 12], some [7, 8, 12], some [8, 12], some [12], some [11, 12], some [12], some [],
       none, none, none, none] := by decide

/-- `injTieOkP` cannot be dropped: the root opens a span at byte 0 (capture BEFORE the injection capture
in capture order), then its injection capture at byte 0 creates a deeper layer whose span at byte 0 is
longer.  All other parts of the premise hold (the tie has the judge's orientation: the shallower span
is the shorter one), but the deeper Start now comes AFTER the shallower one: stack `[10, 4]`, and the
End at 4 finds 10 on top.  (In the real code an injection pattern always has a lower pattern index
than a highlight pattern, so its capture comes first at equal start.) -/
def lateLayer : List LayerDef := [
  ⟨0, [⟨0, 4, 1, .hl (some 1)⟩, ⟨0, 2, 2, .inj [1]⟩]⟩,
  ⟨1, [⟨0, 10, 3, .hl (some 3)⟩]⟩]

theorem well_nested_needs_injTieOk :
    injTieOkP lateLayer = false ∧
    (defsNiceD lateLayer && refsUp lateLayer && closureNodup lateLayer [0] && crossNice lateLayer) = true ∧
    (iterM lateLayer 10 4 { layers := initLayersR lateLayer [0] }).isSome = true ∧
    (iterG lateLayer 10 3 { layers := initLayersR lateLayer [0] } []).map (·.2) = some [10, 4] ∧
    iterG lateLayer 10 4 { layers := initLayersR lateLayer [0] } [] = none := by decide

/-- "each layer id referenced at most once" cannot be dropped: two injection captures create the SAME
table entry twice; the two live copies have identical spans (a start tie between layers of equal depth
that `crossNice`, which compares DIFFERENT table entries, cannot see). -/
def twiceRef : List LayerDef := [
  ⟨0, [⟨0, 1, 1, .inj [1]⟩, ⟨0, 1, 2, .inj [1]⟩]⟩,
  ⟨1, [⟨2, 6, 3, .hl (some 3)⟩, ⟨2, 4, 4, .hl (some 4)⟩]⟩]

theorem well_nested_needs_closureNodup :
    closureNodup twiceRef [0] = false ∧
    (defsNiceD twiceRef && refsUp twiceRef && crossNice twiceRef && injTieOkP twiceRef) = true ∧
    (iterG twiceRef 8 20 { layers := initLayersR twiceRef [0] } []).isNone = true ∧
    (mergeLayersR twiceRef [0] 8).2 = true := by decide

/-- non-vacuity: a root layer and one combined-injection layer inside its first span; the global
stack after 0..8 iterations -/
def nestedStatic : List LayerDef := [
  ⟨0, [⟨0, 10, 1, .hl (some 1)⟩, ⟨12, 14, 3, .hl (some 3)⟩]⟩,
  ⟨1, [⟨2, 5, 2, .hl (some 2)⟩, ⟨5, 7, 4, .hl (some 4)⟩]⟩]

example : staticNice nestedStatic = true ∧
    (List.range 9).map (fun k => (iterG nestedStatic 15 k { layers := initLayersR nestedStatic [0, 1] } []).map (·.2)) =
      [some [], some [10], some [5, 10], some [10], some [7, 10], some [10], some [], some [14], some []] := by decide

/-- non-vacuity of the tie orientation: the deeper layer's span starts at the same byte as the root's
and is the longer one; and a raw tie with an unrecognised capture is no tie at all -/
def tieOriented : List LayerDef := [⟨0, [⟨0, 4, 1, .hl (some 1)⟩]⟩, ⟨1, [⟨0, 10, 2, .hl (some 2)⟩]⟩]
def tieUnrecognised : List LayerDef := [⟨0, [⟨0, 10, 1, .hl (some 1)⟩]⟩, ⟨1, [⟨0, 4, 2, .hl none⟩, ⟨5, 6, 3, .hl (some 3)⟩]⟩]

example : staticNice tieOriented = true ∧ staticNice tieUnrecognised = true ∧
    (List.range 5).map (fun k => (iterG tieOriented 10 k { layers := initLayersR tieOriented [0, 1] } []).map (·.2)) =
      [some [], some [10], some [4, 10], some [10], some []] := by decide

/-- `crossNice` cannot be dropped (1): a START TIE where the shallower layer's span is the longer one.
The deeper layer's Start is emitted first, so the stack is `[10, 4]`, and the End emitted at 4 finds
the span ending at 10 on top: the ghost run fails at the third iteration although the loop goes on
(the unchanged code does exactly this on real streams: the judge reports such cases as
`skip-start-tie`). -/
def tieStatic : List LayerDef := [⟨0, [⟨0, 10, 1, .hl (some 1)⟩]⟩, ⟨1, [⟨0, 4, 2, .hl (some 2)⟩]⟩]

theorem well_nested_needs_crossNice :
    crossNice tieStatic = false ∧
    (iterM tieStatic 10 3 { layers := initLayersR tieStatic [0, 1] }).isSome = true ∧
    (iterG tieStatic 10 2 { layers := initLayersR tieStatic [0, 1] } []).map (·.2) = some [10, 4] ∧
    iterG tieStatic 10 3 { layers := initLayersR tieStatic [0, 1] } [] = none := by decide

/-- (2) laminarity cannot be dropped: spans of two layers that cross. -/
def crossingStatic : List LayerDef := [⟨0, [⟨0, 6, 1, .hl (some 1)⟩]⟩, ⟨1, [⟨3, 9, 2, .hl (some 2)⟩]⟩]

theorem well_nested_needs_laminar :
    crossLam crossingStatic = false ∧ crossNice crossingStatic = false ∧
    (iterM crossingStatic 10 3 { layers := initLayersR crossingStatic [0, 1] }).isSome = true ∧
    (iterG crossingStatic 10 2 { layers := initLayersR crossingStatic [0, 1] } []).map (·.2) = some [9, 6] ∧
    iterG crossingStatic 10 3 { layers := initLayersR crossingStatic [0, 1] } [] = none := by decide

/-- (3) a start tie between two layers of the SAME depth (two combined injections) is excluded: the
order of the two Starts is the insertion order, which the spans' lengths do not determine. -/
def equalDepthTie : List LayerDef := [⟨1, [⟨0, 4, 1, .hl (some 1)⟩]⟩, ⟨1, [⟨0, 10, 2, .hl (some 2)⟩]⟩]

theorem well_nested_equal_depth_tie :
    crossLam equalDepthTie = true ∧ crossNice equalDepthTie = false ∧
    (iterG equalDepthTie 10 2 { layers := initLayersR equalDepthTie [0, 1] } []).map (·.2) = some [10, 4] ∧
    iterG equalDepthTie 10 3 { layers := initLayersR equalDepthTie [0, 1] } [] = none := by decide

/-! ## Several layers -/

/-- For EVERY family of layers (any depths, any raw capture sequences inside the source, any
injection structure) the multi-layer merge — `sort_key` ties, `sort_layers` rotation, `insert_layer`,
`last_highlight_range` — yields a well-formed stream, provided the run finishes within its fuel.
`_partial`: (i) the finishing hypothesis (the driver reports `fin` for every real case; it fails only
for cyclic layer references, which real layer data never has — witness below); (ii) configurations
without a locals query.  OPEN: finishing for acyclic layer data; the locals branch. -/
theorem merge_multi_wellformed_partial (defs : List LayerDef) (top : List Nat) (n : Nat)
    (hd : defsIn n defs = true) (hfin : (mergeLayers defs top n).2 = true) :
    judgeEvents n (mergeLayers defs top n).1 = true := by
  have hdo : DefsOk n defs := by
    intro d hdm c hc
    have h1 := List.all_eq_true.mp hd d hdm
    have h2 := List.all_eq_true.mp h1 c hc
    simpa using h2
  have hinit : ∀ (ids : List Nat), totalEnds (ids.filterMap (mkLayer defs)) = 0 ∧
      ∀ l ∈ ids.filterMap (mkLayer defs), LayerOk n l := by
    intro ids
    induction ids with
    | nil => exact ⟨rfl, fun _ h => by simp at h⟩
    | cons id r ih =>
      cases hm : mkLayer defs id with
      | none => simpa [List.filterMap_cons, hm] using ih
      | some nl =>
        obtain ⟨he, hok⟩ := mkLayer_ok hdo hm
        simp only [List.filterMap_cons, hm]
        refine ⟨by simp [totalEnds, he, ih.1], ?_⟩
        intro l hl
        rcases List.mem_cons.mp hl with rfl | hl
        · exact hok
        · exact ih.2 l hl
  unfold mergeLayers at hfin ⊢
  have hs : SInv n { layers := sortLayers (top.filterMap (mkLayer defs)) } :=
    sinv_sorted (Nat.zero_le _) (hinit top).2
  have := runM_wf hdo _ _ hs hfin
  simp only [totalEnds_sortLayers, (hinit top).1] at this
  exact this

/-- non-vacuity: an injected layer (depth 1) inside the root's span, same-range dedup across
layers (`last_highlight_range`), collapsed patterns of one node -/
def exLayers : List LayerDef := [
  ⟨0, [⟨0, 6, 1, .hl (some 1)⟩, ⟨1, 4, 2, .inj [1]⟩, ⟨1, 4, 2, .hl (some 2)⟩, ⟨4, 6, 3, .hl none⟩, ⟨4, 6, 3, .hl (some 3)⟩]⟩,
  ⟨1, [⟨1, 4, 9, .hl (some 5)⟩, ⟨2, 3, 10, .hl (some 6)⟩]⟩]

/-- The multi-layer merge TERMINATES and yields a well-formed stream, for every layer table whose
capture offsets lie inside the source and whose injection captures refer only to layers with a
larger id (the table is a forest in creation order; the driver checks `refsUp` and `defsIn` on
every real case).  Termination measure: `sumW (layerW defs)` — 2 per remaining capture (+ the
weight of the layers an injection capture creates) + 1 per open highlight end; every iteration of
the loop decreases it (`step_mu`), and `mergeLayers` runs with exactly that much fuel.
Remaining restriction (of the MODEL, not a hypothesis): configurations without a locals query. -/
theorem merge_multi_wellformed (defs : List LayerDef) (top : List Nat) (n : Nat)
    (hd : defsIn n defs = true) (hr : refsUp defs = true) :
    (mergeLayers defs top n).2 = true ∧ judgeEvents n (mergeLayers defs top n).1 = true := by
  have hfin : (mergeLayers defs top n).2 = true := by
    have hdo : DefsOk n defs := by
      intro d hdm c hc
      have h1 := List.all_eq_true.mp hd d hdm
      have h2 := List.all_eq_true.mp h1 c hc
      simpa using h2
    have hlay : ∀ (ids : List Nat), ∀ l ∈ ids.filterMap (mkLayer defs), LayerOk n l := by
      intro ids l hl
      obtain ⟨id, _, hm⟩ := List.mem_filterMap.mp hl
      exact (mkLayer_ok hdo hm).2
    unfold mergeLayers
    exact runM_fin hdo hr _ _ (sinv_sorted (Nat.zero_le _) (hlay top)) (Nat.lt_succ_self _)
  exact ⟨hfin, merge_multi_wellformed_partial defs top n hd hfin⟩

example : refsUp exLayers = true ∧ defsIn 7 exLayers = true := by decide

/-- `refsUp` cannot be dropped: a layer whose injection re-creates itself does not finish and leaves
the stream unclosed. -/
example : refsUp [⟨0, [⟨0, 1, 7, .inj [0]⟩]⟩] = false ∧
    (mergeLayers [⟨0, [⟨0, 1, 7, .inj [0]⟩]⟩] [0] 1).2 = false := by decide

example : defsIn 7 exLayers = true ∧ mergeLayers exLayers [0] 7 =
    ([.start 1, .source 0 1, .start 5, .source 1 2, .start 6, .source 2 3, .stop, .source 3 4, .stop,
      .start 3, .source 4 6, .stop, .stop, .source 6 7], true) := by decide

/-- The finishing hypothesis cannot be dropped: a layer whose injection re-creates itself never ends. -/
example : (mergeLayers [⟨0, [⟨0, 1, 7, .inj [0]⟩]⟩] [0] 1).2 = false ∧
    judgeEvents 1 (mergeLayers [⟨0, [⟨0, 1, 7, .inj [0]⟩]⟩] [0] 1).1 = false := by decide

/-! ## End-to-end model: layers, locals and the model's own injection step -/

/-- The end-to-end model of `HighlightIter::next` (`Full.lean`: layer ordering, per-layer scope
stacks and local definitions/references, `injection_for_match`, `intersect_ranges`, lookup of the
layers `HighlightIterLayer::new` returns) TERMINATES and yields a well-formed stream, for every
context whose capture offsets lie inside the source and whose injections create only layers with a
larger id (the driver checks both on every real case). -/
theorem merge_full_wellformed (cx : Full.Ctx) (top : List Nat) (n : Nat)
    (hd : Full.defsIn n cx = true) (hr : Full.refsUp cx = true) :
    (Full.mergeFull cx top n).2 = true ∧ judgeEvents n (Full.mergeFull cx top n).1 = true :=
  Full.mergeFull_ok cx top n hd hr

/-- `injection_for_match`: a language captured from the source wins over every property; among the
properties the first of `injection.language` / `injection.self` / `injection.parent` wins. -/
theorem injection_language_captured (cfgLang : Nat) (parent : Option Nat) (nm : Nat) (content : Option INode)
    (props : List Full.IProp) :
    (Full.injectionForMatch cfgLang parent ⟨some nm, content, props⟩).1 = some nm := by
  unfold Full.injectionForMatch
  simp only
  have key : ∀ (ps : List Full.IProp) (b : Bool), ((ps.foldl (fun (acc : Option Nat × Bool) p =>
      match p with
      | .lang n => if acc.1.isNone then (some n, acc.2) else acc
      | .self => if acc.1.isNone then (some cfgLang, acc.2) else acc
      | .parent => if acc.1.isNone then (parent, acc.2) else acc
      | .inclChildren => (acc.1, true)
      | .other => acc) (some nm, b))).1 = some nm := by
    intro ps
    induction ps with
    | nil => intro b; rfl
    | cons p r ih =>
      intro b
      cases p <;> simp only [List.foldl_cons, Option.isNone_some, Bool.false_eq_true, ↓reduceIte] <;> exact ih _
  exact key props false

/-- non-vacuity: a host layer with a definition, a reference and an injection by node text whose
content (minus its one child) becomes a stmt layer found in the `new` table. -/
def exCtx : Full.Ctx :=
  { defs := [⟨2, 0, [(0, 18446744073709551615)],
              [⟨0, 1, 1, .defn 7 0 true⟩, ⟨0, 1, 1, .hl (some 4) false⟩,
               ⟨2, 3, 2, .inj ⟨some 0, some ⟨4, 9, [(6, 7)]⟩, []⟩⟩,
               ⟨10, 11, 3, .ref 7 true⟩, ⟨10, 11, 3, .hl (some 5) true⟩]⟩,
             ⟨0, 1, [(4, 6), (7, 9)], [⟨4, 5, 9, .hl (some 1) false⟩, ⟨7, 9, 8, .hl (some 2) false⟩]⟩],
    news := [⟨0, 1, [(4, 6), (7, 9)], [1]⟩], nKnown := 3, rootLang := 2 }

example : Full.defsIn 12 exCtx = true ∧ Full.refsUp exCtx = true ∧
    Full.mergeFull exCtx [0] 12 =
      ([.start 4, .source 0 1, .stop, .source 1 4, .start 1, .source 4 5, .stop, .source 5 7, .start 2,
        .source 7 9, .stop, .source 9 10, .start 4, .source 10 11, .stop, .source 11 12], true) := by decide

/-! ## Injection content ranges -/

/-- Every range computed by `intersect_ranges` — for ANY parent ranges, nodes and children (no
ordering assumption) — is non-empty, lies inside one of the parent layer's ranges, and lies inside
one gap of one content node (the stretch between two consecutive excluded ranges). -/
theorem intersect_ranges_spec (parents : List Rg) (nodes : List INode) (incl : Bool) :
    ∀ r ∈ intersectRanges parents nodes incl,
      r.1 < r.2 ∧ (∃ p ∈ parents, p.1 ≤ r.1 ∧ r.2 ≤ p.2) ∧
      (∃ g ∈ allGaps incl nodes, g.1 ≤ r.1 ∧ r.2 ≤ g.2) := by
  unfold intersectRanges
  cases parents with
  | nil => intro r hr; simp at hr
  | cons p ps =>
    exact irNodes_ok incl nodes p ps [] (fun g hg => hg) (List.mem_cons_self)
      (fun x hx => List.mem_cons_of_mem _ hx) (fun r hr => by simp at hr)

/-- `injected_inside` for the content ranges: when every content node has its children in order
inside it (true of syntax nodes), each content range lies inside the parent layer, inside a content
node, and — without `include-children` — is disjoint from every child of that node.  So a layer
created for these ranges is parsed only over text of the injection's content. -/
theorem injected_content_inside (parents : List Rg) (nodes : List INode) (incl : Bool)
    (hn : ∀ nd ∈ nodes, chainOk nd.s nd.e nd.children) :
    ∀ r ∈ intersectRanges parents nodes incl,
      (∃ p ∈ parents, p.1 ≤ r.1 ∧ r.2 ≤ p.2) ∧
      ∃ nd ∈ nodes, nd.s ≤ r.1 ∧ r.2 ≤ nd.e ∧
        (incl = false → ∀ c ∈ nd.children, c.2 ≤ r.1 ∨ r.2 ≤ c.1) := by
  intro r hr
  obtain ⟨hne, hp, g, hg, hg1, hg2⟩ := intersect_ranges_spec parents nodes incl r hr
  refine ⟨hp, ?_⟩
  obtain ⟨nd, hnd, hgn⟩ := List.mem_flatMap.mp hg
  refine ⟨nd, hnd, ?_⟩
  cases incl with
  | true =>
    have hch : chainOk nd.s nd.e [] := chainOk_le (hn nd hnd)
    have := gaps_chain hch g (by simpa [exclOf] using hgn)
    exact ⟨by omega, by omega, fun h => by simp at h⟩
  | false =>
    have := gaps_chain (hn nd hnd) g (by simpa [exclOf] using hgn)
    refine ⟨by omega, by omega, fun _ c hc => ?_⟩
    rcases this.2.2 c hc with h | h
    · exact Or.inl (by omega)
    · exact Or.inr (by omega)

/-- non-vacuity: two parent ranges, one node with two children, children excluded -/
example : intersectRanges [(0, 10), (14, 30)] [⟨2, 25, [(4, 6), (16, 18)]⟩] false
      = [(2, 4), (6, 10), (14, 16), (18, 25)] ∧
    chainOk 2 25 [(4, 6), (16, 18)] := by
  refine ⟨by decide, ?_⟩
  simp [chainOk]

/-! ## Local references -/

/-- Within a scope the NEWEST definition of the name whose value ends at or before the reference is
the one that counts. -/
theorem findDef_newest (name s : Nat) (pre post : List LDef) (d : LDef)
    (hpre : ∀ x ∈ pre, ¬ (x.name = name ∧ s ≥ x.valueEnd)) (hd : d.name = name ∧ s ≥ d.valueEnd) :
    findDef name s (pre ++ d :: post) = some d.hl := by
  induction pre with
  | nil => simp [findDef, hd]
  | cons x r ih =>
    have hx := hpre x (List.mem_cons_self)
    simp only [List.cons_append, findDef, if_neg hx]
    exact ih (fun y hy => hpre y (List.mem_cons_of_mem _ hy))

/-- A name resolved as a local reference is highlighted like its definition: if the scopes between
the reference and the defining scope all inherit and contain no admissible definition of the name,
and the defining scope's newest admissible definition carries highlight `h`, then processing the
`@local.reference` capture sets `reference_highlight` to `h` (the `HighlightStart` then carries
`reference_highlight.or(current_highlight)`).  Holds for any scopes below. -/
theorem local_ref_like_def (name s e node : Nat) (above below : List LScope) (sc : LScope) (h : Option Nat)
    (r : LRun) (hr : r.scopes = above ++ sc :: below) (hnd : r.defP = false)
    (habove : ∀ a ∈ above, a.inherits = true ∧ findDef name s a.defs = none)
    (hsc : findDef name s sc.defs = some h) :
    (applyLocal r ⟨s, e, node, .ref name true⟩).refHl = h := by
  have key : ∀ (above : List LScope), (∀ a ∈ above, a.inherits = true ∧ findDef name s a.defs = none) →
      applyLocal.refFound name s (above ++ sc :: below) = some h := by
    intro above
    induction above with
    | nil => intro _; simp [applyLocal.refFound, hsc]
    | cons a rest ih =>
      intro ha
      have h1 := ha a (List.mem_cons_self)
      simp only [List.cons_append, applyLocal.refFound, h1.2, h1.1, if_true]
      exact ih (fun x hx => ha x (List.mem_cons_of_mem _ hx))
  simp only [applyLocal, hnd, Bool.false_eq_true, if_false, if_true, hr, key above habove, Option.getD_some]

/-- non-vacuity: `x` defined in the outer block (highlight 7), referenced two inheriting scopes deeper;
a non-inheriting scope in between hides it. -/
example :
    (applyLocal { scopes := [⟨true, 90, []⟩, ⟨true, 95, [⟨1, 20, some 3⟩]⟩, ⟨true, 99, [⟨0, 12, some 7⟩, ⟨0, 5, some 2⟩]⟩],
                  refHl := none, defP := false } ⟨30, 31, 5, .ref 0 true⟩).refHl = some 7 ∧
    (applyLocal { scopes := [⟨true, 90, []⟩, ⟨false, 95, []⟩, ⟨true, 99, [⟨0, 12, some 7⟩]⟩],
                  refHl := none, defP := false } ⟨30, 31, 5, .ref 0 true⟩).refHl = none := by decide

end TsVerif.C17
