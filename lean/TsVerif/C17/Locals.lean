import TsVerif.C17.Merge
/-!
# C17 model of the local-variable branch of `HighlightIter::next` (one layer)

Code-shaped port, for ONE layer without injections, of the part of `HighlightIter::next` that
tracks local scopes, definitions and references (`scope_stack`, `LocalScope`, `LocalDef`,
`reference_highlight`, `definition_highlight`, `non_local_variable_patterns`) on top of the
single-layer merge of `Merge.lean`.  A raw capture (`LCap`) is classified as the code does: by the
pattern range first (locals patterns vs highlight patterns), then by the capture name.
Names are interned to numbers by the harness (`nameOk = false` when the node text is not UTF-8,
in which case the code ignores the definition / reference).
-/
namespace TsVerif.C17

inductive LKind where
  | scope (inherits : Bool)
  | defn (name valueEnd : Nat) (nameOk : Bool)
  | ref (name : Nat) (nameOk : Bool)
  | other
  | hl (h : Option Nat) (nonLocal : Bool)
  deriving Repr

structure LCap where
  s : Nat
  e : Nat
  node : Nat
  kind : LKind
  deriving Repr

/-- `LocalDef` -/
structure LDef where
  name : Nat
  valueEnd : Nat
  hl : Option Nat
  deriving Repr

/-- `LocalScope`; `defs` newest first. -/
structure LScope where
  inherits : Bool
  re : Nat
  defs : List LDef
  deriving Repr

/-- `usize::MAX` (end of the root scope). -/
def usizeMax : Nat := 18446744073709551615

/-- `while range.start > scope_stack.last().range.end { pop }` -/
def popScopes (s : Nat) : List LScope → List LScope
  | [] => []
  | sc :: r => if s > sc.re then popScopes s r else sc :: r

/-- `scope.local_defs.iter().rev().find_map(…)`: the newest definition of that name whose value
ends at or before the reference; yields its (possibly absent) highlight. -/
def findDef (name s : Nat) : List LDef → Option (Option Nat)
  | [] => none
  | d :: r => if d.name = name ∧ s ≥ d.valueEnd then some d.hl else findDef name s r

/-- The reference lookup: innermost scope first; stop at a scope that does not inherit. -/
def lookupRef (name s : Nat) : List LScope → Option Nat
  | [] => none
  | sc :: r =>
    match findDef name s sc.defs with
    | some h => h
    | none => if sc.inherits then lookupRef name s r else none

/-- State of the locals loop for one node: scope stack, `reference_highlight`, whether
`definition_highlight` points at the newest definition of the top scope. -/
structure LRun where
  scopes : List LScope
  refHl : Option Nat
  defP : Bool
  deriving Repr

/-- One locals-pattern capture. -/
def applyLocal (r : LRun) (c : LCap) : LRun :=
  match c.kind with
  | .scope inh => { r with defP := false, scopes := { inherits := inh, re := c.e, defs := [] } :: r.scopes }
  | .defn name ve ok =>
    if ok then
      match r.scopes with
      | sc :: rest => { scopes := { sc with defs := { name := name, valueEnd := ve, hl := none } :: sc.defs } :: rest,
                        refHl := none, defP := true }
      | [] => { r with refHl := none, defP := false }
    else { r with refHl := none, defP := false }
  | .ref name ok =>
    if r.defP then r
    else if ok then
      -- `reference_highlight` is only overwritten when a definition is found
      match r.scopes with
      | _ => { r with refHl := (refFound name c.s r.scopes).getD r.refHl }
    else r
  | _ => r
where
  /-- like `lookupRef`, but distinguishing "found a definition without highlight" (`some none`) -/
  refFound (name s : Nat) : List LScope → Option (Option Nat)
    | [] => none
    | sc :: rest =>
      match findDef name s sc.defs with
      | some h => some h
      | none => if sc.inherits then refFound name s rest else none

/-- The `while match_.pattern_index < highlights_pattern_index` loop over the captures of one node:
returns the highlight capture of that node it stops at (if any) and the remaining captures. -/
def localsRun (r : LRun) (c : LCap) (rest : List LCap) : LRun × Option LCap × List LCap :=
  match c.kind with
  | .hl _ _ => (r, some c, rest)
  | _ =>
    let r' := applyLocal r c
    match rest with
    | nx :: rest' => if nx.node = c.node then localsRun r' nx rest' else (r', none, rest)
    | [] => (r', none, [])

/-- Later highlight patterns of the same node: the last one wins, except that a pattern disabled
for local variables (`#is-not? local`) is skipped when the node is a local definition/reference. -/
def collapseL (isLocal : Bool) (node : Nat) (h : Option Nat) : List LCap → Option Nat × List LCap
  | [] => (h, [])
  | c :: r =>
    if c.node = node then
      match c.kind with
      | .hl h' nl => if isLocal && nl then collapseL isLocal node h r else collapseL isLocal node h' r
      | _ => collapseL isLocal node none r
    else (h, c :: r)

/-- `*definition_highlight = current_highlight` -/
def setDefHl (h : Option Nat) : List LScope → List LScope
  | { inherits := i, re := e, defs := d :: ds } :: rest => { inherits := i, re := e, defs := { d with hl := h } :: ds } :: rest
  | s => s

def mergeLGo (n : Nat) : Nat → Nat → List Nat → List LScope → List LCap → List Ev
  | 0, _, _, _, _ => []
  | fuel + 1, off, ends, scopes, caps =>
    match caps, ends with
    | [], [] => if off < n then [.source off n] else []
    | [], eb :: ends' => emitEv off eb .stop ++ mergeLGo n fuel (max off eb) ends' scopes []
    | c :: rest, ends =>
      match (match ends with | eb :: ends' => if eb ≤ c.s then some (eb, ends') else none | [] => none) with
      | some (eb, ends') => emitEv off eb .stop ++ mergeLGo n fuel (max off eb) ends' scopes (c :: rest)
      | none =>
        let run := localsRun { scopes := popScopes c.s scopes, refHl := none, defP := false } c rest
        match run.2.1 with
        | none => mergeLGo n fuel off ends run.1.scopes run.2.2
        | some hc =>
          let h0 := match hc.kind with | .hl h _ => h | _ => none
          let col := collapseL (run.1.defP || run.1.refHl.isSome) hc.node h0 run.2.2
          let scopes' := if run.1.defP then setDefHl col.1 run.1.scopes else run.1.scopes
          match run.1.refHl.or col.1 with
          | some hh => emitEv off c.s (.start hh) ++ mergeLGo n fuel (max off c.s) (c.e :: ends) scopes' col.2
          | none => mergeLGo n fuel off ends scopes' col.2

/-- Single layer with a locals query. -/
def mergeLocals (n : Nat) (caps : List LCap) : List Ev :=
  mergeLGo n (2 * caps.length + 2) 0 [] [{ inherits := false, re := usizeMax, defs := [] }] caps

end TsVerif.C17
