import TsVerif.C17.Model
/-!
# C17 judges, evaluated on the implementation's outputs (and used in the theorems)

* `judgeEvents n evs` — clause 1 of the property: `Source` spans contiguous, increasing, covering
  `[0,n)` exactly once; `Start`/`End` properly nested, never negative, all closed (`wellFormed`).
* `judgeInjected` — clause 2: every span of an injected language lies inside the content ranges of
  one injection of that language.
* `judgeHtml dec evs src html` — clause 3: the HTML with tags removed and entities decoded is the
  normalised source text (`textOf`: chunks decoded by `dec`, carriage returns dropped) followed by
  the final newline the renderer adds; the newline may be omitted only if the text already ends
  with one.  With `dec = lossySpec` this is the property's statement; with `dec = lossy` it is what
  the unchanged code achieves.
* `judgeLocals` — clause 4: a reference resolved to a definition is highlighted like it.
-/
namespace TsVerif.C17

def judgeEvents (n : Nat) (evs : List Ev) : Bool := wellFormed n evs

def judgeHtml (dec : Bytes → Bytes) (evs : List Ev) (src : Bytes) (html : Bytes) : Bool :=
  let t := textOf dec evs src
  let x := htmlText html
  x == t ++ [10] || (x == t && t.getLast? == some 10)

/-- Highlight spans `(start, end, highlight)` of a stream, in order of their `End` events;
`pos` = end of the last `Source`, `stack` = open spans (innermost first). -/
def spansFrom : Nat → List (Nat × Nat) → List Ev → List (Nat × Nat × Nat)
  | _, _, [] => []
  | _, stack, .source _ e :: r => spansFrom e stack r
  | pos, stack, .start h :: r => spansFrom pos ((pos, h) :: stack) r
  | pos, stack, .stop :: r =>
    match stack with
    | [] => spansFrom pos [] r
    | (a, h) :: st => (a, pos, h) :: spansFrom pos st r

def spans (evs : List Ev) : List (Nat × Nat × Nat) := spansFrom 0 [] evs

/-- One injection: language id and content ranges. -/
structure Inj where
  lang : Nat
  ranges : List (Nat × Nat)
  deriving Repr

def inRanges (R : List (Nat × Nat)) (a b : Nat) : Bool :=
  (R.any fun (s, e) => (s ≤ a && a < e) || (a == b && s ≤ a && a ≤ e)) &&
  (R.any fun (s, e) => (s < b && b ≤ e) || (a == b && s ≤ b && b ≤ e))

/-- `langOf h` = language id of highlight `h` (0 = the root language, exempt). -/
def judgeInjected (langOf : Nat → Nat) (injs : List Inj) (evs : List Ev) : Bool :=
  (spans evs).all fun (a, b, h) =>
    langOf h == 0 || injs.any fun i => i.lang == langOf h && inRanges i.ranges a b

/-- Innermost highlight whose span is exactly `[a,b)`, if any (the last `Start` at `a` whose `End` is at `b`). -/
def highlightOfRange (sp : List (Nat × Nat × Nat)) (a b : Nat) : Option Nat :=
  (sp.find? fun (s, e, _) => s == a && e == b).map fun (_, _, h) => h

/-- A resolved local reference `(refStart, refEnd, defStart, defEnd)` must carry the definition's
highlight (both taken as the innermost highlight of exactly that range; a definition without a
highlight imposes nothing). -/
def judgeLocals (pairs : List (Nat × Nat × Nat × Nat)) (evs : List Ev) : Bool :=
  let sp := spans evs
  pairs.all fun (rs, re, ds, de) =>
    match highlightOfRange sp ds de with
    | none => true
    | some h => highlightOfRange sp rs re == some h

end TsVerif.C17
