import TsVerif.C17.Model
/-!
# C17 judges, evaluated on the implementation's outputs (and used in the theorems)

* `judgeEvents n evs` — clause 1 of the property: `Source` spans contiguous, increasing, covering
  `[0,n)` exactly once; `Start`/`End` properly nested, never negative, all closed (`wellFormed`).
* `judgeInjected` — clause 2: every span of an injected language lies inside the content ranges of
  one injection of that language.
* `judgeHtml dec evs src html` — clause 3: the HTML with tags removed and entities decoded is the
  normalised source text (`textOf`: chunks decoded by `dec`, carriage returns dropped) followed by
  the final newline the renderer adds; the newline may be omitted only if the text already ends
  with one.  With `dec = lossySpec` this is the property's statement; with `dec = lossy` it is what
  the unchanged code achieves.
* `judgeLocals` — clause 4: a reference resolved to a definition is highlighted like it.
-/
namespace TsVerif.C17

def judgeEvents (n : Nat) (evs : List Ev) : Bool := wellFormed n evs

def judgeHtml (dec : Bytes → Bytes) (evs : List Ev) (src : Bytes) (html : Bytes) : Bool :=
  let t := textOf dec evs src
  let x := htmlText html
  x == t ++ [10] || (x == t && t.getLast? == some 10)

/-- Highlight spans `(start, end, highlight)` of a stream, in order of their `End` events;
`pos` = end of the last `Source`, `stack` = open spans (innermost first). -/
def spansFrom : Nat → List (Nat × Nat) → List Ev → List (Nat × Nat × Nat)
  | _, _, [] => []
  | _, stack, .source _ e :: r => spansFrom e stack r
  | pos, stack, .start h :: r => spansFrom pos ((pos, h) :: stack) r
  | pos, stack, .stop :: r =>
    match stack with
    | [] => spansFrom pos [] r
    | (a, h) :: st => (a, pos, h) :: spansFrom pos st r

def spans (evs : List Ev) : List (Nat × Nat × Nat) := spansFrom 0 [] evs

/-- One injection: language id and content ranges. -/
structure Inj where
  lang : Nat
  ranges : List (Nat × Nat)
  deriving Repr

/-- Is there an `End` before the next `Source`?  (Then a span opened here may be zero-width.) -/
def stopBeforeSource : List Ev → Bool
  | [] => false
  | .source _ _ :: _ => false
  | .stop :: _ => true
  | .start _ :: r => stopBeforeSource r

/-- `(position, highlight, mayBeZeroWidth)` of every `Start` event, in stream order (position = end
of the last `Source`). -/
def startsFrom : Nat → List Ev → List (Nat × Nat × Bool)
  | _, [] => []
  | _, .source _ e :: r => startsFrom e r
  | pos, .start h :: r => (pos, h, stopBeforeSource r) :: startsFrom pos r
  | pos, .stop :: r => startsFrom pos r

def starts (evs : List Ev) : List (Nat × Nat × Bool) := startsFrom 0 evs

/-- Clause 2.  `langOf h` = language id of highlight `h` (0 = the root language, exempt).  Every
span of an injected language must START inside a content range `[s,e)` of an injection of that
language; a start exactly at `e` is accepted only for a possibly zero-width span (a MISSING token
inserted by error recovery at the end of the content).
(Only starts are attributable: `End` events carry no highlight, and spans of different layers may
overlap improperly with combined injections, so an `End` cannot be matched to its `Start`.) -/
def judgeInjected (langOf : Nat → Nat) (injs : List Inj) (evs : List Ev) : Bool :=
  (starts evs).all fun (a, h, zw) =>
    langOf h == 0 || injs.any fun i => i.lang == langOf h &&
      i.ranges.any fun (s, e) => s ≤ a && (a < e || (zw && a == e))

/-- The last highlight started at position `p` (the innermost one of the shallowest layer). -/
def lastStartAt (st : List (Nat × Nat × Bool)) (p : Nat) : Option Nat :=
  ((st.filter fun x => x.1 == p).getLast?).map (·.2.1)

/-- All highlights started at position `p`. -/
def startsAt (st : List (Nat × Nat × Bool)) (p : Nat) : List Nat :=
  (st.filter fun x => x.1 == p).map (·.2.1)

/-- Clause 4.  A resolved local reference `(refStart, refEnd, defStart, defEnd)` of the root layer
must carry the definition's highlight.  `Start` events are not attributable to nodes (a node that
begins at the same byte — an enclosing call, an injected layer — also starts there, in an order that
depends on when its match completes), so the judge requires that a highlight started at the
reference's first byte is one of those started at the definition's first byte (a definition
without any highlight imposes nothing).  Exact agreement is checked by the correspondence with the
locals models. -/
def judgeLocals (pairs : List (Nat × Nat × Nat × Nat)) (evs : List Ev) : Bool :=
  let st := starts evs
  pairs.all fun (rs, _, ds, _) =>
    let dh := startsAt st ds
    dh.isEmpty || (startsAt st rs).any fun h => dh.contains h

/-- What a CANCELLED run may have emitted: a prefix of a well-formed stream — `Source` spans
contiguous from `pos`, non-empty, never past `n`; `End` never without an open `Start`. -/
def prefixOkFrom (n : Nat) : Nat → Nat → List Ev → Bool
  | _, _, [] => true
  | pos, depth, .source s e :: r => s == pos && s < e && e ≤ n && prefixOkFrom n e depth r
  | pos, depth, .start _ :: r => prefixOkFrom n pos (depth + 1) r
  | pos, depth, .stop :: r => depth > 0 && prefixOkFrom n pos (depth - 1) r

def judgePrefix (n : Nat) (evs : List Ev) : Bool := prefixOkFrom n 0 0 evs

end TsVerif.C17
