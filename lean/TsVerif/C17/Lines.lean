import TsVerif.C17.Judge
/-!
# C17 — the PER-LINE view of the renderer's output (`HtmlRenderer::lines()` / `line_offsets`)

Judge clauses on real output (html bytes + `line_offsets`), computed from the event stream, the
source and the tag syntax only (not from the port of `add_text`):

* `offsets`   — `line_offsets` starts with 0, is strictly increasing, stays inside the html, and is
                EXACTLY the list of line starts of the html (0 and the byte after every newline
                except a final one): so every offset is the start of a line, no line start is
                missing, and `lines()` concatenates to the whole html;
* `line-newline` — every line ends with a newline;
* `line-tags` — in every line the tags are balanced and properly nested (no cut tag, no End without
                Start, everything opened in the line is closed in it)              [balanced streams];
* `line-reopen` — at the k-th newline of the text the spans open there are closed before the newline
                and re-opened, in order, at the start of the next line                [balanced streams];
* `line-text` — tags removed, entities decoded, the text of line i is line i of the normalised
                source: CR of CRLF dropped; a lone CR (not followed by LF) dropped, or — when a
                carriage-return highlight is configured — replaced by the marker `<span ATTR></span>`
                at its place.
-/
namespace TsVerif.C17

inductive Tok where
  | opn (attr : Bytes)
  | cls
  | txt (c : Nat)
  | bad
  deriving Repr, DecidableEq

/-- Tokens of an html fragment; a tag that is not terminated inside the fragment gives `bad`. -/
def tokGo : Option (Bool × Bytes) → Bytes → List Tok
  | none, [] => []
  | some _, [] => [.bad]
  | none, c :: r => if c = 60 then tokGo (some (false, [])) r else .txt c :: tokGo none r
  | some (cl, acc), c :: r =>
    if c = 62 then (if cl then Tok.cls else Tok.opn (acc.reverse.drop 5)) :: tokGo none r
    else if c = 47 && acc.isEmpty && !cl then tokGo (some (true, [])) r
    else tokGo (some (cl, c :: acc)) r

def toks (bs : Bytes) : List Tok := tokGo none bs

/-- balanced and properly nested -/
def balancedGo : Nat → List Tok → Bool
  | d, [] => d == 0
  | d, .opn _ :: r => balancedGo (d + 1) r
  | d, .cls :: r => d != 0 && balancedGo (d - 1) r
  | d, .txt _ :: r => balancedGo d r
  | _, .bad :: _ => false

/-- the text bytes of a token list; an empty span with the carriage-return attribute counts as a CR -/
def markTxt (crAttr : Option Bytes) : List Tok → Bytes
  | [] => []
  | .txt c :: r => c :: markTxt crAttr r
  | .opn a :: .cls :: r => (if crAttr == some a then [13] else []) ++ markTxt crAttr r
  | _ :: r => markTxt crAttr r

def lineText (crAttr : Option Bytes) (line : Bytes) : Bytes := unescape (markTxt crAttr (toks line))

/-- html[a..b) -/
def cut (html : Bytes) (a b : Nat) : Bytes := (html.drop a).take (b - a)

/-- `HtmlRenderer::lines()` -/
def cutLines (html : Bytes) : List Nat → List Bytes
  | [] => []
  | [a] => [cut html a html.length]
  | a :: b :: r => cut html a b :: cutLines html (b :: r)

def lineStartsGo : Nat → Bytes → List Nat
  | _, [] => []
  | i, c :: r => if c = 10 && !r.isEmpty then (i + 1) :: lineStartsGo (i + 1) r else lineStartsGo (i + 1) r

/-- 0 and the byte after every newline except a final one -/
def lineStarts (html : Bytes) : List Nat := 0 :: lineStartsGo 0 html

def increasing : List Nat → Bool
  | a :: b :: r => a < b && increasing (b :: r)
  | _ => true

/-- The normalisation of carriage returns in the decoded text: the CR of CRLF is dropped; any other
CR is dropped, or kept as byte 13 when `mark` (a carriage-return highlight is configured).
`strict = false`: a CR directly followed by another CR is dropped even when `mark`. -/
def crProc (mark strict : Bool) : Bytes → Bytes
  | [] => []
  | c :: r =>
    if c = 13 then
      match r with
      | 10 :: _ => crProc mark strict r
      | 13 :: _ => (if mark && strict then [13] else []) ++ crProc mark strict r
      | _ => (if mark then [13] else []) ++ crProc mark strict r
    else c :: crProc mark strict r

def splitLinesGo (cur : Bytes) : Bytes → List Bytes
  | [] => if cur.isEmpty then [] else [cur.reverse]
  | c :: r => if c = 10 then (10 :: cur).reverse :: splitLinesGo [] r else splitLinesGo (c :: cur) r

/-- split after every newline -/
def splitLines (bs : Bytes) : List Bytes := splitLinesGo [] bs

/-- the stack of open highlights at every newline of the decoded text, in order -/
def nlStacks (dec : Bytes → Bytes) (src : Bytes) : List Nat → List Ev → List (List Nat)
  | _, [] => []
  | hl, .start h :: r => nlStacks dec src (hl ++ [h]) r
  | hl, .stop :: r => nlStacks dec src hl.dropLast r
  | hl, .source s e :: r => ((dec (sliceT src s e)).filter (· = 10)).map (fun _ => hl) ++ nlStacks dec src hl r

def endsWith (l suf : Bytes) : Bool := decide (l.drop (l.length - suf.length) = suf) && decide (suf.length ≤ l.length)
def startsWith (l pre : Bytes) : Bool := decide (l.take pre.length = pre)

def reopenOk (cfg : RCfg) : List (List Nat) → List Bytes → Bool
  | [], _ => true
  | _, [] => false
  | k :: ks, l :: ls =>
    endsWith l ((k.flatMap fun _ => spanClose) ++ [10]) &&
    (match ls with
     | [] => true
     | l2 :: _ => startsWith l2 (k.flatMap (spanOpen cfg))) &&
    reopenOk cfg ks ls

/-- Does some highlight of the stream get the same attribute as the carriage-return highlight?
(Then an empty span of that highlight cannot be told from a CR marker and the marker is not judged.) -/
def crhUsed (cfg : RCfg) (evs : List Ev) : Bool :=
  match cfg.crh with
  | none => false
  | some h => evs.any fun | .start h' => cfg.attr h' == cfg.attr h | _ => false

/-- line texts against the expected lines (`strict`: see `crProc`) -/
def lineTextOk (strict : Bool) (dec : Bytes → Bytes) (cfg : RCfg) (evs : List Ev) (src : Bytes) (ls : List Bytes) : Bool :=
  let mark := cfg.crh.isSome && !crhUsed cfg evs
  let crAttr := if mark then cfg.crh.map cfg.attr else none
  let t := crProc mark strict (decoded dec evs src)
  let got := ls.map (lineText crAttr)
  decide (got = splitLines (t ++ [10])) || (t.getLast? == some 10 && decide (got = splitLines t))

/-- The per-line judge; the name of the first failing clause or "ok".  `balanced` = the event stream
is balanced (the tag clauses only make sense then). -/
def judgeLines (dec : Bytes → Bytes) (cfg : RCfg) (balanced : Bool) (evs : List Ev) (src : Bytes) (html : Bytes)
    (offs : List Nat) : String :=
  let ls := cutLines html offs
  if !(offs.head? == some 0 && increasing offs && offs.all (· < html.length)) then "offsets-monotone-in-bounds"
  else if !decide (offs = lineStarts html) then "offsets-are-line-starts"
  else if !(ls.all fun l => l.getLast? == some 10) then "line-newline"
  else if balanced && !(ls.all fun l => balancedGo 0 (toks l)) then "line-tags"
  else if balanced && !reopenOk cfg (nlStacks dec src [] evs) ls then "line-reopen"
  else if !lineTextOk true dec cfg evs src ls then
    (if lineTextOk false dec cfg evs src ls then "line-text:cr-before-cr-unstyled" else "line-text")
  else "ok"

end TsVerif.C17
