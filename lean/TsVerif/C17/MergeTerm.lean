import TsVerif.C17.MergeMultiLemmas
/-!
# C17 helper lemmas: the multi-layer merge finishes within its measure
-/
namespace TsVerif.C17

/-! ## weights -/

theorem idsW_congr {w1 w2 : Nat → Nat} (ids : List Nat) (h : ∀ j ∈ ids, w1 j = w2 j) :
    idsW w1 ids = idsW w2 ids := by
  induction ids with
  | nil => rfl
  | cons j r ih =>
    simp only [idsW]
    rw [h j (List.mem_cons_self), ih (fun j' hj' => h j' (List.mem_cons_of_mem _ hj'))]

theorem capsW_congr_mem {w1 w2 : Nat → Nat} (caps : List RCap)
    (h : ∀ c ∈ caps, ∀ ids, c.kind = .inj ids → ∀ j ∈ ids, w1 j = w2 j) : capsW w1 caps = capsW w2 caps := by
  induction caps with
  | nil => rfl
  | cons c r ih =>
    simp only [capsW]
    rw [ih (fun c' hc' => h c' (List.mem_cons_of_mem _ hc'))]
    congr 1
    unfold capW
    cases hk : c.kind with
    | hl _ => rfl
    | inj ids => simp only; rw [idsW_congr ids (h c (List.mem_cons_self) ids hk)]

theorem capsW_congr {w1 w2 : Nat → Nat} (caps : List RCap) (h : ∀ j, w1 j = w2 j) :
    capsW w1 caps = capsW w2 caps :=
  capsW_congr_mem caps (fun _ _ _ _ j _ => h j)

/-- `wtK` is stable once the depth bound reaches `length - j`. -/
theorem wtK_stable (defs : List LayerDef) : ∀ (m j k : Nat), defs.length - j ≤ m → defs.length - j ≤ k →
    wtK defs k j = wtK defs (defs.length - j) j := by
  intro m
  induction m with
  | zero =>
    intro j k hm _
    have hj : defs.length ≤ j := by omega
    have hnone : defs[j]? = none := List.getElem?_eq_none hj
    have h0 : defs.length - j = 0 := by omega
    rw [h0]
    cases k with
    | zero => rfl
    | succ k => simp [wtK, hnone]
  | succ m ih =>
    intro j k hm hk
    by_cases hj : defs.length ≤ j
    · have hnone : defs[j]? = none := List.getElem?_eq_none hj
      have h0 : defs.length - j = 0 := by omega
      rw [h0]
      cases k with
      | zero => rfl
      | succ k => simp [wtK, hnone]
    · obtain ⟨q, hq⟩ : ∃ q, defs.length - j = q + 1 := ⟨defs.length - j - 1, by omega⟩
      obtain ⟨k', rfl⟩ : ∃ k', k = k' + 1 := ⟨k - 1, by omega⟩
      rw [hq]
      simp only [wtK]
      cases defs[j]? with
      | none => rfl
      | some d =>
        simp only
        apply capsW_congr
        intro j'
        by_cases hjj : j < j'
        · simp only [if_pos hjj]
          rw [ih j' k' (by omega) (by omega), ih j' q (by omega) (by omega)]
        · simp only [if_neg hjj]

theorem refsUp_spec {defs : List LayerDef} (hr : refsUp defs = true) {i : Nat} {d : LayerDef}
    (hd : defs[i]? = some d) {c : RCap} (hc : c ∈ d.caps) {ids : List Nat} (hk : c.kind = .inj ids)
    {j : Nat} (hj : j ∈ ids) : i < j := by
  have hi : i < defs.length := by
    rcases Nat.lt_or_ge i defs.length with h | h
    · exact h
    · rw [List.getElem?_eq_none h] at hd; simp at hd
  have h1 := List.all_eq_true.mp hr i (List.mem_range.mpr hi)
  rw [hd] at h1
  have h2 := List.all_eq_true.mp h1 c hc
  rw [hk] at h2
  have h3 := List.all_eq_true.mp h2 j hj
  simpa using h3

/-- The weight of a layer is the weight of its captures (injections refer upwards). -/
theorem wt_eq {defs : List LayerDef} (hr : refsUp defs = true) {j : Nat} {d : LayerDef}
    (hd : defs[j]? = some d) : wt defs j = capsW (wt defs) d.caps := by
  have hj : j < defs.length := by
    rcases Nat.lt_or_ge j defs.length with h | h
    · exact h
    · rw [List.getElem?_eq_none h] at hd; simp at hd
  obtain ⟨q, hq⟩ : ∃ q, defs.length - j = q + 1 := ⟨defs.length - j - 1, by omega⟩
  unfold wt
  rw [hq]
  simp only [wtK, hd]
  apply capsW_congr_mem
  intro c hc ids hk j' hj'
  have hlt : j < j' := refsUp_spec hr hd hc hk hj'
  simp only [if_pos hlt]
  exact wtK_stable defs (defs.length - j') j' q (Nat.le_refl _) (by omega)

/-! ## sums of layer weights -/

theorem sumW_append (f : MLayer → Nat) (a b : List MLayer) : sumW f (a ++ b) = sumW f a + sumW f b := by
  induction a with
  | nil => simp [sumW]
  | cons l r ih => simp [sumW, ih]; omega

/-- A weight that vanishes on exhausted layers. -/
def ZeroOnDead (f : MLayer → Nat) : Prop := ∀ l : MLayer, l.caps = [] → l.ends = [] → f l = 0

theorem layerW_zero (defs : List LayerDef) : ZeroOnDead (layerW defs) := by
  intro l h1 h2; simp [layerW, h1, h2, capsW]

theorem sumW_sortLayers {f : MLayer → Nat} (hf : ZeroOnDead f) (ls : List MLayer) :
    sumW f (sortLayers ls) = sumW f ls := by
  induction ls with
  | nil => rfl
  | cons l0 rest ih =>
    unfold sortLayers
    cases hk : sortKey l0 with
    | none =>
      simp only
      rw [ih, sumW, hf l0 (sortKey_none hk).1 (sortKey_none hk).2]; simp
    | some k =>
      simp only
      rw [sumW_append, sumW, sumW]
      have := sumW_append f (rest.take (leadCount k rest)) (rest.drop (leadCount k rest))
      rw [List.take_append_drop] at this
      omega

theorem sumW_insGo {f : MLayer → Nat} (hf : ZeroOnDead f) (k : Key) (nl : MLayer) (ls : List MLayer) :
    sumW f (insGo k nl ls) = sumW f ls + f nl := by
  induction ls with
  | nil => simp [insGo, sumW]
  | cons li r ih =>
    unfold insGo
    cases hk : sortKey li with
    | none => simp only; rw [ih, sumW, hf li (sortKey_none hk).1 (sortKey_none hk).2]; simp
    | some ki =>
      simp only
      split
      · simp [sumW]; omega
      · simp [sumW, ih]; omega

theorem sumW_insertLayer {f : MLayer → Nat} (hf : ZeroOnDead f) (ls : List MLayer) (nl : MLayer) :
    sumW f (insertLayer ls nl) = sumW f ls + f nl := by
  unfold insertLayer
  cases hk : sortKey nl with
  | none => simp only; rw [hf nl (sortKey_none hk).1 (sortKey_none hk).2]; simp
  | some k =>
    cases ls with
    | nil => simp [sumW]
    | cons l0 rest => simp [sumW, sumW_insGo hf]; omega

theorem layerW_mkLayer {defs : List LayerDef} (hr : refsUp defs = true) {id : Nat} {nl : MLayer}
    (h : mkLayer defs id = some nl) : layerW defs nl = wt defs id := by
  unfold mkLayer at h
  cases hg : defs[id]? with
  | none => rw [hg] at h; simp at h
  | some d =>
    rw [hg] at h
    simp only [Option.map_some, Option.some.injEq] at h
    subst h
    simp [layerW, wt_eq hr hg]

theorem sumW_fold_insert {defs : List LayerDef} (hr : refsUp defs = true) (ids : List Nat) :
    ∀ (ls : List MLayer), sumW (layerW defs) (ids.foldl (insertById defs) ls) + ids.length
      ≤ sumW (layerW defs) ls + idsW (wt defs) ids := by
  induction ids with
  | nil => intro ls; simp [idsW]
  | cons id r ih =>
    intro ls
    simp only [List.foldl_cons, idsW, List.length_cons]
    cases hm : mkLayer defs id with
    | none =>
      have e : insertById defs ls id = ls := by unfold insertById; rw [hm]
      rw [e]; have := ih ls; omega
    | some nl =>
      have e : insertById defs ls id = insertLayer ls nl := by unfold insertById; rw [hm]
      rw [e]
      have h1 := ih (insertLayer ls nl)
      rw [sumW_insertLayer (layerW_zero defs), layerW_mkLayer hr hm] at h1
      omega

theorem capsW_collapse_le (w : Nat → Nat) (node : Nat) (h : Option Nat) (caps : List RCap) :
    capsW w (collapse node h caps).2 ≤ capsW w caps := by
  induction caps generalizing h with
  | nil => simp [collapse]
  | cons x r ih =>
    unfold collapse
    split
    · simp only [capsW]; exact Nat.le_trans (ih _) (Nat.le_add_left _ _)
    · exact Nat.le_refl _

theorem capW_ge_two (w : Nat → Nat) (c : RCap) : 2 ≤ capW w c := by
  unfold capW; cases c.kind <;> simp

/-! ## every iteration decreases the measure -/

theorem step_mu {n : Nat} {defs : List LayerDef} (hr : refsUp defs = true) (st : MSt) (hi : SInv n st)
    {evs : List Ev} {st' : MSt} (h : stepM defs n st = .more evs st') :
    sumW (layerW defs) st'.layers < sumW (layerW defs) st.layers := by
  obtain ⟨layers, off, last⟩ := st
  unfold stepM at h
  cases layers with
  | nil => simp at h
  | cons l rest =>
    simp only at h
    have hz := layerW_zero defs
    cases hact : action l with
    | final => exact absurd (action_final hact) (hi.head l rest rfl)
    | pop eb ends' =>
      rw [hact] at h
      simp only [stepPop, StepRes.more.injEq] at h
      rw [← h.2]
      have he := action_pop hact
      simp only [sumW_sortLayers hz, sumW, layerW, he, List.length_cons]
      omega
    | take c caps' =>
      rw [hact] at h
      simp only at h
      have hc := action_take hact
      have hc2 := capW_ge_two (wt defs) c
      -- weight of the first layer before the step
      have hl : layerW defs l = l.ends.length + (capW (wt defs) c + capsW (wt defs) caps') := by
        simp [layerW, hc, capsW]
      have hskip : ∀ (cs : List RCap), capsW (wt defs) cs ≤ capsW (wt defs) caps' →
          sumW (layerW defs) (sortLayers ({ l with caps := cs } :: rest)) < sumW (layerW defs) (l :: rest) := by
        intro cs hcs
        simp only [sumW_sortLayers hz, sumW, hl]
        simp only [layerW]
        omega
      cases hk : c.kind with
      | inj ids =>
        rw [hk] at h
        simp only [stepInj, StepRes.more.injEq] at h
        rw [← h.2]
        simp only [sumW_sortLayers hz]
        have hf := sumW_fold_insert hr ids ({ l with caps := caps' } :: rest)
        have hcw : capW (wt defs) c = 2 + idsW (wt defs) ids := by unfold capW; rw [hk]
        simp only [sumW, hl, hcw] at hf ⊢
        simp only [layerW] at hf ⊢
        omega
      | hl hh =>
        rw [hk] at h
        simp only at h
        split at h
        · simp only [stepSkip, StepRes.more.injEq] at h
          rw [← h.2]
          exact hskip caps' (Nat.le_refl _)
        · have hcol := capsW_collapse_le (wt defs) c.node hh caps'
          split at h
          · simp only [stepStart, StepRes.more.injEq] at h
            rw [← h.2]
            simp only [sumW_sortLayers hz, sumW, hl]
            simp only [layerW, List.length_cons]
            omega
          · simp only [stepSkip, StepRes.more.injEq] at h
            rw [← h.2]
            exact hskip _ hcol

/-- With fuel above the measure the run finishes. -/
theorem runM_fin {n : Nat} {defs : List LayerDef} (hd : DefsOk n defs) (hr : refsUp defs = true) :
    ∀ (fuel : Nat) (st : MSt), SInv n st → sumW (layerW defs) st.layers < fuel →
      (runM defs n fuel st).2 = true := by
  intro fuel
  induction fuel with
  | zero => intro st _ h; omega
  | succ fuel ih =>
    intro st hi hlt
    have hs := step_sound hd st hi
    unfold runM
    cases hstep : stepM defs n st with
    | done evs => rfl
    | more evs st' =>
      rw [hstep] at hs
      simp only
      have hmu := step_mu hr st hi hstep
      exact ih st' hs.1 (by omega)

end TsVerif.C17
