import TsVerif.C17.MergeMulti
/-!
# C17 helper lemmas: the multi-layer merge yields a well-formed stream (when it finishes)
-/
namespace TsVerif.C17

/-- Number of open highlights over all layers (= nesting depth of the stream so far). -/
def totalEnds : List MLayer → Nat
  | [] => 0
  | l :: r => l.ends.length + totalEnds r

theorem totalEnds_append (a b : List MLayer) : totalEnds (a ++ b) = totalEnds a + totalEnds b := by
  induction a with
  | nil => simp [totalEnds]
  | cons l r ih => simp [totalEnds, ih]; omega

def LayerOk (n : Nat) (l : MLayer) : Prop :=
  (∀ eb ∈ l.ends, eb ≤ n) ∧ (∀ c ∈ l.caps, c.s ≤ n ∧ c.e ≤ n)

def DefsOk (n : Nat) (defs : List LayerDef) : Prop := ∀ d ∈ defs, ∀ c ∈ d.caps, c.s ≤ n ∧ c.e ≤ n

theorem sortKey_none {l : MLayer} (h : sortKey l = none) : l.caps = [] ∧ l.ends = [] := by
  unfold sortKey at h
  split at h
  · split at h <;> simp at h
  · simp at h
  · simp at h
  · rename_i h1 h2; exact ⟨h1, h2⟩

/-! ## sort_layers -/

theorem totalEnds_sortLayers (ls : List MLayer) : totalEnds (sortLayers ls) = totalEnds ls := by
  induction ls with
  | nil => rfl
  | cons l0 rest ih =>
    unfold sortLayers
    cases hk : sortKey l0 with
    | none =>
      simp only
      rw [ih, totalEnds, (sortKey_none hk).2]; simp
    | some k =>
      simp only
      rw [totalEnds_append, totalEnds, totalEnds]
      have := totalEnds_append (rest.take (leadCount k rest)) (rest.drop (leadCount k rest))
      rw [List.take_append_drop] at this
      omega

theorem mem_sortLayers {ls : List MLayer} {l : MLayer} (h : l ∈ sortLayers ls) : l ∈ ls := by
  induction ls with
  | nil => simp [sortLayers] at h
  | cons l0 rest ih =>
    unfold sortLayers at h
    cases hk : sortKey l0 with
    | none => rw [hk] at h; exact List.mem_cons_of_mem _ (ih h)
    | some k =>
      rw [hk] at h
      simp only [List.mem_append, List.mem_cons] at h
      rcases h with h | h | h
      · exact List.mem_cons_of_mem _ (List.mem_of_mem_take h)
      · rw [h]; exact List.mem_cons_self
      · exact List.mem_cons_of_mem _ (List.mem_of_mem_drop h)

theorem head_sortLayers (ls : List MLayer) (l : MLayer) (r : List MLayer) (h : sortLayers ls = l :: r) :
    sortKey l ≠ none := by
  induction ls with
  | nil => simp [sortLayers] at h
  | cons l0 rest ih =>
    unfold sortLayers at h
    cases hk : sortKey l0 with
    | none => rw [hk] at h; exact ih h
    | some k =>
      rw [hk] at h
      simp only at h
      cases rest with
      | nil =>
        simp [leadCount] at h
        rw [← h.1, hk]; simp
      | cons x r' =>
        unfold leadCount at h
        cases hx : sortKey x with
        | none =>
          rw [hx] at h; simp at h
          rw [← h.1, hk]; simp
        | some k' =>
          rw [hx] at h
          by_cases hlt : keyLt k' k = true
          · simp [hlt] at h
            rw [← h.1, hx]; simp
          · simp [hlt] at h
            rw [← h.1, hk]; simp

/-! ## insert_layer -/

theorem totalEnds_insGo (k : Key) (nl : MLayer) (ls : List MLayer) :
    totalEnds (insGo k nl ls) = totalEnds ls + nl.ends.length := by
  induction ls with
  | nil => simp [insGo, totalEnds]
  | cons li r ih =>
    unfold insGo
    cases hk : sortKey li with
    | none => simp only; rw [ih, totalEnds, (sortKey_none hk).2]; simp
    | some ki =>
      simp only
      split
      · simp [totalEnds]; omega
      · simp [totalEnds, ih]; omega

theorem mem_insGo {k : Key} {nl : MLayer} {ls : List MLayer} {l : MLayer} (h : l ∈ insGo k nl ls) :
    l ∈ ls ∨ l = nl := by
  induction ls with
  | nil => simp [insGo] at h; exact Or.inr h
  | cons li r ih =>
    unfold insGo at h
    cases hk : sortKey li with
    | none =>
      rw [hk] at h
      rcases ih h with h | h
      · exact Or.inl (List.mem_cons_of_mem _ h)
      · exact Or.inr h
    | some ki =>
      rw [hk] at h
      simp only at h
      split at h
      · simp only [List.mem_cons] at h
        rcases h with h | h | h
        · exact Or.inr h
        · exact Or.inl (by rw [h]; exact List.mem_cons_self)
        · exact Or.inl (List.mem_cons_of_mem _ h)
      · simp only [List.mem_cons] at h
        rcases h with h | h
        · exact Or.inl (by rw [h]; exact List.mem_cons_self)
        · rcases ih h with h | h
          · exact Or.inl (List.mem_cons_of_mem _ h)
          · exact Or.inr h

theorem totalEnds_insertLayer (ls : List MLayer) (nl : MLayer) (hn : nl.ends = []) :
    totalEnds (insertLayer ls nl) = totalEnds ls := by
  unfold insertLayer
  cases sortKey nl with
  | none => rfl
  | some k =>
    cases ls with
    | nil => simp [totalEnds, hn]
    | cons l0 rest => simp [totalEnds, totalEnds_insGo, hn]

theorem mem_insertLayer {ls : List MLayer} {nl l : MLayer} (h : l ∈ insertLayer ls nl) : l ∈ ls ∨ l = nl := by
  unfold insertLayer at h
  cases hk : sortKey nl with
  | none => rw [hk] at h; exact Or.inl h
  | some k =>
    rw [hk] at h
    cases ls with
    | nil => simp at h; exact Or.inr h
    | cons l0 rest =>
      simp only [List.mem_cons] at h
      rcases h with h | h
      · exact Or.inl (by rw [h]; exact List.mem_cons_self)
      · rcases mem_insGo h with h | h
        · exact Or.inl (List.mem_cons_of_mem _ h)
        · exact Or.inr h

theorem mkLayer_ok {n : Nat} {defs : List LayerDef} (hd : DefsOk n defs) {id : Nat} {nl : MLayer}
    (h : mkLayer defs id = some nl) : nl.ends = [] ∧ LayerOk n nl := by
  unfold mkLayer at h
  cases hg : defs[id]? with
  | none => rw [hg] at h; simp at h
  | some d =>
    rw [hg] at h
    simp only [Option.map_some, Option.some.injEq] at h
    subst h
    have hm : d ∈ defs := List.mem_of_getElem? hg
    exact ⟨rfl, ⟨fun _ h => by simp at h, hd d hm⟩⟩

theorem fold_insert_ok {n : Nat} {defs : List LayerDef} (hd : DefsOk n defs) (ids : List Nat) :
    ∀ (ls : List MLayer), (∀ l ∈ ls, LayerOk n l) →
      totalEnds (ids.foldl (insertById defs) ls) = totalEnds ls ∧
      ∀ l ∈ ids.foldl (insertById defs) ls, LayerOk n l := by
  induction ids with
  | nil => intro ls h; exact ⟨rfl, h⟩
  | cons id r ih =>
    intro ls h
    simp only [List.foldl_cons]
    cases hm : mkLayer defs id with
    | none =>
      have e : insertById defs ls id = ls := by unfold insertById; rw [hm]
      rw [e]; exact ih ls h
    | some nl =>
      have e : insertById defs ls id = insertLayer ls nl := by unfold insertById; rw [hm]
      rw [e]
      obtain ⟨he, hok⟩ := mkLayer_ok hd hm
      have h2 : ∀ l ∈ insertLayer ls nl, LayerOk n l := by
        intro l hl
        rcases mem_insertLayer hl with hl | hl
        · exact h l hl
        · rw [hl]; exact hok
      have := ih (insertLayer ls nl) h2
      exact ⟨by rw [this.1, totalEnds_insertLayer ls nl he], this.2⟩

theorem mem_collapse {node : Nat} {h : Option Nat} {caps : List RCap} {c : RCap}
    (hc : c ∈ (collapse node h caps).2) : c ∈ caps := by
  induction caps generalizing h with
  | nil => simp [collapse] at hc
  | cons x r ih =>
    unfold collapse at hc
    split at hc
    · exact List.mem_cons_of_mem _ (ih hc)
    · exact hc

/-! ## emit_event -/

theorem emitM_le {n off t : Nat} (ev : Ev) (ho : off ≤ n) (ht : t ≤ n) : (emitM off t ev).2 ≤ n := by
  unfold emitM; split <;> simp <;> assumption

theorem wf_emitM (n off t d : Nat) (ev : Ev) (rest : List Ev) (ht : t ≤ n)
    (h : wellFormedFrom n (emitM off t ev).2 d (ev :: rest) = true) :
    wellFormedFrom n off d ((emitM off t ev).1 ++ rest) = true := by
  unfold emitM at h ⊢
  by_cases hlt : off < t
  · simp only [if_pos hlt] at h ⊢
    simp only [List.cons_append, List.nil_append, wellFormedFrom, Bool.and_eq_true, beq_self_eq_true,
      decide_eq_true_eq, true_and]
    exact ⟨⟨hlt, ht⟩, h⟩
  · simp only [if_neg hlt] at h ⊢
    exact h

/-! ## one step -/

structure SInv (n : Nat) (st : MSt) : Prop where
  offn : st.off ≤ n
  lok : ∀ l ∈ st.layers, LayerOk n l
  head : ∀ l r, st.layers = l :: r → sortKey l ≠ none

def StepOk (n : Nat) (st : MSt) : StepRes → Prop
  | .done evs => wellFormedFrom n st.off (totalEnds st.layers) evs = true
  | .more evs st' => SInv n st' ∧ ∀ rest, wellFormedFrom n st'.off (totalEnds st'.layers) rest = true →
      wellFormedFrom n st.off (totalEnds st.layers) (evs ++ rest) = true

theorem sinv_sorted {n off : Nat} {last : Option (Nat × Nat × Nat)} {X : List MLayer} (ho : off ≤ n)
    (hX : ∀ l ∈ X, LayerOk n l) : SInv n { layers := sortLayers X, off := off, last := last } :=
  { offn := ho
    lok := fun l hl => hX l (mem_sortLayers hl)
    head := fun l r h => head_sortLayers X l r h }

theorem action_pop {l : MLayer} {eb : Nat} {ends' : List Nat} (h : action l = .pop eb ends') :
    l.ends = eb :: ends' := by
  unfold action at h
  split at h
  · simp at h
  · rename_i h2; simp at h; rw [h2, h.1, h.2]
  · simp at h
  · rename_i h2; split at h
    · simp at h; rw [h2, h.1, h.2]
    · simp at h

theorem action_take {l : MLayer} {c : RCap} {caps' : List RCap} (h : action l = .take c caps') :
    l.caps = c :: caps' := by
  unfold action at h
  split at h
  · simp at h
  · simp at h
  · rename_i h1 _; simp at h; rw [h1, h.1, h.2]
  · rename_i h1 _; split at h
    · simp at h
    · simp at h; rw [h1, h.1, h.2]

theorem action_final {l : MLayer} (h : action l = .final) : sortKey l = none := by
  unfold action at h
  split at h
  · rename_i h1 h2; unfold sortKey; rw [h1, h2]
  · simp at h
  · simp at h
  · split at h <;> simp at h

theorem step_sound {n : Nat} {defs : List LayerDef} (hd : DefsOk n defs) (st : MSt) (hi : SInv n st) :
    StepOk n st (stepM defs n st) := by
  obtain ⟨layers, off, last⟩ := st
  have hoff : off ≤ n := hi.offn
  unfold stepM
  cases layers with
  | nil =>
    simp only [StepOk, totalEnds]
    by_cases hlt : off < n
    · simp [hlt, wellFormedFrom]
    · have : off = n := by omega
      simp [wellFormedFrom, this]
  | cons l rest =>
    simp only
    have hl : LayerOk n l := hi.lok l (List.mem_cons_self)
    have hrest : ∀ x ∈ rest, LayerOk n x := fun x hx => hi.lok x (List.mem_cons_of_mem _ hx)
    cases hact : action l with
    | final => exact absurd (action_final hact) (hi.head l rest rfl)
    | pop eb ends' =>
      simp only [stepPop, StepOk]
      have he := action_pop hact
      have hebn : eb ≤ n := hl.1 eb (by rw [he]; exact List.mem_cons_self)
      have hX : ∀ x ∈ ({ l with ends := ends' } :: rest : List MLayer), LayerOk n x := by
        intro x hx
        rcases List.mem_cons.mp hx with rfl | hx
        · exact ⟨fun y hy => hl.1 y (by rw [he]; exact List.mem_cons_of_mem _ hy), hl.2⟩
        · exact hrest x hx
      refine ⟨sinv_sorted (emitM_le _ hoff hebn) hX, ?_⟩
      intro evs hw
      apply wf_emitM _ _ _ _ _ _ hebn
      simp only [totalEnds_sortLayers, totalEnds] at hw
      simp only [wellFormedFrom, totalEnds, he, List.length_cons, Bool.and_eq_true, decide_eq_true_eq]
      refine ⟨by omega, ?_⟩
      have : ends'.length + 1 + totalEnds rest - 1 = ends'.length + totalEnds rest := by omega
      rw [this]; exact hw
    | take c caps' =>
      simp only
      have hc := action_take hact
      have hcin : c.s ≤ n ∧ c.e ≤ n := hl.2 c (by rw [hc]; exact List.mem_cons_self)
      have hcaps' : ∀ x ∈ caps', x.s ≤ n ∧ x.e ≤ n := fun x hx => hl.2 x (by rw [hc]; exact List.mem_cons_of_mem _ hx)
      -- a layer that keeps its ends and a sub-list of its captures
      have hskip : ∀ (cs : List RCap), (∀ x ∈ cs, x ∈ caps') →
          StepOk n { layers := l :: rest, off := off, last := last }
            (stepSkip { layers := l :: rest, off := off, last := last } { l with caps := cs } rest) := by
        intro cs hcs
        simp only [stepSkip, StepOk]
        have hX : ∀ x ∈ ({ l with caps := cs } :: rest : List MLayer), LayerOk n x := by
          intro x hx
          rcases List.mem_cons.mp hx with rfl | hx
          · exact ⟨hl.1, fun y hy => hcaps' y (hcs y hy)⟩
          · exact hrest x hx
        refine ⟨sinv_sorted hoff hX, ?_⟩
        intro evs hw
        simp only [totalEnds_sortLayers, totalEnds] at hw
        simpa [totalEnds] using hw
      cases hk : c.kind with
      | inj ids =>
        simp only [stepInj, StepOk]
        have hbase : ∀ x ∈ ({ l with caps := caps' } :: rest : List MLayer), LayerOk n x := by
          intro x hx
          rcases List.mem_cons.mp hx with rfl | hx
          · exact ⟨hl.1, hcaps'⟩
          · exact hrest x hx
        have hf := fold_insert_ok hd ids _ hbase
        refine ⟨sinv_sorted hoff hf.2, ?_⟩
        intro evs hw
        simp only [totalEnds_sortLayers] at hw
        rw [hf.1] at hw
        simpa [totalEnds] using hw
      | hl h =>
        simp only
        split
        · exact hskip caps' (fun x hx => hx)
        · split
          · rename_i hh hcol
            simp only [stepStart, StepOk]
            have hX : ∀ x ∈ ({ l with caps := (collapse c.node h caps').2, ends := c.e :: l.ends } :: rest : List MLayer),
                LayerOk n x := by
              intro x hx
              rcases List.mem_cons.mp hx with rfl | hx
              · refine ⟨?_, fun y hy => hcaps' y (mem_collapse hy)⟩
                intro y hy
                rcases List.mem_cons.mp hy with rfl | hy
                · exact hcin.2
                · exact hl.1 y hy
              · exact hrest x hx
            refine ⟨sinv_sorted (emitM_le _ hoff hcin.1) hX, ?_⟩
            intro evs hw
            apply wf_emitM _ _ _ _ _ _ hcin.1
            simp only [totalEnds_sortLayers, totalEnds, List.length_cons] at hw
            simp only [wellFormedFrom, totalEnds]
            have : l.ends.length + totalEnds rest + 1 = l.ends.length + 1 + totalEnds rest := by omega
            rw [this]; exact hw
          · exact hskip _ (fun x hx => mem_collapse hx)

theorem runM_wf {n : Nat} {defs : List LayerDef} (hd : DefsOk n defs) : ∀ (fuel : Nat) (st : MSt), SInv n st →
    (runM defs n fuel st).2 = true →
    wellFormedFrom n st.off (totalEnds st.layers) (runM defs n fuel st).1 = true := by
  intro fuel
  induction fuel with
  | zero => intro st _ h; simp [runM] at h
  | succ fuel ih =>
    intro st hi hfin
    have hs := step_sound hd st hi
    unfold runM at hfin ⊢
    cases hstep : stepM defs n st with
    | done evs =>
      rw [hstep] at hs
      simpa [StepOk] using hs
    | more evs st' =>
      rw [hstep] at hs hfin
      simp only at hfin ⊢
      exact hs.2 _ (ih st' hs.1 hfin)

end TsVerif.C17
