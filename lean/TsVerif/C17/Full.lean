import TsVerif.C17.MergeMulti
import TsVerif.C17.Intersect
import TsVerif.C17.Locals
/-!
# C17 end-to-end model of `HighlightIter::next`: several layers, locals, and the injection step

Code-shaped port of the whole `'main` loop of `HighlightIter::next`
(`/repo/crates/highlight/src/highlight.rs`): the highlight branch and layer ordering of
`MergeMulti.lean`, the local-variable branch of `Locals.lean` with one `scope_stack` per layer, and
the INJECTION branch computed by the model itself:

* `injectionForMatch` = `injection_for_match`: language name from the `@injection.language` capture
  (last one, `None` when its text is not UTF-8), else from the pattern's properties in order
  (`injection.language`, `injection.self` = this layer's language, `injection.parent` = the ROOT
  language, which is what `next` passes), content node = last `@injection.content`,
  `injection.include-children`;
* the language must be known to the injection callback (`nKnown`), the content ranges are
  `intersectRanges layer.ranges [content] include_children` (port of `intersect_ranges`) and must be
  non-empty;
* the layers that `HighlightIterLayer::new(config, depth + 1, ranges)` returns (the parsed layer and
  the layers of its combined injections) cannot be computed without a parser: they are looked up in
  a table `news` keyed by (language, depth, ranges) that the harness fills through the public API.
  If the model computes a different language / include-children / range list than the real code,
  the lookup misses and the model's stream differs from the real one.

`injection.combined` is not part of `injection_for_match`: combined patterns are disabled in the
main query by `HighlightConfiguration::new` and handled inside `HighlightIterLayer::new`, i.e. inside
the table.
-/
namespace TsVerif.C17.Full
open TsVerif.C17

inductive IProp where
  | lang (name : Nat)
  | self
  | parent
  | inclChildren
  | other
  deriving Repr

/-- What `injection_for_match` reads from a match. -/
structure InjMatch where
  langCap : Option Nat
  content : Option INode
  props : List IProp
  deriving Repr

inductive FKind where
  | inj (m : InjMatch)
  | scope (inherits : Bool)
  | defn (name valueEnd : Nat) (nameOk : Bool)
  | ref (name : Nat) (nameOk : Bool)
  | other
  | hl (h : Option Nat) (nonLocal : Bool)
  deriving Repr

structure FCap where
  s : Nat
  e : Nat
  node : Nat
  kind : FKind
  deriving Repr

/-- A layer as data: language (name id), depth, included ranges, raw captures. -/
structure FDef where
  lang : Nat
  depth : Nat
  ranges : List Rg
  caps : List FCap
  deriving Repr

/-- Result of `HighlightIterLayer::new(language, depth, ranges)`: ids of the returned layers. -/
structure NewEntry where
  lang : Nat
  depth : Nat
  ranges : List Rg
  ids : List Nat
  deriving Repr

/-- Static context of a run. -/
structure Ctx where
  defs : List FDef
  news : List NewEntry
  /-- name ids `< nKnown` are languages the injection callback knows (their id is the name id) -/
  nKnown : Nat
  /-- `HighlightIter::language_name` (the root configuration's language) -/
  rootLang : Nat
  /-- how `Highlighter::highlight` sets up the initial layers: `false` = the unchanged code (the layers
  in the order `HighlightIterLayer::new` returned them, then ONE `sort_layers`, which only places the
  first layer); `true` = `fixes/C17-initial-layer-order.diff` (the further layers go through
  `insert_layer`, so `layers[1..]` is ordered).  Selected by a probe of the real code. -/
  initInsert : Bool := false

structure FLayer where
  lang : Nat
  depth : Nat
  ranges : List Rg
  caps : List FCap
  ends : List Nat
  scopes : List LScope
  deriving Repr

structure FSt where
  layers : List FLayer
  off : Nat := 0
  last : Option (Nat × Nat × Nat) := none
  deriving Repr

/-- `injection_for_match(config, parent_name, query, match, source)` -/
def injectionForMatch (cfgLang : Nat) (parentName : Option Nat) (m : InjMatch) : Option Nat × Option INode × Bool :=
  let r := m.props.foldl (fun (acc : Option Nat × Bool) p =>
    match p with
    | .lang n => if acc.1.isNone then (some n, acc.2) else acc
    | .self => if acc.1.isNone then (some cfgLang, acc.2) else acc
    | .parent => if acc.1.isNone then (parentName, acc.2) else acc
    | .inclChildren => (acc.1, true)
    | .other => acc) (m.langCap, false)
  (r.1, m.content, r.2)

def lookupNew (news : List NewEntry) (lang depth : Nat) (ranges : List Rg) : List Nat :=
  match news.find? fun e => e.lang == lang && e.depth == depth && decide (e.ranges = ranges) with
  | some e => e.ids
  | none => []

/-- The injection branch of `next` up to the list of layers to insert. -/
def injIds (cx : Ctx) (lang depth : Nat) (ranges : List Rg) (m : InjMatch) : List Nat :=
  match injectionForMatch lang (some cx.rootLang) m with
  | (some nm, some nd, incl) =>
    if nm < cx.nKnown then
      let rs := intersectRanges ranges [nd] incl
      if rs.isEmpty then [] else lookupNew cx.news nm (depth + 1) rs
    else []
  | _ => []

def sortKey (l : FLayer) : Option Key :=
  match l.caps, l.ends with
  | c :: _, e :: _ => if c.s < e then some (c.s, true, l.depth) else some (e, false, l.depth)
  | c :: _, [] => some (c.s, true, l.depth)
  | [], e :: _ => some (e, false, l.depth)
  | [], [] => none

def leadCount (k : Key) : List FLayer → Nat
  | [] => 0
  | l :: r =>
    match sortKey l with
    | some k' => if keyLt k' k then leadCount k r + 1 else 0
    | none => 0

def sortLayers : List FLayer → List FLayer
  | [] => []
  | l0 :: rest =>
    match sortKey l0 with
    | none => sortLayers rest
    | some k =>
      let i := leadCount k rest
      rest.take i ++ l0 :: rest.drop i

def insGo (k : Key) (layer : FLayer) : List FLayer → List FLayer
  | [] => [layer]
  | li :: r =>
    match sortKey li with
    | some ki => if keyLt k ki then layer :: li :: r else li :: insGo k layer r
    | none => insGo k layer r

def insertLayer (layers : List FLayer) (layer : FLayer) : List FLayer :=
  match sortKey layer with
  | none => layers
  | some k =>
    match layers with
    | [] => [layer]
    | l0 :: rest => l0 :: insGo k layer rest

/-- A fresh layer: root scope only. -/
def mkLayer (cx : Ctx) (id : Nat) : Option FLayer :=
  (cx.defs[id]?).map fun d =>
    { lang := d.lang, depth := d.depth, ranges := d.ranges, caps := d.caps, ends := [],
      scopes := [{ inherits := false, re := usizeMax, defs := [] }] }

def insertById (cx : Ctx) (ls : List FLayer) (id : Nat) : List FLayer :=
  match mkLayer cx id with
  | some nl => insertLayer ls nl
  | none => ls

/-- The locals view of a capture (an injection capture never reaches the locals loop first). -/
def toL (c : FCap) : LCap :=
  { s := c.s, e := c.e, node := c.node,
    kind := match c.kind with
      | .scope i => .scope i
      | .defn a b c => .defn a b c
      | .ref a b => .ref a b
      | .hl h nl => .hl h nl
      | _ => .other }

/-- The `while match_.pattern_index < highlights_pattern_index` loop over the captures of one node. -/
def localsRun (r : LRun) (c : FCap) (rest : List FCap) : LRun × Option FCap × List FCap :=
  match c.kind with
  | .hl _ _ => (r, some c, rest)
  | _ =>
    let r' := applyLocal r (toL c)
    match rest with
    | nx :: rest' => if nx.node = c.node then localsRun r' nx rest' else (r', none, rest)
    | [] => (r', none, [])

def collapseL (isLocal : Bool) (node : Nat) (h : Option Nat) : List FCap → Option Nat × List FCap
  | [] => (h, [])
  | c :: r =>
    if c.node = node then
      match c.kind with
      | .hl h' nl => if isLocal && nl then collapseL isLocal node h r else collapseL isLocal node h' r
      | _ => collapseL isLocal node none r
    else (h, c :: r)

inductive StepRes where
  | done (evs : List Ev)
  | more (evs : List Ev) (st : FSt)

inductive Act where
  | final
  | pop (eb : Nat) (ends' : List Nat)
  | take (c : FCap) (caps' : List FCap)

def action (l : FLayer) : Act :=
  match l.caps, l.ends with
  | [], [] => .final
  | [], eb :: ends' => .pop eb ends'
  | c :: caps', [] => .take c caps'
  | c :: caps', eb :: ends' => if eb ≤ c.s then .pop eb ends' else .take c caps'

def stepPop (st : FSt) (l : FLayer) (rest : List FLayer) (eb : Nat) (ends' : List Nat) : StepRes :=
  .more (emitM st.off eb .stop).1
    { st with off := (emitM st.off eb .stop).2, layers := sortLayers ({ l with ends := ends' } :: rest) }

def stepSkip (st : FSt) (l : FLayer) (rest : List FLayer) : StepRes :=
  .more [] { st with layers := sortLayers (l :: rest) }

def stepInj (cx : Ctx) (st : FSt) (l : FLayer) (rest : List FLayer) (ids : List Nat) : StepRes :=
  .more [] { st with layers := sortLayers (ids.foldl (insertById cx) (l :: rest)) }

def stepStart (st : FSt) (l : FLayer) (rest : List FLayer) (c : FCap) (hh : Nat) : StepRes :=
  .more (emitM st.off c.s (.start hh)).1
    { off := (emitM st.off c.s (.start hh)).2, last := some (c.s, c.e, l.depth),
      layers := sortLayers ({ l with ends := c.e :: l.ends } :: rest) }

def dedup (st : FSt) (l : FLayer) (c : FCap) : Bool :=
  match st.last with
  | some (ls, le, ld) => c.s == ls && c.e == le && l.depth < ld
  | none => false

def hlOf (c : FCap) : Option Nat := match c.kind with | .hl h _ => h | _ => none

/-- The locals + highlight part of an iteration for the capture `c` (not an injection capture):
pop ended scopes, run the locals patterns of this node, then the highlight patterns. -/
def stepLocals (st : FSt) (l : FLayer) (rest : List FLayer) (c : FCap) (caps' : List FCap) : StepRes :=
  let run := localsRun { scopes := popScopes c.s l.scopes, refHl := none, defP := false } c caps'
  match run.2.1 with
  | none => stepSkip st { l with caps := run.2.2, scopes := run.1.scopes } rest
  | some hc =>
    if dedup st l c then stepSkip st { l with caps := run.2.2, scopes := run.1.scopes } rest
    else
      let col := collapseL (run.1.defP || run.1.refHl.isSome) hc.node (hlOf hc) run.2.2
      let scopes' := if run.1.defP then setDefHl col.1 run.1.scopes else run.1.scopes
      match run.1.refHl.or col.1 with
      | some hh => stepStart st { l with caps := col.2, scopes := scopes' } rest c hh
      | none => stepSkip st { l with caps := col.2, scopes := scopes' } rest

/-- One iteration of the `'main: loop`. -/
def stepM (cx : Ctx) (n : Nat) (st : FSt) : StepRes :=
  match st.layers with
  | [] => .done (if st.off < n then [.source st.off n] else [])
  | l :: rest =>
    match action l with
    | .final =>
      if st.off < n then .more [.source st.off n] { st with off := n, layers := sortLayers (l :: rest) }
      else .done []
    | .pop eb ends' => stepPop st l rest eb ends'
    | .take c caps' =>
      match c.kind with
      | .inj m => stepInj cx st { l with caps := caps' } rest (injIds cx l.lang l.depth l.ranges m)
      | _ => stepLocals st l rest c caps'

def runM (cx : Ctx) (n : Nat) : Nat → FSt → List Ev × Bool
  | 0, _ => ([], false)
  | fuel + 1, st =>
    match stepM cx n st with
    | .done evs => (evs, true)
    | .more evs st' =>
      let r := runM cx n fuel st'
      (evs ++ r.1, r.2)

/-! ## termination measure (as in `MergeMulti.lean`, with the injection ids computed by the model) -/

def capW (cx : Ctx) (w : Nat → Nat) (lang depth : Nat) (ranges : List Rg) (c : FCap) : Nat :=
  match c.kind with
  | .inj m => 2 + idsW w (injIds cx lang depth ranges m)
  | _ => 2

def capsW (cx : Ctx) (w : Nat → Nat) (lang depth : Nat) (ranges : List Rg) : List FCap → Nat
  | [] => 0
  | c :: r => capW cx w lang depth ranges c + capsW cx w lang depth ranges r

def wtK (cx : Ctx) : Nat → Nat → Nat
  | 0, _ => 0
  | k + 1, j =>
    match cx.defs[j]? with
    | none => 0
    | some d => capsW cx (fun j' => if j < j' then wtK cx k j' else 0) d.lang d.depth d.ranges d.caps

def wt (cx : Ctx) (j : Nat) : Nat := wtK cx (cx.defs.length - j) j

/-- Every injection of layer `i` creates only layers with a larger id. -/
def refsUp (cx : Ctx) : Bool :=
  (List.range cx.defs.length).all fun i =>
    match cx.defs[i]? with
    | none => true
    | some d => d.caps.all fun c =>
      match c.kind with
      | .inj m => (injIds cx d.lang d.depth d.ranges m).all fun j => i < j
      | _ => true

def defsIn (n : Nat) (cx : Ctx) : Bool :=
  cx.defs.all fun d => d.caps.all fun c => c.s ≤ n && c.e ≤ n

def layerW (cx : Ctx) (l : FLayer) : Nat := l.ends.length + capsW cx (wt cx) l.lang l.depth l.ranges l.caps

def sumW (f : FLayer → Nat) : List FLayer → Nat
  | [] => 0
  | l :: r => f l + sumW f r

/-- The layer vector `Highlighter::highlight` starts with (before its `sort_layers`). -/
def initLayers (cx : Ctx) (top : List Nat) : List FLayer :=
  if cx.initInsert then
    match top.filterMap (mkLayer cx) with
    | [] => []
    | l0 :: r => r.foldl insertLayer [l0]
  else top.filterMap (mkLayer cx)

/-- `Highlighter::highlight` + draining the iterator. -/
def mergeFull (cx : Ctx) (top : List Nat) (n : Nat) : List Ev × Bool :=
  let layers := sortLayers (initLayers cx top)
  runM cx n (sumW (layerW cx) layers + 1) { layers := layers }

end TsVerif.C17.Full
