import TsVerif.C17.MultiOrder
/-!
# C17: the merged multi-layer stream is well nested (static layers, `CrossNice`)

For layers given as static data (no injection capture: all layers are created by
`Highlighter::highlight`, i.e. the root and its combined-injection layers), whose captures are in
order inside each layer (`DefsNice`) and whose span sets are pairwise laminar and tie-free at starts
(`crossNice`, decidable, evaluated on the real cases by the driver): keep the GLOBAL stack of the ends
of the open spans by stack discipline — push the capture's end at every `HighlightStart`, pop at
every `HighlightEnd`.  Then at every `HighlightEnd` the top of that stack is exactly the end being
closed (the End closes the most recently opened still-open span, and that span ends here), the stack
is always sorted by end and is a permutation of all layers' `highlight_end_stack`s.
-/
namespace TsVerif.C17

def allEnds (ls : List MLayer) : List Nat := ls.flatMap (·.ends)

theorem allEnds_cons (l : MLayer) (r : List MLayer) : allEnds (l :: r) = l.ends ++ allEnds r := by
  simp [allEnds]

theorem allEnds_append (a b : List MLayer) : allEnds (a ++ b) = allEnds a ++ allEnds b := by
  simp [allEnds]

theorem allEnds_sortLayers (ls : List MLayer) : (allEnds (sortLayers ls)).Perm (allEnds ls) := by
  induction ls with
  | nil => exact List.Perm.refl _
  | cons l0 rest ih =>
    unfold sortLayers
    cases hk : sortKey l0 with
    | none =>
      simp only
      rw [allEnds_cons, (sortKey_none hk).2]
      simpa using ih
    | some k =>
      simp only
      rw [allEnds_append, allEnds_cons, allEnds_cons]
      have h1 : (allEnds (rest.take (leadCount k rest)) ++ (l0.ends ++ allEnds (rest.drop (leadCount k rest)))).Perm
          (l0.ends ++ (allEnds (rest.take (leadCount k rest)) ++ allEnds (rest.drop (leadCount k rest)))) := by
        rw [← List.append_assoc, ← List.append_assoc]
        exact List.Perm.append_right _ List.perm_append_comm
      rw [← allEnds_append, List.take_append_drop] at h1
      exact h1

theorem ids_sortLayers (ls : List MLayer) (h : (ls.map (·.id)).Nodup) : ((sortLayers ls).map (·.id)).Nodup := by
  induction ls with
  | nil => exact List.nodup_nil
  | cons l0 rest ih =>
    have hr : (rest.map (·.id)).Nodup := (List.nodup_cons.mp (by simpa using h)).2
    unfold sortLayers
    cases hk : sortKey l0 with
    | none => exact ih hr
    | some k =>
      simp only
      have hp : (rest.take (leadCount k rest) ++ l0 :: rest.drop (leadCount k rest)).Perm (l0 :: rest) := by
        have := @List.perm_middle _ l0 (rest.take (leadCount k rest)) (rest.drop (leadCount k rest))
        rw [List.take_append_drop] at this
        exact this
      exact (List.Perm.nodup_iff (hp.map _)).mpr h

/-- No injection capture: the layers are static data. -/
def noInj (defs : List LayerDef) : Bool :=
  defs.all fun d => d.caps.all fun c => match c.kind with | .hl _ => true | .inj _ => false

/-- The capture yields a recognised highlight. -/
def hlSome (c : RCap) : Bool := match c.kind with | .hl (some _) => true | _ => false

/-- The captures that can become a SPAN: those whose node has some capture with a recognised
highlight in the same layer (`collapse` keeps the last such capture of the node). -/
def spanCaps (d : LayerDef) : List RCap :=
  d.caps.filter fun c => d.caps.any fun c' => c'.node == c.node && hlSome c'

/-- `collapse` only returns a highlight that some capture of the node carries. -/
theorem collapse_fst_some {node hh : Nat} : ∀ (caps : List RCap) (h : Option Nat),
    (collapse node h caps).1 = some hh → h = some hh ∨ ∃ c' ∈ caps, c'.node = node ∧ c'.kind = .hl (some hh) := by
  intro caps
  induction caps with
  | nil => intro h hc; exact Or.inl (by simpa [collapse] using hc)
  | cons x r ih =>
    intro h hc
    unfold collapse at hc
    by_cases hx : x.node = node
    · simp only [hx, if_true] at hc
      rcases ih _ hc with h1 | ⟨c', h1, h2, h3⟩
      · refine Or.inr ⟨x, List.mem_cons_self, hx, ?_⟩
        cases hk : x.kind with
        | hl h' => rw [hk] at h1; simp only at h1; rw [h1]
        | inj ids => rw [hk] at h1; simp at h1
      · exact Or.inr ⟨c', List.mem_cons_of_mem _ h1, h2, h3⟩
    · simp only [hx, if_false] at hc
      exact Or.inl hc

/-- Different layers, over the captures that can become spans: a capture that starts strictly
inside another layer's capture ends inside it (laminar); two non-empty captures that start at the
same byte belong to layers of different depths and the SHALLOWER layer's capture is not the longer
one (the code emits the deeper layer's Start first at a tie -- the same orientation as the StackSpec
judge's `startTiesOk`). -/
def crossNice (defs : List LayerDef) : Bool :=
  (List.range defs.length).all fun i => (List.range defs.length).all fun j =>
    i == j ||
    match defs[i]?, defs[j]? with
    | some di, some dj => (spanCaps di).all fun a => (spanCaps dj).all fun b =>
        (!(a.s < b.s && b.s < a.e) || decide (b.e ≤ a.e)) &&
        (!(a.s == b.s && a.s < a.e && b.s < b.e) ||
          (di.depth != dj.depth && (!(di.depth < dj.depth) || decide (a.e ≤ b.e))))
    | _, _ => true

/-- The laminar half of `crossNice` alone (reporting only: splits the real cases that `crossNice`
excludes into "not laminar" and "start tie with the wrong orientation"). -/
def crossLam (defs : List LayerDef) : Bool :=
  (List.range defs.length).all fun i => (List.range defs.length).all fun j =>
    i == j ||
    match defs[i]?, defs[j]? with
    | some di, some dj => (spanCaps di).all fun a => (spanCaps dj).all fun b =>
        (!(a.s < b.s && b.s < a.e) || decide (b.e ≤ a.e))
    | _, _ => true

theorem crossNice_spec {defs : List LayerDef} (h : crossNice defs = true) {i j : Nat} {di dj : LayerDef}
    (hij : i ≠ j) (hi : defs[i]? = some di) (hj : defs[j]? = some dj) {a b : RCap}
    (ha : a ∈ spanCaps di) (hb : b ∈ spanCaps dj) :
    (a.s < b.s → b.s < a.e → b.e ≤ a.e) ∧
    (a.s = b.s → a.s < a.e → b.s < b.e → di.depth ≠ dj.depth ∧ (di.depth < dj.depth → a.e ≤ b.e)) := by
  have hil : i < defs.length := by
    rcases Nat.lt_or_ge i defs.length with h' | h'
    · exact h'
    · rw [List.getElem?_eq_none h'] at hi; simp at hi
  have hjl : j < defs.length := by
    rcases Nat.lt_or_ge j defs.length with h' | h'
    · exact h'
    · rw [List.getElem?_eq_none h'] at hj; simp at hj
  have h1 := List.all_eq_true.mp h i (List.mem_range.mpr hil)
  have h2 := List.all_eq_true.mp h1 j (List.mem_range.mpr hjl)
  simp only [Bool.or_eq_true, beq_iff_eq, hij, false_or, hi, hj] at h2
  have h3 := List.all_eq_true.mp (List.all_eq_true.mp h2 a ha) b hb
  simp only [Bool.and_eq_true, bne_iff_ne, ne_eq, Bool.or_eq_true, Bool.not_eq_true', decide_eq_true_eq,
    Bool.and_eq_false_iff, decide_eq_false_iff_not, beq_iff_eq, beq_eq_false_iff_ne] at h3
  refine ⟨fun h4 h5 => ?_, fun h4 h5 h6 => ⟨?_, fun h7 => ?_⟩⟩ <;> omega

/-- Layer identity and provenance. -/
structure NInv (defs : List LayerDef) (st : MSt) : Prop where
  ids : (st.layers.map (·.id)).Nodup
  src : ∀ y ∈ st.layers, ∃ d, defs[y.id]? = some d ∧ y.depth = d.depth ∧ (∀ c ∈ y.caps, c ∈ d.caps) ∧
    ∀ e ∈ y.ends, ∃ c0 ∈ spanCaps d, c0.e = e ∧ c0.s ≤ st.off ∧
      (c0.s = st.off → ∀ h' ∈ st.layers, y.depth < h'.depth → ∀ c ∈ h'.caps, c.s ≠ st.off)

/-- The global stack of open ends kept by stack discipline: `none` = an End found a top that is
not the end being closed. -/
def ghostStep (st : MSt) (evs : List Ev) (G : List Nat) : Option (List Nat) :=
  match evs.getLast?, st.layers with
  | some .stop, l :: _ =>
    (match l.ends, G with
     | eb :: _, g :: G' => if g = eb then some G' else none
     | _, _ => none)
  | some (.start _), l :: _ =>
    (match l.caps with
     | c :: _ => some (c.e :: G)
     | [] => none)
  | _, _ => some G

/-- `k` iterations with the ghost stack. -/
def iterG (defs : List LayerDef) (n : Nat) : Nat → MSt → List Nat → Option (MSt × List Nat)
  | 0, st, G => some (st, G)
  | k + 1, st, G =>
    match stepM defs n st with
    | .done _ => none
    | .more evs st' =>
      match ghostStep st evs G with
      | none => none
      | some G' => iterG defs n k st' G'

theorem keyLt_irrefl (a : Key) : keyLt a a = false := by
  obtain ⟨a1, a2, a3⟩ := a
  cases a2 <;> simp [keyLt]

theorem getLast_emit_stop (off t : Nat) : (emitM off t .stop).1.getLast? = some .stop := by
  unfold emitM; split <;> simp

theorem getLast_emit_start (off t h : Nat) : (emitM off t (.start h)).1.getLast? = some (.start h) := by
  unfold emitM; split <;> simp

theorem action_pop_key {l : MLayer} {eb : Nat} {ends' : List Nat} {k : Key} (hact : action l = .pop eb ends')
    (hk : sortKey l = some k) : k.1 = eb := by
  have he := action_pop hact
  unfold sortKey at hk
  unfold action at hact
  rw [he] at hk hact
  cases hcaps : l.caps with
  | nil => rw [hcaps] at hk; simp at hk; rw [← hk]
  | cons c r =>
    rw [hcaps] at hk hact
    simp only at hk hact
    by_cases hle : eb ≤ c.s
    · have : ¬ c.s < eb := by omega
      simp only [this, if_false, Option.some.injEq] at hk; rw [← hk]
    · simp [hle] at hact

theorem action_take_key {l : MLayer} {c : RCap} {caps' : List RCap} {k : Key} (hact : action l = .take c caps')
    (hk : sortKey l = some k) : k = (c.s, true, l.depth) := by
  have hc := action_take hact
  unfold sortKey at hk
  unfold action at hact
  rw [hc] at hk hact
  cases hends : l.ends with
  | nil => rw [hends] at hk; simp at hk; exact hk.symm
  | cons e0 r =>
    rw [hends] at hk hact
    simp only at hk hact
    by_cases hle : e0 ≤ c.s
    · simp [hle] at hact
    · have : c.s < e0 := by omega
      simp only [this, if_true, Option.some.injEq] at hk; exact hk.symm

/-- A layer that sorts at or after a START at `p` has all its open ends beyond `p`. -/
theorem open_end_gt {off p d : Nat} {y : MLayer} (hi : LInv off y) {ky : Key} (hky : sortKey y = some ky)
    (hge : keyLt ky (p, true, d) = false) : ∀ e ∈ y.ends, p < e := by
  intro e he
  obtain ⟨_, h2⟩ := key_le_all hi hky
  have hpos : p ≤ ky.1 := by
    obtain ⟨a1, a2, a3⟩ := ky
    simp [keyLt] at hge
    by_cases h : a1 < p
    · exact absurd hge.1 (by omega)
    · simp only; omega
  have h3 := h2 e he
  by_cases heq : e = p
  · -- then the key of y is the END at p, which sorts before a start at p
    exfalso
    subst heq
    unfold sortKey at hky
    cases hends : y.ends with
    | nil => rw [hends] at he; simp at he
    | cons t r =>
      have hte : t ≤ e := by
        have hs := hi.endsSorted
        rw [hends] at hs he
        rcases List.mem_cons.mp he with rfl | hx
        · exact Nat.le_refl _
        · exact (List.pairwise_cons.mp hs).1 e hx
      have htk : ky.1 ≤ t := h2 t (by rw [hends]; exact List.mem_cons_self)
      rw [hends] at hky
      cases hcaps : y.caps with
      | nil =>
        rw [hcaps] at hky
        simp only [Option.some.injEq] at hky
        subst hky
        simp [keyLt] at hge
        omega
      | cons c r' =>
        rw [hcaps] at hky
        simp only at hky
        by_cases hlt : c.s < t
        · simp only [hlt, if_true, Option.some.injEq] at hky
          subst hky
          simp only at hpos; omega
        · simp only [hlt, if_false, Option.some.injEq] at hky
          subst hky
          simp [keyLt] at hge
          omega
  · omega

theorem sortKey_depth {y : MLayer} {k : Key} (h : sortKey y = some k) : k.2.2 = y.depth := by
  unfold sortKey at h
  split at h
  · split at h <;> (simp only [Option.some.injEq] at h; rw [← h])
  · simp only [Option.some.injEq] at h; rw [← h]
  · simp only [Option.some.injEq] at h; rw [← h]
  · simp at h

/-- One iteration: the End closes the top of the global stack; the stack stays sorted and a
permutation of all end stacks; identity and provenance are kept. -/
theorem stepM_well_nested (defs : List LayerDef) (_hn : DefsNice defs) (hni : noInj defs = true)
    (hx : crossNice defs = true) (n : Nat) (st st' : MSt) (evs : List Ev) (G : List Nat)
    (ho : OInv st) (hv : NInv defs st) (hGs : G.Pairwise (· ≤ ·)) (hGp : G.Perm (allEnds st.layers))
    (h : stepM defs n st = .more evs st') :
    ∃ G', ghostStep st evs G = some G' ∧ G'.Pairwise (· ≤ ·) ∧ G'.Perm (allEnds st'.layers) ∧ NInv defs st' := by
  obtain ⟨layers, off, last⟩ := st
  unfold stepM at h
  cases layers with
  | nil => simp at h
  | cons l rest =>
    simp only at h
    have hs := ho.sorted
    obtain ⟨k, hk, hmin⟩ := sorted_head_min hs
    have hl : LInv off l := ho.linv l (List.mem_cons_self)
    have hrestI : ∀ y ∈ rest, LInv off y := fun y hy => ho.linv y (List.mem_cons_of_mem _ hy)
    obtain ⟨d, hd, hdep, hcapsd, hendsd⟩ := hv.src l (List.mem_cons_self)
    simp only at hendsd
    have hids : (∀ x ∈ rest, ¬x.id = l.id) ∧ (rest.map (·.id)).Nodup := by simpa using hv.ids
    have hidl : ∀ y ∈ rest, y.id ≠ l.id := fun y hy => hids.1 y hy
    have hperm_new : ∀ l' : MLayer, (allEnds (sortLayers (l' :: rest))).Perm (l'.ends ++ allEnds rest) := by
      intro l'
      have := allEnds_sortLayers (l' :: rest)
      rwa [allEnds_cons] at this
    -- a tie clause of this state transfers to the next state (captures shrink, the offset grows)
    have tieT : ∀ (dy : Nat) (c0 : RCap) (l' : MLayer) (off' : Nat), l'.depth = l.depth → (∀ c ∈ l'.caps, c ∈ l.caps) →
        off ≤ off' → c0.s ≤ off →
        (c0.s = off → ∀ h' ∈ l :: rest, dy < h'.depth → ∀ c ∈ h'.caps, c.s ≠ off) →
        (c0.s = off' → ∀ h' ∈ sortLayers (l' :: rest), dy < h'.depth → ∀ c ∈ h'.caps, c.s ≠ off') := by
      intro dy c0 l' off' hdl hcl hoff hs0 hold heq h' hh' hlt c hc
      have hoo : off' = off := by omega
      rw [hoo]
      rcases List.mem_cons.mp (mem_sortLayers hh') with hl' | hr
      · rw [hl'] at hlt hc
        exact hold (by omega) l List.mem_cons_self (by rw [← hdl]; exact hlt) c (hcl c hc)
      · exact hold (by omega) h' (List.mem_cons_of_mem _ hr) hlt c hc
    -- the next state's NInv when the head keeps its id and depth, its captures shrink and the offset grows
    have mkN : ∀ (l' : MLayer) (off' : Nat) (last' : Option (Nat × Nat × Nat)), l'.id = l.id → l'.depth = l.depth →
        off ≤ off' → (∀ c ∈ l'.caps, c ∈ l.caps) →
        (∀ e ∈ l'.ends, ∃ c0 ∈ spanCaps d, c0.e = e ∧ c0.s ≤ off' ∧
          (c0.s = off' → ∀ h' ∈ sortLayers (l' :: rest), l'.depth < h'.depth → ∀ c ∈ h'.caps, c.s ≠ off')) →
        NInv defs { layers := sortLayers (l' :: rest), off := off', last := last' } := by
      intro l' off' last' hid hdl hoff hcaps hends
      refine ⟨ids_sortLayers _ (by simpa [hid] using hv.ids), ?_⟩
      intro y hy
      rcases List.mem_cons.mp (mem_sortLayers hy) with hyl | hy'
      · rw [hyl]
        exact ⟨d, by rw [hid]; exact hd, by rw [hdl]; exact hdep, fun c hc => hcapsd c (hcaps c hc), hends⟩
      · obtain ⟨dy, h1, h1', h2, h3⟩ := hv.src y (List.mem_cons_of_mem _ hy')
        exact ⟨dy, h1, h1', h2, fun e he => by
          obtain ⟨c0, hc0, he0, hs0, ht0⟩ := h3 e he
          simp only at hs0 ht0
          exact ⟨c0, hc0, he0, by simp only; omega, tieT y.depth c0 l' off' hdl hcaps hoff hs0 ht0⟩⟩
    have keepEnds : ∀ (l' : MLayer) (off' : Nat), l'.depth = l.depth → (∀ c ∈ l'.caps, c ∈ l.caps) → off ≤ off' →
        ∀ e ∈ l.ends, ∃ c0 ∈ spanCaps d, c0.e = e ∧ c0.s ≤ off' ∧
          (c0.s = off' → ∀ h' ∈ sortLayers (l' :: rest), l'.depth < h'.depth → ∀ c ∈ h'.caps, c.s ≠ off') := by
      intro l' off' hdl hcl hoff e he
      obtain ⟨c0, hc0, he0, hs0, ht0⟩ := hendsd e he
      exact ⟨c0, hc0, he0, by omega, by rw [hdl]; exact tieT l.depth c0 l' off' hdl hcl hoff hs0 ht0⟩
    have hGp' : G.Perm (l.ends ++ allEnds rest) := by rw [← allEnds_cons]; exact hGp
    cases hact : action l with
    | final =>
      rw [hact] at h
      simp only at h
      split at h
      · exact absurd (action_final hact) (by rw [hk]; simp)
      · simp at h
    | pop eb ends' =>
      rw [hact] at h
      simp only [stepPop, StepRes.more.injEq] at h
      have he := action_pop hact
      have hkeb := action_pop_key hact hk
      obtain ⟨_, ke⟩ := key_le_all hl hk
      -- eb is at most every open end of every layer
      have hmin_all : ∀ e ∈ l.ends ++ allEnds rest, eb ≤ e := by
        intro e he'
        rcases List.mem_append.mp he' with h1 | h1
        · have := ke e h1; omega
        · obtain ⟨y, hy, hey⟩ := List.mem_flatMap.mp h1
          obtain ⟨ky, hky, hle⟩ := keyGe_pos (hmin y hy)
          have := (key_le_all (hrestI y hy) hky).2 e hey
          omega
      rw [← h.1, ← h.2]
      cases hG : G with
      | nil =>
        have : eb ∈ G := hGp'.symm.subset (by rw [he]; simp)
        rw [hG] at this; simp at this
      | cons g G' =>
        have hgeq : g = eb := by
          have h1 : eb ≤ g := hmin_all g (hGp'.subset (by rw [hG]; exact List.mem_cons_self))
          have h2 : eb ∈ g :: G' := by rw [← hG]; exact hGp'.symm.subset (by rw [he]; simp)
          rcases List.mem_cons.mp h2 with h3 | h3
          · exact h3.symm
          · have := (List.pairwise_cons.mp (by rw [hG] at hGs; exact hGs)).1 eb h3; omega
        refine ⟨G', ?_, (List.pairwise_cons.mp (by rw [hG] at hGs; exact hGs)).2, ?_, ?_⟩
        · simp only [ghostStep, getLast_emit_stop, he, hgeq, if_true]
        · have h1 : (g :: G').Perm (eb :: (ends' ++ allEnds rest)) := by
            rw [← hG]; rw [he] at hGp'; exact hGp'
          rw [hgeq] at h1
          exact (List.Perm.cons_inv h1).trans (hperm_new { l with ends := ends' }).symm
        · have hoff' : off ≤ (emitM off eb .stop).2 := by unfold emitM; split <;> simp <;> omega
          exact mkN _ _ _ rfl rfl hoff' (fun c hc => hc) (fun e he' =>
            keepEnds { l with ends := ends' } _ rfl (fun c hc => hc) hoff' e (by rw [he]; exact List.mem_cons_of_mem _ he'))
    | take c caps' =>
      rw [hact] at h
      simp only at h
      have hc := action_take hact
      have hkc := action_take_key hact hk
      have hcd : c ∈ d.caps := hcapsd c (by rw [hc]; exact List.mem_cons_self)
      have htail : ∀ x ∈ caps', x ∈ l.caps := fun x hx => by rw [hc]; exact List.mem_cons_of_mem _ hx
      have hskip : ∀ cs, (∀ x ∈ cs, x ∈ caps') →
          ∃ G', ghostStep { layers := l :: rest, off := off, last := last } [] G = some G' ∧ G'.Pairwise (· ≤ ·) ∧
            G'.Perm (allEnds (sortLayers ({ l with caps := cs } :: rest))) ∧
            NInv defs { layers := sortLayers ({ l with caps := cs } :: rest), off := off, last := last } := by
        intro cs hcs
        refine ⟨G, by simp [ghostStep], hGs, ?_, mkN _ _ _ rfl rfl (Nat.le_refl _) (fun x hx => htail x (hcs x hx))
          (keepEnds { l with caps := cs } off rfl (fun x hx => htail x (hcs x hx)) (Nat.le_refl _))⟩
        exact hGp'.trans (hperm_new { l with caps := cs }).symm
      cases hkind : c.kind with
      | inj ids =>
        have h1 := List.all_eq_true.mp hni d (List.mem_of_getElem? hd)
        have h2 := List.all_eq_true.mp h1 c hcd
        rw [hkind] at h2; simp at h2
      | hl hh =>
        rw [hkind] at h
        simp only at h
        split at h
        · simp only [stepSkip, StepRes.more.injEq] at h
          rw [← h.1, ← h.2]; exact hskip caps' (fun x hx => hx)
        · split at h
          · rename_i hh2 hcol
            simp only [stepStart, StepRes.more.injEq] at h
            rw [← h.1, ← h.2]
            have hcsp : c ∈ spanCaps d := by
              unfold spanCaps
              refine List.mem_filter.mpr ⟨hcd, List.any_eq_true.mpr ?_⟩
              rcases collapse_fst_some caps' hh hcol with h1 | ⟨c', h1, h2, h3⟩
              · exact ⟨c, hcd, by simp [hlSome, hkind, h1]⟩
              · exact ⟨c', hcapsd c' (htail c' h1), by simp [hlSome, h3, h2]⟩
            -- the new span ends at or before every open end of every layer
            have hcok := hl.capsok
            rw [hc] at hcok
            obtain ⟨hse, _, _⟩ := capsOkR_cons hcok
            have hoc := hl.capsGe c (by rw [hc]; exact List.mem_cons_self)
            have hown : ∀ e ∈ l.ends, c.e ≤ e := by
              intro e he
              have hgt : c.s < e := by
                exact open_end_gt hl hk (by rw [hkc]; exact keyLt_irrefl _) e he
              rcases hl.nest e he c (by rw [hc]; exact List.mem_cons_self) with h1 | h1
              · omega
              · exact h1
            have hother : ∀ e ∈ allEnds rest, c.e ≤ e := by
              intro e he
              obtain ⟨y, hy, hey⟩ := List.mem_flatMap.mp he
              obtain ⟨ky, hky, hge⟩ := hmin y hy
              rw [hkc] at hge
              have hgt := open_end_gt (hrestI y hy) hky hge e hey
              obtain ⟨dy, hdy, hdepy, _, h3⟩ := hv.src y (List.mem_cons_of_mem _ hy)
              obtain ⟨c0, hc0, he0, hs0, ht0⟩ := h3 e hey
              simp only at hs0 ht0
              have hcn := crossNice_spec hx (hidl y hy) hdy hd hc0 hcsp
              have hcn' := crossNice_spec hx (Ne.symm (hidl y hy)) hd hdy hcsp hc0
              by_cases hlt : c0.s < c.s
              · have := hcn.1 hlt (by omega)
                omega
              · have heq : c0.s = c.s := by omega
                by_cases hne : c.s < c.e
                · obtain ⟨q1, q2⟩ := hcn'.2 heq.symm hne (by omega)
                  by_cases hdd : d.depth < dy.depth
                  · have := q2 hdd; omega
                  · exfalso
                    exact ht0 (by omega) l List.mem_cons_self (by omega) c (by rw [hc]; exact List.mem_cons_self) (by omega)
                · omega
            refine ⟨c.e :: G, ?_, ?_, ?_, ?_⟩
            · simp only [ghostStep, getLast_emit_start, hc]
            · refine List.pairwise_cons.mpr ⟨fun e he => ?_, hGs⟩
              rcases List.mem_append.mp (hGp'.subset he) with h1 | h1
              · exact hown e h1
              · exact hother e h1
            · exact (List.Perm.cons _ hGp').trans
                (hperm_new { l with caps := (collapse c.node hh caps').2, ends := c.e :: l.ends }).symm
            · have hoff' : ∀ hx, off ≤ (emitM off c.s (.start hx)).2 := by
                intro hx; unfold emitM; split <;> simp <;> omega
              have hoffc : ∀ hx, c.s ≤ (emitM off c.s (.start hx)).2 := by
                intro hx; unfold emitM; split <;> simp <;> omega
              refine mkN _ _ _ rfl rfl (hoff' _) (fun x hx => htail x (mem_collapse' hx)) ?_
              intro e he
              rcases List.mem_cons.mp he with rfl | he'
              · refine ⟨c, hcsp, rfl, hoffc _, ?_⟩
                intro heq h' hh' hlt c' hc' hcs
                rcases List.mem_cons.mp (mem_sortLayers hh') with hl' | hr
                · rw [hl'] at hlt; exact absurd hlt (Nat.lt_irrefl _)
                · obtain ⟨ky, hky, hge⟩ := hmin h' hr
                  rw [hkc] at hge
                  have hle := (key_le_all (hrestI h' hr) hky).1 c' hc'
                  have hkd := sortKey_depth hky
                  obtain ⟨a1, a2, a3⟩ := ky
                  simp only at hle hkd hlt
                  cases a2 <;> simp [keyLt] at hge <;> omega
              · exact keepEnds { l with caps := (collapse c.node hh caps').2, ends := c.e :: l.ends } _ rfl
                  (fun x hx => htail x (mem_collapse' hx)) (hoff' _) e he'
          · simp only [stepSkip, StepRes.more.injEq] at h
            rw [← h.1, ← h.2]; exact hskip _ (fun x hx => mem_collapse' hx)

/-! ## the initial state and the iteration -/

theorem ids_insGo (k : Key) (nl : MLayer) : ∀ (ls : List MLayer), (ls.map (·.id)).Nodup → nl.id ∉ ls.map (·.id) →
    ((insGo k nl ls).map (·.id)).Nodup := by
  intro ls
  induction ls with
  | nil => intro _ _; simp [insGo]
  | cons li r ih =>
    intro hnd hni
    have hnd' : li.id ∉ r.map (·.id) ∧ (r.map (·.id)).Nodup := by simpa using hnd
    have hni' : nl.id ≠ li.id ∧ nl.id ∉ r.map (·.id) := by simpa using hni
    unfold insGo
    cases sortKey li with
    | none => exact ih hnd'.2 hni'.2
    | some ki =>
      simp only
      split
      · simp only [List.map_cons]
        exact List.nodup_cons.mpr ⟨by simpa using hni, by simpa using hnd⟩
      · simp only [List.map_cons]
        refine List.nodup_cons.mpr ⟨?_, ih hnd'.2 hni'.2⟩
        intro hmem
        obtain ⟨y, hy, hyid⟩ := List.mem_map.mp hmem
        rcases mem_insGo hy with h1 | h1
        · exact hnd'.1 (by rw [← hyid]; exact List.mem_map_of_mem h1)
        · rw [h1] at hyid; exact hni'.1 hyid

theorem ids_insertLayer (ls : List MLayer) (nl : MLayer) (hnd : (ls.map (·.id)).Nodup) (hni : nl.id ∉ ls.map (·.id)) :
    ((insertLayer ls nl).map (·.id)).Nodup := by
  unfold insertLayer
  cases sortKey nl with
  | none => exact hnd
  | some k =>
    cases ls with
    | nil => simp
    | cons l0 rest =>
      simp only [List.map_cons]
      have hnd' : l0.id ∉ rest.map (·.id) ∧ (rest.map (·.id)).Nodup := by simpa using hnd
      have hni' : nl.id ≠ l0.id ∧ nl.id ∉ rest.map (·.id) := by simpa using hni
      refine List.nodup_cons.mpr ⟨?_, ids_insGo k nl rest hnd'.2 hni'.2⟩
      intro hmem
      obtain ⟨y, hy, hyid⟩ := List.mem_map.mp hmem
      rcases mem_insGo hy with h1 | h1
      · exact hnd'.1 (by rw [← hyid]; exact List.mem_map_of_mem h1)
      · rw [h1] at hyid; exact hni'.1 hyid

theorem ids_fold_insertLayer : ∀ (r base : List MLayer), ((base ++ r).map (·.id)).Nodup →
    ((r.foldl insertLayer base).map (·.id)).Nodup ∧ ∀ y ∈ r.foldl insertLayer base, y ∈ base ∨ y ∈ r := by
  intro r
  induction r with
  | nil => intro base h; exact ⟨by simpa using h, fun y hy => Or.inl hy⟩
  | cons x r ih =>
    intro base h
    simp only [List.foldl_cons]
    have hall : ((base.map (·.id)) ++ x.id :: r.map (·.id)).Nodup := by simpa using h
    have hb : (base.map (·.id)).Nodup := (List.nodup_append.mp hall).1
    have hx : x.id ∉ base.map (·.id) := by
      intro hm
      exact (List.nodup_append.mp hall).2.2 _ hm _ (List.mem_cons_self) rfl
    have h1 := ids_insertLayer base x hb hx
    -- the ids of `insertLayer base x ++ r` are still distinct
    have hnext : ((insertLayer base x ++ r).map (·.id)).Nodup := by
      rw [List.map_append]
      refine List.nodup_append.mpr ⟨h1, (List.nodup_cons.mp (List.nodup_append.mp hall).2.1).2, ?_⟩
      intro a ha b hb' hab
      subst hab
      obtain ⟨y, hy, rfl⟩ := List.mem_map.mp ha
      rcases mem_insertLayer hy with h2 | h2
      · exact (List.nodup_append.mp hall).2.2 _ (List.mem_map_of_mem h2) _ (List.mem_cons_of_mem _ hb') rfl
      · rw [h2] at hb'
        exact (List.nodup_cons.mp (List.nodup_append.mp hall).2.1).1 hb'
    obtain ⟨i1, i2⟩ := ih (insertLayer base x) hnext
    refine ⟨i1, fun y hy => ?_⟩
    rcases i2 y hy with h2 | h2
    · rcases mem_insertLayer h2 with h3 | h3
      · exact Or.inl h3
      · exact Or.inr (by rw [h3]; exact List.mem_cons_self)
    · exact Or.inr (List.mem_cons_of_mem _ h2)

theorem ids_filterMap_mk (defs : List LayerDef) : ∀ (top : List Nat), top.Nodup →
    ((top.filterMap (mkLayer defs)).map (·.id)).Nodup ∧ ∀ y ∈ top.filterMap (mkLayer defs), y.id ∈ top := by
  intro top
  induction top with
  | nil => intro _; simp
  | cons t r ih =>
    intro h
    obtain ⟨ht, hr⟩ := List.nodup_cons.mp h
    obtain ⟨i1, i2⟩ := ih hr
    cases hm : mkLayer defs t with
    | none =>
      simp only [List.filterMap_cons, hm]
      exact ⟨i1, fun y hy => List.mem_cons_of_mem _ (i2 y hy)⟩
    | some nl =>
      simp only [List.filterMap_cons, hm]
      have hid : nl.id = t := by
        unfold mkLayer at hm
        cases hg : defs[t]? with
        | none => rw [hg] at hm; simp at hm
        | some d => rw [hg] at hm; simp only [Option.map_some, Option.some.injEq] at hm; rw [← hm]
      refine ⟨?_, ?_⟩
      · simp only [List.map_cons]
        refine List.nodup_cons.mpr ⟨?_, i1⟩
        intro hmem
        obtain ⟨y, hy, hyid⟩ := List.mem_map.mp hmem
        exact ht (by rw [← hid, ← hyid]; exact i2 y hy)
      · intro y hy
        rcases List.mem_cons.mp hy with rfl | hy'
        · rw [hid]; exact List.mem_cons_self
        · exact List.mem_cons_of_mem _ (i2 y hy')

theorem init_ninv (defs : List LayerDef) (top : List Nat) (hnd : top.Nodup) :
    NInv defs { layers := initLayersR defs top } := by
  obtain ⟨h1, _⟩ := ids_filterMap_mk defs top hnd
  have hsrc : ∀ y ∈ top.filterMap (mkLayer defs), ∃ d, defs[y.id]? = some d ∧ y.depth = d.depth ∧ (∀ c ∈ y.caps, c ∈ d.caps) ∧ y.ends = [] := by
    intro y hy
    obtain ⟨id, _, hm⟩ := List.mem_filterMap.mp hy
    unfold mkLayer at hm
    cases hg : defs[id]? with
    | none => rw [hg] at hm; simp at hm
    | some d =>
      rw [hg] at hm
      simp only [Option.map_some, Option.some.injEq] at hm
      subst hm
      exact ⟨d, hg, rfl, fun c hc => hc, rfl⟩
  unfold initLayersR
  cases hf : top.filterMap (mkLayer defs) with
  | nil => exact ⟨by simp, fun y hy => by simp at hy⟩
  | cons l0 r =>
    simp only
    rw [hf] at h1 hsrc
    obtain ⟨i1, i2⟩ := ids_fold_insertLayer r [l0] (by simpa using h1)
    refine ⟨ids_sortLayers _ i1, ?_⟩
    intro y hy
    have hy' : y ∈ l0 :: r := by
      rcases i2 y (mem_sortLayers hy) with h | h
      · simp at h; rw [h]; exact List.mem_cons_self
      · exact List.mem_cons_of_mem _ h
    obtain ⟨d, hd, hdp, hc, he⟩ := hsrc y hy'
    exact ⟨d, hd, hdp, hc, fun e hee => by rw [he] at hee; simp at hee⟩

/-- Along the whole run: every End closes the top of the global stack (the run with the ghost stack
never fails), the stack is sorted by end and is a permutation of all layers' end stacks. -/
theorem iterG_well_nested (defs : List LayerDef) (hn : DefsNice defs) (hni : noInj defs = true)
    (hx : crossNice defs = true) (n : Nat) : ∀ (k : Nat) (st st' : MSt) (G : List Nat),
    OInv st → NInv defs st → G.Pairwise (· ≤ ·) → G.Perm (allEnds st.layers) → iterM defs n k st = some st' →
    ∃ G', iterG defs n k st G = some (st', G') ∧ G'.Pairwise (· ≤ ·) ∧ G'.Perm (allEnds st'.layers) := by
  intro k
  induction k with
  | zero =>
    intro st st' G _ _ h3 h4 h
    simp only [iterM, Option.some.injEq] at h
    subst h
    exact ⟨G, rfl, h3, h4⟩
  | succ k ih =>
    intro st st' G ho hv h3 h4 h
    unfold iterM at h
    unfold iterG
    cases hstep : stepM defs n st with
    | done evs => rw [hstep] at h; simp at h
    | more evs st1 =>
      rw [hstep] at h
      simp only
      obtain ⟨G1, g1, g2, g3, g4⟩ := stepM_well_nested defs hn hni hx n st st1 evs G ho hv h3 h4 hstep
      rw [g1]
      simp only
      have hlay : ∀ l ∈ st.layers, ∀ c ∈ l.caps, ∀ ids, c.kind = .inj ids → ∀ j ∈ ids, ∀ d', defs[j]? = some d' →
          ∀ c' ∈ d'.caps, c.s ≤ c'.s := by
        intro l hl c hc ids hk
        obtain ⟨d, hd, _, hcd, _⟩ := hv.src l hl
        have h1 := List.all_eq_true.mp hni d (List.mem_of_getElem? hd)
        have h2 := List.all_eq_true.mp h1 c (hcd c hc)
        rw [hk] at h2; simp at h2
      exact ih st1 st' G1 (stepM_keeps_oinv defs hn n st st1 evs ho hlay hstep) g4 g2 g3 h

theorem allEnds_nil_of : ∀ (ls : List MLayer), (∀ y ∈ ls, y.ends = []) → allEnds ls = [] := by
  intro ls
  induction ls with
  | nil => intro _; rfl
  | cons y r ih =>
    intro h
    rw [allEnds_cons, h y (List.mem_cons_self), ih (fun z hz => h z (List.mem_cons_of_mem _ hz))]
    rfl

/-- The decidable premise of `merge_well_nested_partial`: static layers (no injection capture), each
layer's captures in order (start order, nested or disjoint, nesting order), different layers laminar
and tie-free at starts. -/
def staticNice (defs : List LayerDef) : Bool :=
  (defs.all fun d => capsOkR d.caps) && noInj defs && crossNice defs

theorem defsNice_of_static {defs : List LayerDef} (h1 : (defs.all fun d => capsOkR d.caps) = true)
    (h2 : noInj defs = true) : DefsNice defs := by
  refine ⟨fun d hd => List.all_eq_true.mp h1 d hd, ?_⟩
  intro d hd c hc ids hk
  have := List.all_eq_true.mp (List.all_eq_true.mp h2 d hd) c hc
  rw [hk] at this; simp at this

end TsVerif.C17
