import TsVerif.C17.Dyn
/-!
# C17: the merged multi-layer stream is well nested

Layers whose captures are in order inside each layer (`DefsNice`), whose span captures are pairwise
laminar across layers with start ties oriented the way the code emits them (`crossNice`), created
either by `Highlighter::highlight` or DURING the run by injection captures (`refsUp`, every id
referenced at most once, `injTieOkP`): keep the GLOBAL stack of the ends of the open spans by stack
discipline — push the capture's end at every `HighlightStart`, pop at every `HighlightEnd`.  Then at
every `HighlightEnd` the top of that stack is exactly the end being closed (the End closes the most
recently opened still-open span, and that span ends here), the stack is always sorted by end and is
a permutation of all layers' `highlight_end_stack`s.
-/
namespace TsVerif.C17

def allEnds (ls : List MLayer) : List Nat := ls.flatMap (·.ends)

theorem allEnds_cons (l : MLayer) (r : List MLayer) : allEnds (l :: r) = l.ends ++ allEnds r := by
  simp [allEnds]

theorem allEnds_append (a b : List MLayer) : allEnds (a ++ b) = allEnds a ++ allEnds b := by
  simp [allEnds]

theorem allEnds_sortLayers (ls : List MLayer) : (allEnds (sortLayers ls)).Perm (allEnds ls) := by
  induction ls with
  | nil => exact List.Perm.refl _
  | cons l0 rest ih =>
    unfold sortLayers
    cases hk : sortKey l0 with
    | none =>
      simp only
      rw [allEnds_cons, (sortKey_none hk).2]
      simpa using ih
    | some k =>
      simp only
      rw [allEnds_append, allEnds_cons, allEnds_cons]
      have h1 : (allEnds (rest.take (leadCount k rest)) ++ (l0.ends ++ allEnds (rest.drop (leadCount k rest)))).Perm
          (l0.ends ++ (allEnds (rest.take (leadCount k rest)) ++ allEnds (rest.drop (leadCount k rest)))) := by
        rw [← List.append_assoc, ← List.append_assoc]
        exact List.Perm.append_right _ List.perm_append_comm
      rw [← allEnds_append, List.take_append_drop] at h1
      exact h1

theorem ids_sortLayers (ls : List MLayer) (h : (ls.map (·.id)).Nodup) : ((sortLayers ls).map (·.id)).Nodup := by
  induction ls with
  | nil => exact List.nodup_nil
  | cons l0 rest ih =>
    have hr : (rest.map (·.id)).Nodup := (List.nodup_cons.mp (by simpa using h)).2
    unfold sortLayers
    cases hk : sortKey l0 with
    | none => exact ih hr
    | some k =>
      simp only
      have hp : (rest.take (leadCount k rest) ++ l0 :: rest.drop (leadCount k rest)).Perm (l0 :: rest) := by
        have := @List.perm_middle _ l0 (rest.take (leadCount k rest)) (rest.drop (leadCount k rest))
        rw [List.take_append_drop] at this
        exact this
      exact (List.Perm.nodup_iff (hp.map _)).mpr h

/-- No injection capture: the layers are static data. -/
def noInj (defs : List LayerDef) : Bool :=
  defs.all fun d => d.caps.all fun c => match c.kind with | .hl _ => true | .inj _ => false

/-- Different layers, over the captures that can become spans: a capture that starts strictly
inside another layer's capture ends inside it (laminar); two non-empty captures that start at the
same byte belong to layers of different depths and the SHALLOWER layer's capture is not the longer
one (the code emits the deeper layer's Start first at a tie -- the same orientation as the StackSpec
judge's `startTiesOk`). -/
def crossNice (defs : List LayerDef) : Bool :=
  (List.range defs.length).all fun i => (List.range defs.length).all fun j =>
    i == j ||
    match defs[i]?, defs[j]? with
    | some di, some dj => (spanCaps di).all fun a => (spanCaps dj).all fun b =>
        (!(a.s < b.s && b.s < a.e) || decide (b.e ≤ a.e)) &&
        (!(a.s == b.s && a.s < a.e && b.s < b.e) ||
          (di.depth != dj.depth && (!(di.depth < dj.depth) || decide (a.e ≤ b.e))))
    | _, _ => true

/-- The laminar half of `crossNice` alone (reporting only: splits the real cases that `crossNice`
excludes into "not laminar" and "start tie with the wrong orientation"). -/
def crossLam (defs : List LayerDef) : Bool :=
  (List.range defs.length).all fun i => (List.range defs.length).all fun j =>
    i == j ||
    match defs[i]?, defs[j]? with
    | some di, some dj => (spanCaps di).all fun a => (spanCaps dj).all fun b =>
        (!(a.s < b.s && b.s < a.e) || decide (b.e ≤ a.e))
    | _, _ => true

theorem crossNice_spec {defs : List LayerDef} (h : crossNice defs = true) {i j : Nat} {di dj : LayerDef}
    (hij : i ≠ j) (hi : defs[i]? = some di) (hj : defs[j]? = some dj) {a b : RCap}
    (ha : a ∈ spanCaps di) (hb : b ∈ spanCaps dj) :
    (a.s < b.s → b.s < a.e → b.e ≤ a.e) ∧
    (a.s = b.s → a.s < a.e → b.s < b.e → di.depth ≠ dj.depth ∧ (di.depth < dj.depth → a.e ≤ b.e)) := by
  have hil : i < defs.length := by
    rcases Nat.lt_or_ge i defs.length with h' | h'
    · exact h'
    · rw [List.getElem?_eq_none h'] at hi; simp at hi
  have hjl : j < defs.length := by
    rcases Nat.lt_or_ge j defs.length with h' | h'
    · exact h'
    · rw [List.getElem?_eq_none h'] at hj; simp at hj
  have h1 := List.all_eq_true.mp h i (List.mem_range.mpr hil)
  have h2 := List.all_eq_true.mp h1 j (List.mem_range.mpr hjl)
  simp only [Bool.or_eq_true, beq_iff_eq, hij, false_or, hi, hj] at h2
  have h3 := List.all_eq_true.mp (List.all_eq_true.mp h2 a ha) b hb
  simp only [Bool.and_eq_true, bne_iff_ne, ne_eq, Bool.or_eq_true, Bool.not_eq_true', decide_eq_true_eq,
    Bool.and_eq_false_iff, decide_eq_false_iff_not, beq_iff_eq, beq_eq_false_iff_ne] at h3
  refine ⟨fun h4 h5 => ?_, fun h4 h5 h6 => ⟨?_, fun h7 => ?_⟩⟩ <;> omega

/-- The global stack of open ends kept by stack discipline: `none` = an End found a top that is
not the end being closed. -/
def ghostStep (st : MSt) (evs : List Ev) (G : List Nat) : Option (List Nat) :=
  match evs.getLast?, st.layers with
  | some .stop, l :: _ =>
    (match l.ends, G with
     | eb :: _, g :: G' => if g = eb then some G' else none
     | _, _ => none)
  | some (.start _), l :: _ =>
    (match l.caps with
     | c :: _ => some (c.e :: G)
     | [] => none)
  | _, _ => some G

/-- `k` iterations with the ghost stack. -/
def iterG (defs : List LayerDef) (n : Nat) : Nat → MSt → List Nat → Option (MSt × List Nat)
  | 0, st, G => some (st, G)
  | k + 1, st, G =>
    match stepM defs n st with
    | .done _ => none
    | .more evs st' =>
      match ghostStep st evs G with
      | none => none
      | some G' => iterG defs n k st' G'

theorem keyLt_irrefl (a : Key) : keyLt a a = false := by
  obtain ⟨a1, a2, a3⟩ := a
  cases a2 <;> simp [keyLt]

theorem getLast_emit_stop (off t : Nat) : (emitM off t .stop).1.getLast? = some .stop := by
  unfold emitM; split <;> simp

theorem getLast_emit_start (off t h : Nat) : (emitM off t (.start h)).1.getLast? = some (.start h) := by
  unfold emitM; split <;> simp

theorem action_pop_key {l : MLayer} {eb : Nat} {ends' : List Nat} {k : Key} (hact : action l = .pop eb ends')
    (hk : sortKey l = some k) : k.1 = eb := by
  have he := action_pop hact
  unfold sortKey at hk
  unfold action at hact
  rw [he] at hk hact
  cases hcaps : l.caps with
  | nil => rw [hcaps] at hk; simp at hk; rw [← hk]
  | cons c r =>
    rw [hcaps] at hk hact
    simp only at hk hact
    by_cases hle : eb ≤ c.s
    · have : ¬ c.s < eb := by omega
      simp only [this, if_false, Option.some.injEq] at hk; rw [← hk]
    · simp [hle] at hact

theorem action_take_key {l : MLayer} {c : RCap} {caps' : List RCap} {k : Key} (hact : action l = .take c caps')
    (hk : sortKey l = some k) : k = (c.s, true, l.depth) := by
  have hc := action_take hact
  unfold sortKey at hk
  unfold action at hact
  rw [hc] at hk hact
  cases hends : l.ends with
  | nil => rw [hends] at hk; simp at hk; exact hk.symm
  | cons e0 r =>
    rw [hends] at hk hact
    simp only at hk hact
    by_cases hle : e0 ≤ c.s
    · simp [hle] at hact
    · have : c.s < e0 := by omega
      simp only [this, if_true, Option.some.injEq] at hk; exact hk.symm

/-- A layer that sorts at or after a START at `p` has all its open ends beyond `p`. -/
theorem open_end_gt {off p d : Nat} {y : MLayer} (hi : LInv off y) {ky : Key} (hky : sortKey y = some ky)
    (hge : keyLt ky (p, true, d) = false) : ∀ e ∈ y.ends, p < e := by
  intro e he
  obtain ⟨_, h2⟩ := key_le_all hi hky
  have hpos : p ≤ ky.1 := by
    obtain ⟨a1, a2, a3⟩ := ky
    simp [keyLt] at hge
    by_cases h : a1 < p
    · exact absurd hge.1 (by omega)
    · simp only; omega
  have h3 := h2 e he
  by_cases heq : e = p
  · -- then the key of y is the END at p, which sorts before a start at p
    exfalso
    subst heq
    unfold sortKey at hky
    cases hends : y.ends with
    | nil => rw [hends] at he; simp at he
    | cons t r =>
      have hte : t ≤ e := by
        have hs := hi.endsSorted
        rw [hends] at hs he
        rcases List.mem_cons.mp he with rfl | hx
        · exact Nat.le_refl _
        · exact (List.pairwise_cons.mp hs).1 e hx
      have htk : ky.1 ≤ t := h2 t (by rw [hends]; exact List.mem_cons_self)
      rw [hends] at hky
      cases hcaps : y.caps with
      | nil =>
        rw [hcaps] at hky
        simp only [Option.some.injEq] at hky
        subst hky
        simp [keyLt] at hge
        omega
      | cons c r' =>
        rw [hcaps] at hky
        simp only at hky
        by_cases hlt : c.s < t
        · simp only [hlt, if_true, Option.some.injEq] at hky
          subst hky
          simp only at hpos; omega
        · simp only [hlt, if_false, Option.some.injEq] at hky
          subst hky
          simp [keyLt] at hge
          omega
  · omega

theorem sortKey_depth {y : MLayer} {k : Key} (h : sortKey y = some k) : k.2.2 = y.depth := by
  unfold sortKey at h
  split at h
  · split at h <;> (simp only [Option.some.injEq] at h; rw [← h])
  · simp only [Option.some.injEq] at h; rw [← h]
  · simp only [Option.some.injEq] at h; rw [← h]
  · simp at h

/-! ## end stacks through `insert_layer` -/

theorem cntE_insGo (a : Nat) (k : Key) (nl : MLayer) : ∀ ls : List MLayer,
    List.count a (allEnds (insGo k nl ls)) = List.count a nl.ends + List.count a (allEnds ls) := by
  intro ls
  induction ls with
  | nil => simp [insGo, allEnds]
  | cons li r ih =>
    unfold insGo
    cases hk : sortKey li with
    | none =>
      simp only
      rw [allEnds_cons, (sortKey_none hk).2, ih]
      simp
    | some ki =>
      simp only
      split
      · simp only [allEnds_cons, List.count_append]
      · simp only [allEnds_cons, List.count_append, ih]; omega

theorem cntE_insertLayer (a : Nat) (ls : List MLayer) (nl : MLayer) (he : nl.ends = []) :
    List.count a (allEnds (insertLayer ls nl)) = List.count a (allEnds ls) := by
  unfold insertLayer
  cases sortKey nl with
  | none => rfl
  | some k =>
    cases ls with
    | nil => simp [allEnds, he]
    | cons l0 rest =>
      simp only [allEnds_cons, List.count_append, cntE_insGo, he]
      simp

theorem cntE_fold (defs : List LayerDef) (a : Nat) : ∀ (ids : List Nat) (ls : List MLayer),
    List.count a (allEnds (ids.foldl (insertById defs) ls)) = List.count a (allEnds ls) := by
  intro ids
  induction ids with
  | nil => intro ls; rfl
  | cons j r ih =>
    intro ls
    simp only [List.foldl_cons]
    rw [ih]
    unfold insertById
    cases hm : mkLayer defs j with
    | none => rfl
    | some nl =>
      simp only
      obtain ⟨_, _, _, _, _, he⟩ := mkLayer_some hm
      exact cntE_insertLayer a ls nl he

theorem allEnds_fold_insertById (defs : List LayerDef) (ids : List Nat) (ls : List MLayer) :
    (allEnds (ids.foldl (insertById defs) ls)).Perm (allEnds ls) :=
  List.perm_iff_count.mpr fun a => cntE_fold defs a ids ls

/-- Layer identity and provenance.  `pend`: the ids the state owns (live ids and the trees of the
pending injection references) are distinct.  `src`: every live layer is a suffix of its table entry;
every open end is the end of a span capture in the consumed prefix that started at or before the
offset, and if it started AT the offset then no DEEPER live layer has a pending span capture there. -/
structure NInv (defs : List LayerDef) (st : MSt) : Prop where
  pend : (allP defs st.layers).Nodup
  src : ∀ y ∈ st.layers, ∃ d pre, defs[y.id]? = some d ∧ y.depth = d.depth ∧ d.caps = pre ++ y.caps ∧
    ∀ e ∈ y.ends, ∃ c0 ∈ pre, isSpan d c0 = true ∧ c0.e = e ∧ c0.s ≤ st.off ∧
      (c0.s = st.off → ∀ h' ∈ st.layers, y.depth < h'.depth → ∀ dh, defs[h'.id]? = some dh →
        ∀ c ∈ h'.caps, isSpan dh c = true → c.s ≠ st.off)

theorem NInv.ids {defs : List LayerDef} {st : MSt} (h : NInv defs st) : (st.layers.map (·.id)).Nodup :=
  nodup_ids_of_allP h.pend

/-- One iteration: the End closes the top of the global stack; the stack stays sorted and a
permutation of all end stacks; identity and provenance are kept — also through an injection capture
that creates layers. -/
theorem stepM_well_nested (defs : List LayerDef) (hn : DefsNice defs) (hr : refsUp defs = true)
    (hx : crossNice defs = true) (ht : injTieOkP defs = true) (n : Nat) (st st' : MSt) (evs : List Ev) (G : List Nat)
    (ho : OInv st) (hv : NInv defs st) (hGs : G.Pairwise (· ≤ ·)) (hGp : G.Perm (allEnds st.layers))
    (h : stepM defs n st = .more evs st') :
    ∃ G', ghostStep st evs G = some G' ∧ G'.Pairwise (· ≤ ·) ∧ G'.Perm (allEnds st'.layers) ∧ NInv defs st' := by
  obtain ⟨layers, off, last⟩ := st
  unfold stepM at h
  cases layers with
  | nil => simp at h
  | cons l rest =>
    simp only at h
    have hs := ho.sorted
    obtain ⟨k, hk, hmin⟩ := sorted_head_min hs
    have hl : LInv off l := ho.linv l (List.mem_cons_self)
    have hrestI : ∀ y ∈ rest, LInv off y := fun y hy => ho.linv y (List.mem_cons_of_mem _ hy)
    obtain ⟨d, pre, hd, hdep, hpre, hendsd⟩ := hv.src l (List.mem_cons_self)
    simp only at hendsd
    have hcapsd : ∀ c ∈ l.caps, c ∈ d.caps := fun c hc => by rw [hpre]; exact List.mem_append_right _ hc
    have hids : (∀ x ∈ rest, ¬x.id = l.id) ∧ (rest.map (·.id)).Nodup := by simpa using hv.ids
    have hidl : ∀ y ∈ rest, y.id ≠ l.id := fun y hy => hids.1 y hy
    have hperm_new : ∀ l' : MLayer, (allEnds (sortLayers (l' :: rest))).Perm (l'.ends ++ allEnds rest) := by
      intro l'
      have := allEnds_sortLayers (l' :: rest)
      rwa [allEnds_cons] at this
    -- a tie clause of this state transfers to a next state whose layers come from the old ones
    have tieT : ∀ (dy : Nat) (c0 : RCap) (l' : MLayer) (off' : Nat), l'.id = l.id → l'.depth = l.depth →
        (∀ c ∈ l'.caps, c ∈ l.caps) → off ≤ off' → c0.s ≤ off →
        (c0.s = off → ∀ h' ∈ l :: rest, dy < h'.depth → ∀ dh, defs[h'.id]? = some dh →
          ∀ c ∈ h'.caps, isSpan dh c = true → c.s ≠ off) →
        (c0.s = off' → ∀ h' ∈ l' :: rest, dy < h'.depth → ∀ dh, defs[h'.id]? = some dh →
          ∀ c ∈ h'.caps, isSpan dh c = true → c.s ≠ off') := by
      intro dy c0 l' off' hid hdl hcl hoff hs0 hold heq h' hh' hlt dh hdh c hc hsp
      have hoo : off' = off := by omega
      rw [hoo]
      rcases List.mem_cons.mp hh' with hl' | hr'
      · rw [hl'] at hlt hc hdh
        exact hold (by omega) l List.mem_cons_self (by rw [← hdl]; exact hlt) dh (by rw [← hid]; exact hdh) c (hcl c hc) hsp
      · exact hold (by omega) h' (List.mem_cons_of_mem _ hr') hlt dh hdh c hc hsp
    -- the next state's NInv when the head keeps its id and depth, drops a prefix of its captures and
    -- the offset grows
    have mkN : ∀ (l' : MLayer) (off' : Nat) (last' : Option (Nat × Nat × Nat)) (mid : List RCap),
        l'.id = l.id → l'.depth = l.depth → off ≤ off' → l.caps = mid ++ l'.caps →
        (∀ e ∈ l'.ends, ∃ c0 ∈ pre ++ mid, isSpan d c0 = true ∧ c0.e = e ∧ c0.s ≤ off' ∧
          (c0.s = off' → ∀ h' ∈ sortLayers (l' :: rest), l'.depth < h'.depth → ∀ dh, defs[h'.id]? = some dh →
            ∀ c ∈ h'.caps, isSpan dh c = true → c.s ≠ off')) →
        NInv defs { layers := sortLayers (l' :: rest), off := off', last := last' } := by
      intro l' off' last' mid hid hdl hoff hmid hends
      have hcl : ∀ c ∈ l'.caps, c ∈ l.caps := fun c hc => by rw [hmid]; exact List.mem_append_right _ hc
      refine ⟨nodup_head_suffix hid hmid hv.pend, ?_⟩
      intro y hy
      rcases List.mem_cons.mp (mem_sortLayers hy) with hyl | hy'
      · rw [hyl]
        exact ⟨d, pre ++ mid, by rw [hid]; exact hd, by rw [hdl]; exact hdep,
          by rw [hpre, hmid, List.append_assoc], hends⟩
      · obtain ⟨dy, prey, h1, h1', h2, h3⟩ := hv.src y (List.mem_cons_of_mem _ hy')
        exact ⟨dy, prey, h1, h1', h2, fun e he => by
          obtain ⟨c0, hc0, hsp0, he0, hs0, ht0⟩ := h3 e he
          simp only at hs0 ht0
          exact ⟨c0, hc0, hsp0, he0, by simp only; omega, fun heq h' hh' =>
            tieT y.depth c0 l' off' hid hdl hcl hoff hs0 ht0 heq h' (mem_sortLayers hh')⟩⟩
    have keepEnds : ∀ (l' : MLayer) (off' : Nat) (mid : List RCap), l'.id = l.id → l'.depth = l.depth →
        l.caps = mid ++ l'.caps → off ≤ off' →
        ∀ e ∈ l.ends, ∃ c0 ∈ pre ++ mid, isSpan d c0 = true ∧ c0.e = e ∧ c0.s ≤ off' ∧
          (c0.s = off' → ∀ h' ∈ sortLayers (l' :: rest), l'.depth < h'.depth → ∀ dh, defs[h'.id]? = some dh →
            ∀ c ∈ h'.caps, isSpan dh c = true → c.s ≠ off') := by
      intro l' off' mid hid hdl hmid hoff e he
      have hcl : ∀ c ∈ l'.caps, c ∈ l.caps := fun c hc => by rw [hmid]; exact List.mem_append_right _ hc
      obtain ⟨c0, hc0, hsp0, he0, hs0, ht0⟩ := hendsd e he
      exact ⟨c0, List.mem_append_left _ hc0, hsp0, he0, by omega, fun heq h' hh' => by
        rw [hdl]; exact tieT l.depth c0 l' off' hid hdl hcl hoff hs0 ht0 heq h' (mem_sortLayers hh')⟩
    have hGp' : G.Perm (l.ends ++ allEnds rest) := by rw [← allEnds_cons]; exact hGp
    cases hact : action l with
    | final =>
      rw [hact] at h
      simp only at h
      split at h
      · exact absurd (action_final hact) (by rw [hk]; simp)
      · simp at h
    | pop eb ends' =>
      rw [hact] at h
      simp only [stepPop, StepRes.more.injEq] at h
      have he := action_pop hact
      have hkeb := action_pop_key hact hk
      obtain ⟨_, ke⟩ := key_le_all hl hk
      -- eb is at most every open end of every layer
      have hmin_all : ∀ e ∈ l.ends ++ allEnds rest, eb ≤ e := by
        intro e he'
        rcases List.mem_append.mp he' with h1 | h1
        · have := ke e h1; omega
        · obtain ⟨y, hy, hey⟩ := List.mem_flatMap.mp h1
          obtain ⟨ky, hky, hle⟩ := keyGe_pos (hmin y hy)
          have := (key_le_all (hrestI y hy) hky).2 e hey
          omega
      rw [← h.1, ← h.2]
      cases hG : G with
      | nil =>
        have : eb ∈ G := hGp'.symm.subset (by rw [he]; simp)
        rw [hG] at this; simp at this
      | cons g G' =>
        have hgeq : g = eb := by
          have h1 : eb ≤ g := hmin_all g (hGp'.subset (by rw [hG]; exact List.mem_cons_self))
          have h2 : eb ∈ g :: G' := by rw [← hG]; exact hGp'.symm.subset (by rw [he]; simp)
          rcases List.mem_cons.mp h2 with h3 | h3
          · exact h3.symm
          · have := (List.pairwise_cons.mp (by rw [hG] at hGs; exact hGs)).1 eb h3; omega
        refine ⟨G', ?_, (List.pairwise_cons.mp (by rw [hG] at hGs; exact hGs)).2, ?_, ?_⟩
        · simp only [ghostStep, getLast_emit_stop, he, hgeq, if_true]
        · have h1 : (g :: G').Perm (eb :: (ends' ++ allEnds rest)) := by
            rw [← hG]; rw [he] at hGp'; exact hGp'
          rw [hgeq] at h1
          exact (List.Perm.cons_inv h1).trans (hperm_new { l with ends := ends' }).symm
        · have hoff' : off ≤ (emitM off eb .stop).2 := by unfold emitM; split <;> simp <;> omega
          exact mkN _ _ _ [] rfl rfl hoff' rfl (fun e he' =>
            keepEnds { l with ends := ends' } _ [] rfl rfl rfl hoff' e (by rw [he]; exact List.mem_cons_of_mem _ he'))
    | take c caps' =>
      rw [hact] at h
      simp only at h
      have hc := action_take hact
      have hkc := action_take_key hact hk
      have hcd : c ∈ d.caps := hcapsd c (by rw [hc]; exact List.mem_cons_self)
      have htail : ∀ x ∈ caps', x ∈ l.caps := fun x hx => by rw [hc]; exact List.mem_cons_of_mem _ hx
      have hoc := hl.capsGe c (by rw [hc]; exact List.mem_cons_self)
      -- the open ends of every layer lie beyond the start of the capture taken
      have hownGt : ∀ e ∈ l.ends, c.s < e := fun e he =>
        open_end_gt hl hk (by rw [hkc]; exact keyLt_irrefl _) e he
      have hrestGt : ∀ y ∈ rest, ∀ e ∈ y.ends, c.s < e := by
        intro y hy e hey
        obtain ⟨ky, hky, hge⟩ := hmin y hy
        rw [hkc] at hge
        exact open_end_gt (hrestI y hy) hky hge e hey
      have hskip : ∀ (cs mid : List RCap), l.caps = mid ++ cs →
          ∃ G', ghostStep { layers := l :: rest, off := off, last := last } [] G = some G' ∧ G'.Pairwise (· ≤ ·) ∧
            G'.Perm (allEnds (sortLayers ({ l with caps := cs } :: rest))) ∧
            NInv defs { layers := sortLayers ({ l with caps := cs } :: rest), off := off, last := last } := by
        intro cs mid hmid
        refine ⟨G, by simp [ghostStep], hGs, ?_, mkN _ _ _ mid rfl rfl (Nat.le_refl _) hmid
          (keepEnds { l with caps := cs } off mid rfl rfl hmid (Nat.le_refl _))⟩
        exact hGp'.trans (hperm_new { l with caps := cs }).symm
      cases hkind : c.kind with
      | inj ids =>
        rw [hkind] at h
        simp only [stepInj, StepRes.more.injEq] at h
        rw [← h.1, ← h.2]
        have hinj : ∀ j ∈ ids, ∀ d', defs[j]? = some d' → ∀ c' ∈ d'.caps, c.s ≤ c'.s :=
          hn.2 d (List.mem_of_getElem? hd) c hcd ids hkind
        have hji : ∀ j ∈ ids, j ∈ injIds c := fun j hj => by unfold injIds; rw [hkind]; exact hj
        have hdcaps : d.caps = pre ++ c :: caps' := by rw [hpre, hc]
        have hmemF := mem_fold_insertById defs ids ({ l with caps := caps' } :: rest)
        -- a tie clause of this state holds against the new layer list
        have newT : ∀ (yd kk : Nat) (dk : LayerDef) (c0 : RCap), defs[kk]? = some dk → yd = dk.depth →
            (if kk = l.id then c0 ∈ pre ∧ isSpan d c0 = true else c0 ∈ spanCaps dk) → c.s < c0.e → c0.s ≤ off →
            (c0.s = off → ∀ h' ∈ l :: rest, yd < h'.depth → ∀ dh, defs[h'.id]? = some dh →
              ∀ c ∈ h'.caps, isSpan dh c = true → c.s ≠ off) →
            (c0.s = off → ∀ h' ∈ sortLayers (ids.foldl (insertById defs) ({ l with caps := caps' } :: rest)),
              yd < h'.depth → ∀ dh, defs[h'.id]? = some dh → ∀ c ∈ h'.caps, isSpan dh c = true → c.s ≠ off) := by
          intro yd kk dk c0 hkk hyd ha hgt hs0 hold heq h' hh' hlt dh hdh c'' hc'' hsp
          rcases hmemF h' (mem_sortLayers hh') with hold' | ⟨j, hj, hm⟩
          · exact tieT yd c0 { l with caps := caps' } off rfl rfl htail (Nat.le_refl _) hs0 hold heq h' hold' hlt dh hdh c'' hc'' hsp
          · obtain ⟨dj, hdj, hidj, hdepj, hcapsj, _⟩ := mkLayer_some hm
            intro hcs
            rw [hidj, hdj] at hdh
            have hdd : dj = dh := Option.some.inj hdh
            subst hdd
            rw [hcapsj] at hc''
            have h1 := hinj j hj dj hdj c'' hc''
            have hcs' : c''.s = c.s := by omega
            have := injTieOkP_spec ht hd hdcaps (hji j hj) hdj (List.mem_filter.mpr ⟨hc'', hsp⟩) hcs' hkk ha
              (by omega) (by omega)
            omega
        refine ⟨G, by simp [ghostStep], hGs, ?_, ?_⟩
        · refine hGp'.trans (((allEnds_sortLayers _).trans (allEnds_fold_insertById defs ids _)).trans ?_).symm
          rw [allEnds_cons]
        · refine ⟨nodup_inj_step hr hc hkind hv.pend, ?_⟩
          intro y hy
          rcases hmemF y (mem_sortLayers hy) with hyo | ⟨j, hj, hm⟩
          · rcases List.mem_cons.mp hyo with hyl | hy'
            · rw [hyl]
              refine ⟨d, pre ++ [c], hd, hdep, by rw [hdcaps]; simp, ?_⟩
              intro e he
              obtain ⟨c0, hc0, hsp0, he0, hs0, ht0⟩ := hendsd e he
              exact ⟨c0, List.mem_append_left _ hc0, hsp0, he0, hs0,
                newT l.depth l.id d c0 hd hdep (by rw [if_pos rfl]; exact ⟨hc0, hsp0⟩)
                  (by rw [he0]; exact hownGt e he) hs0 ht0⟩
            · obtain ⟨dy, prey, h1, h1', h2, h3⟩ := hv.src y (List.mem_cons_of_mem _ hy')
              refine ⟨dy, prey, h1, h1', h2, ?_⟩
              intro e he
              obtain ⟨c0, hc0, hsp0, he0, hs0, ht0⟩ := h3 e he
              simp only at hs0 ht0
              exact ⟨c0, hc0, hsp0, he0, hs0,
                newT y.depth y.id dy c0 h1 h1' (by
                    rw [if_neg (hidl y hy')]
                    exact List.mem_filter.mpr ⟨by rw [h2]; exact List.mem_append_left _ hc0, hsp0⟩)
                  (by rw [he0]; exact hrestGt y hy' e he) hs0 ht0⟩
          · obtain ⟨dj, hdj, hidj, hdepj, hcapsj, hendsj⟩ := mkLayer_some hm
            refine ⟨dj, [], by rw [hidj]; exact hdj, hdepj, by rw [hcapsj]; rfl, ?_⟩
            intro e he
            rw [hendsj] at he
            simp at he
      | hl hh =>
        rw [hkind] at h
        simp only at h
        split at h
        · simp only [stepSkip, StepRes.more.injEq] at h
          rw [← h.1, ← h.2]; exact hskip caps' [c] (by rw [hc]; rfl)
        · obtain ⟨m0, hm0⟩ := collapse_suffix c.node caps' hh
          have hmid0 : l.caps = (c :: m0) ++ (collapse c.node hh caps').2 := by
            rw [hc, List.cons_append, ← hm0]
          split at h
          · rename_i hh2 hcol
            simp only [stepStart, StepRes.more.injEq] at h
            rw [← h.1, ← h.2]
            have hcsp : isSpan d c = true := by
              unfold isSpan
              refine List.any_eq_true.mpr ?_
              rcases collapse_fst_some caps' hh hcol with h1 | ⟨c', h1, h2, h3⟩
              · exact ⟨c, hcd, by simp [hlSome, hkind, h1]⟩
              · exact ⟨c', hcapsd c' (htail c' h1), by simp [hlSome, h3, h2]⟩
            have hcspm : c ∈ spanCaps d := List.mem_filter.mpr ⟨hcd, hcsp⟩
            -- the new span ends at or before every open end of every layer
            have hcok := hl.capsok
            rw [hc] at hcok
            obtain ⟨hse, _, _⟩ := capsOkR_cons hcok
            have hown : ∀ e ∈ l.ends, c.e ≤ e := by
              intro e he
              have hgt : c.s < e := hownGt e he
              rcases hl.nest e he c (by rw [hc]; exact List.mem_cons_self) with h1 | h1
              · omega
              · exact h1
            have hother : ∀ e ∈ allEnds rest, c.e ≤ e := by
              intro e he
              obtain ⟨y, hy, hey⟩ := List.mem_flatMap.mp he
              have hgt := hrestGt y hy e hey
              obtain ⟨dy, prey, hdy, hdepy, hprey, h3⟩ := hv.src y (List.mem_cons_of_mem _ hy)
              obtain ⟨c0, hc0, hsp0, he0, hs0, ht0⟩ := h3 e hey
              simp only at hs0 ht0
              have hc0m : c0 ∈ spanCaps dy :=
                List.mem_filter.mpr ⟨by rw [hprey]; exact List.mem_append_left _ hc0, hsp0⟩
              have hcn := crossNice_spec hx (hidl y hy) hdy hd hc0m hcspm
              have hcn' := crossNice_spec hx (Ne.symm (hidl y hy)) hd hdy hcspm hc0m
              by_cases hlt : c0.s < c.s
              · have := hcn.1 hlt (by omega)
                omega
              · have heq : c0.s = c.s := by omega
                by_cases hne : c.s < c.e
                · obtain ⟨q1, q2⟩ := hcn'.2 heq.symm hne (by omega)
                  by_cases hdd : d.depth < dy.depth
                  · have := q2 hdd; omega
                  · exfalso
                    exact ht0 (by omega) l List.mem_cons_self (by omega) d hd c
                      (by rw [hc]; exact List.mem_cons_self) hcsp (by omega)
                · omega
            refine ⟨c.e :: G, ?_, ?_, ?_, ?_⟩
            · simp only [ghostStep, getLast_emit_start, hc]
            · refine List.pairwise_cons.mpr ⟨fun e he => ?_, hGs⟩
              rcases List.mem_append.mp (hGp'.subset he) with h1 | h1
              · exact hown e h1
              · exact hother e h1
            · exact (List.Perm.cons _ hGp').trans
                (hperm_new { l with caps := (collapse c.node hh caps').2, ends := c.e :: l.ends }).symm
            · have hoff' : ∀ hx, off ≤ (emitM off c.s (.start hx)).2 := by
                intro hx; unfold emitM; split <;> simp <;> omega
              have hoffc : ∀ hx, c.s ≤ (emitM off c.s (.start hx)).2 := by
                intro hx; unfold emitM; split <;> simp <;> omega
              refine mkN _ _ _ (c :: m0) rfl rfl (hoff' _) hmid0 ?_
              intro e he
              rcases List.mem_cons.mp he with rfl | he'
              · refine ⟨c, List.mem_append_right _ List.mem_cons_self, hcsp, rfl, hoffc _, ?_⟩
                intro heq h' hh' hlt dh hdh c' hc' _ hcs
                rcases List.mem_cons.mp (mem_sortLayers hh') with hl' | hr'
                · rw [hl'] at hlt; exact absurd hlt (Nat.lt_irrefl _)
                · obtain ⟨ky, hky, hge⟩ := hmin h' hr'
                  rw [hkc] at hge
                  have hle := (key_le_all (hrestI h' hr') hky).1 c' hc'
                  have hkd := sortKey_depth hky
                  obtain ⟨a1, a2, a3⟩ := ky
                  simp only at hle hkd hlt
                  cases a2 <;> simp [keyLt] at hge <;> omega
              · exact keepEnds { l with caps := (collapse c.node hh caps').2, ends := c.e :: l.ends } _ (c :: m0) rfl rfl
                  hmid0 (hoff' _) e he'
          · simp only [stepSkip, StepRes.more.injEq] at h
            rw [← h.1, ← h.2]; exact hskip _ (c :: m0) hmid0

/-! ## the initial state and the iteration -/

theorem cnt_foldl_insertLayer (defs : List LayerDef) (a : Nat) : ∀ (r base : List MLayer),
    List.count a (allP defs (r.foldl insertLayer base)) ≤ List.count a (allP defs base) + List.count a (allP defs r) := by
  intro r
  induction r with
  | nil => intro base; simp [allP]
  | cons x r ih =>
    intro base
    simp only [List.foldl_cons, allP_cons, List.count_append]
    have h1 := ih (insertLayer base x)
    have h2 := cnt_insertLayer defs a base x
    omega

theorem cnt_filterMap_mk (defs : List LayerDef) (hr : refsUp defs = true) (a : Nat) : ∀ top : List Nat,
    List.count a (allP defs (top.filterMap (mkLayer defs))) ≤ List.count a (top.flatMap (tree defs defs.length)) := by
  intro top
  induction top with
  | nil => simp [allP]
  | cons t r ih =>
    cases hm : mkLayer defs t with
    | none =>
      simp only [List.filterMap_cons, hm, List.flatMap_cons, List.count_append]
      omega
    | some nl =>
      simp only [List.filterMap_cons, hm, List.flatMap_cons, List.count_append, allP_cons, pend_mk hr hm]
      omega

theorem init_ninv (defs : List LayerDef) (hr : refsUp defs = true) (top : List Nat)
    (hnd : (top.flatMap (tree defs defs.length)).Nodup) :
    NInv defs { layers := initLayersR defs top } := by
  have hmemI : ∀ y ∈ initLayersR defs top, y ∈ top.filterMap (mkLayer defs) := by
    intro y hy
    unfold initLayersR at hy
    cases hf : top.filterMap (mkLayer defs) with
    | nil => rw [hf] at hy; simp at hy
    | cons l0 r =>
      rw [hf] at hy
      simp only at hy
      rcases mem_fold_insertLayer r [l0] y (mem_sortLayers hy) with h | h
      · simp at h; rw [h]; exact List.mem_cons_self
      · exact List.mem_cons_of_mem _ h
  refine ⟨?_, ?_⟩
  · refine List.nodup_iff_count.mpr fun a => ?_
    have h0 := List.nodup_iff_count.mp hnd a
    have h1 := cnt_filterMap_mk defs hr a top
    show List.count a (allP defs (initLayersR defs top)) ≤ 1
    unfold initLayersR
    cases hf : top.filterMap (mkLayer defs) with
    | nil => simp [allP]
    | cons l0 r =>
      simp only
      rw [hf] at h1
      have h2 := cnt_sortLayers defs a (r.foldl insertLayer [l0])
      have h3 := cnt_foldl_insertLayer defs a r [l0]
      simp only [allP_cons, List.count_append] at h1 h3
      have : List.count a (allP defs []) = 0 := by simp [allP]
      omega
  · intro y hy
    obtain ⟨id, _, hm⟩ := List.mem_filterMap.mp (hmemI y hy)
    obtain ⟨dj, hdj, hidj, hdepj, hcapsj, hendsj⟩ := mkLayer_some hm
    refine ⟨dj, [], by rw [hidj]; exact hdj, hdepj, by rw [hcapsj]; rfl, ?_⟩
    intro e he
    rw [hendsj] at he
    simp at he

/-- Along the whole run: every End closes the top of the global stack (the run with the ghost stack
never fails), the stack is sorted by end and is a permutation of all layers' end stacks. -/
theorem iterG_well_nested (defs : List LayerDef) (hn : DefsNice defs) (hr : refsUp defs = true)
    (hx : crossNice defs = true) (ht : injTieOkP defs = true) (n : Nat) : ∀ (k : Nat) (st st' : MSt) (G : List Nat),
    OInv st → NInv defs st → G.Pairwise (· ≤ ·) → G.Perm (allEnds st.layers) → iterM defs n k st = some st' →
    ∃ G', iterG defs n k st G = some (st', G') ∧ G'.Pairwise (· ≤ ·) ∧ G'.Perm (allEnds st'.layers) := by
  intro k
  induction k with
  | zero =>
    intro st st' G _ _ h3 h4 h
    simp only [iterM, Option.some.injEq] at h
    subst h
    exact ⟨G, rfl, h3, h4⟩
  | succ k ih =>
    intro st st' G ho hv h3 h4 h
    unfold iterM at h
    unfold iterG
    cases hstep : stepM defs n st with
    | done evs => rw [hstep] at h; simp at h
    | more evs st1 =>
      rw [hstep] at h
      simp only
      obtain ⟨G1, g1, g2, g3, g4⟩ := stepM_well_nested defs hn hr hx ht n st st1 evs G ho hv h3 h4 hstep
      rw [g1]
      simp only
      have hlay : ∀ l ∈ st.layers, ∀ c ∈ l.caps, ∀ ids, c.kind = .inj ids → ∀ j ∈ ids, ∀ d', defs[j]? = some d' →
          ∀ c' ∈ d'.caps, c.s ≤ c'.s := by
        intro l hl c hc ids hk
        obtain ⟨d, pre, hd, _, hcd, _⟩ := hv.src l hl
        exact hn.2 d (List.mem_of_getElem? hd) c (by rw [hcd]; exact List.mem_append_right _ hc) ids hk
      exact ih st1 st' G1 (stepM_keeps_oinv defs hn n st st1 evs ho hlay hstep) g4 g2 g3 h

theorem allEnds_nil_of : ∀ (ls : List MLayer), (∀ y ∈ ls, y.ends = []) → allEnds ls = [] := by
  intro ls
  induction ls with
  | nil => intro _; rfl
  | cons y r ih =>
    intro h
    rw [allEnds_cons, h y (List.mem_cons_self), ih (fun z hz => h z (List.mem_cons_of_mem _ hz))]
    rfl

/-- The decidable premise of `merge_well_nested_partial`: static layers (no injection capture), each
layer's captures in order (start order, nested or disjoint, nesting order), different layers laminar
and tie-free at starts. -/
def staticNice (defs : List LayerDef) : Bool :=
  (defs.all fun d => capsOkR d.caps) && noInj defs && crossNice defs

theorem defsNice_of_static {defs : List LayerDef} (h1 : (defs.all fun d => capsOkR d.caps) = true)
    (h2 : noInj defs = true) : DefsNice defs := by
  refine ⟨fun d hd => List.all_eq_true.mp h1 d hd, ?_⟩
  intro d hd c hc ids hk
  have := List.all_eq_true.mp (List.all_eq_true.mp h2 d hd) c hc
  rw [hk] at this; simp at this

/-- The decidable premise of `merge_well_nested_dynamic_partial`: every layer's captures in order and
the layers an injection capture creates behind it (`defsNiceD`), injections refer to later table
entries (`refsUp`), every layer id referenced at most once from `top` and the reachable injection
captures (`closureNodup`), span captures of different layers laminar with oriented start ties
(`crossNice`), no span can be open at the byte where a deeper layer appears with a span capture
(`injTieOkP`). -/
def dynNice (defs : List LayerDef) (top : List Nat) : Bool :=
  defsNiceD defs && refsUp defs && closureNodup defs top && crossNice defs && injTieOkP defs

/-! ### static layers are a special case -/

theorem injIds_of_noInj {defs : List LayerDef} (h : noInj defs = true) {d : LayerDef} (hd : d ∈ defs)
    {c : RCap} (hc : c ∈ d.caps) : injIds c = [] := by
  have := List.all_eq_true.mp (List.all_eq_true.mp h d hd) c hc
  unfold injIds
  cases hk : c.kind with
  | hl _ => rfl
  | inj ids => rw [hk] at this; simp at this

theorem refsOf_of_noInj {defs : List LayerDef} (h : noInj defs = true) (j : Nat) : refsOf defs j = [] := by
  unfold refsOf
  cases hd : defs[j]? with
  | none => rfl
  | some d =>
    simp only [refsC]
    refine List.eq_nil_iff_forall_not_mem.mpr fun x hx => ?_
    obtain ⟨c, hc, hxc⟩ := List.mem_flatMap.mp hx
    rw [injIds_of_noInj h (List.mem_of_getElem? hd) hc] at hxc
    simp at hxc

theorem tree_of_noInj {defs : List LayerDef} (h : noInj defs = true) (k j : Nat) : tree defs k j = [j] := by
  cases k with
  | zero => rfl
  | succ k => simp [tree, refsOf_of_noInj h]

theorem dynNice_of_static {defs : List LayerDef} {top : List Nat} (h : staticNice defs = true) (hnd : top.Nodup) :
    dynNice defs top = true := by
  simp only [staticNice, Bool.and_eq_true] at h
  obtain ⟨⟨h1, h2⟩, h3⟩ := h
  have hinj : ∀ d ∈ defs, ∀ c ∈ d.caps, injIds c = [] := fun d hd c hc => injIds_of_noInj h2 hd hc
  have hk : ∀ d ∈ defs, ∀ c ∈ d.caps, ∀ ids, c.kind = .inj ids → False := by
    intro d hd c hc ids hk
    have := List.all_eq_true.mp (List.all_eq_true.mp h2 d hd) c hc
    rw [hk] at this; simp at this
  simp only [dynNice, Bool.and_eq_true]
  refine ⟨⟨⟨⟨?_, ?_⟩, ?_⟩, h3⟩, ?_⟩
  · simp only [defsNiceD, Bool.and_eq_true]
    refine ⟨h1, List.all_eq_true.mpr fun d hd => List.all_eq_true.mpr fun c hc => ?_⟩
    cases hkk : c.kind with
    | hl _ => rfl
    | inj ids => exact absurd (hk d hd c hc ids hkk) id
  · unfold refsUp
    refine List.all_eq_true.mpr fun i _ => ?_
    cases hd : defs[i]? with
    | none => rfl
    | some d =>
      simp only
      refine List.all_eq_true.mpr fun c hc => ?_
      cases hkk : c.kind with
      | hl _ => rfl
      | inj ids => exact absurd (hk d (List.mem_of_getElem? hd) c hc ids hkk) id
  · unfold closureNodup
    have : top.flatMap (tree defs defs.length) = top := by
      induction top with
      | nil => rfl
      | cons t r ih =>
        simp only [List.flatMap_cons, tree_of_noInj h2]
        rw [ih (List.nodup_cons.mp hnd).2]
        rfl
    rw [this]
    exact decide_eq_true hnd
  · unfold injTieOkP
    refine List.all_eq_true.mpr fun i _ => ?_
    cases hd : defs[i]? with
    | none => rfl
    | some d =>
      simp only
      refine List.all_eq_true.mpr fun idx _ => ?_
      cases hc : d.caps[idx]? with
      | none => rfl
      | some c =>
        simp only
        rw [hinj d (List.mem_of_getElem? hd) c (List.mem_of_getElem? hc)]
        rfl

/-- a finished run is a number of iterations followed by the final step -/
theorem runM_iter (defs : List LayerDef) (n : Nat) : ∀ (fuel : Nat) (st : MSt), (runM defs n fuel st).2 = true →
    ∃ k st' evs, iterM defs n k st = some st' ∧ stepM defs n st' = .done evs := by
  intro fuel
  induction fuel with
  | zero => intro st h; simp [runM] at h
  | succ fuel ih =>
    intro st h
    unfold runM at h
    cases hstep : stepM defs n st with
    | done evs => exact ⟨0, st, evs, rfl, hstep⟩
    | more evs st1 =>
      rw [hstep] at h
      simp only at h
      obtain ⟨k, st', evs', h1, h2⟩ := ih st1 h
      refine ⟨k + 1, st', evs', ?_, h2⟩
      unfold iterM
      rw [hstep]
      exact h1

/-- with ordered layers the iterator only finishes when no layer is left -/
theorem done_layers_nil {defs : List LayerDef} {n : Nat} {st : MSt} {evs : List Ev} (ho : OInv st)
    (h : stepM defs n st = .done evs) : st.layers = [] := by
  obtain ⟨layers, off, last⟩ := st
  cases layers with
  | nil => rfl
  | cons l rest =>
    exfalso
    obtain ⟨k, hk, _⟩ := sorted_head_min ho.sorted
    unfold stepM at h
    simp only at h
    cases hact : action l with
    | final => exact absurd (action_final hact) (by rw [hk]; simp)
    | pop eb ends' => rw [hact] at h; simp [stepPop] at h
    | take c caps' =>
      rw [hact] at h
      simp only at h
      cases hkind : c.kind with
      | inj ids => rw [hkind] at h; simp [stepInj] at h
      | hl hh =>
        rw [hkind] at h
        simp only at h
        split at h
        · simp [stepSkip] at h
        · split at h
          · simp [stepStart] at h
          · simp [stepSkip] at h

end TsVerif.C17
