import TsVerif.C17.WellNested
/-!
# C17 — well-nestedness with layers created during the run: the table premises

`refsOf`/`tree`: the layer ids reachable from an id through injection captures (with multiplicity).
`closureNodup`: every layer id is referenced at most once (from `top` or from an injection capture of
a reachable layer).  `injTieOk`: when an injection capture at byte `p` creates a layer that has a
span capture at `p`, no layer at least as deep as the creating one and shallower than the new one has
a non-empty span capture starting at `p` (such a span could already be open when the deeper layer
appears; in the real code injection patterns precede highlight patterns in the combined query, so the
deeper layer always exists before a span of its parent is opened at the same byte).
-/
namespace TsVerif.C17

def injIds (c : RCap) : List Nat := match c.kind with | .inj ids => ids | .hl _ => []

/-- ids referenced by the injection captures of a capture list -/
def refsC (caps : List RCap) : List Nat := caps.flatMap injIds

def refsOf (defs : List LayerDef) (j : Nat) : List Nat :=
  match defs[j]? with
  | some d => refsC d.caps
  | none => []

/-- `j` and everything reachable from it, with multiplicity (`k` = remaining depth). -/
def tree (defs : List LayerDef) : Nat → Nat → List Nat
  | 0, j => [j]
  | k + 1, j => j :: (refsOf defs j).flatMap (tree defs k)

def closureNodup (defs : List LayerDef) (top : List Nat) : Bool :=
  decide (top.flatMap (tree defs defs.length)).Nodup

/-- Bool version of `DefsNice`. -/
def defsNiceD (defs : List LayerDef) : Bool :=
  (defs.all fun d => capsOkR d.caps) &&
  defs.all fun d => d.caps.all fun c =>
    match c.kind with
    | .inj ids => ids.all fun j => match defs[j]? with
      | some d' => d'.caps.all fun c' => decide (c.s ≤ c'.s)
      | none => true
    | _ => true

def injTieOk (defs : List LayerDef) : Bool :=
  defs.all fun di => di.caps.all fun c => (injIds c).all fun j =>
    match defs[j]? with
    | none => true
    | some dj =>
      !((spanCaps dj).any fun c' => c'.s == c.s) ||
      defs.all fun dk => (spanCaps dk).all fun a =>
        !(a.s == c.s && a.s < a.e) || !(decide (di.depth ≤ dk.depth) && decide (dk.depth < dj.depth))

/-- The decidable premise of `merge_well_nested_dynamic_partial`. -/
def dynNice (defs : List LayerDef) (top : List Nat) : Bool :=
  defsNiceD defs && refsUp defs && closureNodup defs top && crossNice defs && injTieOk defs

end TsVerif.C17
