import TsVerif.C17.MultiOrder
import TsVerif.C17.MergeTerm
/-!
# C17 — well-nestedness with layers created during the run: table premises and the counting lemmas

`isSpan`/`spanCaps`: the captures that can become a span.  `refsOf`/`tree`: the layer ids reachable from
an id through injection captures, with multiplicity.  `closureNodup`: every layer id is referenced at
most once (from `top` or from an injection capture of a reachable layer).  `pend`/`allP`: the ids a
state still "owns" — each live layer's id and the trees of its pending injection references; the
invariant is that this list has no duplicates (an injection step moves ids from a tree to the live
list, consuming captures only removes ids).  `injTieOkP`: when an injection capture at byte `p`
creates a layer with a span capture at `p`, no non-empty span capture starting at `p` of a layer
shallower than the new one can already be open: none BEFORE the injection capture in the creating
layer, none at all in any other layer.  (In the real code injection patterns precede highlight
patterns in the combined query, so the deeper layer exists before its parent opens a span there.)
-/
namespace TsVerif.C17

/-- The capture yields a recognised highlight. -/
def hlSome (c : RCap) : Bool := match c.kind with | .hl (some _) => true | _ => false

/-- The capture's node has some capture with a recognised highlight in the same layer. -/
def isSpan (d : LayerDef) (c : RCap) : Bool := d.caps.any fun c' => c'.node == c.node && hlSome c'

/-- The captures that can become a SPAN (`collapse` keeps the last highlight capture of the node). -/
def spanCaps (d : LayerDef) : List RCap := d.caps.filter (isSpan d)

/-- `collapse` only returns a highlight that some capture of the node carries. -/
theorem collapse_fst_some {node hh : Nat} : ∀ (caps : List RCap) (h : Option Nat),
    (collapse node h caps).1 = some hh → h = some hh ∨ ∃ c' ∈ caps, c'.node = node ∧ c'.kind = .hl (some hh) := by
  intro caps
  induction caps with
  | nil => intro h hc; exact Or.inl (by simpa [collapse] using hc)
  | cons x r ih =>
    intro h hc
    unfold collapse at hc
    by_cases hx : x.node = node
    · simp only [hx, if_true] at hc
      rcases ih _ hc with h1 | ⟨c', h1, h2, h3⟩
      · refine Or.inr ⟨x, List.mem_cons_self, hx, ?_⟩
        cases hk : x.kind with
        | hl h' => rw [hk] at h1; simp only at h1; rw [h1]
        | inj ids => rw [hk] at h1; simp at h1
      · exact Or.inr ⟨c', List.mem_cons_of_mem _ h1, h2, h3⟩
    · simp only [hx, if_false] at hc
      exact Or.inl hc

/-- what `collapse` leaves is a suffix -/
theorem collapse_suffix (node : Nat) : ∀ (caps : List RCap) (h : Option Nat),
    ∃ mid, caps = mid ++ (collapse node h caps).2 := by
  intro caps
  induction caps with
  | nil => intro h; exact ⟨[], by simp [collapse]⟩
  | cons x r ih =>
    intro h
    unfold collapse
    by_cases hx : x.node = node
    · simp only [hx, if_true]
      obtain ⟨mid, hm⟩ := ih (match x.kind with | .hl h' => h' | .inj _ => none)
      exact ⟨x :: mid, congrArg (x :: ·) hm⟩
    · simp only [hx, if_false]
      exact ⟨[], rfl⟩

def injIds (c : RCap) : List Nat := match c.kind with | .inj ids => ids | .hl _ => []

/-- ids referenced by the injection captures of a capture list -/
def refsC (caps : List RCap) : List Nat := caps.flatMap injIds

def refsOf (defs : List LayerDef) (j : Nat) : List Nat :=
  match defs[j]? with
  | some d => refsC d.caps
  | none => []

/-- `j` and everything reachable from it, with multiplicity (`k` = remaining depth). -/
def tree (defs : List LayerDef) : Nat → Nat → List Nat
  | 0, j => [j]
  | k + 1, j => j :: (refsOf defs j).flatMap (tree defs k)

/-- Every layer id is referenced at most once. -/
def closureNodup (defs : List LayerDef) (top : List Nat) : Bool :=
  decide (top.flatMap (tree defs defs.length)).Nodup

/-- Bool version of `DefsNice`. -/
def defsNiceD (defs : List LayerDef) : Bool :=
  (defs.all fun d => capsOkR d.caps) &&
  defs.all fun d => d.caps.all fun c =>
    match c.kind with
    | .inj ids => ids.all fun j => match defs[j]? with
      | some d' => d'.caps.all fun c' => decide (c.s ≤ c'.s)
      | none => true
    | _ => true

theorem defsNice_of_D {defs : List LayerDef} (h : defsNiceD defs = true) : DefsNice defs := by
  simp only [defsNiceD, Bool.and_eq_true] at h
  refine ⟨fun d hd => List.all_eq_true.mp h.1 d hd, ?_⟩
  intro d hd c hc ids hk j hj d' hd' c' hc'
  have h1 := List.all_eq_true.mp (List.all_eq_true.mp h.2 d hd) c hc
  simp only [hk] at h1
  have h2 := List.all_eq_true.mp h1 j hj
  simp only [hd'] at h2
  simpa using List.all_eq_true.mp h2 c' hc'

/-- See the header. -/
def injTieOkP (defs : List LayerDef) : Bool :=
  (List.range defs.length).all fun i =>
    match defs[i]? with
    | none => true
    | some di => (List.range di.caps.length).all fun idx =>
      match di.caps[idx]? with
      | none => true
      | some c => (injIds c).all fun j =>
        match defs[j]? with
        | none => true
        | some dj =>
          !((spanCaps dj).any fun c' => c'.s == c.s) ||
          (List.range defs.length).all fun k =>
            match defs[k]? with
            | none => true
            | some dk =>
              (if k = i then (di.caps.take idx).filter (isSpan di) else spanCaps dk).all fun a =>
                !(a.s == c.s && decide (a.s < a.e)) || !decide (dk.depth < dj.depth)

theorem lt_of_getElem? {α : Type} {l : List α} {i : Nat} {x : α} (h : l[i]? = some x) : i < l.length := by
  rcases Nat.lt_or_ge i l.length with h' | h'
  · exact h'
  · rw [List.getElem?_eq_none h'] at h; simp at h

theorem injTieOkP_spec {defs : List LayerDef} (h : injTieOkP defs = true) {i j k : Nat} {di dj dk : LayerDef}
    {pre post : List RCap} {c c' a : RCap}
    (hi : defs[i]? = some di) (hcaps : di.caps = pre ++ c :: post) (hj : j ∈ injIds c) (hdj : defs[j]? = some dj)
    (hc' : c' ∈ spanCaps dj) (hs' : c'.s = c.s) (hk : defs[k]? = some dk)
    (ha : if k = i then a ∈ pre ∧ isSpan di a = true else a ∈ spanCaps dk) (has : a.s = c.s) (hne : a.s < a.e) :
    ¬ dk.depth < dj.depth := by
  have h1 := List.all_eq_true.mp h i (List.mem_range.mpr (lt_of_getElem? hi))
  simp only [hi] at h1
  have hidx : pre.length < di.caps.length := by rw [hcaps]; simp
  have h2 := List.all_eq_true.mp h1 pre.length (List.mem_range.mpr hidx)
  have hget : di.caps[pre.length]? = some c := by rw [hcaps]; simp
  simp only [hget] at h2
  have h3 := List.all_eq_true.mp h2 j hj
  simp only [hdj] at h3
  have hany : ((spanCaps dj).any fun c' => c'.s == c.s) = true :=
    List.any_eq_true.mpr ⟨c', hc', by simp [hs']⟩
  simp only [hany, Bool.not_true, Bool.false_or] at h3
  have h4 := List.all_eq_true.mp h3 k (List.mem_range.mpr (lt_of_getElem? hk))
  simp only [hk] at h4
  have htake : di.caps.take pre.length = pre := by rw [hcaps]; simp
  have hmem : a ∈ (if k = i then (di.caps.take pre.length).filter (isSpan di) else spanCaps dk) := by
    by_cases hki : k = i
    · rw [if_pos hki] at ha ⊢
      rw [htake]
      exact List.mem_filter.mpr ha
    · rw [if_neg hki] at ha ⊢
      exact ha
  have h5 := List.all_eq_true.mp h4 a hmem
  simp only [has, beq_self_eq_true, Bool.true_and, Bool.or_eq_true, Bool.not_eq_true', decide_eq_false_iff_not,
    decide_eq_true_eq] at h5
  rcases h5 with h5 | h5
  · exact absurd (by omega : c.s < a.e) h5
  · exact h5

/-! ## the ids a state owns -/

def pend (defs : List LayerDef) (y : MLayer) : List Nat :=
  y.id :: (refsC y.caps).flatMap (tree defs defs.length)

def allP (defs : List LayerDef) (ls : List MLayer) : List Nat := ls.flatMap (pend defs)

theorem allP_cons (defs : List LayerDef) (y : MLayer) (r : List MLayer) :
    allP defs (y :: r) = pend defs y ++ allP defs r := by simp [allP]

theorem allP_append (defs : List LayerDef) (a b : List MLayer) :
    allP defs (a ++ b) = allP defs a ++ allP defs b := by simp [allP]

theorem refsOf_gt {defs : List LayerDef} (hr : refsUp defs = true) {j r : Nat} (h : r ∈ refsOf defs j) : j < r := by
  unfold refsOf at h
  cases hd : defs[j]? with
  | none => rw [hd] at h; simp at h
  | some d =>
    rw [hd] at h
    simp only [refsC, List.mem_flatMap] at h
    obtain ⟨c, hc, hrc⟩ := h
    unfold injIds at hrc
    cases hk : c.kind with
    | hl _ => rw [hk] at hrc; simp at hrc
    | inj ids => rw [hk] at hrc; exact refsUp_spec hr hd hc hk hrc

theorem flatMap_congr_mem {α β : Type} (l : List α) (f g : α → List β) (h : ∀ x ∈ l, f x = g x) :
    l.flatMap f = l.flatMap g := by
  induction l with
  | nil => rfl
  | cons x r ih =>
    simp only [List.flatMap_cons]
    rw [h x List.mem_cons_self, ih (fun y hy => h y (List.mem_cons_of_mem _ hy))]

/-- with injections referring upwards the tree of `j` is complete after `length - j` levels -/
theorem tree_stable {defs : List LayerDef} (hr : refsUp defs = true) :
    ∀ k j, defs.length ≤ j + k → tree defs (k + 1) j = tree defs k j := by
  intro k
  induction k with
  | zero =>
    intro j h
    have : refsOf defs j = [] := by
      unfold refsOf
      rw [List.getElem?_eq_none (by omega)]
    simp [tree, this]
  | succ k ih =>
    intro j h
    show j :: (refsOf defs j).flatMap (tree defs (k + 1)) = j :: (refsOf defs j).flatMap (tree defs k)
    rw [flatMap_congr_mem _ _ _ (fun r hr' => ih r (by have := refsOf_gt hr hr'; omega))]

theorem mkLayer_some {defs : List LayerDef} {j : Nat} {y : MLayer} (h : mkLayer defs j = some y) :
    ∃ dj, defs[j]? = some dj ∧ y.id = j ∧ y.depth = dj.depth ∧ y.caps = dj.caps ∧ y.ends = [] := by
  unfold mkLayer at h
  cases hg : defs[j]? with
  | none => rw [hg] at h; simp at h
  | some d =>
    rw [hg] at h
    simp only [Option.map_some, Option.some.injEq] at h
    subst h
    exact ⟨d, rfl, rfl, rfl, rfl, rfl⟩

/-- a new layer owns exactly the tree of its id -/
theorem pend_mk {defs : List LayerDef} (hr : refsUp defs = true) {j : Nat} {nl : MLayer}
    (hm : mkLayer defs j = some nl) : pend defs nl = tree defs defs.length j := by
  obtain ⟨dj, hdj, hid, _, hcaps, _⟩ := mkLayer_some hm
  rw [← tree_stable hr defs.length j (by omega)]
  have e : tree defs (defs.length + 1) j = j :: (refsOf defs j).flatMap (tree defs defs.length) := rfl
  rw [e]
  unfold refsOf pend
  rw [hdj, hid, hcaps]

theorem cnt_sortLayers (defs : List LayerDef) (a : Nat) : ∀ ls : List MLayer,
    List.count a (allP defs (sortLayers ls)) ≤ List.count a (allP defs ls) := by
  intro ls
  induction ls with
  | nil => simp [sortLayers]
  | cons l0 rest ih =>
    unfold sortLayers
    cases hk : sortKey l0 with
    | none =>
      simp only
      rw [allP_cons, List.count_append]
      omega
    | some k =>
      simp only
      rw [allP_append, allP_cons, allP_cons]
      simp only [List.count_append]
      have := congrArg (fun x => List.count a (allP defs x)) (List.take_append_drop (leadCount k rest) rest)
      simp only [allP_append, List.count_append] at this
      omega

theorem cnt_insGo (defs : List LayerDef) (a : Nat) (k : Key) (nl : MLayer) : ∀ ls : List MLayer,
    List.count a (allP defs (insGo k nl ls)) ≤ List.count a (pend defs nl) + List.count a (allP defs ls) := by
  intro ls
  induction ls with
  | nil => simp [insGo, allP_cons, allP]
  | cons li r ih =>
    unfold insGo
    cases sortKey li with
    | none =>
      simp only
      rw [allP_cons, List.count_append]
      omega
    | some ki =>
      simp only
      split
      · simp only [allP_cons, List.count_append]; omega
      · simp only [allP_cons, List.count_append]; omega

theorem cnt_insertLayer (defs : List LayerDef) (a : Nat) (ls : List MLayer) (nl : MLayer) :
    List.count a (allP defs (insertLayer ls nl)) ≤ List.count a (allP defs ls) + List.count a (pend defs nl) := by
  unfold insertLayer
  cases sortKey nl with
  | none => simp only; omega
  | some k =>
    cases ls with
    | nil => simp [allP_cons, allP]
    | cons l0 rest =>
      simp only [allP_cons, List.count_append]
      have := cnt_insGo defs a k nl rest
      omega

theorem cnt_fold (defs : List LayerDef) (hr : refsUp defs = true) (a : Nat) : ∀ (ids : List Nat) (ls : List MLayer),
    List.count a (allP defs (ids.foldl (insertById defs) ls)) ≤
      List.count a (allP defs ls) + List.count a (ids.flatMap (tree defs defs.length)) := by
  intro ids
  induction ids with
  | nil => intro ls; simp
  | cons j r ih =>
    intro ls
    simp only [List.foldl_cons, List.flatMap_cons, List.count_append]
    have h1 := ih (insertById defs ls j)
    have h2 : List.count a (allP defs (insertById defs ls j)) ≤
        List.count a (allP defs ls) + List.count a (tree defs defs.length j) := by
      unfold insertById
      cases hm : mkLayer defs j with
      | none => simp only; omega
      | some nl =>
        simp only
        have := cnt_insertLayer defs a ls nl
        rw [pend_mk hr hm] at this
        exact this
    omega

theorem cnt_ids (defs : List LayerDef) (a : Nat) : ∀ ls : List MLayer,
    List.count a (ls.map (·.id)) ≤ List.count a (allP defs ls) := by
  intro ls
  induction ls with
  | nil => simp [allP]
  | cons y r ih =>
    simp only [List.map_cons, allP_cons, List.count_append, pend, List.count_cons]
    omega

theorem nodup_ids_of_allP {defs : List LayerDef} {ls : List MLayer} (h : (allP defs ls).Nodup) :
    (ls.map (·.id)).Nodup :=
  List.nodup_iff_count.mpr fun a => Nat.le_trans (cnt_ids defs a ls) (List.nodup_iff_count.mp h a)

/-- the head layer keeps its id and drops a prefix of its captures -/
theorem nodup_head_suffix {defs : List LayerDef} {l l' : MLayer} {rest : List MLayer} {mid : List RCap}
    (hid : l'.id = l.id) (hmid : l.caps = mid ++ l'.caps) (h : (allP defs (l :: rest)).Nodup) :
    (allP defs (sortLayers (l' :: rest))).Nodup := by
  refine List.nodup_iff_count.mpr fun a => ?_
  have h1 := List.nodup_iff_count.mp h a
  have h2 := cnt_sortLayers defs a (l' :: rest)
  simp only [allP_cons, List.count_append, pend, hid, hmid, refsC, List.flatMap_append, List.count_cons] at h1 h2
  omega

/-- the injection step: the ids of the consumed capture move from the pending trees to live layers -/
theorem nodup_inj_step {defs : List LayerDef} (hr : refsUp defs = true) {l : MLayer} {rest : List MLayer}
    {c : RCap} {caps' : List RCap} {ids : List Nat} (hc : l.caps = c :: caps') (hk : c.kind = .inj ids)
    (h : (allP defs (l :: rest)).Nodup) :
    (allP defs (sortLayers (ids.foldl (insertById defs) ({ l with caps := caps' } :: rest)))).Nodup := by
  refine List.nodup_iff_count.mpr fun a => ?_
  have h1 := List.nodup_iff_count.mp h a
  have h2 := cnt_sortLayers defs a (ids.foldl (insertById defs) ({ l with caps := caps' } :: rest))
  have h3 := cnt_fold defs hr a ids ({ l with caps := caps' } :: rest)
  have hi : injIds c = ids := by unfold injIds; rw [hk]
  simp only [allP_cons, List.count_append, pend, hc, refsC, List.flatMap_cons, List.flatMap_append, hi,
    List.count_cons] at h1 h3
  omega

theorem mem_fold_insertById (defs : List LayerDef) : ∀ (ids : List Nat) (ls : List MLayer) (y : MLayer),
    y ∈ ids.foldl (insertById defs) ls → y ∈ ls ∨ ∃ j ∈ ids, mkLayer defs j = some y := by
  intro ids
  induction ids with
  | nil => intro ls y h; exact Or.inl h
  | cons j r ih =>
    intro ls y h
    simp only [List.foldl_cons] at h
    rcases ih _ y h with h1 | ⟨j', hj', hm⟩
    · unfold insertById at h1
      cases hm : mkLayer defs j with
      | none => rw [hm] at h1; exact Or.inl h1
      | some nl =>
        rw [hm] at h1
        rcases mem_insertLayer h1 with h2 | h2
        · exact Or.inl h2
        · exact Or.inr ⟨j, List.mem_cons_self, by rw [hm, h2]⟩
    · exact Or.inr ⟨j', List.mem_cons_of_mem _ hj', hm⟩

end TsVerif.C17
