import TsVerif.C17.Model
/-!
# C17 model of the event merge across several highlight layers

Code-shaped port of `HighlightIter::next` with `emit_event`, `sort_layers`, `insert_layer`,
`HighlightIterLayer::sort_key`, `highlight_end_stack`, `next_event`, `byte_offset` and
`last_highlight_range` (`/repo/crates/highlight/src/highlight.rs`), for configurations WITHOUT a
locals query (the local-variable branch is not modelled).

Layers are data: `LayerDef` = depth + the layer's RAW capture sequence in the order the query
cursor yields it.  A raw capture is either a highlight-pattern capture (`hl h`, `h` = the
configured highlight of its capture name, `none` when not recognised) or the first capture of an
injection-pattern match (`inj ids`; the match is removed, so its other captures never appear;
`ids` = the layers that `HighlightIterLayer::new` returns for that injection, in order — empty
when the language is unknown or the content ranges are empty).  The harness obtains all of this
through the public query API (`harness/src/bin/c17/main.rs`, `N` cases).

The iterator is unrolled into the list of events it yields (`next_event` = the second element of
`emitM`'s result).
-/
namespace TsVerif.C17

inductive RKind where
  | hl (h : Option Nat)
  | inj (layers : List Nat)
  deriving Repr

structure RCap where
  s : Nat
  e : Nat
  node : Nat
  kind : RKind
  deriving Repr

structure LayerDef where
  depth : Nat
  caps : List RCap
  deriving Repr

/-- `HighlightIterLayer`: remaining captures, `highlight_end_stack` (top first). -/
structure MLayer where
  depth : Nat
  caps : List RCap
  ends : List Nat
  /-- index of the layer in the table (ghost: never read by the merge, used to state theorems) -/
  id : Nat := 0
  deriving Repr

structure MSt where
  layers : List MLayer
  off : Nat := 0
  last : Option (Nat × Nat × Nat) := none
  deriving Repr

/-- `(offset, is_start, depth)`; the code's key is `(offset, is_start, -depth)`. -/
abbrev Key := Nat × Bool × Nat

/-- Tuple order of `(usize, bool, isize)` with the third component negated. -/
def keyLt (a b : Key) : Bool :=
  a.1 < b.1 || (a.1 == b.1 && ((!a.2.1 && b.2.1) || (a.2.1 == b.2.1 && b.2.2 < a.2.2)))

/-- `HighlightIterLayer::sort_key` -/
def sortKey (l : MLayer) : Option Key :=
  match l.caps, l.ends with
  | c :: _, e :: _ => if c.s < e then some (c.s, true, l.depth) else some (e, false, l.depth)
  | c :: _, [] => some (c.s, true, l.depth)
  | [], e :: _ => some (e, false, l.depth)
  | [], [] => none

/-- Number of leading layers whose key exists and is smaller than `k` (the inner `while` of `sort_layers`). -/
def leadCount (k : Key) : List MLayer → Nat
  | [] => 0
  | l :: r =>
    match sortKey l with
    | some k' => if keyLt k' k then leadCount k r + 1 else 0
    | none => 0

/-- `sort_layers`: drop exhausted layers at the front, then rotate the first layer behind the
following layers that come earlier. -/
def sortLayers : List MLayer → List MLayer
  | [] => []
  | l0 :: rest =>
    match sortKey l0 with
    | none => sortLayers rest
    | some k =>
      let i := leadCount k rest
      rest.take i ++ l0 :: rest.drop i

/-- The `while i < self.layers.len()` loop of `insert_layer` from index 1 on. -/
def insGo (k : Key) (layer : MLayer) : List MLayer → List MLayer
  | [] => [layer]
  | li :: r =>
    match sortKey li with
    | some ki => if keyLt k ki then layer :: li :: r else li :: insGo k layer r
    | none => insGo k layer r

/-- `insert_layer` -/
def insertLayer (layers : List MLayer) (layer : MLayer) : List MLayer :=
  match sortKey layer with
  | none => layers
  | some k =>
    match layers with
    | [] => [layer]
    | l0 :: rest => l0 :: insGo k layer rest

/-- `emit_event(t, Some(ev))` as yielded events and the new `byte_offset`. -/
def emitM (off t : Nat) (ev : Ev) : List Ev × Nat :=
  if off < t then ([.source off t, ev], t) else ([ev], off)

/-- The "keep iterating over later patterns that match this node" loop: last pattern wins. -/
def collapse (node : Nat) (h : Option Nat) : List RCap → Option Nat × List RCap
  | [] => (h, [])
  | c :: r =>
    if c.node = node then
      collapse node (match c.kind with | .hl h' => h' | .inj _ => none) r
    else (h, c :: r)

def mkLayer (defs : List LayerDef) (id : Nat) : Option MLayer :=
  (defs[id]?).map fun d => { depth := d.depth, caps := d.caps, ends := [], id := id }

inductive StepRes where
  | done (evs : List Ev)
  | more (evs : List Ev) (st : MSt)

/-- What `next` does with the first layer: nothing left (`emit_event(source.len(), None)`), pop a
pending end (`end_byte <= range.start`, or no captures left), or take the next capture. -/
inductive Act where
  | final
  | pop (eb : Nat) (ends' : List Nat)
  | take (c : RCap) (caps' : List RCap)

def action (l : MLayer) : Act :=
  match l.caps, l.ends with
  | [], [] => .final
  | [], eb :: ends' => .pop eb ends'
  | c :: caps', [] => .take c caps'
  | c :: caps', eb :: ends' => if eb ≤ c.s then .pop eb ends' else .take c caps'

/-- pop + `emit_event(end_byte, HighlightEnd)` -/
def stepPop (st : MSt) (l : MLayer) (rest : List MLayer) (eb : Nat) (ends' : List Nat) : StepRes :=
  .more (emitM st.off eb .stop).1
    { st with off := (emitM st.off eb .stop).2, layers := sortLayers ({ l with ends := ends' } :: rest) }

/-- a capture that yields no event: `sort_layers(); continue 'main` -/
def stepSkip (st : MSt) (l : MLayer) (rest : List MLayer) : StepRes :=
  .more [] { st with layers := sortLayers (l :: rest) }

/-- `self.insert_layer(layer)` for the layer with the given id. -/
def insertById (defs : List LayerDef) (ls : List MLayer) (id : Nat) : List MLayer :=
  match mkLayer defs id with
  | some nl => insertLayer ls nl
  | none => ls

/-- the injection branch: the new layers are inserted, then `sort_layers()` -/
def stepInj (defs : List LayerDef) (st : MSt) (l : MLayer) (rest : List MLayer) (ids : List Nat) : StepRes :=
  .more [] { st with layers := sortLayers (ids.foldl (insertById defs) (l :: rest)) }

/-- push the end, `emit_event(range.start, HighlightStart)` -/
def stepStart (st : MSt) (l : MLayer) (rest : List MLayer) (c : RCap) (hh : Nat) (caps'' : List RCap) : StepRes :=
  .more (emitM st.off c.s (.start hh)).1
    { off := (emitM st.off c.s (.start hh)).2, last := some (c.s, c.e, l.depth),
      layers := sortLayers ({ l with caps := caps'', ends := c.e :: l.ends } :: rest) }

/-- `last_highlight_range` test -/
def dedup (st : MSt) (l : MLayer) (c : RCap) : Bool :=
  match st.last with
  | some (ls, le, ld) => c.s == ls && c.e == le && l.depth < ld
  | none => false

/-- One iteration of the `'main: loop` of `next` (together with the return of a parked
`next_event`). -/
def stepM (defs : List LayerDef) (n : Nat) (st : MSt) : StepRes :=
  match st.layers with
  | [] => .done (if st.off < n then [.source st.off n] else [])
  | l :: rest =>
    match action l with
    | .final =>
      -- `emit_event(source.len(), None)`
      if st.off < n then .more [.source st.off n] { st with off := n, layers := sortLayers (l :: rest) }
      else .done []
    | .pop eb ends' => stepPop st l rest eb ends'
    | .take c caps' =>
      match c.kind with
      | .inj ids => stepInj defs st { l with caps := caps' } rest ids
      | .hl h =>
        if dedup st l c then stepSkip st { l with caps := caps' } rest
        else
          match (collapse c.node h caps').1 with
          | some hh => stepStart st l rest c hh (collapse c.node h caps').2
          | none => stepSkip st { l with caps := (collapse c.node h caps').2 } rest

/-- Drain the iterator; the flag says whether it finished within `fuel` iterations. -/
def runM (defs : List LayerDef) (n : Nat) : Nat → MSt → List Ev × Bool
  | 0, _ => ([], false)
  | fuel + 1, st =>
    match stepM defs n st with
    | .done evs => (evs, true)
    | .more evs st' =>
      let r := runM defs n fuel st'
      (evs ++ r.1, r.2)

/-- All capture offsets of all layers lie inside the source (decided on real data by the driver). -/
def defsIn (n : Nat) (defs : List LayerDef) : Bool :=
  defs.all fun d => d.caps.all fun c => c.s ≤ n && c.e ≤ n

def totalCaps (defs : List LayerDef) : Nat := (defs.map fun d => d.caps.length).sum

/-! ## Termination measure

`capW`: every capture costs 2 iterations at most (it is taken, and the end it may push is popped);
an injection capture also pays for the layers it creates.  `wt defs j` = weight of layer `j`,
computed top-down with a depth bound that suffices when injections only refer to LARGER ids
(`refsUp`, which the harness's construction guarantees and the driver checks on every real case). -/

def idsW (w : Nat → Nat) : List Nat → Nat
  | [] => 0
  | j :: r => 1 + w j + idsW w r

def capW (w : Nat → Nat) (c : RCap) : Nat :=
  match c.kind with
  | .hl _ => 2
  | .inj ids => 2 + idsW w ids

def capsW (w : Nat → Nat) : List RCap → Nat
  | [] => 0
  | c :: r => capW w c + capsW w r

def wtK (defs : List LayerDef) : Nat → Nat → Nat
  | 0, _ => 0
  | k + 1, j =>
    match defs[j]? with
    | none => 0
    | some d => capsW (fun j' => if j < j' then wtK defs k j' else 0) d.caps

/-- Weight of layer `j`. -/
def wt (defs : List LayerDef) (j : Nat) : Nat := wtK defs (defs.length - j) j

/-- Every injection capture of layer `i` refers only to layers with a larger id (the layer table is
a forest written in creation order). -/
def refsUp (defs : List LayerDef) : Bool :=
  (List.range defs.length).all fun i =>
    match defs[i]? with
    | none => true
    | some d => d.caps.all fun c =>
      match c.kind with
      | .hl _ => true
      | .inj ids => ids.all fun j => i < j

/-- Weight of a live layer and of a layer list: the number of loop iterations still possible. -/
def layerW (defs : List LayerDef) (l : MLayer) : Nat := l.ends.length + capsW (wt defs) l.caps

def sumW (f : MLayer → Nat) : List MLayer → Nat
  | [] => 0
  | l :: r => f l + sumW f r

/-- `Highlighter::highlight`: initial layers `top`, `sort_layers`, then drain.  The fuel is the
termination measure of the initial state (+1 for the final iteration). -/
def mergeLayers (defs : List LayerDef) (top : List Nat) (n : Nat) : List Ev × Bool :=
  let layers := sortLayers (top.filterMap (mkLayer defs))
  runM defs n (sumW (layerW defs) layers + 1) { layers := layers }

/-- The layer list `Highlighter::highlight` starts the loop with after the repair
(`fixes/C17-initial-layer-order.diff`, committed): the first layer, then `insert_layer` for each
further layer, then `sort_layers`. -/
def initLayersR (defs : List LayerDef) (top : List Nat) : List MLayer :=
  match top.filterMap (mkLayer defs) with
  | [] => []
  | l0 :: r => sortLayers (r.foldl insertLayer [l0])

/-- `mergeLayers` with the repaired set-up. -/
def mergeLayersR (defs : List LayerDef) (top : List Nat) (n : Nat) : List Ev × Bool :=
  let layers := initLayersR defs top
  runM defs n (sumW (layerW defs) layers + 1) { layers := layers }

/-- The state after `k` iterations of the loop (`none` once the iterator has finished). -/
def iterM (defs : List LayerDef) (n : Nat) : Nat → MSt → Option MSt
  | 0, st => some st
  | k + 1, st =>
    match stepM defs n st with
    | .done _ => none
    | .more _ st' => iterM defs n k st'

end TsVerif.C17
