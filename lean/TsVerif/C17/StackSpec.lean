import TsVerif.C17.Full
/-!
# C17 judge: the scope stack over every `Source` span is the one the layers' captures define

SPEC-level clause, independent of the merge ports (no `sort_key`, no event ordering): from the
per-layer capture data the harness extracts through the public API,

* `layerSpans d` = the highlighted ranges `(start, end, highlight)` of ONE layer: per node the last
  highlight pattern wins (the `#is-not? local` patterns are skipped for local definitions /
  references), a resolved reference takes the definition's highlight — the per-layer meaning of the
  captures (functions of `Locals.lean` / `Full.lean` applied to one layer in isolation);
* `expected` highlights over a `Source` span `[a,b)` = those of all spans, of all layers, that
  contain `[a,b)`;
* `observed` = the stack the event stream defines (`Start` pushes, `End` pops).

The clause is evaluated only when `startTiesOk` holds (see there) and ALL spans of all layers form a laminar family (any two nested or
disjoint): with combined injections spans of different layers may overlap improperly, and then an
`End` necessarily pops another layer's span (the unchanged code does that too); such cases are
reported as `skip`.  Cross-layer de-duplication (`last_highlight_range`: a capture whose range was
just highlighted by a deeper layer is dropped) is accounted for by bounds: the observed multiset of
highlights must contain the expected one with every shallower same-range duplicate removed, and be
contained in the expected one without any removal.
-/
namespace TsVerif.C17
open Full

structure Span where
  s : Nat
  e : Nat
  h : Nat
  depth : Nat
  deriving Repr

def layerSpansGo (depth : Nat) : Nat → List LScope → List FCap → List Span
  | 0, _, _ => []
  | _ + 1, _, [] => []
  | f + 1, scopes, c :: rest =>
    match c.kind with
    | .inj _ => layerSpansGo depth f scopes rest
    | _ =>
      let run := Full.localsRun { scopes := popScopes c.s scopes, refHl := none, defP := false } c rest
      match run.2.1 with
      | none => layerSpansGo depth f run.1.scopes run.2.2
      | some hc =>
        let col := Full.collapseL (run.1.defP || run.1.refHl.isSome) hc.node (hlOf hc) run.2.2
        let scopes' := if run.1.defP then setDefHl col.1 run.1.scopes else run.1.scopes
        match run.1.refHl.or col.1 with
        | some hh => { s := c.s, e := c.e, h := hh, depth := depth } :: layerSpansGo depth f scopes' col.2
        | none => layerSpansGo depth f scopes' col.2

def layerSpans (d : FDef) : List Span :=
  layerSpansGo d.depth (d.caps.length + 1) [{ inherits := false, re := usizeMax, defs := [] }] d.caps

def allSpans (defs : List FDef) : List Span := defs.flatMap layerSpans

/-- insertion into a list sorted by (start ascending, end descending) -/
def insertSpan (x : Span) : List Span → List Span
  | [] => [x]
  | y :: r => if x.s < y.s || (x.s == y.s && x.e ≥ y.e) then x :: y :: r else y :: insertSpan x r

def sortSpans (l : List Span) : List Span := l.foldr insertSpan []

/-- Sweep over the sorted spans with the stack of enclosing spans: `false` on a partial overlap. -/
def laminarGo : List Span → List Span → Bool
  | _, [] => true
  | stack, x :: r =>
    let stack' := stack.dropWhile fun t => t.e ≤ x.s && !(t.s == x.s && t.e == x.e)
    match stack' with
    | t :: _ => if x.e ≤ t.e then laminarGo (x :: stack') r else false
    | [] => laminarGo [x] r

def laminar (spans : List Span) : Bool := laminarGo [] (sortSpans (spans.filter fun x => x.s < x.e))

/-- At one offset the code emits the `Start`s of deeper layers first ("scope boundaries from deeper
layers first"), so a deeper layer's span becomes the OUTER one.  That agrees with the ranges only if
every shallower-layer span starting at the same offset is not longer than the deeper one; otherwise
(typically: the injection's content node itself is highlighted and the injected layer's first node
starts with it) the unchanged code already nests the two the wrong way round and the clause is not
applicable.  Sweep over the spans sorted by start: within a group of equal starts compare all pairs. -/
def startTiesOk (spans : List Span) : Bool :=
  let real := sortSpans (spans.filter fun x => x.s < x.e)
  let rec go : List Span → Bool
    | [] => true
    | x :: r =>
      ((r.takeWhile fun y => y.s == x.s).all fun y =>
        -- x comes first in the order (start asc, end desc): x.e ≥ y.e
        (x.depth == y.depth) || (x.e == y.e) || (x.depth > y.depth)) && go r
  go real

/-- Highlights active over every `Source` span, by the stack discipline of the stream. -/
def observedGo : List Nat → List Ev → List (Nat × Nat × List Nat)
  | _, [] => []
  | st, .source a b :: r => (a, b, st) :: observedGo st r
  | st, .start h :: r => observedGo (h :: st) r
  | st, .stop :: r => observedGo st.tail r

def observed (evs : List Ev) : List (Nat × Nat × List Nat) := observedGo [] evs

/-- multiset inclusion of lists of numbers -/
def msub : List Nat → List Nat → Bool
  | [], _ => true
  | x :: r, l => if l.contains x then msub r (l.erase x) else false

/-- A span that a deeper layer has with exactly the same range (candidate for `last_highlight_range`). -/
def shadowed (spans : List Span) (x : Span) : Bool :=
  spans.any fun y => y.s == x.s && y.e == x.e && y.depth > x.depth

/-- `none` = not applicable (spans not laminar); `some (a, b)` = first `Source` span whose observed
highlights are not between the two expected bounds; `some (0, 0)` with `ok` … see `judgeStacks`. -/
def firstStackMismatch (spans : List Span) (evs : List Ev) : Option (Nat × Nat) :=
  let real := spans.filter fun x => x.s < x.e
  let lower := real.filter fun x => !shadowed real x
  ((observed evs).find? fun (a, b, st) =>
    let up := (real.filter fun x => x.s ≤ a && b ≤ x.e).map (·.h)
    let lo := (lower.filter fun x => x.s ≤ a && b ≤ x.e).map (·.h)
    -- a capture boundary strictly inside a `Source` span: the highlight was not opened / closed in place
    let inside := lower.any fun x => (a < x.s && x.s < b) || (a < x.e && x.e < b)
    inside || !(msub lo st && msub st up)).map fun (a, b, _) => (a, b)

/-- Within ONE layer the query cursor yields the captures of nodes that start at the same byte in
PATTERN order, not in nesting order; when a query lists the pattern of an inner node before the
pattern of an enclosing node that starts with it (`(word) @h.word` … `(call) @h.call`), the unchanged
code opens the inner highlight first and the stack is nested the wrong way round.  The clause
assumes captures in nesting order: among the spans of a layer (in capture order) that start at the
same offset, ends must not increase. -/
def captureOrderOk (l : List Span) : Bool :=
  match l with
  | [] => true
  | x :: r => ((r.filter fun y => y.s == x.s && x.s < x.e).all fun y => y.e ≤ x.e) && captureOrderOk r

/-- `skip…` when the clause is not applicable, else `ok` / `FAIL a-b`. -/
def judgeStacks (defs : List FDef) (evs : List Ev) : String :=
  let spans := allSpans defs
  if !(defs.all fun d => captureOrderOk (layerSpans d)) then "skip-capture-order"
  else if !laminar spans then "skip"
  else if !startTiesOk spans then "skip-start-tie"
  else match firstStackMismatch spans evs with
    | none => "ok"
    | some (a, b) => s!"FAIL@{a}-{b}"

end TsVerif.C17
