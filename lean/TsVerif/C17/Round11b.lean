import TsVerif.C17.IntersectLemmas
/-!
# C17 round 11 (b): the content ranges computed by `intersect_ranges` are ordered and disjoint

Listed as "not proved: the result list is ordered/disjoint (needs ordered parents and nodes)".  It
turns out NOT to need any hypothesis on the parent ranges: every produced piece starts at or after
the running `range.start_byte`, which is never before the end of an earlier piece.
-/
namespace TsVerif.C17

/-- `acc` is a list of non-empty ranges, each ending at or before the start of every later one, all
ending at or before `b`. -/
def OrdR (acc : List Rg) (b : Nat) : Prop :=
  acc.Pairwise (fun r r' => r.2 ≤ r'.1) ∧ ∀ r ∈ acc, r.1 < r.2 ∧ r.2 ≤ b

theorem OrdR.mono {acc : List Rg} {b b' : Nat} (h : OrdR acc b) (hb : b ≤ b') : OrdR acc b' :=
  ⟨h.1, fun r hr => ⟨(h.2 r hr).1, Nat.le_trans (h.2 r hr).2 hb⟩⟩

theorem OrdR.snoc {acc : List Rg} {b a e : Nat} (h : OrdR acc b) (hba : b ≤ a) (hae : a < e) :
    OrdR (acc ++ [(a, e)]) e := by
  refine ⟨?_, ?_⟩
  · rw [List.pairwise_append]
    refine ⟨h.1, by simp, ?_⟩
    intro r hr r' hr'
    simp only [List.mem_singleton] at hr'
    subst hr'
    have := (h.2 r hr).2
    simp only
    omega
  · intro r hr
    rcases List.mem_append.mp hr with hr | hr
    · have := h.2 r hr
      exact ⟨this.1, by omega⟩
    · simp only [List.mem_singleton] at hr
      subst hr
      exact ⟨hae, Nat.le_refl _⟩

theorem irStep_ord {acc : List Rg} {b rs re : Nat} (cur : Rg) (h : OrdR acc b) (hb : b ≤ rs) (hre : rs ≤ re) :
    ((irStep rs re cur acc).2.2 = true → OrdR (irStep rs re cur acc).2.1 re) ∧
    ((irStep rs re cur acc).2.2 = false →
      OrdR (irStep rs re cur acc).2.1 (irStep rs re cur acc).1 ∧ (irStep rs re cur acc).1 ≤ re) := by
  unfold irStep
  by_cases h1 : rs < cur.2
  · simp only [if_pos h1]
    have hrs1 : rs ≤ (if rs < cur.1 then cur.1 else rs) := by split <;> omega
    generalize (if rs < cur.1 then cur.1 else rs) = rs1 at hrs1
    by_cases h2 : cur.2 < re
    · simp only [if_pos h2]
      refine ⟨fun hf => by simp at hf, fun _ => ⟨?_, by omega⟩⟩
      by_cases h3 : rs1 < cur.2
      · rw [if_pos h3]; exact h.snoc (by omega) h3
      · rw [if_neg h3]; exact h.mono (by omega)
    · simp only [if_neg h2]
      refine ⟨fun _ => ?_, fun hf => by simp at hf⟩
      by_cases h3 : rs1 < re
      · rw [if_pos h3]; exact h.snoc (by omega) h3
      · rw [if_neg h3]; exact h.mono (by omega)
  · simp only [if_neg h1]
    exact ⟨fun hf => by simp at hf, fun _ => ⟨h.mono hb, hre⟩⟩

theorem irWhile_ord (re : Nat) : ∀ (rest : List Rg) (rs : Nat) (cur : Rg) (acc : List Rg) (b : Nat),
    OrdR acc b → b ≤ rs → rs ≤ re → OrdR (irWhile rs re cur rest acc).1 re := by
  intro rest
  induction rest with
  | nil =>
    intro rs cur acc b h hb hre
    have hs := irStep_ord cur h hb hre
    unfold irWhile
    split
    · split
      · rename_i hbrk; exact hs.1 hbrk
      · rename_i hbrk
        have := hs.2 (by simpa using hbrk)
        exact this.1.mono this.2
    · exact h.mono (by omega)
  | cons nx rest' ih =>
    intro rs cur acc b h hb hre
    have hs := irStep_ord cur h hb hre
    unfold irWhile
    split
    · split
      · rename_i hbrk; exact hs.1 hbrk
      · rename_i hbrk
        have := hs.2 (by simpa using hbrk)
        exact ih _ nx _ _ this.1 (Nat.le_refl _) this.2
    · exact h.mono (by omega)

/-- The excluded ranges (children, then the empty range after the node) in order from `prevEnd`. -/
def chainUp (prevEnd : Nat) : List Rg → Prop
  | [] => True
  | x :: xs => prevEnd ≤ x.1 ∧ x.1 ≤ x.2 ∧ chainUp x.2 xs

def lastEnd (prevEnd : Nat) : List Rg → Nat
  | [] => prevEnd
  | x :: xs => lastEnd x.2 xs

theorem chainUp_le : ∀ (excl : List Rg) (p : Nat), chainUp p excl → p ≤ lastEnd p excl := by
  intro excl
  induction excl with
  | nil => intro p _; exact Nat.le_refl _
  | cons x xs ih =>
    intro p h
    have := ih x.2 h.2.2
    have := h.1; have := h.2.1
    simp only [lastEnd]; omega

theorem irExcl_ord : ∀ (excl : List Rg) (prevEnd : Nat) (cur : Rg) (rest acc : List Rg) (b : Nat),
    OrdR acc b → b ≤ prevEnd → chainUp prevEnd excl →
    OrdR (irExcl prevEnd excl cur rest acc).1 (lastEnd prevEnd excl) := by
  intro excl
  induction excl with
  | nil => intro prevEnd cur rest acc b h hb _; exact h.mono hb
  | cons x xs ih =>
    intro prevEnd cur rest acc b h hb hc
    have hle := chainUp_le xs x.2 hc.2.2
    have h1 := hc.1
    have h2 := hc.2.1
    unfold irExcl
    simp only [lastEnd]
    split
    · exact ih x.2 cur rest acc b h (by omega) hc.2.2
    · have hw := irWhile_ord x.1 rest prevEnd cur acc b h hb h1
      split
      · exact hw.mono (by omega)
      · exact ih x.2 _ _ _ x.1 hw h2 hc.2.2

/-- Content nodes in order from `b`, each with its children in order inside it. -/
def nodesUp (b : Nat) : List INode → Prop
  | [] => True
  | nd :: ns => b ≤ nd.s ∧ chainOk nd.s nd.e nd.children ∧ nodesUp nd.e ns

theorem chainUp_excl : ∀ (ch : List Rg) (lo hi : Nat), chainOk lo hi ch →
    chainUp lo (ch ++ [(hi, hi)]) ∧ lastEnd lo (ch ++ [(hi, hi)]) = hi := by
  intro ch
  induction ch with
  | nil => intro lo hi h; exact ⟨⟨h, Nat.le_refl _, trivial⟩, rfl⟩
  | cons c r ih =>
    intro lo hi h
    have := ih c.2 hi h.2.2
    exact ⟨⟨h.1, h.2.1, this.1⟩, this.2⟩

theorem exclOf_up (incl : Bool) (nd : INode) (h : chainOk nd.s nd.e nd.children) :
    chainUp nd.s (exclOf incl nd) ∧ lastEnd nd.s (exclOf incl nd) = nd.e := by
  unfold exclOf
  cases incl with
  | true => exact chainUp_excl [] nd.s nd.e (chainOk_le h)
  | false => exact chainUp_excl nd.children nd.s nd.e h

theorem irNodes_ord (incl : Bool) : ∀ (nodes : List INode) (cur : Rg) (rest acc : List Rg) (b : Nat),
    OrdR acc b → nodesUp b nodes → ∃ b', OrdR (irNodes incl nodes cur rest acc) b' := by
  intro nodes
  induction nodes with
  | nil => intro cur rest acc b h _; exact ⟨b, h⟩
  | cons nd ns ih =>
    intro cur rest acc b h hn
    have hx := exclOf_up incl nd hn.2.1
    have he := irExcl_ord (exclOf incl nd) nd.s cur rest acc b h hn.1 hx.1
    rw [hx.2] at he
    unfold irNodes
    simp only
    split
    · exact ⟨_, he⟩
    · exact ih _ _ _ nd.e he hn.2.2

/-- ORDER AND DISJOINTNESS OF THE INJECTION CONTENT RANGES: for ANY parent ranges (ordered or not,
overlapping or not) and content nodes listed in document order, each with its children in order inside
it (`nodesUp 0 nodes` — true of the syntax nodes a query cursor yields for one pattern in order),
the list `intersect_ranges` returns consists of non-empty ranges and every range ends at or before
the start of every later one — i.e. it is a valid `included_ranges` argument for `Parser::parse`
(`ts_parser_set_included_ranges` demands exactly this order). -/
theorem intersect_ranges_ordered (parents : List Rg) (nodes : List INode) (incl : Bool)
    (hn : nodesUp 0 nodes) :
    (intersectRanges parents nodes incl).Pairwise (fun r r' => r.2 ≤ r'.1) ∧
    ∀ r ∈ intersectRanges parents nodes incl, r.1 < r.2 := by
  unfold intersectRanges
  cases parents with
  | nil => exact ⟨List.Pairwise.nil, fun r hr => by simp at hr⟩
  | cons p ps =>
    obtain ⟨b', hb'⟩ := irNodes_ord incl nodes p ps [] 0 ⟨List.Pairwise.nil, fun r hr => by simp at hr⟩ hn
    exact ⟨hb'.1, fun r hr => (hb'.2 r hr).1⟩

/-- The injection branch of `HighlightIter::next` passes ONE content node (`&[content_node]`): its
content ranges are ordered and disjoint as soon as the node's children are in order inside it —
whatever the layer's own ranges are. -/
theorem injection_ranges_ordered (parents : List Rg) (nd : INode) (incl : Bool)
    (h : chainOk nd.s nd.e nd.children) :
    (intersectRanges parents [nd] incl).Pairwise (fun r r' => r.2 ≤ r'.1) ∧
    ∀ r ∈ intersectRanges parents [nd] incl, r.1 < r.2 :=
  intersect_ranges_ordered parents [nd] incl ⟨Nat.zero_le _, h, trivial⟩

/-- non-vacuity: two content nodes, the first with two children, parents with a gap that splits a
piece -/
example : nodesUp 0 [⟨2, 20, [(4, 6), (10, 12)]⟩, ⟨25, 30, []⟩] ∧
    intersectRanges [(0, 8), (9, 40)] [⟨2, 20, [(4, 6), (10, 12)]⟩, ⟨25, 30, []⟩] false =
      [(2, 4), (6, 8), (9, 10), (12, 20), (25, 30)] := by
  refine ⟨?_, by decide⟩
  simp [nodesUp, chainOk]

/-- The node-order hypothesis is needed: content nodes listed backwards give ranges out of order. -/
example : intersectRanges [(0, 40)] [⟨25, 30, []⟩, ⟨2, 20, []⟩] true = [(25, 30), (2, 20)] := by decide

end TsVerif.C17
