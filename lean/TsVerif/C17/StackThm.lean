import TsVerif.C17.Merge
import TsVerif.C17.StackSpec
/-!
# C17: the scope-stack clause as a theorem about the single-layer merge

For captures inside the source, in start order, any two nested or disjoint, listed in nesting order
(`capsOk`), the stream of `mergeLayer` satisfies the `StackSpec` clause exactly: over every `Source`
span the stack of open highlights (innermost first) is the list of the highlights of the captures
whose range contains the span, innermost (= latest capture) first.
-/
namespace TsVerif.C17

/-- A highlighted range. -/
structure OSpan where
  s : Nat
  e : Nat
  h : Nat
  deriving Repr

def OSpan.contains (a b : Nat) (x : OSpan) : Bool := x.s ≤ a && b ≤ x.e

/-- The captures that produce a highlight. -/
def capSpans (caps : List Cap) : List OSpan :=
  caps.filterMap fun c => c.h.map fun h => { s := c.s, e := c.e, h := h }

/-- SPEC: the highlights of the captures containing `[a,b)`, innermost (latest) first. -/
def expectedStack (caps : List Cap) (a b : Nat) : List Nat :=
  (((capSpans caps).filter (OSpan.contains a b)).map (·.h)).reverse

/-- Expected stack seen from a state of the loop: future captures on top of the open ones. -/
def EState (opn : List OSpan) (rest : List Cap) (a b : Nat) : List Nat :=
  expectedStack rest a b ++ (opn.filter (OSpan.contains a b)).map (·.h)

theorem expectedStack_cons_none {c : Cap} (r : List Cap) (a b : Nat) (h : c.h = none) :
    expectedStack (c :: r) a b = expectedStack r a b := by
  simp [expectedStack, capSpans, h]

theorem expectedStack_cons_some {c : Cap} {hh : Nat} (r : List Cap) (a b : Nat) (h : c.h = some hh) :
    expectedStack (c :: r) a b =
      expectedStack r a b ++ (if OSpan.contains a b { s := c.s, e := c.e, h := hh } then [hh] else []) := by
  simp only [expectedStack, capSpans, List.filterMap_cons, h, Option.map_some, List.filter_cons]
  split <;> simp

theorem expectedStack_empty (rest : List Cap) (a b : Nat) (h : ∀ c ∈ rest, a < c.s) :
    expectedStack rest a b = [] := by
  induction rest with
  | nil => rfl
  | cons c r ih =>
    have hr := ih (fun c' hc' => h c' (List.mem_cons_of_mem _ hc'))
    have hc := h c (List.mem_cons_self)
    cases hh : c.h with
    | none => rw [expectedStack_cons_none r a b hh, hr]
    | some v =>
      rw [expectedStack_cons_some r a b hh, hr]
      have : OSpan.contains a b { s := c.s, e := c.e, h := v } = false := by
        simp [OSpan.contains]; omega
      simp [this]

theorem filter_all_contain (opn : List OSpan) (a b : Nat) (h : ∀ x ∈ opn, x.s ≤ a ∧ b ≤ x.e) :
    opn.filter (OSpan.contains a b) = opn := by
  apply List.filter_eq_self.mpr
  intro x hx
  have := h x hx
  simp [OSpan.contains, this.1, this.2]

theorem EState_drop (x : OSpan) (opn : List OSpan) (rest : List Cap) (a b : Nat) (h : x.e ≤ a) (hab : a < b) :
    EState (x :: opn) rest a b = EState opn rest a b := by
  have : OSpan.contains a b x = false := by simp [OSpan.contains]; omega
  simp [EState, this]

/-! ## observed stacks of the emitted pieces -/

theorem observedGo_append_stop (st : List Nat) (off t : Nat) (evs : List Ev) :
    observedGo st (emitEv off t .stop ++ evs) =
      (if off < t then [(off, t, st)] else []) ++ observedGo st.tail evs := by
  unfold emitEv; split <;> simp [observedGo]

theorem observedGo_append_start (st : List Nat) (off t h : Nat) (evs : List Ev) :
    observedGo st (emitEv off t (.start h) ++ evs) =
      (if off < t then [(off, t, st)] else []) ++ observedGo (h :: st) evs := by
  unfold emitEv; split <;> simp [observedGo]

/-! ## the invariant with the ordering facts -/

theorem capsOk_cons {n : Nat} {c : Cap} {r : List Cap} (h : capsOk n (c :: r) = true) :
    (c.s ≤ c.e ∧ c.e ≤ n) ∧ (∀ c' ∈ r, c.s ≤ c'.s ∧ (c.e ≤ c'.s ∨ c'.e ≤ c.e)) ∧ capsOk n r = true := by
  simp only [capsOk, capOk, capAfter, Bool.and_eq_true, decide_eq_true_eq, List.all_eq_true,
    Bool.or_eq_true] at h
  exact ⟨h.1.1, h.1.2, h.2⟩

/-- `opn` = the open highlights (innermost first); `rest` = the captures still to come. -/
structure SInvL (n off : Nat) (opn : List OSpan) (rest : List Cap) : Prop where
  sorted : (opn.map (·.e)).Pairwise (· ≤ ·)
  openLe : ∀ x ∈ opn, x.s ≤ off ∧ off ≤ x.e
  capsok : capsOk n rest = true
  restGe : ∀ c ∈ rest, off ≤ c.s
  nest : ∀ x ∈ opn, ∀ c ∈ rest, x.e ≤ c.s ∨ c.e ≤ x.e

theorem SInvL.pop {n off : Nat} {x : OSpan} {opn : List OSpan} {rest : List Cap}
    (hi : SInvL n off (x :: opn) rest) (hrest : ∀ c ∈ rest, x.e ≤ c.s) : SInvL n (max off x.e) opn rest := by
  have hx := hi.openLe x (List.mem_cons_self)
  have hm : max off x.e = x.e := by omega
  rw [hm]
  have hs : (∀ a ∈ opn, x.e ≤ a.e) ∧ List.Pairwise (· ≤ ·) (opn.map (·.e)) := by simpa using hi.sorted
  exact {
    sorted := hs.2
    openLe := fun y hy => by
      have h1 := hi.openLe y (List.mem_cons_of_mem _ hy)
      have h2 := hs.1 y hy
      exact ⟨by omega, h2⟩
    capsok := hi.capsok
    restGe := hrest
    nest := fun y hy c hc => hi.nest y (List.mem_cons_of_mem _ hy) c hc }

theorem SInvL.skip {n off : Nat} {opn : List OSpan} {c : Cap} {rest : List Cap}
    (hi : SInvL n off opn (c :: rest)) : SInvL n off opn rest :=
  { sorted := hi.sorted
    openLe := hi.openLe
    capsok := (capsOk_cons hi.capsok).2.2
    restGe := fun c' hc' => hi.restGe c' (List.mem_cons_of_mem _ hc')
    nest := fun x hx c' hc' => hi.nest x hx c' (List.mem_cons_of_mem _ hc') }

theorem SInvL.take {n off : Nat} {opn : List OSpan} {c : Cap} {rest : List Cap} (hh : Nat)
    (hi : SInvL n off opn (c :: rest)) (hopen : ∀ x ∈ opn, c.s < x.e) :
    SInvL n (max off c.s) ({ s := c.s, e := c.e, h := hh } :: opn) rest := by
  have hoc := hi.restGe c (List.mem_cons_self)
  have hm : max off c.s = c.s := by omega
  rw [hm]
  obtain ⟨⟨hse, _⟩, haft, hrest⟩ := capsOk_cons hi.capsok
  have hce : ∀ x ∈ opn, c.e ≤ x.e := by
    intro x hx
    rcases hi.nest x hx c (List.mem_cons_self) with h | h
    · have := hopen x hx; omega
    · exact h
  exact {
    sorted := by
      simp only [List.map_cons]
      refine List.pairwise_cons.mpr ⟨?_, hi.sorted⟩
      intro e he
      obtain ⟨x, hx, rfl⟩ := List.mem_map.mp he
      exact hce x hx
    openLe := by
      intro x hx
      rcases List.mem_cons.mp hx with rfl | hx
      · exact ⟨Nat.le_refl _, hse⟩
      · have h1 := hi.openLe x hx
        have h2 := hopen x hx
        exact ⟨by omega, by omega⟩
    capsok := hrest
    restGe := fun c' hc' => (haft c' hc').1
    nest := by
      intro x hx c' hc'
      rcases List.mem_cons.mp hx with rfl | hx
      · exact (haft c' hc').2
      · exact hi.nest x hx c' (List.mem_cons_of_mem _ hc') }

/-- What is claimed about every observed `Source` span from a state on. -/
def StackOk (off : Nat) (opn : List OSpan) (rest : List Cap) (t : Nat × Nat × List Nat) : Prop :=
  off ≤ t.1 ∧ t.1 < t.2.1 ∧ t.2.2 = EState opn rest t.1 t.2.1

theorem mergeGo_stack (n : Nat) : ∀ (fuel off : Nat) (opn : List OSpan) (rest : List Cap),
    2 * rest.length + opn.length < fuel → SInvL n off opn rest →
    ∀ t ∈ observedGo (opn.map (·.h)) (mergeGo n fuel off (opn.map (·.e)) rest), StackOk off opn rest t := by
  intro fuel
  induction fuel with
  | zero => intro off opn rest hf; omega
  | succ fuel ih =>
    intro off opn rest hf hi t ht
    -- the pop step, shared by two cases
    have popCase : ∀ (x : OSpan) (opn' : List OSpan), opn = x :: opn' → (∀ c ∈ rest, x.e ≤ c.s) →
        t ∈ (if off < x.e then [(off, x.e, opn.map (·.h))] else []) ++
          observedGo (opn'.map (·.h)) (mergeGo n fuel (max off x.e) (opn'.map (·.e)) rest) →
        StackOk off opn rest t := by
      intro x opn' hopn hrest hmem
      subst hopn
      have hx := hi.openLe x (List.mem_cons_self)
      have hs : (∀ a ∈ opn', x.e ≤ a.e) ∧ List.Pairwise (· ≤ ·) (opn'.map (·.e)) := by simpa using hi.sorted
      rcases List.mem_append.mp hmem with h1 | h2
      · by_cases hlt : off < x.e
        · simp only [if_pos hlt, List.mem_singleton] at h1
          subst h1
          refine ⟨Nat.le_refl _, hlt, ?_⟩
          simp only [EState]
          rw [expectedStack_empty rest off x.e (fun c hc => by have := hrest c hc; omega)]
          rw [filter_all_contain (x :: opn') off x.e]
          · rfl
          · intro y hy
            rcases List.mem_cons.mp hy with rfl | hy
            · exact ⟨hx.1, Nat.le_refl _⟩
            · exact ⟨(hi.openLe y (List.mem_cons_of_mem _ hy)).1, hs.1 y hy⟩
        · simp [hlt] at h1
      · have hp := hi.pop hrest
        have := ih (max off x.e) opn' rest (by simp at hf ⊢; omega) hp t h2
        obtain ⟨g1, g2, g3⟩ := this
        refine ⟨by omega, g2, ?_⟩
        rw [g3, EState_drop x opn' rest t.1 t.2.1 (by omega) g2]
    -- the take step
    have takeCase : ∀ (c : Cap) (rest' : List Cap), rest = c :: rest' → (∀ x ∈ opn, c.s < x.e) →
        (∀ hh, c.h = some hh →
          t ∈ (if off < c.s then [(off, c.s, opn.map (·.h))] else []) ++
            observedGo (hh :: opn.map (·.h)) (mergeGo n fuel (max off c.s) (c.e :: opn.map (·.e)) rest') →
          StackOk off opn rest t) ∧
        (c.h = none → t ∈ observedGo (opn.map (·.h)) (mergeGo n fuel off (opn.map (·.e)) rest') →
          StackOk off opn rest t) := by
      intro c rest' hrest hopen
      subst hrest
      have hoc := hi.restGe c (List.mem_cons_self)
      obtain ⟨_, haft, _⟩ := capsOk_cons hi.capsok
      constructor
      · intro hh hsome hmem
        rcases List.mem_append.mp hmem with h1 | h2
        · by_cases hlt : off < c.s
          · simp only [if_pos hlt, List.mem_singleton] at h1
            subst h1
            refine ⟨Nat.le_refl _, hlt, ?_⟩
            simp only [EState]
            rw [expectedStack_empty (c :: rest') off c.s (fun c' hc' => by
              rcases List.mem_cons.mp hc' with rfl | hc'
              · exact hlt
              · have := (haft c' hc').1; omega)]
            rw [filter_all_contain opn off c.s]
            · rfl
            · intro y hy
              exact ⟨(hi.openLe y hy).1, by have := hopen y hy; omega⟩
          · simp [hlt] at h1
        · have ht' := hi.take hh hopen
          have := ih (max off c.s) ({ s := c.s, e := c.e, h := hh } :: opn) rest' (by simp at hf ⊢; omega) ht'
            t (by simpa using h2)
          obtain ⟨g1, g2, g3⟩ := this
          refine ⟨by omega, g2, ?_⟩
          rw [g3]
          simp only [EState, expectedStack_cons_some rest' t.1 t.2.1 hsome, List.filter_cons]
          split <;> simp
      · intro hnone hmem
        have := ih off opn rest' (by simp at hf ⊢; omega) hi.skip t hmem
        obtain ⟨g1, g2, g3⟩ := this
        refine ⟨g1, g2, ?_⟩
        rw [g3]
        simp only [EState, expectedStack_cons_none rest' t.1 t.2.1 hnone]
    cases rest with
    | nil =>
      cases opn with
      | nil =>
        simp only [List.map_nil, mergeGo] at ht
        by_cases hlt : off < n
        · simp only [if_pos hlt, observedGo, List.mem_singleton] at ht
          subst ht
          exact ⟨Nat.le_refl _, hlt, by simp [EState, expectedStack, capSpans]⟩
        · simp [hlt, observedGo] at ht
      | cons x opn' =>
        simp only [List.map_cons, mergeGo] at ht
        rw [observedGo_append_stop] at ht
        exact popCase x opn' rfl (fun c hc => by simp at hc) (by simpa using ht)
    | cons c rest' =>
      cases opn with
      | nil =>
        simp only [List.map_nil, mergeGo] at ht
        obtain ⟨tk1, tk2⟩ := takeCase c rest' rfl (fun x hx => by simp at hx)
        cases hh : c.h with
        | none => rw [hh] at ht; exact tk2 hh (by simpa using ht)
        | some v =>
          rw [hh] at ht
          simp only at ht
          rw [observedGo_append_start] at ht
          exact tk1 v hh (by simpa using ht)
      | cons x opn' =>
        simp only [List.map_cons, mergeGo] at ht
        by_cases hle : x.e ≤ c.s
        · rw [if_pos hle, observedGo_append_stop] at ht
          obtain ⟨_, haft, _⟩ := capsOk_cons hi.capsok
          exact popCase x opn' rfl (fun c' hc' => by
            rcases List.mem_cons.mp hc' with rfl | hc'
            · exact hle
            · have := (haft c' hc').1; omega) (by simpa using ht)
        · rw [if_neg hle] at ht
          have hs : (∀ a ∈ opn', x.e ≤ a.e) ∧ List.Pairwise (· ≤ ·) (opn'.map (·.e)) := by simpa using hi.sorted
          obtain ⟨tk1, tk2⟩ := takeCase c rest' rfl (fun y hy => by
            rcases List.mem_cons.mp hy with rfl | hy
            · omega
            · have := hs.1 y hy; omega)
          cases hh : c.h with
          | none => rw [hh] at ht; exact tk2 hh (by simpa using ht)
          | some v =>
            rw [hh] at ht
            simp only at ht
            rw [observedGo_append_start] at ht
            exact tk1 v hh (by simpa using ht)

end TsVerif.C17
