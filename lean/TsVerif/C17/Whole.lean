import TsVerif.C17.Lossy
/-!
# C17 helper lemmas: decoding chunk by chunk equals decoding the whole source
-/
namespace TsVerif.C17

/-- A validation step that did not run out of input is not changed by appending more input. -/
theorem utf8Step_append (b : Nat) (r t : Bytes) (h : utf8Step (b :: r) ≠ .err none) :
    utf8Step (b :: (r ++ t)) = utf8Step (b :: r) := by
  rcases r with _ | ⟨b1, _ | ⟨b2, _ | ⟨b3, r3⟩⟩⟩
  all_goals simp only [utf8Step, List.cons_append, List.nil_append] at h ⊢
  all_goals (repeat' split) <;> simp_all


theorem utf8Step_ok_le {b : Nat} {r : Bytes} {n : Nat} (h : utf8Step (b :: r) = .ok n) : n ≤ (b :: r).length := by
  rcases r with _ | ⟨b1, _ | ⟨b2, _ | ⟨b3, r3⟩⟩⟩
  all_goals simp only [utf8Step] at h
  all_goals (repeat' split at h)
  all_goals first | (injection h with h; simp only [List.length_cons, List.length_nil]; omega) | (exact absurd h (by simp))

theorem utf8Step_err_le {b : Nat} {r : Bytes} {k : Nat} (h : utf8Step (b :: r) = .err (some k)) : k ≤ (b :: r).length := by
  rcases r with _ | ⟨b1, _ | ⟨b2, _ | ⟨b3, r3⟩⟩⟩
  all_goals simp only [utf8Step] at h
  all_goals (repeat' split at h)
  all_goals first | (injection h with h; injection h with h; simp only [List.length_cons, List.length_nil]; omega) | (exact absurd h (by simp))

theorem endsTruncatedAux_skip (k : Nat) (bs : Bytes) :
    endsTruncatedAux k bs = endsTruncatedAux 0 (bs.drop k) := by
  induction bs generalizing k with
  | nil => simp [endsTruncatedAux]
  | cons b r ih =>
    cases k with
    | zero => rfl
    | succ k => simp only [endsTruncatedAux, List.drop_succ_cons]; exact ih k

theorem endsTrunc_ok {b : Nat} {r : Bytes} {n : Nat} (h : utf8Step (b :: r) = .ok n) :
    endsTruncatedAux 0 (b :: r) = endsTruncatedAux 0 ((b :: r).drop n) := by
  rw [endsTruncatedAux, h]; simp only
  rw [endsTruncatedAux_skip, drop_pred_cons b r n (utf8Step_ok_pos h)]

theorem endsTrunc_err {b : Nat} {r : Bytes} {k : Nat} (h : utf8Step (b :: r) = .err (some k)) :
    endsTruncatedAux 0 (b :: r) = endsTruncatedAux 0 ((b :: r).drop k) := by
  rw [endsTruncatedAux, h]; simp only
  rw [endsTruncatedAux_skip, drop_pred_cons b r k (utf8Step_err_pos h)]

theorem endsTrunc_trunc {b : Nat} {r : Bytes} (h : utf8Step (b :: r) = .err none) :
    endsTruncatedAux 0 (b :: r) = true := by
  rw [endsTruncatedAux, h]

/-- Decoding distributes over a split that is not inside a character. -/
theorem lossySpec_append (m : Nat) : ∀ (a t : Bytes), a.length ≤ m → endsTruncatedAux 0 a = false →
    lossySpecAux 0 (a ++ t) = lossySpecAux 0 a ++ lossySpecAux 0 t := by
  induction m with
  | zero =>
    intro a t hlen _
    have : a = [] := List.eq_nil_of_length_eq_zero (by omega)
    subst this; rfl
  | succ m ih =>
    intro a t hlen htr
    cases a with
    | nil => rfl
    | cons b r =>
      cases hs : utf8Step (b :: r) with
      | ok n =>
        have hn := utf8Step_ok_pos hs
        have hle := utf8Step_ok_le hs
        have hs' : utf8Step (b :: (r ++ t)) = .ok n := by
          rw [utf8Step_append b r t (by rw [hs]; simp), hs]
        rw [endsTrunc_ok hs] at htr
        have hshort : ((b :: r).drop n).length ≤ m := by
          simp only [List.length_drop, List.length_cons] at *; omega
        rw [List.cons_append, lossySpec_ok hs', lossySpec_ok hs, ← List.cons_append,
          List.take_append_of_le_length hle, List.drop_append_of_le_length hle,
          ih _ t hshort htr, List.append_assoc]
      | err l =>
        cases l with
        | none => rw [endsTrunc_trunc hs] at htr; exact absurd htr (by simp)
        | some k =>
          have hk := utf8Step_err_pos hs
          have hle := utf8Step_err_le hs
          have hs' : utf8Step (b :: (r ++ t)) = .err (some k) := by
            rw [utf8Step_append b r t (by rw [hs]; simp), hs]
          rw [endsTrunc_err hs] at htr
          have hshort : ((b :: r).drop k).length ≤ m := by
            simp only [List.length_drop, List.length_cons] at *; omega
          rw [List.cons_append, lossySpec_err hs', lossySpec_err hs, ← List.cons_append,
            List.drop_append_of_le_length hle, ih _ t hshort htr, List.append_assoc]

/-- Chunk-wise decoding of a well-formed stream (from position `p`) = decoding the rest of the source. -/
theorem decoded_whole (src : Bytes) : ∀ (evs : List Ev) (p d : Nat),
    wellFormedFrom src.length p d evs = true →
    (∀ s e, Ev.source s e ∈ evs → endsTruncated (sliceT src s e) = false) →
    decoded lossySpec evs src = lossySpec (src.drop p) := by
  intro evs
  induction evs with
  | nil =>
    intro p d h _
    simp only [wellFormedFrom, Bool.and_eq_true, beq_iff_eq] at h
    rw [h.1, List.drop_length]; rfl
  | cons ev r ih =>
    intro p d h hb
    have hbr : ∀ s e, Ev.source s e ∈ r → endsTruncated (sliceT src s e) = false :=
      fun s e hm => hb s e (List.mem_cons_of_mem _ hm)
    cases ev with
    | source s e =>
      simp only [wellFormedFrom, Bool.and_eq_true, beq_iff_eq, decide_eq_true_eq] at h
      obtain ⟨⟨⟨hs, hlt⟩, hle⟩, hrest⟩ := h
      subst hs
      have ihr := ih e d hrest hbr
      have hsplit : src.drop s = sliceT src s e ++ src.drop e := by
        unfold sliceT
        have := (List.take_append_drop (e - s) (src.drop s)).symm
        rw [List.drop_drop] at this
        have he : s + (e - s) = e := by omega
        rw [he] at this; exact this
      have hch := hb s e (List.mem_cons_self)
      unfold decoded at ihr ⊢
      simp only [List.flatMap_cons]
      rw [ihr]
      unfold lossySpec
      rw [hsplit]
      exact (lossySpec_append _ _ _ (Nat.le_refl _) hch).symm
    | start hh =>
      simp only [wellFormedFrom] at h
      have := ih p (d + 1) h hbr
      simpa [decoded] using this
    | stop =>
      simp only [wellFormedFrom, Bool.and_eq_true] at h
      have := ih p (d - 1) h.2 hbr
      simpa [decoded] using this

end TsVerif.C17
