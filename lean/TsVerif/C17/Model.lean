/-!
# C17 model: `LossyUtf8`, `HtmlRenderer::render` / `add_text`, text extraction from HTML

Code-shaped hand ports (Rust → Lean; the translator handles only C) of

* `core::str::from_utf8` error semantics (`valid_up_to`, `error_len`) — `utf8Step`, `fromUtf8`;
* `tree_sitter::LossyUtf8` (`/repo/lib/binding_rust/lib.rs`) — `LossyIt.next`, `lossy`; the flag
  `fixed` selects the iterator of the unchanged tree (`false`) or the one of
  `fixes/C17-lossy-truncated.diff` (`true`);
* `HtmlRenderer::{render, add_text, add_carriage_return, start_highlight, end_highlight}`
  (`/repo/crates/highlight/src/highlight.rs`) — `addCR`, `addByte`, `addText`, `renderEv`, `renderT`,
  `render`.

Spec-level definitions: `lossySpec` (the replacement-complete lossy decoding, = Rust's
`String::from_utf8_lossy`, compared with it on every run), `stripTags`, `unescape`, `htmlText`,
`textOf` (the normalised source text of an event stream), `wellFormed`.

Bytes are `Nat`s (`List Nat`); tied to the real code by correspondence (`harness/src/bin/c17.rs`).
-/
namespace TsVerif.C17

abbrev Bytes := List Nat

/-- `HighlightEvent` -/
inductive Ev where
  | source (s e : Nat)
  | start (h : Nat)
  | stop
  deriving Repr, DecidableEq, Inhabited

/-! ## `core::str::from_utf8` (run_utf8_validation) -/

/-- `(b as i8) < -64`, i.e. a continuation byte `0x80..=0xBF`. -/
def isCont (b : Nat) : Bool := 0x80 ≤ b && b ≤ 0xBF

/-- second byte of a 3-byte sequence, by first byte (the `match (first, next!())` table). -/
def second3 (b0 b1 : Nat) : Bool :=
  (b0 == 0xE0 && 0xA0 ≤ b1 && b1 ≤ 0xBF) ||
  (0xE1 ≤ b0 && b0 ≤ 0xEC && 0x80 ≤ b1 && b1 ≤ 0xBF) ||
  (b0 == 0xED && 0x80 ≤ b1 && b1 ≤ 0x9F) ||
  (0xEE ≤ b0 && b0 ≤ 0xEF && 0x80 ≤ b1 && b1 ≤ 0xBF)

/-- second byte of a 4-byte sequence. -/
def second4 (b0 b1 : Nat) : Bool :=
  (b0 == 0xF0 && 0x90 ≤ b1 && b1 ≤ 0xBF) ||
  (0xF1 ≤ b0 && b0 ≤ 0xF3 && 0x80 ≤ b1 && b1 ≤ 0xBF) ||
  (b0 == 0xF4 && 0x80 ≤ b1 && b1 ≤ 0x8F)

/-- Result of validating one character at the head of a byte string. -/
inductive Step where
  | ok (n : Nat)              -- a valid character of `n` bytes (1..4)
  | err (len : Option Nat)    -- `error_len`: `none` = input ended inside a sequence
  deriving Repr, DecidableEq

/-- One iteration of the validation loop (`utf8_char_width` = 2 for C2..DF, 3 for E0..EF, 4 for
F0..F4, 0 otherwise; `next!()` fails with `error_len = None` at the end of input). -/
def utf8Step : Bytes → Step
  | [] => .ok 0
  | b0 :: r =>
    if b0 < 128 then .ok 1
    else if 0xC2 ≤ b0 && b0 ≤ 0xDF then
      match r with
      | [] => .err none
      | b1 :: _ => if isCont b1 then .ok 2 else .err (some 1)
    else if 0xE0 ≤ b0 && b0 ≤ 0xEF then
      match r with
      | [] => .err none
      | b1 :: r1 =>
        if second3 b0 b1 then
          match r1 with
          | [] => .err none
          | b2 :: _ => if isCont b2 then .ok 3 else .err (some 2)
        else .err (some 1)
    else if 0xF0 ≤ b0 && b0 ≤ 0xF4 then
      match r with
      | [] => .err none
      | b1 :: r1 =>
        if second4 b0 b1 then
          match r1 with
          | [] => .err none
          | b2 :: r2 =>
            if isCont b2 then
              match r2 with
              | [] => .err none
              | b3 :: _ => if isCont b3 then .ok 4 else .err (some 3)
            else .err (some 2)
        else .err (some 1)
    else .err (some 1)

/-- The validation loop.  `skip` = bytes of the current (already validated) character still to be
passed over, `idx` = index of the current byte.  `none` = `Ok`, `some (valid_up_to, error_len)`. -/
def fromUtf8Aux : Nat → Nat → Bytes → Option (Nat × Option Nat)
  | _, _, [] => none
  | k + 1, idx, _ :: r => fromUtf8Aux k (idx + 1) r
  | 0, idx, b :: r =>
    match utf8Step (b :: r) with
    | .ok n => fromUtf8Aux (n - 1) (idx + 1) r
    | .err l => some (idx, l)

def fromUtf8 (bs : Bytes) : Option (Nat × Option Nat) := fromUtf8Aux 0 0 bs

/-- U+FFFD in UTF-8. -/
def FFFD : Bytes := [0xEF, 0xBF, 0xBD]

/-! ## `LossyUtf8` -/

structure LossyIt where
  bytes : Bytes
  inRepl : Bool := false
  deriving Repr

/-- `<LossyUtf8 as Iterator>::next`.  `fixed = false`: the unchanged tree (empty check first;
`error_len() == None` ⇒ `None`).  `fixed = true`: `fixes/C17-lossy-truncated.diff` (pending
replacement first; a truncated tail counts as an error extending to the end of the input). -/
def LossyIt.next (fixed : Bool) (it : LossyIt) : Option (Bytes × LossyIt) :=
  if !fixed && it.bytes.isEmpty then none
  else if it.inRepl then some (FFFD, { it with inRepl := false })
  else if it.bytes.isEmpty then none
  else
    match fromUtf8 it.bytes with
    | none => some (it.bytes, { bytes := [], inRepl := false })
    | some (errorStart, errLen) =>
      let errLen' : Option Nat :=
        match errLen with
        | some l => some l
        | none => if fixed then some (it.bytes.length - errorStart) else none
      match errLen' with
      | some errorLen =>
        if errorStart > 0 then
          some (it.bytes.take errorStart, { bytes := it.bytes.drop (errorStart + errorLen), inRepl := true })
        else
          some (FFFD, { bytes := it.bytes.drop errorLen, inRepl := false })
      | none => none

/-- Drain the iterator and concatenate the pieces (`.flat_map(|p| p.bytes())`); `fuel` bounds the
number of `next` calls (each call consumes input or clears `in_replacement`). -/
def lossyGo (fixed : Bool) : Nat → LossyIt → Bytes
  | 0, _ => []
  | fuel + 1, it =>
    match it.next fixed with
    | none => []
    | some (piece, it') => piece ++ lossyGo fixed fuel it'

def lossyF (fixed : Bool) (bs : Bytes) : Bytes := lossyGo fixed (2 * bs.length + 3) { bytes := bs }

/-- `LossyUtf8` of the unchanged tree. -/
def lossy (bs : Bytes) : Bytes := lossyF false bs
/-- `LossyUtf8` with `fixes/C17-lossy-truncated.diff`. -/
def lossyFixed (bs : Bytes) : Bytes := lossyF true bs

/-- `LossyUtf8::next` with one flag per repaired defect, so that the driver can follow whatever the
probed implementation does (also a half-reverted fix): `fixFinal` = the pending replacement is
emitted before the emptiness test; `fixTrunc` = `error_len() == None` counts as invalid to the end.
`nextV b b = next b` (`lossyV_diag`). -/
def LossyIt.nextV (fixFinal fixTrunc : Bool) (it : LossyIt) : Option (Bytes × LossyIt) :=
  if !fixFinal && it.bytes.isEmpty then none
  else if it.inRepl then some (FFFD, { it with inRepl := false })
  else if it.bytes.isEmpty then none
  else
    match fromUtf8 it.bytes with
    | none => some (it.bytes, { bytes := [], inRepl := false })
    | some (errorStart, errLen) =>
      let errLen' : Option Nat :=
        match errLen with
        | some l => some l
        | none => if fixTrunc then some (it.bytes.length - errorStart) else none
      match errLen' with
      | some errorLen =>
        if errorStart > 0 then
          some (it.bytes.take errorStart, { bytes := it.bytes.drop (errorStart + errorLen), inRepl := true })
        else
          some (FFFD, { bytes := it.bytes.drop errorLen, inRepl := false })
      | none => none

def lossyGoV (fixFinal fixTrunc : Bool) : Nat → LossyIt → Bytes
  | 0, _ => []
  | fuel + 1, it =>
    match it.nextV fixFinal fixTrunc with
    | none => []
    | some (piece, it') => piece ++ lossyGoV fixFinal fixTrunc fuel it'

/-- The port selected by the two probes of the real code. -/
def lossyV (fixFinal fixTrunc : Bool) (bs : Bytes) : Bytes :=
  lossyGoV fixFinal fixTrunc (2 * bs.length + 3) { bytes := bs }

/-- Spec: replacement-complete lossy decoding (every maximal invalid sequence, a truncated tail
included, becomes one U+FFFD; valid characters are copied) — `String::from_utf8_lossy`.
`skip` as in `fromUtf8Aux`. -/
def lossySpecAux : Nat → Bytes → Bytes
  | _, [] => []
  | k + 1, _ :: r => lossySpecAux k r
  | 0, b :: r =>
    match utf8Step (b :: r) with
    | .ok n => (b :: r).take n ++ lossySpecAux (n - 1) r
    | .err (some k) => FFFD ++ lossySpecAux (k - 1) r
    | .err none => FFFD

def lossySpec (bs : Bytes) : Bytes := lossySpecAux 0 bs

/-- Does the unchanged `LossyUtf8` lose data on `bs`?  (a) a truncated sequence at the end loses
it and the valid text since the previous error; (b) an invalid sequence that ends exactly at the end
of the input and directly follows a valid character loses its U+FFFD.  `prevOk` = the previous
character was valid. -/
def tailLossAux : Nat → Bool → Bytes → Bool
  | _, _, [] => false
  | k + 1, p, _ :: r => tailLossAux k p r
  | 0, p, b :: r =>
    match utf8Step (b :: r) with
    | .ok n => tailLossAux (n - 1) true r
    | .err none => true
    | .err (some k) => if p && (r.drop (k - 1)).isEmpty then true else tailLossAux (k - 1) false r

def tailLoss (bs : Bytes) : Bool := tailLossAux 0 false bs

/-- Does `bs` end inside a multi-byte sequence (`error_len() == None`)?  Used only to classify failures. -/
def endsTruncatedAux : Nat → Bytes → Bool
  | _, [] => false
  | k + 1, _ :: r => endsTruncatedAux k r
  | 0, b :: r =>
    match utf8Step (b :: r) with
    | .ok n => endsTruncatedAux (n - 1) r
    | .err none => true
    | .err (some k) => endsTruncatedAux (k - 1) r

def endsTruncated (bs : Bytes) : Bool := endsTruncatedAux 0 bs

/-! ## `HtmlRenderer` -/

/-- `"<span "` -/
def spanPre : Bytes := [60, 115, 112, 97, 110, 32]
/-- `"</span>"` -/
def spanClose : Bytes := [60, 47, 115, 112, 97, 110, 62]

structure RCfg where
  /-- what the attribute callback writes for a highlight -/
  attr : Nat → Bytes
  /-- `carriage_return_highlight` -/
  crh : Option Nat := none
  /-- variant selected by probing the real code: a CR that follows a pending CR first resolves the
  pending one as a lone CR (`fixes/C17-cr-cr-marker.diff`); `false` = the pending offset is overwritten -/
  crcr : Bool := false

/-- `start_highlight` output. -/
def spanOpen (cfg : RCfg) (h : Nat) : Bytes := spanPre ++ cfg.attr h ++ [62]
/-- what `add_carriage_return` inserts: `<span ATTR></span>`. -/
def crSpan (cfg : RCfg) (h : Nat) : Bytes := spanPre ++ cfg.attr h ++ ([62] ++ spanClose)

/-- `html_escape` -/
def htmlEscape (c : Nat) : Option Bytes :=
  if c = 62 then some [38, 103, 116, 59]                -- &gt;
  else if c = 60 then some [38, 108, 116, 59]           -- &lt;
  else if c = 38 then some [38, 97, 109, 112, 59]       -- &amp;
  else if c = 39 then some [38, 35, 51, 57, 59]         -- &#39;
  else if c = 34 then some [38, 113, 117, 111, 116, 59] -- &quot;
  else none

/-- Renderer state.  `rhtml` is `self.html` REVERSED (so that pushing is cheap in the executable
model); `html` gives the real order.  `lineOffsets` is `self.line_offsets`. -/
structure RState where
  rhtml : Bytes := []
  lineOffsets : List Nat := [0]
  lastCR : Option Nat := none
  deriving Repr

def RState.html (st : RState) : Bytes := st.rhtml.reverse

/-- `self.html.extend(bs)` -/
def RState.push (st : RState) (bs : Bytes) : RState := { st with rhtml := bs.reverse ++ st.rhtml }

/-- `let rest = html.split_off(offset); html.extend(ins); html.extend(rest)` -/
def RState.insertAt (st : RState) (off : Nat) (ins : Bytes) : RState :=
  let k := st.rhtml.length - off
  { st with rhtml := st.rhtml.take k ++ (ins.reverse ++ st.rhtml.drop k) }

/-- `add_carriage_return` -/
def addCR (cfg : RCfg) (st : RState) (off : Nat) : RState :=
  match cfg.crh with
  | some h => st.insertAt off (crSpan cfg h)
  | none => st

/-- `if let Some(offset) = self.last_carriage_return.take() && c != b'\n' { add_carriage_return }` -/
def resolveCR (cfg : RCfg) (st : RState) (c : Nat) : RState :=
  match st.lastCR with
  | some off =>
    if c ≠ 10 then addCR cfg { st with lastCR := none } off else { st with lastCR := none }
  | none => st

/-- The `c == b'\n'` branch: close all open spans, newline, record the line offset, reopen. -/
def addNewline (cfg : RCfg) (hl : List Nat) (st : RState) : RState :=
  let st2 := (st.push (hl.flatMap fun _ => spanClose)).push [10]
  let st3 := { st2 with lineOffsets := st2.lineOffsets ++ [st2.rhtml.length] }
  st3.push (hl.flatMap (spanOpen cfg))

/-- The escaping branches. -/
def addPlain (st : RState) (c : Nat) : RState :=
  match htmlEscape c with
  | some e => st.push e
  | none => st.push [c]

/-- `if let Some(offset) = self.last_carriage_return.take() { self.add_carriage_return(offset, ..) }` -/
def finishCR (cfg : RCfg) (st : RState) : RState :=
  match st.lastCR with
  | some off => addCR cfg { st with lastCR := none } off
  | none => st

/-- One byte of `add_text`: a CR is only remembered; any other byte first resolves a pending CR. -/
def addByte (cfg : RCfg) (hl : List Nat) (st : RState) (c : Nat) : RState :=
  if c = 13 then
    let st0 := if cfg.crcr then finishCR cfg st else st
    { st0 with lastCR := some st0.rhtml.length }
  else
    let st1 := resolveCR cfg st c
    if c = 10 then addNewline cfg hl st1 else addPlain st1 c

/-- `add_text` with decoder `dec` (= `LossyUtf8`). -/
def addText (dec : Bytes → Bytes) (cfg : RCfg) (hl : List Nat) (st : RState) (chunk : Bytes) : RState :=
  (dec chunk).foldl (addByte cfg hl) st

/-- `&source[start..end]` without the bounds check. -/
def sliceT (src : Bytes) (s e : Nat) : Bytes := (src.drop s).take (e - s)

/-- One iteration of the event loop of `render`; state = (renderer, `highlights`). -/
def renderEv (dec : Bytes → Bytes) (cfg : RCfg) (src : Bytes) (p : RState × List Nat) (ev : Ev) : RState × List Nat :=
  match ev with
  | .start h => (p.1.push (spanOpen cfg h), p.2 ++ [h])
  | .stop => (p.1.push spanClose, p.2.dropLast)
  | .source s e => (addText dec cfg p.2 p.1 (sliceT src s e), p.2)

/-- `if self.html.last() != Some(&b'\n') { self.html.push(b'\n') }` -/
def finishNewline (st : RState) : RState :=
  if st.rhtml.head? ≠ some 10 then st.push [10] else st

/-- `if self.line_offsets.last() == Some(&(self.html.len() as u32)) { self.line_offsets.pop() }` -/
def finishOffsets (st : RState) : RState :=
  if st.lineOffsets.getLast? = some st.rhtml.length then { st with lineOffsets := st.lineOffsets.dropLast } else st

/-- The tail of `render` after the event loop. -/
def renderFinish (cfg : RCfg) (st : RState) : RState :=
  finishOffsets (finishNewline (finishCR cfg st))

/-- `HtmlRenderer::render` on a fresh renderer, slices unchecked. -/
def renderT (dec : Bytes → Bytes) (cfg : RCfg) (evs : List Ev) (src : Bytes) : RState :=
  renderFinish cfg (evs.foldl (renderEv dec cfg src) ({}, [])).1

/-- Would `&source[start..end]` panic for some event? -/
def slicesOk (n : Nat) (evs : List Ev) : Bool :=
  evs.all fun | .source s e => s ≤ e && e ≤ n | _ => true

/-- `HtmlRenderer::render`; `none` = the slice index panics. -/
def render (dec : Bytes → Bytes) (cfg : RCfg) (evs : List Ev) (src : Bytes) : Option RState :=
  if slicesOk src.length evs then some (renderT dec cfg evs src) else none

/-! ## Reading the text back from HTML -/

/-- Remove tags: `inTag` = inside `<…>`. -/
def strip : Bool → Bytes → Bytes
  | _, [] => []
  | false, c :: r => if c = 60 then strip true r else c :: strip false r
  | true, c :: r => if c = 62 then strip false r else strip true r

/-- State of `strip` after a byte string. -/
def endSt : Bool → Bytes → Bool
  | s, [] => s
  | false, c :: r => if c = 60 then endSt true r else endSt false r
  | true, c :: r => if c = 62 then endSt false r else endSt true r

def stripTags (bs : Bytes) : Bytes := strip false bs

/-- An entity name after `&`: the decoded byte and the number of bytes it occupies. -/
def entityAt : Bytes → Option (Nat × Nat)
  | 103 :: 116 :: 59 :: _ => some (62, 3)
  | 108 :: 116 :: 59 :: _ => some (60, 3)
  | 97 :: 109 :: 112 :: 59 :: _ => some (38, 4)
  | 35 :: 51 :: 57 :: 59 :: _ => some (39, 4)
  | 113 :: 117 :: 111 :: 116 :: 59 :: _ => some (34, 5)
  | _ => none

/-- Decode the five entities the renderer produces (`skip` = bytes of an entity still to pass). -/
def unescapeAux : Nat → Bytes → Bytes
  | _, [] => []
  | k + 1, _ :: r => unescapeAux k r
  | 0, c :: r =>
    if c = 38 then
      match entityAt r with
      | some (ch, k) => ch :: unescapeAux k r
      | none => 38 :: unescapeAux 0 r
    else c :: unescapeAux 0 r

def unescape (bs : Bytes) : Bytes := unescapeAux 0 bs

/-- "tags removed and entities decoded" -/
def htmlText (html : Bytes) : Bytes := unescape (stripTags html)

/-- What the renderer writes for one text byte other than CR/LF. -/
def esc (c : Nat) : Bytes := (htmlEscape c).getD [c]

/-! ## The normalised text of an event stream -/

/-- Decoded bytes of all `Source` chunks in order. -/
def decoded (dec : Bytes → Bytes) (evs : List Ev) (src : Bytes) : Bytes :=
  evs.flatMap fun | .source s e => dec (sliceT src s e) | _ => []

/-- … with carriage returns dropped. -/
def textOf (dec : Bytes → Bytes) (evs : List Ev) (src : Bytes) : Bytes :=
  (decoded dec evs src).filter (· ≠ 13)

/-! ## Well-formed event streams -/

/-- `Source` events contiguous from `pos`, non-empty, inside `[0,n]`; `Start`/`End` balanced from
`depth`, never negative; at the end everything is covered and closed. -/
def wellFormedFrom (n : Nat) : Nat → Nat → List Ev → Bool
  | pos, depth, [] => pos == n && depth == 0
  | pos, depth, .source s e :: r => s == pos && s < e && e ≤ n && wellFormedFrom n e depth r
  | pos, depth, .start _ :: r => wellFormedFrom n pos (depth + 1) r
  | pos, depth, .stop :: r => depth > 0 && wellFormedFrom n pos (depth - 1) r

def wellFormed (n : Nat) (evs : List Ev) : Bool := wellFormedFrom n 0 0 evs

end TsVerif.C17
