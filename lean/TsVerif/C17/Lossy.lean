import TsVerif.C17.Model
/-!
# C17 helper lemmas: `LossyUtf8` (both variants) against the replacement-complete specification
-/
namespace TsVerif.C17

/-! ## one validation step -/

theorem utf8Step_ok_pos {b : Nat} {r : Bytes} {n : Nat} (h : utf8Step (b :: r) = .ok n) : 1 ≤ n := by
  simp only [utf8Step] at h
  repeat' split at h
  all_goals first | (injection h with h; omega) | (exact absurd h (by simp))

theorem utf8Step_err_pos {b : Nat} {r : Bytes} {k : Nat} (h : utf8Step (b :: r) = .err (some k)) : 1 ≤ k := by
  simp only [utf8Step] at h
  repeat' split at h
  all_goals first | (injection h with h; injection h with h; omega) | (exact absurd h (by simp))

/-! ## drop forms of the skip-counter definitions -/

theorem lossySpecAux_skip (k : Nat) (bs : Bytes) : lossySpecAux k bs = lossySpecAux 0 (bs.drop k) := by
  induction bs generalizing k with
  | nil => simp [lossySpecAux]
  | cons b r ih =>
    cases k with
    | zero => rfl
    | succ k => simp only [lossySpecAux, List.drop_succ_cons]; exact ih k

theorem fromUtf8Aux_skip (k idx : Nat) (bs : Bytes) :
    fromUtf8Aux k idx bs = fromUtf8Aux 0 (idx + k) (bs.drop k) := by
  induction bs generalizing k idx with
  | nil => simp [fromUtf8Aux]
  | cons b r ih =>
    cases k with
    | zero => rfl
    | succ k =>
      simp only [fromUtf8Aux, List.drop_succ_cons]
      rw [ih k (idx + 1)]; congr 1; omega

theorem tailLossAux_skip (k : Nat) (p : Bool) (bs : Bytes) :
    tailLossAux k p bs = tailLossAux 0 p (bs.drop k) := by
  induction bs generalizing k with
  | nil => simp [tailLossAux]
  | cons b r ih =>
    cases k with
    | zero => rfl
    | succ k => simp only [tailLossAux, List.drop_succ_cons]; exact ih k

theorem drop_pred_cons (b : Nat) (r : Bytes) (n : Nat) (h : 1 ≤ n) : r.drop (n - 1) = (b :: r).drop n := by
  obtain ⟨m, rfl⟩ : ∃ m, n = m + 1 := ⟨n - 1, by omega⟩
  simp

theorem lossySpec_ok {b : Nat} {r : Bytes} {n : Nat} (h : utf8Step (b :: r) = .ok n) :
    lossySpecAux 0 (b :: r) = (b :: r).take n ++ lossySpecAux 0 ((b :: r).drop n) := by
  rw [lossySpecAux, h]; simp only
  rw [lossySpecAux_skip, drop_pred_cons b r n (utf8Step_ok_pos h)]

theorem lossySpec_err {b : Nat} {r : Bytes} {k : Nat} (h : utf8Step (b :: r) = .err (some k)) :
    lossySpecAux 0 (b :: r) = FFFD ++ lossySpecAux 0 ((b :: r).drop k) := by
  rw [lossySpecAux, h]; simp only
  rw [lossySpecAux_skip, drop_pred_cons b r k (utf8Step_err_pos h)]

theorem lossySpec_trunc {b : Nat} {r : Bytes} (h : utf8Step (b :: r) = .err none) :
    lossySpecAux 0 (b :: r) = FFFD := by
  rw [lossySpecAux, h]

theorem fromUtf8_ok {b : Nat} {r : Bytes} {n : Nat} (idx : Nat) (h : utf8Step (b :: r) = .ok n) :
    fromUtf8Aux 0 idx (b :: r) = fromUtf8Aux 0 (idx + n) ((b :: r).drop n) := by
  rw [fromUtf8Aux, h]; simp only
  rw [fromUtf8Aux_skip, drop_pred_cons b r n (utf8Step_ok_pos h)]
  have := utf8Step_ok_pos h
  congr 1; omega

theorem fromUtf8_err {b : Nat} {r : Bytes} {l : Option Nat} (idx : Nat) (h : utf8Step (b :: r) = .err l) :
    fromUtf8Aux 0 idx (b :: r) = some (idx, l) := by
  rw [fromUtf8Aux, h]

theorem tailLoss_ok {b : Nat} {r : Bytes} {n : Nat} (p : Bool) (h : utf8Step (b :: r) = .ok n) :
    tailLossAux 0 p (b :: r) = tailLossAux 0 true ((b :: r).drop n) := by
  rw [tailLossAux, h]; simp only
  rw [tailLossAux_skip, drop_pred_cons b r n (utf8Step_ok_pos h)]

theorem tailLoss_err {b : Nat} {r : Bytes} {k : Nat} (p : Bool) (h : utf8Step (b :: r) = .err (some k)) :
    tailLossAux 0 p (b :: r) =
      if p && ((b :: r).drop k).isEmpty then true else tailLossAux 0 false ((b :: r).drop k) := by
  rw [tailLossAux, h]; simp only
  rw [tailLossAux_skip, drop_pred_cons b r k (utf8Step_err_pos h)]

theorem tailLoss_trunc {b : Nat} {r : Bytes} (p : Bool) (h : utf8Step (b :: r) = .err none) :
    tailLossAux 0 p (b :: r) = true := by
  rw [tailLossAux, h]

/-! ## `from_utf8` against the specification walk -/

theorem fromUtf8_walk (m : Nat) : ∀ (bs : Bytes) (idx : Nat), bs.length ≤ m →
    (fromUtf8Aux 0 idx bs = none → lossySpecAux 0 bs = bs ∧ ∀ p, tailLossAux 0 p bs = false) ∧
    (∀ v l, fromUtf8Aux 0 idx bs = some (v, l) →
      ∃ j, v = idx + j ∧ bs.drop j ≠ [] ∧ lossySpecAux 0 bs = bs.take j ++ lossySpecAux 0 (bs.drop j) ∧
        utf8Step (bs.drop j) = .err l ∧
        ∀ p, tailLossAux 0 p bs = tailLossAux 0 (p || decide (0 < j)) (bs.drop j)) := by
  induction m with
  | zero =>
    intro bs idx hlen
    have : bs = [] := List.eq_nil_of_length_eq_zero (by omega)
    subst this
    exact ⟨fun _ => ⟨rfl, fun _ => rfl⟩, fun v l h => by simp [fromUtf8Aux] at h⟩
  | succ m ih =>
    intro bs idx hlen
    cases bs with
    | nil => exact ⟨fun _ => ⟨rfl, fun _ => rfl⟩, fun v l h => by simp [fromUtf8Aux] at h⟩
    | cons b r =>
      cases hs : utf8Step (b :: r) with
      | err l0 =>
        rw [fromUtf8_err idx hs]
        refine ⟨fun h => by simp at h, fun v l h => ?_⟩
        simp only [Option.some.injEq, Prod.mk.injEq] at h
        obtain ⟨rfl, rfl⟩ := h
        exact ⟨0, rfl, by simp, by simp, by simpa using hs, fun p => by simp⟩
      | ok n =>
        have hn := utf8Step_ok_pos hs
        have hshort : ((b :: r).drop n).length ≤ m := by
          simp only [List.length_drop, List.length_cons] at *; omega
        obtain ⟨ih1, ih2⟩ := ih ((b :: r).drop n) (idx + n) hshort
        rw [fromUtf8_ok idx hs]
        refine ⟨fun h => ?_, fun v l h => ?_⟩
        · obtain ⟨a1, a2⟩ := ih1 h
          refine ⟨?_, fun p => ?_⟩
          · rw [lossySpec_ok hs, a1, List.take_append_drop]
          · rw [tailLoss_ok p hs, a2]
        · obtain ⟨j, hv, hne, hsp, hst, htl⟩ := ih2 v l h
          refine ⟨n + j, by omega, ?_, ?_, ?_, fun p => ?_⟩
          · rw [← List.drop_drop]; exact hne
          · rw [lossySpec_ok hs, hsp, List.take_add, List.append_assoc, List.drop_drop]
          · rw [← List.drop_drop]; exact hst
          · rw [tailLoss_ok p hs, htl true, ← List.drop_drop]
            have : (p || decide (0 < n + j)) = true := by simp; omega
            rw [this]; simp

/-! ## the iterator -/

theorem next_nil_orig (r : Bool) : LossyIt.next false { bytes := [], inRepl := r } = none := by
  simp [LossyIt.next]

theorem next_nil_fixed : LossyIt.next true { bytes := [], inRepl := false } = none := by
  simp [LossyIt.next]

theorem next_repl_fixed (bs : Bytes) :
    LossyIt.next true { bytes := bs, inRepl := true } = some (FFFD, { bytes := bs, inRepl := false }) := by
  simp [LossyIt.next]

theorem next_repl_orig (b : Nat) (r : Bytes) :
    LossyIt.next false { bytes := b :: r, inRepl := true } = some (FFFD, { bytes := b :: r, inRepl := false }) := by
  simp [LossyIt.next]

theorem next_ok (fixed : Bool) (b : Nat) (r : Bytes) (h : fromUtf8 (b :: r) = none) :
    LossyIt.next fixed { bytes := b :: r, inRepl := false } = some (b :: r, { bytes := [], inRepl := false }) := by
  simp [LossyIt.next, h]

theorem next_err (fixed : Bool) (b : Nat) (r : Bytes) (v el : Nat) (h : fromUtf8 (b :: r) = some (v, some el)) :
    LossyIt.next fixed { bytes := b :: r, inRepl := false } =
      if v > 0 then some ((b :: r).take v, { bytes := (b :: r).drop (v + el), inRepl := true })
      else some (FFFD, { bytes := (b :: r).drop el, inRepl := false }) := by
  simp [LossyIt.next, h]

theorem next_trunc_orig (b : Nat) (r : Bytes) (v : Nat) (h : fromUtf8 (b :: r) = some (v, none)) :
    LossyIt.next false { bytes := b :: r, inRepl := false } = none := by
  simp [LossyIt.next, h]

theorem next_trunc_fixed (b : Nat) (r : Bytes) (v : Nat) (h : fromUtf8 (b :: r) = some (v, none)) :
    LossyIt.next true { bytes := b :: r, inRepl := false } =
      if v > 0 then some ((b :: r).take v, { bytes := (b :: r).drop (v + ((b :: r).length - v)), inRepl := true })
      else some (FFFD, { bytes := (b :: r).drop ((b :: r).length - v), inRepl := false }) := by
  simp [LossyIt.next, h]

theorem lossyGo_succ (fixed : Bool) (fuel : Nat) (it : LossyIt) :
    lossyGo fixed (fuel + 1) it =
      match it.next fixed with
      | none => []
      | some (piece, it') => piece ++ lossyGo fixed fuel it' := rfl

/-- The unchanged iterator equals the specification on inputs without tail loss. -/
theorem lossyGo_orig (m : Nat) : ∀ (bs : Bytes) (fuel : Nat), bs.length ≤ m → 2 * bs.length + 2 ≤ fuel →
    tailLossAux 0 false bs = false → lossyGo false fuel { bytes := bs, inRepl := false } = lossySpecAux 0 bs := by
  induction m with
  | zero =>
    intro bs fuel hlen hf _
    have : bs = [] := List.eq_nil_of_length_eq_zero (by omega)
    subst this
    obtain ⟨f, rfl⟩ : ∃ f, fuel = f + 1 := ⟨fuel - 1, by omega⟩
    rw [lossyGo_succ, next_nil_orig]; rfl
  | succ m ih =>
    intro bs fuel hlen hf htl
    obtain ⟨f, rfl⟩ : ∃ f, fuel = f + 1 := ⟨fuel - 1, by omega⟩
    cases bs with
    | nil => rw [lossyGo_succ, next_nil_orig]; rfl
    | cons b r =>
      obtain ⟨w1, w2⟩ := fromUtf8_walk (m + 1) (b :: r) 0 hlen
      rw [lossyGo_succ]
      cases hu : fromUtf8 (b :: r) with
      | none =>
        rw [next_ok false b r hu]
        obtain ⟨f', rfl⟩ : ∃ f', f = f' + 1 := ⟨f - 1, by simp at hf; omega⟩
        simp only [lossyGo_succ, next_nil_orig, List.append_nil]
        exact (w1 hu).1.symm
      | some res =>
        obtain ⟨v, l⟩ := res
        obtain ⟨j, hv, hne, hsp, hst, htl'⟩ := w2 v l hu
        have hvj : v = j := by omega
        subst hvj
        rw [htl' false] at htl
        -- the failing suffix
        obtain ⟨b', r', hd⟩ : ∃ b' r', (b :: r).drop v = b' :: r' := by
          cases hd : (b :: r).drop v with
          | nil => exact absurd hd hne
          | cons b' r' => exact ⟨b', r', rfl⟩
        rw [hd] at hst htl hsp
        cases l with
        | none => rw [tailLoss_trunc _ hst] at htl; exact absurd htl (by simp)
        | some el =>
          have hel := utf8Step_err_pos hst
          rw [tailLoss_err _ hst] at htl
          rw [next_err false b r v el hu, hsp, lossySpec_err hst]
          have hdd : (b' :: r').drop el = (b :: r).drop (v + el) := by rw [← hd, List.drop_drop]
          have hlen2 : ((b :: r).drop (v + el)).length ≤ m := by
            simp only [List.length_drop, List.length_cons] at *; omega
          by_cases hv0 : v > 0
          · rw [if_pos hv0]
            simp only
            have hp : (false || decide (0 < v)) = true := by simp; omega
            rw [hp] at htl
            rw [hdd] at htl ⊢
            -- the rest is non-empty, so the pending replacement is emitted
            cases hrest : (b :: r).drop (v + el) with
            | nil => rw [hrest] at htl; simp at htl
            | cons b2 r2 =>
              rw [hrest] at htl
              simp only [List.isEmpty_cons, Bool.and_false, Bool.false_eq_true, if_false] at htl
              obtain ⟨f', rfl⟩ : ∃ f', f = f' + 1 := ⟨f - 1, by simp at hf; omega⟩
              rw [lossyGo_succ, next_repl_orig]
              simp only
              have hl3 : (b2 :: r2).length ≤ m := by rw [← hrest]; exact hlen2
              have hl4 : (b2 :: r2).length + v + el = (b :: r).length := by
                rw [← hrest, List.length_drop]
                have : v + el ≤ (b :: r).length := by
                  have := congrArg List.length hrest
                  simp only [List.length_drop, List.length_cons] at this ⊢; omega
                omega
              rw [ih (b2 :: r2) f' hl3 (by omega) htl]
          · rw [if_neg hv0]
            have hv00 : v = 0 := by omega
            subst hv00
            simp only [Nat.zero_add] at hdd hlen2
            have hp : (false || decide (0 < 0)) = false := by simp
            rw [hp] at htl
            simp only [Bool.false_and, Bool.false_eq_true, if_false] at htl
            rw [hdd] at htl ⊢
            simp only [List.take_zero, List.nil_append]
            have hc : (b :: r).length = r.length + 1 := rfl
            have hl4 : ((b :: r).drop el).length ≤ r.length := by
              simp only [List.length_drop, List.length_cons]; omega
            rw [ih ((b :: r).drop el) f hlen2 (by omega) htl]

/-- The repaired iterator equals the specification on every input (with or without a pending replacement). -/
theorem lossyGo_fixed (m : Nat) : ∀ (bs : Bytes) (fuel : Nat), bs.length ≤ m → 2 * bs.length + 3 ≤ fuel →
    lossyGo true fuel { bytes := bs, inRepl := false } = lossySpecAux 0 bs := by
  induction m with
  | zero =>
    intro bs fuel hlen hf
    have : bs = [] := List.eq_nil_of_length_eq_zero (by omega)
    subst this
    obtain ⟨f, rfl⟩ : ∃ f, fuel = f + 1 := ⟨fuel - 1, by omega⟩
    rw [lossyGo_succ, next_nil_fixed]; rfl
  | succ m ih =>
    intro bs fuel hlen hf
    obtain ⟨f, rfl⟩ : ∃ f, fuel = f + 1 := ⟨fuel - 1, by omega⟩
    cases bs with
    | nil => rw [lossyGo_succ, next_nil_fixed]; rfl
    | cons b r =>
      obtain ⟨w1, w2⟩ := fromUtf8_walk (m + 1) (b :: r) 0 hlen
      rw [lossyGo_succ]
      cases hu : fromUtf8 (b :: r) with
      | none =>
        rw [next_ok true b r hu]
        obtain ⟨f', rfl⟩ : ∃ f', f = f' + 1 := ⟨f - 1, by simp at hf; omega⟩
        simp only [lossyGo_succ, next_nil_fixed, List.append_nil]
        exact (w1 hu).1.symm
      | some res =>
        obtain ⟨v, l⟩ := res
        obtain ⟨j, hv, hne, hsp, hst, _⟩ := w2 v l hu
        have hvj : v = j := by omega
        subst hvj
        obtain ⟨b', r', hd⟩ : ∃ b' r', (b :: r).drop v = b' :: r' := by
          cases hd : (b :: r).drop v with
          | nil => exact absurd hd hne
          | cons b' r' => exact ⟨b', r', rfl⟩
        rw [hd] at hst hsp
        obtain ⟨f', rfl⟩ : ∃ f', f = f' + 1 := ⟨f - 1, by simp at hf; omega⟩
        obtain ⟨f'', rfl⟩ : ∃ f'', f' = f'' + 1 := ⟨f' - 1, by simp at hf; omega⟩
        cases l with
        | none =>
          rw [next_trunc_fixed b r v hu, hsp, lossySpec_trunc hst]
          have hvl : v ≤ (b :: r).length := by
            have := congrArg List.length hd
            simp only [List.length_drop, List.length_cons] at this ⊢; omega
          have hall : v + ((b :: r).length - v) = (b :: r).length := by omega
          by_cases hv0 : v > 0
          · rw [if_pos hv0, hall, List.drop_length]
            simp only [lossyGo_succ, next_repl_fixed, next_nil_fixed, List.append_nil]
          · rw [if_neg hv0]
            have hv00 : v = 0 := by omega
            subst hv00
            simp only [Nat.sub_zero, List.drop_length, List.take_zero, List.nil_append]
            simp only [lossyGo_succ, next_nil_fixed, List.append_nil]
        | some el =>
          have hel := utf8Step_err_pos hst
          rw [next_err true b r v el hu, hsp, lossySpec_err hst]
          have hdd : (b' :: r').drop el = (b :: r).drop (v + el) := by rw [← hd, List.drop_drop]
          have hlen2 : ((b :: r).drop (v + el)).length ≤ m := by
            simp only [List.length_drop, List.length_cons] at *; omega
          have hl4 : 2 * ((b :: r).drop (v + el)).length + 3 ≤ f'' + 1 := by
            simp only [List.length_drop, List.length_cons] at *; omega
          rw [hdd]
          by_cases hv0 : v > 0
          · rw [if_pos hv0]
            simp only
            rw [lossyGo_succ, next_repl_fixed]
            simp only
            rw [ih _ (f'' + 1) hlen2 hl4]
          · rw [if_neg hv0]
            have hv00 : v = 0 := by omega
            subst hv00
            simp only [Nat.zero_add, List.take_zero, List.nil_append] at *
            rw [ih _ (f'' + 1 + 1) hlen2 (by omega)]

end TsVerif.C17
