import TsVerif.C17.Intersect
/-!
# C17 helper lemmas: every range produced by `intersect_ranges` is non-empty, inside a parent range
and inside a gap of a content node
-/
namespace TsVerif.C17

/-- `r` is non-empty, inside one of `parents` and inside one of `gaps`. -/
def GoodR (parents gaps : List Rg) (r : Rg) : Prop :=
  r.1 < r.2 ∧ (∃ p ∈ parents, p.1 ≤ r.1 ∧ r.2 ≤ p.2) ∧ (∃ g ∈ gaps, g.1 ≤ r.1 ∧ r.2 ≤ g.2)

theorem irStep_ok {parents gaps : List Rg} {g cur : Rg} (hg : g ∈ gaps) (hcur : cur ∈ parents)
    {rs : Nat} (hrs : g.1 ≤ rs) {acc : List Rg} (hacc : ∀ r ∈ acc, GoodR parents gaps r) :
    g.1 ≤ (irStep rs g.2 cur acc).1 ∧ ∀ r ∈ (irStep rs g.2 cur acc).2.1, GoodR parents gaps r := by
  have push : ∀ (c : Prop) [Decidable c] (new : Rg), (c → GoodR parents gaps new) →
      ∀ r ∈ (if c then acc ++ [new] else acc), GoodR parents gaps r := by
    intro c _ new hn r hr
    by_cases hc : c
    · rw [if_pos hc] at hr
      rcases List.mem_append.mp hr with hr | hr
      · exact hacc r hr
      · simp only [List.mem_singleton] at hr; subst hr; exact hn hc
    · rw [if_neg hc] at hr; exact hacc r hr
  unfold irStep
  by_cases h1 : rs < cur.2
  · simp only [if_pos h1]
    have hr1 : rs ≤ (if rs < cur.1 then cur.1 else rs) ∧ cur.1 ≤ (if rs < cur.1 then cur.1 else rs) := by
      split <;> omega
    generalize (if rs < cur.1 then cur.1 else rs) = rs1 at hr1
    by_cases h2 : cur.2 < g.2
    · simp only [if_pos h2]
      refine ⟨by omega, push _ _ ?_⟩
      intro h3
      exact ⟨h3, ⟨cur, hcur, hr1.2, Nat.le_refl _⟩, ⟨g, hg, by simp only; omega, by simp only; omega⟩⟩
    · simp only [if_neg h2]
      refine ⟨by omega, push _ _ ?_⟩
      intro h3
      exact ⟨h3, ⟨cur, hcur, hr1.2, by simp only; omega⟩, ⟨g, hg, by simp only; omega, Nat.le_refl _⟩⟩
  · simp only [if_neg h1]
    exact ⟨hrs, hacc⟩

/-- Invariant carried by the loop state. -/
def IOk (parents gaps : List Rg) (out : IRes) : Prop :=
  (∀ r ∈ out.1, GoodR parents gaps r) ∧ out.2.1 ∈ parents ∧ ∀ x ∈ out.2.2.1, x ∈ parents

theorem irWhile_ok {parents gaps : List Rg} {g : Rg} (hg : g ∈ gaps) :
    ∀ (rest : List Rg) (rs : Nat) (cur : Rg) (acc : List Rg), g.1 ≤ rs → cur ∈ parents →
      (∀ x ∈ rest, x ∈ parents) → (∀ r ∈ acc, GoodR parents gaps r) →
      IOk parents gaps (irWhile rs g.2 cur rest acc) := by
  intro rest
  induction rest with
  | nil =>
    intro rs cur acc hrs hcur hrest hacc
    have hs := irStep_ok hg hcur hrs hacc
    unfold irWhile
    split
    · split
      · exact ⟨hs.2, hcur, hrest⟩
      · exact ⟨hs.2, hcur, fun x hx => by simp at hx⟩
    · exact ⟨hacc, hcur, hrest⟩
  | cons nx rest' ih =>
    intro rs cur acc hrs hcur hrest hacc
    have hs := irStep_ok hg hcur hrs hacc
    unfold irWhile
    split
    · split
      · exact ⟨hs.2, hcur, hrest⟩
      · exact ih _ nx _ hs.1 (hrest nx (List.mem_cons_self))
          (fun x hx => hrest x (List.mem_cons_of_mem _ hx)) hs.2
    · exact ⟨hacc, hcur, hrest⟩

theorem irExcl_ok {parents gaps : List Rg} : ∀ (excl : List Rg) (prevEnd : Nat) (cur : Rg) (rest acc : List Rg),
    (∀ g ∈ gapsOf prevEnd excl, g ∈ gaps) → cur ∈ parents → (∀ x ∈ rest, x ∈ parents) →
    (∀ r ∈ acc, GoodR parents gaps r) → IOk parents gaps (irExcl prevEnd excl cur rest acc) := by
  intro excl
  induction excl with
  | nil => intro prevEnd cur rest acc _ hcur hrest hacc; exact ⟨hacc, hcur, hrest⟩
  | cons x xs ih =>
    intro prevEnd cur rest acc hgaps hcur hrest hacc
    have hg : (prevEnd, x.1) ∈ gaps := hgaps _ (by simp [gapsOf])
    have hgs : ∀ g ∈ gapsOf x.2 xs, g ∈ gaps := fun g hgm => hgaps g (by simp [gapsOf, hgm])
    unfold irExcl
    split
    · exact ih x.2 cur rest acc hgs hcur hrest hacc
    · have hw := irWhile_ok (g := (prevEnd, x.1)) hg rest prevEnd cur acc (Nat.le_refl _) hcur hrest hacc
      simp only at hw ⊢
      split
      · exact hw
      · exact ih x.2 _ _ _ hgs hw.2.1 hw.2.2 hw.1

/-- All gaps of all content nodes. -/
def allGaps (incl : Bool) (nodes : List INode) : List Rg :=
  nodes.flatMap fun nd => gapsOf nd.s (exclOf incl nd)

theorem irNodes_ok {parents gaps : List Rg} (incl : Bool) : ∀ (nodes : List INode) (cur : Rg) (rest acc : List Rg),
    (∀ g ∈ allGaps incl nodes, g ∈ gaps) → cur ∈ parents → (∀ x ∈ rest, x ∈ parents) →
    (∀ r ∈ acc, GoodR parents gaps r) → ∀ r ∈ irNodes incl nodes cur rest acc, GoodR parents gaps r := by
  intro nodes
  induction nodes with
  | nil => intro cur rest acc _ _ _ hacc; exact hacc
  | cons nd ns ih =>
    intro cur rest acc hgaps hcur hrest hacc
    have h1 : ∀ g ∈ gapsOf nd.s (exclOf incl nd), g ∈ gaps :=
      fun g hgm => hgaps g (by simp [allGaps, List.flatMap_cons]; exact Or.inl hgm)
    have h2 : ∀ g ∈ allGaps incl ns, g ∈ gaps :=
      fun g hgm => hgaps g (by simp only [allGaps, List.flatMap_cons, List.mem_append]; exact Or.inr hgm)
    have he := irExcl_ok (exclOf incl nd) nd.s cur rest acc h1 hcur hrest hacc
    unfold irNodes
    simp only
    split
    · exact he.1
    · exact ih _ _ _ h2 he.2.1 he.2.2 he.1

/-- Children in order inside `[lo, hi]`: `lo ≤ c₁.start ≤ c₁.end ≤ c₂.start ≤ … ≤ hi`. -/
def chainOk (lo hi : Nat) : List Rg → Prop
  | [] => lo ≤ hi
  | c :: r => lo ≤ c.1 ∧ c.1 ≤ c.2 ∧ chainOk c.2 hi r

theorem chainOk_le {lo hi : Nat} {ch : List Rg} (h : chainOk lo hi ch) : lo ≤ hi := by
  induction ch generalizing lo with
  | nil => exact h
  | cons c r ih => have := ih h.2.2; have := h.1; have := h.2.1; omega

theorem chainOk_mem {lo hi : Nat} {ch : List Rg} (h : chainOk lo hi ch) : ∀ c ∈ ch, lo ≤ c.1 ∧ c.2 ≤ hi := by
  induction ch generalizing lo with
  | nil => intro c hc; simp at hc
  | cons c r ih =>
    intro c' hc'
    rcases List.mem_cons.mp hc' with rfl | hc'
    · exact ⟨h.1, chainOk_le h.2.2⟩
    · have hi := ih h.2.2 c' hc'; have h1 := h.1; have h2 := h.2.1; exact ⟨by omega, hi.2⟩

/-- The gaps of a node with ordered children lie inside the node and avoid every child. -/
theorem gaps_chain {lo hi : Nat} {ch : List Rg} (h : chainOk lo hi ch) :
    ∀ g ∈ gapsOf lo (ch ++ [(hi, hi)]), lo ≤ g.1 ∧ g.2 ≤ hi ∧ ∀ c ∈ ch, c.2 ≤ g.1 ∨ g.2 ≤ c.1 := by
  induction ch generalizing lo with
  | nil =>
    intro g hgm
    simp [gapsOf] at hgm
    subst hgm
    exact ⟨Nat.le_refl _, Nat.le_refl _, fun c hc => by simp at hc⟩
  | cons c r ih =>
    intro g hgm
    simp only [List.cons_append, gapsOf, List.mem_cons] at hgm
    have hc2 := chainOk_le h.2.2
    rcases hgm with rfl | hgm
    · refine ⟨Nat.le_refl _, by simp only; have := h.2.1; omega, ?_⟩
      intro c' hc'
      rcases List.mem_cons.mp hc' with rfl | hc'
      · exact Or.inr (Nat.le_refl _)
      · have := (chainOk_mem h.2.2 c' hc').1; have := h.2.1; exact Or.inr (by simp only; omega)
    · obtain ⟨h1, h2, h3⟩ := ih h.2.2 g hgm
      refine ⟨by have := h.1; have := h.2.1; omega, h2, ?_⟩
      intro c' hc'
      rcases List.mem_cons.mp hc' with rfl | hc'
      · exact Or.inl h1
      · exact h3 c' hc'

end TsVerif.C17
