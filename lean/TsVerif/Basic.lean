def hello := "world"
