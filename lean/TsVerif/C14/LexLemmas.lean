import TsVerif.C14.RegexLemmas
import TsVerif.C14.Lex
/-!
# C14 — lemmas about candidates, the documented choice and the scan
-/
namespace TsVerif.C14
open Regex

theorem mem_matchLensAux : ∀ (input : List Nat) (r : Regex) (k n : Nat),
    n ∈ matchLensAux r input k ↔ ∃ m, n = k + m ∧ 1 ≤ m ∧ m ≤ input.length ∧ Matches r (input.take m) := by
  intro input
  induction input with
  | nil =>
    intro r k n
    simp only [matchLensAux, List.not_mem_nil, false_iff]
    rintro ⟨m, _, h1, h2, _⟩
    simp at h2; omega
  | cons c rest ih =>
    intro r k n
    simp only [matchLensAux, List.mem_append, ih]
    have h1 : nullable (deriv c r) = true ↔ Matches r [c] := by rw [nullable_iff, deriv_iff]
    constructor
    · rintro (h | ⟨m, rfl, hm1, hm2, hm⟩)
      · by_cases hn : nullable (deriv c r) = true
        · simp only [hn, if_true, List.mem_singleton] at h
          exact ⟨1, h, Nat.le_refl _, by simp, by simpa using h1.1 hn⟩
        · simp [hn] at h
      · refine ⟨m + 1, by omega, by omega, by simp; omega, ?_⟩
        simpa using (deriv_iff c r _).1 hm
    · rintro ⟨m, rfl, hm1, hm2, hm⟩
      by_cases hm' : m = 1
      · subst hm'
        left
        have : nullable (deriv c r) = true := h1.2 (by simpa using hm)
        simp [this]
      · right
        obtain ⟨m', rfl⟩ : ∃ m', m = m' + 1 := ⟨m - 1, by omega⟩
        refine ⟨m', by omega, by omega, by simp at hm2; omega, ?_⟩
        exact (deriv_iff c r _).2 (by simpa using hm)

theorem mem_matchLens (r : Regex) (input : List Nat) (n : Nat) :
    n ∈ matchLens r input ↔ 1 ≤ n ∧ n ≤ input.length ∧ Matches r (input.take n) := by
  unfold matchLens
  rw [mem_matchLensAux]
  constructor
  · rintro ⟨m, rfl, h1, h2, h3⟩; simp only [Nat.zero_add]; exact ⟨h1, h2, h3⟩
  · rintro ⟨h1, h2, h3⟩; exact ⟨n, by simp, h1, h2, h3⟩

theorem mem_candidates (toks : List Token) (valid : Nat → Bool) (input : List Nat) (c : Cand) :
    c ∈ candidates toks valid input ↔ IsCand toks valid input c := by
  obtain ⟨i, n⟩ := c
  simp only [candidates, List.mem_flatMap, List.mem_range, IsCand]
  constructor
  · rintro ⟨j, hj, hm⟩
    by_cases hv : valid j = true
    · simp only [hv, if_true, List.mem_map, Prod.mk.injEq] at hm
      obtain ⟨m, hm, rfl, rfl⟩ := hm
      have := (mem_matchLens _ _ _).1 hm
      exact ⟨hj, hv, this.1, this.2.1, this.2.2⟩
    · simp [hv] at hm
  · rintro ⟨h1, h2, h3, h4, h5⟩
    refine ⟨i, h1, ?_⟩
    simp only [h2, if_true, List.mem_map, Prod.mk.injEq]
    exact ⟨n, (mem_matchLens _ _ _).2 ⟨h3, h4, h5⟩, by simp⟩

/-! ### the documented order is a total order on keys -/

theorem Better.total (a b : Key) : Better a b ∨ Better b a := by
  unfold Better; omega

theorem Better.trans {a b c : Key} (h1 : Better a b) (h2 : Better b c) : Better a c := by
  unfold Better at *; omega

theorem Better.antisymm {a b : Key} (h1 : Better a b) (h2 : Better b a) : a = b := by
  unfold Better at *
  have : a.p = b.p ∧ a.n = b.n ∧ a.s = b.s ∧ a.i = b.i := by omega
  cases a; cases b; simp_all

theorem foldl_best (toks : List Token) : ∀ (cs : List Cand) (c0 : Cand),
    let m := cs.foldl (fun acc d => if Better (keyOf toks acc) (keyOf toks d) then acc else d) c0
    (m = c0 ∨ m ∈ cs) ∧ Better (keyOf toks m) (keyOf toks c0) ∧ ∀ d ∈ cs, Better (keyOf toks m) (keyOf toks d) := by
  intro cs
  induction cs with
  | nil =>
    intro c0
    simp only [List.foldl_nil, List.not_mem_nil, or_false, true_and]
    exact ⟨by unfold Better; omega, fun _ h => absurd h (by simp)⟩
  | cons d cs ih =>
    intro c0
    simp only [List.foldl_cons]
    by_cases hb : Better (keyOf toks c0) (keyOf toks d)
    · simp only [hb, if_true]
      obtain ⟨h1, h2, h3⟩ := ih c0
      refine ⟨?_, h2, ?_⟩
      · rcases h1 with h1 | h1
        · exact Or.inl h1
        · exact Or.inr (List.mem_cons_of_mem _ h1)
      · intro e he
        rcases List.mem_cons.1 he with rfl | he
        · exact Better.trans h2 hb
        · exact h3 e he
    · simp only [hb, if_false]
      have hb' : Better (keyOf toks d) (keyOf toks c0) := (Better.total _ _).resolve_left hb
      obtain ⟨h1, h2, h3⟩ := ih d
      refine ⟨?_, Better.trans h2 hb', ?_⟩
      · rcases h1 with h1 | h1
        · exact Or.inr (by rw [h1]; exact List.mem_cons_self)
        · exact Or.inr (List.mem_cons_of_mem _ h1)
      · intro e he
        rcases List.mem_cons.1 he with rfl | he
        · exact h2
        · exact h3 e he

theorem bestOf_spec (toks : List Token) (cs : List Cand) :
    (bestOf toks cs = none ↔ cs = []) ∧
    ∀ b, bestOf toks cs = some b → b ∈ cs ∧ ∀ d ∈ cs, Better (keyOf toks b) (keyOf toks d) := by
  cases cs with
  | nil => simp [bestOf]
  | cons c cs =>
    refine ⟨by simp [bestOf], ?_⟩
    intro b hb
    simp only [bestOf, Option.some.injEq] at hb
    obtain ⟨h1, h2, h3⟩ := foldl_best toks cs c
    rw [hb] at h1 h2 h3
    refine ⟨?_, ?_⟩
    · rcases h1 with h1 | h1
      · rw [h1]; exact List.mem_cons_self
      · exact List.mem_cons_of_mem _ h1
    · intro d hd
      rcases List.mem_cons.1 hd with rfl | hd
      · exact h2
      · exact h3 d hd

theorem keyOf_inj (toks : List Token) {a b : Cand} (h : keyOf toks a = keyOf toks b) : a = b := by
  obtain ⟨i, n⟩ := a; obtain ⟨j, m⟩ := b
  simp only [keyOf, Key.mk.injEq] at h
  simp [h.2.1, h.2.2.2]

/-! ### tokenizing makes progress -/

theorem skipExtras_length_le (isExtra : Nat → Bool) : ∀ input, (skipExtras isExtra input).length ≤ input.length := by
  intro input
  induction input with
  | nil => simp [skipExtras]
  | cons c rest ih =>
    simp only [skipExtras]
    split
    · simp only [List.length_cons]; omega
    · simp

theorem tokenizeAux_fuel (choose : Nat → List Nat → Option Cand) (isExtra : Nat → Bool) :
    ∀ (f1 f2 pos : Nat) (input : List Nat), input.length < f1 → input.length < f2 →
      tokenizeAux choose isExtra f1 pos input = tokenizeAux choose isExtra f2 pos input := by
  intro f1
  induction f1 with
  | zero => intro f2 pos input h; omega
  | succ f1 ih =>
    intro f2 pos input h1 h2
    cases f2 with
    | zero => omega
    | succ f2 =>
      simp only [tokenizeAux]
      split
      · rfl
      · rename_i hne
        simp only [lexOne]
        cases hc : choose (input.length - (skipExtras isExtra input).length) (skipExtras isExtra input) with
        | none => rfl
        | some c =>
          obtain ⟨i, n⟩ := c
          simp only
          by_cases hn : n = 0
          · simp [hn]
          · simp only [hn, if_false]
            have hlen : ((skipExtras isExtra input).drop n).length < input.length := by
              have := skipExtras_length_le isExtra input
              have hpos : 0 < (skipExtras isExtra input).length := by
                cases hs : skipExtras isExtra input with
                | nil => simp [hs] at hne
                | cons _ _ => simp
              simp only [List.length_drop]
              omega
            rw [ih f2 _ _ (by omega) (by omega)]

/-! ### the scan returns a candidate that is best among the candidates of its length -/

/-- what `scan` guarantees about its answer -/
def ScanOK (toks : List Token) (valid : Nat → Bool) (I : List Nat) (c : Cand) : Prop :=
  IsCand toks valid I c ∧ ∀ j, IsCand toks valid I (j, c.2) → Better (keyOf toks c) (keyOf toks (j, c.2))

theorem derivs_snoc (r : Regex) (u : List Nat) (c : Nat) : derivs r (u ++ [c]) = deriv c (derivs r u) := by
  simp [derivs, List.foldl_append]

theorem nullable_not_isEmpty {r : Regex} (h : nullable r = true) : r.isEmpty = false := by
  cases r <;> simp_all [nullable, Regex.isEmpty]

theorem scan_sound (toks : List Token) (valid : Nat → Bool) (I : List Nat) :
    ∀ (input : List Nat) (rs : List Regex) (k : Nat) (cur : Option Int) (last : Option Cand),
      input = I.drop k → rs = toks.map (fun t => derivs t.re (I.take k)) →
      (∀ c, last = some c → ScanOK toks valid I c) →
      ∀ c, scan toks valid input rs k cur last = some c → ScanOK toks valid I c := by
  intro input
  induction input with
  | nil => intro rs k cur last _ _ hl c hc; simp only [scan] at hc; exact hl c hc
  | cons ch rest ih =>
    intro rs k cur last hin hrs hl c hc
    have hk : k < I.length := by
      by_cases h : k < I.length
      · exact h
      · have : I.drop k = [] := List.drop_eq_nil_of_le (by omega)
        rw [this] at hin; cases hin
    have hcons : ch :: rest = I[k]'hk :: I.drop (k + 1) := by rw [hin]; exact List.drop_eq_getElem_cons hk
    have h1 : I[k]'hk = ch := by injection hcons with h _; exact h.symm
    have hdrop : rest = I.drop (k + 1) := by injection hcons
    have htake : I.take (k + 1) = I.take k ++ [ch] := by
      rw [List.take_succ_eq_append_getElem hk, h1]
    have hrs' : rs.map (deriv ch) = toks.map (fun t => derivs t.re (I.take (k + 1))) := by
      rw [hrs, List.map_map]
      apply List.map_congr_left
      intro t _
      simp [htake, derivs_snoc]
    have hget : ∀ i, i < toks.length → (rs.map (deriv ch)).getD i .empty = derivs (tokAt toks i).re (I.take (k + 1)) := by
      intro i hi
      rw [hrs']
      simp [List.getD, tokAt, hi]
    simp only [scan] at hc
    cases hm : maxPrec toks (aliveIdx toks valid (rs.map (deriv ch))) with
    | none => simp only [hm] at hc; exact hl c hc
    | some m =>
      simp only [hm] at hc
      by_cases hcut : cut cur m = true
      · rw [if_pos hcut] at hc; exact hl c hc
      · rw [if_neg hcut] at hc
        cases hb : bestOf toks (List.map (fun i => (i, k + 1))
            (List.filter (fun i => ((List.map (deriv ch) rs).getD i Regex.empty).nullable)
              (aliveIdx toks valid (List.map (deriv ch) rs)))) with
        | none =>
          simp only [hb] at hc
          exact ih _ _ _ _ hdrop hrs' hl c hc
        | some b =>
          simp only [hb] at hc
          refine ih _ _ _ _ hdrop hrs' ?_ c hc
          intro c' hc'
          cases hc'
          obtain ⟨hmem, hbest⟩ := (bestOf_spec toks _).2 b hb
          simp only [List.mem_map, List.mem_filter, aliveIdx, List.mem_range, Bool.and_eq_true] at hmem
          obtain ⟨i, ⟨⟨hi, hv, _⟩, hnull⟩, rfl⟩ := hmem
          rw [hget i hi] at hnull
          constructor
          · refine ⟨hi, hv, by simp, by simp; omega, ?_⟩
            have := (nullable_iff _).1 hnull
            simpa using (derivs_iff _ _ _).1 this
          · intro j hj
            obtain ⟨hj1, hj2, _, _, hj5⟩ := hj
            simp only at hj1 hj2 hj5
            have hn : nullable (derivs (tokAt toks j).re (I.take (k + 1))) = true := by
              rw [nullable_iff, derivs_iff]; simpa using hj5
            apply hbest
            simp only [List.mem_map, List.mem_filter, aliveIdx, List.mem_range, Bool.and_eq_true]
            refine ⟨j, ⟨⟨hj1, hj2, ?_⟩, ?_⟩, rfl⟩
            · rw [hget j hj1]; simp [nullable_not_isEmpty hn]
            · rw [hget j hj1]; exact hn

/-! ### with equal precedences the scan is complete: it reaches every candidate length -/

/-- all valid tokens have lexical precedence `p` -/
def FlatPrec (toks : List Token) (valid : Nat → Bool) (p : Int) : Prop :=
  ∀ i, i < toks.length → valid i = true → (tokAt toks i).prec = p

theorem maxPrec_none {toks : List Token} : ∀ {is : List Nat}, maxPrec toks is = none → is = [] := by
  intro is
  cases is with
  | nil => intro _; rfl
  | cons i is =>
    intro h
    simp only [maxPrec] at h
    split at h <;> cases h

theorem maxPrec_flat {toks : List Token} {p : Int} : ∀ {is : List Nat} {m : Int},
    (∀ i ∈ is, (tokAt toks i).prec = p) → maxPrec toks is = some m → m = p := by
  intro is
  induction is with
  | nil => intro m _ h; simp [maxPrec] at h
  | cons i is ih =>
    intro m hall h
    simp only [maxPrec] at h
    have hi := hall i List.mem_cons_self
    cases hm : maxPrec toks is with
    | none => simp only [hm, Option.some.injEq] at h; rw [← h, hi]
    | some m' =>
      simp only [hm, Option.some.injEq] at h
      have := ih (fun j hj => hall j (List.mem_cons_of_mem _ hj)) hm
      rw [← h, this, hi]; simp

theorem derivs_not_empty_of_matches {r : Regex} {u w : List Nat} (h : Matches r (u ++ w)) :
    (derivs r u).isEmpty = false := by
  have := (derivs_iff r u w).2 h
  cases hd : derivs r u <;> simp_all [Regex.isEmpty]
  exact absurd this matches_empty_false

theorem scan_flat (toks : List Token) (valid : Nat → Bool) (I : List Nat) (p : Int)
    (hflat : FlatPrec toks valid p) :
    ∀ (input : List Nat) (rs : List Regex) (k : Nat) (cur : Option Int) (last : Option Cand),
      input = I.drop k → k ≤ I.length → rs = toks.map (fun t => derivs t.re (I.take k)) →
      (cur = none ∨ cur = some p) →
      (∀ c', IsCand toks valid I c' → c'.2 ≤ k → ∃ c, last = some c ∧ c'.2 ≤ c.2) →
      ∀ c', IsCand toks valid I c' → ∃ c, scan toks valid input rs k cur last = some c ∧ c'.2 ≤ c.2 := by
  intro input
  induction input with
  | nil =>
    intro rs k cur last hin hk _ _ hinv c' hc'
    have hlen : I.length ≤ k := by
      by_cases h : k < I.length
      · have := List.drop_eq_getElem_cons h; rw [← hin] at this; cases this
      · omega
    simp only [scan]
    exact hinv c' hc' (by have := hc'.2.2.2.1; omega)
  | cons ch rest ih =>
    intro rs k cur last hin hkle hrs hcur hinv c' hc'
    have hk : k < I.length := by
      by_cases h : k < I.length
      · exact h
      · have : I.drop k = [] := List.drop_eq_nil_of_le (by omega)
        rw [this] at hin; cases hin
    have hcons : ch :: rest = I[k]'hk :: I.drop (k + 1) := by rw [hin]; exact List.drop_eq_getElem_cons hk
    have h1 : I[k]'hk = ch := by injection hcons with h _; exact h.symm
    have hdrop : rest = I.drop (k + 1) := by injection hcons
    have htake : I.take (k + 1) = I.take k ++ [ch] := by
      rw [List.take_succ_eq_append_getElem hk, h1]
    have hrs' : rs.map (deriv ch) = toks.map (fun t => derivs t.re (I.take (k + 1))) := by
      rw [hrs, List.map_map]
      apply List.map_congr_left
      intro t _
      simp [htake, derivs_snoc]
    have hget : ∀ i, i < toks.length → (rs.map (deriv ch)).getD i .empty = derivs (tokAt toks i).re (I.take (k + 1)) := by
      intro i hi
      rw [hrs']
      simp [List.getD, tokAt, hi]
    -- a candidate longer than k keeps its token alive after k+1 characters
    have halive : ∀ d, IsCand toks valid I d → k < d.2 → d.1 ∈ aliveIdx toks valid (rs.map (deriv ch)) := by
      intro d hd hlt
      obtain ⟨hd1, hd2, _, hd4, hd5⟩ := hd
      simp only [aliveIdx, List.mem_filter, List.mem_range, Bool.and_eq_true]
      refine ⟨hd1, hd2, ?_⟩
      rw [hget _ hd1]
      have e : I.take d.2 = I.take (k + 1) ++ (I.take d.2).drop (k + 1) := by
        have : (I.take d.2).take (k + 1) = I.take (k + 1) := by
          rw [List.take_take]; congr 1; omega
        rw [← this, List.take_append_drop]
      rw [e] at hd5
      simp [derivs_not_empty_of_matches hd5]
    have hallp : ∀ i ∈ aliveIdx toks valid (rs.map (deriv ch)), (tokAt toks i).prec = p := by
      intro i hi
      simp only [aliveIdx, List.mem_filter, List.mem_range, Bool.and_eq_true] at hi
      exact hflat i hi.1 hi.2.1
    simp only [scan]
    cases hm : maxPrec toks (aliveIdx toks valid (rs.map (deriv ch))) with
    | none =>
      simp only
      have hnil := maxPrec_none hm
      by_cases hle : c'.2 ≤ k
      · exact hinv c' hc' hle
      · have := halive c' hc' (by omega)
        rw [hnil] at this; cases this
    | some m =>
      simp only
      have hmp : m = p := maxPrec_flat hallp hm
      have hcut : cut cur m = false := by
        rcases hcur with rfl | rfl
        · rfl
        · simp [cut, hmp]
      rw [hcut]
      simp only [Bool.false_eq_true, if_false]
      cases hb : bestOf toks (List.map (fun i => (i, k + 1))
          (List.filter (fun i => ((List.map (deriv ch) rs).getD i Regex.empty).nullable)
            (aliveIdx toks valid (List.map (deriv ch) rs)))) with
      | none =>
        simp only
        have hnil := (bestOf_spec toks _).1.1 hb
        refine ih _ _ _ _ hdrop (by omega) hrs' (Or.inl rfl) ?_ c' hc'
        intro d hd hdle
        by_cases hle : d.2 ≤ k
        · exact hinv d hd hle
        · -- a candidate of length k+1 would be a completion
          exfalso
          have hd2 : d.2 = k + 1 := by omega
          have hal := halive d hd (by omega)
          obtain ⟨hd1, _, _, _, hd5⟩ := hd
          have hn : nullable (derivs (tokAt toks d.1).re (I.take (k + 1))) = true := by
            rw [nullable_iff, derivs_iff]; simpa [hd2] using hd5
          have : (d.1, k + 1) ∈ List.map (fun i => (i, k + 1))
              (List.filter (fun i => ((List.map (deriv ch) rs).getD i Regex.empty).nullable)
                (aliveIdx toks valid (List.map (deriv ch) rs))) := by
            simp only [List.mem_map, List.mem_filter, Prod.mk.injEq, and_true]
            exact ⟨d.1, ⟨hal, by rw [hget _ hd1]; exact hn⟩, rfl⟩
          rw [hnil] at this; cases this
      | some b =>
        simp only
        obtain ⟨hmem, _⟩ := (bestOf_spec toks _).2 b hb
        simp only [List.mem_map, List.mem_filter] at hmem
        obtain ⟨i, ⟨hial, _⟩, rfl⟩ := hmem
        refine ih _ _ _ _ hdrop (by omega) hrs' (Or.inr (by rw [hallp i hial])) ?_ c' hc'
        intro d _ hdle
        exact ⟨(i, k + 1), rfl, hdle⟩

/-! ### mixed precedences: the scan reaches every candidate of top precedence, and only grows -/

theorem maxPrec_ge {toks : List Token} : ∀ {is : List Nat} {i : Nat}, i ∈ is →
    ∃ m, maxPrec toks is = some m ∧ (tokAt toks i).prec ≤ m := by
  intro is
  induction is with
  | nil => intro i h; cases h
  | cons j is ih =>
    intro i hi
    simp only [maxPrec]
    rcases List.mem_cons.1 hi with rfl | hi
    · cases hm : maxPrec toks is with
      | none => exact ⟨_, rfl, Int.le_refl _⟩
      | some m => exact ⟨_, rfl, Int.le_max_right _ _⟩
    · obtain ⟨m, hm, hle⟩ := ih hi
      rw [hm]
      exact ⟨_, rfl, Int.le_trans hle (Int.le_max_left _ _)⟩

/-- once something has been accepted, the scan's answer is at least as long -/
theorem scan_mono (toks : List Token) (valid : Nat → Bool) :
    ∀ (input : List Nat) (rs : List Regex) (k : Nat) (cur : Option Int) (c0 : Cand), c0.2 ≤ k →
      ∃ c, scan toks valid input rs k cur (some c0) = some c ∧ c0.2 ≤ c.2 := by
  intro input
  induction input with
  | nil => intro rs k cur c0 _; exact ⟨c0, rfl, Nat.le_refl _⟩
  | cons ch rest ih =>
    intro rs k cur c0 hk
    simp only [scan]
    cases hm : maxPrec toks (aliveIdx toks valid (rs.map (deriv ch))) with
    | none => exact ⟨c0, rfl, Nat.le_refl _⟩
    | some m =>
      simp only
      by_cases hcut : cut cur m = true
      · rw [if_pos hcut]; exact ⟨c0, rfl, Nat.le_refl _⟩
      · rw [if_neg hcut]
        cases hb : bestOf toks (List.map (fun i => (i, k + 1))
            (List.filter (fun i => ((List.map (deriv ch) rs).getD i Regex.empty).nullable)
              (aliveIdx toks valid (List.map (deriv ch) rs)))) with
        | none => simp only; exact ih _ _ _ _ (by omega)
        | some b =>
          simp only
          obtain ⟨hmem, _⟩ := (bestOf_spec toks _).2 b hb
          simp only [List.mem_map] at hmem
          obtain ⟨i, _, rfl⟩ := hmem
          obtain ⟨c, hc, hle⟩ := ih (rs.map (deriv ch)) (k + 1) (some (tokAt toks i).prec) (i, k + 1) (Nat.le_refl _)
          exact ⟨c, hc, by simp at hle; omega⟩

/-- a candidate whose precedence is maximal among all candidates is always reached: the cut-off
cannot fire before its length, because its token stays alive with at least the completed precedence -/
theorem scan_reaches_top (toks : List Token) (valid : Nat → Bool) (I : List Nat) (d : Cand)
    (hd : IsCand toks valid I d)
    (htop : ∀ c, IsCand toks valid I c → (tokAt toks c.1).prec ≤ (tokAt toks d.1).prec) :
    ∀ (input : List Nat) (rs : List Regex) (k : Nat) (cur : Option Int) (last : Option Cand),
      input = I.drop k → rs = toks.map (fun t => derivs t.re (I.take k)) →
      (∀ P, cur = some P → P ≤ (tokAt toks d.1).prec) →
      (∀ c, last = some c → c.2 ≤ k) →
      (d.2 ≤ k → ∃ c, last = some c ∧ d.2 ≤ c.2) →
      ∃ c, scan toks valid input rs k cur last = some c ∧ d.2 ≤ c.2 := by
  intro input
  induction input with
  | nil =>
    intro rs k cur last hin _ _ _ hreach
    have hlen : I.length ≤ k := by
      by_cases h : k < I.length
      · have := List.drop_eq_getElem_cons h; rw [← hin] at this; cases this
      · omega
    simp only [scan]
    exact hreach (by have := hd.2.2.2.1; omega)
  | cons ch rest ih =>
    intro rs k cur last hin hrs hcur hlast hreach
    have hk : k < I.length := by
      by_cases h : k < I.length
      · exact h
      · have : I.drop k = [] := List.drop_eq_nil_of_le (by omega)
        rw [this] at hin; cases hin
    have hcons : ch :: rest = I[k]'hk :: I.drop (k + 1) := by rw [hin]; exact List.drop_eq_getElem_cons hk
    have h1 : I[k]'hk = ch := by injection hcons with h _; exact h.symm
    have hdrop : rest = I.drop (k + 1) := by injection hcons
    have htake : I.take (k + 1) = I.take k ++ [ch] := by
      rw [List.take_succ_eq_append_getElem hk, h1]
    have hrs' : rs.map (deriv ch) = toks.map (fun t => derivs t.re (I.take (k + 1))) := by
      rw [hrs, List.map_map]
      apply List.map_congr_left
      intro t _
      simp [htake, derivs_snoc]
    have hget : ∀ i, i < toks.length → (rs.map (deriv ch)).getD i .empty = derivs (tokAt toks i).re (I.take (k + 1)) := by
      intro i hi
      rw [hrs']
      simp [List.getD, tokAt, hi]
    by_cases hdk : d.2 ≤ k
    · -- already reached: whatever happens, the answer only grows
      obtain ⟨c0, hc0, hle⟩ := hreach hdk
      rw [hc0]
      obtain ⟨c, hc, hle'⟩ := scan_mono toks valid (ch :: rest) rs k cur c0 (hlast c0 hc0)
      exact ⟨c, hc, by omega⟩
    · -- `d`'s token is alive after k+1 characters
      have halive : d.1 ∈ aliveIdx toks valid (rs.map (deriv ch)) := by
        obtain ⟨hd1, hd2, _, hd4, hd5⟩ := hd
        simp only [aliveIdx, List.mem_filter, List.mem_range, Bool.and_eq_true]
        refine ⟨hd1, hd2, ?_⟩
        rw [hget _ hd1]
        have e : I.take d.2 = I.take (k + 1) ++ (I.take d.2).drop (k + 1) := by
          have : (I.take d.2).take (k + 1) = I.take (k + 1) := by
            rw [List.take_take]; congr 1; omega
          rw [← this, List.take_append_drop]
        rw [e] at hd5
        simp [derivs_not_empty_of_matches hd5]
      obtain ⟨m, hm, hmle⟩ := maxPrec_ge (toks := toks) halive
      simp only [scan, hm]
      have hcut : cut cur m = false := by
        cases hc : cur with
        | none => rfl
        | some P =>
          have := hcur P hc
          simp only [cut, decide_eq_false_iff_not]
          omega
      rw [hcut]
      simp only [Bool.false_eq_true, if_false]
      cases hb : bestOf toks (List.map (fun i => (i, k + 1))
          (List.filter (fun i => ((List.map (deriv ch) rs).getD i Regex.empty).nullable)
            (aliveIdx toks valid (List.map (deriv ch) rs)))) with
      | none =>
        simp only
        have hnil := (bestOf_spec toks _).1.1 hb
        refine ih _ _ _ _ hdrop hrs' (by intro P h; cases h) (fun c hc => by have := hlast c hc; omega) ?_
        intro hle
        -- d.2 = k+1 would make d a completion
        exfalso
        have hd2 : d.2 = k + 1 := by omega
        obtain ⟨hd1, _, _, _, hd5⟩ := hd
        have hn : nullable (derivs (tokAt toks d.1).re (I.take (k + 1))) = true := by
          rw [nullable_iff, derivs_iff]; simpa [hd2] using hd5
        have : (d.1, k + 1) ∈ List.map (fun i => (i, k + 1))
            (List.filter (fun i => ((List.map (deriv ch) rs).getD i Regex.empty).nullable)
              (aliveIdx toks valid (List.map (deriv ch) rs))) := by
          simp only [List.mem_map, List.mem_filter, Prod.mk.injEq, and_true]
          exact ⟨d.1, ⟨halive, by rw [hget _ hd1]; exact hn⟩, rfl⟩
        rw [hnil] at this; cases this
      | some b =>
        simp only
        obtain ⟨hmem, _⟩ := (bestOf_spec toks _).2 b hb
        simp only [List.mem_map, List.mem_filter, aliveIdx, List.mem_range, Bool.and_eq_true] at hmem
        obtain ⟨i, ⟨⟨hi, hv, _⟩, hnull⟩, rfl⟩ := hmem
        -- the completion is a candidate, so its precedence is at most the top one
        have hcand : IsCand toks valid I (i, k + 1) := by
          rw [hget i hi] at hnull
          refine ⟨hi, hv, by simp, by simp; omega, ?_⟩
          have := (nullable_iff _).1 hnull
          simpa using (derivs_iff _ _ _).1 this
        refine ih _ _ _ _ hdrop hrs' ?_ ?_ ?_
        · intro P hP; cases hP; exact htop _ hcand
        · intro c hc; cases hc; exact Nat.le_refl _
        · intro hle; exact ⟨(i, k + 1), rfl, hle⟩

/-! ### without inner precedences the generalised scan is the scan -/

theorem maxInt_map_prec (toks : List Token) : ∀ is : List Nat, maxInt (is.map (fun i => (tokAt toks i).prec)) = maxPrec toks is := by
  intro is
  induction is with
  | nil => rfl
  | cons i is ih => simp only [List.map_cons, maxInt, maxPrec, ih]

theorem getD_map_single (rs : List Regex) (i : Nat) :
    (rs.map (fun r => [r])).getD i [] = if i < rs.length then [rs.getD i .empty] else [] := by
  by_cases hi : i < rs.length
  · simp [List.getD, hi]
  · have h1 : rs.length ≤ i := by omega
    simp [List.getD, hi, List.getElem?_eq_none h1]

theorem getD_out (rs : List Regex) (i : Nat) (hi : ¬ i < rs.length) : rs.getD i .empty = .empty := by
  have h1 : rs.length ≤ i := by omega
  simp [List.getD, List.getElem?_eq_none h1]

theorem alivePrecs_single (toks : List Token) (valid : Nat → Bool) (rs : List Regex)
    (hU : ∀ i, (tokAt toks i).alts = []) :
    alivePrecs toks valid (rs.map (fun r => [r])) = (aliveIdx toks valid rs).map (fun i => (tokAt toks i).prec) := by
  unfold alivePrecs aliveIdx
  generalize List.range toks.length = is
  induction is with
  | nil => rfl
  | cons i is ih =>
    simp only [List.flatMap_cons, List.filter_cons, ih]
    have halts : altsOf (tokAt toks i) = [((tokAt toks i).prec, (tokAt toks i).re)] := by
      simp [altsOf, hU i]
    rw [halts, getD_map_single]
    by_cases hv : valid i = true
    · by_cases hi : i < rs.length
      · rw [if_pos hi]
        generalize rs.getD i .empty = x
        cases he : x.isEmpty <;> simp [hv, he]
      · rw [if_neg hi, getD_out rs i hi]
        simp [hv, Regex.isEmpty]
    · simp [hv]

theorem comps_single (toks : List Token) (valid : Nat → Bool) (rs : List Regex) :
    (List.range toks.length).filter (fun i => valid i && ((rs.map (fun r => [r])).getD i []).any nullable) =
    (aliveIdx toks valid rs).filter (fun i => nullable (rs.getD i .empty)) := by
  unfold aliveIdx
  rw [List.filter_filter]
  apply List.filter_congr
  intro i _
  rw [getD_map_single]
  by_cases hi : i < rs.length
  · rw [if_pos hi]
    generalize rs.getD i .empty = x
    cases hn : nullable x with
    | false => simp [hn]
    | true => simp [hn, nullable_not_isEmpty hn]
  · rw [if_neg hi, getD_out rs i hi]
    simp [nullable]

theorem scanP_eq_scan (toks : List Token) (valid : Nat → Bool) (hU : ∀ i, (tokAt toks i).alts = []) :
    ∀ (input : List Nat) (rs : List Regex) (k : Nat) (cur : Option Int) (last : Option Cand),
      scanP toks valid input (rs.map (fun r => [r])) k cur last = scan toks valid input rs k cur last := by
  intro input
  induction input with
  | nil => intro rs k cur last; rfl
  | cons c rest ih =>
    intro rs k cur last
    have hmap : (rs.map (fun r => [r])).map (fun alts => alts.map (deriv c)) = (rs.map (deriv c)).map (fun r => [r]) := by
      simp [List.map_map, Function.comp_def]
    simp only [scanP, scan, hmap, alivePrecs_single toks valid _ hU, maxInt_map_prec, comps_single, ih]

theorem lexScan_ok (toks : List Token) (valid : Nat → Bool) (I : List Nat) (c : Cand)
    (h : lexScan toks valid I = some c) : ScanOK toks valid I c := by
  unfold lexScan at h
  refine scan_sound toks valid I I _ 0 none none (by simp) ?_ (by intro c h; cases h) c h
  simp [derivs]

end TsVerif.C14
